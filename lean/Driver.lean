import CfbVerif.Drv.Handle

def main (args : List String) : IO UInt32 := do
  match args with
  | ["handle"] => CfbVerif.Drv.Handle.main; return 0
  | _ => IO.eprintln "usage: driver <handle|...>"; return 2
