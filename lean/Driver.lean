import CfbVerif.Drv.Handle
import CfbVerif.Drv.Names
import CfbVerif.Drv.Time
import CfbVerif.Drv.Api
import CfbVerif.Drv.Raw
import CfbVerif.Drv.Lock
import CfbVerif.Drv.Phys

def main (args : List String) : IO UInt32 := do
  match args with
  | ["handle"] => CfbVerif.Drv.Handle.main; return 0
  | ["handlef"] => CfbVerif.Drv.Handle.mainF; return 0
  | ["names"] => CfbVerif.Drv.Names.main; return 0
  | ["time"] => CfbVerif.Drv.Time.main; return 0
  | ["api"] => CfbVerif.Drv.Api.main; return 0
  | ["raw"] => CfbVerif.Drv.Raw.main; return 0
  | ["locks"] => CfbVerif.Drv.Lock.main; return 0
  | "phys" :: rest => CfbVerif.Drv.Phys.main rest; return 0
  | ["speccheck"] => CfbVerif.Drv.Phys.specFiles; return 0
  | _ => IO.eprintln "usage: driver <handle|...>"; return 2
