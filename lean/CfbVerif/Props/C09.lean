import CfbVerif.Spec.Consts
import CfbVerif.Names.Paths
/-!
# C09 — names are validated, case-insensitive, and paths are normalised consistently

Property text: *Creating an object whose name is longer than 31 UTF-16 units or contains one of
/ \ : ! is rejected with InvalidInput and changes nothing; every other name is accepted, stored
verbatim, and found again under any letter-case variant, while a second sibling equal up to case is
refused (or, for create_stream, replaces the first).  Any set of valid sibling names can coexist,
each stays findable after every insertion and removal, and listings are in CFB order (shorter
first, then by upper-cased code units).  Paths that differ only by a leading/trailing slash, '.'
components or resolvable '..' components address the same object; paths escaping the root are
InvalidInput.*

This file holds the theorems about the pure functions of path.rs (`Names` model).  The API-level
half (create/lookup/list over all insertion and removal orders) is carried by the directory model
of C01 (`CfbVerif.Props.C01`), which is parametric in a comparator satisfying exactly the laws
proved here.
-/
namespace CfbVerif.Props.C09
open CfbVerif.Names

/-- The library's effective upper-casing agrees with ASCII upper-casing on ASCII — the hypothesis
under which the ASCII fast path of `compare_names` equals the general path.  Checked by kernel
evaluation over the generated table. -/
theorem C09_ascii_agree : ∀ c, c < 128 → Gen.upper c = asciiUpper c := by decide +kernel

/-- `compare_names` — both code paths — is the comparison of the key
`(UTF-16 length, upper-cased UTF-16 code units)`: shorter first, then by upper-cased code units. -/
theorem C09_cmp_key (a b : Name) :
    cmpNames Gen.upper a b = cmpKey (key Gen.upper a) (key Gen.upper b) :=
  cmpNames_key Gen.upper C09_ascii_agree a b

/-- The order laws every search-tree argument needs (reflexive, antisymmetric via `swap`,
transitive, equality-compatible). -/
theorem C09_cmp_laws (a b c : Name) :
    cmpNames Gen.upper a a = .eq ∧
    cmpNames Gen.upper a b = (cmpNames Gen.upper b a).swap ∧
    (cmpNames Gen.upper a b = .lt → cmpNames Gen.upper b c = .lt → cmpNames Gen.upper a c = .lt) ∧
    (cmpNames Gen.upper a b = .eq → cmpNames Gen.upper b c = cmpNames Gen.upper a c) := by
  simp only [C09_cmp_key]
  refine ⟨cmpKey_refl _, cmpKey_swap _ _, cmpKey_trans_lt _ _ _, ?_⟩
  intro h
  rw [(cmpKey_eq_iff _ _).mp h]

/-- Two names are "equal up to case" exactly when their keys coincide. -/
theorem C09_eq_iff (a b : Name) :
    cmpNames Gen.upper a b = .eq ↔
      utf16Len a = utf16Len b ∧ utf16 (a.map Gen.upper) = utf16 (b.map Gen.upper) := by
  rw [C09_cmp_key, cmpKey_eq_iff]; simp [key, Prod.ext_iff]

/-- Every pair of the generated upper-casing table keeps the scalar in its plane class (so a case
variant has the same UTF-16 length) and maps to a fixed point (upper-casing is idempotent). -/
theorem C09_table_sane :
    CfbVerif.Gen.upperPairs.all (fun chunk => chunk.all (fun (c, u) =>
      (decide (c < 0x10000) == decide (u < 0x10000)) && (Gen.upper u == u) && (Gen.upper c == u))) = true := by
  decide +kernel

/-- **Validation**: a name is accepted iff it has at most 31 UTF-16 code units and none of
`/ \ : !` (the literals are MS-CFB's; the model's are the generated `MAX_NAME_LEN` and
forbidden-character list, so a changed constant breaks this proof). -/
theorem C09_validate (n : Name) :
    validateName n = true ↔ utf16Len n ≤ 31 ∧ 47 ∉ n ∧ 92 ∉ n ∧ 58 ∉ n ∧ 33 ∉ n :=
  validateName_iff n

/-- **Path normalisation**, on components: resolvable `..`, `.`, and a root component.  (`x` is a
component that is text; a component that is not valid UTF-8 is refused wherever it stands —
`C09_path_nontext` — so `a/<bad>/..` is `InvalidInput` although it would resolve.) -/
theorem C09_path_norm (pre post : List Comp) (x : Name) (acc : List Name) (hx : isText x = true) :
    chainFold acc (pre ++ [.normal x, .parent] ++ post) = chainFold acc (pre ++ post) ∧
    chainFold acc (pre ++ [.cur] ++ post) = chainFold acc (pre ++ post) ∧
    chainFold [] (.parent :: post) = none :=
  ⟨chain_dotdot pre post x acc hx, chain_dot pre post acc, chain_escape post⟩

/-- a path with a component that is not valid UTF-8 is `InvalidInput` -/
theorem C09_path_nontext (pre post : List Comp) (x : Name) (acc : List Name) (hx : isText x = false)
    (hp : chainFold acc pre ≠ none) : chainFold acc (pre ++ [.normal x] ++ post) = none :=
  chain_nontext pre post x acc hx hp

/-- … and on path strings: a leading slash and a trailing slash address the same object. -/
theorem C09_path_slashes (p : List Nat) :
    nameChain (47 :: p) = nameChain p ∧ (p ≠ [] → nameChain (p ++ [47]) = nameChain p) :=
  ⟨nameChain_leading_slash p, fun hp => by unfold nameChain; rw [components_trailing_slash p hp]⟩

/-- A path made of plain names resolves to exactly those names (stored verbatim). -/
theorem C09_path_plain (ns : List Name) (ht : ∀ n ∈ ns, isText n = true) :
    chainFold [] (ns.map .normal) = some ns := by
  simpa using chain_normals ns [] ht

/-! ### Non-vacuity / sanity on concrete names -/

-- "foobar" = "FOOBAR", "foo" < "barfoo" (shorter first), "Foo" > "bar"
example : cmpNames Gen.upper [102,111,111,98,97,114] [70,79,79,66,65,82] = .eq := by decide +kernel
example : cmpNames Gen.upper [102,111,111] [98,97,114,102,111,111] = .lt := by decide +kernel
example : cmpNames Gen.upper [70,111,111] [98,97,114] = .gt := by decide +kernel
-- a surrogate pair sorts below U+FFFD followed by x?  No: lengths equal (2 units), D800 < FFFD.
example : cmpNames Gen.upper [0x10000] [0xFFFD, 120] = .lt := by decide +kernel
-- "/a/./b/../c/" resolves to a/c
example : nameChain [47,97,47,46,47,98,47,46,46,47,99,47] = some [[97],[99]] := by decide +kernel
example : nameChain [97,47,46,46,47,46,46] = none := by decide +kernel
example : validateName (List.replicate 31 97) = true ∧ validateName (List.replicate 32 97) = false ∧
    validateName [97, 58, 98] = false := by decide +kernel

end CfbVerif.Props.C09
