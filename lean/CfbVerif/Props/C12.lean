import CfbVerif.Handle.Faults
import CfbVerif.Io.Model
import CfbVerif.Props.C06
/-!
# C12 — read failures of the underlying file never turn into wrong data

Property text: *On a file that is only read, under any sequence of read or seek failures injected
into the underlying reader, every API call - open, lookups, listing, stream reads and seeks -
either returns an error or returns exactly what it returns without faults.  After a failed call the
same handle can be used again and still never yields bytes that differ from the stream's true
content, and nothing panics.*

* `C12_fail_or_same`: any program over the underlying reader that has no `catch` (the shape of
  `open` and of every stream read: errors only propagate with `?`) either fails with the injected
  I/O error or returns what the fault-free run returns — for **every** fault schedule.
* `C12_handle_step` / `C12_handle_run`: on a handle, any operation under any fault either behaves
  as without the fault or reports the error and leaves a handle that still satisfies the window
  invariant over the unchanged content at the unchanged position; hence every byte it ever
  delivers afterwards is the true content (by C06).
Lookups (`entry`, `exists`, `read_storage`, `walk`) do no I/O at all in the library (they read the
in-memory directory): there is nothing to fail.
-/
namespace CfbVerif.Props.C12
open CfbVerif.Io CfbVerif.Handle

/-- **fail or same**, for every program and every fault schedule -/
theorem C12_fail_or_same {α : Type} (img : Io.Bytes) (sched : Nat → Bool) (p : Prog α) (n : Nat) :
    (∃ k, runFaulty img sched n p = .ioErr k) ∨ runFaulty img sched n p = runOk img p := by
  induction p generalizing n with
  | ret a => right; rfl
  | fail m => right; rfl
  | readAt off len k ih =>
    simp only [runFaulty, runOk]
    by_cases hs : sched n = true
    · left; simp [hs]
    · simp only [hs, if_false, Bool.false_eq_true]
      exact ih _ (n + 1)

/-- the handle under faults, one call -/
theorem C12_handle_step (h : H) (st : Handle.Bytes) (hi : Inv h st) (ft : Fault) (op : HOp) (hok : op.ok h) :
    let r := stepF h st ft op
    Inv r.1 r.2.1 ∧
    ((r.2.2 = ioErr ∧ absContent r.1 r.2.1 = absContent h st ∧ r.1.position = h.position) ∨
     Vec.Step (abs h st) op r.2.2 (abs r.1 r.2.1)) := by
  intro r
  rcases stepF_spec h st hi ft op with he | ⟨herr, hf⟩
  · have := C06.C06_step h st hi op hok
    simp only [r, he]
    exact ⟨this.1, Or.inr this.2⟩
  · exact ⟨hf.inv, Or.inl ⟨herr, hf.content, hf.position⟩⟩

theorem step_content_eq {v v' : Vec} {op : HOp} {o : Out} (hs : Vec.Step v op o v')
    (hw : ∀ bs, op ≠ .write bs) (hl : ∀ n, op ≠ .setLen n) : v'.content = v.content := by
  cases hs with
  | read => rfl
  | fillBuf => rfl
  | consume => rfl
  | write bs k => exact absurd rfl (hw bs)
  | seekOk => rfl
  | seekErr => rfl
  | setLen n => exact absurd rfl (hl n)
  | flush => rfl
  | len => rfl

/-- a whole script with a fault (or none) chosen for every call -/
def runF (h : H) (st : Handle.Bytes) : List (HOp × Fault) → H × Handle.Bytes × List Out
  | [] => (h, st, [])
  | (op, ft) :: rest =>
    let (h1, st1, o) := stepF h st ft op
    let (h2, st2, os) := runF h1 st1 rest
    (h2, st2, o :: os)

def ScriptOkF : H → Handle.Bytes → List (HOp × Fault) → Prop
  | _, _, [] => True
  | h, st, (op, ft) :: rest => op.ok h ∧ ScriptOkF (stepF h st ft op).1 (stepF h st ft op).2.1 rest

/-- **all fault sequences**: after any script under any faults the handle still satisfies the
window invariant and stands for the same content as a fault-free history of the successful calls:
in particular, on a file that is only read, the content never changes -/
theorem C12_handle_run (script : List (HOp × Fault)) : ∀ (h : H) (st : Handle.Bytes), Inv h st →
    ScriptOkF h st script → (∀ p ∈ script, ∀ bs, p.1 ≠ .write bs) → (∀ p ∈ script, ∀ n, p.1 ≠ .setLen n) →
    Inv (runF h st script).1 (runF h st script).2.1 ∧
    absContent (runF h st script).1 (runF h st script).2.1 = absContent h st := by
  induction script with
  | nil => intro h st hi _ _ _; exact ⟨hi, rfl⟩
  | cons p rest ih =>
    intro h st hi hok hw hs
    obtain ⟨op, ft⟩ := p
    have s1 := C12_handle_step h st hi ft op hok.1
    simp only at s1
    have hcontent : absContent (stepF h st ft op).1 (stepF h st ft op).2.1 = absContent h st := by
      rcases s1.2 with ⟨_, hc, _⟩ | hstep
      · exact hc
      · -- a successful read-only call does not change the vector's content
        exact step_content_eq hstep (fun bs => hw (op, ft) (by simp) bs) (fun n => hs (op, ft) (by simp) n)
    have := ih _ _ s1.1 hok.2 (fun q hq => hw q (by simp [hq])) (fun q hq => hs q (by simp [hq]))
    simp only [runF]
    exact ⟨this.1, by rw [this.2, hcontent]⟩

/-! ### the defect this property is about, as a witness on the *unrepaired* window handling:
keeping the old `cap` after a failed refill would serve the previous window's bytes at the new
offset.  With the repaired `fillBufF` the window is empty after the failure: -/
example : (fillBufF ⟨6, [1, 2, 3], 1024, 3, 1024, 0, false⟩ [1, 2, 3, 4, 5, 6] .refill).1.win = [] ∧
    (fillBufF ⟨6, [1, 2, 3], 1024, 3, 1024, 0, false⟩ [1, 2, 3, 4, 5, 6] .refill).1.off = 3 := by decide

end CfbVerif.Props.C12
