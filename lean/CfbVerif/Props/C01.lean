import CfbVerif.Dir.Listing
/-!
# C01 — namespace and content operations agree with an abstract tree model

Property text: *Every sequence of public operations on a compound file (create, overwrite, remove,
recursive create/remove, open, list, walk, exists/is_stream/is_storage, entry lookup, whole-stream
write and read) returns exactly what an abstract model returns: a tree of storages holding
case-insensitively unique names, whose leaves are byte vectors.  Success versus error and the error
kind (NotFound, AlreadyExists, InvalidInput), listing order (CFB shortlex order, walk in pre-order),
entry metadata, lengths and stream bytes must all match after every step, for format versions 3
and 4, on files created fresh or reopened.*

Model: `CfbVerif.Dir` (directory.rs, entry.rs, the path-level API of lib.rs).  The abstract model
is the partial map `view s.top : List Name → Option View` from case-insensitive paths to objects
(`Dir/Spec.lean`); a tree is exactly a prefix-closed such map.  The format version does not occur
in `Dir.step` (it only selects sector sizes), and `reopen` is the identity on `Dir.State`; that the
*implementation* agrees with this for both versions and across reopen is the lock-step's job
(level O+D, both versions, reopen in either mode inside the histories).

Stream bytes are carried as byte lists here; that the chain layer stores them is not part of this
model (content half: lock-step only — `get`, `snap`).
-/
set_option linter.unusedSimpArgs false
set_option linter.unusedVariables false
namespace CfbVerif.Props.C01
open CfbVerif.Dir CfbVerif.Names

theorem view_of_resolve {t : Tree} {q : List Name} {r : Res} (h : resolve t q = some r) :
    view t q = some (viewOf r) := by simp [view, h]

theorem isStreamRes_eq (r : Res) : isStreamRes r = (viewOf r).isStream := by
  cases r <;> rfl

/-- **create** (storage, new stream, overwriting stream, whole-stream write): the model's
`createAt` is the abstract model's create, and keeps the directory invariant. -/
theorem C01_create (s : State) (hw : s.top.WF) (names : List Name) (stream : Option (Bool × Bytes)) :
    (createAt s names stream).1.top.WF ∧
    CreateSpec (view s.top) (view (createAt s names stream).1.top) names stream (createAt s names stream).2 := by
  unfold createAt
  by_cases hv : validChain names = true
  · simp only [hv, Bool.not_true, Bool.false_eq_true, if_false]
    cases hr : resolve s.top names with
    | some r =>
      simp only
      cases stream with
      | none => exact ⟨hw, .alreadyExists _ hv (view_of_resolve hr) (Or.inl rfl) rfl⟩
      | some od =>
        obtain ⟨overwrite, data⟩ := od
        simp only
        by_cases hs : isStreamRes r = true
        · simp only [hs, Bool.not_true, Bool.false_eq_true, if_false]
          by_cases ho : overwrite = true
          · subst ho
            simp only [Bool.not_true, Bool.false_eq_true, if_false]
            cases r with
            | root => simp [isStreamRes] at hs
            | ent e k =>
              have hne : names ≠ [] := by
                intro h; subst h; simp [resolve] at hr
              have hme := view_modifyEntry (fun e k => ({ e with content := data }, k))
                (fun _ _ => rfl) (fun _ _ => rfl) names s.top hne
              refine ⟨?_, .overwritten e.core data hv (view_of_resolve hr) hs rfl ⟨hme.1, hme.2 e k hr⟩⟩
              -- WF: only the content of one entry changes
              clear hme
              induction names generalizing s with
              | nil => exact absurd rfl hne
              | cons p ps ih =>
                cases ps with
                | nil =>
                  simp only [modifyEntry]
                  exact wf_update p _ (fun _ _ => rfl) (fun e' k' _ hk hs' => ⟨hk, hs'⟩) hw
                | cons q qs =>
                  simp only [modifyEntry]
                  apply wf_update p _ (fun _ _ => rfl) _ hw
                  intro e' k' hf' hk hs'
                  rw [resolve_cons, hf'] at hr
                  simp only [List.cons_ne_nil, if_false] at hr
                  refine ⟨ih ⟨s.rootMeta, k'⟩ hk (by simp [validChain] at hv ⊢; exact hv.2) hr (by simp), ?_⟩
                  intro hst
                  rw [hs' hst] at hr
                  simp [resolve_cons, Tree.find?] at hr
          · have ho' : overwrite = false := by simpa using ho
            subst ho'
            exact ⟨hw, .alreadyExists _ hv (view_of_resolve hr) (Or.inr (Or.inr ⟨data, rfl⟩)) rfl⟩
        · have hs' : isStreamRes r = false := by simpa using hs
          simp only [hs', Bool.not_false, if_true]
          exact ⟨hw, .alreadyExists _ hv (view_of_resolve hr)
            (Or.inr (Or.inl (by rw [← isStreamRes_eq]; exact hs'))) rfl⟩
    | none =>
      simp only
      have hvn : view s.top names = none := (view_eq_none_iff _ _).mpr hr
      cases hrev : names.reverse with
      | nil =>
        have : names = [] := by simpa using hrev
        subst this; simp [resolve] at hr
      | cons name revParent =>
        simp only
        have hnames : names = revParent.reverse ++ [name] := by
          have := congrArg List.reverse hrev; simpa using this
        cases hp : resolve s.top revParent.reverse with
        | none =>
          simp only
          refine ⟨hw, .noParent hv hvn ?_ rfl⟩
          intro parent nm hpn
          have : parent = revParent.reverse ∧ nm = name := by
            rw [hnames] at hpn
            exact ⟨(List.append_inj' hpn rfl).1.symm, by simpa using (List.append_inj' hpn rfl).2.symm⟩
          rw [this.1]; left; exact (view_eq_none_iff _ _).mpr hp
        | some r =>
          simp only
          by_cases hs : isStreamRes r = true
          · simp only [hs, if_true]
            refine ⟨hw, .noParent hv hvn ?_ rfl⟩
            intro parent nm hpn
            have : parent = revParent.reverse := by
              rw [hnames] at hpn; exact (List.append_inj' hpn rfl).1.symm
            rw [this]; right
            exact ⟨viewOf r, view_of_resolve hp, by rw [← isStreamRes_eq]; exact hs⟩
          · have hs' : isStreamRes r = false := by simpa using hs
            simp only [hs', Bool.false_eq_true, if_false]
            -- the storage's children tree, in which `name` is absent
            have hK := kidsAt_eq revParent.reverse s.top
            rw [hp] at hK
            have hsn := resolve_snoc revParent.reverse name s.top
            rw [← hnames, hr] at hsn
            generalize hx : mkEntry (freshSlot s.top) name stream = x
            have hxname : x.name = name := by rw [← hx]; rfl
            have hxs : x.isStream = stream.isSome := by rw [← hx]; rfl
            have hxc : x.content = (stream.map (·.2)).getD [] := by rw [← hx]; rfl
            have hxm : x.md = (if stream.isSome then Meta.blank else ⟨nilClsid, 0, PIN_TS, PIN_TS⟩) := by
              rw [← hx]; cases stream <;> simp [mkEntry, newEntry]
            obtain ⟨K, hKe, habs⟩ : ∃ K, kidsAt s.top revParent.reverse = some K ∧ K.find? x.name = none := by
              cases r with
              | root =>
                simp only at hK
                refine ⟨s.top, hK, ?_⟩
                rw [hK] at hsn; simp only [Option.bind_some] at hsn
                rw [hxname]
                cases h : s.top.find? name with
                | none => rfl
                | some v => rw [h] at hsn; simp at hsn
              | ent e k =>
                simp only at hK
                refine ⟨k, hK, ?_⟩
                rw [hK] at hsn; simp only [Option.bind_some] at hsn
                rw [hxname]
                cases h : k.find? name with
                | none => rfl
                | some v => rw [h] at hsn; simp at hsn
            have hfr := view_insert_frame x revParent.reverse s.top K hKe habs
            rw [hxname, ← hnames] at hfr
            refine ⟨?_, .created revParent.reverse name x (viewOf r) hv hvn hnames (view_of_resolve hp)
              (by rw [← isStreamRes_eq]; exact hs') hxname hxs hxc hxm ⟨hfr.1, hfr.2⟩⟩
            apply wf_modifyKids _ (fun K hK => wf_insert hK) _ _ hw
            intro e k hre
            rw [hp] at hre
            simp only [Option.some.injEq] at hre
            subst hre
            simpa [isStreamRes] using hs'
  · have hv' : validChain names = false := by simpa using hv
    simp only [hv', Bool.not_false, if_true]
    exact ⟨hw, .invalidName hv' rfl⟩


theorem dropLast_append_getLast {names : List Name} {name : Name} (h : names.getLast? = some name) :
    names = names.dropLast ++ [name] := by
  have hne : names ≠ [] := by intro h0; subst h0; simp at h
  have := List.dropLast_concat_getLast hne
  rw [List.getLast?_eq_some_getLast hne] at h
  simp only [Option.some.injEq] at h
  rw [← h]; exact this.symm

/-- **remove** (stream or empty storage): the model's `removeAt` is the abstract model's remove,
keeps the invariant, and — because nothing but the removed entry leaves the map, entries being
compared with their slot — every surviving entry keeps its directory slot. -/
theorem C01_remove (s : State) (hw : s.top.WF) (names : List Name) (wantStream : Bool) :
    (removeAt s names wantStream).1.top.WF ∧
    RemoveSpec (view s.top) (view (removeAt s names wantStream).1.top) names wantStream
      (kidsAt s.top names = some .leaf) (removeAt s names wantStream).2 := by
  unfold removeAt
  cases hr : resolve s.top names with
  | none => exact ⟨hw, .missing ((view_eq_none_iff _ _).mpr hr) rfl⟩
  | some r =>
    cases r with
    | root => exact ⟨hw, .isRoot (view_of_resolve hr) rfl⟩
    | ent e k =>
      simp only
      have hne : names ≠ [] := by intro h; subst h; simp [resolve] at hr
      obtain ⟨name, hlast⟩ : ∃ name, names.getLast? = some name := by
        cases h : names.getLast? with
        | none => simp at h; exact absurd h hne
        | some n => exact ⟨n, rfl⟩
      have hnames := dropLast_append_getLast hlast
      -- the parent's children tree and the entry in it
      have hsn := resolve_snoc names.dropLast name s.top
      rw [← hnames, hr] at hsn
      obtain ⟨K, hK, hfind⟩ : ∃ K, kidsAt s.top names.dropLast = some K ∧ K.find? name = some (e, k) := by
        cases hk : kidsAt s.top names.dropLast with
        | none => rw [hk] at hsn; simp at hsn
        | some K =>
          refine ⟨K, rfl, ?_⟩
          rw [hk] at hsn; simp only [Option.bind_some] at hsn
          cases hf : K.find? name with
          | none => rw [hf] at hsn; simp at hsn
          | some v =>
            obtain ⟨e', k'⟩ := v
            rw [hf] at hsn
            simp only [Option.map_some, Option.some.injEq, Res.ent.injEq] at hsn
            rw [hsn.1, hsn.2]
      have hKwf : K.WF := by
        have := kidsAt_eq names.dropLast s.top
        rw [hK] at this
        cases hp : resolve s.top names.dropLast with
        | none => rw [hp] at this; simp at this
        | some rp =>
          rw [hp] at this
          cases rp with
          | root => simp only [Option.some.injEq] at this; rw [this]; exact hw
          | ent pe pk =>
            simp only [Option.some.injEq] at this; rw [this]
            -- children of a found entry are well-formed: walk down
            clear hsn hfind hK this hnames hlast hr
            generalize names.dropLast = P at hp
            induction P generalizing s with
            | nil => simp [resolve] at hp
            | cons p ps ih =>
              rw [resolve_cons] at hp
              cases hf : s.top.find? p with
              | none => rw [hf] at hp; simp at hp
              | some v =>
                obtain ⟨e1, k1⟩ := v
                rw [hf] at hp
                simp only at hp
                by_cases hps : ps = []
                · simp only [hps, if_true, Option.some.injEq, Res.ent.injEq] at hp
                  rw [← hp.2]; exact (wf_find? hw hf).1
                · simp only [hps, if_false] at hp
                  exact ih ⟨s.rootMeta, k1⟩ (wf_find? hw hf).1 hp
      have hkleaf : e.isStream = true → k = .leaf := (wf_find? hKwf hfind).2
      have hparentStor : ∀ e' k', resolve s.top names.dropLast = some (.ent e' k') → e'.isStream = false := by
        intro e' k' hp
        have := kidsAt_eq names.dropLast s.top
        rw [hp, hK] at this
        simp only [Option.some.injEq] at this
        cases hs : e'.isStream with
        | false => rfl
        | true =>
          -- a stream has no children, so nothing could have been found below it
          exfalso
          have hsub : k'.WF ∧ (e'.isStream = true → k' = .leaf) := by
            clear hsn hfind hK hnames hlast hr hKwf hkleaf this
            generalize names.dropLast = P at hp
            induction P generalizing s with
            | nil => simp [resolve] at hp
            | cons p ps ih =>
              rw [resolve_cons] at hp
              cases hf : s.top.find? p with
              | none => rw [hf] at hp; simp at hp
              | some v =>
                obtain ⟨e1, k1⟩ := v
                rw [hf] at hp
                simp only at hp
                by_cases hps : ps = []
                · simp only [hps, if_true, Option.some.injEq, Res.ent.injEq] at hp
                  rw [← hp.1, ← hp.2]; exact wf_find? hw hf
                · simp only [hps, if_false] at hp
                  exact ih ⟨s.rootMeta, k1⟩ (wf_find? hw hf).1 hp
          rw [this, hsub.2 hs] at hfind
          simp [Tree.find?] at hfind
      have hkids : kidsAt s.top names = some k := by
        have := kidsAt_eq names s.top; rw [hr] at this; exact this
      by_cases hws : wantStream = true
      · subst hws
        simp only [if_true]
        by_cases hs : e.isStream = true
        · simp only [hs, Bool.not_true, Bool.false_eq_true, if_false, hlast]
          have hfr := view_remove_frame name names.dropLast s.top K hK hKwf.orderedSib
            (fun e' ek' h' => by rw [hfind] at h'; simp only [Option.some.injEq, Prod.mk.injEq] at h'; rw [← h'.2]; exact hkleaf hs)
          rw [← hnames] at hfr
          exact ⟨wf_modifyKids _ (fun K hK => wf_remove name hK) _ _ hw hparentStor,
            .removed e.core (view_of_resolve hr) hs (fun h => by simp at h) ⟨hfr.1, hfr.2⟩⟩
        · have hs' : e.isStream = false := by simpa using hs
          simp only [hs', Bool.not_false, if_true]
          exact ⟨hw, .wrongType e.core (view_of_resolve hr) (by simp [Entry.core, hs']) rfl⟩
      · have hws' : wantStream = false := by simpa using hws
        subst hws'
        simp only [Bool.false_eq_true, if_false]
        by_cases hs : e.isStream = true
        · simp only [hs, if_true]
          exact ⟨hw, .wrongType e.core (view_of_resolve hr) (by simp [Entry.core, hs]) rfl⟩
        · have hs' : e.isStream = false := by simpa using hs
          simp only [hs', Bool.false_eq_true, if_false]
          by_cases hk : k = .leaf
          · subst hk
            simp only [bne_self_eq_false, Bool.false_eq_true, if_false, hlast]
            have hfr := view_remove_frame name names.dropLast s.top K hK hKwf.orderedSib
              (fun e' ek' h' => by rw [hfind] at h'; simp only [Option.some.injEq, Prod.mk.injEq] at h'; exact h'.2.symm)
            rw [← hnames] at hfr
            exact ⟨wf_modifyKids _ (fun K hK => wf_remove name hK) _ _ hw hparentStor,
              .removed e.core (view_of_resolve hr) hs' (fun _ => hkids) ⟨hfr.1, hfr.2⟩⟩
          · have : (k != Tree.leaf) = true := by simp [bne, hk]
            simp only [this, if_true]
            refine ⟨hw, .notEmpty e.core (view_of_resolve hr) hs' rfl ?_ rfl⟩
            rw [hkids]; simp [hk]


/-! ## metadata setters (shared with C17) -/

theorem wf_modifyEntry_md (g : Entry → Meta) : ∀ (names : List Name) (t : Tree), t.WF →
    (modifyEntry t names (fun e k => ({ e with md := g e }, k))).WF := by
  intro names
  induction names with
  | nil => intro t h; exact h
  | cons p ps ih =>
    intro t h
    cases ps with
    | nil => exact wf_update p _ (fun _ _ => rfl) (fun e' k' _ hk hs' => ⟨hk, hs'⟩) h
    | cons q qs =>
      simp only [modifyEntry]
      apply wf_update p _ (fun _ _ => rfl) _ h
      intro e' k' hf' hk hs'
      refine ⟨ih k' hk, ?_⟩
      intro hst; rw [hs' hst]; cases qs <;> rfl

/-- **setters**: a missing path is `NotFound`; a CLSID on a stream is `InvalidInput`; otherwise
exactly the addressed object's metadata changes (times of a stream stay untouched) and nothing
else in the namespace does. -/
theorem C01_setMeta (s : State) (hw : s.top.WF) (names : List Name) (op : MetaOp) :
    (setMeta s names op).1.top.WF ∧
    (match view s.top names with
     | none => setMeta s names op = (s, .err .notFound)
     | some .root => (setMeta s names op).2 = .ok ∧ (setMeta s names op).1.top = s.top ∧
         (setMeta s names op).1.rootMeta = applyMeta s.rootMeta false op
     | some (.ent e) =>
        ((∃ c, op = .clsid c) ∧ e.isStream = true → setMeta s names op = (s, .err .invalidInput)) ∧
        (¬ ((∃ c, op = .clsid c) ∧ e.isStream = true) → (setMeta s names op).2 = .ok ∧
          (setMeta s names op).1.rootMeta = s.rootMeta ∧
          PMap.UpdatedAt (view s.top) (view (setMeta s names op).1.top) names
            (some (.ent { e with md := applyMeta e.md e.isStream op })))) := by
  unfold setMeta
  cases hr : resolve s.top names with
  | none => simp [view, hr, hw]
  | some r =>
    cases r with
    | root => simp [view, hr, viewOf, hw]
    | ent e k =>
      have hne : names ≠ [] := by intro h; subst h; simp [resolve] at hr
      have hme := view_modifyEntry (fun e k => ({ e with md := applyMeta e.md e.isStream op }, k))
        (fun _ _ => rfl) (fun _ _ => rfl) names s.top hne
      have hwf := wf_modifyEntry_md (fun e => applyMeta e.md e.isStream op) names s.top hw
      simp only [view, hr, Option.map_some, viewOf]
      cases op with
      | clsid c =>
        simp only
        by_cases hs : e.isStream = true
        · simp only [hs, if_true]
          exact ⟨hw, fun _ => trivial, fun h => absurd ⟨⟨c, rfl⟩, by simp [Entry.core, hs]⟩ h⟩
        · have hs' : e.isStream = false := by simpa using hs
          simp only [hs', Bool.false_eq_true, if_false]
          exact ⟨hwf, fun h => by simp [Entry.core, hs'] at h, fun _ => ⟨trivial, trivial, hme.1, hme.2 e k hr⟩⟩
      | bits b => exact ⟨hwf, fun h => by simp at h, fun _ => ⟨rfl, rfl, hme.1, hme.2 e k hr⟩⟩
      | ctime t => exact ⟨hwf, fun h => by simp at h, fun _ => ⟨rfl, rfl, hme.1, hme.2 e k hr⟩⟩
      | mtime t => exact ⟨hwf, fun h => by simp at h, fun _ => ⟨rfl, rfl, hme.1, hme.2 e k hr⟩⟩

/-- a stream's entry always reports a nil CLSID and zero times, whatever was set (C17) -/
theorem C01_stream_info (path : List Nat) (e : Entry) (h : e.isStream = true) :
    (infoOf path e).md.clsid = nilClsid ∧ (infoOf path e).md.ctime = 0 ∧ (infoOf path e).md.mtime = 0 ∧
    (infoOf path e).len = e.content.length := by
  simp [infoOf, h]

/-! ## lookups are functions of the abstract map -/

/-- what the abstract model answers for the read-only lookups -/
def lookupSpec (M : PMap) (rootMeta : Meta) (content : Entry → Bytes) : Op → Option Out
  | .exists_ p => some (.bool (match nameChain p with | none => false | some ch => (M ch).isSome))
  | .isStream p => some (.bool (match nameChain p with | none => false | some ch => ((M ch).map View.isStream).getD false))
  | .isStorage p => some (.bool (match nameChain p with | none => false | some ch => ((M ch).map (fun v => !v.isStream)).getD false))
  | .entry p => some (match nameChain p with
      | none => .err .invalidInput
      | some ch => match M ch with
        | none => .err .notFound
        | some .root => .info ⟨rootName, pathOfChain ch, .root, 0, rootMeta⟩
        | some (.ent e) => .info (infoOf (pathOfChain ch) e))
  | .get p => some (match nameChain p with
      | none => .err .invalidInput
      | some ch => match M ch with
        | none => .err .notFound
        | some .root => .err .invalidInput
        | some (.ent e) => if e.isStream then .bytes (content e) else .err .invalidInput)
  | .open_ p => some (match nameChain p with
      | none => .err .invalidInput
      | some ch => match M ch with
        | none => .err .notFound
        | some .root => .err .invalidInput
        | some (.ent e) => if e.isStream then .num (content e).length else .err .invalidInput)
  | _ => none

theorem infoOf_core (path : List Nat) (e : Entry) : infoOf path e.core = infoOf path e := rfl

/-- **lookups**: `exists`, `is_stream`, `is_storage`, `entry`, whole-stream read and `open_stream`
answer what the abstract map says, and change nothing. -/
theorem C01_lookup (s : State) (op : Op) (o : Out)
    (h : lookupSpec (view s.top) s.rootMeta (fun e => e.content) op = some o) :
    step s op = (s, o) := by
  cases op <;> simp only [lookupSpec, Option.some.injEq, reduceCtorEq] at h <;> subst h <;> simp only [step]
  all_goals (cases hc : nameChain _ <;> simp only [] <;> try rfl)
  all_goals (rename_i ch; simp only [view]; cases hr : resolve s.top ch <;> simp only [Option.map_none, Option.map_some] <;> try rfl)
  all_goals (rename_i r; cases r <;> simp only [viewOf, isStreamRes, View.isStream, Option.isSome, Option.getD, rootInfo, infoOf_core, Entry.core] <;> try rfl)
  all_goals (split <;> rfl)


/-! ## listings -/

theorem wf_kidsAt : ∀ (P : List Name) (t K : Tree), t.WF → kidsAt t P = some K → K.WF := by
  intro P
  induction P with
  | nil => intro t K hw h; simp only [kidsAt, Option.some.injEq] at h; rw [← h]; exact hw
  | cons p ps ih =>
    intro t K hw h
    simp only [kidsAt] at h
    cases hf : t.find? p with
    | none => rw [hf] at h; simp at h
    | some v => obtain ⟨e, k⟩ := v; rw [hf] at h; exact ih k K (wf_find? hw hf).1 h

/-- **listing**: `read_storage` of the storage at `P` yields its children (i) as the in-order
sequence of its sibling tree, which is (ii) strictly increasing in CFB name order (shorter first,
then by upper-cased code units — `Props.C09.C09_cmp_key`), and (iii) consists of exactly the
objects the abstract map holds at the paths `P ++ [n]`. -/
theorem C01_listing (t : Tree) (hw : t.WF) (P : List Name) (K : Tree) (hK : kidsAt t P = some K)
    (path : List Nat) :
    listKids path K = K.inorder.map (fun (e, _) => infoOf (joinPath path e.name) e) ∧
    K.inorder.Pairwise (fun a b => cmp a.1.name b.1.name = .lt) ∧
    (∀ n v, view t (P ++ [n]) = some v ↔
      ∃ e k, (e, k) ∈ K.inorder ∧ cmp n e.name = .eq ∧ v = .ent e.core) := by
  have hKw := wf_kidsAt P t K hw hK
  exact ⟨by rw [listKids_eq, full_false_eq], inorder_sorted hKw.orderedSib,
    fun n v => listing_complete t hw P K hK hKw.orderedSib n v⟩

/-- **walk**: the root, then every storage's children in name order, each entry directly followed
by its own subtree (pre-order) -/
theorem C01_walk (s : State) :
    walkAll s = rootInfo s [slash] :: full true [slash] s.top ∧
    (∀ parent t, full true parent t = t.inorder.flatMap (fun (e, k) =>
      infoOf (joinPath parent e.name) e :: (if e.isStream then [] else full true (joinPath parent e.name) k))) :=
  ⟨walkAll_eq s, full_true_eq⟩

/-! ## every reachable state satisfies the invariant -/

theorem wf_createAll_go (pres : List (List Name)) : ∀ (s : State), s.top.WF → (createAll.go s pres).1.top.WF := by
  induction pres with
  | nil => intro s h; exact h
  | cons pre rest ih =>
    intro s h
    simp only [createAll.go]
    by_cases hb : isStorageAt s.top pre = true
    · simp only [hb, if_true]; exact ih s h
    · simp only [hb, if_false]
      have hc := (C01_create s h pre none).1
      cases hh : createAt s pre none with
      | mk s' o =>
        rw [hh] at hc
        cases o <;> simp only [] <;> first | exact ih s' hc | exact hc

theorem wf_removeAll_go (infos : List Info) : ∀ (s : State), s.top.WF → (removeAll.go s infos).1.top.WF := by
  induction infos with
  | nil => intro s h; exact h
  | cons i rest ih =>
    intro s h
    simp only [removeAll.go]
    split
    · exact ih s h
    · cases hn : nameChain i.path with
      | none => exact h
      | some ch =>
        simp only
        have hc := (C01_remove s h ch (i.kind = .stream)).1
        cases hh : removeAt s ch (decide (i.kind = .stream)) with
        | mk s' o =>
          rw [hh] at hc
          cases o <;> simp only [] <;> first | exact ih s' hc | exact hc

theorem C01_wf_step (s : State) (hw : s.top.WF) (op : Op) : (step s op).1.top.WF := by
  cases op <;> simp only [step] <;> (try exact hw)
  all_goals (try (cases hc : nameChain _ <;> simp only [] <;> try exact hw))
  case mkdir.some ch => exact (C01_create s hw ch none).1
  case mkdirs.some ch =>
    unfold createAll; split
    · exact hw
    · exact wf_createAll_go _ s hw
  case mkstream.some ch => exact (C01_create s hw ch _).1
  case mknew.some ch => exact (C01_create s hw ch _).1
  case put.some ch => exact (C01_create s hw ch _).1
  case rm.some ch => exact (C01_remove s hw ch true).1
  case rmdir.some ch => exact (C01_remove s hw ch false).1
  case rmall.some ch =>
    unfold removeAll; split
    · exact hw
    · exact wf_removeAll_go _ s hw
  case setMeta.some ch => exact (C01_setMeta s hw ch _).1
  all_goals (first
    | exact hw
    | (split <;> first | exact hw | (split <;> exact hw)))

def run (s : State) : List Op → State × List Out
  | [] => (s, [])
  | op :: ops => let (s1, o) := step s op; let (s2, os) := run s1 ops; (s2, o :: os)

/-- **all histories**: from a freshly created file (either version), after any sequence of
operations, the directory invariant holds — so every theorem above applies at every step. -/
theorem C01_reachable (ops : List Op) : (run State.create ops).1.top.WF := by
  suffices h : ∀ s : State, s.top.WF → (run s ops).1.top.WF from h _ trivial
  induction ops with
  | nil => intro s h; exact h
  | cons op ops ih => intro s h; simp only [run]; exact ih _ (C01_wf_step s h op)

end CfbVerif.Props.C01
