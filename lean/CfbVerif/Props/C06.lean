import CfbVerif.Handle.Det
/-!
# C06 — a stream handle behaves as a seekable byte array for every buffer size

Property text: *Any interleaving of read, buffered read (fill_buf/consume), write, seek, set_len,
flush and position queries on a stream handle behaves exactly like the same calls on an in-memory
byte vector with a cursor: reads return the bytes last written, 0 only at the end; writes overwrite
and extend; seeking outside [0, len] fails with InvalidInput and leaves the position unchanged;
truncation clamps the position; len() is always current.  The observable results are identical for
every configured maximum buffer size and both format versions, and any seek argument, however
extreme, yields Ok or Err rather than a panic.*

Model: `CfbVerif.Handle` (stream.rs:12-247 + stream_buffer.rs) over the abstract flushed store.
The format version does not occur in the handle model at all (it only selects how the store is
laid out in sectors); version-independence of the *store* is the writer model's business.
-/
namespace CfbVerif.Props.C06
open CfbVerif.Handle

/-- One step: every primitive call refines the byte-vector specification `Vec.Step` and keeps the
window invariant.  `read`/`fill_buf`/`write` may be partial exactly as `Vec.Step` allows
(non-empty unless at the end / the request is empty). -/
theorem C06_step (h : H) (st : Bytes) (hi : Inv h st) (op : HOp) (hok : op.ok h) :
    Inv (step h st op).1 (step h st op).2.1 ∧
    Vec.Step (abs h st) op (step h st op).2.2 (abs (step h st op).1 (step h st op).2.1) := by
  cases op with
  | read n => exact read_refines h st hi n
  | fillBuf => exact fillBufOp_refines h st hi
  | consume k =>
    have hk : h.pos + k ≤ h.win.length := hok
    simp only [step, hk, if_true]
    exact consume_refines h st hi k hk
  | write bs => exact write_refines h st hi bs
  | seek p => exact seek_refines h st hi p
  | setLen n => exact setLen_refines h st hi n
  | flush => exact flush_refines h st hi
  | len => exact ⟨hi, len_refines h st hi⟩

/-- A fresh handle on a stream with content `c0` starts in the invariant, as the vector `(c0, 0)`,
for every configured maximum buffer size (including values below the 1024 minimum). -/
theorem C06_init (c0 : Bytes) (maxBuf : Nat) :
    Inv (H.new c0.length maxBuf) c0 ∧ abs (H.new c0.length maxBuf) c0 = ⟨c0, 0⟩ :=
  new_inv c0 maxBuf

/-- Trace form of `C06_step`: a run of primitive calls is a run of the specification. -/
inductive VecRun : Vec → List HOp → List Out → Vec → Prop
  | nil (v : Vec) : VecRun v [] [] v
  | cons {v v1 v2 : Vec} {op : HOp} {o : Out} {ops : List HOp} {os : List Out} :
      Vec.Step v op o v1 → VecRun v1 ops os v2 → VecRun v (op :: ops) (o :: os) v2

/-- scripts whose `consume` calls respect the `BufRead` contract at the point they are made -/
def ScriptOk : H → Bytes → List HOp → Prop
  | _, _, [] => True
  | h, st, op :: ops => op.ok h ∧ ScriptOk (step h st op).1 (step h st op).2.1 ops

theorem C06_run (ops : List HOp) : ∀ (h : H) (st : Bytes), Inv h st → ScriptOk h st ops →
    Inv (run h st ops).1 (run h st ops).2.1 ∧
    VecRun (abs h st) ops (run h st ops).2.2 (abs (run h st ops).1 (run h st ops).2.1) := by
  induction ops with
  | nil => intro h st hi _; exact ⟨hi, VecRun.nil _⟩
  | cons op ops ih =>
    intro h st hi hok
    have s1 := C06_step h st hi op hok.1
    have s2 := ih _ _ s1.1 hok.2
    simp only [run]
    exact ⟨s2.1, VecRun.cons s1.2 s2.2⟩

/-- **All histories, all buffer sizes**: for scripts of `read_to_end`-style reads, `write_all`,
seek, set_len, flush and len, the outputs of a handle with *any* maximum buffer size on *any*
initial content equal the outputs of the same script on a byte vector with a cursor. -/
theorem C06_histories (maxBuf : Nat) (c0 : Bytes) (ops : List DOp) :
    (runD (H.new c0.length maxBuf) c0 ops).2.2 = (Vec.runD ⟨c0, 0⟩ ops).2 := by
  have hn := new_inv c0 maxBuf
  have := runD_sim ops _ _ hn.1
  rw [hn.2] at this
  exact this.2.2

/-- … and what a fresh handle (or a reopen) reads afterwards is the vector's content. -/
theorem C06_final_content (maxBuf : Nat) (c0 : Bytes) (ops : List DOp) :
    let r := runD (H.new c0.length maxBuf) c0 ops
    absContent r.1 r.2.1 = (Vec.runD ⟨c0, 0⟩ ops).1.content ∧
    (flushChanges r.1 r.2.1).2 = (Vec.runD ⟨c0, 0⟩ ops).1.content := by
  intro r
  have hn := new_inv c0 maxBuf
  have hs := runD_sim ops _ _ hn.1
  rw [hn.2] at hs
  have hc : absContent r.1 r.2.1 = (Vec.runD ⟨c0, 0⟩ ops).1.content := by
    have := congrArg Vec.content hs.2.1; exact this
  exact ⟨hc, by rw [(flushChanges_spec _ _ hs.1).content, hc]⟩

/-- Buffer-size independence (corollary). -/
theorem C06_bufsize_indep (m₁ m₂ : Nat) (c0 : Bytes) (ops : List DOp) :
    (runD (H.new c0.length m₁) c0 ops).2.2 = (runD (H.new c0.length m₂) c0 ops).2.2 := by
  rw [C06_histories, C06_histories]

/-- No seek argument makes the handle panic, and a refused seek changes nothing (shared with C10). -/
theorem C06_seek_total (h : H) (st : Bytes) (p : SeekFrom) :
    (seek h st p).2.2 ≠ .panic ∧
    ((seek h st p).2.2 = .err .invalidInput → (seek h st p).1 = h ∧ (seek h st p).2.1 = st) := by
  unfold seek
  cases seekTarget h p with
  | none => simp
  | some np => simp only; split <;> simp

/-- A seek is refused exactly when the target lies outside `[0, len]` (here for `Start`;
`End`/`Current` are `seekTarget_eq` with `Vec.seekTarget`). -/
theorem C06_seek_start_refused_iff (h : H) (st : Bytes) (n : Nat) :
    (seek h st (.start n)).2.2 = .err .invalidInput ↔ n > h.totalLen := by
  unfold seek seekTarget
  by_cases hn : n > h.totalLen
  · simp [hn]
  · simp only [hn, if_false]; split <;> simp [hn]

/-! ### Non-vacuity: a reachable, non-trivial state satisfies the hypotheses -/

/-- a dirty, partially filled window over a non-empty store -/
example : ∃ h st, Inv h st ∧ h.dirty = true ∧ 0 < h.pos ∧ h.pos < h.win.length ∧ st ≠ [] := by
  -- (buffer sizes are the generated minimum, whatever the source says it is)
  refine ⟨{ totalLen := 6, win := [9, 9, 9, 9], dataLen := bufMin, pos := 2, maxSize := bufMin,
            off := 2, dirty := true }, [1, 2, 3, 4, 5], ?_, rfl, by decide, by decide, by simp⟩
  refine ⟨by decide, by decide, by decide, by decide, by decide, by decide, ?_⟩
  intro h; cases h

/-- the run of a small script from `H.new` with the *minimum* buffer ends in such a state -/
example : (runD (H.new 3 0) [1, 2, 3] [.seek (.start 2), .writeAll [7, 8, 9], .seek (.fromEnd (-1)),
      .readAll 10, .len]).2.2 = [.num 2, .unit, .num 4, .bytes [9], .num 5] := by decide

end CfbVerif.Props.C06
