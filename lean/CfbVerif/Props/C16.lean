import CfbVerif.Spec.Consts
import CfbVerif.Raw.Sub
/-!
# C16 — strict acceptance implies permissive acceptance with the same meaning

Property text: *Whenever strict open accepts a byte string, permissive open accepts it too and
both expose the identical tree, metadata and stream contents.  Conversely, each deviation the
library documents as tolerated (…) is accepted by permissive open with the same logical content as
the undamaged file, and rejected by strict open.*

`C16_sub` is the first sentence for **every** byte string: the two opens produce the *same tables*
(`RawState`), hence everything read through them afterwards (tree, metadata, stream bytes) is
identical.  The per-component lemmas it is assembled from are in `Raw/Sub.lean`.  The second
sentence quantifies over valid files and injected deviations: decided by the deviation oracle and
the lock-step (`checks/c16.py`); its component form (a deviated value is normalised by the
permissive decoder/validator to the undeviated result and refused by the strict one) is what the
`…_sub` lemmas' guards spell out.
-/
set_option linter.unusedSimpArgs false
set_option linter.unusedVariables false
namespace CfbVerif.Props.C16
open CfbVerif.Raw

theorem liftE_ok' {α : Type} {x : E α} {a : α} (h : liftE x = .ok a) : x = .ok a := by
  cases x with
  | ok b => simp only [liftE, Outcome.ok.injEq] at h; rw [h]
  | error k => simp [liftE] at h

/-- the strict run of the tail checks the FAT-sector count against the DIFAT -/
theorem openTail_strict_numFat {img : Img} {h : Header} {n : Nat} {ids d : List Nat} {r : RawState}
    (hs : openTail .strict img h n ids d = .ok r) : h.numFatSectors = d.length := by
  unfold openTail at hs
  simp only [strict_true, true_and, bind] at hs
  by_cases hc : h.numFatSectors = d.length
  · exact hc
  · simp [hc, bad, Outcome.bind] at hs

/-- with the same DIFAT, the tail of `open` is monotone from strict to permissive -/
theorem openTail_sub (img : Img) (h : Header) (n : Nat) (ids d : List Nat) :
    openTail .strict img h n ids d ≼o openTail .permissive img h n ids d := by
  unfold openTail
  apply O.ite_mono (by guard_imp)
  apply O.bind_mono (O.le_refl _)
  intro fat0
  -- the FAT handed to validate is the same in both modes whenever strict validation succeeds
  intro r hr
  cases hv : validateFat .strict n ids d (normFat .strict n fat0).toArray with
  | error k => simp [hv, liftE, bind, Outcome.bind] at hr
  | ok fat =>
    have hsz := validateFat_size hv
    simp only [List.size_toArray] at hsz
    have hnf := normFat_eq n fat0 hsz
    have hv' : validateFat .permissive n ids d (normFat .permissive n fat0).toArray = .ok fat := by
      rw [hnf]; exact validateFat_sub _ _ _ _ fat hv
    simp only [hv, hv', liftE, bind, Outcome.bind] at hr ⊢
    revert r
    show _ ≼o _
    apply O.bind_mono (dirLoop_sub _ _ _ _ _ _ _ _ _)
    intro entries
    apply O.bind_mono (validateDir_sub _)
    intro _
    apply O.bind_mono (O.le_refl _)
    intro mfChain
    apply O.ite_mono (by guard_imp)
    apply O.bind_mono (O.le_refl _)
    intro mf0
    apply O.bind_mono (liftE_mono (validateMiniFat_sub _ _))
    intro mf
    exact O.le_refl _

/-- **strict ⊆ permissive**: for every byte string, if `open_strict` accepts it then `open`
accepts it and builds exactly the same FAT, DIFAT, directory and MiniFAT. -/
theorem C16_sub (img : Img) (r : RawState) (h : openImg .strict img = .ok r) :
    openImg .permissive img = .ok r := by
  unfold openImg at h ⊢
  simp only [bind] at h ⊢
  by_cases hlen : img.size < Gen.HEADER_LEN
  · simp [hlen, bad] at h
  · simp only [hlen, if_false] at h ⊢
    cases hh : readHeader .strict img with
    | error k => simp [hh, liftE, Outcome.bind] at h
    | ok hd =>
      have hh' := readHeader_sub img hd hh
      simp only [hh, hh', liftE, Outcome.bind] at h ⊢
      by_cases h1 : img.size > (MAXREG + 1) * hd.sectorLen
      · simp [h1, bad] at h
      · simp only [h1, if_false] at h ⊢
        by_cases h2 : img.size < hd.sectorLen
        · simp [h2, bad] at h
        · simp only [h2, if_false] at h ⊢
          cases hd' : difatLoop .strict img hd.sectorLen (numSectorsOf img.size hd.sectorLen)
              (numSectorsOf img.size hd.sectorLen + 1) hd.firstDifatSector [] [] hd.initialDifat with
          | err k => simp [hd'] at h
          | panic s => simp [hd'] at h
          | hang s => simp [hd'] at h
          | ok p =>
            obtain ⟨ids, difat0⟩ := p
            rw [difatLoop_sub _ _ _ _ _ _ _ _ _ hd']
            simp only [hd'] at h ⊢
            by_cases h3 : hd.numDifatSectors = ids.length
            · simp only [strict_true, perm_false, h3, ne_eq, not_true_eq_false, and_false, if_false,
                Bool.false_eq_true, false_and] at h ⊢
              have hn := openTail_strict_numFat h
              rw [normDifat_eq _ _ hn]
              exact openTail_sub _ _ _ _ _ r h
            · simp [strict_true, h3, bad] at h

/-- same acceptance in the other direction is *not* claimed: permissive accepts more.  What the
strict guards reject, permissive normalises — component forms (used by `C16_sub`): -/
theorem C16_components :
    (∀ img, readHeader .strict img ≼ readHeader .permissive img) ∧
    (∀ v4 img off, readDirEntry .strict v4 img off ≼ readDirEntry .permissive v4 img off) ∧
    (∀ n ids difat fat, validateFat .strict n ids difat fat ≼ validateFat .permissive n ids difat fat) ∧
    (∀ dir, validateDir .strict dir ≼o validateDir .permissive dir) ∧
    (∀ rootLen mf, validateMiniFat .strict rootLen mf ≼ validateMiniFat .permissive rootLen mf) :=
  ⟨readHeader_sub, readDirEntry_sub, validateFat_sub, validateDir_sub, validateMiniFat_sub⟩

/-- a tolerated deviation in component form, as an example: an over-long MiniFAT is refused by the
strict validator and truncated by the permissive one to what the root stream covers -/
theorem C16_dev_overlongMiniFat (rootLen : Nat) (mf : List Nat)
    (hlong : rootLen / Gen.MINI_SECTOR_LEN < mf.length) :
    validateMiniFat .strict rootLen mf = .error .invalidData ∧
    validateMiniFat .permissive rootLen mf = validateMiniFat .permissive rootLen (mf.take (rootLen / Gen.MINI_SECTOR_LEN)) := by
  constructor
  · simp [validateMiniFat, hlong, strict_true, badE]
  · simp only [validateMiniFat, hlong, if_true, perm_false, Bool.false_eq_true, if_false, List.length_take]
    have : ¬ rootLen / Gen.MINI_SECTOR_LEN < min (rootLen / Gen.MINI_SECTOR_LEN) mf.length := by omega
    simp [this]

end CfbVerif.Props.C16
