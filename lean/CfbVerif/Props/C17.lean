import CfbVerif.Time.Model
/-!
# C17 — metadata set through the API is returned exactly and survives reopening

Property text: *State bits set on any object, CLSIDs set on storages or the root, and
creation/modification times set on storages or the root are returned unchanged by entry lookups and
listings, immediately and after reopening; times are kept to 100-nanosecond resolution (rounded
toward the Unix epoch) and saturate at the representable range 1601..~60056 instead of failing.
Streams always report a nil CLSID and zero timestamps and time setters leave them untouched; a new
storage's times lie between the clock readings around its creation; setting a CLSID on a stream is
InvalidInput and any setter on a missing path is NotFound.*

This file: the value-level theorems (conversion arithmetic, on-disk codecs).  The setter/getter
behaviour over histories and reopen is part of the directory model (C01/C02 files).
-/
namespace CfbVerif.Props.C17
open CfbVerif.Time

/-- the constants the proofs below are about (a changed constant in timestamp.rs breaks them) -/
theorem C17_consts : Gen.UNIX_EPOCH_TIMESTAMP = 116444736000000000 ∧ Gen.ticksPerSecond = 10000000 ∧
    Gen.nanosPerTick = 100 ∧ Gen.backTicksPerSecond = 10000000 ∧ Gen.backTicksMod = 10000000 ∧
    Gen.backNanosPerTick = 100 := by decide

/-- **from a time to a timestamp**, at or after the Unix epoch: 100 ns ticks, rounded down
(toward the epoch), saturating at `u64::MAX` (≈ year 60056). -/
theorem C17_ts_of_time_nonneg (t : SysTime) (h : 0 ≤ t.secs) :
    tsOf t = min U64MAX (116444736000000000 + t.secs.toNat * 10000000 + t.nanos / 100) := by
  simp only [tsOf, durationSinceEpoch, ge_iff_le, h, if_true, durationToDelta, satAdd, satMul,
    Gen.UNIX_EPOCH_TIMESTAMP, Gen.ticksPerSecond, Gen.nanosPerTick, U64MAX]
  omega

/-- … before the Unix epoch: the distance to the epoch is rounded down to ticks (so the time is
rounded *toward* the epoch), saturating at 0 (year 1601). -/
theorem C17_ts_of_time_neg (t : SysTime) (h : t.secs < 0) (hw : t.WF) :
    tsOf t = 116444736000000000 -
      (if t.nanos = 0 then (-t.secs).toNat * 10000000
       else ((-t.secs).toNat - 1) * 10000000 + (1000000000 - t.nanos) / 100) := by
  have h' : ¬ t.secs ≥ 0 := by omega
  simp only [SysTime.WF, NANOS] at hw
  by_cases hn : t.nanos = 0
  · simp only [tsOf, durationSinceEpoch, h', hn, if_false, if_true, durationToDelta, satAdd, satMul,
      satSub, Gen.UNIX_EPOCH_TIMESTAMP, Gen.ticksPerSecond, Gen.nanosPerTick, U64MAX]
    omega
  · simp only [tsOf, durationSinceEpoch, h', hn, if_false, durationToDelta, satAdd, satMul,
      satSub, Gen.UNIX_EPOCH_TIMESTAMP, Gen.ticksPerSecond, Gen.nanosPerTick, U64MAX, NANOS]
    omega

/-- the result always fits the 64-bit field (never fails, never wraps) -/
theorem C17_ts_range (t : SysTime) : tsOf t ≤ U64MAX := by
  simp only [tsOf]
  split <;> simp only [satAdd, satSub, Gen.UNIX_EPOCH_TIMESTAMP, U64MAX] <;> omega

theorem timeOf_ge (v : Nat) (h : v ≥ Gen.UNIX_EPOCH_TIMESTAMP) :
    timeOf v = (checkedAdd (deltaToDuration (v - Gen.UNIX_EPOCH_TIMESTAMP))).getD ⟨0, 0⟩ := by
  unfold timeOf; rw [if_pos h]

theorem timeOf_lt (v : Nat) (h : ¬ v ≥ Gen.UNIX_EPOCH_TIMESTAMP) :
    timeOf v = (checkedSub (deltaToDuration (Gen.UNIX_EPOCH_TIMESTAMP - v))).getD ⟨0, 0⟩ := by
  unfold timeOf; rw [if_neg h]

theorem checkedAdd_some (d : Duration) (h : (d.secs : Int) ≤ 2 ^ 63 - 1) :
    checkedAdd d = some ⟨d.secs, d.nanos⟩ := if_pos h

theorem checkedSub_zero (d : Duration) (hz : d.nanos = 0) (h : (d.secs : Int) ≤ 2 ^ 63) :
    checkedSub d = some ⟨-(d.secs : Int), 0⟩ := by
  unfold checkedSub; rw [if_pos hz, if_pos h]

theorem checkedSub_nz (d : Duration) (hz : ¬ d.nanos = 0) (h : (d.secs : Int) + 1 ≤ 2 ^ 63) :
    checkedSub d = some ⟨-(d.secs : Int) - 1, NANOS - d.nanos⟩ := by
  unfold checkedSub; rw [if_neg hz, if_pos h]

theorem deltaToDuration_eq (x : Nat) : deltaToDuration x = ⟨x / 10000000, x % 10000000 * 100⟩ := rfl

/-- **exact return**: every 64-bit timestamp read from a file is handed out as a `SystemTime` that
converts back to the same timestamp (so a value set and read back, or read after reopening, is
unchanged). -/
theorem C17_time_of_ts (v : Nat) (hv : v ≤ U64MAX) : tsOf (timeOf v) = v ∧ (timeOf v).WF := by
  have hE : Gen.UNIX_EPOCH_TIMESTAMP = 116444736000000000 := rfl
  simp only [U64MAX] at hv
  by_cases h : v ≥ Gen.UNIX_EPOCH_TIMESTAMP
  · rw [timeOf_ge v h, deltaToDuration_eq, checkedAdd_some _ (by simp only; omega), Option.getD_some]
    refine ⟨?_, by simp only [SysTime.WF, NANOS]; omega⟩
    rw [C17_ts_of_time_nonneg _ (by simp only; omega)]
    simp only [U64MAX]
    generalize hq : (v - Gen.UNIX_EPOCH_TIMESTAMP) / 10000000 = q
    generalize hr : (v - Gen.UNIX_EPOCH_TIMESTAMP) % 10000000 = r
    have hqr : v - 116444736000000000 = q * 10000000 + r := by omega
    omega
  · rw [timeOf_lt v h, deltaToDuration_eq]
    generalize hq : (Gen.UNIX_EPOCH_TIMESTAMP - v) / 10000000 = q
    generalize hr : (Gen.UNIX_EPOCH_TIMESTAMP - v) % 10000000 = r
    have hqr : 116444736000000000 - v = q * 10000000 + r := by omega
    have hr' : r < 10000000 := by omega
    have hq' : q ≤ 11644473600 := by omega
    by_cases hz : r = 0
    · rw [checkedSub_zero _ (by simp only; omega) (by simp only; omega), Option.getD_some]
      refine ⟨?_, by simp only [SysTime.WF, NANOS]; omega⟩
      by_cases hq0 : q = 0
      · subst hq0
        rw [C17_ts_of_time_nonneg _ (by simp)]
        simp only [U64MAX]; omega
      · rw [C17_ts_of_time_neg _ (by simp only; omega) (by simp only [SysTime.WF, NANOS]; omega)]
        rw [if_pos rfl]
        simp only
        omega
    · rw [checkedSub_nz _ (by simp only; omega) (by simp only; omega), Option.getD_some]
      refine ⟨?_, by simp only [SysTime.WF, NANOS]; omega⟩
      rw [C17_ts_of_time_neg _ (by simp only; omega) (by simp only [SysTime.WF, NANOS]; omega)]
      have hn : ¬ (NANOS - r * 100 = 0) := by simp only [NANOS]; omega
      rw [if_neg hn]
      simp only [NANOS]
      have e2 : (-(-(q : Int) - 1)).toNat = q + 1 := by omega
      rw [e2]
      omega

/-- **monotone**: later times never get smaller timestamps -/
theorem C17_mono (t₁ t₂ : SysTime) (h₁ : t₁.WF) (h₂ : t₂.WF) (hle : t₁.toNanos ≤ t₂.toNanos) :
    tsOf t₁ ≤ tsOf t₂ := by
  simp only [SysTime.WF, NANOS] at h₁ h₂
  simp only [SysTime.toNanos, NANOS] at hle
  by_cases a : 0 ≤ t₁.secs <;> by_cases b : 0 ≤ t₂.secs
  · rw [C17_ts_of_time_nonneg _ a, C17_ts_of_time_nonneg _ b]; simp only [U64MAX]; omega
  · omega
  · rw [C17_ts_of_time_neg _ (by omega) h₁, C17_ts_of_time_nonneg _ b]; simp only [U64MAX]; omega
  · rw [C17_ts_of_time_neg _ (by omega) h₁, C17_ts_of_time_neg _ (by omega) h₂]
    split <;> split <;> omega

/-- **a new storage's times lie between the clock readings around its creation** (in timestamp
terms: `Timestamp::now()` is `tsOf` of a reading between the two). -/
theorem C17_fresh_between (before now after : SysTime) (h1 : before.WF) (h2 : now.WF) (h3 : after.WF)
    (a : before.toNanos ≤ now.toNanos) (b : now.toNanos ≤ after.toNanos) :
    tsOf before ≤ tsOf now ∧ tsOf now ≤ tsOf after :=
  ⟨C17_mono _ _ h1 h2 a, C17_mono _ _ h2 h3 b⟩

/-- **CLSID codec**: what `write_clsid` puts on disk, `read_clsid` reads back, for all 128 bits. -/
theorem C17_guid (g : List UInt8) : decodeClsid (encodeClsid g) = g :=
  match g with
  | [] => rfl
  | [_] => rfl
  | [_, _] => rfl
  | [_, _, _] => rfl
  | [_, _, _, _] => rfl
  | [_, _, _, _, _] => rfl
  | [_, _, _, _, _, _] => rfl
  | [_, _, _, _, _, _, _] => rfl
  | [_, _, _, _, _, _, _, _] => rfl
  | [_, _, _, _, _, _, _, _, _] => rfl
  | [_, _, _, _, _, _, _, _, _, _] => rfl
  | [_, _, _, _, _, _, _, _, _, _, _] => rfl
  | [_, _, _, _, _, _, _, _, _, _, _, _] => rfl
  | [_, _, _, _, _, _, _, _, _, _, _, _, _] => rfl
  | [_, _, _, _, _, _, _, _, _, _, _, _, _, _] => rfl
  | [_, _, _, _, _, _, _, _, _, _, _, _, _, _, _] => rfl
  | [_, _, _, _, _, _, _, _, _, _, _, _, _, _, _, _] => rfl
  | _ :: _ :: _ :: _ :: _ :: _ :: _ :: _ :: _ :: _ :: _ :: _ :: _ :: _ :: _ :: _ :: _ :: _ => rfl

/-- **little-endian integers** (state bits, timestamps, lengths): `k` bytes hold any value below
`256^k` exactly. -/
theorem C17_le_roundtrip (k : Nat) : ∀ n, n < 256 ^ k → leValue (leBytes k n) = n := by
  induction k with
  | zero => intro n h; simp at h; simp [leBytes, leValue, h]
  | succ k ih =>
    intro n h
    simp only [leBytes, leValue]
    have : n / 256 < 256 ^ k := by
      rw [Nat.pow_succ] at h; exact Nat.div_lt_of_lt_mul (by omega)
    rw [ih _ this]
    have : (UInt8.ofNat (n % 256)).toNat = n % 256 := by
      simp [UInt8.toNat_ofNat']
    rw [this]; omega

theorem C17_state_bits (w : Nat) (h : w < 2 ^ 32) : leValue (leBytes 4 w) = w :=
  C17_le_roundtrip 4 w (by simpa using h)

/-! ### sanity on concrete instants (the suite's own examples, and the extremes) -/
example : tsOf ⟨1489862796, 0⟩ = 131343363960000000 := by decide +kernel
example : tsOf ⟨-14182980, 0⟩ = 116302906200000000 := by decide +kernel
example : tsOf ⟨0, 199⟩ = 116444736000000001 ∧ tsOf ⟨-1, 999999801⟩ = 116444735999999999 := by decide +kernel
example : tsOf ⟨-(2 ^ 63), 0⟩ = 0 ∧ tsOf ⟨2 ^ 63 - 1, 999999999⟩ = U64MAX := by decide +kernel
example : timeOf 0 = ⟨-11644473600, 0⟩ ∧ timeOf U64MAX = ⟨1833029933770, 955161500⟩ := by decide +kernel

end CfbVerif.Props.C17
