import CfbVerif.Phys.Zero
import CfbVerif.Phys.Log
import CfbVerif.Handle.Lemmas
import CfbVerif.Phys.Grow
import CfbVerif.Phys.MiniContent
import CfbVerif.Phys.RootReach
import CfbVerif.Phys.MiniReuse
/-!
# C08 — bytes gained by growing a stream read as zero, whatever was there before

Property text: *When set_len makes a stream longer, every byte between the old and the new length
reads as zero, immediately and after reopening - regardless of earlier history such as a previous
shrink of the same stream or the removal of other streams whose space is being reused.  No data of
a truncated or removed stream ever becomes visible through another stream.*

Two levels:
* handle level (`CfbVerif.Handle`): `set_len` turns the content into `old.take n ++ zeros`
  (`C08_handle`, from the refinement proved for C06), so every byte of the grown region is 0
  (`C08_grown_bytes_zero`);
* allocation level (`CfbVerif.Phys`): where those zeros physically come from, although sectors and
  mini sectors are recycled: a reused sector is wiped by `init_sector` (`C08_reused_sector_zero`),
  the rest of the old last (mini) sector is overwritten (`C08_tail_or_fresh`), every mini sector
  added by `MiniChain::set_len` is overwritten (by definition of `miniChainGrow`).
That the allocation level implements the byte list of the handle level is the byte-exact
lock-step (image hash after every call) plus the read-back oracle on the implementation.
-/
namespace CfbVerif.Props.C08
open CfbVerif.Handle CfbVerif.Phys

theorem setLen_step_inv {v v' : Vec} {n : Nat} {o : Out} (h : Vec.Step v (.setLen n) o v') :
    v' = ⟨Handle.resize v.content n, min v.cursor n⟩ := by
  cases h; rfl

/-- through the handle, `set_len n` yields exactly the old content cut or padded with zeros -/
theorem C08_handle (h : H) (st : Handle.Bytes) (hi : Inv h st) (n : Nat) :
    absContent (setLen h st n).1 (setLen h st n).2.1 = Handle.resize (absContent h st) n := by
  have := (setLen_refines h st hi n).2
  have hv := setLen_step_inv this
  have : (abs (setLen h st n).1 (setLen h st n).2.1).content = Handle.resize (abs h st).content n := by
    rw [hv]
  exact this

theorem C08_grown_bytes_zero (c : Handle.Bytes) (n i : Nat) (h1 : c.length ≤ i) (h2 : i < n) :
    (Handle.resize c n)[i]? = some 0 := by
  unfold Handle.resize Handle.zeros
  have hl : (c.take n).length = c.length := by simp; omega
  rw [List.getElem?_append_right (by omega), hl]
  rw [List.getElem?_replicate]
  rw [if_pos (by omega)]

/-- and the bytes below the old length are kept -/
theorem C08_kept_bytes (c : Handle.Bytes) (n i : Nat) (h1 : i < c.length) (h2 : i < n) :
    (Handle.resize c n)[i]? = c[i]? := by
  unfold Handle.resize
  rw [List.getElem?_append_left (by simp; omega)]
  simp [h2]

theorem C08_reused_sector_zero {p p' : P} {id : Nat} (inv : FatInv p)
    (hfree : p.free ≠ []) (h : allocateSector p .zero = .ok (p', id)) :
    p'.sectors[id]? = some (zeroSector p.S) :=
  allocateSector_reuse_zero inv hfree h

theorem C08_new_sector_zero {p p' : P} {id : Nat} {k : Init} (hs : p.sectors.size = p.numSectors)
    (h : initSector p id k = .ok p') : p'.sectors[id]? = some (zeroSector p.S) :=
  (initSector_zero hs h).1

theorem C08_tail_or_fresh (old new unit i : Nat) (hu : 0 < unit) (h1 : old ≤ i) (h2 : i < new) :
    (∃ a n, zeroTailRange old new unit = some (a, n) ∧ a ≤ i ∧ i < a + n) ∨
    ((unit + old - 1) / unit * unit ≤ i) :=
  zeroTail_covers old new unit i hu h1 h2

/-- the store operations a `set_len` sends down are the write-back of what was buffered, then one
resize — nothing else touches the stream (ties the two levels) -/
theorem C08_setLen_log (h : H) (st : Handle.Bytes) (n : Nat) :
    applyLog st (setLenL h n) = (setLen h st n).2.1 := setLenL_store h st n

example : (Handle.resize [1, 2, 3] 6)[4]? = some 0 := by decide

end CfbVerif.Props.C08

namespace CfbVerif.Props.C08
open CfbVerif.Raw CfbVerif.Phys

/-! ### the sector level: a regular stream grown by `set_len` (`Phys/Content.lean`, `Phys/Grow.lean`) -/

/-- **growing a stream of at least 4096 bytes with `set_len`: every byte gained is zero in the
sectors, every byte it had is kept** — for every state of the store machine that satisfies the
allocation-level invariant `JR` (every reachable state, `regLen_reachable`), whatever the sectors
taken from the free list held before and whatever was left behind the old end in the old last
sector.  `ids` / `ids'` are the stream's chain before and after; `byteAt` is the byte at a stream
offset through its sector.  The zeros come from `init_sector` for the sectors the chain gains
(`kb_allocateSector`: FREE or new, so on no chain) and from `zero_old_tail` for the rest of the old
last sector (`chainWrite_spec`). -/
theorem C08_regular_grow_zero {g g' : G} {s n : Nat} (j : JR g.p g.L)
    (hold : CUTOFF ≤ g.L s) (hgrow : g.L s ≤ n) (hstart : startOf g.p s ≠ END)
    (h : gstep g (.resize s n) = .ok g') (hb : g'.p.fat.size ≤ MAXREG + 1) :
    ∃ ids ids', chainIds g.p (startOf g.p s) = .ok ids ∧ Tr g'.p.fat ids' ∧ hdl ids' = hdl ids ∧
      ids'.length = (g.p.S + n - 1) / g.p.S ∧
      (∀ i, g.L s ≤ i → i < n → byteAt g'.p ids' i = some 0) ∧
      (∀ i, i < g.L s → byteAt g'.p ids' i = byteAt g.p ids i) := by
  have hmem : (s, startOf g.p s) ∈ g.p.starts := startIn_mem_of_ne hstart
  obtain ⟨_, l, cl, hlen⟩ := j.rl (s, startOf g.p s) hmem hold
  have hhead : startOf g.p s ∈ heads g.p g.L := by
    unfold heads regs
    apply List.mem_append_right
    apply List.mem_map.mpr
    refine ⟨(s, startOf g.p s), List.mem_filter.mpr ⟨hmem, ?_⟩, rfl⟩
    simp [isRegStart, hold, hstart]
  have hids : chainIds g.p (startOf g.p s) = .ok l := chainFrom_of_isChain j.jc.nc.ns hhead cl
  obtain ⟨t, hlt⟩ := cl.head
  have hhdl : hdl l = [startOf g.p s] := by rw [hlt]; rfl
  -- the heads, with the stream's own head in front
  have hown : ownOf g.p.starts g.L s = [startOf g.p s] := by
    unfold ownOf
    rw [← startOf_eq, if_pos ⟨hold, hstart⟩]
  have nc : NC g.p.fat (hdl l ++ (cont g.p ++ regs (others g.p.starts s) g.L)) := by
    refine (jc_n0 j.jc s).perm ?_
    rw [hown, hhdl]
    simp only [List.append_assoc]
    rw [← List.append_assoc, ← List.append_assoc]
    exact (List.perm_append_comm (l₁ := cont g.p) (l₂ := [startOf g.p s])).append_right _
  have tr : Tr g.p.fat l := by
    intro hd hh
    rw [hhdl] at hh
    simp only [List.mem_singleton] at hh
    rw [hh]; exact cl
  have hpres : Present g.p l := by
    intro x hx
    obtain ⟨w, hw, _⟩ := cl.used x hx
    have hx1 : x < g.p.sectors.size := by
      rw [j.jc.inv.fat.secs, ← j.jc.inv.fat.size]; exact lt_of_get hw
    exact ⟨_, Array.getElem?_eq_getElem hx1⟩
  obtain ⟨q, hq, hq2⟩ := obind_ok h
  cases hq2
  obtain ⟨ids', hl', tr', hhd', _, hz, hk⟩ :=
    resize_regular_grow_zero j.jc.inv j.ss hstart hold hgrow hids _ nc tr (by exact hlen) hpres hq hb
  exact ⟨l, ids', hids, tr', hhd', hl', hz, hk⟩


end CfbVerif.Props.C08

namespace CfbVerif.Props.C08
open CfbVerif.Raw CfbVerif.Phys

/-! ### the mini-sector level: what `MiniChain::set_len` does to each mini sector it adds (`Phys/MiniContent.lean`) -/

/-- **a mini sector added to a small stream reads as 64 zeros, whatever it held before** — mini sectors
are taken from the free list of the MiniFAT without being reinitialised (they hold the bytes of the
truncated or removed stream they belonged to); `miniChainGrow` therefore overwrites each one it
adds with 64 zeros (`miniWriteAt … 0 (replicate MINI 0)`).  For every state whose sectors have the
sector size and whose mini stream (the root entry's chain `root`) can be walked and contains mini
sector `m`: afterwards the 64 bytes of `m` are zero, every other mini sector of the mini stream —
every other small stream's data — holds what it held, and no sector outside the mini stream is
touched.  (That `miniChainGrow` performs exactly this write on the mini sector `growOneMini`
returned is its definition; that the mini sector lies inside the mini stream is `MiniFit` plus the
lock-step assertion of the driver.) -/
theorem C08_new_mini_sector_zero {p : P} (ss : SS p) {root : List Nat} (hroot : chainIds p p.rootStart = .ok root)
    (hp : Present p root) (nd : root.Nodup) {m : Nat} (hm : m / p.per < root.length) :
    ∃ p', miniWriteAt p m 0 (List.replicate MINI 0) = .ok p' ∧
      miniBlk p' root m = List.replicate 64 0 ∧
      (∀ m2, m2 ≠ m → m2 / p.per < root.length → miniBlk p' root m2 = miniBlk p root m2) ∧
      (∀ i, i ∉ root → p'.sectors[i]? = p.sectors[i]?) := by
  obtain ⟨p', hw, _, _, _, hout, _, _⟩ := miniZero_spec ss hroot hp nd hm
  obtain ⟨p'', hw', hz, hfr⟩ := miniZero_blk ss hroot hp nd hm
  rw [hw] at hw'
  cases hw'
  exact ⟨p', hw, hz, hfr, hout⟩

/-- **… for every state the store machine reaches, with no premise left**: after any history of store
operations and reopens from a fresh file of either version, zero-filling any mini sector `m` of the
MiniFAT — what `MiniChain::set_len` does to each mini sector it adds — succeeds, makes `m` read as 64
zeros and leaves every other mini sector of the MiniFAT as it was (`Phys/RootReach.lean`: sector sizes,
the walkable duplicate-free chain of the mini stream and the range of `m` all come from the
invariants of the reachable states) -/
theorem C08_new_mini_sector_zero_reachable (v4 : Bool) (ops : List GOp) :
    let g0 : G := { p := Phys.create v4, L := fun _ => 0 }
    WritesInRange g0 ops → MiniBounded g0 ops → (grun g0 ops).p.fat.size ≤ MAXREG + 1 →
    ∀ m, m < (grun g0 ops).p.miniFat.size →
    ∃ root p', chainIds (grun g0 ops).p (grun g0 ops).p.rootStart = .ok root ∧
      miniWriteAt (grun g0 ops).p m 0 (List.replicate MINI 0) = .ok p' ∧
      miniBlk p' root m = List.replicate 64 0 ∧
      (∀ m2, m2 ≠ m → m2 < (grun g0 ops).p.miniFat.size → miniBlk p' root m2 = miniBlk (grun g0 ops).p root m2) :=
  mini_zero_reachable v4 ops

/-- **growing a small stream into a reused mini sector** — the case the property names ("a previous shrink
of the same stream or the removal of other streams whose space is being reused"): when `growOneMini` takes
the mini sector from the free list (the mini stream does not grow: the root entry's length is unchanged),
the allocation changes nothing but the in-memory MiniFAT and its free list, and after the zero-fill the
reused mini sector reads as 64 zeros while every other mini sector reads what it read before the step
(`Phys/MiniReuse.lean`).  The other path (the mini stream grows by a mini sector, possibly by a sector) is
lock-stepped. -/
theorem C08_mini_grow_step_reuse {p p1 : P} {ids ids1 : List Nat} (h : growOneMini p ids = .ok (p1, ids1))
    (hr : p1.rootLen = p.rootLen) (ss : SS p) {root : List Nat} (hroot : chainIds p p.rootStart = .ok root)
    (hp : Present p root) (nd : root.Nodup) :
    ∃ m, ids1 = ids ++ [m] ∧ (m / p.per < root.length →
      ∃ p2, miniWriteAt p1 m 0 (List.replicate MINI 0) = .ok p2 ∧ miniBlk p2 root m = List.replicate 64 0 ∧
        (∀ m2, m2 ≠ m → m2 / p.per < root.length → miniBlk p2 root m2 = miniBlk p root m2)) :=
  miniGrow_step_reuse h hr ss hroot hp nd

/-- non-vacuity of `C08_mini_grow_step_reuse`: after two small streams were created (mini sectors 0,1 and 2,3)
and the first was removed, one more mini sector for the second comes from the free list: the root entry's
length stays the same and the chain becomes [2, 3, 1] — mini sector 1 still holds the removed stream's bytes -/
def reuseExample : Bool :=
  let p := (grun { p := Phys.create false, L := fun _ => 0 }
    [.create 1, .resize 1 100, .create 2, .resize 2 100, .free 1]).p
  match growOneMini p [2, 3] with
  | .ok (p1, ids1) => p1.rootLen == p.rootLen && ids1 == [2, 3, 1] && p.rootLen == 256
  | _ => false

example : reuseExample = true := by decide +kernel

end CfbVerif.Props.C08
