import CfbVerif.Phys.Zero
import CfbVerif.Phys.Log
import CfbVerif.Handle.Lemmas
/-!
# C08 — bytes gained by growing a stream read as zero, whatever was there before

Property text: *When set_len makes a stream longer, every byte between the old and the new length
reads as zero, immediately and after reopening - regardless of earlier history such as a previous
shrink of the same stream or the removal of other streams whose space is being reused.  No data of
a truncated or removed stream ever becomes visible through another stream.*

Two levels:
* handle level (`CfbVerif.Handle`): `set_len` turns the content into `old.take n ++ zeros`
  (`C08_handle`, from the refinement proved for C06), so every byte of the grown region is 0
  (`C08_grown_bytes_zero`);
* allocation level (`CfbVerif.Phys`): where those zeros physically come from, although sectors and
  mini sectors are recycled: a reused sector is wiped by `init_sector` (`C08_reused_sector_zero`),
  the rest of the old last (mini) sector is overwritten (`C08_tail_or_fresh`), every mini sector
  added by `MiniChain::set_len` is overwritten (by definition of `miniChainGrow`).
That the allocation level implements the byte list of the handle level is the byte-exact
lock-step (image hash after every call) plus the read-back oracle on the implementation.
-/
namespace CfbVerif.Props.C08
open CfbVerif.Handle CfbVerif.Phys

theorem setLen_step_inv {v v' : Vec} {n : Nat} {o : Out} (h : Vec.Step v (.setLen n) o v') :
    v' = ⟨Handle.resize v.content n, min v.cursor n⟩ := by
  cases h; rfl

/-- through the handle, `set_len n` yields exactly the old content cut or padded with zeros -/
theorem C08_handle (h : H) (st : Handle.Bytes) (hi : Inv h st) (n : Nat) :
    absContent (setLen h st n).1 (setLen h st n).2.1 = Handle.resize (absContent h st) n := by
  have := (setLen_refines h st hi n).2
  have hv := setLen_step_inv this
  have : (abs (setLen h st n).1 (setLen h st n).2.1).content = Handle.resize (abs h st).content n := by
    rw [hv]
  exact this

theorem C08_grown_bytes_zero (c : Handle.Bytes) (n i : Nat) (h1 : c.length ≤ i) (h2 : i < n) :
    (Handle.resize c n)[i]? = some 0 := by
  unfold Handle.resize zeros
  have hl : (c.take n).length = c.length := by simp; omega
  rw [List.getElem?_append_right (by omega), hl]
  rw [List.getElem?_replicate]
  rw [if_pos (by omega)]

/-- and the bytes below the old length are kept -/
theorem C08_kept_bytes (c : Handle.Bytes) (n i : Nat) (h1 : i < c.length) (h2 : i < n) :
    (Handle.resize c n)[i]? = c[i]? := by
  unfold Handle.resize
  rw [List.getElem?_append_left (by simp; omega)]
  simp [h2]

theorem C08_reused_sector_zero {p p' : P} {id : Nat} (inv : FatInv p)
    (hfree : p.free ≠ []) (h : allocateSector p .zero = .ok (p', id)) :
    p'.sectors[id]? = some (zeroSector p.S) :=
  allocateSector_reuse_zero inv hfree h

theorem C08_new_sector_zero {p p' : P} {id : Nat} {k : Init} (hs : p.sectors.size = p.numSectors)
    (h : initSector p id k = .ok p') : p'.sectors[id]? = some (zeroSector p.S) :=
  (initSector_zero hs h).1

theorem C08_tail_or_fresh (old new unit i : Nat) (hu : 0 < unit) (h1 : old ≤ i) (h2 : i < new) :
    (∃ a n, zeroTailRange old new unit = some (a, n) ∧ a ≤ i ∧ i < a + n) ∨
    ((unit + old - 1) / unit * unit ≤ i) :=
  zeroTail_covers old new unit i hu h1 h2

/-- the store operations a `set_len` sends down are the write-back of what was buffered, then one
resize — nothing else touches the stream (ties the two levels) -/
theorem C08_setLen_log (h : H) (st : Handle.Bytes) (n : Nat) :
    applyLog st (setLenL h n) = (setLen h st n).2.1 := setLenL_store h st n

example : (Handle.resize [1, 2, 3] 6)[4]? = some 0 := by decide

end CfbVerif.Props.C08
