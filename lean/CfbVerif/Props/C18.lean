import CfbVerif.Io.Model
import CfbVerif.Props.C06
import CfbVerif.Phys.Api
/-!
# C18 — results do not depend on buffering, I/O chunking, backend or run

Property text: *The same operation history produces the same observable results and - once storage
timestamps are pinned - a byte-identical file on every run, on an in-memory buffer and on a real
file, and however the underlying reader/writer splits transfers (short reads, short writes,
interrupted calls that succeed on retry).  The logical outcome is also the same for every maximum
buffer size and for format versions 3 and 4.*

* chunking: `read_exact` and `write_all` — the loops every layer of the library ends in
  (`Sector::read`/`write`, `Chain`, `MiniChain` return short counts by design; the callers are
  `read_exact`, `write_all`, `io::copy`) — deliver exactly the requested bytes whatever positive
  counts and `Interrupted` results the underlying file produces (`C18_read_exact_chunking`,
  `C18_write_all_chunking`).
* buffer size: `C06_bufsize_indep`.
* run-to-run determinism and version independence of the *logical* outcome: the models are
  functions (no clock, no randomness: storage times are inputs) and the directory model does not
  mention the version; that the implementation agrees is the lock-step of C01 in both versions.
Partial by nature: what the OS does with a real file is not in the model (one backend run only).
-/
set_option linter.unusedSimpArgs false
set_option linter.unusedVariables false
namespace CfbVerif.Props.C18
open CfbVerif.Io

theorem slice_append (img : Bytes) (off k n : Nat) :
    slice img off k ++ slice img (off + k) n = slice img off (k + n) := by
  unfold slice
  rw [List.take_add, ← List.drop_drop]

/-- **short reads and interrupts do not matter**: if the `read_exact` loop completes at all, it
delivered exactly bytes `[off, off+len)` of the file -/
theorem C18_read_exact_chunking (img : Bytes) : ∀ (orc : List Chunk) (off len : Nat) (acc out : Bytes),
    readExact img orc off len acc = some out → out = acc ++ slice img off len := by
  intro orc
  induction orc with
  | nil =>
    intro off len acc out h
    simp only [readExact] at h
    split at h
    · rename_i h0; subst h0; simp at h; simp [← h, slice]
    · cases h
  | cons c rest ih =>
    intro off len acc out h
    simp only [readExact] at h
    split at h
    · rename_i h0; subst h0; simp at h; simp [← h, slice]
    · rename_i hne
      cases c with
      | interrupted => exact ih off len acc out h
      | short m =>
        simp only at h
        have := ih _ _ _ out h
        rw [this, List.append_assoc, slice_append]
        congr 2
        omega

/-- … and it completes as soon as the oracle contains enough successful reads: `len` of them always
suffice (each delivers at least one byte) -/
theorem C18_read_exact_progress (img : Bytes) : ∀ (orc : List Chunk) (len off : Nat) (acc : Bytes),
    len ≤ (orc.filter (fun c => c != .interrupted)).length →
    (readExact img orc off len acc).isSome = true := by
  intro orc
  induction orc with
  | nil => intro len off acc h; simp at h; simp [readExact, h]
  | cons c rest ih =>
    intro len off acc h
    simp only [readExact]
    split
    · rfl
    · rename_i hne
      cases c with
      | interrupted => exact ih len off acc (by simpa using h)
      | short m =>
        simp only
        apply ih
        simp only [List.filter_cons, bne_iff_ne, ne_eq, reduceCtorEq, not_false_eq_true, decide_true,
          if_true, List.length_cons] at h
        omega

theorem splice_take (file chunk : Bytes) (off : Nat) (hoff : off ≤ file.length) :
    (file.take off ++ chunk ++ file.drop (off + chunk.length)).take (off + chunk.length) = file.take off ++ chunk := by
  have h1 : (List.take off file).length = off := by simp; omega
  rw [List.take_append_of_le_length (by simp only [List.length_append, h1]; omega)]
  rw [List.take_of_length_le (by simp only [List.length_append, h1]; omega)]

theorem splice_drop (file chunk : Bytes) (off r : Nat) (hoff : off ≤ file.length) :
    (file.take off ++ chunk ++ file.drop (off + chunk.length)).drop (off + chunk.length + r)
      = file.drop (off + chunk.length + r) := by
  have h1 : (List.take off file).length = off := by simp; omega
  rw [List.drop_append, List.drop_eq_nil_of_le (by simp only [List.length_append, h1]; omega)]
  simp only [List.length_append, h1, List.nil_append, List.drop_drop]
  congr 1; omega

/-- **short writes and interrupts do not matter**: if `write_all` completes, the file holds the
buffer at `off` (bytes before and behind untouched) -/
theorem C18_write_all_chunking : ∀ (orc : List Chunk) (file : Bytes) (off : Nat) (buf out : Bytes),
    off ≤ file.length → writeAll orc file off buf = some out →
    out = file.take off ++ buf ++ file.drop (off + buf.length) := by
  intro orc
  induction orc with
  | nil =>
    intro file off buf out hoff h
    simp only [writeAll] at h
    split at h
    · rename_i h0; subst h0; simp at h; simp [← h]
    · cases h
  | cons c rest ih =>
    intro file off buf out hoff h
    simp only [writeAll] at h
    split at h
    · rename_i h0; subst h0; simp at h; simp [← h]
    · rename_i hne
      cases c with
      | interrupted => exact ih file off buf out hoff h
      | short m =>
        simp only at h
        have hbl : 0 < buf.length := List.length_pos_iff.mpr hne
        generalize hk : min (max m 1) buf.length = k at h
        have hk2 : k ≤ buf.length := by omega
        have hlen : (List.take k buf).length = k := by simp; omega
        have hnew : off + k ≤ (List.take off file ++ List.take k buf ++ List.drop (off + k) file).length := by
          simp only [List.length_append, List.length_take, List.length_drop]; omega
        have := ih _ (off + k) _ out hnew h
        rw [this]
        have e1 := splice_take file (List.take k buf) off hoff
        have e2 := splice_drop file (List.take k buf) off (List.drop k buf).length hoff
        rw [hlen] at e1 e2
        rw [e1, e2, List.append_assoc (List.take off file), List.take_append_drop]
        congr 2
        simp only [List.length_drop]; omega

/-- buffer-size independence of every observable result of a handle (restated from C06) -/
theorem C18_bufsize (m₁ m₂ : Nat) (c0 : Handle.Bytes) (ops : List Handle.DOp) :
    (Handle.runD (Handle.H.new c0.length m₁) c0 ops).2.2 = (Handle.runD (Handle.H.new c0.length m₂) c0 ops).2.2 :=
  C06.C06_bufsize_indep m₁ m₂ c0 ops

/-! non-vacuity: a loop fed with 1-byte reads and interrupts -/
example : readExact [1, 2, 3, 4, 5] [.interrupted, .short 1, .short 1, .interrupted, .short 7] 1 3 [] = some [2, 3, 4] := by
  decide

end CfbVerif.Props.C18

namespace CfbVerif.Props.C18
open CfbVerif.Dir CfbVerif.Phys

/-! ### format version, allocation history: the logical outcome of a history does not see them -/

/-- run a history on the two-level model, collecting the results -/
def prun : PState → List HOp → List HOut
  | _, [] => []
  | ps, op :: rest => (pstep ps op).2.1 :: prun (pstep ps op).1 rest

theorem pstep_out_congr (ps1 ps2 : PState) (hs : ps1.s = ps2.s) (op : HOp) :
    (pstep ps1 op).2.1 = (pstep ps2 op).2.1 := by
  unfold pstep
  rw [hs]
  generalize hstep ps2.s op = r
  obtain ⟨s', out⟩ := r
  cases out with
  | noHandle => rfl
  | base o => simp only; split <;> split <;> rfl

theorem pstep_s_congr (ps1 ps2 : PState) (hs : ps1.s = ps2.s) (op : HOp) :
    (pstep ps1 op).1.s = (pstep ps2 op).1.s := by
  unfold pstep
  rw [hs]
  generalize hstep ps2.s op = r
  obtain ⟨s', out⟩ := r
  cases out with
  | noHandle => exact hs
  | base o => simp only; split <;> split <;> rfl

/-- **the results of a history depend on the logical state only** — not on the format version, not
on where earlier operations put the sectors, not on what the free lists hold: two files with the
same logical content answer every history identically, call by call -/
theorem C18_results_ignore_allocation : ∀ (ops : List HOp) (ps1 ps2 : PState), ps1.s = ps2.s →
    prun ps1 ops = prun ps2 ops := by
  intro ops
  induction ops with
  | nil => intro _ _ _; rfl
  | cons op rest ih =>
    intro ps1 ps2 hs
    unfold prun
    rw [pstep_out_congr ps1 ps2 hs op, ih _ _ (pstep_s_congr ps1 ps2 hs op)]

/-- **versions 3 and 4**: the same history on a fresh version-3 file and on a fresh version-4 file
gives the same results (the versions differ in sector size, hence in every allocation decision —
none of which a result can see) -/
theorem C18_version_indep (maxBuf : Nat) (ops : List HOp) :
    prun (PState.create false maxBuf) ops = prun (PState.create true maxBuf) ops :=
  C18_results_ignore_allocation ops _ _ rfl

end CfbVerif.Props.C18
