import CfbVerif.Spec.Consts
import CfbVerif.Phys.Api
import CfbVerif.Phys.Codec
/-!
# C02 — write-through persistence: the byte image always reopens to the same state

Property text: *At every point between API calls at which no stream handle holds unflushed data,
the underlying bytes alone - taken without calling flush, as into_inner or a crash of the process
would leave them - reopen successfully in both permissive and strict mode and expose exactly the
same tree, metadata and stream contents that the live object exposed.  Continuing to operate on the
reopened file behaves the same as continuing on the live one.*

Model: the two-level API model `Phys.pstep` (`Dir` decides results, `Phys` the bytes) with the
renderer `Phys.render`.  The model is *write-through by construction*: its image is a function of
the tables after each call; the lock-step compares that image (length + FNV-64 after every call)
with the bytes the library has really written at that moment, without any flush — so a write the
library postpones or forgets shows up as a hash difference at the first call boundary.

Proved here:
* `C02_image_ignores_caches`: the image does not depend on the in-memory caches that `open`
  rebuilds (free lists, directory length): reopening changes no byte;
* `C02_results_ignore_layout`: results and logical state of every call are those of the logical
  model, whatever the allocation state — in particular the same before and after a reopen
  ("continuing on the reopened file behaves the same");
* `C02_le_roundtrip`, `C02_entry_codec`, `Phys.header_field_roundtrip`: the renderer of a directory
  entry / of the header is a sequence of little-endian fields (`renderEntry_eq`, `renderHeader_eq`)
  and every field of such a sequence is read back exactly by the reader model's primitive
  `Raw.leN` at the offset where it starts, whatever is appended later.
That the rendered image reopens (both modes) to the logical state is decided per snapshot: the
check feeds model images and real images to `Raw.openImg` and to the library.
-/
namespace CfbVerif.Props.C02
open CfbVerif.Phys CfbVerif.Dir CfbVerif.Raw

theorem C02_image_ignores_caches {p p' : P} (rows : List Row) (h : Phys.reopen p = .ok p') :
    render p' rows = render p rows := by
  unfold Phys.reopen at h
  cases hc : chainIds p p.dirStart with
  | err e => simp [hc, bind, Outcome.bind] at h
  | panic s => simp [hc, bind, Outcome.bind] at h
  | hang s => simp [hc, bind, Outcome.bind] at h
  | ok ids =>
    simp only [hc, bind, Outcome.bind, pure] at h
    cases h
    rfl

theorem C02_results_ignore_layout (ps : PState) (op : HOp) :
    (pstep ps op).2.1 = (hstep ps.s op).2 := by
  unfold pstep
  generalize hstep ps.s op = r
  obtain ⟨s', out⟩ := r
  cases out with
  | noHandle => rfl
  | base o =>
    simp only
    split <;> rfl

theorem C02_state_ignores_layout (ps : PState) (op : HOp) (hh : (hstep ps.s op).2 ≠ .noHandle) :
    (pstep ps op).1.s = (hstep ps.s op).1 := by
  unfold pstep
  generalize hstep ps.s op = r at hh
  obtain ⟨s', out⟩ := r
  cases out with
  | noHandle => exact absurd rfl hh
  | base o =>
    simp only
    split <;> rfl

/-- two allocation states with the same logical state give the same results forever -/
theorem C02_continue_same (ps1 ps2 : PState) (hs : ps1.s = ps2.s) (op : HOp) :
    (pstep ps1 op).2.1 = (pstep ps2 op).2.1 := by
  rw [C02_results_ignore_layout, C02_results_ignore_layout, hs]

/-! ### the codec: little-endian fields and whole directory entries (`Phys/LE.lean`, `Phys/Codec.lean`) -/

/-- a `w`-byte little-endian field appended by the renderer is read back by the reader model -/
theorem C02_le_roundtrip (w : Nat) (b : ByteArray) (n : Nat) :
    leN (pushLE b w n) b.size w = some (n % 256 ^ w) := le_roundtrip w b n

/-- every field of a rendered directory entry is read back at its offset, whatever follows -/
theorem C02_entry_codec (b : ByteArray) (r : Row) (start len : Nat) (rest : List (Nat × Nat))
    (k : Nat) (hk : k < (entryFields r start len).length) :
    leN (pushFields (renderEntry b r start len) rest) (b.size + widthSum ((entryFields r start len).take k))
      (entryFields r start len)[k].1 =
    some ((entryFields r start len)[k].2 % 256 ^ (entryFields r start len)[k].1) :=
  entry_field_roundtrip b r start len rest k hk

example : leN (pushLE ByteArray.empty 4 0xFFFFFFFE) 0 4 = some 0xFFFFFFFE := by
  have := C02_le_roundtrip 4 ByteArray.empty 0xFFFFFFFE
  simpa using this

end CfbVerif.Props.C02
