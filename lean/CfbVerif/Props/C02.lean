import CfbVerif.Phys.Api
/-!
# C02 — write-through persistence: the byte image always reopens to the same state

Property text: *At every point between API calls at which no stream handle holds unflushed data,
the underlying bytes alone - taken without calling flush, as into_inner or a crash of the process
would leave them - reopen successfully in both permissive and strict mode and expose exactly the
same tree, metadata and stream contents that the live object exposed.  Continuing to operate on the
reopened file behaves the same as continuing on the live one.*

Model: the two-level API model `Phys.pstep` (`Dir` decides results, `Phys` the bytes) with the
renderer `Phys.render`.  The model is *write-through by construction*: its image is a function of
the tables after each call; the lock-step compares that image (length + FNV-64 after every call)
with the bytes the library has really written at that moment, without any flush — so a write the
library postpones or forgets shows up as a hash difference at the first call boundary.

Proved here:
* `C02_image_ignores_caches`: the image does not depend on the in-memory caches that `open`
  rebuilds (free lists, directory length): reopening changes no byte;
* `C02_results_ignore_layout`: results and logical state of every call are those of the logical
  model, whatever the allocation state — in particular the same before and after a reopen
  ("continuing on the reopened file behaves the same");
* `C02_le_roundtrip`: little-endian fields written by the renderer are read back by the reader
  model (`Raw.leN`), the codec step every header and directory field goes through.
That the rendered image reopens (both modes) to the logical state is decided per snapshot: the
check feeds model images and real images to `Raw.openImg` and to the library.
-/
namespace CfbVerif.Props.C02
open CfbVerif.Phys CfbVerif.Dir CfbVerif.Raw

theorem C02_image_ignores_caches {p p' : P} (rows : List Row) (h : Phys.reopen p = .ok p') :
    render p' rows = render p rows := by
  unfold Phys.reopen at h
  cases hc : chainIds p p.dirStart with
  | err e => simp [hc, bind, Outcome.bind] at h
  | panic s => simp [hc, bind, Outcome.bind] at h
  | hang s => simp [hc, bind, Outcome.bind] at h
  | ok ids =>
    simp only [hc, bind, Outcome.bind, pure] at h
    cases h
    rfl

theorem C02_results_ignore_layout (ps : PState) (op : HOp) :
    (pstep ps op).2.1 = (hstep ps.s op).2 := by
  unfold pstep
  generalize hstep ps.s op = r
  obtain ⟨s', out⟩ := r
  cases out with
  | noHandle => rfl
  | base o =>
    simp only
    split <;> rfl

theorem C02_state_ignores_layout (ps : PState) (op : HOp) (hh : (hstep ps.s op).2 ≠ .noHandle) :
    (pstep ps op).1.s = (hstep ps.s op).1 := by
  unfold pstep
  generalize hstep ps.s op = r at hh
  obtain ⟨s', out⟩ := r
  cases out with
  | noHandle => exact absurd rfl hh
  | base o =>
    simp only
    split <;> rfl

/-- two allocation states with the same logical state give the same results forever -/
theorem C02_continue_same (ps1 ps2 : PState) (hs : ps1.s = ps2.s) (op : HOp) :
    (pstep ps1 op).2.1 = (pstep ps2 op).2.1 := by
  rw [C02_results_ignore_layout, C02_results_ignore_layout, hs]

/-! ### the little-endian codec step -/

theorem get!_push_lt (b : ByteArray) (x : UInt8) (i : Nat) (h : i < b.size) : (b.push x).get! i = b.get! i := by
  cases b with
  | mk d =>
    show (d.push x)[i]! = d[i]!
    have h' : i < d.size := h
    rw [getElem!_pos (d.push x) i (by simp; omega), getElem!_pos d i h']
    exact Array.getElem_push_lt h'

theorem get!_push_eq (b : ByteArray) (x : UInt8) : (b.push x).get! b.size = x := by
  cases b with
  | mk d =>
    show (d.push x)[d.size]! = x
    rw [getElem!_pos (d.push x) d.size (by simp)]
    exact Array.getElem_push_eq

theorem leN_push_frame (b : ByteArray) (x : UInt8) (w off : Nat) (h : off + w ≤ b.size) :
    leN (b.push x) off w = leN b off w := by
  induction w generalizing off with
  | zero => rfl
  | succ w ih =>
    unfold leN
    have hu : u8 (b.push x) off = u8 b off := by
      unfold u8
      rw [if_pos (by rw [ByteArray.size_push]; omega), if_pos (by omega)]
      rw [get!_push_lt b x off (by omega)]
    rw [hu, ih (off + 1) (by omega)]

theorem leN_pushLE_frame (w : Nat) : ∀ (b : ByteArray) (n w' off : Nat), off + w' ≤ b.size →
    leN (pushLE b w n) off w' = leN b off w' := by
  induction w with
  | zero => intro b n w' off _; rfl
  | succ w ih =>
    intro b n w' off h
    unfold pushLE
    rw [ih _ _ _ _ (by rw [ByteArray.size_push]; omega)]
    exact leN_push_frame b _ w' off h

theorem size_pushLE (w : Nat) : ∀ (b : ByteArray) (n : Nat), (pushLE b w n).size = b.size + w := by
  induction w with
  | zero => intro b n; rfl
  | succ w ih => intro b n; unfold pushLE; rw [ih, ByteArray.size_push]; omega

/-- a `w`-byte little-endian field appended by the renderer is read back by the reader model -/
theorem C02_le_roundtrip (w : Nat) : ∀ (b : ByteArray) (n : Nat),
    leN (pushLE b w n) b.size w = some (n % 256 ^ w) := by
  induction w with
  | zero => intro b n; simp [leN, Nat.mod_one]
  | succ w ih =>
    intro b n
    unfold pushLE leN
    have hsz : (b.push (UInt8.ofNat (n % 256))).size = b.size + 1 := ByteArray.size_push
    have hu : u8 (pushLE (b.push (UInt8.ofNat (n % 256))) w (n / 256)) b.size = some (n % 256) := by
      have hf := leN_pushLE_frame w (b.push (UInt8.ofNat (n % 256))) (n / 256) 1 b.size (by omega)
      have h1 : leN (b.push (UInt8.ofNat (n % 256))) b.size 1 = some (n % 256) := by
        unfold leN leN u8
        rw [if_pos (by omega)]
        rw [get!_push_eq]
        have : (UInt8.ofNat (n % 256)).toNat = n % 256 := by
          simp
        simp [this]
      rw [h1] at hf
      unfold leN leN at hf
      cases hx : u8 (pushLE (b.push (UInt8.ofNat (n % 256))) w (n / 256)) b.size with
      | none => simp [hx] at hf
      | some v => simp [hx] at hf; rw [hf]
    rw [hu]
    have := ih (b.push (UInt8.ofNat (n % 256))) (n / 256)
    rw [hsz] at this
    rw [this]
    simp only [Option.some.injEq]
    rw [Nat.pow_succ, Nat.mul_comm (256 ^ w) 256, Nat.mod_mul]

example : leN (pushLE ByteArray.empty 4 0xFFFFFFFE) 0 4 = some 0xFFFFFFFE := by
  have := C02_le_roundtrip 4 ByteArray.empty 0xFFFFFFFE
  simpa using this

end CfbVerif.Props.C02
