import CfbVerif.Spec.Consts
import CfbVerif.Phys.Api
import CfbVerif.Phys.Codec
import CfbVerif.Phys.DifatBack
import CfbVerif.Phys.EntryBack
import CfbVerif.Phys.OpenBack
import CfbVerif.Phys.MiniFitReach
import CfbVerif.Phys.Order
import CfbVerif.Phys.LookupBack
import CfbVerif.Phys.WalkBack
/-!
# C02 — write-through persistence: the byte image always reopens to the same state

Property text: *At every point between API calls at which no stream handle holds unflushed data,
the underlying bytes alone - taken without calling flush, as into_inner or a crash of the process
would leave them - reopen successfully in both permissive and strict mode and expose exactly the
same tree, metadata and stream contents that the live object exposed.  Continuing to operate on the
reopened file behaves the same as continuing on the live one.*

Model: the two-level API model `Phys.pstep` (`Dir` decides results, `Phys` the bytes) with the
renderer `Phys.render`.  The model is *write-through by construction*: its image is a function of
the tables after each call; the lock-step compares that image (length + FNV-64 after every call)
with the bytes the library has really written at that moment, without any flush — so a write the
library postpones or forgets shows up as a hash difference at the first call boundary.

Proved here:
* `C02_image_ignores_caches`: the image does not depend on the in-memory caches that `open`
  rebuilds (free lists, directory length): reopening changes no byte;
* `C02_results_ignore_layout`: results and logical state of every call are those of the logical
  model, whatever the allocation state — in particular the same before and after a reopen
  ("continuing on the reopened file behaves the same");
* `C02_le_roundtrip`, `C02_entry_codec`, `Phys.header_field_roundtrip`: the renderer of a directory
  entry / of the header is a sequence of little-endian fields (`renderEntry_eq`, `renderHeader_eq`)
  and every field of such a sequence is read back exactly by the reader model's primitive
  `Raw.leN` at the offset where it starts, whatever is appended later.
That the rendered image reopens (both modes) to the logical state is decided per snapshot: the
check feeds model images and real images to `Raw.openImg` and to the library.
-/
namespace CfbVerif.Props.C02
open CfbVerif.Phys CfbVerif.Dir CfbVerif.Raw

theorem C02_image_ignores_caches {p p' : P} (rows : List Row) (h : Phys.reopen p = .ok p') :
    render p' rows = render p rows := by
  unfold Phys.reopen at h
  cases hc : chainIds p p.dirStart with
  | err e => simp [hc, bind, Outcome.bind] at h
  | panic s => simp [hc, bind, Outcome.bind] at h
  | hang s => simp [hc, bind, Outcome.bind] at h
  | ok ids =>
    simp only [hc, bind, Outcome.bind, pure] at h
    cases h
    rfl

theorem C02_results_ignore_layout (ps : PState) (op : HOp) :
    (pstep ps op).2.1 = (hstep ps.s op).2 := by
  unfold pstep
  generalize hstep ps.s op = r
  obtain ⟨s', out⟩ := r
  cases out with
  | noHandle => rfl
  | base o =>
    simp only
    split <;> rfl

theorem C02_state_ignores_layout (ps : PState) (op : HOp) (hh : (hstep ps.s op).2 ≠ .noHandle) :
    (pstep ps op).1.s = (hstep ps.s op).1 := by
  unfold pstep
  generalize hstep ps.s op = r at hh
  obtain ⟨s', out⟩ := r
  cases out with
  | noHandle => exact absurd rfl hh
  | base o =>
    simp only
    split <;> rfl

/-- two allocation states with the same logical state give the same results forever -/
theorem C02_continue_same (ps1 ps2 : PState) (hs : ps1.s = ps2.s) (op : HOp) :
    (pstep ps1 op).2.1 = (pstep ps2 op).2.1 := by
  rw [C02_results_ignore_layout, C02_results_ignore_layout, hs]

/-! ### the codec: little-endian fields and whole directory entries (`Phys/LE.lean`, `Phys/Codec.lean`) -/

/-- a `w`-byte little-endian field appended by the renderer is read back by the reader model -/
theorem C02_le_roundtrip (w : Nat) (b : ByteArray) (n : Nat) :
    leN (pushLE b w n) b.size w = some (n % 256 ^ w) := le_roundtrip w b n

/-- every field of a rendered directory entry is read back at its offset, whatever follows -/
theorem C02_entry_codec (b : ByteArray) (r : Row) (start len : Nat) (rest : List (Nat × Nat))
    (k : Nat) (hk : k < (entryFields r start len).length) :
    leN (pushFields (renderEntry b r start len) rest) (b.size + widthSum ((entryFields r start len).take k))
      (entryFields r start len)[k].1 =
    some ((entryFields r start len)[k].2 % 256 ^ (entryFields r start len)[k].1) :=
  entry_field_roundtrip b r start len rest k hk

/-! ### the image is laid out in sectors, and the reader reads the tables back (`Phys/Layout.lean`,
`Phys/ReadBack.lean`, `Phys/Accepts.lean`, `Phys/HeaderBack.lean`) -/

/-- **the image is the header sector followed by one sector-sized block per sector** -/
theorem C02_image_size (p : P) (rows : List Row) (ss : SS p) (hs : SlotsOk (slotsOf p rows)) :
    (render p rows).size = (p.numSectors + 1) * p.S := render_size p rows ss hs

/-- **the reader's FAT is the writer's FAT, and `Allocator::validate` accepts it**: after every
history of stream-level operations, in both modes, loading the FAT sectors the DIFAT lists from the
rendered image, normalising and validating returns exactly the model's FAT -/
theorem C02_fat_reopens (v4 : Bool) (ops : List GOp) (rows : List Row) (m : Raw.Mode) :
    let g := grun { p := Phys.create v4, L := fun _ => 0 } ops
    g.p.fat.size ≤ MAXREG + 1 → SlotsOk (slotsOf g.p rows) →
    ∃ fat0, readFat (render g.p rows) g.p.S g.p.numSectors g.p.difat = .ok fat0 ∧
      validateFat m g.p.numSectors g.p.difatSectorIds g.p.difat (normFat m g.p.numSectors fat0).toArray = .ok g.p.fat :=
  fat_reopens_reachable v4 ops rows m

/-- **the reader's MiniFAT is the writer's MiniFAT**, and the reader's pointee check accepts it -/
theorem C02_minifat_reopens (v4 : Bool) (ops : List GOp) (rows : List Row) :
    let g := grun { p := Phys.create v4, L := fun _ => 0 } ops
    g.p.fat.size ≤ MAXREG + 1 → MiniBounded { p := Phys.create v4, L := fun _ => 0 } ops →
    SlotsOk (slotsOf g.p rows) →
    readChainU32s (render g.p rows) g.p.S (chainOrEmpty g.p g.p.miniFatStart).toArray
        ((chainOrEmpty g.p g.p.miniFatStart).length * g.p.S / 4) 0 =
      .ok ((List.range ((chainOrEmpty g.p g.p.miniFatStart).length * g.p.S / 4)).map (fun t => cellAt g.p.miniFat t % 256 ^ 4)) ∧
    checkMiniPointees g.p.miniFat 0 [] = .ok () :=
  minifat_reopens_reachable v4 ops rows

/-- **`open` on the rendered image reconstructs the writer's DIFAT sectors, DIFAT and FAT**, for
files of every size: the reader model's `open`, in both modes, reads the header the renderer wrote,
walks the DIFAT chain, loads, normalises and validates the FAT, and continues on the writer's tables -/
theorem C02_open_reconstructs_tables (v4 : Bool) (ops : List GOp) (rows : List Row) (m : Raw.Mode) :
    let g := grun { p := Phys.create v4, L := fun _ => 0 } ops
    g.p.fat.size ≤ MAXREG → SlotsOk (slotsOf g.p rows) →
    ∃ h : Raw.Header, readHeader m (render g.p rows) = .ok h ∧ h.v4 = g.p.v4 ∧ h.firstDirSector = g.p.dirStart ∧
      h.firstMiniFatSector = g.p.miniFatStart ∧
      openImg m (render g.p rows) =
        openAfterFat m (render g.p rows) h g.p.numSectors g.p.difatSectorIds g.p.difat g.p.fat :=
  open_fat_stage_all_reachable v4 ops rows m

/-- **a rendered directory entry is decoded back, whole** (the whole-entry codec): the reader model's
`readDirEntry` — name units, length field, terminator, UTF-16 decoding, type, colour, links, CLSID
byte order, state bits, times, start sector, size under the version's mask, and every check of
both modes — run where `renderEntry` started writing returns the entry the row describes, whatever
follows in the file -/
theorem C02_entry_decoded (b : ByteArray) (r : Row) (start len : Nat) (rest : List (Nat × Nat)) (m : Raw.Mode) (v4 : Bool)
    (wf : RowWf r start len v4) :
    readDirEntry m v4 (pushFields (renderEntry b r start len) rest) b.size = .ok (entryOf r start len) :=
  readDirEntry_render b r start len rest m v4 wf

/-- … and an unallocated slot as the blank entry -/
theorem C02_unallocated_decoded (b : ByteArray) (rest : List (Nat × Nat)) (m : Raw.Mode) (v4 : Bool) :
    readDirEntry m v4 (pushFields (renderUnallocated b) rest) b.size = .ok unallocEntry :=
  readDirEntry_unallocated b rest m v4

/-! ### the directory stage and the whole of `open` (`Phys/DirBack.lean`, `Phys/DirAccepts.lean`,
`Phys/DirTable.lean`, `Phys/OpenBack.lean`) -/

/-- **the directory chain loop of `open` returns the writer's directory table, slot by slot**, after
every history of the store machine, in both modes: `dirLoop` follows the FAT along the directory
chain of the rendered image — range, repetition and (strict, V4) count checks included — and
decodes every slot of every directory sector to the entry the renderer was given for it (the blank
entry for a free slot) -/
theorem C02_directory_read_back (v4 : Bool) (ops : List GOp) (rows : List Row) (m : Raw.Mode) :
    let g := grun { p := Phys.create v4, L := fun _ => 0 } ops
    g.p.fat.size ≤ MAXREG → SlotsWf g.p (slotsOf g.p rows) →
    dirLoop m (hdrOf g.p) (render g.p rows) g.p.numSectors g.p.fat (g.p.numSectors + 1) g.p.dirStart 1 [] [] =
      .ok (tableOf g.p rows) := by
  intro g hfs sw
  have gs := gs_grun ops { p := Phys.create v4, L := fun _ => 0 }
  have hb : g.p.fat.size ≤ MAXREG + 1 := Nat.le_succ_of_le hfs
  have j := noLeak_reachable v4 ops hb
  have mk := (mk_grun_reachable v4 ops hb).1
  have hn : g.p.numSectors ≤ MAXREG := by rw [← j.inv.fat.size]; exact hfs
  exact dirLoop_readback rows j mk (gs.ss (ss_create v4)) sw hn m (hdrOf g.p) rfl (by
    intro hv; simp only [hdrOf] at hv ⊢; rw [if_pos hv])

/-- **`Directory::validate` accepts every table that represents a directory tree** (`DfsOk`: entries
at the nodes' slots with the nodes' names, types, colours and links; siblings ordered; in strict
mode no red node with a red sibling-child), whatever the tree's shape — the visited-list walk is
shown to consume exactly one iteration per node (`dfs_tree`) -/
theorem C02_validate_accepts (m : Raw.Mode) (T : Array DirEntry) (top : Tree) (d0 : DirEntry)
    (h0 : T[0]? = some d0) (hty : d0.objType = Gen.OBJ_TYPE_ROOT) (hl : d0.left = NOSTREAM) (hr : d0.right = NOSTREAM)
    (hc : d0.child = lnk top) (hlen : d0.streamLen % Gen.MINI_SECTOR_LEN = 0)
    (ok : DfsOk T m.isStrict top) (nd : top.slots.Nodup) : validateDir m T = .ok () :=
  validateDir_accepts m T top d0 h0 hty hl hr hc hlen ok nd

/-- **the rendered image reopens, and `open` returns the writer's tables** — for every state `g` the
store machine reaches and every directory tree `s` of the directory model rendered beside it, in
both modes: header, DIFAT chain, FAT (load, normalise, validate), directory chain,
`Directory::validate`, MiniFAT chain and its pointee check all run through, and the reader's state
is the writer's (`rawOf`).  Hypotheses, besides the size bounds: the tree is well-formed (`Tree.WF`,
proved for every API history in C01; `RBAll` in strict mode), its slots are distinct slots of the
directory chain, every row is encodable (`SlotsWf`), and `MiniFit` (see `Phys/OpenBack.lean`: the
in-memory MiniFAT is trimmed, fits its chain and the mini stream — not yet carried through the
operations, compared by the lock-step after every call). -/
theorem C02_reopens (v4 : Bool) (ops : List GOp) (s : Dir.State) (m : Raw.Mode) :
    let g := grun { p := Phys.create v4, L := fun _ => 0 } ops
    g.p.fat.size ≤ MAXREG → MiniBounded { p := Phys.create v4, L := fun _ => 0 } ops →
    SlotsWf g.p (slotsOf g.p (dirtable s)) → MiniFit g.p →
    s.top.WF → (m.isStrict = true → RBAll s.top) →
    (0 :: s.top.slots).Nodup → (∀ x ∈ 0 :: s.top.slots, x < dirCap g.p) → dirCap g.p ≤ NOSTREAM →
    g.p.rootLen % Gen.MINI_SECTOR_LEN = 0 →
    openImg m (render g.p (dirtable s)) = .ok (rawOf g.p (dirtable s)) := by
  intro g hfs hm sw mf wf rb nd hcap hcapN hmod
  have gs := gs_grun ops { p := Phys.create v4, L := fun _ => 0 }
  have hb : g.p.fat.size ≤ MAXREG + 1 := Nat.le_succ_of_le hfs
  have j := noLeak_reachable v4 ops hb
  have jm := noLeakMini_reachable v4 ops hm
  have mk := (mk_grun_reachable v4 ops hb).1
  have hn : g.p.numSectors ≤ MAXREG := by rw [← j.inv.fat.size]; exact hfs
  exact open_reads_back_dir s j jm mk (gs.ss (ss_create v4)) (gs.cap (cap_create v4)) sw hn mf m wf rb nd hcap hcapN hmod

/-- **`MiniFit` is an invariant**: in every state the store machine reaches from a fresh file (writes
starting at or before the end of their stream, as a handle's do; MiniFAT below 2³² cells) the
in-memory MiniFAT is trimmed, fits its chain, holds 32-bit cells, and the mini stream is exactly 64
bytes per cell long — `Phys/MiniFitA.lean` for the three clauses about the MiniFAT itself,
`Phys/MiniCap.lean` for "fits its chain", which rests on the no-sharing / no-leak invariant of the
FAT: the MiniFAT chain never gets shorter because nothing that is freed or cut lies on it (on a
damaged file that is false, and `set_minifat` used to assert it: F20) -/
theorem C02_minifit_reachable (v4 : Bool) (ops : List GOp) :
    let g0 : G := { p := Phys.create v4, L := fun _ => 0 }
    WritesInRange g0 ops → MiniBounded g0 ops → (grun g0 ops).p.fat.size ≤ MAXREG + 1 →
    MiniFit (grun g0 ops).p ∧ (grun g0 ops).p.rootLen % Gen.MINI_SECTOR_LEN = 0 :=
  miniFit_reachable v4 ops

/-- **the rendered image reopens — without the `MiniFit` hypothesis**: `C02_reopens` for every state
the store machine reaches by histories whose writes start at or before the end of their stream;
what is left as hypothesis is the coupling with the directory model (the rows are encodable and
sit in distinct slots of the directory chain) and the size bounds -/
theorem C02_reopens_reachable (v4 : Bool) (ops : List GOp) (s : Dir.State) (m : Raw.Mode) :
    let g0 : G := { p := Phys.create v4, L := fun _ => 0 }
    let g := grun g0 ops
    g.p.fat.size ≤ MAXREG → WritesInRange g0 ops → MiniBounded g0 ops →
    SlotsWf g.p (slotsOf g.p (dirtable s)) →
    s.top.WF → (m.isStrict = true → RBAll s.top) →
    (0 :: s.top.slots).Nodup → (∀ x ∈ 0 :: s.top.slots, x < dirCap g.p) → dirCap g.p ≤ NOSTREAM →
    openImg m (render g.p (dirtable s)) = .ok (rawOf g.p (dirtable s)) := by
  intro g0 g hfs hw hm sw wf rb nd hcap hcapN
  have mf := miniFit_reachable v4 ops hw hm (Nat.le_succ_of_le hfs)
  exact C02_reopens v4 ops s m hfs hm sw mf.1 wf rb nd hcap hcapN mf.2

/-- **…and exposes the same tree**: on the state `open` returns for the rendered image (`rawOf`,
by `C02_reopens`), the reader model's path resolution — `stream_id_for_name_chain`: one search-tree
descent per name over the index-linked table — finds, for every name chain, exactly the entry the
directory model's `resolve` finds in the live tree (its slot), and nothing when that finds nothing:
`exists` / `is_stream` / `is_storage` / `entry` / `open_stream` address the same objects after a
reopen, whatever the shapes of the sibling trees -/
theorem C02_lookup_after_reopen (p : P) (s : Dir.State) (strict : Bool)
    (wf : s.top.WF) (rb : strict = true → RBAll s.top)
    (nd : (0 :: s.top.slots).Nodup) (hcap : ∀ x ∈ 0 :: s.top.slots, x < dirCap p) (hcapN : dirCap p ≤ NOSTREAM)
    (names : List Names.Name) :
    Raw.lookup (rawOf p (dirtable s)) names Gen.ROOT_STREAM_ID = .ok ((resolve s.top names).map slotOfRes) :=
  lookup_after_reopen p s strict wf rb nd hcap hcapN names

/-- … and `walk` on the reopened file lists the paths the live object's `walk` lists, in the same
(pre-)order: the `Entries` stack machine over the index-linked table is shown to emit, for every
sibling tree, the tree's pre-order (`Phys.walk_tree`, one iteration per node) -/
theorem C02_walk_after_reopen (p : P) (s : Dir.State) (strict : Bool)
    (wf : s.top.WF) (rb : strict = true → RBAll s.top)
    (nd : (0 :: s.top.slots).Nodup) (hcap : ∀ x ∈ 0 :: s.top.slots, x < dirCap p) (hcapN : dirCap p ≤ NOSTREAM) :
    ∃ l, Raw.walk (rawOf p (dirtable s)) = .ok l ∧ l.map (·.1) = (walkAll s).map (·.path) :=
  walk_after_reopen p s strict wf rb nd hcap hcapN

/-- the premises of `C02_reopens` are met — **a fresh file reopens**: for the state `create` leaves (root
entry only, no MiniFAT) every hypothesis holds, so both open modes accept the rendered image of a
new file of either version and return its tables -/
theorem C02_fresh_file_reopens (v4 : Bool) (m : Raw.Mode) :
    openImg m (render (Phys.create v4) (dirtable Dir.State.create)) =
      .ok (rawOf (Phys.create v4) (dirtable Dir.State.create)) := by
  have hdc : chainOrEmpty (Phys.create v4) (Phys.create v4).dirStart = [1] := by cases v4 <;> decide
  have hcapv : dirCap (Phys.create v4) = (Phys.create v4).S / Gen.DIR_ENTRY_LEN := by
    unfold dirCap; rw [hdc]; simp
  have hS : 4 ≤ (Phys.create v4).S / Gen.DIR_ENTRY_LEN ∧ (Phys.create v4).S / Gen.DIR_ENTRY_LEN ≤ 32 := by
    cases v4 <;> decide
  refine C02_reopens v4 [] Dir.State.create m (by cases v4 <;> decide) trivial ?_ ?_ trivial (fun _ => trivial)
    (by simp [Dir.State.create, Tree.slots]) ?_ ?_ rfl
  · -- the only row is the root's
    intro i r hi
    have hrows : dirtable Dir.State.create = [rootRowOf Dir.State.create] := rfl
    unfold slotsOf at hi
    simp only [grun, hrows, List.foldl_cons, List.foldl_nil] at hi
    rw [Array.getElem?_setIfInBounds] at hi
    split at hi
    · rename_i h0
      split at hi
      · cases hi
        have hascii : ∀ c ∈ (rootRowOf Dir.State.create).name, c < 128 := by decide
        have hu : Names.utf16 (rootRowOf Dir.State.create).name = (rootRowOf Dir.State.create).name :=
          Names.utf16_ascii _ hascii
        refine ⟨by decide, by decide, ?_, Or.inr (Or.inr rfl), fun _ => rfl, fun h => absurd rfl h,
          Or.inl rfl, Or.inl rfl, Or.inl rfl, (fun h => by cases h), rfl, (fun h => by cases h), by decide, by decide, by decide,
          (by cases v4 <;> decide), ?_, (fun h => by cases h)⟩
        · rw [hu]; exact decodeUtf16_low _ (fun u hu' => by have := hascii u hu'; omega)
        · cases v4 <;> decide
      · cases hi
    · rw [Array.getElem?_replicate] at hi
      split at hi <;> cases hi
  · exact ⟨(by intro v h; cases h), Nat.zero_le _, (fun i hi => absurd hi (Nat.not_lt_zero _)), Nat.zero_le _⟩
  · intro x hx
    simp only [Dir.State.create, Tree.slots, List.mem_cons, List.not_mem_nil, or_false] at hx
    subst hx
    show 0 < dirCap (Phys.create v4)
    rw [hcapv]; omega
  · show dirCap (Phys.create v4) ≤ NOSTREAM
    rw [hcapv]
    have : (32 : Nat) ≤ NOSTREAM := by decide
    omega

/-- the premises are met: in an example history (regular and mini streams, a removal) the FAT is within range, and an empty row list is well-formed -/
def exOps : List GOp :=
  [.create 1, .resize 1 5000, .create 2, .resize 2 9000, .free 1, .create 3, .resize 3 100]

example : (grun { p := Phys.create false, L := fun _ => 0 } exOps).p.fat.size ≤ MAXREG := by decide
example (p : P) : SlotsOk (slotsOf p []) := by
  intro i r h
  unfold slotsOf at h
  simp only [List.foldl_nil] at h
  have := Array.getElem?_replicate (n := (chainOrEmpty p p.dirStart).length * (p.S / Gen.DIR_ENTRY_LEN))
    (v := (none : Option Row)) (i := i)
  rw [this] at h
  split at h <;> cases h

example : leN (pushLE ByteArray.empty 4 0xFFFFFFFE) 0 4 = some 0xFFFFFFFE := by
  have := C02_le_roundtrip 4 ByteArray.empty 0xFFFFFFFE
  simpa using this

end CfbVerif.Props.C02
