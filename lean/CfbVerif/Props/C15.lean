import CfbVerif.Phys.Mini
import CfbVerif.Phys.Api
import CfbVerif.Phys.ApiInv
import CfbVerif.Phys.Cycle
/-!
# C15 — released space is reused: repeating a net-zero cycle does not grow the file

Property text: *Space released by removing, truncating or overwriting streams and storages is
reused by later allocations.  Consequently, repeating any cycle of operations that returns the file
to the same logical state (for example create a stream, write it, remove it) leaves the file size
unchanged from the second repetition on, for small (mini-stream) and large streams alike.*

Model: `CfbVerif.Phys` (alloc.rs, minialloc.rs, chain.rs, minichain.rs, stream.rs write/resize case
tables), byte-exact against the real file in the lock-step.  The file length is
`(numSectors + 1) * sector_len`.

What is proved, for every state satisfying the allocator invariant:
* a sector allocation with a non-empty free list takes its sector from the list and leaves the file
  length alone (`C15_sector_reuse`);
* freeing a chain puts every one of its sectors on the free list and keeps the invariant
  (`C15_release`);
* a mini-sector allocation with a really free entry on the mini free list reuses it: neither the mini
  stream nor the file grows (`C15_mini_reuse`);
* as many allocations in a row as the free list is long do not grow the file (`C15_many_reuse`),
  and every release makes the free list strictly longer (`C15_release_grows_free`);
* the invariant holds in a fresh file (`C15_inv_create`) **and after every history of API calls**
  (`C15_inv_reachable`: every operation of the allocation level, and `physOf` built from them, is
  `Good`), hence in every reachable state the file grows only when not a single FREE sector exists,
  and whatever is handed out was FREE or is new (`C15_grow_only_when_full`).
The statement about whole cycles ("from the second repetition on") is decided per history by the
correspondence check (cycle oracle on the implementation + byte-exact model); it is *not* a theorem
here: `C15_cycle_partial` records the step from the lemmas to one allocation sequence.
-/
namespace CfbVerif.Props.C15
open CfbVerif.Phys CfbVerif.Raw

theorem C15_inv_create (v4 : Bool) : FatInv (Phys.create v4) :=
  ⟨rfl, rfl, (by intro i hi; cases hi), List.nodup_nil⟩

theorem C15_sector_reuse {p p' : P} {id : Nat} {k : Init} (inv : FatInv p)
    (hfree : p.free ≠ []) (h : allocateSector p k = .ok (p', id)) :
    p'.numSectors = p.numSectors ∧ p.free.getLast? = some id ∧ p.fat[id]? = some FREE ∧ FatInv p' :=
  let r := allocateSector_reuse inv hfree h
  ⟨r.2.2.1, r.1, r.2.1, r.2.2.2.2.2⟩

theorem C15_release {p p' : P} {start : Nat} (inv : FatInv p) (h : freeChainFrom p start = .ok p') :
    FatInv p' ∧ p'.numSectors = p.numSectors ∧ (∀ i ∈ p.free, i ∈ p'.free) ∧ (start ≠ END → start ∈ p'.free) :=
  freeChain_spec _ inv h

theorem C15_mini_reuse {p p' p1 : P} {id idx v : Nat}
    (hpop : popFreeMini p (p.freeMini.length + 1) = .ok (p1, some idx))
    (h : allocateMiniSector p v = .ok (p', id)) :
    id = idx ∧ p.miniFat[idx]? = some FREE ∧ p'.rootLen = p.rootLen ∧ p'.numSectors = p.numSectors :=
  let r := allocateMiniSector_reuse hpop h
  ⟨r.1, r.2.1, r.2.2.1, r.2.2.2.1⟩

/-- release then allocate: the sector that heads a freed chain is available to the next allocations,
and the first of them does not grow the file.  (One step of the cycle argument; the general cycle
statement is decided by the correspondence check, see the header.) -/
theorem C15_cycle_partial {p p1 p2 : P} {start id : Nat} {k : Init} (inv : FatInv p) (hs : start ≠ END)
    (hfree : freeChainFrom p start = .ok p1) (halloc : allocateSector p1 k = .ok (p2, id)) :
    p2.numSectors = p.numSectors := by
  have r := C15_release inv hfree
  have hne : p1.free ≠ [] := List.ne_nil_of_mem (r.2.2.2 hs)
  have := C15_sector_reuse r.1 hne halloc
  rw [this.1, r.2.1]

/-- as many allocations in a row as there are free sectors leave the file at its length, each
served by a sector that was free -/
theorem C15_many_reuse (kinds : List Init) {p p' : P} {ids : List Nat} (inv : FatInv p)
    (hlen : kinds.length ≤ p.free.length) (h : allocMany p kinds = .ok (p', ids)) :
    p'.numSectors = p.numSectors ∧ FatInv p' ∧ p'.free.length + kinds.length = p.free.length :=
  let r := allocMany_no_growth kinds inv hlen h
  ⟨r.1, r.2.1, r.2.2.1⟩

/-- every release makes the free list strictly longer -/
theorem C15_release_grows_free {p p' : P} {start : Nat} (inv : FatInv p) (hs : start ≠ END)
    (h : freeChainFrom p start = .ok p') : p.free.length < p'.free.length :=
  freeChain_free_grows inv hs h

/-- **after every history of API calls** the allocator invariant holds: the free list is exactly
the set of FREE cells of the FAT (for files below 2³² − 1 sectors) -/
theorem C15_inv_reachable (v4 : Bool) (maxBuf : Nat) (ops : List CfbVerif.Dir.HOp)
    (small : Small (prun (PState.create v4 maxBuf) ops).p) : Inv (prun (PState.create v4 maxBuf) ops).p :=
  inv_reachable v4 maxBuf ops small

/-- **the file grows only when it is full**: in every reachable state, a sector allocation that
appends to the file means that not a single sector of the file was FREE; and the sector handed out
was FREE or is new -/
theorem C15_grow_only_when_full (v4 : Bool) (maxBuf : Nat) (ops : List CfbVerif.Dir.HOp)
    (small : Small (prun (PState.create v4 maxBuf) ops).p) {k : Init} {p' : P} {id : Nat}
    (h : allocateSector (prun (PState.create v4 maxBuf) ops).p k = .ok (p', id)) :
    (p'.numSectors ≠ (prun (PState.create v4 maxBuf) ops).p.numSectors →
      ∀ i : Nat, (prun (PState.create v4 maxBuf) ops).p.fat[i]? ≠ some FREE) ∧
    ((prun (PState.create v4 maxBuf) ops).p.fat[id]? = some FREE ∨ (prun (PState.create v4 maxBuf) ops).p.fat.size ≤ id) :=
  let r := inv_allocateSector (inv_reachable v4 maxBuf ops small) h
  ⟨r.2.2.2, r.2.2.1⟩

/-! ### a whole cycle, for streams of at least 4096 bytes -/

/-- where the pair for slot `s` sits in the start table -/
theorem startIn_mem {starts : List (Nat × Nat)} {s : Nat} (h : startIn starts s ≠ END) :
    (s, startIn starts s) ∈ starts := by
  unfold startIn at h ⊢
  cases hf : starts.find? (·.1 == s) with
  | none => rw [hf] at h; exact absurd rfl h
  | some e =>
    simp only [hf, Option.map_some, Option.getD_some]
    have hm := List.mem_of_find?_eq_some hf
    have hk := List.find?_some hf
    simp only [beq_iff_eq] at hk
    obtain ⟨a, b⟩ := e
    simp only at hk
    subst hk
    exact hm

/-- **remove a stream of at least 4096 bytes and write it again at the same size: the file has the
same length as before** — from *any* state `g1` of the store machine that satisfies the
allocation-level invariant (`JR`: every state reachable from a fresh file does, `regLen_reachable`),
in both versions, whatever else the file holds.  The removal puts exactly the stream's
`⌈len / S⌉` sectors on the free list (`freeChain_appends` with `RegLen`), and the re-creation takes
its `⌈len / S⌉` sectors from the free list (`resize_fresh_reuse`).  Consequently every repetition
of the cycle *create - set_len(n) - remove* after the first leaves the file at the length the
first one ended with: "unchanged from the second repetition on", for streams above the cutoff. -/
theorem C15_regular_cycle {g1 g2 g2' g3 : G} {s : Nat} (j : JR g1.p g1.L)
    (hn : CUTOFF ≤ g1.L s) (hstart : startOf g1.p s ≠ END)
    (hfree : gstep g1 (.free s) = .ok g2) (hcreate : gstep g2 (.create s) = .ok g2')
    (hresize : gstep g2' (.resize s (g1.L s)) = .ok g3)
    (hb1 : g1.p.fat.size ≤ MAXREG + 1) (hb2 : g2.p.fat.size ≤ MAXREG + 1) :
    g3.p.numSectors = g1.p.numSectors ∧ g2.p.numSectors = g1.p.numSectors := by
  -- the stream's chain
  have hmem : (s, startOf g1.p s) ∈ g1.p.starts := startIn_mem hstart
  obtain ⟨_, l, cl, hlen⟩ := j.rl (s, startOf g1.p s) hmem hn
  have hhead : startOf g1.p s ∈ heads g1.p g1.L := by
    unfold heads regs
    apply List.mem_append_right
    apply List.mem_map.mpr
    refine ⟨(s, startOf g1.p s), List.mem_filter.mpr ⟨hmem, ?_⟩, rfl⟩
    simp [isRegStart, hn, hstart]
  have nd := cl.nodup j.jc.nc.ns hhead
  -- the removal
  obtain ⟨q, hq, hq2⟩ := obind_ok hfree
  cases hq2
  unfold freeStream at hq
  simp only [bind, pure] at hq
  rw [if_neg (by omega)] at hq
  obtain ⟨q1, hq1, hq⟩ := obind_ok hq
  cases hq
  have r := freeChain_appends l (startOf g1.p s) g1.p q1 _ cl nd hb1 hq1
  have j2 := jr_gstep hfree j trivial hb2
  -- the re-creation
  simp only [gstep] at hcreate
  split at hcreate
  · cases hcreate
    obtain ⟨q3, hq3, hq4⟩ := obind_ok hresize
    cases hq4
    have hL0 : upd (upd g1.L s 0) s 0 s = 0 := upd_self _ _ _
    simp only at hq3
    rw [hL0] at hq3
    have finv : FatInv (setStart (dropStart q1 s) s END) := by
      have f := j2.jc.inv.fat
      exact ⟨f.size, f.secs, f.freeFree, f.freeNodup⟩
    have hS : (setStart (dropStart q1 s) s END).S = g1.p.S := by
      have : q1.v4 = g1.p.v4 := freeChain_v4 _ hq1
      simp only [P.S, setStart, dropStart, this]
    have := resize_fresh_reuse finv (by rw [startOf_eq]; exact startIn_setStart _ _ _) hn
      (by
        rw [hS]
        show (g1.p.S + g1.L s - 1) / g1.p.S ≤ q1.free.length
        have hlen' : l.length = (g1.L s + g1.p.S - 1) / g1.p.S := hlen
        rw [r.1, List.length_append, hlen']
        have : g1.p.S + g1.L s - 1 = g1.L s + g1.p.S - 1 := by omega
        rw [this]; omega)
      hq3
    exact ⟨by rw [this.1]; exact r.2, r.2⟩
  · cases hcreate

/-- the same for every state reachable from a fresh file by stream-level operations -/
theorem C15_regular_cycle_reachable (v4 : Bool) (ops : List GOp) {g2 g2' g3 : G} {s : Nat} :
    let g0 : G := { p := Phys.create v4, L := fun _ => 0 }
    let g1 := grun g0 ops
    WritesInRange g0 ops → g1.p.fat.size ≤ MAXREG + 1 → g2.p.fat.size ≤ MAXREG + 1 →
    CUTOFF ≤ g1.L s → startOf g1.p s ≠ END →
    gstep g1 (.free s) = .ok g2 → gstep g2 (.create s) = .ok g2' → gstep g2' (.resize s (g1.L s)) = .ok g3 →
    g3.p.numSectors = g1.p.numSectors ∧ g2.p.numSectors = g1.p.numSectors := by
  intro g0 g1 hw hb1 hb2 hn hs hf hc hr
  exact C15_regular_cycle (regLen_reachable v4 ops hw hb1) hn hs hf hc hr hb1 hb2

/-- the three steps of the cycle succeed and end at the length they started from (as a computation) -/
def cycleRuns (g1 : G) (s n : Nat) : Bool :=
  match gstep g1 (.free s) with
  | .ok g2 =>
    match gstep g2 (.create s) with
    | .ok g2' =>
      match gstep g2' (.resize s n) with
      | .ok g3 => g3.p.numSectors == g1.p.numSectors
      | _ => false
    | _ => false
  | _ => false

/-- non-vacuity: after a history with a stream of 9000 bytes beside a small one, the hypotheses hold
and the three steps of the cycle succeed -/
example :
    writesInRangeB { p := Phys.create false, L := fun _ => 0 } [.create 1, .resize 1 9000, .create 2, .resize 2 100] = true ∧
    (grun { p := Phys.create false, L := fun _ => 0 } [.create 1, .resize 1 9000, .create 2, .resize 2 100]).p.fat.size ≤ MAXREG + 1 ∧
    CUTOFF ≤ (grun { p := Phys.create false, L := fun _ => 0 } [.create 1, .resize 1 9000, .create 2, .resize 2 100]).L 1 ∧
    startOf (grun { p := Phys.create false, L := fun _ => 0 } [.create 1, .resize 1 9000, .create 2, .resize 2 100]).p 1 ≠ END ∧
    cycleRuns (grun { p := Phys.create false, L := fun _ => 0 } [.create 1, .resize 1 9000, .create 2, .resize 2 100]) 1 9000 = true := by
  decide

/-- non-vacuity: a concrete state with a free sector satisfies the hypotheses -/
def exampleState : P :=
  { Phys.create false with fat := #[FATSECT, END, FREE], numSectors := 3, sectors := #[zeroSector 512, zeroSector 512, zeroSector 512], free := [2] }

example : FatInv exampleState ∧ exampleState.free ≠ [] :=
  ⟨⟨rfl, rfl, (by intro i hi; simp [exampleState] at hi; subst hi; rfl), (by simp [exampleState])⟩, by simp [exampleState]⟩

end CfbVerif.Props.C15
