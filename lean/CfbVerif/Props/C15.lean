import CfbVerif.Phys.Mini
import CfbVerif.Phys.Api
import CfbVerif.Phys.ApiInv
/-!
# C15 — released space is reused: repeating a net-zero cycle does not grow the file

Property text: *Space released by removing, truncating or overwriting streams and storages is
reused by later allocations.  Consequently, repeating any cycle of operations that returns the file
to the same logical state (for example create a stream, write it, remove it) leaves the file size
unchanged from the second repetition on, for small (mini-stream) and large streams alike.*

Model: `CfbVerif.Phys` (alloc.rs, minialloc.rs, chain.rs, minichain.rs, stream.rs write/resize case
tables), byte-exact against the real file in the lock-step.  The file length is
`(numSectors + 1) * sector_len`.

What is proved, for every state satisfying the allocator invariant:
* a sector allocation with a non-empty free list takes its sector from the list and leaves the file
  length alone (`C15_sector_reuse`);
* freeing a chain puts every one of its sectors on the free list and keeps the invariant
  (`C15_release`);
* a mini-sector allocation with a really free entry on the mini free list reuses it: neither the mini
  stream nor the file grows (`C15_mini_reuse`);
* as many allocations in a row as the free list is long do not grow the file (`C15_many_reuse`),
  and every release makes the free list strictly longer (`C15_release_grows_free`);
* the invariant holds in a fresh file (`C15_inv_create`) **and after every history of API calls**
  (`C15_inv_reachable`: every operation of the allocation level, and `physOf` built from them, is
  `Good`), hence in every reachable state the file grows only when not a single FREE sector exists,
  and whatever is handed out was FREE or is new (`C15_grow_only_when_full`).
The statement about whole cycles ("from the second repetition on") is decided per history by the
correspondence check (cycle oracle on the implementation + byte-exact model); it is *not* a theorem
here: `C15_cycle_partial` records the step from the lemmas to one allocation sequence.
-/
namespace CfbVerif.Props.C15
open CfbVerif.Phys CfbVerif.Raw

theorem C15_inv_create (v4 : Bool) : FatInv (Phys.create v4) :=
  ⟨rfl, rfl, (by intro i hi; cases hi), List.nodup_nil⟩

theorem C15_sector_reuse {p p' : P} {id : Nat} {k : Init} (inv : FatInv p)
    (hfree : p.free ≠ []) (h : allocateSector p k = .ok (p', id)) :
    p'.numSectors = p.numSectors ∧ p.free.getLast? = some id ∧ p.fat[id]? = some FREE ∧ FatInv p' :=
  let r := allocateSector_reuse inv hfree h
  ⟨r.2.2.1, r.1, r.2.1, r.2.2.2.2.2⟩

theorem C15_release {p p' : P} {start : Nat} (inv : FatInv p) (h : freeChainFrom p start = .ok p') :
    FatInv p' ∧ p'.numSectors = p.numSectors ∧ (∀ i ∈ p.free, i ∈ p'.free) ∧ (start ≠ END → start ∈ p'.free) :=
  freeChain_spec _ inv h

theorem C15_mini_reuse {p p' p1 : P} {id idx v : Nat}
    (hpop : popFreeMini p (p.freeMini.length + 1) = .ok (p1, some idx))
    (h : allocateMiniSector p v = .ok (p', id)) :
    id = idx ∧ p.miniFat[idx]? = some FREE ∧ p'.rootLen = p.rootLen ∧ p'.numSectors = p.numSectors :=
  let r := allocateMiniSector_reuse hpop h
  ⟨r.1, r.2.1, r.2.2.1, r.2.2.2.1⟩

/-- release then allocate: the sector that heads a freed chain is available to the next allocations,
and the first of them does not grow the file.  (One step of the cycle argument; the general cycle
statement is decided by the correspondence check, see the header.) -/
theorem C15_cycle_partial {p p1 p2 : P} {start id : Nat} {k : Init} (inv : FatInv p) (hs : start ≠ END)
    (hfree : freeChainFrom p start = .ok p1) (halloc : allocateSector p1 k = .ok (p2, id)) :
    p2.numSectors = p.numSectors := by
  have r := C15_release inv hfree
  have hne : p1.free ≠ [] := List.ne_nil_of_mem (r.2.2.2 hs)
  have := C15_sector_reuse r.1 hne halloc
  rw [this.1, r.2.1]

/-- as many allocations in a row as there are free sectors leave the file at its length, each
served by a sector that was free -/
theorem C15_many_reuse (kinds : List Init) {p p' : P} {ids : List Nat} (inv : FatInv p)
    (hlen : kinds.length ≤ p.free.length) (h : allocMany p kinds = .ok (p', ids)) :
    p'.numSectors = p.numSectors ∧ FatInv p' ∧ p'.free.length + kinds.length = p.free.length :=
  let r := allocMany_no_growth kinds inv hlen h
  ⟨r.1, r.2.1, r.2.2.1⟩

/-- every release makes the free list strictly longer -/
theorem C15_release_grows_free {p p' : P} {start : Nat} (inv : FatInv p) (hs : start ≠ END)
    (h : freeChainFrom p start = .ok p') : p.free.length < p'.free.length :=
  freeChain_free_grows inv hs h

/-- **after every history of API calls** the allocator invariant holds: the free list is exactly
the set of FREE cells of the FAT (for files below 2³² − 1 sectors) -/
theorem C15_inv_reachable (v4 : Bool) (maxBuf : Nat) (ops : List CfbVerif.Dir.HOp)
    (small : Small (prun (PState.create v4 maxBuf) ops).p) : Inv (prun (PState.create v4 maxBuf) ops).p :=
  inv_reachable v4 maxBuf ops small

/-- **the file grows only when it is full**: in every reachable state, a sector allocation that
appends to the file means that not a single sector of the file was FREE; and the sector handed out
was FREE or is new -/
theorem C15_grow_only_when_full (v4 : Bool) (maxBuf : Nat) (ops : List CfbVerif.Dir.HOp)
    (small : Small (prun (PState.create v4 maxBuf) ops).p) {k : Init} {p' : P} {id : Nat}
    (h : allocateSector (prun (PState.create v4 maxBuf) ops).p k = .ok (p', id)) :
    (p'.numSectors ≠ (prun (PState.create v4 maxBuf) ops).p.numSectors →
      ∀ i : Nat, (prun (PState.create v4 maxBuf) ops).p.fat[i]? ≠ some FREE) ∧
    ((prun (PState.create v4 maxBuf) ops).p.fat[id]? = some FREE ∨ (prun (PState.create v4 maxBuf) ops).p.fat.size ≤ id) :=
  let r := inv_allocateSector (inv_reachable v4 maxBuf ops small) h
  ⟨r.2.2.2, r.2.2.1⟩

/-- non-vacuity: a concrete state with a free sector satisfies the hypotheses -/
def exampleState : P :=
  { Phys.create false with fat := #[FATSECT, END, FREE], numSectors := 3, sectors := #[zeroSector 512, zeroSector 512, zeroSector 512], free := [2] }

example : FatInv exampleState ∧ exampleState.free ≠ [] :=
  ⟨⟨rfl, rfl, (by intro i hi; simp [exampleState] at hi; subst hi; rfl), (by simp [exampleState])⟩, by simp [exampleState]⟩

end CfbVerif.Props.C15
