import CfbVerif.Spec.Consts
import CfbVerif.Dir.Iter
import CfbVerif.Dir.Listing
import CfbVerif.Raw.Read
import CfbVerif.Phys.WalkBack
/-!
# C04 — any valid layout written by another implementation is read correctly

Property text: *For every spec-valid compound file - whatever legal layout its writer chose: sectors
in any order, fragmented chains, directory entries in any slots with unallocated gaps, balanced
red-black sibling trees, FAT/DIFAT/MiniFAT/directory sectors anywhere, version 3 or 4 - opening
succeeds in strict and permissive mode and the library exposes exactly the logical content encoded
in the file: the same tree, names, metadata, lengths and stream bytes.  Mutating such a file
afterwards keeps properties C01-C03.*

What a layout can vary, and the theorem that makes the reader's answer independent of it:
* the *shape* of a sibling tree (balanced, degenerate, any colouring) and the slots of its entries:
  lookups and listings of a search tree depend only on the set of entries
  (`C04_lookup_shape_independent`, `C04_listing_shape_independent`, with
  `sorted_ext`: a strictly sorted list is determined by its members);
* the *placement* of a stream's sectors: the bytes read through a chain depend only on the contents
  of the chain's sectors in chain order, not on where in the file they are
  (`C04_chain_placement_independent`).
* the *directory table itself*: whatever slots the entries occupy, whatever the shapes and (within
  the mode's rule) colourings of the sibling trees, the reader's validation accepts the table
  (`C04_validate_any_layout`), its path resolution finds exactly the entries the tree holds
  (`C04_lookup_any_layout`) and its iterator yields the tree's pre-order (`C04_walk_any_layout`) —
  the three are statements about *any* table that represents *any* tree (`Phys.DfsOk`), not about
  tables this library wrote;
Whether `open` accepts every legal layout and decodes the tables as laid out is decided by the
correspondence: synthesised layouts (independent writer in the harness) are opened by the library in
both modes, by the `Raw` reader model and judged by `Spec.check`; then mutated through the API.
-/
namespace CfbVerif.Props.C04
open CfbVerif.Dir CfbVerif.Raw CfbVerif.Names

/-- a list strictly sorted by an irreflexive transitive relation is determined by its members -/
theorem sorted_ext {α : Type} (R : α → α → Prop) (irrefl : ∀ a, ¬ R a a) (trans : ∀ a b c, R a b → R b c → R a c) :
    ∀ (l1 l2 : List α), l1.Pairwise R → l2.Pairwise R → (∀ x, x ∈ l1 ↔ x ∈ l2) → l1 = l2 := by
  intro l1
  induction l1 with
  | nil =>
    intro l2 _ _ h
    cases l2 with
    | nil => rfl
    | cons b t => exact absurd ((h b).mpr (by simp)) (by simp)
  | cons a t1 ih =>
    intro l2 h1 h2 h
    cases l2 with
    | nil => exact absurd ((h a).mp (by simp)) (by simp)
    | cons b t2 =>
      rw [List.pairwise_cons] at h1 h2
      have hab : a = b := by
        have ha := (h a).mp (by simp)
        have hb := (h b).mpr (by simp)
        simp only [List.mem_cons] at ha hb
        rcases ha with ha | ha
        · exact ha
        · rcases hb with hb | hb
          · exact hb.symm
          · exact absurd (trans a b a (h1.1 b hb) (h2.1 a ha)) (irrefl a)
      subst hab
      congr 1
      apply ih t2 h1.2 h2.2
      intro x
      constructor
      · intro hx
        have := (h x).mp (List.mem_cons_of_mem _ hx)
        simp only [List.mem_cons] at this
        rcases this with rfl | this
        · exact absurd (h1.1 x hx) (irrefl x)
        · exact this
      · intro hx
        have := (h x).mpr (List.mem_cons_of_mem _ hx)
        simp only [List.mem_cons] at this
        rcases this with rfl | this
        · exact absurd (h2.1 x hx) (irrefl x)
        · exact this

/-- two search trees holding the same entries list them in the same order, whatever their shapes -/
theorem C04_inorder_shape_independent {t1 t2 : Tree} (h1 : t1.OrderedSib) (h2 : t2.OrderedSib)
    (hm : ∀ x, x ∈ t1.inorder ↔ x ∈ t2.inorder) : t1.inorder = t2.inorder :=
  sorted_ext (fun a b : Entry × Tree => cmp a.1.name b.1.name = .lt)
    (fun a h => by rw [cmp_refl] at h; cases h)
    (fun _ _ _ => cmp_trans_lt) _ _ (inorder_sorted h1) (inorder_sorted h2) hm

/-- `read_storage` does not depend on the shape of the sibling tree -/
theorem C04_listing_shape_independent {t1 t2 : Tree} (h1 : t1.OrderedSib) (h2 : t2.OrderedSib)
    (hm : ∀ x, x ∈ t1.inorder ↔ x ∈ t2.inorder) (parent : List Nat) :
    listKids parent t1 = listKids parent t2 := by
  rw [listKids_eq, listKids_eq, full_false_eq, full_false_eq, C04_inorder_shape_independent h1 h2 hm]

/-- nor does a lookup by name -/
theorem C04_lookup_shape_independent {t1 t2 : Tree} (h1 : t1.OrderedSib) (h2 : t2.OrderedSib)
    (hm : ∀ x, x ∈ t1.inorder ↔ x ∈ t2.inorder) (n : Name) : t1.find? n = t2.find? n := by
  have key : ∀ {a b : Tree}, a.OrderedSib → b.OrderedSib → (∀ x, x ∈ a.inorder → x ∈ b.inorder) →
      ∀ {x k}, a.find? n = some (x, k) → b.find? n = some (x, k) := by
    intro a b _ hb hsub x k hf
    have ⟨hmem, hc⟩ := find?_mem_inorder hf
    rw [find?_congr_eq hc b]
    exact mem_inorder_find? hb (hsub _ hmem)
  cases hf1 : t1.find? n with
  | some r =>
    obtain ⟨x, k⟩ := r
    exact (key h1 h2 (fun x hx => (hm x).mp hx) hf1).symm
  | none =>
    cases hf2 : t2.find? n with
    | none => rfl
    | some r =>
      obtain ⟨x, k⟩ := r
      have := key h2 h1 (fun x hx => (hm x).mpr hx) hf2
      rw [hf1] at this
      cases this

/-- reading through a chain depends only on what the chain's sectors hold, in chain order: two
files (or two placements in one file) whose chains hold the same bytes sector by sector read the
same -/
theorem C04_chain_placement_independent (img1 img2 : Img) (S : Nat) (ids1 ids2 : Array Nat)
    (hlen : ids1.size = ids2.size)
    (hsame : ∀ k (h1 : k < ids1.size) (h2 : k < ids2.size) j, j < S →
      u8 img1 (sectorOff S ids1[k] j) = u8 img2 (sectorOff S ids2[k] j))
    (hS : 0 < S) :
    ∀ (n off : Nat) (acc : List UInt8),
      readChainBytes img1 S ids1 n off acc = readChainBytes img2 S ids2 n off acc := by
  intro n
  induction n with
  | zero => intro off acc; rfl
  | succ n ih =>
    intro off acc
    unfold readChainBytes
    by_cases hk : off / S < ids1.size
    · have hk2 : off / S < ids2.size := hlen ▸ hk
      rw [Array.getElem?_eq_getElem hk, Array.getElem?_eq_getElem hk2]
      simp only
      rw [hsame (off / S) hk hk2 (off % S) (Nat.mod_lt _ hS)]
      cases u8 img2 (sectorOff S ids2[off / S] (off % S)) with
      | none => rfl
      | some b => exact ih _ _
    · have hk2 : ¬ off / S < ids2.size := hlen ▸ hk
      rw [Array.getElem?_eq_none (by omega), Array.getElem?_eq_none (by omega)]

/-! ### the directory table of any writer -/

/-- **`Directory::validate` accepts any table that represents a tree**, in any slots, of any shape,
with any colouring that has no red node with a red sibling-child (strict) or any colouring at all
(permissive) -/
theorem C04_validate_any_layout (m : Raw.Mode) (T : Array DirEntry) (top : Tree) (d0 : DirEntry)
    (h0 : T[0]? = some d0) (hty : d0.objType = Gen.OBJ_TYPE_ROOT) (hl : d0.left = NOSTREAM) (hr : d0.right = NOSTREAM)
    (hc : d0.child = Phys.lnk top) (hlen : d0.streamLen % Gen.MINI_SECTOR_LEN = 0)
    (ok : Phys.DfsOk T m.isStrict top) (nd : top.slots.Nodup) : validateDir m T = .ok () :=
  Phys.validateDir_accepts m T top d0 h0 hty hl hr hc hlen ok nd

/-- **path resolution over any such table finds what the tree holds**: the slot of the entry the
name chain leads to, by the tree's own search (`Tree.find?` per name), and nothing otherwise -/
theorem C04_lookup_any_layout (r : RawState) (strict : Bool) (names : List Name) (t : Tree) (id : Nat) (d : DirEntry)
    (ok : Phys.DfsOk r.dir strict t) (hsz : t.size + 1 ≤ r.dir.size + 1) (hd : r.dir[id]? = some d)
    (hc : d.child = Phys.lnk t) : lookup r names id = .ok (Phys.resolveSlot t names id) :=
  Phys.lookup_tree r strict names t id d ok hsz hd hc

/-- **the iterator over any such table yields the root and then the tree's pre-order** (every
storage directly followed by its subtree, siblings in name order) -/
theorem C04_walk_any_layout (r : RawState) (strict : Bool) (top : Tree) (d0 : DirEntry)
    (h0 : r.dir[Gen.ROOT_STREAM_ID]? = some d0) (hty : d0.objType = Gen.OBJ_TYPE_ROOT) (hc : d0.child = Phys.lnk top)
    (ok : Phys.DfsOk r.dir strict top) (hsz : top.size + 1 ≤ r.dir.size) :
    Raw.walk r = .ok (([Raw.slash], Gen.ROOT_STREAM_ID) :: Phys.emit [Raw.slash] top) :=
  Phys.walk_table r strict top d0 h0 hty hc ok hsz

/-- non-vacuity: a red-black-coloured balanced tree in scattered slots is represented by its table
(so the three theorems apply to it) -/
example :
    let ent := fun (name : Nat) (red : Bool) (l r : Nat) =>
      ({ left := l, right := r, child := NOSTREAM, name := [name], objType := Gen.OBJ_TYPE_STREAM, red := red, clsid := Raw.nilClsid, stateBits := 0, ctime := 0, mtime := 0, startSector := END, streamLen := 0 } : DirEntry)
    let root : DirEntry := { left := NOSTREAM, right := NOSTREAM, child := 5, name := Raw.rootName, objType := Gen.OBJ_TYPE_ROOT, red := false, clsid := Raw.nilClsid, stateBits := 0, ctime := 0, mtime := 0, startSector := END, streamLen := 0 }
    let un : DirEntry := { left := NOSTREAM, right := NOSTREAM, child := NOSTREAM, name := [], objType := 0, red := true, clsid := Raw.nilClsid, stateBits := 0, ctime := 0, mtime := 0, startSector := 0, streamLen := 0 }
    -- slots: 5 = "b" (black, root of the sibling tree), 2 = "a" (red), 7 = "c" (red); 1,3,4,6 unallocated
    let T : Array DirEntry := #[root, un, ent 97 true NOSTREAM NOSTREAM, un, un, ent 98 false 2 7, un, ent 99 true NOSTREAM NOSTREAM]
    let e := fun (s n : Nat) (black : Bool) => (⟨s, [n], true, black, Meta.blank, []⟩ : Entry)
    let top := Tree.node (.node .leaf (e 2 97 false) .leaf .leaf) (e 5 98 true) .leaf (.node .leaf (e 7 99 false) .leaf .leaf)
    Phys.DfsOk T true top := by
  refine ⟨⟨trivial, trivial, trivial, by decide, by decide, ⟨_, rfl, rfl, rfl, rfl, rfl, rfl, rfl⟩, fun _ => rfl,
      (fun _ h => by cases h), (fun _ h => by cases h), fun _ _ => ⟨rfl, rfl⟩⟩,
    trivial,
    ⟨trivial, trivial, trivial, by decide, by decide, ⟨_, rfl, rfl, rfl, rfl, rfl, rfl, rfl⟩, fun _ => rfl,
      (fun _ h => by cases h), (fun _ h => by cases h), fun _ _ => ⟨rfl, rfl⟩⟩,
    by decide, by decide, ⟨_, rfl, rfl, rfl, rfl, rfl, rfl, rfl⟩, fun _ => rfl, ?_, ?_, fun _ h => by cases h⟩
  · intro x hx; cases hx; decide +kernel
  · intro x hx; cases hx; decide +kernel

/-- non-vacuity: a balanced and a degenerate tree over the same three names -/
example :
    let e := fun (s n : Nat) => (⟨s, [n], true, true, Meta.blank, []⟩ : Entry)
    let balanced := Tree.node (.node .leaf (e 3 97) .leaf .leaf) (e 1 98) .leaf (.node .leaf (e 2 99) .leaf .leaf)
    let chain := Tree.node .leaf (e 3 97) .leaf (.node .leaf (e 1 98) .leaf (.node .leaf (e 2 99) .leaf .leaf))
    balanced.inorder = chain.inorder := by decide

end CfbVerif.Props.C04
