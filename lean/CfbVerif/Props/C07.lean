import CfbVerif.Props.C01
import CfbVerif.Props.C06
import CfbVerif.Dir.Slots
import CfbVerif.Phys.Content
import CfbVerif.Phys.MiniContent
import CfbVerif.Phys.RootReach
/-!
# C07 — open handles stay bound to their stream and never touch other objects

Property text: *A stream handle keeps referring to the stream it was opened on for as long as that
stream exists, no matter which other streams or storages are created, removed, resized or
overwritten in the meantime, and several handles to different streams may be used in any
interleaving.  Operations through a handle change only that stream's bytes and length: every other
stream's content, every entry's metadata and the tree structure are left exactly as the model
predicts.*

A `Stream` is bound to a directory *slot*.  The binding is kept iff (i) structural operations never
move a surviving entry to another slot, (ii) a new entry never takes a slot that is in use, and
(iii) a handle operation rewrites only the bytes stored in its slot.  (i) is C01's frame property
— the abstract map `view` records each entry *with its slot*; (ii) and (iii) are below.
-/
namespace CfbVerif.Props.C07
open CfbVerif.Dir CfbVerif.Names CfbVerif.Props.C01

/-- **(i) slot stability under removal** — in particular when the removed sibling has two
children and its in-order predecessor takes its place: every other object is found again, in the
same slot, with the same name, metadata and bytes. -/
theorem C07_slot_stable_remove (s : State) (hw : s.top.WF) (names : List Name) (w : Bool)
    (hok : (removeAt s names w).2 = .ok) (Q : List Name) (hQ : ¬ PathEq Q names) :
    view (removeAt s names w).1.top Q = view s.top Q := by
  have h := (C01_remove s hw names w).2
  generalize view (removeAt s names w).1.top = M' at h ⊢
  generalize (removeAt s names w).2 = o at h hok
  cases h with
  | removed e _ _ _ hupd => exact hupd.1 Q hQ
  | missing _ _ => cases hok
  | isRoot _ _ => cases hok
  | wrongType _ _ _ _ => cases hok
  | notEmpty _ _ _ _ _ _ => cases hok

/-- … under creation (also when the new entry reuses a freed slot) -/
theorem C07_slot_stable_create (s : State) (hw : s.top.WF) (names : List Name) (st : Option (Bool × Bytes))
    (Q : List Name) (hQ : ¬ PathEq Q names) :
    view (createAt s names st).1.top Q = view s.top Q := by
  have h := (C01_create s hw names st).2
  generalize view (createAt s names st).1.top = M' at h ⊢
  generalize (createAt s names st).2 = o at h
  cases h with
  | invalidName _ hm => rw [hm]
  | alreadyExists _ _ _ _ hm => rw [hm]
  | overwritten _ _ _ _ _ _ hupd => exact hupd.1 Q hQ
  | noParent _ _ _ hm => rw [hm]
  | created _ _ _ _ _ _ _ _ _ _ _ _ _ hupd => exact hupd.1 Q hQ

/-- **(ii)** a new entry's slot is neither the root's nor the slot of any existing entry -/
theorem C07_fresh_slot (t : Tree) (name : Name) (st : Option (Bool × Bytes)) :
    (mkEntry (freshSlot t) name st).slot ∉ t.slots ∧ (mkEntry (freshSlot t) name st).slot ≠ 0 := by
  have := freshSlot_spec t
  exact ⟨this.1, by simp only [mkEntry, newEntry]; omega⟩

/-- **(iii) frame of handle operations**: whatever a handle does (`write`, `read`, `seek`,
`set_len`, `flush`, drop), the directory afterwards is the directory before with the bytes of the
entries in the handle's slot replaced — names, slots, links, colours, metadata, the root's
metadata and every other stream's bytes are untouched. -/
theorem C07_handle_frame (s : SState) (id : Nat)
    (f : Handle.H → Handle.Bytes → Handle.H × Handle.Bytes × Out) :
    (withHandle s id f).1.base.rootMeta = s.base.rootMeta ∧
    ∃ slot c, (withHandle s id f).1.base.top.entries =
      s.base.top.entries.map (fun e => if e.slot = slot then { e with content := c } else e) ∨
      (withHandle s id f).1.base.top = s.base.top := by
  unfold withHandle
  cases hf : findHandle s.handles id with
  | none => exact ⟨rfl, 0, [], Or.inr rfl⟩
  | some r =>
    simp only
    cases hc : s.base.top.contentOfSlot r.slot with
    | none => exact ⟨rfl, 0, [], Or.inr rfl⟩
    | some st =>
      simp only
      exact ⟨trivial, r.slot, (f r.h st).2.1, Or.inl (entries_setContentOfSlot _ _ _)⟩

/-- and on its own stream a handle is the byte-vector machine of C06: the store it works on is
the entry's bytes, read and written back by slot -/
theorem C07_handle_is_C06 (s : SState) (id : Nat) (r : HandleRec) (st : Bytes)
    (hf : findHandle s.handles id = some r) (hc : s.base.top.contentOfSlot r.slot = some st)
    (f : Handle.H → Handle.Bytes → Handle.H × Handle.Bytes × Out) :
    (withHandle s id f).1.base.top = s.base.top.setContentOfSlot r.slot (f r.h st).2.1 ∧
    (withHandle s id f).2 = .base (f r.h st).2.2 := by
  simp [withHandle, hf, hc]

/-! ### non-vacuity: removing a sibling with two children keeps the predecessor's slot -/
example :
    let e := fun (slot : Nat) (n : Nat) => ({ slot := slot, name := [n], isStream := true, black := true, md := Meta.blank, content := [] } : Entry)
    -- /m (slot 1) with children /c (slot 2) on the left and /x (slot 3) on the right
    let t := Tree.node (.node .leaf (e 2 99) .leaf .leaf) (e 1 109) .leaf (.node .leaf (e 3 120) .leaf .leaf)
    ((t.remove [109]).find? [99]).map (·.1.slot) = some 2 ∧ ((t.remove [109]).find? [120]).map (·.1.slot) = some 3 := by
  decide +kernel

/-! ### (iii) at the sector level: the chain layer (`Phys/Content.lean`) -/

/-- **the chain layer stores and returns the bytes**: writing `bs` at offset `off` inside a regular
chain (the `write_all` loop over `Chain::write`, one sector at a time) and reading the same range
back (the `read_exact` loop over `Chain::read`) returns `bs`; the chain's bytes are the old ones
with exactly `[off, off + len)` replaced; no sector outside the chain is touched.  (For every state
whose sectors have the sector size — `SS`, every reachable state — and every duplicate-free sector
list — every owner's chain, `C03_owner_walks_succeed`.) -/
theorem C07_chain_write_read (kind : Phys.Init) (p : Phys.P) (ids : List Nat) (off : Nat) (bs : Phys.Bytes)
    (ss : Phys.SS p) (hp : Phys.Present p ids) (nd : ids.Nodup) (hlen : off + bs.length ≤ ids.length * p.S) :
    ∃ p', Phys.chainWrite kind (bs.length + 2) p ids off bs = .ok (p', ids) ∧
      Phys.chainRead (bs.length + 2) p' ids off bs.length [] = .ok bs ∧
      Phys.chainBytes p' ids = (Phys.chainBytes p ids).take off ++ bs ++ (Phys.chainBytes p ids).drop (off + bs.length) ∧
      (∀ i, i ∉ ids → p'.sectors[i]? = p.sectors[i]?) :=
  Phys.chainWrite_read kind p ids off bs ss hp nd hlen

/-- **… and changes no other chain's bytes**: a chain that shares no sector with the written one
(every other owner's chain, by single ownership — `C03_every_used_sector_owned_once`) reads the
same bytes before and after -/
theorem C07_chain_write_frame (kind : Phys.Init) (p : Phys.P) (ids ids2 : List Nat) (off : Nat) (bs : Phys.Bytes)
    (ss : Phys.SS p) (hp : Phys.Present p ids) (nd : ids.Nodup) (hlen : off + bs.length ≤ ids.length * p.S)
    (hdisj : ∀ id ∈ ids2, id ∉ ids) :
    ∃ p', Phys.chainWrite kind (bs.length + 2) p ids off bs = .ok (p', ids) ∧
      Phys.chainBytes p' ids2 = Phys.chainBytes p ids2 :=
  Phys.chainWrite_frame kind p ids ids2 off bs ss hp nd hlen hdisj

/-- non-vacuity: a two-sector chain [3, 1] of a four-sector file, 700 bytes written across the
sector boundary at offset 300 -/
example :
    let p : Phys.P := { Phys.create false with numSectors := 4, sectors := #[Phys.zeroSector 512, Phys.zeroSector 512, Phys.zeroSector 512, Phys.zeroSector 512] }
    Phys.SS p ∧ Phys.Present p [3, 1] ∧ [3, 1].Nodup ∧ 300 + 700 ≤ [3, 1].length * p.S := by
  refine ⟨?_, ?_, by decide, by decide⟩
  · intro i sec hi
    simp only [Phys.create] at hi
    have h4 : i < 4 ∨ 4 ≤ i := Nat.lt_or_ge i 4
    rcases h4 with h | h
    · have : i = 0 ∨ i = 1 ∨ i = 2 ∨ i = 3 := by omega
      rcases this with rfl | rfl | rfl | rfl <;> (simp at hi; subst hi; rw [Phys.size_zeroSector]; rfl)
    · simp [Array.getElem?_eq_none, h] at hi
  · intro id hid
    simp only [List.mem_cons, List.not_mem_nil, or_false] at hid
    rcases hid with rfl | rfl <;> simp [Phys.create]

/-! ### (iii) one level down: the mini-chain layer (`Phys/MiniContent.lean`) -/

/-- **the mini-chain layer stores and returns the bytes** of streams below the cutoff: writing `bs` at
`off` inside a mini chain `mids` (the `write_all` loop over `MiniChain::write`: mini sector by mini
sector, each located in the mini stream — the root entry's chain `root` — by `locateMini`) and
reading the range back (`read_exact` over `MiniChain::read`) returns `bs`; the mini chain's bytes
are the old ones with exactly `[off, off + len)` replaced; no sector outside the root chain is
touched, and no byte of the mini stream outside the mini sectors of `mids`. -/
theorem C07_mini_write_read {root : List Nat} (p : Phys.P) (mids : List Nat) (off : Nat) (bs : Phys.Bytes)
    (ss : Phys.SS p) (hroot : Phys.chainIds p p.rootStart = .ok root) (hp : Phys.Present p root) (ndr : root.Nodup)
    (nd : mids.Nodup) (hin : ∀ m ∈ mids, m / p.per < root.length) (hlen : off + bs.length ≤ mids.length * 64) :
    ∃ p', Phys.miniChainWrite (bs.length + 2) p mids off bs = .ok (p', mids) ∧
      Phys.miniChainRead (bs.length + 2) p' mids off bs.length [] = .ok bs ∧
      Phys.miniBytes p' root mids =
        (Phys.miniBytes p root mids).take off ++ bs ++ (Phys.miniBytes p root mids).drop (off + bs.length) ∧
      (∀ i, i ∉ root → p'.sectors[i]? = p.sectors[i]?) ∧
      (∀ i, (∀ m ∈ mids, ¬ (m * 64 ≤ i ∧ i < m * 64 + 64)) → Phys.byteAt p' root i = Phys.byteAt p root i) :=
  Phys.miniChainWrite_read p mids off bs ss hroot hp ndr nd hin hlen

/-- **… and changes no other stream's bytes**: a mini chain `mids2` that shares no mini sector with the
written one (every other small stream, by single ownership of mini sectors — `noShareMini_reachable`)
and a regular chain `ids2` that shares no sector with the mini stream (every stream of at least 4096
bytes, `C03_every_used_sector_owned_once`) hold the same bytes before and after -/
theorem C07_mini_write_frame {root : List Nat} (p : Phys.P) (mids mids2 ids2 : List Nat) (off : Nat) (bs : Phys.Bytes)
    (ss : Phys.SS p) (hroot : Phys.chainIds p p.rootStart = .ok root) (hp : Phys.Present p root) (ndr : root.Nodup)
    (nd : mids.Nodup) (hin : ∀ m ∈ mids, m / p.per < root.length) (hlen : off + bs.length ≤ mids.length * 64)
    (hin2 : ∀ m ∈ mids2, m / p.per < root.length) (hdisjM : ∀ m ∈ mids2, m ∉ mids) (hdisjR : ∀ id ∈ ids2, id ∉ root) :
    ∃ p', Phys.miniChainWrite (bs.length + 2) p mids off bs = .ok (p', mids) ∧
      Phys.miniBytes p' root mids2 = Phys.miniBytes p root mids2 ∧ Phys.chainBytes p' ids2 = Phys.chainBytes p ids2 :=
  Phys.miniChainWrite_frame p mids mids2 ids2 off bs ss hroot hp ndr nd hin hlen hin2 hdisjM hdisjR

/-- the mini chain's byte list is what `miniByteAt` addresses through the root chain -/
theorem C07_mini_bytes_get {p : Phys.P} (ss : Phys.SS p) {root : List Nat} (hp : Phys.Present p root) (mids : List Nat)
    (hin : ∀ m ∈ mids, m / p.per < root.length) (j : Nat) :
    (Phys.miniBytes p root mids)[j]? = Phys.miniByteAt p root mids j :=
  Phys.miniBytes_get ss hp mids hin j

/-- the range premise of the two theorems above, from what holds in (`C02_minifit_reachable`) and is asserted on
(`rootCoverB`, phys driver) every lock-step state: every cell of the in-memory MiniFAT — so every id of every
mini chain — names a mini sector inside the mini stream's chain -/
theorem C07_mini_range {p : Phys.P} (fit : Phys.MiniFit p) (hc : Phys.rootCoverB p = true) {root : List Nat}
    (hroot : Phys.chainIds p p.rootStart = .ok root) {m : Nat} (hm : m < p.miniFat.size) : m / p.per < root.length :=
  Phys.mini_in_root fit hc hroot hm

/-- **… and in every state the store machine reaches that premise is a theorem** (`Phys/RootCap.lean`,
`Phys/RootReach.lean`, 900 lines: the invariant `RootI` — the mini stream's chain covers the root entry's length,
which is a multiple of 64 — through every allocation-level operation; the mini stream only grows after
`ensureRootRoom` has made room, releases only shorten the length, and the chain is never cut because nothing
that is freed lies on it): for every history of store operations and reopens from a fresh file of either
version, every cell of the in-memory MiniFAT names a mini sector inside the mini stream's chain -/
theorem C07_mini_range_reachable (v4 : Bool) (ops : List Phys.GOp) :
    let g0 : Phys.G := { p := Phys.create v4, L := fun _ => 0 }
    Phys.WritesInRange g0 ops → Phys.MiniBounded g0 ops → (Phys.grun g0 ops).p.fat.size ≤ Raw.MAXREG + 1 →
    ∀ (root : List Nat), Phys.chainIds (Phys.grun g0 ops).p (Phys.grun g0 ops).p.rootStart = .ok root →
    ∀ m, m < (Phys.grun g0 ops).p.miniFat.size → m / (Phys.grun g0 ops).p.per < root.length :=
  Phys.mini_range_reachable v4 ops

/-- **(iii) for the reachable states, with no premise about the state left**: after any history of store
operations and reopens from a fresh file of either version, a write inside the mini chain of one small
stream succeeds and leaves the bytes of every other small stream — any entry with another start mini
sector — exactly as they were (`Phys/RootReach.lean`: the chains are disjoint by the no-sharing invariant
of the MiniFAT, their mini sectors lie inside the mini stream's chain by `RootI` and `MiniFit`) -/
theorem C07_mini_write_frame_reachable (v4 : Bool) (ops : List Phys.GOp) :
    let g0 : Phys.G := { p := Phys.create v4, L := fun _ => 0 }
    Phys.WritesInRange g0 ops → Phys.MiniBounded g0 ops → (Phys.grun g0 ops).p.fat.size ≤ Raw.MAXREG + 1 →
    ∀ e1 ∈ (Phys.grun g0 ops).p.starts, ∀ e2 ∈ (Phys.grun g0 ops).p.starts, e1.2 ≠ e2.2 →
    (Phys.grun g0 ops).L e1.1 < Phys.CUTOFF → 0 < (Phys.grun g0 ops).L e1.1 →
    (Phys.grun g0 ops).L e2.1 < Phys.CUTOFF → 0 < (Phys.grun g0 ops).L e2.1 →
    ∀ l1 l2, Phys.IsChain (Phys.grun g0 ops).p.miniFat e1.2 l1 → Phys.IsChain (Phys.grun g0 ops).p.miniFat e2.2 l2 →
    ∀ (off : Nat) (bs : Phys.Bytes), off + bs.length ≤ l1.length * 64 →
    ∃ root p', Phys.chainIds (Phys.grun g0 ops).p (Phys.grun g0 ops).p.rootStart = .ok root ∧
      Phys.miniChainWrite (bs.length + 2) (Phys.grun g0 ops).p l1 off bs = .ok (p', l1) ∧
      Phys.miniBytes p' root l2 = Phys.miniBytes (Phys.grun g0 ops).p root l2 :=
  Phys.mini_write_frame_reachable v4 ops

/-- … every stream of at least 4096 bytes keeps its bytes as well (its sectors are none of the mini stream's:
two heads of the FAT never reach the same sector), and what was written is read back -/
theorem C07_mini_write_regular_frame_reachable (v4 : Bool) (ops : List Phys.GOp) :
    let g0 : Phys.G := { p := Phys.create v4, L := fun _ => 0 }
    Phys.WritesInRange g0 ops → Phys.MiniBounded g0 ops → (Phys.grun g0 ops).p.fat.size ≤ Raw.MAXREG + 1 →
    ∀ e1 ∈ (Phys.grun g0 ops).p.starts, ∀ e2 ∈ (Phys.grun g0 ops).p.starts,
    (Phys.grun g0 ops).L e1.1 < Phys.CUTOFF → 0 < (Phys.grun g0 ops).L e1.1 →
    Phys.CUTOFF ≤ (Phys.grun g0 ops).L e2.1 → e2.2 ≠ Raw.END →
    ∀ l1 l2, Phys.IsChain (Phys.grun g0 ops).p.miniFat e1.2 l1 → Phys.IsChain (Phys.grun g0 ops).p.fat e2.2 l2 →
    ∀ (off : Nat) (bs : Phys.Bytes), off + bs.length ≤ l1.length * 64 →
    ∃ p', Phys.miniChainWrite (bs.length + 2) (Phys.grun g0 ops).p l1 off bs = .ok (p', l1) ∧
      Phys.chainBytes p' l2 = Phys.chainBytes (Phys.grun g0 ops).p l2 :=
  Phys.mini_write_regular_frame_reachable v4 ops

theorem C07_mini_write_read_reachable (v4 : Bool) (ops : List Phys.GOp) :
    let g0 : Phys.G := { p := Phys.create v4, L := fun _ => 0 }
    Phys.WritesInRange g0 ops → Phys.MiniBounded g0 ops → (Phys.grun g0 ops).p.fat.size ≤ Raw.MAXREG + 1 →
    ∀ (a : Nat) (l : List Nat), Phys.IsChain (Phys.grun g0 ops).p.miniFat a l →
    ∀ (off : Nat) (bs : Phys.Bytes), off + bs.length ≤ l.length * 64 →
    ∃ p', Phys.miniChainWrite (bs.length + 2) (Phys.grun g0 ops).p l off bs = .ok (p', l) ∧
      Phys.miniChainRead (bs.length + 2) p' l off bs.length [] = .ok bs :=
  Phys.mini_write_read_reachable v4 ops

/-- the regular level for the reachable states: a write inside the chain of a stream of at least 4096 bytes is
read back, leaves every other such stream's bytes and every byte of the mini stream (every small stream) as
they were — `C07_chain_write_read` / `C07_chain_write_frame` with the premises about the state discharged -/
theorem C07_chain_write_frame_reachable (v4 : Bool) (ops : List Phys.GOp) :
    let g0 : Phys.G := { p := Phys.create v4, L := fun _ => 0 }
    Phys.WritesInRange g0 ops → (Phys.grun g0 ops).p.fat.size ≤ Raw.MAXREG + 1 →
    ∀ e1 ∈ (Phys.grun g0 ops).p.starts, ∀ e2 ∈ (Phys.grun g0 ops).p.starts, e1.2 ≠ e2.2 →
    Phys.CUTOFF ≤ (Phys.grun g0 ops).L e1.1 → e1.2 ≠ Raw.END → Phys.CUTOFF ≤ (Phys.grun g0 ops).L e2.1 → e2.2 ≠ Raw.END →
    ∀ l1 l2 lr, Phys.IsChain (Phys.grun g0 ops).p.fat e1.2 l1 → Phys.IsChain (Phys.grun g0 ops).p.fat e2.2 l2 →
    ((Phys.grun g0 ops).p.rootStart ≠ Raw.END → Phys.IsChain (Phys.grun g0 ops).p.fat (Phys.grun g0 ops).p.rootStart lr) →
    ((Phys.grun g0 ops).p.rootStart = Raw.END → lr = []) →
    ∀ (off : Nat) (bs : Phys.Bytes), off + bs.length ≤ l1.length * (Phys.grun g0 ops).p.S →
    ∃ p', Phys.chainWrite .zero (bs.length + 2) (Phys.grun g0 ops).p l1 off bs = .ok (p', l1) ∧
      Phys.chainRead (bs.length + 2) p' l1 off bs.length [] = .ok bs ∧
      Phys.chainBytes p' l2 = Phys.chainBytes (Phys.grun g0 ops).p l2 ∧
      Phys.chainBytes p' lr = Phys.chainBytes (Phys.grun g0 ops).p lr :=
  Phys.chain_write_frame_reachable v4 ops

/-- non-vacuity of the reachable-state theorems: a history that leaves two small streams (slots 1 and 2, 100
and 200 bytes, starting at mini sectors 0 and 2) and one of 5000 bytes meets the hypotheses; the chains the
theorems ask for exist by `lengths_reachable` (`MiniLen`, `RegLen`) -/
def exOps7 : List Phys.GOp :=
  [.create 1, .resize 1 100, .create 2, .resize 2 200, .create 3, .resize 3 5000]

example : Phys.WritesInRange { p := Phys.create false, L := fun _ => 0 } exOps7 ∧
    Phys.MiniBounded { p := Phys.create false, L := fun _ => 0 } exOps7 ∧
    (Phys.grun { p := Phys.create false, L := fun _ => 0 } exOps7).p.fat.size ≤ Raw.MAXREG + 1 :=
  ⟨Phys.writesInRange_of_B _ _ (by decide +kernel), Phys.miniBounded_of_B _ _ (by decide +kernel), by decide +kernel⟩

example : (1, 0) ∈ (Phys.grun { p := Phys.create false, L := fun _ => 0 } exOps7).p.starts ∧
    (2, 2) ∈ (Phys.grun { p := Phys.create false, L := fun _ => 0 } exOps7).p.starts ∧
    (Phys.grun { p := Phys.create false, L := fun _ => 0 } exOps7).L 1 = 100 ∧
    (Phys.grun { p := Phys.create false, L := fun _ => 0 } exOps7).L 2 = 200 ∧
    (Phys.grun { p := Phys.create false, L := fun _ => 0 } exOps7).L 3 = 5000 := by decide +kernel

/-- non-vacuity: a version-3 file whose mini stream is the one-sector chain [2] (eight mini sectors);
the mini chain [5, 1, 6] of a 150-byte stream, 100 bytes written across two mini-sector boundaries
at offset 40; the mini chain [0, 7] belongs to another stream.  The write and the read-back are
evaluated, too: the bytes come back and the other stream's mini sectors are untouched. -/
example :
    let p : Phys.P := { Phys.create false with numSectors := 3, fat := #[Raw.FATSECT, Raw.END, Raw.END], rootStart := 2, rootLen := 512, sectors := #[Phys.zeroSector 512, Phys.zeroSector 512, Phys.zeroSector 512] }
    Phys.chainIds p p.rootStart = .ok [2] ∧ (∀ m ∈ [5, 1, 6], m / p.per < [2].length) ∧ [5, 1, 6].Nodup ∧
      40 + 100 ≤ [5, 1, 6].length * 64 ∧ (∀ m ∈ [0, 7], m ∉ [5, 1, 6]) := by
  intro p
  refine ⟨by rfl, ?_, by decide, by decide, by decide⟩
  have hper : p.per = 8 := by decide
  rw [hper]
  decide

end CfbVerif.Props.C07
