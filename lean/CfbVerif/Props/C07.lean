import CfbVerif.Props.C01
import CfbVerif.Props.C06
import CfbVerif.Dir.Slots
/-!
# C07 — open handles stay bound to their stream and never touch other objects

Property text: *A stream handle keeps referring to the stream it was opened on for as long as that
stream exists, no matter which other streams or storages are created, removed, resized or
overwritten in the meantime, and several handles to different streams may be used in any
interleaving.  Operations through a handle change only that stream's bytes and length: every other
stream's content, every entry's metadata and the tree structure are left exactly as the model
predicts.*

A `Stream` is bound to a directory *slot*.  The binding is kept iff (i) structural operations never
move a surviving entry to another slot, (ii) a new entry never takes a slot that is in use, and
(iii) a handle operation rewrites only the bytes stored in its slot.  (i) is C01's frame property
— the abstract map `view` records each entry *with its slot*; (ii) and (iii) are below.
-/
namespace CfbVerif.Props.C07
open CfbVerif.Dir CfbVerif.Names CfbVerif.Props.C01

/-- **(i) slot stability under removal** — in particular when the removed sibling has two
children and its in-order predecessor takes its place: every other object is found again, in the
same slot, with the same name, metadata and bytes. -/
theorem C07_slot_stable_remove (s : State) (hw : s.top.WF) (names : List Name) (w : Bool)
    (hok : (removeAt s names w).2 = .ok) (Q : List Name) (hQ : ¬ PathEq Q names) :
    view (removeAt s names w).1.top Q = view s.top Q := by
  have h := (C01_remove s hw names w).2
  generalize view (removeAt s names w).1.top = M' at h ⊢
  generalize (removeAt s names w).2 = o at h hok
  cases h with
  | removed e _ _ _ hupd => exact hupd.1 Q hQ
  | missing _ _ => cases hok
  | isRoot _ _ => cases hok
  | wrongType _ _ _ _ => cases hok
  | notEmpty _ _ _ _ _ _ => cases hok

/-- … under creation (also when the new entry reuses a freed slot) -/
theorem C07_slot_stable_create (s : State) (hw : s.top.WF) (names : List Name) (st : Option (Bool × Bytes))
    (Q : List Name) (hQ : ¬ PathEq Q names) :
    view (createAt s names st).1.top Q = view s.top Q := by
  have h := (C01_create s hw names st).2
  generalize view (createAt s names st).1.top = M' at h ⊢
  generalize (createAt s names st).2 = o at h
  cases h with
  | invalidName _ hm => rw [hm]
  | alreadyExists _ _ _ _ hm => rw [hm]
  | overwritten _ _ _ _ _ _ hupd => exact hupd.1 Q hQ
  | noParent _ _ _ hm => rw [hm]
  | created _ _ _ _ _ _ _ _ _ _ _ _ _ hupd => exact hupd.1 Q hQ

/-- **(ii)** a new entry's slot is neither the root's nor the slot of any existing entry -/
theorem C07_fresh_slot (t : Tree) (name : Name) (st : Option (Bool × Bytes)) :
    (mkEntry (freshSlot t) name st).slot ∉ t.slots ∧ (mkEntry (freshSlot t) name st).slot ≠ 0 := by
  have := freshSlot_spec t
  exact ⟨this.1, by simp only [mkEntry, newEntry]; omega⟩

/-- **(iii) frame of handle operations**: whatever a handle does (`write`, `read`, `seek`,
`set_len`, `flush`, drop), the directory afterwards is the directory before with the bytes of the
entries in the handle's slot replaced — names, slots, links, colours, metadata, the root's
metadata and every other stream's bytes are untouched. -/
theorem C07_handle_frame (s : SState) (id : Nat)
    (f : Handle.H → Handle.Bytes → Handle.H × Handle.Bytes × Out) :
    (withHandle s id f).1.base.rootMeta = s.base.rootMeta ∧
    ∃ slot c, (withHandle s id f).1.base.top.entries =
      s.base.top.entries.map (fun e => if e.slot = slot then { e with content := c } else e) ∨
      (withHandle s id f).1.base.top = s.base.top := by
  unfold withHandle
  cases hf : findHandle s.handles id with
  | none => exact ⟨rfl, 0, [], Or.inr rfl⟩
  | some r =>
    simp only
    cases hc : s.base.top.contentOfSlot r.slot with
    | none => exact ⟨rfl, 0, [], Or.inr rfl⟩
    | some st =>
      simp only
      exact ⟨trivial, r.slot, (f r.h st).2.1, Or.inl (entries_setContentOfSlot _ _ _)⟩

/-- and on its own stream a handle is the byte-vector machine of C06: the store it works on is
the entry's bytes, read and written back by slot -/
theorem C07_handle_is_C06 (s : SState) (id : Nat) (r : HandleRec) (st : Bytes)
    (hf : findHandle s.handles id = some r) (hc : s.base.top.contentOfSlot r.slot = some st)
    (f : Handle.H → Handle.Bytes → Handle.H × Handle.Bytes × Out) :
    (withHandle s id f).1.base.top = s.base.top.setContentOfSlot r.slot (f r.h st).2.1 ∧
    (withHandle s id f).2 = .base (f r.h st).2.2 := by
  simp [withHandle, hf, hc]

/-! ### non-vacuity: removing a sibling with two children keeps the predecessor's slot -/
example :
    let e := fun (slot : Nat) (n : Nat) => ({ slot := slot, name := [n], isStream := true, black := true, md := Meta.blank, content := [] } : Entry)
    -- /m (slot 1) with children /c (slot 2) on the left and /x (slot 3) on the right
    let t := Tree.node (.node .leaf (e 2 99) .leaf .leaf) (e 1 109) .leaf (.node .leaf (e 3 120) .leaf .leaf)
    ((t.remove [109]).find? [99]).map (·.1.slot) = some 2 ∧ ((t.remove [109]).find? [120]).map (·.1.slot) = some 3 := by
  decide +kernel

end CfbVerif.Props.C07
