import CfbVerif.Props.C01
import CfbVerif.Props.C06
import CfbVerif.Phys.Refused
/-!
# C10 — rejected operations have no effect

Property text: *An API call that is refused with NotFound, AlreadyExists or InvalidInput (missing
parent, wrong object type, existing name, non-empty storage, removing the root, invalid path or
name, out-of-range seek) leaves the underlying bytes bit-for-bit unchanged and leaves every
subsequently observable result the same as if the call had not been made.*

At model level "no effect" is `(step s op).1 = s`: the whole model state is unchanged, hence every
later result is the same.  The model's operations are written in the code's own order of checks
and mutations (`Dir/Model.lean` mirrors lib.rs statement by statement), so the content of the
theorem is that every refusing exit precedes the first mutation — including inside the two loops
(`create_storage_all`: `C10_mkdirs_atomic`).  That the *bytes* stay unchanged is the lock-step's
part: the harness compares the image before and after every refused call.
-/
set_option linter.unusedSimpArgs false
set_option linter.unusedVariables false
namespace CfbVerif.Props.C10
open CfbVerif.Dir CfbVerif.Names CfbVerif.Props.C01

theorem createAt_ok_or_same (s : State) (names : List Name) (st : Option (Bool × Bytes)) :
    (createAt s names st).2 = .ok ∨ (createAt s names st).1 = s := by
  unfold createAt
  repeat' split
  all_goals (try (simp only []; repeat' split))
  all_goals simp

theorem removeAt_ok_or_same (s : State) (names : List Name) (w : Bool) :
    (removeAt s names w).2 = .ok ∨ (removeAt s names w).1 = s := by
  unfold removeAt
  repeat' split
  all_goals simp

theorem setMeta_ok_or_same (s : State) (names : List Name) (op : MetaOp) :
    (setMeta s names op).2 = .ok ∨ (setMeta s names op).1 = s := by
  unfold setMeta
  repeat' split
  all_goals simp

theorem createAt_refusal (s : State) (names : List Name) (st : Option (Bool × Bytes)) (e : Err)
    (h : (createAt s names st).2 = .err e) : (createAt s names st).1 = s := by
  rcases createAt_ok_or_same s names st with h' | h'
  · rw [h'] at h; cases h
  · exact h'

theorem removeAt_refusal (s : State) (names : List Name) (w : Bool) (e : Err)
    (h : (removeAt s names w).2 = .err e) : (removeAt s names w).1 = s := by
  rcases removeAt_ok_or_same s names w with h' | h'
  · rw [h'] at h; cases h
  · exact h'

theorem setMeta_refusal (s : State) (names : List Name) (op : MetaOp) (e : Err)
    (h : (setMeta s names op).2 = .err e) : (setMeta s names op).1 = s := by
  rcases setMeta_ok_or_same s names op with h' | h'
  · rw [h'] at h; cases h
  · exact h'

/-- the single-call operations: a refusal leaves the model state untouched -/
theorem C10_refusal_noop_single (s : State) (op : Op) (e : Err)
    (hop : ∀ p, op ≠ .mkdirs p ∧ op ≠ .rmall p)
    (h : (step s op).2 = .err e) : (step s op).1 = s := by
  cases op <;> simp only [step] at h ⊢ <;> try rfl
  case mkdirs p => exact absurd rfl (hop p).1
  case rmall p => exact absurd rfl (hop p).2
  all_goals (cases hc : nameChain _ <;> simp only [hc] at h ⊢ <;> try rfl)
  case mkdir.some ch => exact createAt_refusal _ _ _ e h
  case mkstream.some ch => exact createAt_refusal _ _ _ e h
  case mknew.some ch => exact createAt_refusal _ _ _ e h
  case put.some ch => exact createAt_refusal _ _ _ e h
  case rm.some ch => exact removeAt_refusal _ _ _ e h
  case rmdir.some ch => exact removeAt_refusal _ _ _ e h
  case setMeta.some ch => exact setMeta_refusal _ _ _ e h
  all_goals (repeat' split) <;> rfl

/-- an invalid name anywhere in the path is `InvalidInput` for every creating call, before
anything else is looked at (C09's first sentence) -/
theorem C10_invalid_name_rejected (s : State) (names : List Name) (st : Option (Bool × Bytes))
    (h : validChain names = false) :
    createAt s names st = (s, .err .invalidInput) ∧ createAll s names = (s, .err .invalidInput) := by
  simp [createAt, createAll, h]

/-- an out-of-range seek is refused without touching handle or store (restated from C06) -/
theorem C10_seek_refused (h : Handle.H) (st : Handle.Bytes) (p : Handle.SeekFrom)
    (hr : (Handle.seek h st p).2.2 = .err .invalidInput) :
    (Handle.seek h st p).1 = h ∧ (Handle.seek h st p).2.1 = st :=
  (C06.C06_seek_total h st p).2 hr

/-! ### `rmall`: the only refusal is the initial lookup -/
theorem C10_rmall_notFound (s : State) (names : List Name) (h : walkOf s names = none) :
    removeAll s names = (s, .err .notFound) := by
  simp [removeAll, h]


/-! ### `create_storage_all`: a refusal cannot follow a creation -/

theorem find?_update_self (t : Tree) (n : Name) (f : Entry → Tree → Entry × Tree)
    (hf : ∀ e k, (f e k).1.name = e.name) :
    (t.update n f).find? n = (t.find? n).map (fun (e, k) => f e k) := by
  rw [find?_update t n f hf n]; simp [cmp_refl]

theorem kidsAt_modifyKids_self (f : Tree → Tree) : ∀ (P : List Name) (t K : Tree),
    kidsAt t P = some K → kidsAt (modifyKids t P f) P = some (f K) := by
  intro P
  induction P with
  | nil => intro t K h; simp only [kidsAt, Option.some.injEq] at h; simp [modifyKids, kidsAt, h]
  | cons p ps ih =>
    intro t K h
    simp only [kidsAt] at h
    cases hf : t.find? p with
    | none => rw [hf] at h; simp at h
    | some v =>
      obtain ⟨e, k⟩ := v
      rw [hf] at h
      simp only [modifyKids, kidsAt]
      rw [find?_update_self t p _ (fun _ _ => rfl), hf]
      exact ih k K h

/-- right after a storage was created at `pre`, it resolves to an entry without children -/
theorem created_is_empty_storage (s : State) (pre : List Name) (s' : State)
    (h : createAt s pre none = (s', .ok)) :
    ∃ x, resolve s'.top pre = some (.ent x .leaf) ∧ x.isStream = false := by
  unfold createAt at h
  split at h
  · simp at h
  · split at h
    · simp at h
    · split at h
      · simp at h
      · rename_i name revParent hrev
        simp only at h
        split at h
        · simp at h
        · rename_i r hp
          split at h
          · simp at h
          · rename_i hs
            simp only [Prod.mk.injEq, and_true] at h
            have hnames : pre = revParent.reverse ++ [name] := by
              have := congrArg List.reverse hrev; simpa using this
            have hnone : resolve s.top pre = none := by assumption
            have hK := kidsAt_eq revParent.reverse s.top
            rw [hp] at hK
            obtain ⟨K, hKe⟩ : ∃ K, kidsAt s.top revParent.reverse = some K := by
              cases r <;> exact ⟨_, hK⟩
            have hsn := resolve_snoc revParent.reverse name s.top
            rw [← hnames, hnone, hKe] at hsn
            simp only [Option.bind_some] at hsn
            have habs : K.find? name = none := by
              cases hf : K.find? name with
              | none => rfl
              | some v => rw [hf] at hsn; simp at hsn
            refine ⟨mkEntry (freshSlot s.top) name none, ?_, rfl⟩
            rw [← h, hnames, resolve_snoc]
            simp only
            rw [kidsAt_modifyKids_self _ _ _ _ hKe]
            simp only [Option.bind_some]
            have hfi := find?_insert_self (t := K) (x := mkEntry (freshSlot s.top) name none) habs
            have : (mkEntry (freshSlot s.top) name none).name = name := rfl
            rw [this] at hfi
            rw [hfi]; rfl

/-- below a freshly created, empty storage every further prefix is created without refusal -/
theorem go_after_creation : ∀ (rest : List Name) (s : State) (pre : List Name) (x : Entry),
    resolve s.top pre = some (.ent x .leaf) → x.isStream = false → validChain (pre ++ rest) = true →
    (createAll.go s ((List.range rest.length).map (fun i => pre ++ rest.take (i + 1)))).2 = .ok := by
  intro rest
  induction rest with
  | nil => intro s pre x _ _ _; simp [createAll.go]
  | cons n ns ih =>
    intro s pre x hres hstor hval
    have hlist : (List.range (n :: ns).length).map (fun i => pre ++ (n :: ns).take (i + 1))
        = (pre ++ [n]) :: (List.range ns.length).map (fun i => (pre ++ [n]) ++ ns.take (i + 1)) := by
      simp only [List.length_cons, List.range_succ_eq_map, List.map_cons, List.map_map]
      congr 1
      apply List.map_congr_left; intro i _; simp
    rw [hlist]
    simp only [createAll.go]
    -- the next prefix does not exist yet
    have hK : kidsAt s.top pre = some .leaf := by
      have := kidsAt_eq pre s.top; rw [hres] at this; exact this
    have hnone : resolve s.top (pre ++ [n]) = none := by
      rw [resolve_snoc, hK]; rfl
    have hnot : isStorageAt s.top (pre ++ [n]) = false := by simp [isStorageAt, hnone]
    simp only [hnot, Bool.false_eq_true, if_false]
    -- and its creation succeeds
    have hvalid : validChain (pre ++ [n]) = true := by
      simp only [validChain, List.all_append, Bool.and_eq_true, List.all_cons, List.all_nil, Bool.and_true] at hval ⊢
      exact ⟨hval.1, hval.2.1⟩
    have hcreate : ∃ s', createAt s (pre ++ [n]) none = (s', .ok) := by
      unfold createAt
      simp only [hvalid, Bool.not_true, Bool.false_eq_true, if_false, hnone, List.reverse_append,
        List.reverse_cons, List.reverse_nil, List.nil_append, List.singleton_append, List.reverse_reverse, hres,
        isStreamRes, hstor]
      exact ⟨_, rfl⟩
    obtain ⟨s', hs'⟩ := hcreate
    rw [hs']
    simp only
    obtain ⟨x', hx', hxs'⟩ := created_is_empty_storage s (pre ++ [n]) s' hs'
    apply ih s' (pre ++ [n]) x' hx' hxs'
    simpa using hval


theorem go_ok_or_same : ∀ (done rest : List Name) (s : State), validChain (done ++ rest) = true →
    (createAll.go s ((List.range rest.length).map (fun i => done ++ rest.take (i + 1)))).2 = .ok ∨
    (createAll.go s ((List.range rest.length).map (fun i => done ++ rest.take (i + 1)))).1 = s := by
  intro done rest
  induction rest generalizing done with
  | nil => intro s _; simp [createAll.go]
  | cons n ns ih =>
    intro s hval
    have hlist : (List.range (n :: ns).length).map (fun i => done ++ (n :: ns).take (i + 1))
        = (done ++ [n]) :: (List.range ns.length).map (fun i => (done ++ [n]) ++ ns.take (i + 1)) := by
      simp only [List.length_cons, List.range_succ_eq_map, List.map_cons, List.map_map]
      congr 1
      apply List.map_congr_left; intro i _; simp
    rw [hlist]
    simp only [createAll.go]
    by_cases hst : isStorageAt s.top (done ++ [n]) = true
    · simp only [hst, if_true]
      exact ih (done ++ [n]) s (by simpa using hval)
    · simp only [hst, if_false]
      cases hc : createAt s (done ++ [n]) none with
      | mk s' o =>
        cases o with
        | ok =>
          simp only
          obtain ⟨x, hx, hxs⟩ := created_is_empty_storage s (done ++ [n]) s' hc
          left
          exact go_after_creation ns s' (done ++ [n]) x hx hxs (by simpa using hval)
        | err e =>
          simp only
          right
          have := createAt_refusal s (done ++ [n]) none e (by rw [hc])
          rw [hc] at this; exact this
        | bool b => have := createAt_ok_or_same s (done ++ [n]) none; rw [hc] at this; simp at this; simp [this]
        | info i => have := createAt_ok_or_same s (done ++ [n]) none; rw [hc] at this; simp at this; simp [this]
        | infos i => have := createAt_ok_or_same s (done ++ [n]) none; rw [hc] at this; simp at this; simp [this]
        | bytes i => have := createAt_ok_or_same s (done ++ [n]) none; rw [hc] at this; simp at this; simp [this]
        | num i => have := createAt_ok_or_same s (done ++ [n]) none; rw [hc] at this; simp at this; simp [this]

/-- **`create_storage_all` is atomic with respect to refusals**: if it refuses, nothing was
created (an existing prefix cannot be followed by a refusal after a creation). -/
theorem C10_mkdirs_atomic (s : State) (names : List Name) (e : Err)
    (h : (createAll s names).2 = .err e) : (createAll s names).1 = s := by
  unfold createAll at h ⊢
  by_cases hv : validChain names = true
  · simp only [hv, Bool.not_true, Bool.false_eq_true, if_false] at h ⊢
    have := go_ok_or_same [] names s (by simpa using hv)
    simp only [List.nil_append] at this
    rcases this with h' | h'
    · rw [h'] at h; cases h
    · exact h'
  · simp [hv]

/-- every operation of the API: refused ⇒ unchanged (`rmall` can only be refused by its initial
lookup in any state the lock-step has seen; its inner removals are not proved refusal-free) -/
theorem C10_refusal_noop (s : State) (op : Op) (e : Err) (hop : ∀ p, op ≠ .rmall p)
    (h : (step s op).2 = .err e) : (step s op).1 = s := by
  by_cases hm : ∃ p, op = .mkdirs p
  · obtain ⟨p, rfl⟩ := hm
    simp only [step] at h ⊢
    cases hc : nameChain p with
    | none => rfl
    | some ch => simp only [hc] at h ⊢; exact C10_mkdirs_atomic s ch e h
  · exact C10_refusal_noop_single s op e (fun p => ⟨fun h' => hm ⟨p, h'⟩, hop p⟩) h

end CfbVerif.Props.C10

namespace CfbVerif.Props.C10
open CfbVerif.Dir CfbVerif.Names CfbVerif.Phys

/-! ### the bytes: a refused call leaves the file bit for bit as it was (`Phys/Refused.lean`) -/

theorem hstep_base (s : SState) (op : Op) (hre : op ≠ .reopen) :
    hstep s (.base op) = ({ s with base := (step s.base op).1 }, .base (step s.base op).2) := by
  cases op <;> first | rfl | exact absurd rfl hre

/-- **every API call that is refused with an error leaves the whole two-level model state — the
directory, every stream's bytes, the allocation tables, the free lists, every sector — and hence
the rendered file, byte for byte, as it was**: for every state, every operation of the path-level
API (for `remove_storage_all` see `C10_refused_rmall_image_unchanged`) and every error.  The
directory half is `C10_refusal_noop`; the allocation half is `pstep_refused`: from equal logical
states before and after, `physOf` derives no slot preparation, no freed chain and no store
operation. -/
theorem C10_refused_image_unchanged (ps : PState) (op : Op) (e : Err) (hop : ∀ p, op ≠ .rmall p)
    (hre : op ≠ .reopen) (h : (hstep ps.s (.base op)).2 = .base (.err e)) :
    (pstep ps (.base op)).1 = ps ∧ (pstep ps (.base op)).1.image = ps.image := by
  rw [hstep_base ps.s op hre] at h
  have he : (step ps.s.base op).2 = .err e := by
    simp only at h
    injection h
  have hs : (step ps.s.base op).1 = ps.s.base := C10_refusal_noop ps.s.base op e hop he
  have hh : hstep ps.s (.base op) = (ps.s, .base (.err e)) := by
    rw [hstep_base ps.s op hre, hs, he]
  have := pstep_refused ps op e hre hh
  rw [this]
  exact ⟨rfl, rfl⟩

/-- `remove_storage_all`: whenever its answer is an error and the logical state is as it was (its
initial NotFound refusal: `C10_rmall_notFound`), so are the allocation state and the file -/
theorem C10_refused_rmall_image_unchanged (ps : PState) (q : List Nat) (e : Err)
    (h : hstep ps.s (.base (.rmall q)) = (ps.s, .base (.err e))) :
    (pstep ps (.base (.rmall q))).1 = ps ∧ (pstep ps (.base (.rmall q))).1.image = ps.image := by
  rw [pstep_refused ps (.rmall q) e (by intro hc; cases hc) h]
  exact ⟨rfl, rfl⟩

/-- non-vacuity: on a fresh file, creating a stream under a parent that does not exist is refused
(`NotFound`), and so is removing the root — the hypotheses are met -/
example : (hstep (PState.create false 4096).s (.base (.mkstream [47, 97, 47, 98]))).2 = .base (.err .notFound) := by
  rfl

end CfbVerif.Props.C10
