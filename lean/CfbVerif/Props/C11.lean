import CfbVerif.Phys.Mini
import CfbVerif.Phys.Api
import CfbVerif.Phys.MiniInv
import CfbVerif.Phys.NoPanic
import CfbVerif.Phys.NoPanicApi
import CfbVerif.Phys.Load
import CfbVerif.Phys.NoHang
import CfbVerif.Phys.NoHangOps
import CfbVerif.Phys.NoHangMini
/-!
# C11 — mutating any file the library agreed to open never panics or hangs

Property text: *For any byte string that permissive open accepts - including damaged files that are
only partly consistent - every subsequent sequence of API calls, including creating, writing,
resizing and removing streams and storages, terminates and returns Ok or an error value.  It never
panics (index out of range, arithmetic overflow, failed assertion) and never loops forever.*

Model: the allocation level `CfbVerif.Phys`, in which every unchecked index of the Rust is an
explicit `panic` exit and every unbounded loop a fuelled loop with a `hang` exit.  The write path
is compared byte for byte with the library on valid files (C02/C03/C15); on damaged files the
decision is the campaign on the implementation (corruptions that survive permissive open × short
mutating histories, panic hook with source location, watchdog).

Proved here, for *arbitrary* tables (no consistency assumed beyond the stated range conditions):
* `C11_walk_then_extend_terminates`: after a successful chain walk from `start` (what `Chain::new`
  / `open_chain` does first), the walk of `extend_chain` from `start` reaches the end within its
  fuel — the loop that has no bound in the Rust cannot spin on a cyclic chain, because the walk
  before it would have refused the cycle;
* `C11_setFat_no_panic`, `C11_reuse_no_panic`: with free-list entries inside the FAT the reuse
  branch of `allocate_sector` has no panic exit;
* `C11_setMiniFat_no_panic`: `set_minifat` has no panic exit on any tables (F20);
* `C11_free_mini_range`: `free_mini_sector` leaves only in-range indices on the mini free list
  (the pruning step), and `C11_popFreeMini_no_panic`: with in-range indices the pop loop of
  `allocate_mini_sector` has no panic exit — together: the index `minifat[free_idx]` is in range in
  every state reached from one where it was;
* **`C11_store_ops_never_panic`** (`Phys/NoPanic.lean`, 1 500 lines): from *any* state in which the two
  free lists lie inside their tables — nothing else is assumed: chains may be cut, cyclic, shared
  between owners or run into free space, lengths may contradict chains — every operation of the
  store machine (`allocate_dir_entry`'s chain growth, `write_data_to_stream`, `resize_stream`,
  `remove_stream`'s release, `open`'s cache rebuild, with any arguments) returns a value or an
  error, never one of the model's panic exits, and the two conditions hold again afterwards
  (`C11_history_keeps_ranges`: after any history); `C11_open_establishes_ranges`: the caches `open`
  builds satisfy them for whatever tables it read, in particular for every accepted file the
  two-level model can be loaded from (`C11_loaded_state_in_range`); composed once more over the API level
  (`Phys/NoPanicApi.lean`): `C11_api_history_never_panics` — along every API history from every such
  image no call reaches a panic exit of the allocation level.  This is the composition over
  the whole write path that the primitive lemmas above lacked — for the panic exits.  The `hang`
  exits (fuel) are covered by `Phys/NoHang*.lean` (below) for the store machine on well-formed tables;
  the directory level is not.
* `C11_free_chain_terminates`, `C11_chain_write_terminates`, `C11_chain_read_terminates`,
  `C11_chain_set_len_terminates` (`Phys/NoHang.lean`): the loops of alloc.rs/chain.rs that have no
  bound in the Rust never use up the model's fuel — `free_chain` on *any* FAT (each round turns a
  cell that is not FREE into FREE; a cycle is left through the "already free" refusal), the byte
  loops on any tables (a byte or more per round), chain growth when the chain's last sector has END
  in its cell and is not on the (duplicate-free, in-range) free list — the condition is kept by
  every round, so a chain that was walked can be grown for ever.
* `C11_regular_ops_never_hang_partial` (`Phys/NoHangOps.lean`): the local conditions discharged from
  the invariant of the reachable states (`JR`): no operation on the directory chain, no reopen and no
  operation on a stream that lives in a regular chain hangs, in any reachable state, with any
  arguments.
* **`C11_store_ops_never_hang_partial`** (`Phys/NoHangMini.lean`): the mini level as well — every store
  operation in every reachable state.
* `C11_mini_pop_safe_reachable`, `C11_reuse_safe_reachable`: both range conditions hold in *every*
  state the API model reaches from a fresh file (`miniRange_reachable`, `inv_reachable`: induction
  over all histories), so on well-formed files these two unchecked indexings can never fail.
-/
namespace CfbVerif.Props.C11
open CfbVerif.Phys CfbVerif.Raw

theorem walk_then_last (fat : Array Nat) (first : Nat) (fuel : Nat) :
    ∀ (cur : Nat) (acc ids : List Nat), cur ≠ END →
      chainLoop fat first fuel cur acc = .ok ids → ∃ last, lastOfChain fat fuel cur = .ok last := by
  induction fuel with
  | zero => intro cur acc ids _ h; simp [chainLoop] at h
  | succ fuel ih =>
    intro cur acc ids hne h
    unfold chainLoop at h
    rw [if_neg hne] at h
    unfold lastOfChain
    cases hn : nextSector fat cur with
    | error k => simp [hn] at h
    | ok next =>
      simp only [hn] at h ⊢
      by_cases he : next = END
      · exact ⟨cur, by rw [if_pos he]⟩
      · rw [if_neg he]
        split at h
        · cases h
        · exact ih next _ ids he h

/-- `extend_chain(start)` after `open_chain(start)` succeeded cannot hang -/
theorem C11_walk_then_extend_terminates (p : P) (start : Nat) (ids : List Nat) (hs : start ≠ END)
    (hwalk : chainIds p start = .ok ids) : ∃ last, lastOfChain p.fat (p.fat.size + 1) start = .ok last :=
  walk_then_last p.fat start (p.fat.size + 1) start [] ids hs hwalk

theorem C11_setFat_no_panic (p : P) (idx val : Nat) (h : idx ≤ p.fat.size) : ∀ s, setFat p idx val ≠ .panic s := by
  intro s
  unfold setFat
  split
  · intro hc; cases hc
  · split
    · intro hc; cases hc
    · split
      · intro hc; cases hc
      · omega

theorem C11_initSector_no_panic (p : P) (id : Nat) (k : Init) : ∀ s, initSector p id k ≠ .panic s := by
  intro s; unfold initSector
  split
  · intro hc; cases hc
  · split <;> (intro hc; cases hc)

/-- the reuse branch of `allocate_sector` on arbitrary tables whose free list is in range -/
theorem C11_reuse_no_panic (p : P) (k : Init) (id : Nat) (hl : p.free.getLast? = some id)
    (hr : ∀ i ∈ p.free, i < p.fat.size) : ∀ s, allocateSector p k ≠ .panic s := by
  intro s
  unfold allocateSector
  simp only [hl, bind, Outcome.bind, pure]
  have hid : id ≤ p.fat.size := Nat.le_of_lt (hr id (getLast_mem hl))
  cases h1 : setFat { p with free := p.free.dropLast } id END with
  | err e => intro hc; cases hc
  | hang m => intro hc; cases hc
  | panic m => exact absurd h1 (C11_setFat_no_panic { p with free := p.free.dropLast } id END hid m)
  | ok p1 =>
    simp only
    cases h2 : initSector p1 id k with
    | err e => intro hc; cases hc
    | hang m => intro hc; cases hc
    | panic m => exact absurd h2 (C11_initSector_no_panic _ _ _ m)
    | ok p2 => intro hc; cases hc

/-- a chain walk has no panic exit, on any table whatever -/
theorem chainLoop_no_panic (fat : Array Nat) (first : Nat) : ∀ (fuel cur : Nat) (acc : List Nat) (s : String),
    chainLoop fat first fuel cur acc ≠ .panic s := by
  intro fuel
  induction fuel with
  | zero => intro cur acc s hc; simp [chainLoop] at hc
  | succ fuel ih =>
    intro cur acc s
    unfold chainLoop
    split
    · intro hc; cases hc
    · split
      · split
        · intro hc; simp [bad] at hc
        · exact ih _ _ s
      · intro hc; cases hc

/-- **`set_minifat` on arbitrary tables**: with an index up to the in-memory MiniFAT's length (a free
mini sector being reused, or the next one) there is no panic exit, whatever the MiniFAT chain
looks like — cut short under the in-memory MiniFAT by an overlapping stream's truncation, cyclic,
or running into free space: the cell beyond the chain is answered with `InvalidData` (F20: it was a
debug assertion) -/
theorem C11_setMiniFat_no_panic (p : P) (idx val : Nat) (h : idx ≤ p.miniFat.size) :
    ∀ s, setMiniFat p idx val ≠ .panic s := by
  intro s
  unfold setMiniFat
  cases hc : chainIds p p.miniFatStart with
  | err e => intro hx; simp [bind, Outcome.bind] at hx
  | hang m => intro hx; simp [bind, Outcome.bind] at hx
  | panic m => exact absurd hc (chainLoop_no_panic _ _ _ _ _ m)
  | ok chain =>
    simp only [bind, Outcome.bind, pure]
    split
    · intro hx; cases hx
    · split
      · intro hx; cases hx
      · split
        · intro hx; cases hx
        · omega

/-- the defect as it was: a MiniFAT chain of one sector under an in-memory MiniFAT of 189 cells (the
chain cut by the truncation of a stream that ran into it) — cell 189 is refused, not asserted -/
def cutMiniFat : P :=
  { (Phys.create false) with
      fat := #[FATSECT, END, END], numSectors := 3, miniFatStart := 2, miniFat := Array.replicate 189 END }
example : (match setMiniFat cutMiniFat 189 END with | .err .invalidData => true | _ => false) = true := by decide

/-- `free_mini_sector` prunes the mini free list to the (possibly shortened) MiniFAT -/
theorem C11_free_mini_range {p p' : P} {id : Nat} (h : freeMiniSector p id = .ok p') :
    ∀ i ∈ p'.freeMini, i < p'.miniFat.size := by
  unfold freeMiniSector at h
  split at h
  · cases h
  · split at h
    · cases h
    · cases hs : setMiniFat p id FREE with
      | err e => simp [hs, bind, Outcome.bind] at h
      | panic s => simp [hs, bind, Outcome.bind] at h
      | hang s => simp [hs, bind, Outcome.bind] at h
      | ok p1 =>
        simp only [hs, bind, Outcome.bind, pure] at h
        cases h
        intro i hi
        simp only [List.mem_filter, decide_eq_true_eq] at hi
        exact hi.2

/-- with in-range indices the pop loop never reaches its `minifat[free_idx]` panic exit -/
theorem C11_popFreeMini_no_panic (fuel : Nat) : ∀ (p : P), (∀ i ∈ p.freeMini, i < p.miniFat.size) →
    ∀ s, popFreeMini p fuel ≠ .panic s := by
  induction fuel with
  | zero => intro p _ s hc; simp [popFreeMini] at hc
  | succ fuel ih =>
    intro p hr s
    unfold popFreeMini
    split
    · intro hc; cases hc
    · rename_i idx hl
      have hlt : idx < p.miniFat.size := hr idx (getLast_mem hl)
      simp only
      rw [Array.getElem?_eq_getElem hlt]
      simp only
      split
      · intro hc; cases hc
      · apply ih
        intro i hi
        exact hr i (List.dropLast_subset _ hi)

/-- **in every state the API model reaches from a fresh file**, the pop loop of
`allocate_mini_sector` has no panic exit: the mini free list never leaves the MiniFAT -/
theorem C11_mini_pop_safe_reachable (v4 : Bool) (maxBuf : Nat) (ops : List CfbVerif.Dir.HOp) (fuel : Nat) :
    ∀ s, popFreeMini (prun (PState.create v4 maxBuf) ops).p fuel ≠ .panic s :=
  C11_popFreeMini_no_panic fuel _ (miniRange_reachable v4 maxBuf ops)

/-- likewise the reuse branch of `allocate_sector`, in every reachable state below 2³² − 1 sectors -/
theorem C11_reuse_safe_reachable (v4 : Bool) (maxBuf : Nat) (ops : List CfbVerif.Dir.HOp)
    (small : Small (prun (PState.create v4 maxBuf) ops).p) (k : Init) (id : Nat)
    (hl : (prun (PState.create v4 maxBuf) ops).p.free.getLast? = some id) :
    ∀ s, allocateSector (prun (PState.create v4 maxBuf) ops).p k ≠ .panic s := by
  have inv := inv_reachable v4 maxBuf ops small
  refine C11_reuse_no_panic _ k id hl ?_
  intro i hi
  have := inv.fat.freeFree i hi
  rcases Nat.lt_or_ge i (prun (PState.create v4 maxBuf) ops).p.fat.size with hc | hc
  · exact hc
  · rw [Array.getElem?_eq_none hc] at this; cases this

/-- non-vacuity: a two-cycle is refused by the walk, so the hypothesis of
`C11_walk_then_extend_terminates` excludes exactly the input on which the loop would spin -/
example : (match chainFrom #[1, 0] 0 with | .err .invalidData => true | _ => false) = true := by decide

/-! ## every store operation on arbitrary tables -/

/-- **no operation of the store machine panics, from any state whose free lists lie inside their
tables, with any arguments; and the state it leaves satisfies the same two conditions** -/
theorem C11_store_ops_never_panic (g : G) (op : GOp) (w : WK g.p) :
    (∀ s, gstep g op ≠ .panic s) ∧ ∀ g', gstep g op = .ok g' → WK g'.p :=
  np_gstep g op w

/-- … after any history of store operations (a failed one leaves the state) -/
theorem C11_history_keeps_ranges (g : G) (ops : List GOp) (w : WK g.p) : WK (grun g ops).p :=
  wk_grun ops g w

/-- **`open` establishes the two conditions on whatever tables it read**: it builds both lists from
the FREE cells of the FAT and the MiniFAT -/
theorem C11_open_establishes_ranges (p : P) (hf : p.free = indicesOf p.fat FREE)
    (hm : p.freeMini = indicesOf p.miniFat FREE) : WK p :=
  wk_of_indices p hf hm

/-- in particular every accepted image the two-level model can be loaded from starts in range -/
theorem C11_loaded_state_in_range (img : Raw.Img) (maxBuf : Nat) (ps : PState)
    (h : ofImage img maxBuf = some ps) : WK ps.p := by
  unfold ofImage at h
  split at h
  · split at h
    · cases h
    · split at h
      · cases h
      · dsimp only at h
        split at h
        · cases h
        · cases h
          exact wk_of_indices _ rfl rfl
  · cases h

/-- **from every accepted image the two-level model can be loaded from, along every API history, no
call reaches a panic exit of the allocation level** — whatever the image's tables look like
(`ofImage` takes them over as they are; only the directory must be a tree whose streams can be
read) -/
theorem C11_api_history_never_panics (img : Raw.Img) (maxBuf : Nat) (ps : PState)
    (h : ofImage img maxBuf = some ps) (ops : List CfbVerif.Dir.HOp) : NoPanicRun ps ops :=
  noPanicRun ops ps (C11_loaded_state_in_range img maxBuf ps h)

/-- … and so from a fresh file -/
theorem C11_api_history_never_panics_fresh (v4 : Bool) (maxBuf : Nat) (ops : List CfbVerif.Dir.HOp) :
    NoPanicRun (PState.create v4 maxBuf) ops :=
  noPanicRun ops _ ⟨fun i hi => by simp [PState.create, Phys.create] at hi, fun i hi => by simp [PState.create, Phys.create] at hi⟩


/-! ## termination of the regular-chain loops (`Phys/NoHang.lean`) -/

/-- **`free_chain` terminates on every FAT**, cyclic or cross-linked chains included -/
theorem C11_free_chain_terminates (p : P) (start : Nat) : NH (freeChainFrom p start) ∧ ∀ id, NH (freeChainAfter p id) :=
  ⟨nh_freeChainFrom p start, nh_freeChainAfter p⟩

/-- **`Chain::write` (under `write_all`) terminates** and leaves the chain growable -/
theorem C11_chain_write_terminates (kind : Init) (p : P) (ids : List Nat) (off : Nat) (bs : Bytes) (t : TailOK p ids) :
    NH (chainWrite kind (bs.length + 2) p ids off bs) ∧
    ∀ p' ids', chainWrite kind (bs.length + 2) p ids off bs = .ok (p', ids') → TailOK p' ids' :=
  tail_chainWrite kind _ p ids off bs t (by omega)

theorem C11_chain_read_terminates (p : P) (ids : List Nat) (off n : Nat) : NH (chainRead (n + 2) p ids off n []) :=
  nh_chainRead _ p ids off n [] (by omega)

/-- **`Chain::set_len` terminates** (shrinking on any FAT; growing from a walked chain) -/
theorem C11_chain_set_len_terminates (p : P) (ids : List Nat) (kind : Init) (newLen : Nat) (t : TailOK p ids) :
    NH (chainSetLen p ids kind newLen) := nh_chainSetLen kind newLen t

/-- the growth premise holds for the empty chain of a fresh file, and for the chain `open_chain`
returns in a state that satisfies the allocator invariant -/
example (v4 : Bool) : TailOK (Phys.create v4) [] :=
  TailOK.nil (by simp [Phys.create]) (fun i hi => by simp [Phys.create] at hi)

/-- the premise is not cosmetic: on a chain whose last cell points back into the chain (a cycle that
`open_chain` was not asked about) the model's `extend_chain` runs out of fuel -/
example : (match extendChain { (Phys.create false) with fat := #[FATSECT, 1] } 1 .zero with | .hang _ => true | _ => false) = true := by
  decide


/-- **whole operations, partial**: in every state that store operations and reopens reach from a fresh file
(while the file stays inside the format's range of sector numbers), `allocate_dir_entry`'s chain growth,
`open`'s cache rebuild, and reading, writing, resizing (to nothing, or to another length of at least
4096 bytes) and removing any stream that lives in a regular chain never reach a `hang` exit — for all
arguments.  *Partial*: the full statement quantifies over every operation; the operations on streams
below 4096 bytes and the two migrations are missing (the mini level, see `Phys/NoHang.lean`). -/
theorem C11_regular_ops_never_hang_partial (v4 : Bool) (ops : List GOp) :
    let g0 : G := { p := Phys.create v4, L := fun _ => 0 }
    WritesInRange g0 ops → (grun g0 ops).p.fat.size ≤ MAXREG + 1 →
    let g := grun g0 ops
    (∀ slot, NH (gstep g (.ensure slot))) ∧ NH (gstep g .reopen) ∧
    (∀ s, CUTOFF ≤ g.L s →
      (∀ off n, NH (readData g.p s (g.L s) off n)) ∧
      (∀ off bs, NH (gstep g (.write s off bs))) ∧
      (∀ n, n = 0 ∨ CUTOFF ≤ n → NH (gstep g (.resize s n))) ∧
      NH (gstep g (.free s))) :=
  regular_ops_never_hang v4 ops

/-- the premises are met by the empty history (and by every history `regLen_reachable` speaks of) -/
example : WritesInRange ({ p := Phys.create false, L := fun _ => 0 } : G) [] ∧
    (grun ({ p := Phys.create false, L := fun _ => 0 } : G) []).p.fat.size ≤ MAXREG + 1 := by
  refine ⟨trivial, ?_⟩
  show (Phys.create false).fat.size ≤ MAXREG + 1
  decide


/-- **the store machine never hangs** (partial with respect to the property, see below): in every state that
store operations and reopens reach from a fresh file, every store operation — `allocate_dir_entry`'s
chain growth, creating a stream, `write_data_to_stream`, `resize_stream` in all its eight cases,
`remove_stream`'s release, `open`'s cache rebuild, with any arguments — returns a value or an error and
not one of the model's `hang` exits, provided the file has room inside the format's range of sector
numbers for what the operation may add (`opCost`: six FAT cells per byte written, 25 200 cells for a
resize — crude bounds; a file of 2 TB is where they bite).  *Partial* because the property speaks of API
calls on every accepted file: this is the store machine under the API level (`Phys/NoHangMini.lean`,
1 300 lines: the invariant `MW` — both container chains can be walked, are disjoint and keep clear of a
duplicate-free free list of FREE cells — is kept by every allocation and re-established after
`free_chain` from "no sharing, no leak"; `free_mini_chain` terminates by the same counting argument
as `free_chain`), and the states are the well-formed ones. -/
theorem C11_store_ops_never_hang_partial (v4 : Bool) (ops : List GOp) (op : GOp) :
    let g0 : G := { p := Phys.create v4, L := fun _ => 0 }
    WritesInRange g0 ops → MiniBounded g0 ops →
    let g := grun g0 ops
    g.p.fat.size + 6 * opCost op ≤ MAXREG + 1 → NH (gstep g op) :=
  store_ops_never_hang v4 ops op


/-- **the store machine is total on reachable states**: both halves together — a value or an error, never a
panic exit and never a hang exit (partial with respect to the property for the same reasons as the two
halves: store machine, well-formed states, room inside the sector-number range) -/
theorem C11_store_ops_total_partial (v4 : Bool) (ops : List GOp) (op : GOp) :
    let g0 : G := { p := Phys.create v4, L := fun _ => 0 }
    WritesInRange g0 ops → MiniBounded g0 ops →
    let g := grun g0 ops
    g.p.fat.size + 6 * opCost op ≤ MAXREG + 1 →
    (∃ g', gstep g op = .ok g') ∨ (∃ k, gstep g op = .err k) :=
  store_ops_total v4 ops op

/-- non-vacuity: after a history with a stream of 9000 bytes beside one of 100 bytes, every premise of the
three theorems above holds for a resize of the small stream (a mini-level operation) and for the
migration of the big one into the mini stream -/
example :
    writesInRangeB { p := Phys.create false, L := fun _ => 0 } [.create 1, .resize 1 9000, .create 2, .resize 2 100] = true ∧
    miniBoundedB { p := Phys.create false, L := fun _ => 0 } [.create 1, .resize 1 9000, .create 2, .resize 2 100] = true ∧
    (grun { p := Phys.create false, L := fun _ => 0 } [.create 1, .resize 1 9000, .create 2, .resize 2 100]).p.fat.size
      + 6 * opCost (.resize 2 3000) ≤ MAXREG + 1 ∧
    (grun { p := Phys.create false, L := fun _ => 0 } [.create 1, .resize 1 9000, .create 2, .resize 2 100]).L 2 = 100 ∧
    CUTOFF ≤ (grun { p := Phys.create false, L := fun _ => 0 } [.create 1, .resize 1 9000, .create 2, .resize 2 100]).L 1 := by
  decide

/-- the premise is met on a fresh file by any write of a buffer that is not astronomically long, and by any resize -/
example (bs : Bytes) (h : bs.length ≤ 1000000) :
    (Phys.create false).fat.size + 6 * opCost (.write 1 0 bs) ≤ MAXREG + 1 ∧
    (Phys.create false).fat.size + 6 * opCost (.resize 1 100) ≤ MAXREG + 1 := by
  have h1 : (Phys.create false).fat.size = 2 := rfl
  have h2 : MAXREG = 4294967290 := by decide
  constructor
  · show (Phys.create false).fat.size + 6 * (bs.length + 2) ≤ MAXREG + 1
    omega
  · show (Phys.create false).fat.size + 6 * 4200 ≤ MAXREG + 1
    omega

/-- the premise is met by a damaged state — the MiniFAT chain cut under the in-memory MiniFAT (F20) —
and the operation that used to trip the assertion is answered with an error -/
example : WK cutMiniFat :=
  ⟨fun i hi => (by simp [cutMiniFat, Phys.create] at hi), fun i hi => (by simp [cutMiniFat, Phys.create] at hi)⟩
set_option maxRecDepth 20000 in
example : (match allocateMiniSector cutMiniFat END with | .err .invalidData => true | _ => false) = true := by decide

/-- the premise is not cosmetic: with a free-list entry beyond the FAT the reuse branch of
`allocate_sector` does reach the model's panic exit -/
example : (match allocateSector { (Phys.create false) with free := [7] } .zero with | .panic _ => true | _ => false) = true := by
  decide

end CfbVerif.Props.C11
