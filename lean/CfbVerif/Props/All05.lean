import CfbVerif.Props.C05
import CfbVerif.Props.C06
