import CfbVerif.Lock.Model
/-!
# C14 — shared read access concurrent with stream I/O never deadlocks

Property text: *A compound file may be shared by reference between threads: while one thread reads
and writes through stream handles, other threads may call any read-only method (…) at the same
time.  Under every thread schedule all calls complete, none panics, and each result equals the
state before or after some whole stream operation.*

Theorem: for **any** number of threads running **any** finite programs of lock actions under
**any** schedule and **any** admission rule that lets somebody in when the lock is free: if every
program is *flat* (acquires only while holding nothing), then no reachable state is stuck and every
execution ends with all threads finished.  Flatness is a sequential, per-call property of the
code; the check establishes it on the real crate through hook H1 (hold depth at every
acquisition).  Conversely (`C14_nested_read_deadlocks`) a single recursive read acquisition
deadlocks against one writer under std's admission rule — the schedule the property warns about.

Not modelled: the memory model, fairness beyond the admission rule, panics under a held guard
(excluded by C05/C11).  "Each result equals the state before or after a whole stream operation"
holds because a read-only call reads under one read guard and a handle operation mutates under one
write guard — mutual exclusion of the two is the lock's contract, which is assumed, not proved.
-/
set_option linter.unusedSimpArgs false
set_option linter.unusedVariables false
namespace CfbVerif.Props.C14
open CfbVerif.Lock

/-- a free lock admits whoever asks -/
def FreeAdmits (adm : Admission) : Prop :=
  ∀ σ, holdsAny σ = false → adm.write σ = true ∧ (writerWaiting σ = false → adm.read σ = true)

theorem std_freeAdmits : FreeAdmits stdAdm := by
  intro σ h
  refine ⟨by simp [stdAdm, h], fun hw => ?_⟩
  simp only [stdAdm, hw, Bool.not_false, Bool.and_true, Bool.not_eq_true']
  -- nobody holds anything, in particular no writer holds
  simp only [holdsAny, List.any_eq_false, Bool.not_eq_true', List.isEmpty_iff] at h
  simp only [writerHolds, List.any_eq_false]
  intro t ht
  have := h t ht
  simp at this
  simp [this]

/-- a flat thread that holds a guard can always move (its next action is not an acquisition) -/
theorem holder_can_step (adm : Admission) (σ : Sys) (t : Thread) (hf : t.flat = true)
    (hh : t.held ≠ []) : (stepThread adm σ t).isSome = true := by
  obtain ⟨prog, held⟩ := t
  cases held with
  | nil => exact absurd rfl hh
  | cons g gs =>
    cases prog with
    | nil => simp [Thread.flat, flatFrom] at hf
    | cons a rest =>
      cases a <;> simp_all [Thread.flat, flatFrom, stepThread]

theorem successors_ne_nil_of_step (adm : Admission) (σ : Sys) (i : Nat) (t : Thread)
    (hi : σ[i]? = some t) (hs : (stepThread adm σ t).isSome = true) : successors adm σ ≠ [] := by
  intro he
  have hlt : i < σ.length := by
    rcases Nat.lt_or_ge i σ.length with h | h
    · exact h
    · rw [List.getElem?_eq_none h] at hi; cases hi
  have hmem : i ∈ List.range σ.length := List.mem_range.mpr hlt
  obtain ⟨t', ht'⟩ := Option.isSome_iff_exists.mp hs
  have : σ.set i t' ∈ successors adm σ := by
    unfold successors
    rw [List.mem_filterMap]
    exact ⟨i, hmem, by simp [hi, ht']⟩
  rw [he] at this
  cases this

/-- **progress**: in a system of flat threads, if somebody is unfinished then somebody can move -/
theorem C14_no_deadlock (adm : Admission) (hadm : FreeAdmits adm) (σ : Sys)
    (hflat : ∀ t ∈ σ, t.flat = true) : stuck adm σ = false := by
  unfold stuck
  by_cases hfin : allFinished σ = true
  · simp [hfin]
  · simp only [hfin, Bool.not_false, Bool.true_and, List.isEmpty_iff]
    simp only [Bool.not_eq_true] at hfin
    -- either somebody holds a guard …
    by_cases hh : holdsAny σ = true
    · simp only [holdsAny, List.any_eq_true, Bool.not_eq_true', List.isEmpty_iff] at hh
      obtain ⟨t, ht, hne⟩ := hh
      obtain ⟨i, hi, hget⟩ := List.getElem_of_mem ht
      have hsome : σ[i]? = some t := by rw [List.getElem?_eq_getElem hi, hget]
      have hne' : t.held ≠ [] := by intro h; simp [h] at hne
      have := successors_ne_nil_of_step adm σ i t hsome (holder_can_step adm σ t (hflat t ht) hne')
      simpa using this
    · -- … or the lock is free: take an unfinished thread
      have hfree : holdsAny σ = false := by simpa using hh
      simp only [allFinished, List.all_eq_false] at hfin
      obtain ⟨t, ht, hunf⟩ := hfin
      have hheld : t.held = [] := by
        simp only [holdsAny, List.any_eq_false, Bool.not_eq_true', List.isEmpty_iff] at hfree
        have := hfree t ht; simpa using this
      obtain ⟨prog, held⟩ := t
      simp only at hheld; subst hheld
      have hfl := hflat _ ht
      cases prog with
      | nil => simp [Thread.finished] at hunf
      | cons a rest =>
        obtain ⟨i, hi, hget⟩ := List.getElem_of_mem ht
        have hsome : σ[i]? = some ⟨a :: rest, []⟩ := by rw [List.getElem?_eq_getElem hi, hget]
        cases a with
        | loc => have := successors_ne_nil_of_step adm σ i _ hsome (by simp [stepThread]); simpa using this
        | rel => simp [Thread.flat, flatFrom] at hfl
        | acqW =>
          have := successors_ne_nil_of_step adm σ i _ hsome (by simp [stepThread, (hadm σ hfree).1])
          simpa using this
        | acqR =>
          by_cases hw : writerWaiting σ = true
          · -- a waiting writer is admitted by the free lock
            simp only [writerWaiting, List.any_eq_true, beq_iff_eq] at hw
            obtain ⟨w, hwm, hwh⟩ := hw
            obtain ⟨j, hj, hgetj⟩ := List.getElem_of_mem hwm
            have hsomej : σ[j]? = some w := by rw [List.getElem?_eq_getElem hj, hgetj]
            have hstep : (stepThread adm σ w).isSome = true := by
              obtain ⟨wp, wh⟩ := w
              cases wp with
              | nil => simp at hwh
              | cons b bs =>
                simp only [List.head?_cons, Option.some.injEq] at hwh
                subst hwh
                simp [stepThread, (hadm σ hfree).1]
            have := successors_ne_nil_of_step adm σ j w hsomej hstep
            simpa using this
          · have hw' : writerWaiting σ = false := by simpa using hw
            have := successors_ne_nil_of_step adm σ i _ hsome
              (by simp [stepThread, (hadm σ hfree).2 hw'])
            simpa using this

/-- flatness is preserved by every step, so progress holds in every reachable state -/
theorem flat_step (adm : Admission) (σ : Sys) (t t' : Thread) (h : stepThread adm σ t = some t')
    (hf : t.flat = true) : t'.flat = true := by
  obtain ⟨prog, held⟩ := t
  cases prog with
  | nil => simp [stepThread] at h
  | cons a rest =>
    cases a with
    | loc => simp [stepThread] at h; subst h; simpa [Thread.flat, flatFrom] using hf
    | rel =>
      cases held with
      | nil => simp [stepThread] at h
      | cons g gs => simp [stepThread] at h; subst h; simpa [Thread.flat, flatFrom] using hf
    | acqR =>
      simp only [stepThread] at h
      split at h
      · simp at h; subst h
        simp only [Thread.flat, flatFrom, Bool.and_eq_true, beq_iff_eq] at hf
        have : held = [] := List.eq_nil_of_length_eq_zero hf.1
        subst this; simpa [Thread.flat] using hf.2
      · cases h
    | acqW =>
      simp only [stepThread] at h
      split at h
      · simp at h; subst h
        simp only [Thread.flat, flatFrom, Bool.and_eq_true, beq_iff_eq] at hf
        have : held = [] := List.eq_nil_of_length_eq_zero hf.1
        subst this; simpa [Thread.flat] using hf.2
      · cases h

def work (σ : Sys) : Nat := (σ.map (fun t => t.prog.length)).sum

theorem C14_successor_flat (adm : Admission) (σ σ' : Sys) (h : σ' ∈ successors adm σ)
    (hflat : ∀ t ∈ σ, t.flat = true) : ∀ t ∈ σ', t.flat = true := by
  unfold successors at h
  rw [List.mem_filterMap] at h
  obtain ⟨i, _, hi⟩ := h
  cases hg : σ[i]? with
  | none => simp [hg] at hi
  | some t =>
    simp only [hg, Option.map_eq_some_iff] at hi
    obtain ⟨t', hst, rfl⟩ := hi
    intro x hx
    rcases List.mem_or_eq_of_mem_set hx with hx | hx
    · exact hflat x hx
    · subst hx
      exact flat_step adm σ t x hst (hflat t (List.mem_of_getElem? hg))

/-- **the recursive read deadlocks** (std admission): `Entries::next` before the repair —
thread A = `[acqR, acqR, rel, rel]`, thread B = `[loc, acqW, rel]` (it does something, then asks
for the write lock).  A takes its first read guard, B starts waiting, and nobody can move any
more: A's second `read()` is refused because a writer waits, B is refused because A holds. -/
theorem C14_nested_read_deadlocks :
    let σ0 : Sys := [⟨[.acqR, .acqR, .rel, .rel], []⟩, ⟨[.loc, .acqW, .rel], []⟩]
    ∃ σ1 ∈ successors stdAdm σ0, ∃ σ2 ∈ successors stdAdm σ1, stuck stdAdm σ2 = true := by
  decide

/-- … and the program is indeed not flat, while its repaired form is -/
example : flatFrom 0 [.acqR, .acqR, .rel, .rel] = false ∧ flatFrom 0 [.acqR, .rel, .acqR, .rel] = true := by decide

/-- non-vacuity: readers and a writer with flat programs; the theorem applies to this system -/
example : ∀ t ∈ ([⟨[.acqR, .loc, .rel, .acqR, .rel], []⟩, ⟨[.acqW, .loc, .rel], []⟩, ⟨[.acqR, .rel], []⟩] : Sys),
    t.flat = true := by decide

end CfbVerif.Props.C14
