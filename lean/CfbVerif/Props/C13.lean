import CfbVerif.Props.C12
/-!
# C13 — write failures are reported, not swallowed; a successful flush means durable

Property text: *When a write, seek or flush on the underlying file fails, the API call during which
it fails returns an error (for data still buffered in a handle: the later call that writes it
back); neither that call nor any later call on the same compound file panics or hangs, although
later calls may fail.  If flush on a handle returns Ok, every byte accepted by earlier write calls
on that handle is in the compound file and is read back by a fresh handle - also when an earlier
flush attempt had failed.*

Model: the handle under faults (`Handle/Faults.lean`).  A failed write-back may have written any
part of the window; afterwards the store is *some* `st'` that agrees with the old store outside the
window range (`Outside`).  The theorems quantify over every such `st'`.
Partial (explored by fault enumeration, not proved): the structural half — a failure inside
directory/FAT updates (`set_len`, migration between mini and regular chains, create/remove).
-/
set_option linter.unusedSimpArgs false
set_option linter.unusedVariables false
namespace CfbVerif.Props.C13
open CfbVerif.Handle

/-- `st'` differs from `st` at most inside the window range `[off, off + cap)` -/
def Outside (st st' : Bytes) (off cap : Nat) : Prop :=
  st'.take off = st.take off ∧ st'.drop (off + cap) = st.drop (off + cap) ∧ off ≤ st'.length

/-- **errors surface**: a failing phase makes the call return the I/O error (no `catch` in the
handle: `stepF_spec` — either the fault did not fire, or the result is `ioErr`) -/
theorem C13_error_surfaces (h : H) (st : Bytes) (hi : Inv h st) (ft : Fault) (op : HOp) :
    stepF h st ft op = step h st op ∨ (stepF h st ft op).2.2 = ioErr := by
  rcases stepF_spec h st hi ft op with he | ⟨herr, _⟩
  · exact Or.inl he
  · exact Or.inr herr

/-- **the dirty marker survives a failed write-back** and the window is untouched -/
theorem C13_dirty_kept (h : H) (st : Bytes) (hd : h.dirty = true) :
    flushChangesF h st .flush = (h, st, false) := by
  simp [flushChangesF, hd]

/-- whatever a failed write-back did inside the window range, the handle is still consistent and
still stands for the same bytes -/
theorem C13_partial_write_harmless (h : H) (st st' : Bytes) (hi : Inv h st) (hd : h.dirty = true)
    (ho : Outside st st' h.off h.win.length) :
    Inv h st' ∧ absContent h st' = absContent h st := by
  obtain ⟨h1, h2, h3⟩ := ho
  have hlen : max st'.length (h.off + h.win.length) = max st.length (h.off + h.win.length) := by
    have a := congrArg List.length h2
    simp only [List.length_drop] at a
    omega
  refine ⟨⟨hi.pos_le, hi.cap_le, hi.data_le, hi.min_le, h3, by rw [hlen]; exact hi.total, ?_⟩, ?_⟩
  · intro hc; rw [hd] at hc; cases hc
  · simp only [absContent, h1, h2]

/-- **a successful flush means durable** — also after failed attempts: however many write-backs
failed before and whatever they left inside the window range, once `flush` succeeds the compound
file holds exactly the byte vector the handle stands for (every accepted write included), which is
what a fresh handle reads -/
theorem C13_flush_ok_durable (h : H) (st st' : Bytes) (hi : Inv h st)
    (ho : h.dirty = true → Outside st st' h.off h.win.length) (hclean : h.dirty = false → st' = st) :
    (flushChanges h st').2 = absContent h st := by
  by_cases hd : h.dirty = true
  · have hp := C13_partial_write_harmless h st st' hi hd (ho hd)
    rw [(flushChanges_spec h st' hp.1).content, hp.2]
  · have hd' : h.dirty = false := by simpa using hd
    rw [hclean hd', (flushChanges_spec h st hi).content]

/-- the accepted bytes of a `write` are in the vector the handle stands for (from C06): so by the
theorem above they are in the file after the next successful flush -/
theorem C13_accepted_bytes (h : H) (st : Bytes) (hi : Inv h st) (bs : Bytes) :
    Vec.Step (abs h st) (.write bs) (write h st bs).2.2 (abs (write h st bs).1 (write h st bs).2.1) :=
  (write_refines h st hi bs).2

/-! ### witness for the defect (before the repair `flush_changes` dropped the marker first):
one failed flush, then a flush that does nothing would have returned Ok with the data lost.
In the repaired model the second flush writes: -/
example :
    let h : H := ⟨3, [7, 8, 9], 1024, 3, 1024, 0, true⟩
    let r1 := stepF h [] .flush .flush
    let r2 := stepF r1.1 r1.2.1 .none .flush
    r1.2.2 = ioErr ∧ r1.1.dirty = true ∧ r2.2.2 = .unit ∧ r2.2.1 = [7, 8, 9] := by decide

end CfbVerif.Props.C13
