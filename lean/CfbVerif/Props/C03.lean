import CfbVerif.Spec.Consts
import CfbVerif.Phys.Mini
import CfbVerif.Phys.Api
import CfbVerif.Spec.Check
import CfbVerif.Props.C15
import CfbVerif.Phys.ApiInv
import CfbVerif.Props.C01
import CfbVerif.Phys.NoShare
import CfbVerif.Phys.NoShareMini
import CfbVerif.Phys.NoLeak
import CfbVerif.Phys.NoLeakMini
import CfbVerif.Phys.Marks
import CfbVerif.Phys.ChainLen
import CfbVerif.Phys.LogRange
import CfbVerif.Phys.MiniLen
/-!
# C03 — every produced image is a well-formed MS-CFB file by an independent checker

Property text: *After any history of successful operations the byte image satisfies the MS-CFB
structural rules as judged by a checker that shares no code with the library: header fields and
sector counts match the actual chains; FAT and DIFAT sectors are marked as such; every sector and
every mini sector belongs to at most one chain and every non-free one belongs to some owner; each
stream's chain length matches its size and its placement obeys the 4096-byte mini-stream cutoff;
each storage's children form a search tree under CFB name order with no two adjacent red nodes;
stream entries carry no CLSID or timestamps, unallocated entries are blank, and the file length is a
whole number of sectors.*

The checker is `CfbVerif.Spec.check` (own parser; rule list above).  It judges, after every call of
every generated history, the image rendered by the byte-exact allocation model — which the
lock-step shows equal to the real file — and real snapshots directly.

Proved here are the allocator facts behind "at most one chain" and "marked as such":
* `C03_handed_out_was_free`: `allocate_sector` never hands out a sector that some chain owns: the
  sector comes from the free list, where every entry's FAT cell is FREE (`FatInv`), or is brand new;
* `C03_extension_new`: with an empty free list (and room in the last FAT sector) the new sector is
  the first one beyond the file, the file grows by exactly one sector and the invariant is kept;
* `C03_fat_sector_marked`: a FAT sector added by `append_fat_sector` is entered in the DIFAT and
  marked FATSECT in the FAT;
* `C03_no_shared_sector` (from `Phys/NoShare.lean`): after **every** history of stream-level
  operations (`allocate_dir_entry`, create, `write_data_to_stream`, `resize_stream`, remove, reopen —
  the operations `physOf` composes, with the stream lengths carried along) on a fresh file, no two
  FAT cells point at the same sector, no cell points at a FREE sector, and the first sectors of the
  directory, the MiniFAT, the mini stream and of every stream of at least 4096 bytes are distinct,
  in use and pointed at by nothing; `C03_chains_disjoint`: hence the chains that start there are
  pairwise disjoint and never enter free space — "every sector belongs to at most one chain".
  `C03_no_shared_mini_sector` / `C03_mini_chains_disjoint` (`Phys/NoShareMini.lean`): the same for
  the MiniFAT and the first mini sectors of all streams below 4096 bytes.  (The MiniFAT can shrink, so
  its range hypothesis is asked of every state between operations, `MiniBounded`; within an
  operation releases come before allocations.)
  `C03_every_used_sector_owned_once`, `C03_owner_walks_succeed` (`Phys/Chains.lean`, `Phys/NoLeak.lean`):
  in the same states every FAT cell that says END or holds a pointer lies on the chain of exactly
  one owner (no leaks, no sharing), and the library's chain walk from every owner's start sector
  succeeds and returns that chain, without repetition.
  `C03_every_used_mini_sector_owned_once`, `C03_mini_owner_walks_succeed` (`Phys/NoLeakMini.lean`):
  the same for the MiniFAT, the mini sectors and the streams below 4096 bytes.
  `C03_table_sectors_marked` (`Phys/Marks.lean`, for every **API** history): a FAT cell says FATSECT
  exactly for the sectors the DIFAT lists, DIFSECT exactly for the DIFAT sectors, otherwise FREE, END
  or a sector number.  `C03_partition`: so every sector of the file is exactly one of — free and on
  the free list; a FAT sector listed in the DIFAT; a DIFAT sector; a member of exactly one owner's
  chain.
  What is *not* proved is the step from the API to that machine: that the lengths `physOf` hands to
  the stream operations are the directory's stream lengths (lock-stepped, and judged by
  `Spec.check` on every image of the campaign);
* search-tree order and red-red freedom of every sibling tree after every history are theorems of
  the directory model (`Props.C01.C01_reachable`, listed among this property's obligations).
-/
namespace CfbVerif.Props.C03
open CfbVerif.Phys CfbVerif.Raw

theorem C03_handed_out_was_free {p p' : P} {id : Nat} {k : Init} (inv : FatInv p)
    (hfree : p.free ≠ []) (h : allocateSector p k = .ok (p', id)) :
    p.fat[id]? = some FREE ∧ p'.fat[id]? = some END ∧ FatInv p' := by
  have r := allocateSector_reuse inv hfree h
  refine ⟨r.2.1, ?_, r.2.2.2.2.2⟩
  rw [r.2.2.2.2.1]
  have hlt : id < p.fat.size := by
    rcases Nat.lt_or_ge id p.fat.size with hc | hc
    · exact hc
    · have := r.2.1; rw [Array.getElem?_eq_none hc] at this; cases this
  simp [hlt]

/-- the extension branch without a FAT append -/
theorem C03_extension_new {p p' : P} {id : Nat} {k : Init} (inv : FatInv p)
    (hfree : p.free = []) (hroom : p.fat.size % p.epsec ≠ 0) (h : allocateSector p k = .ok (p', id)) :
    id = p.numSectors ∧ p'.numSectors = p.numSectors + 1 ∧ p'.fat = p.fat.push END ∧ FatInv p' := by
  unfold allocateSector at h
  simp only [hfree, List.getLast?_nil, if_neg hroom, pure, bind, Outcome.bind] at h
  cases h1 : setFat p p.fat.size END with
  | err e => simp [h1] at h
  | panic s => simp [h1] at h
  | hang s => simp [h1] at h
  | ok p1 =>
    simp only [h1] at h
    cases h2 : initSector p1 p.fat.size k with
    | err e => simp [h2] at h
    | panic s => simp [h2] at h
    | hang s => simp [h2] at h
    | ok p2 =>
      simp only [h2] at h
      have hp1 : p1 = { p with fat := p.fat.push END } := by
        rcases setFat_ok h1 with ⟨_, he⟩ | ⟨hl, _⟩
        · exact he
        · omega
      subst hp1
      have hp2 : p2 = { p with fat := p.fat.push END, numSectors := p.numSectors + 1,
                               sectors := p.sectors.push (zeroSector p.S) } := by
        rcases initSector_ok h2 with ⟨_, he⟩ | ⟨hl, _⟩
        · exact he
        · simp only at hl; have := inv.size; omega
      subst hp2
      cases h
      refine ⟨inv.size, rfl, rfl, ?_⟩
      refine ⟨by simp [inv.size], by simp [inv.secs], ?_, ?_⟩
      · intro i hi; simp [hfree] at hi
      · simp [hfree]

theorem C03_fat_sector_marked {p p' : P} (h : appendFatSector p = .ok p') :
    p'.difat.take (p.difat.length + 1) = p.difat ++ [p.fat.size] ∧
    p'.fat[p.fat.size]? = some FATSECT := by
  unfold appendFatSector at h
  simp only [bind, Outcome.bind, pure] at h
  cases h1 : initSector p p.fat.size .fat with
  | err e => simp [h1] at h
  | panic s => simp [h1] at h
  | hang s => simp [h1] at h
  | ok p1 =>
    simp only [h1] at h
    have hf1 : p1.fat = p.fat ∧ p1.difat = p.difat ∧ p1.difatSectorIds = p.difatSectorIds := by
      rcases initSector_ok h1 with ⟨_, he⟩ | ⟨_, he⟩ <;> subst he <;> exact ⟨rfl, rfl, rfl⟩
    cases h2 : setFat { p1 with difat := p1.difat ++ [p.fat.size] } p.fat.size FATSECT with
    | err e => simp [h2] at h
    | panic s => simp [h2] at h
    | hang s => simp [h2] at h
    | ok p2 =>
      simp only [h2] at h
      have hp2 : p2.fat = p.fat.push FATSECT ∧ p2.difat = p.difat ++ [p.fat.size] := by
        rcases setFat_ok h2 with ⟨_, he⟩ | ⟨hl, _⟩
        · subst he; simp [hf1.1, hf1.2.1]
        · have hh : p.fat.size < p1.fat.size := hl
          rw [hf1.1] at hh; omega
      split at h
      · cases h
        refine ⟨by rw [hp2.2]; exact List.take_of_length_le (by simp), by rw [hp2.1]; simp⟩
      · split at h
        · -- a new DIFAT sector is added too: one more `set_fat` beyond the new FAT sector
          cases h3 : initSector p2 p2.fat.size .difat with
          | err e => simp [h3] at h
          | panic s => simp [h3] at h
          | hang s => simp [h3] at h
          | ok p3 =>
            simp only [h3] at h
            have hf3 : p3.fat = p2.fat ∧ p3.difat = p2.difat := by
              rcases initSector_ok h3 with ⟨_, he⟩ | ⟨_, he⟩ <;> subst he <;> exact ⟨rfl, rfl⟩
            cases h4 : setFat p3 p2.fat.size DIFSECT with
            | err e => simp [h4] at h
            | panic s => simp [h4] at h
            | hang s => simp [h4] at h
            | ok p4 =>
              simp only [h4] at h
              cases h
              have hp4 : p4.fat = p2.fat.push DIFSECT ∧ p4.difat = p2.difat := by
                rcases setFat_ok h4 with ⟨_, he⟩ | ⟨hl, _⟩
                · subst he; simp [hf3.1, hf3.2]
                · rw [hf3.1] at hl; omega
              refine ⟨by rw [hp4.2, hp2.2]; exact List.take_of_length_le (by simp), ?_⟩
              simp only [hp4.1, hp2.1]
              rw [Array.getElem?_push_lt (by simp)]
              simp
        · cases h
          refine ⟨by rw [hp2.2]; exact List.take_of_length_le (by simp), by rw [hp2.1]; simp⟩

/-- **no sector is shared**, for every history of the stream-level operations -/
theorem C03_no_shared_sector (v4 : Bool) (ops : List GOp) :
    let g := grun { p := Phys.create v4, L := fun _ => 0 } ops
    g.p.fat.size ≤ MAXREG + 1 →
    Inv g.p ∧ NSH g.p.fat (heads g.p g.L) :=
  fun hb => let j := noShare_reachable v4 ops hb; ⟨j.inv, j.ns⟩

/-- **chains are pairwise disjoint and stay out of free space**, in every such state -/
theorem C03_chains_disjoint (v4 : Bool) (ops : List GOp) :
    let g := grun { p := Phys.create v4, L := fun _ => 0 } ops
    g.p.fat.size ≤ MAXREG + 1 →
    ∀ h1 ∈ heads g.p g.L, ∀ h2 ∈ heads g.p g.L, ∀ x,
      Reach g.p.fat h1 x → (Reach g.p.fat h2 x → h1 = h2) ∧ (∃ w, g.p.fat[x]? = some w ∧ w ≠ FREE) := by
  intro g hb h1 m1 h2 m2 x r1
  have n := (noShare_reachable v4 ops hb).ns
  exact ⟨fun r2 => n.disjoint m1 m2 r1 r2, n.reach_used m1 r1⟩

/-- a handle call's store operations keep that state when they start from the stream's length -/
theorem C03_handle_call_keeps (slot : Nat) (log : List StoreOp) {p p' : P} {L : Nat → Nat}
    (h : applyLogPhys p slot (L slot) log = .ok p') (j : JJ p L) (hb : p'.fat.size ≤ MAXREG + 1) :
    JJ p' (upd L slot (lenAfter (L slot) log)) := jj_applyLogPhys slot log h j hb

/-- **no mini sector is shared**, for every history of the stream-level operations -/
theorem C03_no_shared_mini_sector (v4 : Bool) (ops : List GOp) :
    MiniBounded { p := Phys.create v4, L := fun _ => 0 } ops →
    let g := grun { p := Phys.create v4, L := fun _ => 0 } ops
    NSH g.p.miniFat (mregs g.p.starts g.L) :=
  fun hb => (noShareMini_reachable v4 ops hb).ns

/-- **mini chains are pairwise disjoint and stay out of free mini sectors** -/
theorem C03_mini_chains_disjoint (v4 : Bool) (ops : List GOp)
    (hb : MiniBounded { p := Phys.create v4, L := fun _ => 0 } ops) :
    let g := grun { p := Phys.create v4, L := fun _ => 0 } ops
    ∀ h1 ∈ mregs g.p.starts g.L, ∀ h2 ∈ mregs g.p.starts g.L, ∀ x,
      Reach g.p.miniFat h1 x → (Reach g.p.miniFat h2 x → h1 = h2) ∧ (∃ w, g.p.miniFat[x]? = some w ∧ w ≠ FREE) := by
  intro g h1 m1 h2 m2 x r1
  have n := (noShareMini_reachable v4 ops hb).ns
  exact ⟨fun r2 => n.disjoint m1 m2 r1 r2, n.reach_used m1 r1⟩

/-- **every sector in use belongs to exactly one owner** -/
theorem C03_every_used_sector_owned_once (v4 : Bool) (ops : List GOp) :
    let g := grun { p := Phys.create v4, L := fun _ => 0 } ops
    g.p.fat.size ≤ MAXREG + 1 →
    ∀ x w : Nat, g.p.fat[x]? = some w → (w = END ∨ w ≤ MAXREG) →
      ∃ h ∈ heads g.p g.L, (∃ l, IsChain g.p.fat h l ∧ x ∈ l) ∧
        ∀ h' ∈ heads g.p g.L, (∃ l', IsChain g.p.fat h' l' ∧ x ∈ l') → h' = h := by
  intro g hb x w hx hw
  have j := noLeak_reachable v4 ops hb
  obtain ⟨h, hh, l, cl, hxl⟩ := j.nc.cov x w hx hw
  refine ⟨h, hh, ⟨l, cl, hxl⟩, ?_⟩
  intro h' hh' ⟨l', cl', hxl'⟩
  exact IsChain.disjoint j.nc.ns hh' hh cl' cl hxl' hxl

/-- **the chain walk of every owner succeeds**, returns a list without repetition that begins at
the owner's start sector, and every sector on it is in use -/
theorem C03_owner_walks_succeed (v4 : Bool) (ops : List GOp) :
    let g := grun { p := Phys.create v4, L := fun _ => 0 } ops
    g.p.fat.size ≤ MAXREG + 1 →
    ∀ h ∈ heads g.p g.L, ∃ l, chainIds g.p h = .ok l ∧ l.Nodup ∧ l.head? = some h ∧
      ∀ x ∈ l, ∃ w, g.p.fat[x]? = some w ∧ w ≠ FREE := by
  intro g hb h hh
  have j := noLeak_reachable v4 ops hb
  obtain ⟨l, cl⟩ := j.nc.ch h hh
  refine ⟨l, chainFrom_of_isChain j.nc.ns hh cl, cl.nodup j.nc.ns hh, ?_, cl.used⟩
  obtain ⟨t, e⟩ := cl.head
  rw [e]; rfl

/-- **every mini sector in use belongs to exactly one stream below the cutoff** -/
theorem C03_every_used_mini_sector_owned_once (v4 : Bool) (ops : List GOp)
    (hb : MiniBounded { p := Phys.create v4, L := fun _ => 0 } ops) :
    let g := grun { p := Phys.create v4, L := fun _ => 0 } ops
    ∀ x w : Nat, g.p.miniFat[x]? = some w → (w = END ∨ w ≤ MAXREG) →
      ∃ h ∈ mregs g.p.starts g.L, (∃ l, IsChain g.p.miniFat h l ∧ x ∈ l) ∧
        ∀ h' ∈ mregs g.p.starts g.L, (∃ l', IsChain g.p.miniFat h' l' ∧ x ∈ l') → h' = h := by
  intro g x w hx hw
  have j := noLeakMini_reachable v4 ops hb
  obtain ⟨h, hh, l, cl, hxl⟩ := j.nc.cov x w hx hw
  refine ⟨h, hh, ⟨l, cl, hxl⟩, ?_⟩
  intro h' hh' ⟨l', cl', hxl'⟩
  exact IsChain.disjoint j.nc.ns hh' hh cl' cl hxl' hxl

/-- **the mini chain walk of every stream below the cutoff succeeds** and returns a list without
repetition that begins at the stream's start mini sector -/
theorem C03_mini_owner_walks_succeed (v4 : Bool) (ops : List GOp)
    (hb : MiniBounded { p := Phys.create v4, L := fun _ => 0 } ops) :
    let g := grun { p := Phys.create v4, L := fun _ => 0 } ops
    ∀ h ∈ mregs g.p.starts g.L, ∃ l, miniChainIds g.p h = .ok l ∧ l.Nodup ∧ l.head? = some h := by
  intro g h hh
  have j := noLeakMini_reachable v4 ops hb
  obtain ⟨l, cl⟩ := j.nc.ch h hh
  refine ⟨l, chainFrom_of_isChain j.nc.ns hh cl, cl.nodup j.nc.ns hh, ?_⟩
  obtain ⟨t, e⟩ := cl.head
  rw [e]; rfl

/-- **FAT and DIFAT sectors are marked as such, and nothing else is** — after every history of API
calls -/
theorem C03_table_sectors_marked (v4 : Bool) (maxBuf : Nat) (ops : List Dir.HOp)
    (hb : (prun (PState.create v4 maxBuf) ops).p.fat.size ≤ MAXREG + 1) :
    let p := (prun (PState.create v4 maxBuf) ops).p
    (∀ i : Nat, p.fat[i]? = some FATSECT ↔ i ∈ p.difat) ∧
    (∀ i : Nat, p.fat[i]? = some DIFSECT ↔ i ∈ p.difatSectorIds) ∧
    (∀ i v : Nat, p.fat[i]? = some v → v = FREE ∨ v = END ∨ v ≤ MAXREG ∨ v = FATSECT ∨ v = DIFSECT) :=
  let m := mk_reachable v4 maxBuf ops hb
  ⟨m.fatMark, m.difMark, m.kinds⟩

/-- **the sectors of the file are partitioned**: free (and on the free list), FAT sector (listed in
the DIFAT), DIFAT sector (listed), or on the chain of exactly one owner -/
theorem C03_partition (v4 : Bool) (ops : List GOp) :
    let g := grun { p := Phys.create v4, L := fun _ => 0 } ops
    g.p.fat.size ≤ MAXREG + 1 →
    ∀ x v : Nat, g.p.fat[x]? = some v →
      (v = FREE ∧ x ∈ g.p.free) ∨ (v = FATSECT ∧ x ∈ g.p.difat) ∨ (v = DIFSECT ∧ x ∈ g.p.difatSectorIds) ∨
      ((v = END ∨ v ≤ MAXREG) ∧ ∃ h ∈ heads g.p g.L, (∃ l, IsChain g.p.fat h l ∧ x ∈ l) ∧
        ∀ h' ∈ heads g.p g.L, (∃ l', IsChain g.p.fat h' l' ∧ x ∈ l') → h' = h) := by
  intro g hb x v hx
  obtain ⟨m, inv⟩ := mk_grun_reachable v4 ops hb
  rcases m.kinds x v hx with rfl | hv | hv | rfl | rfl
  · exact Or.inl ⟨rfl, inv.complete x hx⟩
  · exact Or.inr (Or.inr (Or.inr ⟨Or.inl hv, C03_every_used_sector_owned_once v4 ops hb x v hx (Or.inl hv)⟩))
  · exact Or.inr (Or.inr (Or.inr ⟨Or.inr hv, C03_every_used_sector_owned_once v4 ops hb x v hx (Or.inr hv)⟩))
  · exact Or.inr (Or.inl ⟨rfl, (m.fatMark x).mp hx⟩)
  · exact Or.inr (Or.inr (Or.inl ⟨rfl, (m.difMark x).mp hx⟩))

/-- **each stream's chain length matches its size**: after every history of stream-level
operations in which writes start at or before the end of their stream (which is what a stream
handle does), every stream of at least 4096 bytes has a start sector, the chain walk from it
succeeds, and it returns exactly `⌈length / sector size⌉` sectors -/
theorem C03_chain_length_matches_size (v4 : Bool) (ops : List GOp) :
    let g0 : G := { p := Phys.create v4, L := fun _ => 0 }
    let g := grun g0 ops
    WritesInRange g0 ops → g.p.fat.size ≤ MAXREG + 1 →
    ∀ slot start : Nat, (slot, start) ∈ g.p.starts → CUTOFF ≤ g.L slot →
      start ≠ END ∧ ∃ l, chainIds g.p start = .ok l ∧ l.length = (g.L slot + g.p.S - 1) / g.p.S := by
  intro g0 g hw hb slot start hm hc
  have j := regLen_reachable v4 ops hw hb
  obtain ⟨hne, l, cl, hl⟩ := j.rl (slot, start) hm hc
  refine ⟨hne, l, chainFrom_of_isChain j.jc.nc.ns (h := start) ?_ cl, hl⟩
  refine List.mem_append_right _ ?_
  unfold regs
  refine List.mem_map.mpr ⟨(slot, start), List.mem_filter.mpr ⟨hm, ?_⟩, rfl⟩
  have hne' : start ≠ END := hne
  show (decide (CUTOFF ≤ g.L slot) && (start != END)) = true
  simp [hc, hne']

/-- **each mini stream's chain length matches its size**: in the same histories (with the MiniFAT
within the range of mini sector numbers between operations), a stream below 4096 bytes has no start
sector when it is empty, and otherwise the walk through the MiniFAT from its start succeeds and
returns exactly `⌈length / 64⌉` mini sectors -/
theorem C03_mini_chain_length_matches_size (v4 : Bool) (ops : List GOp) :
    let g0 : G := { p := Phys.create v4, L := fun _ => 0 }
    let g := grun g0 ops
    WritesInRange g0 ops → MiniBounded g0 ops → g.p.fat.size ≤ MAXREG + 1 →
    ∀ slot start : Nat, (slot, start) ∈ g.p.starts → g.L slot < CUTOFF →
      (g.L slot = 0 → start = END) ∧
      (0 < g.L slot → start ≠ END ∧ ∃ l, miniChainIds g.p start = .ok l ∧ l.length = (g.L slot + MINI - 1) / MINI) := by
  intro g0 g hw hm hb slot start hmem hc
  have j := lengths_reachable v4 ops hw hm hb
  obtain ⟨h0, h1⟩ := j.ml (slot, start) hmem hc
  refine ⟨h0, fun hp => ?_⟩
  obtain ⟨hne, l, cl, hl⟩ := h1 hp
  refine ⟨hne, l, chainFrom_of_isChain j.jm.nc.ns (h := start) ?_ cl, hl⟩
  unfold mregs
  refine List.mem_map.mpr ⟨(slot, start), List.mem_filter.mpr ⟨hmem, ?_⟩, rfl⟩
  have hne' : start ≠ END := hne
  show (decide (g.L slot < CUTOFF) && (start != END)) = true
  simp [hc, hne']

/-- the same with the mini chains and their lengths: a handle call keeps the whole allocation-level
invariant `JA` (regular chains, mini chains, sector sizes, both kinds of chain length) -/
theorem C03_handle_call_keeps_all_lengths (h : Handle.H) (st : Handle.Bytes) (hi : Handle.Inv h st) (op : Handle.DOp)
    {p p' : P} {L : Nat → Nat} {slot : Nat} (hL : L slot = st.length)
    (ha : applyLogPhys p slot (L slot) (stepDL h st op) = .ok p') (j : JA p L)
    (hm : LogMiniBounded slot p (L slot) (stepDL h st op)) (hb : p'.fat.size ≤ MAXREG + 1) :
    JA p' (upd L slot (Handle.stepD h st op).2.1.length) :=
  ja_handleCall h st hi op hL ha j hm hb

/-- **a stream handle's calls keep that state**: in every state that satisfies the handle invariant
(C06), every write the call issues starts at or before the end of the stream, and its store
operations — replayed on the allocation level from the stream's length — keep no-sharing, no-leak,
whole sectors and the chain lengths; the stream's new length is the length of the content the
handle model computes -/
theorem C03_handle_call_keeps_chain_lengths (h : Handle.H) (st : Handle.Bytes) (hi : Handle.Inv h st) (op : Handle.DOp)
    {p p' : P} {L : Nat → Nat} {slot : Nat} (hL : L slot = st.length)
    (ha : applyLogPhys p slot (L slot) (stepDL h st op) = .ok p') (j : JR p L) (hb : p'.fat.size ≤ MAXREG + 1) :
    LogInRange st.length (stepDL h st op) ∧ JR p' (upd L slot (Handle.stepD h st op).2.1.length) :=
  ⟨stepDL_inRange h st hi op, jr_handleCall h st hi op hL ha j hb⟩

/-- **every sector of the file is a whole sector**, after every history of API calls -/
theorem C03_sectors_whole (v4 : Bool) (maxBuf : Nat) (ops : List Dir.HOp) :
    let p := (prun (PState.create v4 maxBuf) ops).p
    ∀ (i : Nat) (sec : ByteArray), p.sectors[i]? = some sec → sec.size = p.S :=
  ss_reachable v4 maxBuf ops

/-- the hypotheses are met by a history that creates three streams (regular, regular, mini), frees
one and reuses its sectors: heads are the directory (1), the mini stream (10), the MiniFAT (11) and
stream 2 (12) -/
def exOps : List GOp :=
  [.create 1, .resize 1 5000, .create 2, .resize 2 9000, .free 1, .create 3, .resize 3 100]

example : (grun { p := Phys.create false, L := fun _ => 0 } exOps).p.fat.size ≤ MAXREG + 1 := by decide
example : MiniBounded { p := Phys.create false, L := fun _ => 0 } exOps := miniBounded_of_B _ _ (by decide)
example : mregs (grun { p := Phys.create false, L := fun _ => 0 } exOps).p.starts
    (grun { p := Phys.create false, L := fun _ => 0 } exOps).L = [0] := by decide
example : heads (grun { p := Phys.create false, L := fun _ => 0 } exOps).p
    (grun { p := Phys.create false, L := fun _ => 0 } exOps).L = [1, 11, 10, 12] := by decide

/-- a history with writes: one appends to a regular stream across a sector boundary, one takes a
mini stream over the cutoff (migration) -/
def exOps2 : List GOp :=
  exOps ++ [.write 2 9000 (List.replicate 300 7), .write 3 60 (List.replicate 4100 5)]

example : WritesInRange { p := Phys.create false, L := fun _ => 0 } exOps2 := writesInRange_of_B _ _ (by decide +kernel)
example : (grun { p := Phys.create false, L := fun _ => 0 } exOps2).p.fat.size ≤ MAXREG + 1 := by decide +kernel
example : (grun { p := Phys.create false, L := fun _ => 0 } exOps2).L 2 = 9300 ∧
    (grun { p := Phys.create false, L := fun _ => 0 } exOps2).L 3 = 4160 := by decide +kernel

/-- … and one that leaves a mini stream of 300 bytes (5 mini sectors) beside the regular ones -/
def exOps3 : List GOp := exOps ++ [.write 3 100 (List.replicate 200 1), .resize 2 5000]

example : WritesInRange { p := Phys.create false, L := fun _ => 0 } exOps3 := writesInRange_of_B _ _ (by decide +kernel)
example : MiniBounded { p := Phys.create false, L := fun _ => 0 } exOps3 := miniBounded_of_B _ _ (by decide +kernel)
example : (grun { p := Phys.create false, L := fun _ => 0 } exOps3).p.fat.size ≤ MAXREG + 1 := by decide +kernel
example : (grun { p := Phys.create false, L := fun _ => 0 } exOps3).L 3 = 300 ∧
    (match miniChainIds (grun { p := Phys.create false, L := fun _ => 0 } exOps3).p
      (startOf (grun { p := Phys.create false, L := fun _ => 0 } exOps3).p 3) with
      | .ok l => l.length
      | _ => 0) = 5 := by
  decide +kernel

end CfbVerif.Props.C03
