import CfbVerif.Spec.Consts
import CfbVerif.Raw.Safe
/-!
# C05 — reading arbitrary bytes never panics, hangs or exhausts memory

Property text: *For any byte string whatsoever, opening it (permissive or strict) and then
performing any sequence of read-only calls - walking, listing, entry lookup, opening every stream
and reading or seeking in it - terminates, stays within memory proportional to the input, and
yields Ok or an error value; it never panics and never loops forever.*

Proved here, for **every** byte string and both modes: `open` (header, DIFAT loop, FAT load and
trimming, `Allocator::validate`, directory chain loop, `Directory::validate`, MiniFAT chain walk
and load, `MiniAllocator::validate`) reaches none of its `panic`/`hang` exits
(`C05_open_total`), and every chain walk on the validated FAT terminates without the code's
missing general cycle check ever mattering (`C05_chain_walk_total`: after the pointee check,
"back at the first sector" is the only possible cycle).  Seeks with extreme arguments: C06.
Not proved (lock-step on malformed inputs only): walk / lookup / whole-stream reads on the
validated tables.
-/
namespace CfbVerif.Props.C05
open CfbVerif.Raw

theorem liftE_ok {α : Type} {x : E α} {a : α} (h : liftE x = .ok a) : x = .ok a := by
  cases x with
  | ok b => simp only [liftE, Outcome.ok.injEq] at h; rw [h]
  | error k => simp [liftE] at h

theorem sectorLen_pos (h : Header) : 0 < h.sectorLen := by
  unfold Header.sectorLen; split <;> exact Nat.pow_pos (by decide)

theorem safe_openTail (m : Mode) (img : Img) (h : Header) (numSectors : Nat) (difatIds difat : List Nat) :
    (openTail m img h numSectors difatIds difat).Safe := by
  unfold openTail
  simp only [bind, pure]
  split
  · trivial
  · apply safe_bind (safe_liftE _)
    intro fat0 _
    apply safe_bind (safe_liftE _)
    intro fat hfat
    have hinj : RegInj fat := regInj_of_validateFat (liftE_ok hfat)
    apply safe_bind
    · apply safe_dirLoop <;> simp
    · intro entries _
      apply safe_bind (safe_validateDir _ _)
      intro _ _
      apply safe_bind (safe_chainFrom fat hinj _)
      intro mfChain _
      split
      · trivial
      · apply safe_bind
        · apply safe_readChainU32s _ _ (sectorLen_pos h)
          simp only [Nat.zero_add, List.size_toArray]
          exact Nat.mul_div_le _ _
        · intro mf0 _
          apply safe_bind (safe_liftE _)
          intro mf _
          trivial

/-- **open never panics and never hangs**, for every byte string, in both modes -/
theorem C05_open_total (m : Mode) (img : Img) : (openImg m img).Safe := by
  unfold openImg
  simp only [bind, pure]
  split
  · trivial
  · apply safe_bind (safe_liftE _)
    intro h _
    split
    · trivial
    · split
      · trivial
      · apply safe_bind
        · apply safe_difatLoop <;> simp
        · intro p _
          obtain ⟨difatIds, difat0⟩ := p
          simp only
          split
          · trivial
          · exact safe_openTail _ _ _ _ _ _

/-- **chain walks terminate**: on any FAT that passed the pointee check (`Allocator::validate`,
`MiniAllocator::validate`), walking from *any* start sector ends or errors within `len + 1` steps,
although `Chain::new` / `MiniChain::new` only test for a return to the first id. -/
theorem C05_chain_walk_total (fat : Array Nat) (h : checkPointees fat 0 [] = .ok ()) (start : Nat) :
    (chainFrom fat start).Safe :=
  safe_chainFrom fat (regInj_of_checkPointees fat h) start

/-- the DFS of `Directory::validate` terminates and never indexes out of range, whatever the links -/
theorem C05_validate_dir_total (m : Mode) (dir : Array DirEntry) : (validateDir m dir).Safe :=
  safe_validateDir m dir

/-! ### the exits exist (the theorem is not vacuous): with the guards removed the model does hang -/
example : chainLoop #[0] 7 2 0 [] = .hang "chain walk" := by rfl

end CfbVerif.Props.C05
