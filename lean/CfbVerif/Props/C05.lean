import CfbVerif.Spec.Consts
import CfbVerif.Raw.Safe
import CfbVerif.Raw.ReadSafe
/-!
# C05 — reading arbitrary bytes never panics, hangs or exhausts memory

Property text: *For any byte string whatsoever, opening it (permissive or strict) and then
performing any sequence of read-only calls - walking, listing, entry lookup, opening every stream
and reading or seeking in it - terminates, stays within memory proportional to the input, and
yields Ok or an error value; it never panics and never loops forever.*

Proved here, for **every** byte string and both modes: `open` (header, DIFAT loop, FAT load and
trimming, `Allocator::validate`, directory chain loop, `Directory::validate`, MiniFAT chain walk
and load, `MiniAllocator::validate`) reaches none of its `panic`/`hang` exits
(`C05_open_total`), and every chain walk on the validated FAT terminates without the code's
missing general cycle check ever mattering (`C05_chain_walk_total`: after the pointee check,
"back at the first sector" is the only possible cycle).  Seeks with extreme arguments: C06.
Not proved (lock-step on malformed inputs only): walk / lookup / whole-stream reads on the
validated tables.
-/
namespace CfbVerif.Props.C05
open CfbVerif.Raw

theorem liftE_ok {α : Type} {x : E α} {a : α} (h : liftE x = .ok a) : x = .ok a := by
  cases x with
  | ok b => simp only [liftE, Outcome.ok.injEq] at h; rw [h]
  | error k => simp [liftE] at h

theorem sectorLen_pos (h : Header) : 0 < h.sectorLen := by
  unfold Header.sectorLen; split <;> exact Nat.pow_pos (by decide)

theorem safe_openTail (m : Mode) (img : Img) (h : Header) (numSectors : Nat) (difatIds difat : List Nat) :
    (openTail m img h numSectors difatIds difat).Safe := by
  unfold openTail
  simp only [bind, pure]
  split
  · trivial
  · apply safe_bind (safe_liftE _)
    intro fat0 _
    apply safe_bind (safe_liftE _)
    intro fat hfat
    have hinj : RegInj fat := regInj_of_validateFat (liftE_ok hfat)
    apply safe_bind
    · apply safe_dirLoop <;> simp
    · intro entries _
      apply safe_bind (safe_validateDir _ _)
      intro _ _
      apply safe_bind (safe_chainFrom fat hinj _)
      intro mfChain _
      split
      · trivial
      · apply safe_bind
        · apply safe_readChainU32s _ _ (sectorLen_pos h)
          simp only [Nat.zero_add, List.size_toArray]
          exact Nat.mul_div_le _ _
        · intro mf0 _
          apply safe_bind (safe_liftE _)
          intro mf _
          trivial

/-- **open never panics and never hangs**, for every byte string, in both modes -/
theorem C05_open_total (m : Mode) (img : Img) : (openImg m img).Safe := by
  unfold openImg
  simp only [bind, pure]
  split
  · trivial
  · apply safe_bind (safe_liftE _)
    intro h _
    split
    · trivial
    · split
      · trivial
      · apply safe_bind
        · apply safe_difatLoop <;> simp
        · intro p _
          obtain ⟨difatIds, difat0⟩ := p
          simp only
          split
          · trivial
          · exact safe_openTail _ _ _ _ _ _

/-- **chain walks terminate**: on any FAT that passed the pointee check (`Allocator::validate`,
`MiniAllocator::validate`), walking from *any* start sector ends or errors within `len + 1` steps,
although `Chain::new` / `MiniChain::new` only test for a return to the first id. -/
theorem C05_chain_walk_total (fat : Array Nat) (h : checkPointees fat 0 [] = .ok ()) (start : Nat) :
    (chainFrom fat start).Safe :=
  safe_chainFrom fat (regInj_of_checkPointees fat h) start

/-- the DFS of `Directory::validate` terminates and never indexes out of range, whatever the links -/
theorem C05_validate_dir_total (m : Mode) (dir : Array DirEntry) : (validateDir m dir).Safe :=
  safe_validateDir m dir

/-- **after `open`, every read-only call is total**: on the tables a successful open returned — for
any byte string, in both modes — the walk, every path lookup, every `read_data_from_stream` at any
offset and length on any directory entry, and `read_to_end` through a fresh handle end in `Ok` or
an error value: no unchecked index is out of range, every loop ends within its fuel -/
theorem C05_reads_total (m : Mode) (img : Img) (r : RawState) (ho : openImg m img = .ok r) :
    (walk r).Safe ∧
    (∀ names : List Names.Name, (lookup r names Gen.ROOT_STREAM_ID).Safe) ∧
    (∀ (e : DirEntry) (off n : Nat), (readData r img e off n).Safe) ∧
    (∀ e : DirEntry, (readAll r img e).Safe) := by
  have o := opened_of_open ho
  obtain ⟨V, tr⟩ := dirTree_of_validateDir o.dir
  exact ⟨safe_walk tr, fun names => (safe_lookup tr names _ tr.root).1,
    fun e off n => safe_readData o img e off n, fun e => safe_readAll o img e⟩

/-- what `Directory::validate` establishes, for every directory table it accepts: the reachable
entries form a tree — listed without repetition, every link leads to an entry listed earlier
(`DirTree.fwd`: no cycle) and the link targets are exactly the listed entries other than the root
(`DirTree.perm`: no entry has two parents) -/
theorem C05_validated_directory_is_a_tree (m : Mode) (dir : Array DirEntry) (h : validateDir m dir = .ok ()) :
    ∃ V, DirTree dir V := dirTree_of_validateDir h

/-- a lookup only ever returns an entry of that tree -/
theorem C05_lookup_in_tree (m : Mode) (r : RawState) (h : validateDir m r.dir = .ok ()) :
    ∃ V, DirTree r.dir V ∧ ∀ names c, lookup r names Gen.ROOT_STREAM_ID = .ok (some c) → c ∈ V := by
  obtain ⟨V, tr⟩ := dirTree_of_validateDir h
  exact ⟨V, tr, fun names c hc => (safe_lookup tr names _ tr.root).2 c hc⟩

/-! ### the exits exist (the theorem is not vacuous): with the guards removed the model does hang -/
example : chainLoop #[0] 7 2 0 [] = .hang "chain walk" := by rfl

/-- the premise is met: a two-entry directory (root with one child storage) passes the DFS, and a
directory whose child link points back at the root does not -/
def exEntry (objType child : Nat) : DirEntry :=
  { name := [65], objType := objType, red := false, left := NOSTREAM, right := NOSTREAM, child := child,
    clsid := [], stateBits := 0, ctime := 0, mtime := 0, startSector := END, streamLen := 0 }

example : validateDir .strict #[exEntry Gen.OBJ_TYPE_ROOT 1, exEntry Gen.OBJ_TYPE_STORAGE NOSTREAM] = .ok () := by rfl
example : (match validateDir .strict #[exEntry Gen.OBJ_TYPE_ROOT 1, exEntry Gen.OBJ_TYPE_STORAGE 0] with
    | .ok _ => true
    | _ => false) = false := by rfl

end CfbVerif.Props.C05
