import CfbVerif.Props.C17
import CfbVerif.Props.C01
