/-!
# `Io`: programs over the underlying reader/writer, and their interpreters

* `Prog` — a program that only *reads* the underlying file: the shape of `open`, of lookups (which
  do no I/O at all) and of stream reads.  There is no `catch`: an error of an underlying call can
  only propagate (`?` in the Rust).  `runFaulty` fails the calls a schedule selects.
* `readExact` / `writeAll` — the std loops the library relies on (`read_exact`, `write_all`,
  `io::copy` of the zero filler), run against an oracle that may return short counts or
  `Interrupted`.
-/
namespace CfbVerif.Io

abbrev Bytes := List UInt8

inductive Prog (α : Type) where
  | ret (a : α)
  | fail (msg : String)                       -- a validation error (InvalidData …)
  | readAt (off len : Nat) (k : Bytes → Prog α)   -- seek + read_exact
deriving Inhabited

inductive Res (α : Type) where
  | ok (a : α)
  | err (msg : String)       -- the program's own error
  | ioErr (call : Nat)       -- an injected failure of underlying call number `call`
deriving Repr, DecidableEq

def slice (img : Bytes) (off len : Nat) : Bytes := (img.drop off).take len

/-- fault-free run -/
def runOk {α : Type} (img : Bytes) : Prog α → Res α
  | .ret a => .ok a
  | .fail m => .err m
  | .readAt off len k => runOk img (k (slice img off len))

/-- run with failures: call number `n, n+1, …` fails iff `sched` says so -/
def runFaulty {α : Type} (img : Bytes) (sched : Nat → Bool) : Nat → Prog α → Res α
  | _, .ret a => .ok a
  | _, .fail m => .err m
  | n, .readAt off len k =>
    if sched n then .ioErr n else runFaulty img sched (n + 1) (k (slice img off len))

/-! ## `read_exact` against a chunking oracle -/

inductive Chunk where
  | short (n : Nat)      -- the underlying `read` delivers `min n remaining` bytes (n ≥ 1)
  | interrupted          -- `ErrorKind::Interrupted`: the loop retries
deriving Repr, DecidableEq

/-- `Read::read_exact`: `none` = the oracle ran out (the loop would still be running) -/
def readExact (img : Bytes) : List Chunk → Nat → Nat → Bytes → Option Bytes
  | [], _, len, acc => if len = 0 then some acc else none
  | c :: orc, off, len, acc =>
    if len = 0 then some acc else
    match c with
    | .interrupted => readExact img orc off len acc
    | .short n =>
      let k := min (max n 1) len
      readExact img orc (off + k) (len - k) (acc ++ slice img off k)

/-- `Write::write_all` into a growable byte vector at `off` -/
def writeAll : List Chunk → Bytes → Nat → Bytes → Option Bytes
  | [], file, _, buf => if buf = [] then some file else none
  | c :: orc, file, off, buf =>
    if buf = [] then some file else
    match c with
    | .interrupted => writeAll orc file off buf
    | .short n =>
      let k := min (max n 1) buf.length
      writeAll orc (file.take off ++ buf.take k ++ file.drop (off + k)) (off + k) (buf.drop k)

end CfbVerif.Io
