import CfbVerif.Handle.Model
set_option linter.unusedSimpArgs false
set_option linter.unusedVariables false
namespace CfbVerif.Handle

theorem writeAt_length (st : Bytes) (off : Nat) (bs : Bytes) (h : off ≤ st.length) :
    (writeAt st off bs).length = max st.length (off + bs.length) := by
  simp [writeAt]; omega

theorem take_writeAt (st : Bytes) (off : Nat) (bs : Bytes) (h : off ≤ st.length) :
    (writeAt st off bs).take off = st.take off := by
  simp [writeAt, Nat.min_eq_left h]

theorem readAt_writeAt (st : Bytes) (off : Nat) (bs : Bytes) (h : off ≤ st.length) :
    readAt (writeAt st off bs) off bs.length = bs := by
  simp [readAt, writeAt, Nat.min_eq_left h]

theorem drop_writeAt (st : Bytes) (off : Nat) (bs : Bytes) (h : off ≤ st.length) :
    (writeAt st off bs).drop (off + bs.length) = st.drop (off + bs.length) := by
  unfold writeAt
  rw [List.append_assoc, List.drop_append]
  have h1 : (List.take off st).length = off := by simp [Nat.min_eq_left h]
  rw [h1, List.drop_eq_nil_of_le (by omega), List.nil_append]
  have h2 : off + bs.length - off = bs.length := by omega
  rw [h2, List.drop_append]
  simp

theorem readAt_length (st : Bytes) (off n : Nat) :
    (readAt st off n).length = min n (st.length - off) := by
  simp [readAt]

/-- a clean window laid over the store is the store -/
theorem absContent_clean (h : H) (st : Bytes) (hw : h.win = readAt st h.off h.win.length)
    (hle : h.off + h.win.length ≤ st.length) : absContent h st = st := by
  unfold absContent
  rw [hw]
  simp only [readAt, List.length_take, List.length_drop]
  have : min h.win.length (st.length - h.off) = h.win.length := by omega
  rw [this]
  rw [List.append_assoc]
  have h2 : List.drop (h.off + h.win.length) st = List.drop h.win.length (List.drop h.off st) := by
    rw [List.drop_drop]
  rw [h2, List.take_append_drop, List.take_append_drop]

theorem absContent_length (h : H) (st : Bytes) (hoff : h.off ≤ st.length) :
    (absContent h st).length = max st.length (h.off + h.win.length) := by
  simp [absContent]; omega

structure FlushSpec (h : H) (st : Bytes) (h1 : H) (st1 : Bytes) : Prop where
  inv : Inv h1 st1
  clean : h1.dirty = false
  same : h1 = { h with dirty := false }
  content : st1 = absContent h st
  len : st1.length = h.totalLen

theorem flushChanges_spec (h : H) (st : Bytes) (hi : Inv h st) :
    FlushSpec h st (flushChanges h st).1 (flushChanges h st).2 := by
  unfold flushChanges
  by_cases hd : h.dirty = true
  · simp only [hd, if_true]
    have hl := writeAt_length st h.off h.win hi.off_le
    refine ⟨⟨hi.pos_le, hi.cap_le, hi.data_le, hi.min_le, ?_, ?_, ?_⟩, rfl, rfl, ?_, ?_⟩
    · simp only [hl]; have := hi.off_le; omega
    · simp only [hl]; have := hi.total; omega
    · intro _
      refine ⟨(readAt_writeAt st h.off h.win hi.off_le).symm, ?_⟩
      simp only [hl]; omega
    · simp [absContent, writeAt]
    · simp only [hl]; exact hi.total.symm
  · have hd' : h.dirty = false := by simpa using hd
    simp only [hd', Bool.false_eq_true, if_false]
    have hc := hi.clean hd'
    refine ⟨hi, hd', ?_, ?_, ?_⟩
    · cases h; simp only [H.mk.injEq]; simp_all
    · exact (absContent_clean h st hc.1 hc.2).symm
    · have := hi.total; omega

end CfbVerif.Handle

namespace CfbVerif.Handle

theorem bufMin_pos : 0 < bufMin := by decide
theorem growth_gt_one : 1 < growth := by decide

theorem position_le (h : H) (st : Bytes) (hi : Inv h st) : h.position ≤ h.totalLen := by
  have := hi.pos_le; have := hi.total; unfold H.position; omega

theorem abs_length (h : H) (st : Bytes) (hi : Inv h st) :
    (absContent h st).length = h.totalLen := by
  rw [absContent_length h st hi.off_le, hi.total]

theorem seekTarget_eq (h : H) (st : Bytes) (hi : Inv h st) (p : SeekFrom) :
    seekTarget h p = Vec.seekTarget h.totalLen h.position p := by
  have hp := position_le h st hi
  cases p with
  | start n => simp only [seekTarget, Vec.seekTarget]; split <;> split <;> first | rfl | omega
  | fromEnd d =>
    simp only [seekTarget, Vec.seekTarget]
    by_cases h1 : d > 0
    · simp [h1]; intro h2; omega
    · by_cases h2 : d.natAbs > h.totalLen
      · simp [h1, h2]
      · simp [h1, h2]
  | current d =>
    simp only [seekTarget, Vec.seekTarget]
    by_cases h1 : d < 0
    · simp only [h1, if_true]; split <;> split <;> first | rfl | omega
    · simp only [h1, if_false]; split <;> split <;> first | rfl | omega

/-- the state after "flush, then move the (empty) window to `np`" -/
theorem moved_inv (h : H) (st : Bytes) (hi : Inv h st) (np : Nat) (hnp : np ≤ h.totalLen) :
    let r := flushChanges h st
    Inv { r.1 with off := np, win := [], pos := 0 } r.2 ∧
    absContent { r.1 with off := np, win := [], pos := 0 } r.2 = absContent h st := by
  intro r
  have fs := flushChanges_spec h st hi
  have hlen : r.2.length = h.totalLen := fs.len
  have hsame : r.1 = { h with dirty := false } := fs.same
  refine ⟨⟨by simp, by simp, ?_, ?_, by simp; omega, ?_, ?_⟩, ?_⟩
  · rw [hsame]; exact hi.data_le
  · rw [hsame]; exact hi.min_le
  · rw [hsame]; simp; omega
  · intro _; simp [readAt]; omega
  · simp only [absContent, List.length_nil, Nat.add_zero, List.append_nil, List.take_append_drop]
    exact fs.content

end CfbVerif.Handle

namespace CfbVerif.Handle

theorem seek_refines (h : H) (st : Bytes) (hi : Inv h st) (p : SeekFrom) :
    Inv (seek h st p).1 (seek h st p).2.1 ∧
    Vec.Step (abs h st) (.seek p) (seek h st p).2.2 (abs (seek h st p).1 (seek h st p).2.1) := by
  have hlen := abs_length h st hi
  have hst := seekTarget_eq h st hi p
  unfold seek
  cases ht : seekTarget h p with
  | none =>
    simp only
    refine ⟨hi, ?_⟩
    apply Vec.Step.seekErr
    simp only [abs, hlen]; rw [← hst]; exact ht
  | some np =>
    simp only
    have hnp : np ≤ h.totalLen := by
      rw [hst] at ht
      cases p <;> simp only [Vec.seekTarget] at ht <;> (repeat' split at ht) <;>
        simp at ht <;> have := position_le h st hi <;> omega
    have hvs : Vec.seekTarget (abs h st).content.length (abs h st).cursor p = some np := by
      simp only [abs, hlen]; rw [← hst]; exact ht
    split
    · have hm := moved_inv h st hi np hnp
      refine ⟨hm.1, ?_⟩
      have : abs { (flushChanges h st).1 with off := np, win := [], pos := 0 } (flushChanges h st).2
          = ⟨(abs h st).content, np⟩ := by
        simp only [abs, hm.2, H.position, Nat.add_zero]
      rw [this]
      exact Vec.Step.seekOk _ _ _ hvs
    · rename_i hwin
      refine ⟨⟨?_, hi.cap_le, hi.data_le, hi.min_le, hi.off_le, hi.total, hi.clean⟩, ?_⟩
      · simp; omega
      · have : abs { h with pos := np - h.off } st = ⟨(abs h st).content, np⟩ := by
          simp only [abs, absContent, H.position, Vec.mk.injEq, true_and]; omega
        rw [this]
        exact Vec.Step.seekOk _ _ _ hvs

end CfbVerif.Handle

namespace CfbVerif.Handle

theorem resize_length (st : Bytes) (n : Nat) : (resize st n).length = n := by
  simp [resize]; omega

theorem resize_self (st : Bytes) : resize st st.length = st := by
  simp [resize, zeros]

theorem setLen_refines (h : H) (st : Bytes) (hi : Inv h st) (n : Nat) :
    Inv (setLen h st n).1 (setLen h st n).2.1 ∧
    Vec.Step (abs h st) (.setLen n) (setLen h st n).2.2 (abs (setLen h st n).1 (setLen h st n).2.1) := by
  have hlen := abs_length h st hi
  have hp := position_le h st hi
  unfold setLen
  split
  · rename_i hne
    simp only
    have fs := flushChanges_spec h st hi
    have hsame : (flushChanges h st).1 = { h with dirty := false } := fs.same
    have hl2 : (flushChanges h st).2.length = h.totalLen := fs.len
    refine ⟨⟨by simp, by simp, ?_, ?_, ?_, ?_, ?_⟩, ?_⟩
    · rw [hsame]; exact hi.data_le
    · rw [hsame]; exact hi.min_le
    · simp [resize_length]; omega
    · simp [resize_length]; omega
    · intro _; simp [readAt, resize_length]; omega
    · have : abs { (flushChanges h st).1 with totalLen := n, off := min h.position n, win := [], pos := 0 }
          (resize (flushChanges h st).2 n) = ⟨resize (abs h st).content n, min (abs h st).cursor n⟩ := by
        simp only [abs, absContent, H.position, Nat.add_zero, List.length_nil, List.append_nil,
          List.take_append_drop]
        rw [fs.content]; rfl
      rw [this]
      exact Vec.Step.setLen _ _
  · rename_i heq
    have heq : n = h.totalLen := by simpa using heq
    refine ⟨hi, ?_⟩
    have : abs h st = ⟨resize (abs h st).content n, min (abs h st).cursor n⟩ := by
      simp only [abs]
      rw [heq, ← hlen, resize_self]
      simp only [Vec.mk.injEq, true_and]
      rw [hlen]; omega
    conv => rhs; rw [this]
    exact Vec.Step.setLen _ _

theorem consume_refines (h : H) (st : Bytes) (hi : Inv h st) (k : Nat) (hk : h.pos + k ≤ h.win.length) :
    Inv { h with pos := h.pos + k } st ∧
    Vec.Step (abs h st) (.consume k) .unit (abs { h with pos := h.pos + k } st) := by
  refine ⟨⟨hk, hi.cap_le, hi.data_le, hi.min_le, hi.off_le, hi.total, hi.clean⟩, ?_⟩
  have : abs { h with pos := h.pos + k } st = ⟨(abs h st).content, (abs h st).cursor + k⟩ := by
    simp only [abs, absContent, H.position, Vec.mk.injEq, true_and]; omega
  rw [this]
  apply Vec.Step.consume
  simp only [abs, abs_length h st hi, H.position]
  have := hi.total; omega

theorem flush_refines (h : H) (st : Bytes) (hi : Inv h st) :
    Inv (flushChanges h st).1 (flushChanges h st).2 ∧
    Vec.Step (abs h st) .flush .unit (abs (flushChanges h st).1 (flushChanges h st).2) := by
  have fs := flushChanges_spec h st hi
  refine ⟨fs.inv, ?_⟩
  have : abs (flushChanges h st).1 (flushChanges h st).2 = abs h st := by
    have hc := fs.inv.clean fs.clean
    simp only [abs]
    rw [absContent_clean _ _ hc.1 hc.2, fs.content, fs.same]
    rfl
  rw [this]
  exact Vec.Step.flush _

theorem len_refines (h : H) (st : Bytes) (hi : Inv h st) :
    Vec.Step (abs h st) .len (.num h.totalLen) (abs h st) := by
  have := Vec.Step.len (abs h st)
  simp only [abs, abs_length h st hi] at this
  exact this

end CfbVerif.Handle

namespace CfbVerif.Handle

theorem growForRead_bounds (dl mx rem : Nat) (h1 : bufMin ≤ dl) (h2 : dl ≤ mx) :
    bufMin ≤ growForRead dl mx rem ∧ growForRead dl mx rem ≤ mx := by
  unfold growForRead; split <;> omega

/-- the rest of the window is what the vector holds at the cursor -/
theorem window_slice (h : H) (st : Bytes) (hi : Inv h st) :
    h.win.drop h.pos = ((absContent h st).drop h.position).take (h.win.length - h.pos) := by
  have hoff := hi.off_le
  have hpos := hi.pos_le
  unfold absContent H.position
  have h1 : (List.take h.off st).length = h.off := by simp [Nat.min_eq_left hoff]
  have e1 : List.drop (h.off + h.pos) (List.take h.off st ++ h.win ++ List.drop (h.off + h.win.length) st)
      = List.drop h.pos h.win ++ List.drop (h.off + h.win.length) st := by
    rw [List.append_assoc, List.drop_append, h1,
      List.drop_eq_nil_of_le (as := List.take h.off st) (by omega), List.nil_append]
    have h2 : h.off + h.pos - h.off = h.pos := by omega
    rw [h2, List.drop_append_of_le_length hpos]
  rw [e1, List.take_append_of_le_length (by simp)]
  rw [List.take_of_length_le (by simp)]

theorem refill_spec (h1 : H) (st1 : Bytes) (hi : Inv h1 st1) (hd : h1.dirty = false)
    (hp : h1.pos = h1.win.length) (hlt : h1.position < h1.totalLen) :
    Inv (refill h1 st1) st1 ∧ (refill h1 st1).dirty = false ∧
    (refill h1 st1).position = h1.position ∧ (refill h1 st1).totalLen = h1.totalLen ∧
    0 < (refill h1 st1).win.length - (refill h1 st1).pos := by
  have hc := hi.clean hd
  have hl2 : st1.length = h1.totalLen := by have := hi.total; omega
  unfold H.position at hlt
  have gb := growForRead_bounds h1.dataLen h1.maxSize (h1.totalLen - (h1.off + h1.pos)) hi.min_le hi.data_le
  have bp := bufMin_pos
  generalize hdl : growForRead h1.dataLen h1.maxSize (h1.totalLen - (h1.off + h1.pos)) = dl at gb
  have hwl : (readAt st1 (h1.off + h1.pos) dl).length = min dl (h1.totalLen - (h1.off + h1.pos)) := by
    rw [readAt_length, hl2]
  unfold refill
  simp only [hdl]
  refine ⟨⟨by simp, ?_, gb.2, gb.1, ?_, ?_, ?_⟩, hd, ?_, trivial, ?_⟩
  · simp only [hwl]; omega
  · simp only; omega
  · simp only [hwl]; omega
  · intro _
    simp only [hwl]
    refine ⟨?_, by omega⟩
    simp only [readAt, List.take_eq_take_iff, List.length_drop, hl2]
    omega
  · simp [H.position]
  · simp only [hwl]; omega

structure FillSpec (h : H) (st : Bytes) (h1 : H) (st1 : Bytes) : Prop where
  inv : Inv h1 st1
  content : absContent h1 st1 = absContent h st
  position : h1.position = h.position
  progress : h1.win.length - h1.pos = 0 → h.position = h.totalLen
  total : h1.totalLen = h.totalLen

theorem fillBuf_spec (h : H) (st : Bytes) (hi : Inv h st) :
    FillSpec h st (fillBuf h st).1 (fillBuf h st).2 := by
  unfold fillBuf
  split
  · rename_i hc
    simp only
    have fs := flushChanges_spec h st hi
    have hsame : (flushChanges h st).1 = { h with dirty := false } := fs.same
    have hp : (flushChanges h st).1.pos = (flushChanges h st).1.win.length := by
      rw [hsame]; simp only; have := hi.pos_le; omega
    have hlt : (flushChanges h st).1.position < (flushChanges h st).1.totalLen := by
      rw [hsame]; exact hc.2
    have rs := refill_spec _ _ fs.inv fs.clean hp hlt
    have hcl := rs.1.clean rs.2.1
    refine ⟨rs.1, ?_, ?_, ?_, ?_⟩
    · rw [absContent_clean _ _ hcl.1 hcl.2]; exact fs.content
    · rw [rs.2.2.1, hsame]; rfl
    · intro h0; have := rs.2.2.2.2; omega
    · rw [rs.2.2.2.1, hsame]
  · rename_i hc
    refine ⟨hi, rfl, rfl, ?_, rfl⟩
    intro h0
    simp only at h0
    have := position_le h st hi
    have hp : ¬ h.pos < h.win.length := by omega
    have : ¬ h.position < h.totalLen := fun hlt => hc ⟨hp, hlt⟩
    omega

end CfbVerif.Handle

namespace CfbVerif.Handle

theorem fillBufOp_refines (h : H) (st : Bytes) (hi : Inv h st) :
    Inv (fillBuf h st).1 (fillBuf h st).2 ∧
    Vec.Step (abs h st) .fillBuf (.bytes ((fillBuf h st).1.win.drop (fillBuf h st).1.pos))
      (abs (fillBuf h st).1 (fillBuf h st).2) := by
  have fs := fillBuf_spec h st hi
  refine ⟨fs.inv, ?_⟩
  have e : abs (fillBuf h st).1 (fillBuf h st).2 = abs h st := by
    simp only [abs, fs.content, fs.position]
  rw [e, window_slice _ _ fs.inv, fs.content, fs.position]
  apply Vec.Step.fillBuf
  · simp only [abs, abs_length h st hi]
    have h1 := fs.inv.pos_le; have h2 := fs.inv.total; have hp := fs.position; have h3 := fs.total
    simp only [H.position] at *
    omega
  · intro h0
    simp only [abs, abs_length h st hi]
    exact fs.progress h0

theorem read_refines (h : H) (st : Bytes) (hi : Inv h st) (n : Nat) :
    Inv (read h st n).1 (read h st n).2.1 ∧
    Vec.Step (abs h st) (.read n) (read h st n).2.2 (abs (read h st n).1 (read h st n).2.1) := by
  have fs := fillBuf_spec h st hi
  have hi1 := fs.inv
  unfold read
  simp only
  generalize hh1 : (fillBuf h st).1 = h1 at fs hi1
  generalize hst1 : (fillBuf h st).2 = st1 at fs hi1
  have hk : min n (List.drop h1.pos h1.win).length ≤ h1.win.length - h1.pos := by
    simp only [List.length_drop]; omega
  generalize hkk : min n (List.drop h1.pos h1.win).length = k at hk
  have hkn : k ≤ n := by omega
  have hkz : k = 0 → n = 0 ∨ h1.win.length - h1.pos = 0 := by
    simp only [List.length_drop] at hkk; omega
  have hpl := hi1.pos_le
  refine ⟨⟨by simp only; omega, hi1.cap_le, hi1.data_le, hi1.min_le, hi1.off_le, hi1.total, hi1.clean⟩, ?_⟩
  have e : abs { h1 with pos := h1.pos + k } st1 = ⟨(abs h st).content, (abs h st).cursor + k⟩ := by
    have hp := fs.position; unfold H.position at hp
    simp only [abs, H.position, Vec.mk.injEq]
    exact ⟨fs.content, by omega⟩
  have e2 : List.take k (List.drop h1.pos h1.win) =
      List.take k (List.drop (abs h st).cursor (abs h st).content) := by
    rw [window_slice _ _ hi1, fs.content, fs.position, List.take_take, Nat.min_eq_left hk]
    rfl
  rw [e, e2]
  apply Vec.Step.read _ _ _ hkn
  · simp only [abs, abs_length h st hi]
    have h2 := hi1.total; have hp := fs.position; have h3 := fs.total
    simp only [H.position] at *
    omega
  · intro h0
    rcases hkz h0 with hz | hz
    · exact Or.inl hz
    · right; simp only [abs, abs_length h st hi]; exact fs.progress hz

end CfbVerif.Handle

namespace CfbVerif.Handle

theorem writeBytes_some (h : H) (buf : Bytes) (h1 : H) (n : Nat)
    (hcap : h.win.length ≤ h.dataLen) (hpos : h.pos ≤ h.win.length) (hmin : 0 < h.dataLen)
    (hmax : h.dataLen ≤ h.maxSize) (hw : writeBytes h buf = some (h1, n)) :
    ∃ dl, h.pos < dl ∧ h.dataLen ≤ dl ∧ dl ≤ h.maxSize ∧ n = min buf.length (dl - h.pos) ∧
      h1 = { h with dataLen := dl,
                    win := h.win.take h.pos ++ buf.take n ++ h.win.drop (h.pos + n),
                    pos := h.pos + n } := by
  unfold writeBytes at hw
  have hg := growth_gt_one
  by_cases hge : h.pos ≥ h.dataLen
  · simp only [hge, if_true, growLen] at hw
    by_cases hmx : h.dataLen ≥ h.maxSize
    · simp [hmx] at hw
    · simp only [hmx, if_false] at hw
      simp only [Option.some.injEq, Prod.mk.injEq] at hw
      refine ⟨min (h.dataLen * growth) h.maxSize, ?_, ?_, ?_, hw.2.symm, ?_⟩
      · have : h.dataLen * 2 ≤ h.dataLen * growth := Nat.mul_le_mul_left _ hg
        omega
      · have : h.dataLen * 1 ≤ h.dataLen * growth := Nat.mul_le_mul_left _ (by omega)
        omega
      · omega
      · rw [← hw.1, ← hw.2]
  · simp only [hge, if_false] at hw
    simp only [Option.some.injEq, Prod.mk.injEq] at hw
    refine ⟨h.dataLen, by omega, by omega, hmax, hw.2.symm, ?_⟩
    rw [← hw.1, ← hw.2]

theorem writeBytes_none (h : H) (buf : Bytes) (hw : writeBytes h buf = none) :
    h.pos ≥ h.dataLen ∧ h.dataLen ≥ h.maxSize := by
  unfold writeBytes at hw
  by_cases hge : h.pos ≥ h.dataLen
  · simp only [hge, if_true, growLen] at hw
    by_cases hmx : h.dataLen ≥ h.maxSize
    · exact ⟨hge, hmx⟩
    · simp [hmx] at hw
  · simp [hge] at hw

/-- content of the vector after overwriting `k` bytes at the cursor, in window terms -/
theorem overlay_write (st : Bytes) (off pos k : Nat) (win new : Bytes)
    (hoff : off ≤ st.length) (hpos : pos ≤ win.length) (hk : new.length = k) :
    let win' := win.take pos ++ new ++ win.drop (pos + k)
    let c := st.take off ++ win ++ st.drop (off + win.length)
    st.take off ++ win' ++ st.drop (off + win'.length)
      = c.take (off + pos) ++ new ++ c.drop (off + pos + k) := by
  intro win' c
  have h1 : (List.take off st).length = off := by simp [Nat.min_eq_left hoff]
  have ct : c.take (off + pos) = st.take off ++ win.take pos := by
    simp only [c]
    rw [List.append_assoc, List.take_append, h1, List.take_of_length_le (by omega)]
    have : off + pos - off = pos := by omega
    rw [this, List.take_append_of_le_length hpos]
  have cd : c.drop (off + pos + k) = win.drop (pos + k) ++ st.drop (off + max win.length (pos + k)) := by
    simp only [c]
    rw [List.append_assoc, List.drop_append, h1, List.drop_eq_nil_of_le (as := List.take off st) (by omega),
      List.nil_append]
    have : off + pos + k - off = pos + k := by omega
    rw [this, List.drop_append, List.drop_drop]
    congr 2
    omega
  have wl : win'.length = max win.length (pos + k) := by
    simp only [win', List.length_append, List.length_take, List.length_drop, hk]; omega
  rw [ct, cd, wl]
  simp only [win', List.append_assoc]

end CfbVerif.Handle

namespace CfbVerif.Handle

theorem writeCore_refines (h : H) (st : Bytes) (hi : Inv h st) (buf : Bytes) (h1 : H) (n : Nat)
    (hw : writeBytes h buf = some (h1, n)) :
    Inv (finishWrite h1 st n).1 (finishWrite h1 st n).2.1 ∧
    Vec.Step (abs h st) (.write buf) (finishWrite h1 st n).2.2
      (abs (finishWrite h1 st n).1 (finishWrite h1 st n).2.1) := by
  have bp := bufMin_pos
  obtain ⟨dl, hlt, hdl1, hdl2, hn, he⟩ :=
    writeBytes_some h buf h1 n hi.cap_le hi.pos_le (by have := hi.min_le; omega) hi.data_le hw
  have hnl : (buf.take n).length = n := by simp; omega
  have hwl : (h.win.take h.pos ++ buf.take n ++ h.win.drop (h.pos + n)).length
      = max h.win.length (h.pos + n) := by
    simp only [List.length_append, List.length_take, List.length_drop, hnl]
    have := hi.pos_le; omega
  have hov := overlay_write st h.off h.pos n h.win (buf.take n) hi.off_le hi.pos_le hnl
  simp only at hov
  have hpl := hi.pos_le; have hcl := hi.cap_le; have htot := hi.total; have hoff := hi.off_le
  have hkn : n ≤ buf.length := by omega
  have hkz : n = 0 → buf = [] := by
    intro h0; have : buf.length = 0 := by omega
    exact List.eq_nil_of_length_eq_zero this
  unfold finishWrite
  by_cases hn0 : n > 0
  · simp only [hn0, if_true]
    subst he
    refine ⟨⟨?_, ?_, hdl2, by simp only; have := hi.min_le; omega, hoff, ?_, ?_⟩, ?_⟩
    · simp only [hwl]; omega
    · simp only [hwl]; omega
    · simp only [hwl]; omega
    · intro hd; simp at hd
    · have : abs { totalLen := max h.totalLen (h.off + (h.win.take h.pos ++ buf.take n ++ h.win.drop (h.pos + n)).length),
                   win := h.win.take h.pos ++ buf.take n ++ h.win.drop (h.pos + n),
                   dataLen := dl, pos := h.pos + n, maxSize := h.maxSize, off := h.off, dirty := true } st
          = ⟨(abs h st).content.take (abs h st).cursor ++ buf.take n ++
              (abs h st).content.drop ((abs h st).cursor + n), (abs h st).cursor + n⟩ := by
        simp only [abs, absContent, H.position, Vec.mk.injEq]
        exact ⟨hov, by omega⟩
      rw [this]
      exact Vec.Step.write _ _ _ hkn hkz
  · have hn0' : n = 0 := by omega
    simp only [hn0, if_false]
    have hb := hkz hn0'
    have he' : h1 = { h with dataLen := dl } := by
      rw [he, hn0', hb]; simp
    rw [he']
    refine ⟨⟨hpl, by simp only; omega, hdl2, by simp only; have := hi.min_le; omega, hoff, htot, hi.clean⟩, ?_⟩
    have : abs { h with dataLen := dl } st
        = ⟨(abs h st).content.take (abs h st).cursor ++ buf.take 0 ++
            (abs h st).content.drop ((abs h st).cursor + 0), (abs h st).cursor + 0⟩ := by
      simp [abs, absContent, H.position]
    rw [this]
    exact Vec.Step.write _ _ _ (by omega) (fun _ => hb)

theorem write_refines (h : H) (st : Bytes) (hi : Inv h st) (buf : Bytes) :
    Inv (write h st buf).1 (write h st buf).2.1 ∧
    Vec.Step (abs h st) (.write buf) (write h st buf).2.2 (abs (write h st buf).1 (write h st buf).2.1) := by
  unfold write
  cases hw : writeBytes h buf with
  | some r =>
    obtain ⟨h1, n⟩ := r
    exact writeCore_refines h st hi buf h1 n hw
  | none =>
    simp only
    have hn := writeBytes_none h buf hw
    have hm := moved_inv h st hi (h.off + h.pos) (position_le h st hi)
    have fs := flushChanges_spec h st hi
    simp only at hm
    generalize hfc : flushChanges h st = r at hm fs
    obtain ⟨hf, stf⟩ := r
    have hsame : hf = { h with dirty := false } := fs.same
    simp only at hm fs ⊢
    subst hsame
    simp only at hm ⊢
    generalize hh2 : ({ totalLen := h.totalLen, win := [], dataLen := h.dataLen, pos := 0, maxSize := h.maxSize, off := h.off + h.pos, dirty := false } : H) = h2 at hm
    have habs : abs h2 stf = abs h st := by
      simp only [abs, hm.2]
      rw [← hh2]; simp [H.position]
    have bp := bufMin_pos
    cases hw2 : writeBytes h2 buf with
    | some r =>
      obtain ⟨h3, n⟩ := r
      simp only
      have := writeCore_refines h2 _ hm.1 buf h3 n hw2
      rw [habs] at this
      exact this
    | none =>
      exfalso
      have hn2 := writeBytes_none h2 buf hw2
      have := hm.1.min_le
      rw [← hh2] at hn2 this
      simp only at hn2 this
      omega

end CfbVerif.Handle
