import CfbVerif.Handle.Det
/-!
# The handle when calls on the underlying file fail (C12, C13)

`stepF h st op ft`: the operation `op` during which the phase `ft` fails (`none`: nothing fails).
A handle operation has at most three phases that touch the file, in this order: the write-back of a
dirty window (`flush_changes`), the refill read (`fill_buf`) or the resize (`set_len`), each of
which is many underlying calls; whichever underlying call fails, the phase fails as a whole
(`?` propagates), so the phase is the unit of failure here.

A failed **refill** leaves the file untouched.  A failed **write-back** may have written any part
of the window: the store afterwards is some `st'` with `Outside st st' off cap` (bytes outside the
window range are as before).  The executable model keeps `st` (any such `st'` is observationally
the same through this handle — `Props/C13.lean`).
-/
set_option linter.unusedSimpArgs false
set_option linter.unusedVariables false
namespace CfbVerif.Handle

inductive Fault | none | flush | refill | resize
deriving Repr, DecidableEq

/-- `flush_changes` that may fail: the dirty marker is kept, the window untouched -/
def flushChangesF (h : H) (st : Bytes) (ft : Fault) : H × Bytes × Bool :=
  if h.dirty ∧ ft = .flush then (h, st, false)
  else let (h1, st1) := flushChanges h st; (h1, st1, true)

/-- `fill_buf` under faults: `(state, store, ok?, did the named phase exist?)` -/
def fillBufF (h : H) (st : Bytes) (ft : Fault) : H × Bytes × Bool :=
  if ¬ (h.pos < h.win.length) ∧ h.position < h.totalLen then
    match flushChangesF h st ft with
    | (h1, st1, false) => (h1, st1, false)
    | (h1, st1, true) =>
      if ft = .refill then
        -- the window has already moved to the cursor; it is emptied, not left stale
        let off' := h1.off + h1.pos
        ({ h1 with off := off', pos := 0, win := [],
                   dataLen := growForRead h1.dataLen h1.maxSize (h1.totalLen - off') }, st1, false)
      else (refill h1 st1, st1, true)
  else (h, st, true)

def ioErr : Out := .err .other

def stepF (h : H) (st : Bytes) (ft : Fault) : HOp → H × Bytes × Out
  | .read n =>
    match fillBufF h st ft with
    | (h1, st1, false) => (h1, st1, ioErr)
    | (h1, st1, true) =>
      let slice := h1.win.drop h1.pos
      let k := min n slice.length
      ({ h1 with pos := h1.pos + k }, st1, .bytes (slice.take k))
  | .fillBuf =>
    match fillBufF h st ft with
    | (h1, st1, false) => (h1, st1, ioErr)
    | (h1, st1, true) => (h1, st1, .bytes (h1.win.drop h1.pos))
  | .write bs =>
    match writeBytes h bs with
    | some (h1, n) => finishWrite h1 st n
    | none =>
      match flushChangesF h st ft with
      | (h1, st1, false) => (h1, st1, ioErr)
      | (h1, st1, true) =>
        let h2 := { h1 with off := h1.off + h1.pos, win := [], pos := 0 }
        match writeBytes h2 bs with
        | some (h3, n) => finishWrite h3 st1 n
        | none => finishWrite h2 st1 0
  | .seek p =>
    match seekTarget h p with
    | none => (h, st, .err .invalidInput)
    | some np =>
      if np < h.off ∨ np > h.off + h.win.length then
        match flushChangesF h st ft with
        | (h1, st1, false) => (h1, st1, ioErr)
        | (h1, st1, true) => ({ h1 with off := np, win := [], pos := 0 }, st1, .num np)
      else ({ h with pos := np - h.off }, st, .num np)
  | .setLen size =>
    if size ≠ h.totalLen then
      let np := min h.position size
      match flushChangesF h st ft with
      | (h1, st1, false) => (h1, st1, ioErr)
      | (h1, st1, true) =>
        if ft = .resize then (h1, st1, ioErr)     -- the structural half is outside this model
        else ({ h1 with totalLen := size, off := np, win := [], pos := 0 }, resize st1 size, .unit)
    else (h, st, .unit)
  | .flush =>
    match flushChangesF h st ft with
    | (h1, st1, false) => (h1, st1, ioErr)
    | (h1, st1, true) =>
      -- `.resize` on a flush = the phase after the write-back: the underlying file's own `flush`
      if ft = .resize then (h1, st1, ioErr) else (h1, st1, .unit)
  | .consume k => if h.pos + k ≤ h.win.length then ({ h with pos := h.pos + k }, st, .unit) else (h, st, .panic)
  | .len => (h, st, .num h.totalLen)

theorem flushChangesF_none (h : H) (st : Bytes) :
    flushChangesF h st .none = ((flushChanges h st).1, (flushChanges h st).2, true) := by
  simp [flushChangesF]

theorem fillBufF_none (h : H) (st : Bytes) :
    fillBufF h st .none = ((fillBuf h st).1, (fillBuf h st).2, true) := by
  unfold fillBufF fillBuf
  split
  · simp [flushChangesF_none]
  · rfl

/-- with no fault the faulty machine is the machine of C06 -/
theorem stepF_none (h : H) (st : Bytes) (op : HOp) : stepF h st .none op = step h st op := by
  cases op with
  | read n => simp only [stepF, fillBufF_none, step, read]
  | fillBuf => simp only [stepF, fillBufF_none, step]
  | consume k => rfl
  | write bs =>
    simp only [stepF, step, write, flushChangesF_none]
    cases writeBytes h bs <;> rfl
  | seek p =>
    simp only [stepF, step, seek, flushChangesF_none]
    cases seekTarget h p with
    | none => rfl
    | some np => rfl
  | setLen n =>
    simp only [stepF, step, setLen, flushChangesF_none]
    split
    · simp
    · rfl
  | flush => simp [stepF, step, flushChangesF_none]
  | len => rfl


/-- what a failed operation leaves behind: a handle that still satisfies the window invariant on
the same store and still stands for the same byte vector at the same position -/
structure Failed (h : H) (st : Bytes) (h' : H) (st' : Bytes) : Prop where
  inv : Inv h' st'
  store : st' = st ∨ st' = absContent h st
  content : absContent h' st' = absContent h st
  position : h'.position = h.position
  total : h'.totalLen = h.totalLen

theorem failed_refl (h : H) (st : Bytes) (hi : Inv h st) : Failed h st h st :=
  ⟨hi, Or.inl rfl, rfl, rfl, rfl⟩

theorem failed_flushed (h : H) (st : Bytes) (hi : Inv h st) :
    Failed h st (flushChanges h st).1 (flushChanges h st).2 := by
  have fs := flushChanges_spec h st hi
  have hc := fs.inv.clean fs.clean
  refine ⟨fs.inv, Or.inr fs.content, ?_, ?_, ?_⟩
  · rw [absContent_clean _ _ hc.1 hc.2]; exact fs.content
  · rw [fs.same]; rfl
  · rw [fs.same]

/-- after a failed refill: flushed, window moved to the cursor and emptied -/
theorem failed_refill (h : H) (st : Bytes) (hi : Inv h st) :
    let h1 := (flushChanges h st).1
    Failed h st { h1 with off := h1.off + h1.pos, pos := 0, win := [],
                          dataLen := growForRead h1.dataLen h1.maxSize (h1.totalLen - (h1.off + h1.pos)) }
      (flushChanges h st).2 := by
  intro h1
  have fs := flushChanges_spec h st hi
  have hsame : h1 = { h with dirty := false } := fs.same
  have hm := moved_inv h st hi (h.off + h.pos) (position_le h st hi)
  simp only at hm
  have gb := growForRead_bounds h.dataLen h.maxSize (h.totalLen - (h.off + h.pos)) hi.min_le hi.data_le
  rw [hsame]
  simp only
  refine ⟨⟨by simp, by simp, gb.2, gb.1, ?_, ?_, ?_⟩, Or.inr fs.content, ?_, ?_, rfl⟩
  · have := hm.1.off_le; rw [fs.same] at this; exact this
  · have := hm.1.total; rw [fs.same] at this; exact this
  · have := hm.1.clean; rw [fs.same] at this; exact this
  · have := hm.2; rw [fs.same] at this; exact this
  · simp [H.position]

/-- **every operation under every fault**: it either behaves exactly as without the fault, or it
reports an I/O error and leaves a handle that is still consistent with the same content -/
theorem stepF_spec (h : H) (st : Bytes) (hi : Inv h st) (ft : Fault) (op : HOp) :
    stepF h st ft op = step h st op ∨
    ((stepF h st ft op).2.2 = ioErr ∧ Failed h st (stepF h st ft op).1 (stepF h st ft op).2.1) := by
  have hflush : ∀ (P : H × Bytes × Bool → Prop), True := fun _ => trivial
  -- the write-back phase: fails without any change, or is the fault-free write-back
  have hF : flushChangesF h st ft = (h, st, false) ∨
      flushChangesF h st ft = ((flushChanges h st).1, (flushChanges h st).2, true) := by
    unfold flushChangesF
    by_cases hc : h.dirty = true ∧ ft = .flush
    · left; simp [hc]
    · right; simp [hc]
  have hfill : fillBufF h st ft = ((fillBuf h st).1, (fillBuf h st).2, true) ∨
      ((fillBufF h st ft).2.2 = false ∧ Failed h st (fillBufF h st ft).1 (fillBufF h st ft).2.1) := by
    unfold fillBufF fillBuf
    by_cases hneed : ¬ (h.pos < h.win.length) ∧ h.position < h.totalLen
    · simp only [hneed, not_false_eq_true, and_self, if_true]
      rcases hF with hF | hF
      · right; rw [hF]; exact ⟨rfl, failed_refl h st hi⟩
      · rw [hF]
        simp only
        by_cases hr : ft = .refill
        · right; simp only [hr, if_true]; exact ⟨trivial, failed_refill h st hi⟩
        · left; simp [hr]
    · left; simp only [hneed, if_false]
  cases op with
  | read n =>
    simp only [stepF, step, read]
    rcases hfill with hf | hf
    · left; rw [hf]
    · right
      cases hv : fillBufF h st ft with
      | mk h1 rest =>
        obtain ⟨st1, ok⟩ := rest
        rw [hv] at hf
        simp only at hf
        rw [hf.1]
        exact ⟨rfl, hf.2⟩
  | fillBuf =>
    simp only [stepF, step]
    rcases hfill with hf | hf
    · left; rw [hf]
    · right
      cases hv : fillBufF h st ft with
      | mk h1 rest =>
        obtain ⟨st1, ok⟩ := rest
        rw [hv] at hf
        simp only at hf
        rw [hf.1]
        exact ⟨rfl, hf.2⟩
  | consume k => left; rfl
  | len => left; rfl
  | write bs =>
    simp only [stepF, step, write]
    cases writeBytes h bs with
    | some r => left; rfl
    | none =>
      simp only
      rcases hF with hF | hF
      · right; rw [hF]; exact ⟨rfl, failed_refl h st hi⟩
      · left; rw [hF]; rfl
  | seek p =>
    simp only [stepF, step, seek]
    cases seekTarget h p with
    | none => left; rfl
    | some np =>
      simp only
      split
      · rcases hF with hF | hF
        · right; rw [hF]; exact ⟨rfl, failed_refl h st hi⟩
        · left; rw [hF]
      · left; rfl
  | setLen n =>
    simp only [stepF, step, setLen]
    split
    · rcases hF with hF | hF
      · right; rw [hF]; exact ⟨rfl, failed_refl h st hi⟩
      · rw [hF]
        simp only
        by_cases hr : ft = .resize
        · right; simp only [hr, if_true]; exact ⟨trivial, failed_flushed h st hi⟩
        · left; simp [hr]
    · left; rfl
  | flush =>
    simp only [stepF, step]
    rcases hF with hF | hF
    · right; rw [hF]; exact ⟨rfl, failed_refl h st hi⟩
    · rw [hF]
      simp only
      by_cases hr : ft = .resize
      · right; simp only [hr, if_true]; exact ⟨trivial, failed_flushed h st hi⟩
      · left; simp [hr]

end CfbVerif.Handle
