import CfbVerif.Gen.Consts
/-!
# `Handle`: the `Stream` window state machine (stream.rs:12-247, stream_buffer.rs)

The handle works over an abstract flushed `Store` — the stream's bytes as the compound file
holds them — through three operations that stream.rs implements on chains
(`read_data_from_stream`, `write_data_to_stream`, `resize_stream`).  Here they are the list
functions `readAt`, `writeAt`, `resize`; that the chain layer implements them is the subject of
the writer model (C01 content half, C08), not of this file.

Field correspondence with the Rust structs:

| model            | Rust                                         |
|------------------|----------------------------------------------|
| `totalLen`       | `Stream::total_len`                          |
| `off`            | `Stream::buf_offset_from_start`              |
| `dirty`          | `Stream::flusher.is_some()`                  |
| `win`            | `StreamBuffer::data[..cap]` (`filled_slice`) |
| `win.length`     | `StreamBuffer::cap`                          |
| `dataLen`        | `StreamBuffer::data.len()`                   |
| `pos`, `maxSize` | `StreamBuffer::pos`, `max_size`              |

Bytes of `data` beyond `cap` are never observable (every path that raises `cap` first writes the
bytes it exposes), so they are not modelled.
-/
namespace CfbVerif.Handle

abbrev Bytes := List UInt8

def zeros (n : Nat) : Bytes := List.replicate n 0

@[simp] theorem zeros_length (n : Nat) : (zeros n).length = n := by simp [zeros]

/-! ## The flushed store -/

/-- `read_data_from_stream(off, buf)` with `buf.len() = n`: the bytes it puts into `buf`. -/
def readAt (st : Bytes) (off n : Nat) : Bytes := (st.drop off).take n

/-- `write_data_to_stream(off, bs)` (requires `off ≤ st.length`, asserted in stream.rs:323). -/
def writeAt (st : Bytes) (off : Nat) (bs : Bytes) : Bytes :=
  st.take off ++ bs ++ st.drop (off + bs.length)

/-- `resize_stream(n)`: truncate, or extend with zero bytes. -/
def resize (st : Bytes) (n : Nat) : Bytes := st.take n ++ zeros (n - st.length)

/-! ## State -/

structure H where
  totalLen : Nat
  win : Bytes
  dataLen : Nat
  pos : Nat
  maxSize : Nat
  off : Nat
  dirty : Bool
deriving Repr, DecidableEq

def bufMin : Nat := Gen.STREAM_BUFFER_MIN
def growth : Nat := Gen.STREAM_BUFFER_GROWTH_FACTOR

/-- `Stream::new` + `StreamBuffer::new(max_buffer_size)`. -/
def H.new (len maxBuf : Nat) : H :=
  { totalLen := len, win := [], dataLen := bufMin, pos := 0,
    maxSize := max maxBuf bufMin, off := 0, dirty := false }

@[reducible] def H.cap (h : H) : Nat := h.win.length

/-- `current_position`. -/
def H.position (h : H) : Nat := h.off + h.pos

/-- `buffer.clear()`. -/
def H.clear (h : H) : H := { h with win := [], pos := 0 }

inductive ErrKind | invalidInput | other
deriving Repr, DecidableEq

inductive SeekFrom
  | start (n : Nat)      -- u64
  | fromEnd (d : Int)    -- i64
  | current (d : Int)    -- i64
deriving Repr, DecidableEq

inductive HOp
  | read (n : Nat)
  | fillBuf
  | consume (k : Nat)
  | write (bs : Bytes)
  | seek (p : SeekFrom)
  | setLen (n : Nat)
  | flush
  | len
deriving Repr, DecidableEq

inductive Out
  | bytes (bs : Bytes)     -- `read`, `fill_buf`
  | num (n : Nat)          -- `write` count, `seek` position, `len`
  | unit
  | err (k : ErrKind)
  | panic                  -- `consume` beyond the slice (BufRead contract violated)
deriving Repr, DecidableEq

/-! ## Operations (fault-free store) -/

/-- `flush_changes`: write the whole filled slice back at the window offset. -/
def flushChanges (h : H) (st : Bytes) : H × Bytes :=
  if h.dirty then ({ h with dirty := false }, writeAt st h.off h.win) else (h, st)

/-- `StreamBuffer::grow`: `none` when already at the maximum. -/
def growLen (dataLen maxSize : Nat) : Option Nat :=
  if dataLen ≥ maxSize then none else some (min (dataLen * growth) maxSize)

/-- `StreamBuffer::write_bytes`. -/
def writeBytes (h : H) (input : Bytes) : Option (H × Nat) :=
  let dl? : Option Nat := if h.pos ≥ h.dataLen then growLen h.dataLen h.maxSize else some h.dataLen
  match dl? with
  | none => none
  | some dl =>
    let n := min input.length (dl - h.pos)
    some ({ h with dataLen := dl,
                   win := h.win.take h.pos ++ input.take n ++ h.win.drop (h.pos + n),
                   pos := h.pos + n }, n)

/-- tail of `Stream::write`. -/
def finishWrite (h : H) (st : Bytes) (n : Nat) : H × Bytes × Out :=
  if n > 0 then
    ({ h with dirty := true, totalLen := max h.totalLen (h.off + h.win.length) }, st, .num n)
  else (h, st, .num 0)

/-- `Stream::write`. -/
def write (h : H) (st : Bytes) (buf : Bytes) : H × Bytes × Out :=
  match writeBytes h buf with
  | some (h1, n) => finishWrite h1 st n
  | none =>
    let (h1, st1) := flushChanges h st
    let h2 := { h1 with off := h1.off + h1.pos, win := [], pos := 0 }
    match writeBytes h2 buf with
    | some (h3, n) => finishWrite h3 st1 n
    | none => finishWrite h2 st1 0

/-- `StreamBuffer::grow_for_read_remaining`. -/
def growForRead (dataLen maxSize remaining : Nat) : Nat :=
  if remaining ≤ dataLen then dataLen else max (min remaining maxSize) bufMin

/-- `refill_with` after the window was moved to the cursor: read up to a whole buffer. -/
def refill (h1 : H) (st1 : Bytes) : H :=
  let off' := h1.off + h1.pos
  let dl := growForRead h1.dataLen h1.maxSize (h1.totalLen - off')
  { h1 with off := off', pos := 0, dataLen := dl, win := readAt st1 off' dl }

/-- `fill_buf` (state part). -/
def fillBuf (h : H) (st : Bytes) : H × Bytes :=
  if ¬ (h.pos < h.win.length) ∧ h.position < h.totalLen then
    let (h1, st1) := flushChanges h st
    (refill h1 st1, st1)
  else (h, st)

/-- `Stream::read` with a destination of `n` bytes. -/
def read (h : H) (st : Bytes) (n : Nat) : H × Bytes × Out :=
  let (h1, st1) := fillBuf h st
  let slice := h1.win.drop h1.pos
  let k := min n slice.length
  ({ h1 with pos := h1.pos + k }, st1, .bytes (slice.take k))

/-- The target of a seek, or `none` when it is refused (stream.rs:142-200, with the `i64::MIN`
negations taken as `unsigned_abs`). -/
def seekTarget (h : H) : SeekFrom → Option Nat
  | .start n => if n > h.totalLen then none else some n
  | .fromEnd d =>
    if d > 0 then none
    else if d.natAbs > h.totalLen then none else some (h.totalLen - d.natAbs)
  | .current d =>
    let old := h.position
    if d < 0 then (if d.natAbs > old then none else some (old - d.natAbs))
    else (if d.natAbs > h.totalLen - old then none else some (old + d.natAbs))

/-- `Stream::seek`. -/
def seek (h : H) (st : Bytes) (p : SeekFrom) : H × Bytes × Out :=
  match seekTarget h p with
  | none => (h, st, .err .invalidInput)
  | some np =>
    if np < h.off ∨ np > h.off + h.win.length then
      let (h1, st1) := flushChanges h st
      ({ h1 with off := np, win := [], pos := 0 }, st1, .num np)
    else ({ h with pos := np - h.off }, st, .num np)

/-- `Stream::set_len`. -/
def setLen (h : H) (st : Bytes) (size : Nat) : H × Bytes × Out :=
  if size ≠ h.totalLen then
    let np := min h.position size
    let (h1, st1) := flushChanges h st
    ({ h1 with totalLen := size, off := np, win := [], pos := 0 }, resize st1 size, .unit)
  else (h, st, .unit)

def step (h : H) (st : Bytes) : HOp → H × Bytes × Out
  | .read n => read h st n
  | .fillBuf => let (h1, st1) := fillBuf h st; (h1, st1, .bytes (h1.win.drop h1.pos))
  | .consume k => if h.pos + k ≤ h.win.length then ({ h with pos := h.pos + k }, st, .unit) else (h, st, .panic)
  | .write bs => write h st bs
  | .seek p => seek h st p
  | .setLen n => setLen h st n
  | .flush => let (h1, st1) := flushChanges h st; (h1, st1, .unit)
  | .len => (h, st, .num h.totalLen)

/-- Run a script; outputs in order. -/
def run (h : H) (st : Bytes) : List HOp → H × Bytes × List Out
  | [] => (h, st, [])
  | op :: ops =>
    let (h1, st1, o) := step h st op
    let (h2, st2, os) := run h1 st1 ops
    (h2, st2, o :: os)

/-! ## The specification: a byte vector with a cursor -/

structure Vec where
  content : Bytes
  cursor : Nat
deriving Repr, DecidableEq

/-- The content a fresh handle (or a reopen) would see: the store with the window laid over it. -/
def absContent (h : H) (st : Bytes) : Bytes :=
  st.take h.off ++ h.win ++ st.drop (h.off + h.win.length)

def abs (h : H) (st : Bytes) : Vec := ⟨absContent h st, h.position⟩

/-- Target of a seek on a vector of length `len` with the cursor at `cur`. -/
def Vec.seekTarget (len cur : Nat) : SeekFrom → Option Nat
  | .start n => if n ≤ len then some n else none
  | .fromEnd d => if d ≤ 0 ∧ d.natAbs ≤ len then some (len - d.natAbs) else none
  | .current d =>
    if d < 0 then (if d.natAbs ≤ cur then some (cur - d.natAbs) else none)
    else (if cur + d.natAbs ≤ len then some (cur + d.natAbs) else none)

/-- `Vec.Step v op out v'`: what a cursor over an in-memory byte vector may do on `op`.
`read`/`fill_buf` may return any prefix of the rest that is non-empty unless the request is
empty or the cursor is at the end ("0 only at the end"); `write` may accept any non-empty prefix
of a non-empty buffer. -/
inductive Vec.Step : Vec → HOp → Out → Vec → Prop
  | read (v : Vec) (n k : Nat) (hk : k ≤ n) (hk' : k ≤ v.content.length - v.cursor)
      (hz : k = 0 → n = 0 ∨ v.cursor = v.content.length) :
      Vec.Step v (.read n) (.bytes ((v.content.drop v.cursor).take k)) ⟨v.content, v.cursor + k⟩
  | fillBuf (v : Vec) (k : Nat) (hk' : k ≤ v.content.length - v.cursor)
      (hz : k = 0 → v.cursor = v.content.length) :
      Vec.Step v .fillBuf (.bytes ((v.content.drop v.cursor).take k)) v
  | consume (v : Vec) (k : Nat) (hk : v.cursor + k ≤ v.content.length) :
      Vec.Step v (.consume k) .unit ⟨v.content, v.cursor + k⟩
  | write (v : Vec) (bs : Bytes) (k : Nat) (hk : k ≤ bs.length) (hz : k = 0 → bs = []) :
      Vec.Step v (.write bs) (.num k)
        ⟨v.content.take v.cursor ++ bs.take k ++ v.content.drop (v.cursor + k), v.cursor + k⟩
  | seekOk (v : Vec) (p : SeekFrom) (np : Nat)
      (h : Vec.seekTarget v.content.length v.cursor p = some np) :
      Vec.Step v (.seek p) (.num np) ⟨v.content, np⟩
  | seekErr (v : Vec) (p : SeekFrom)
      (h : Vec.seekTarget v.content.length v.cursor p = none) :
      Vec.Step v (.seek p) (.err .invalidInput) v
  | setLen (v : Vec) (n : Nat) :
      Vec.Step v (.setLen n) .unit ⟨resize v.content n, min v.cursor n⟩
  | flush (v : Vec) : Vec.Step v .flush .unit v
  | len (v : Vec) : Vec.Step v .len (.num v.content.length) v

/-! ## Invariant -/

structure Inv (h : H) (st : Bytes) : Prop where
  pos_le : h.pos ≤ h.win.length
  cap_le : h.win.length ≤ h.dataLen
  data_le : h.dataLen ≤ h.maxSize
  min_le : bufMin ≤ h.dataLen
  off_le : h.off ≤ st.length
  total : h.totalLen = max st.length (h.off + h.win.length)
  clean : h.dirty = false → h.win = readAt st h.off h.win.length ∧ h.off + h.win.length ≤ st.length

/-- `consume` must stay within the slice `fill_buf` returned (the `BufRead` contract). -/
def HOp.ok (h : H) : HOp → Prop
  | .consume k => h.pos + k ≤ h.win.length
  | _ => True

end CfbVerif.Handle

/-! ## Deterministic scripts: `read_exact`/`read_to_end`-style and `write_all`-style loops

`read` and `write` may transfer fewer bytes than asked, and how many depends on the buffer.
Callers that loop (`read_exact`, `Read::take(n).read_to_end`, `write_all`) see a result that does
not; these are the operations whose results must be identical for every buffer size. -/
namespace CfbVerif.Handle

/-- read until `n` bytes were delivered or a read returns nothing (end of stream) -/
def readLoop : Nat → H → Bytes → Nat → Bytes → H × Bytes × Bytes
  | 0, h, st, _, acc => (h, st, acc)
  | fuel + 1, h, st, n, acc =>
    if n = 0 then (h, st, acc) else
    match read h st n with
    | (h1, st1, .bytes bs) =>
      if bs = [] then (h1, st1, acc) else readLoop fuel h1 st1 (n - bs.length) (acc ++ bs)
    | (h1, st1, _) => (h1, st1, acc)

def readAll (h : H) (st : Bytes) (n : Nat) : H × Bytes × Bytes := readLoop (n + 1) h st n []

/-- `write_all`: keep writing the rest until everything is accepted -/
def writeLoop : Nat → H → Bytes → Bytes → H × Bytes
  | 0, h, st, _ => (h, st)
  | fuel + 1, h, st, bs =>
    if bs = [] then (h, st) else
    match write h st bs with
    | (h1, st1, .num k) => if k = 0 then (h1, st1) else writeLoop fuel h1 st1 (bs.drop k)
    | (h1, st1, _) => (h1, st1)

def writeAll (h : H) (st : Bytes) (bs : Bytes) : H × Bytes := writeLoop (bs.length + 1) h st bs

inductive DOp
  | readAll (n : Nat)
  | writeAll (bs : Bytes)
  | seek (p : SeekFrom)
  | setLen (n : Nat)
  | flush
  | len
deriving Repr, DecidableEq

def stepD (h : H) (st : Bytes) : DOp → H × Bytes × Out
  | .readAll n => let (h1, st1, bs) := readAll h st n; (h1, st1, .bytes bs)
  | .writeAll bs => let (h1, st1) := writeAll h st bs; (h1, st1, .unit)
  | .seek p => seek h st p
  | .setLen n => setLen h st n
  | .flush => let (h1, st1) := flushChanges h st; (h1, st1, .unit)
  | .len => (h, st, .num h.totalLen)

def runD (h : H) (st : Bytes) : List DOp → H × Bytes × List Out
  | [] => (h, st, [])
  | op :: ops =>
    let (h1, st1, o) := stepD h st op
    let (h2, st2, os) := runD h1 st1 ops
    (h2, st2, o :: os)

/-- the same operations on a plain byte vector with a cursor (`Cursor<Vec<u8>>` restricted to
seeks inside `[0, len]`) -/
def Vec.stepD (v : Vec) : DOp → Vec × Out
  | .readAll n => (⟨v.content, v.cursor + min n (v.content.length - v.cursor)⟩,
                   .bytes ((v.content.drop v.cursor).take n))
  | .writeAll bs => (⟨v.content.take v.cursor ++ bs ++ v.content.drop (v.cursor + bs.length),
                      v.cursor + bs.length⟩, .unit)
  | .seek p => match Vec.seekTarget v.content.length v.cursor p with
    | some np => (⟨v.content, np⟩, .num np)
    | none => (v, .err .invalidInput)
  | .setLen n => (⟨resize v.content n, min v.cursor n⟩, .unit)
  | .flush => (v, .unit)
  | .len => (v, .num v.content.length)

def Vec.runD (v : Vec) : List DOp → Vec × List Out
  | [] => (v, [])
  | op :: ops =>
    let (v1, o) := Vec.stepD v op
    let (v2, os) := Vec.runD v1 ops
    (v2, o :: os)

end CfbVerif.Handle
