import CfbVerif.Handle.Lemmas
set_option linter.unusedSimpArgs false
set_option linter.unusedVariables false
namespace CfbVerif.Handle

/-- inversion of the specification's `read` step -/
theorem Vec.Step.read_inv {v : Vec} {n : Nat} {out : Out} {v' : Vec}
    (hs : Vec.Step v (.read n) out v') :
    ∃ k, k ≤ n ∧ k ≤ v.content.length - v.cursor ∧ (k = 0 → n = 0 ∨ v.cursor = v.content.length) ∧
      out = .bytes ((v.content.drop v.cursor).take k) ∧ v' = ⟨v.content, v.cursor + k⟩ := by
  cases hs with
  | read _ k hk hk' hz => exact ⟨k, hk, hk', hz, rfl, rfl⟩

theorem Vec.Step.write_inv {v : Vec} {bs : Bytes} {out : Out} {v' : Vec}
    (hs : Vec.Step v (.write bs) out v') :
    ∃ k, k ≤ bs.length ∧ (k = 0 → bs = []) ∧ out = .num k ∧
      v' = ⟨v.content.take v.cursor ++ bs.take k ++ v.content.drop (v.cursor + k), v.cursor + k⟩ := by
  cases hs with
  | write _ k hk hz => exact ⟨k, hk, hz, rfl, rfl⟩

theorem Vec.Step.seek_inv {v : Vec} {p : SeekFrom} {out : Out} {v' : Vec}
    (hs : Vec.Step v (.seek p) out v') :
    (∃ np, Vec.seekTarget v.content.length v.cursor p = some np ∧ out = .num np ∧ v' = ⟨v.content, np⟩) ∨
    (Vec.seekTarget v.content.length v.cursor p = none ∧ out = .err .invalidInput ∧ v' = v) := by
  cases hs with
  | seekOk _ np ht => exact Or.inl ⟨np, ht, rfl, rfl⟩
  | seekErr _ ht => exact Or.inr ⟨ht, rfl, rfl⟩

theorem Vec.Step.setLen_inv {v : Vec} {n : Nat} {out : Out} {v' : Vec}
    (hs : Vec.Step v (.setLen n) out v') :
    out = .unit ∧ v' = ⟨resize v.content n, min v.cursor n⟩ := by
  cases hs with
  | setLen => exact ⟨rfl, rfl⟩

theorem Vec.Step.flush_inv {v : Vec} {out : Out} {v' : Vec}
    (hs : Vec.Step v .flush out v') : out = .unit ∧ v' = v := by
  cases hs with
  | flush => exact ⟨rfl, rfl⟩

theorem take_split (l : Bytes) (k n : Nat) (hk : k ≤ n) :
    l.take n = l.take k ++ (l.drop k).take (n - k) := by
  have : n = k + (n - k) := by omega
  conv => lhs; rw [this]
  rw [List.take_add]

theorem readLoop_spec (fuel : Nat) : ∀ (h : H) (st : Bytes) (n : Nat) (acc : Bytes),
    Inv h st → n < fuel →
    let r := readLoop fuel h st n acc
    Inv r.1 r.2.1 ∧
    abs r.1 r.2.1 = ⟨(abs h st).content, (abs h st).cursor + min n ((abs h st).content.length - (abs h st).cursor)⟩ ∧
    r.2.2 = acc ++ ((abs h st).content.drop (abs h st).cursor).take n := by
  induction fuel with
  | zero => intro h st n acc hi hf; omega
  | succ fuel ih =>
    intro h st n acc hi hf
    simp only [readLoop]
    by_cases hn : n = 0
    · simp [hn, hi]
    · simp only [hn, if_false]
      have rr := read_refines h st hi n
      obtain ⟨k, hk1, hk2, hkz, hout, hv'⟩ := rr.2.read_inv
      generalize hrd : read h st n = r at rr hout hv'
      obtain ⟨h1, st1, o⟩ := r
      simp only at rr hout hv' ⊢
      subst hout
      simp only
      have hlen : (List.take k (List.drop (abs h st).cursor (abs h st).content)).length = k := by
        simp only [List.length_take, List.length_drop]; omega
      by_cases hnil : List.take k (List.drop (abs h st).cursor (abs h st).content) = []
      · simp only [hnil, if_true]
        have hk0 : k = 0 := by rw [hnil] at hlen; simpa using hlen.symm
        have hend : (abs h st).cursor = (abs h st).content.length := by
          rcases hkz hk0 with h0 | h0
          · exact absurd h0 hn
          · exact h0
        refine ⟨rr.1, ?_, ?_⟩
        · rw [hv', hk0, hend]; simp
        · rw [hend]; simp
      · simp only [hnil, if_false]
        have hk0 : 0 < k := by
          rcases Nat.eq_zero_or_pos k with h0 | h0
          · exfalso; apply hnil; rw [h0]; simp
          · exact h0
        rw [hlen]
        have ih' := ih h1 st1 (n - k) (acc ++ List.take k (List.drop (abs h st).cursor (abs h st).content))
          rr.1 (by omega)
        simp only at ih'
        refine ⟨ih'.1, ?_, ?_⟩
        · rw [ih'.2.1, hv']
          simp only [Vec.mk.injEq, true_and]
          omega
        · rw [ih'.2.2, hv']
          simp only
          rw [List.append_assoc]
          congr 1
          rw [take_split _ k n hk1, List.drop_drop]

end CfbVerif.Handle

namespace CfbVerif.Handle

theorem writeLoop_spec (fuel : Nat) : ∀ (h : H) (st : Bytes) (bs : Bytes),
    Inv h st → bs.length < fuel →
    let r := writeLoop fuel h st bs
    Inv r.1 r.2 ∧
    abs r.1 r.2 = ⟨(abs h st).content.take (abs h st).cursor ++ bs ++
                    (abs h st).content.drop ((abs h st).cursor + bs.length),
                   (abs h st).cursor + bs.length⟩ := by
  induction fuel with
  | zero => intro h st bs hi hf; omega
  | succ fuel ih =>
    intro h st bs hi hf
    simp only [writeLoop]
    by_cases hn : bs = []
    · subst hn; simp [hi]
    · simp only [hn, if_false]
      have wr := write_refines h st hi bs
      obtain ⟨k, hk1, hkz, hout, hv'⟩ := wr.2.write_inv
      generalize hrd : write h st bs = r at wr hout hv'
      obtain ⟨h1, st1, o⟩ := r
      simp only at wr hout hv' ⊢
      subst hout
      simp only
      have hk0 : k ≠ 0 := fun h0 => hn (hkz h0)
      simp only [hk0, if_false]
      have ih' := ih h1 st1 (bs.drop k) wr.1 (by simp only [List.length_drop]; omega)
      simp only at ih'
      refine ⟨ih'.1, ?_⟩
      rw [ih'.2, hv']
      simp only [Vec.mk.injEq, List.length_drop]
      have hcur : (abs h st).cursor ≤ (abs h st).content.length := by
        simp only [abs, abs_length h st hi]; exact position_le h st hi
      generalize (abs h st).content = c at *
      generalize (abs h st).cursor = cur at *
      have hl1 : (List.take cur c).length = cur := by simp; omega
      have hl2 : (List.take k bs).length = k := by simp; omega
      refine ⟨?_, by omega⟩
      have e1 : List.take (cur + k) (List.take cur c ++ List.take k bs ++ List.drop (cur + k) c)
          = List.take cur c ++ List.take k bs := by
        rw [List.take_append_of_le_length (by simp only [List.length_append, hl1, hl2]; omega)]
        rw [List.take_of_length_le (by simp only [List.length_append, hl1, hl2]; omega)]
      have e2 : List.drop (cur + k + (bs.length - k)) (List.take cur c ++ List.take k bs ++ List.drop (cur + k) c)
          = List.drop (cur + bs.length) c := by
        rw [List.drop_append, List.drop_eq_nil_of_le (by simp only [List.length_append, hl1, hl2]; omega)]
        simp only [List.length_append, hl1, hl2, List.nil_append, List.drop_drop]
        congr 1; omega
      rw [e1, e2, List.append_assoc (List.take cur c), List.take_append_drop]

/-- simulation for the deterministic operations -/
theorem stepD_sim (h : H) (st : Bytes) (hi : Inv h st) (op : DOp) :
    Inv (stepD h st op).1 (stepD h st op).2.1 ∧
    abs (stepD h st op).1 (stepD h st op).2.1 = (Vec.stepD (abs h st) op).1 ∧
    (stepD h st op).2.2 = (Vec.stepD (abs h st) op).2 := by
  cases op with
  | readAll n =>
    have := readLoop_spec (n + 1) h st n [] hi (by omega)
    simp only [stepD, readAll, Vec.stepD]
    simp only [List.nil_append] at this
    exact ⟨this.1, this.2.1, by rw [this.2.2]⟩
  | writeAll bs =>
    have := writeLoop_spec (bs.length + 1) h st bs hi (by omega)
    simp only [stepD, writeAll, Vec.stepD]
    exact ⟨this.1, this.2, trivial⟩
  | seek p =>
    have sr := seek_refines h st hi p
    simp only [stepD, Vec.stepD]
    refine ⟨sr.1, ?_⟩
    rcases sr.2.seek_inv with ⟨np, ht, ho, hv⟩ | ⟨ht, ho, hv⟩
    · simp only [ht]; exact ⟨hv, ho⟩
    · simp only [ht]; exact ⟨hv, ho⟩
  | setLen n =>
    have sr := setLen_refines h st hi n
    simp only [stepD, Vec.stepD]
    exact ⟨sr.1, sr.2.setLen_inv.2, sr.2.setLen_inv.1⟩
  | flush =>
    have sr := flush_refines h st hi
    simp only [stepD, Vec.stepD]
    exact ⟨sr.1, sr.2.flush_inv.2, trivial⟩
  | len =>
    simp only [stepD, Vec.stepD]
    exact ⟨hi, trivial, by simp only [abs, abs_length h st hi]⟩

theorem runD_sim (ops : List DOp) : ∀ (h : H) (st : Bytes), Inv h st →
    Inv (runD h st ops).1 (runD h st ops).2.1 ∧
    abs (runD h st ops).1 (runD h st ops).2.1 = (Vec.runD (abs h st) ops).1 ∧
    (runD h st ops).2.2 = (Vec.runD (abs h st) ops).2 := by
  induction ops with
  | nil => intro h st hi; exact ⟨hi, rfl, rfl⟩
  | cons op ops ih =>
    intro h st hi
    have s1 := stepD_sim h st hi op
    have s2 := ih _ _ s1.1
    simp only [runD, Vec.runD]
    rw [← s1.2.1, ← s1.2.2]
    exact ⟨s2.1, s2.2.1, by rw [s2.2.2]⟩

theorem new_inv (c0 : Bytes) (maxBuf : Nat) :
    Inv (H.new c0.length maxBuf) c0 ∧ abs (H.new c0.length maxBuf) c0 = ⟨c0, 0⟩ := by
  refine ⟨⟨by simp [H.new], by simp [H.new], ?_, by simp [H.new], by simp [H.new], by simp [H.new], ?_⟩, ?_⟩
  · simp only [H.new]; omega
  · intro _; simp [H.new, readAt]
  · simp [abs, absContent, H.new, H.position]

end CfbVerif.Handle
