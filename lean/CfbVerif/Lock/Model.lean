/-!
# `Lock`: threads sharing the one `RwLock` of a `CompoundFile`

Each public call is a short program of lock actions.  `CompoundFile` read-only methods and
`Entries::next` take `.read()`; every handle operation that touches the file takes `.write()`
(lib.rs:197-204, entry.rs:150-181, stream.rs lock sites).  A thread is a sequence of such calls.

The admission rule is a parameter.  `stdAdm` is the rule of std's futex `RwLock` as described in
its source: a writer is admitted when nobody holds the lock; a reader is admitted when no writer
holds it **and no writer is waiting** (writer preference) — which is what turns a recursive read
acquisition into a deadlock.
-/
namespace CfbVerif.Lock

inductive Act
  | acqR | acqW | rel | loc
deriving Repr, DecidableEq

/-- a thread: what it still has to do, and the modes of the guards it holds (innermost first;
`true` = write) -/
structure Thread where
  prog : List Act
  held : List Bool
deriving Repr, DecidableEq

abbrev Sys := List Thread

def Thread.finished (t : Thread) : Bool := t.prog.isEmpty

def holdsAny (σ : Sys) : Bool := σ.any (fun t => !t.held.isEmpty)
def writerHolds (σ : Sys) : Bool := σ.any (fun t => t.held.contains true)
/-- a thread whose next action is `acqW` is (or is about to be) a waiting writer -/
def writerWaiting (σ : Sys) : Bool := σ.any (fun t => t.prog.head? == some .acqW)

structure Admission where
  read : Sys → Bool
  write : Sys → Bool

/-- std's futex RwLock -/
def stdAdm : Admission :=
  { read := fun σ => !writerHolds σ && !writerWaiting σ,
    write := fun σ => !holdsAny σ }

/-- what thread `t` can do next in system `σ`; `none` = blocked or finished -/
def stepThread (adm : Admission) (σ : Sys) (t : Thread) : Option Thread :=
  match t.prog with
  | [] => none
  | .loc :: rest => some { t with prog := rest }
  | .rel :: rest => match t.held with
    | [] => none
    | _ :: hs => some { prog := rest, held := hs }
  | .acqR :: rest => if adm.read σ then some { prog := rest, held := false :: t.held } else none
  | .acqW :: rest => if adm.write σ then some { prog := rest, held := true :: t.held } else none

/-- all successor systems (one per thread that can move) -/
def successors (adm : Admission) (σ : Sys) : List Sys :=
  (List.range σ.length).filterMap (fun i =>
    match σ[i]? with
    | none => none
    | some t => (stepThread adm σ t).map (fun t' => σ.set i t'))

def allFinished (σ : Sys) : Bool := σ.all Thread.finished

/-- stuck: somebody is unfinished and nobody can move -/
def stuck (adm : Admission) (σ : Sys) : Bool := !allFinished σ && (successors adm σ).isEmpty

/-- every acquisition of the program happens while the thread holds nothing, every release has a
guard to release, and nothing is held at the end: `depth` = number of guards held now -/
def flatFrom : Nat → List Act → Bool
  | d, [] => d == 0
  | d, .loc :: rest => flatFrom d rest
  | d, .acqR :: rest => d == 0 && flatFrom 1 rest
  | d, .acqW :: rest => d == 0 && flatFrom 1 rest
  | d, .rel :: rest => d != 0 && flatFrom (d - 1) rest

def Thread.flat (t : Thread) : Bool := flatFrom t.held.length t.prog

/-- bounded search for a stuck state (used by the driver to turn a non-flat trace into a
concrete schedule; it is a search aid, not a proof) -/
def findStuck (adm : Admission) : Nat → List Sys → Option Sys
  | 0, _ => none
  | fuel + 1, frontier =>
    match frontier.find? (stuck adm) with
    | some σ => some σ
    | none =>
      let next := frontier.flatMap (successors adm)
      if next.isEmpty then none else findStuck adm fuel next

end CfbVerif.Lock
