import CfbVerif.Phys.RootCap
import CfbVerif.Phys.MiniFitReach
import CfbVerif.Phys.MiniContent
/-!
# Every mini sector lies inside the mini stream's chain, in every state the store machine reaches

`RootI` (`Phys/RootCap.lean`) carried through every history, and with `MiniFit.root`
(`miniFit_reachable`) turned into the range premise of the mini-chain content theorems: what the
phys driver asserts on every lock-step state (`rootCoverB`) is a theorem for the store machine.
-/
namespace CfbVerif.Phys
open CfbVerif.Raw

theorem root_grun (ops : List GOp) : ∀ g : G, JR g.p g.L → RootI g.p → WritesInRange g ops →
    (grun g ops).p.fat.size ≤ MAXREG + 1 → RootI (grun g ops).p := by
  induction ops with
  | nil => intro g _ c _ _; exact c
  | cons op rest ih =>
    intro g j c hw hb
    simp only [grun] at hb ⊢
    simp only [WritesInRange] at hw
    cases hs : gstep g op with
    | ok g' =>
      simp only [hs] at hb hw ⊢
      have hb' := Nat.le_trans (grun_mono rest g') hb
      exact ih g' (jr_gstep hs j hw.1 hb') (root_gstep hs j hw.1 hb' c) hw.2 hb
    | err k => simp only [hs] at hb hw ⊢; exact ih g j c hw.2 hb
    | panic s => simp only [hs] at hb hw ⊢; exact ih g j c hw.2 hb
    | hang s => simp only [hs] at hb hw ⊢; exact ih g j c hw.2 hb

/-- **the mini stream's chain covers the mini stream in every reachable state** -/
theorem rootI_reachable (v4 : Bool) (ops : List GOp) :
    let g0 : G := { p := Phys.create v4, L := fun _ => 0 }
    WritesInRange g0 ops → (grun g0 ops).p.fat.size ≤ MAXREG + 1 → RootI (grun g0 ops).p := by
  intro g0 hw hb
  exact root_grun ops g0 ⟨jc_init v4, rl_init v4, ss_create v4⟩ (rootI_create v4) hw hb

/-- `RootI` is what the driver's assertion computes -/
theorem rootCoverB_of {p : P} (hb : p.fat.size ≤ MAXREG + 1) (c : RootI p) : rootCoverB p = true := by
  obtain ⟨l, ml, hc, _⟩ := c
  unfold rootCoverB
  apply decide_eq_true
  have hl : chainOrEmpty p p.rootStart = l := by
    rcases ml with ⟨he, hl⟩ | ⟨_, ch⟩
    · rw [he, chainOrEmpty_END]; exact hl.symm
    · unfold chainOrEmpty
      rw [chainIds_of_isChain hb ch]
  rw [hl]
  exact hc

/-- **in every reachable state of the store machine every cell of the in-memory MiniFAT — every id of
every mini chain — names a mini sector whose 64 bytes lie in a sector of the mini stream's chain**:
the range premise of `miniChainWrite_spec`, `miniChainRead_spec`, `miniChainWrite_frame` and
`miniZero_spec`, for every history -/
theorem mini_range_reachable (v4 : Bool) (ops : List GOp) :
    let g0 : G := { p := Phys.create v4, L := fun _ => 0 }
    WritesInRange g0 ops → MiniBounded g0 ops → (grun g0 ops).p.fat.size ≤ MAXREG + 1 →
    ∀ (root : List Nat), chainIds (grun g0 ops).p (grun g0 ops).p.rootStart = .ok root →
    ∀ m, m < (grun g0 ops).p.miniFat.size → m / (grun g0 ops).p.per < root.length := by
  intro g0 hw hm hb root hroot m hlt
  have fit := (miniFit_reachable v4 ops hw hm hb).1
  have c := rootI_reachable v4 ops hw hb
  exact mini_in_root fit (rootCoverB_of hb c) hroot hlt

/-- the sectors of a chain exist (the FAT is as long as the file has sectors) -/
theorem present_of_isChain {p : P} (inv : Inv p) {a : Nat} {l : List Nat} (c : IsChain p.fat a l) : Present p l := by
  intro x hx
  obtain ⟨w, hw, _⟩ := c.used x hx
  have hx1 : x < p.sectors.size := by
    rw [inv.fat.secs, ← inv.fat.size]; exact lt_of_get hw
  exact ⟨_, Array.getElem?_eq_getElem hx1⟩

/-- **in every reachable state of the store machine, zero-filling any mini sector of the MiniFAT makes
it read as 64 zeros and leaves every other mini sector and every sector outside the mini stream as
it was** — `miniZero_blk` with all of its premises discharged from the invariants of the reachable
states (sector sizes, the walkable duplicate-free root chain, the range of the mini sector) -/
theorem mini_zero_reachable (v4 : Bool) (ops : List GOp) :
    let g0 : G := { p := Phys.create v4, L := fun _ => 0 }
    WritesInRange g0 ops → MiniBounded g0 ops → (grun g0 ops).p.fat.size ≤ MAXREG + 1 →
    ∀ m, m < (grun g0 ops).p.miniFat.size →
    ∃ root p', chainIds (grun g0 ops).p (grun g0 ops).p.rootStart = .ok root ∧
      miniWriteAt (grun g0 ops).p m 0 (List.replicate MINI 0) = .ok p' ∧
      miniBlk p' root m = List.replicate 64 0 ∧
      (∀ m2, m2 ≠ m → m2 < (grun g0 ops).p.miniFat.size → miniBlk p' root m2 = miniBlk (grun g0 ops).p root m2) := by
  intro g0 hw hm hb m hlt
  have j := regLen_reachable v4 ops hw hb
  have fit := (miniFit_reachable v4 ops hw hm hb).1
  have c := rootI_reachable v4 ops hw hb
  have hcov := rootCoverB_of hb c
  obtain ⟨l, ml, hc, _⟩ := c
  -- the root chain exists: the MiniFAT is not empty, so the mini stream is not
  have hroot : ∃ ch, l = l ∧ (grun g0 ops).p.rootStart ≠ END ∧ IsChain (grun g0 ops).p.fat (grun g0 ops).p.rootStart l ∧ ch = l := by
    rcases ml with ⟨he, hl⟩ | ⟨hne, ch⟩
    · exfalso
      have hr : (grun g0 ops).p.miniFat.size ≤ (grun g0 ops).p.rootLen / 64 := fit.root
      rw [hl] at hc
      have h0 : (grun g0 ops).p.rootLen = 0 := by simpa using hc
      rw [h0] at hr
      have : (grun g0 ops).p.miniFat.size = 0 := by simpa using hr
      omega
    · exact ⟨l, rfl, hne, ch, rfl⟩
  obtain ⟨_, _, hne, ch, _⟩ := hroot
  have hids : chainIds (grun g0 ops).p (grun g0 ops).p.rootStart = .ok l := chainIds_of_isChain hb ch
  have hp : Present (grun g0 ops).p l := present_of_isChain j.jc.inv ch
  have nd : l.Nodup := isChain_nodup ch
  have hin : ∀ m', m' < (grun g0 ops).p.miniFat.size → m' / (grun g0 ops).p.per < l.length :=
    fun m' h' => mini_in_root fit hcov hids h'
  obtain ⟨p', hw', hz, hfr⟩ := miniZero_blk j.ss hids hp nd (hin m hlt)
  exact ⟨l, p', hids, hw', hz, fun m2 hne2 h2 => hfr m2 hne2 (hin m2 h2)⟩

/-- the mini stream's chain of a reachable state whose MiniFAT is not empty, with everything the
mini-chain content theorems ask of it -/
theorem root_chain_reachable (v4 : Bool) (ops : List GOp) :
    let g0 : G := { p := Phys.create v4, L := fun _ => 0 }
    WritesInRange g0 ops → MiniBounded g0 ops → (grun g0 ops).p.fat.size ≤ MAXREG + 1 →
    0 < (grun g0 ops).p.miniFat.size →
    ∃ root, chainIds (grun g0 ops).p (grun g0 ops).p.rootStart = .ok root ∧ Present (grun g0 ops).p root ∧ root.Nodup ∧
      SS (grun g0 ops).p ∧
      ∀ m, m < (grun g0 ops).p.miniFat.size → m / (grun g0 ops).p.per < root.length := by
  intro g0 hw hm hb hpos
  have j := regLen_reachable v4 ops hw hb
  have fit := (miniFit_reachable v4 ops hw hm hb).1
  have c := rootI_reachable v4 ops hw hb
  have hcov := rootCoverB_of hb c
  obtain ⟨l, ml, hc, _⟩ := c
  have hch : (grun g0 ops).p.rootStart ≠ END ∧ IsChain (grun g0 ops).p.fat (grun g0 ops).p.rootStart l := by
    rcases ml with ⟨he, hl⟩ | ⟨hne, ch⟩
    · exfalso
      have hr : (grun g0 ops).p.miniFat.size ≤ (grun g0 ops).p.rootLen / 64 := fit.root
      rw [hl] at hc
      have h0 : (grun g0 ops).p.rootLen = 0 := by simpa using hc
      rw [h0] at hr
      have : (grun g0 ops).p.miniFat.size = 0 := by simpa using hr
      omega
    · exact ⟨hne, ch⟩
  have hids : chainIds (grun g0 ops).p (grun g0 ops).p.rootStart = .ok l := chainIds_of_isChain hb hch.2
  exact ⟨l, hids, present_of_isChain j.jc.inv hch.2, isChain_nodup hch.2, j.ss,
    fun m' h' => mini_in_root fit hcov hids h'⟩

/-- **in every reachable state of the store machine, writing inside one small stream's mini chain leaves
every other small stream's bytes as they were**: `miniChainWrite_frame` with its premises discharged —
the two chains are those of two entries with different start mini sectors (`MiniLen`: every small
non-empty stream has one), they share no mini sector because no two heads of the MiniFAT reach the
same cell (`NSH.disjoint`, no-sharing invariant), their mini sectors lie inside the mini stream
(`mini_in_root`) -/
theorem mini_write_frame_reachable (v4 : Bool) (ops : List GOp) :
    let g0 : G := { p := Phys.create v4, L := fun _ => 0 }
    WritesInRange g0 ops → MiniBounded g0 ops → (grun g0 ops).p.fat.size ≤ MAXREG + 1 →
    ∀ e1 ∈ (grun g0 ops).p.starts, ∀ e2 ∈ (grun g0 ops).p.starts, e1.2 ≠ e2.2 →
    (grun g0 ops).L e1.1 < CUTOFF → 0 < (grun g0 ops).L e1.1 → (grun g0 ops).L e2.1 < CUTOFF → 0 < (grun g0 ops).L e2.1 →
    ∀ l1 l2, IsChain (grun g0 ops).p.miniFat e1.2 l1 → IsChain (grun g0 ops).p.miniFat e2.2 l2 →
    ∀ (off : Nat) (bs : Bytes), off + bs.length ≤ l1.length * 64 →
    ∃ root p', chainIds (grun g0 ops).p (grun g0 ops).p.rootStart = .ok root ∧
      miniChainWrite (bs.length + 2) (grun g0 ops).p l1 off bs = .ok (p', l1) ∧
      miniBytes p' root l2 = miniBytes (grun g0 ops).p root l2 := by
  intro g0 hw hm hb e1 he1 e2 he2 hne hc1 hp1 hc2 hp2 l1 l2 c1 c2 off bs hlen
  have ja := lengths_reachable v4 ops hw hm hb
  have hin_of : ∀ {a : Nat} {l : List Nat}, IsChain (grun g0 ops).p.miniFat a l → ∀ x ∈ l, x < (grun g0 ops).p.miniFat.size := by
    intro a l c x hx
    obtain ⟨w, hw', _⟩ := c.used x hx
    exact lt_of_get hw'
  obtain ⟨t1, et1⟩ := c1.head
  have hpos : 0 < (grun g0 ops).p.miniFat.size :=
    Nat.lt_of_le_of_lt (Nat.zero_le _) (hin_of c1 e1.2 (by rw [et1]; simp))
  obtain ⟨root, hids, hp, ndr, ss, hin⟩ := root_chain_reachable v4 ops hw hm hb hpos
  have hne1 : e1.2 ≠ END := ((ja.ml e1 he1 hc1).2 hp1).1
  have hne2 : e2.2 ≠ END := ((ja.ml e2 he2 hc2).2 hp2).1
  have hm1 : e1.2 ∈ mregs (grun g0 ops).p.starts (grun g0 ops).L := by
    unfold mregs
    exact List.mem_map.mpr ⟨e1, List.mem_filter.mpr ⟨he1, by simp [isMiniStart, hc1, hne1]⟩, rfl⟩
  have hm2 : e2.2 ∈ mregs (grun g0 ops).p.starts (grun g0 ops).L := by
    unfold mregs
    exact List.mem_map.mpr ⟨e2, List.mem_filter.mpr ⟨he2, by simp [isMiniStart, hc2, hne2]⟩, rfl⟩
  have hdisj : ∀ m ∈ l2, m ∉ l1 := by
    intro m h2 h1
    exact hne (ja.jm.nc.ns.disjoint hm1 hm2 (c1.reach m h1) (c2.reach m h2))
  obtain ⟨p', hw', hb', _⟩ := miniChainWrite_frame (grun g0 ops).p l1 l2 [] off bs ss hids hp ndr (isChain_nodup c1)
    (fun m h => hin m (hin_of c1 m h)) hlen (fun m h => hin m (hin_of c2 m h)) hdisj (by intro id hid; cases hid)
  exact ⟨root, p', hids, hw', hb'⟩

/-- **… and every stream of at least 4096 bytes**: its sectors are none of the mini stream's (two heads of
the FAT never reach the same sector), so its bytes are as they were -/
theorem mini_write_regular_frame_reachable (v4 : Bool) (ops : List GOp) :
    let g0 : G := { p := Phys.create v4, L := fun _ => 0 }
    WritesInRange g0 ops → MiniBounded g0 ops → (grun g0 ops).p.fat.size ≤ MAXREG + 1 →
    ∀ e1 ∈ (grun g0 ops).p.starts, ∀ e2 ∈ (grun g0 ops).p.starts,
    (grun g0 ops).L e1.1 < CUTOFF → 0 < (grun g0 ops).L e1.1 → CUTOFF ≤ (grun g0 ops).L e2.1 → e2.2 ≠ END →
    ∀ l1 l2, IsChain (grun g0 ops).p.miniFat e1.2 l1 → IsChain (grun g0 ops).p.fat e2.2 l2 →
    ∀ (off : Nat) (bs : Bytes), off + bs.length ≤ l1.length * 64 →
    ∃ p', miniChainWrite (bs.length + 2) (grun g0 ops).p l1 off bs = .ok (p', l1) ∧
      chainBytes p' l2 = chainBytes (grun g0 ops).p l2 := by
  intro g0 hw hm hb e1 he1 e2 he2 hc1 hp1 hc2 hne2 l1 l2 c1 c2 off bs hlen
  have ja := lengths_reachable v4 ops hw hm hb
  have hin_of : ∀ x ∈ l1, x < (grun g0 ops).p.miniFat.size := by
    intro x hx
    obtain ⟨w, hw', _⟩ := c1.used x hx
    exact lt_of_get hw'
  obtain ⟨t1, et1⟩ := c1.head
  have hpos : 0 < (grun g0 ops).p.miniFat.size :=
    Nat.lt_of_le_of_lt (Nat.zero_le _) (hin_of e1.2 (by rw [et1]; simp))
  obtain ⟨root, hids, hp, ndr, ss, hin⟩ := root_chain_reachable v4 ops hw hm hb hpos
  -- the root chain as the invariant knows it
  have hrne : (grun g0 ops).p.rootStart ≠ END := by
    intro he
    rw [he, chainIds_END] at hids
    have : root = [] := (Outcome.ok.inj hids).symm
    have := hin e1.2 (hin_of e1.2 (by rw [et1]; simp))
    rw [‹root = []›] at this
    simp at this
  have hrm : (grun g0 ops).p.rootStart ∈ heads (grun g0 ops).p (grun g0 ops).L :=
    List.mem_append_left _ (rs_mem_cont hrne)
  have hreg : e2.2 ∈ regs (grun g0 ops).p.starts (grun g0 ops).L := by
    unfold regs
    exact List.mem_map.mpr ⟨e2, List.mem_filter.mpr ⟨he2, by simp [isRegStart, hc2, hne2]⟩, rfl⟩
  have hem : e2.2 ∈ heads (grun g0 ops).p (grun g0 ops).L := List.mem_append_right _ hreg
  have ns := ja.jr.jc.nc.ns
  have hdiff : (grun g0 ops).p.rootStart ≠ e2.2 := by
    have hnd := ns.nodup
    unfold heads at hnd
    exact (List.nodup_append.mp hnd).2.2 _ (rs_mem_cont hrne) _ hreg
  obtain ⟨cr, hcr⟩ : ∃ cr, IsChain (grun g0 ops).p.fat (grun g0 ops).p.rootStart cr ∧ cr = root := by
    obtain ⟨l0, c0, _⟩ := head_on_chain ja.jr.jc.nc hrm
    have := chainIds_of_isChain hb c0
    rw [hids] at this
    exact ⟨l0, c0, (Outcome.ok.inj this).symm⟩
  have hdisjR : ∀ id ∈ l2, id ∉ root := by
    intro id h2 h1
    rw [← hcr.2] at h1
    exact hdiff (ns.disjoint hrm hem (hcr.1.reach id h1) (c2.reach id h2))
  obtain ⟨p', hw', _, hb'⟩ := miniChainWrite_frame (grun g0 ops).p l1 [] l2 off bs ss hids hp ndr (isChain_nodup c1)
    (fun m h => hin m (hin_of m h)) hlen (by intro m h; cases h) (by intro m h; cases h) hdisjR
  exact ⟨p', hw', hb'⟩

/-- **… and what was written is read back**: in every reachable state, a write inside a small stream's mini
chain followed by a read of the same range returns the bytes written -/
theorem mini_write_read_reachable (v4 : Bool) (ops : List GOp) :
    let g0 : G := { p := Phys.create v4, L := fun _ => 0 }
    WritesInRange g0 ops → MiniBounded g0 ops → (grun g0 ops).p.fat.size ≤ MAXREG + 1 →
    ∀ (a : Nat) (l : List Nat), IsChain (grun g0 ops).p.miniFat a l →
    ∀ (off : Nat) (bs : Bytes), off + bs.length ≤ l.length * 64 →
    ∃ p', miniChainWrite (bs.length + 2) (grun g0 ops).p l off bs = .ok (p', l) ∧
      miniChainRead (bs.length + 2) p' l off bs.length [] = .ok bs := by
  intro g0 hw hm hb a l c off bs hlen
  have hin_of : ∀ x ∈ l, x < (grun g0 ops).p.miniFat.size := by
    intro x hx
    obtain ⟨w, hw', _⟩ := c.used x hx
    exact lt_of_get hw'
  obtain ⟨t1, et1⟩ := c.head
  have hpos : 0 < (grun g0 ops).p.miniFat.size :=
    Nat.lt_of_le_of_lt (Nat.zero_le _) (hin_of a (by rw [et1]; simp))
  obtain ⟨root, hids, hp, ndr, ss, hin⟩ := root_chain_reachable v4 ops hw hm hb hpos
  obtain ⟨p', hw', hr, _⟩ := miniChainWrite_read (grun g0 ops).p l off bs ss hids hp ndr (isChain_nodup c)
    (fun m h => hin m (hin_of m h)) hlen
  exact ⟨p', hw', hr⟩

/-- **the regular level, for the reachable states**: a write inside the chain of one stream of at least 4096
bytes leaves the bytes of every other such stream, and every byte of the mini stream — hence every small
stream — as they were (`chainWrite_read` + single ownership of sectors, `NSH.disjoint`) -/
theorem chain_write_frame_reachable (v4 : Bool) (ops : List GOp) :
    let g0 : G := { p := Phys.create v4, L := fun _ => 0 }
    WritesInRange g0 ops → (grun g0 ops).p.fat.size ≤ MAXREG + 1 →
    ∀ e1 ∈ (grun g0 ops).p.starts, ∀ e2 ∈ (grun g0 ops).p.starts, e1.2 ≠ e2.2 →
    CUTOFF ≤ (grun g0 ops).L e1.1 → e1.2 ≠ END → CUTOFF ≤ (grun g0 ops).L e2.1 → e2.2 ≠ END →
    ∀ l1 l2 lr, IsChain (grun g0 ops).p.fat e1.2 l1 → IsChain (grun g0 ops).p.fat e2.2 l2 →
    ((grun g0 ops).p.rootStart ≠ END → IsChain (grun g0 ops).p.fat (grun g0 ops).p.rootStart lr) →
    ((grun g0 ops).p.rootStart = END → lr = []) →
    ∀ (off : Nat) (bs : Bytes), off + bs.length ≤ l1.length * (grun g0 ops).p.S →
    ∃ p', chainWrite .zero (bs.length + 2) (grun g0 ops).p l1 off bs = .ok (p', l1) ∧
      chainRead (bs.length + 2) p' l1 off bs.length [] = .ok bs ∧
      chainBytes p' l2 = chainBytes (grun g0 ops).p l2 ∧ chainBytes p' lr = chainBytes (grun g0 ops).p lr := by
  intro g0 hw hb e1 he1 e2 he2 hne hc1 hn1 hc2 hn2 l1 l2 lr c1 c2 cr cr0 off bs hlen
  have j := regLen_reachable v4 ops hw hb
  have ns := j.jc.nc.ns
  have mem_reg : ∀ e ∈ (grun g0 ops).p.starts, CUTOFF ≤ (grun g0 ops).L e.1 → e.2 ≠ END →
      e.2 ∈ regs (grun g0 ops).p.starts (grun g0 ops).L := by
    intro e he hc hn
    unfold regs
    exact List.mem_map.mpr ⟨e, List.mem_filter.mpr ⟨he, by simp [isRegStart, hc, hn]⟩, rfl⟩
  have hm1 : e1.2 ∈ heads (grun g0 ops).p (grun g0 ops).L := List.mem_append_right _ (mem_reg e1 he1 hc1 hn1)
  have hm2 : e2.2 ∈ heads (grun g0 ops).p (grun g0 ops).L := List.mem_append_right _ (mem_reg e2 he2 hc2 hn2)
  obtain ⟨p', hw', hr, _, hout⟩ := chainWrite_read .zero (grun g0 ops).p l1 off bs j.ss (present_of_isChain j.jc.inv c1)
    (isChain_nodup c1) hlen
  refine ⟨p', hw', hr, chainBytes_frame l2 ?_, chainBytes_frame lr ?_⟩
  · intro id h2
    apply hout
    intro h1
    exact hne (ns.disjoint hm1 hm2 (c1.reach id h1) (c2.reach id h2))
  · intro id hr'
    apply hout
    intro h1
    by_cases hre : (grun g0 ops).p.rootStart = END
    · rw [cr0 hre] at hr'; cases hr'
    · have hrm : (grun g0 ops).p.rootStart ∈ heads (grun g0 ops).p (grun g0 ops).L :=
        List.mem_append_left _ (rs_mem_cont hre)
      have hdiff : (grun g0 ops).p.rootStart ≠ e1.2 := by
        have hnd := ns.nodup
        unfold heads at hnd
        exact (List.nodup_append.mp hnd).2.2 _ (rs_mem_cont hre) _ (mem_reg e1 he1 hc1 hn1)
      exact hdiff (ns.disjoint hrm hm1 ((cr hre).reach id hr') (c1.reach id h1))

end CfbVerif.Phys
