import CfbVerif.Phys.ChainLen
/-!
# The chain layer stores and returns bytes

`chainBytes p ids` is the concatenation of the contents of the sectors `ids` in chain order.
* `chainRead_spec`: `chainRead` (the `read_exact` loop over `Chain::read`: one sector at a time, from
  `off`) returns exactly `chainBytes.drop off |>.take n`;
* `chainWrite_spec`: `chainWrite` inside the chain's present extent (the `write_all` loop over
  `Chain::write`) replaces exactly the bytes `[off, off + len)` of `chainBytes` and touches no
  sector outside the chain;
* `chainWrite_read`: what was written is read back, and every other byte of the chain is as before.
-/
namespace CfbVerif.Phys
open CfbVerif.Raw

/-! ## byte arrays as lists -/

theorem get!_eq (bs : ByteArray) (i : Nat) (h : i < bs.data.toList.length) : bs.get! i = bs.data.toList[i] := by
  cases bs with
  | mk d =>
    show d[i]! = d.toList[i]
    have h' : i < d.size := by simpa using h
    rw [getElem!_pos d i h']
    simp

theorem toList_loop_eq (bs : ByteArray) (i : Nat) (r : List UInt8) (h : i ≤ bs.size) :
    ByteArray.toList.loop bs i r = r.reverse ++ bs.data.toList.drop i := by
  fun_induction ByteArray.toList.loop bs i r with
  | case1 i r hlt ih =>
    rw [ih (by omega)]
    have hi : i < bs.data.toList.length := by
      have : bs.size = bs.data.toList.length := by rw [Array.length_toList]; rfl
      omega
    rw [List.reverse_cons, List.append_assoc, List.drop_eq_getElem_cons hi, get!_eq bs i hi]
    rfl
  | case2 i r hge =>
    have : bs.data.toList.length ≤ i := by
      have : bs.size = bs.data.toList.length := by rw [Array.length_toList]; rfl
      omega
    rw [List.drop_eq_nil_of_le this]; simp

theorem toList_eq_data (bs : ByteArray) : bs.toList = bs.data.toList := by
  unfold ByteArray.toList
  rw [toList_loop_eq bs 0 [] (Nat.zero_le _)]
  simp

theorem extract_toList (bs : ByteArray) (a b : Nat) : (bs.extract a b).toList = (bs.toList.drop a).take (b - a) := by
  rw [toList_eq_data, toList_eq_data, ByteArray.data_extract, Array.toList_extract, List.extract_eq_take_drop]

theorem append_toList (a b : ByteArray) : (a ++ b).toList = a.toList ++ b.toList := by
  rw [toList_eq_data, toList_eq_data, toList_eq_data, ByteArray.data_append, Array.toList_append]

theorem mk_toList (l : List UInt8) : (ByteArray.mk l.toArray).toList = l := by
  rw [toList_eq_data]

/-- what `writeSector` puts into the sector -/
theorem copySlice_toList (l : List UInt8) (sec : ByteArray) (off : Nat) (h : off + l.length ≤ sec.size) :
    ((ByteArray.mk l.toArray).copySlice 0 sec off l.length).toList =
      sec.toList.take off ++ l ++ sec.toList.drop (off + l.length) := by
  have hsz : sec.data.toList.length = sec.size := by rw [Array.length_toList]; rfl
  rw [toList_eq_data, toList_eq_data]
  show (sec.data.extract 0 off ++ (l.toArray).extract 0 (0 + l.length) ++
      sec.data.extract (off + min l.length ((l.toArray).size - 0)) sec.data.size).toList = _
  simp only [Array.toList_append, Array.toList_extract, List.extract_eq_take_drop, Nat.sub_zero, List.drop_zero,
    Nat.zero_add, List.size_toArray, Nat.min_self, List.toList_toArray]
  have e1 : List.take l.length l = l := List.take_of_length_le (Nat.le_refl l.length)
  have e2 : sec.data.size = sec.size := rfl
  have e3 : List.take (sec.size - (off + l.length)) (List.drop (off + l.length) sec.data.toList) =
      List.drop (off + l.length) sec.data.toList :=
    List.take_of_length_le (by rw [List.length_drop, hsz]; omega)
  rw [e1, e2, e3]

/-! ## the bytes of a chain -/

def secList (p : P) (id : Nat) : List UInt8 := ((p.sectors[id]?).map (·.toList)).getD []

/-- the contents of the chain's sectors, in chain order -/
def chainBytes (p : P) (ids : List Nat) : List UInt8 := (ids.map (secList p)).flatten

def Present (p : P) (ids : List Nat) : Prop := ∀ id ∈ ids, ∃ sec, p.sectors[id]? = some sec

theorem secList_length {p : P} (ss : SS p) {id : Nat} {sec : ByteArray} (h : p.sectors[id]? = some sec) :
    (secList p id).length = p.S := by
  unfold secList
  rw [h]
  simp only [Option.map_some, Option.getD_some]
  rw [byteArray_toList_length, ss id sec h]

/-- inside block `i` of a concatenation of blocks of length `S` -/
theorem flatten_drop_take {α : Type} (S : Nat) : ∀ (blocks : List (List α)), (∀ b ∈ blocks, b.length = S) →
    ∀ (i r k : Nat), i < blocks.length → r + k ≤ S →
    (blocks.flatten.drop (i * S + r)).take k = ((blocks[i]?.getD []).drop r).take k := by
  intro blocks
  induction blocks with
  | nil => intro _ i r k hi; simp at hi
  | cons b rest ih =>
    intro hb i r k hi hrk
    have hbl : b.length = S := hb b (by simp)
    cases i with
    | zero =>
      simp only [Nat.zero_mul, Nat.zero_add, List.flatten_cons, List.getElem?_cons_zero, Option.getD_some]
      rw [List.drop_append_of_le_length (by omega), List.take_append_of_le_length (by rw [List.length_drop]; omega)]
    | succ i =>
      simp only [List.flatten_cons, List.getElem?_cons_succ]
      have e : (i + 1) * S + r = b.length + (i * S + r) := by rw [hbl, Nat.add_mul]; omega
      rw [e, List.drop_append, List.drop_eq_nil_of_le (Nat.le_add_right _ _), List.nil_append, Nat.add_sub_cancel_left]
      exact ih (fun x hx => hb x (List.mem_cons_of_mem _ hx)) i r k (by simpa using hi) hrk

theorem chainBytes_length {p : P} (ss : SS p) : ∀ (ids : List Nat), Present p ids → (chainBytes p ids).length = ids.length * p.S := by
  intro ids
  induction ids with
  | nil => intro _; simp [chainBytes]
  | cons id rest ih =>
    intro hp
    obtain ⟨sec, hsec⟩ := hp id (by simp)
    have := ih (fun x hx => hp x (List.mem_cons_of_mem _ hx))
    simp only [chainBytes, List.map_cons, List.flatten_cons, List.length_append] at this ⊢
    rw [secList_length ss hsec, this, List.length_cons, Nat.add_mul]
    omega

/-- **`chainRead` returns the bytes of the chain**: `n` bytes from offset `off` -/
theorem chainRead_spec (fuel : Nat) : ∀ (p : P) (ids : List Nat) (off n : Nat) (acc : Bytes), SS p → Present p ids →
    off + n ≤ ids.length * p.S → n + 1 ≤ fuel →
    chainRead fuel p ids off n acc = .ok (acc ++ ((chainBytes p ids).drop off).take n) := by
  induction fuel with
  | zero => intro p ids off n acc _ _ _ hf; omega
  | succ fuel ih =>
    intro p ids off n acc ss hp hlen hf
    have hS := S_pos p
    unfold chainRead
    by_cases hn : n = 0
    · rw [if_pos hn, hn]; simp
    · rw [if_neg hn]
      dsimp only
      have hoff : off < ids.length * p.S := by omega
      have hidx : off / p.S < ids.length := (Nat.div_lt_iff_lt_mul hS).mpr hoff
      rw [List.getElem?_eq_getElem hidx]
      simp only
      obtain ⟨sec, hsec⟩ := hp _ (List.getElem_mem hidx)
      have hmod : off % p.S < p.S := Nat.mod_lt _ hS
      generalize hk : min n (p.S - off % p.S) = k
      have hk1 : 1 ≤ k := by omega
      have hkn : k ≤ n := by omega
      have hkS : off % p.S + k ≤ p.S := by omega
      have hread : readSector p ids[off / p.S] (off % p.S) k =
          .ok (((secList p ids[off / p.S]).drop (off % p.S)).take k) := by
        unfold readSector secList
        rw [hsec]
        simp only [Option.map_some, Option.getD_some]
        rw [extract_toList]
        congr 2
        omega
      rw [hread]
      simp only
      rw [ih p ids (off + k) (n - k) _ ss hp (by omega) (by omega)]
      congr 1
      rw [List.append_assoc]
      congr 1
      -- the block lemma
      have hblocks : ∀ b ∈ ids.map (secList p), b.length = p.S := by
        intro b hb
        obtain ⟨id, hid, rfl⟩ := List.mem_map.mp hb
        obtain ⟨s2, hs2⟩ := hp id hid
        exact secList_length ss hs2
      have hdecomp : off = off / p.S * p.S + off % p.S := by
        rw [Nat.mul_comm]; exact (Nat.div_add_mod off p.S).symm
      have hb := flatten_drop_take p.S (ids.map (secList p)) hblocks (off / p.S) (off % p.S) k (by simpa using hidx) hkS
      rw [← hdecomp] at hb
      have hget : (ids.map (secList p))[off / p.S]?.getD [] = secList p ids[off / p.S] := by
        rw [List.getElem?_map, List.getElem?_eq_getElem hidx]; rfl
      rw [hget] at hb
      show _ ++ _ = List.take n (List.drop off (chainBytes p ids))
      unfold chainBytes
      rw [← hb]
      have e1 : n = k + (n - k) := by omega
      conv => rhs; rw [e1, List.take_add]
      rw [List.drop_drop]

/-! ## writing inside a chain -/

/-- byte `j` of the chain, through its sector -/
def byteAt (p : P) (ids : List Nat) (j : Nat) : Option UInt8 :=
  (ids[j / p.S]?).bind (fun id => (secList p id)[j % p.S]?)

theorem chainBytes_get {p : P} (ss : SS p) (ids : List Nat) (hp : Present p ids) (j : Nat) :
    (chainBytes p ids)[j]? = byteAt p ids j := by
  have hS := S_pos p
  unfold byteAt
  by_cases hj : j / p.S < ids.length
  · rw [List.getElem?_eq_getElem hj]
    simp only [Option.bind_some]
    have hblocks : ∀ b ∈ ids.map (secList p), b.length = p.S := by
      intro b hb
      obtain ⟨id, hid, rfl⟩ := List.mem_map.mp hb
      obtain ⟨s2, hs2⟩ := hp id hid
      exact secList_length ss hs2
    have hdecomp : j = j / p.S * p.S + j % p.S := by
      rw [Nat.mul_comm]; exact (Nat.div_add_mod j p.S).symm
    have hmod : j % p.S < p.S := Nat.mod_lt _ hS
    have hb := flatten_drop_take p.S (ids.map (secList p)) hblocks (j / p.S) (j % p.S) 1 (by simpa using hj) (by omega)
    rw [← hdecomp] at hb
    have hget : (ids.map (secList p))[j / p.S]?.getD [] = secList p ids[j / p.S] := by
      rw [List.getElem?_map, List.getElem?_eq_getElem hj]; rfl
    rw [hget] at hb
    have h1 : ∀ (l : List UInt8) (i : Nat), l[i]? = ((l.drop i).take 1).head? := by
      intro l i
      rw [List.head?_take, if_neg (by decide), List.head?_drop]
    rw [h1, h1 (secList p ids[j / p.S])]
    unfold chainBytes
    rw [hb]
  · have hlen := chainBytes_length ss ids hp
    have : (chainBytes p ids).length ≤ j := by
      rw [hlen]
      have := Nat.not_lt.mp hj
      calc ids.length * p.S ≤ j / p.S * p.S := Nat.mul_le_mul_right _ this
        _ ≤ j := Nat.div_mul_le_self j p.S
    rw [List.getElem?_eq_none this, List.getElem?_eq_none (Nat.not_lt.mp hj)]
    rfl

/-- the state differs from `p` only in its sectors -/
def SameButSectors (p p' : P) : Prop := p' = { p with sectors := p'.sectors }

/-- one `writeSector` inside an existing sector -/
theorem writeSector_spec {p : P} (ss : SS p) {id off : Nat} {chunk : Bytes} {sec : ByteArray} (hsec : p.sectors[id]? = some sec)
    (hfit : off + chunk.length ≤ p.S) :
    ∃ p', writeSector p id off chunk = .ok p' ∧ SameButSectors p p' ∧ SS p' ∧
      secList p' id = (secList p id).take off ++ chunk ++ (secList p id).drop (off + chunk.length) ∧
      (∀ i, i ≠ id → p'.sectors[i]? = p.sectors[i]?) ∧ (∃ sec', p'.sectors[id]? = some sec') := by
  have hsz := ss id sec hsec
  have hid : id < p.sectors.size := by
    rcases Nat.lt_or_ge id p.sectors.size with h | h
    · exact h
    · rw [Array.getElem?_eq_none h] at hsec; cases hsec
  unfold writeSector
  rw [hsec]
  refine ⟨_, rfl, rfl, ?_, ?_, ?_, ?_⟩
  · have hcs : ((ByteArray.mk chunk.toArray).copySlice 0 sec off chunk.length).size = sec.size :=
      size_copySlice_within (ByteArray.mk chunk.toArray) sec off chunk.length (by simp [ByteArray.size]) (by rw [hsz]; exact hfit)
    exact ss_set ss (by rw [hcs, hsz])
  · unfold secList
    simp only [Array.getElem?_setIfInBounds, hid, if_true, Option.map_some, Option.getD_some, hsec]
    exact copySlice_toList chunk sec off (by rw [hsz]; exact hfit)
  · intro i hne
    simp only [Array.getElem?_setIfInBounds]
    rw [if_neg (fun e => hne e.symm)]
  · exact ⟨(ByteArray.mk chunk.toArray).copySlice 0 sec off chunk.length, by simp [Array.getElem?_setIfInBounds, hid]⟩

theorem sameButSectors_S {p p' : P} (h : SameButSectors p p') : p'.S = p.S := by
  unfold SameButSectors at h; rw [h]; rfl

theorem nodup_getElem_inj {l : List Nat} (nd : l.Nodup) {i j : Nat} (hi : i < l.length) (hj : j < l.length)
    (h : l[i] = l[j]) : i = j := (List.getElem_inj nd).mp h

/-- the bytes of the chain after one `writeSector` into its sector `off / S` -/
theorem byteAt_writeSector {p p' : P} (ss : SS p) (ids : List Nat) (nd : ids.Nodup) (off : Nat) (chunk : Bytes)
    (hidx : off / p.S < ids.length) (hfit : off % p.S + chunk.length ≤ p.S)
    (hS' : p'.S = p.S)
    (hnew : secList p' ids[off / p.S] = (secList p ids[off / p.S]).take (off % p.S) ++ chunk ++
      (secList p ids[off / p.S]).drop (off % p.S + chunk.length))
    (hlen : (secList p ids[off / p.S]).length = p.S)
    (hother : ∀ i, i ≠ ids[off / p.S] → p'.sectors[i]? = p.sectors[i]?) (j : Nat) :
    byteAt p' ids j = if off ≤ j ∧ j < off + chunk.length then chunk[j - off]? else byteAt p ids j := by
  have hS := S_pos p
  unfold byteAt
  rw [hS']
  have hoffd : off = off / p.S * p.S + off % p.S := by rw [Nat.mul_comm]; exact (Nat.div_add_mod off p.S).symm
  have hjd : j = j / p.S * p.S + j % p.S := by rw [Nat.mul_comm]; exact (Nat.div_add_mod j p.S).symm
  have hjm : j % p.S < p.S := Nat.mod_lt _ hS
  by_cases hsame : j / p.S = off / p.S
  · -- the sector that was written
    rw [hsame, List.getElem?_eq_getElem hidx]
    simp only [Option.bind_some]
    rw [hnew]
    have hrange : (off ≤ j ∧ j < off + chunk.length) ↔ (off % p.S ≤ j % p.S ∧ j % p.S < off % p.S + chunk.length) := by
      rw [hsame] at hjd
      constructor
      · intro ⟨h1, h2⟩; constructor <;> omega
      · intro ⟨h1, h2⟩; constructor <;> omega
    have hsub : j - off = j % p.S - off % p.S := by rw [hsame] at hjd; omega
    by_cases hin : off % p.S ≤ j % p.S ∧ j % p.S < off % p.S + chunk.length
    · rw [if_pos (hrange.mpr hin), hsub]
      have htl : ((secList p ids[off / p.S]).take (off % p.S)).length = off % p.S := by
        rw [List.length_take, hlen]; omega
      rw [List.append_assoc, List.getElem?_append_right (by rw [htl]; exact hin.1), htl,
        List.getElem?_append_left (by omega)]
    · rw [if_neg (fun h => hin (hrange.mp h))]
      have htl : ((secList p ids[off / p.S]).take (off % p.S)).length = off % p.S := by
        rw [List.length_take, hlen]; omega
      by_cases hlow : j % p.S < off % p.S
      · rw [List.append_assoc, List.getElem?_append_left (by rw [htl]; exact hlow), List.getElem?_take_of_lt hlow]
      · have hhigh : off % p.S + chunk.length ≤ j % p.S := by omega
        rw [List.getElem?_append_right (by rw [List.length_append, htl]; exact hhigh), List.length_append, htl,
          List.getElem?_drop]
        congr 1
        omega
  · -- another sector of the chain (or none)
    have hne : ¬ (off ≤ j ∧ j < off + chunk.length) := by
      intro ⟨h1, h2⟩
      apply hsame
      have hjlt : j < (off / p.S + 1) * p.S := by rw [Nat.add_mul]; omega
      have hjge : off / p.S * p.S ≤ j := by omega
      exact Nat.le_antisymm (Nat.lt_succ_iff.mp ((Nat.div_lt_iff_lt_mul hS).mpr hjlt)) ((Nat.le_div_iff_mul_le hS).mpr hjge)
    rw [if_neg hne]
    by_cases hj : j / p.S < ids.length
    · rw [List.getElem?_eq_getElem hj]
      simp only [Option.bind_some]
      have hid : ids[j / p.S] ≠ ids[off / p.S] := fun e => hsame (nodup_getElem_inj nd hj hidx e)
      unfold secList
      rw [hother _ hid]
    · rw [List.getElem?_eq_none (Nat.not_lt.mp hj)]
      rfl

/-- **`chainWrite` inside the chain's extent replaces exactly the bytes `[off, off + len)`** of the chain, keeps
the chain's sector list, touches no sector outside the chain and nothing but sectors -/
theorem chainWrite_spec (kind : Init) (fuel : Nat) : ∀ (p : P) (ids : List Nat) (off : Nat) (bs : Bytes),
    SS p → Present p ids → ids.Nodup → off + bs.length ≤ ids.length * p.S → bs.length + 1 ≤ fuel →
    ∃ p', chainWrite kind fuel p ids off bs = .ok (p', ids) ∧ SameButSectors p p' ∧ SS p' ∧ Present p' ids ∧
      (∀ i, i ∉ ids → p'.sectors[i]? = p.sectors[i]?) ∧
      (∀ j, byteAt p' ids j = if off ≤ j ∧ j < off + bs.length then bs[j - off]? else byteAt p ids j) := by
  induction fuel with
  | zero => intro p ids off bs _ _ _ _ hf; omega
  | succ fuel ih =>
    intro p ids off bs ss hp nd hlen hf
    have hS := S_pos p
    unfold chainWrite
    cases hbs : bs with
    | nil =>
      simp only [List.isEmpty_nil, if_true]
      refine ⟨p, rfl, rfl, ss, hp, fun _ _ => rfl, ?_⟩
      intro j
      rw [if_neg (by simp)]
    | cons b0 brest =>
      rw [← hbs]
      have hne : bs.isEmpty = false := by rw [hbs]; rfl
      rw [hne]
      simp only [Bool.false_eq_true, if_false]
      have hpos : 0 < bs.length := by rw [hbs]; simp
      have hoff : off < ids.length * p.S := by omega
      rw [if_neg (by omega)]
      simp only
      have hidx : off / p.S < ids.length := (Nat.div_lt_iff_lt_mul hS).mpr hoff
      rw [List.getElem?_eq_getElem hidx]
      simp only
      obtain ⟨sec, hsec⟩ := hp _ (List.getElem_mem hidx)
      have hmod : off % p.S < p.S := Nat.mod_lt _ hS
      generalize hn : min bs.length (p.S - off % p.S) = n
      have hn1 : 1 ≤ n := by omega
      have hnl : n ≤ bs.length := by omega
      have htk : (bs.take n).length = n := by rw [List.length_take]; omega
      obtain ⟨p2, hw, hsame, ss2, hnew, hother, hex⟩ :=
        writeSector_spec ss (id := ids[off / p.S]) (off := off % p.S) (chunk := bs.take n) hsec (by rw [htk]; omega)
      rw [hw]
      simp only
      have hS2 : p2.S = p.S := sameButSectors_S hsame
      have hp2 : Present p2 ids := by
        intro id hid
        by_cases he : id = ids[off / p.S]
        · rw [he]; exact hex
        · rw [hother id he]; exact hp id hid
      obtain ⟨p', hcw, hsame', ss', hp', hout', hpt'⟩ :=
        ih p2 ids (off + n) (bs.drop n) ss2 hp2 nd (by rw [List.length_drop, hS2]; omega) (by rw [List.length_drop]; omega)
      refine ⟨p', hcw, ?_, ss', hp', ?_, ?_⟩
      · unfold SameButSectors at hsame hsame' ⊢
        rw [hsame', hsame]
      · intro i hi
        rw [hout' i hi, hother i (fun e => hi (e ▸ List.getElem_mem hidx))]
      · intro j
        rw [hpt' j]
        have hb2 := byteAt_writeSector ss ids nd off (bs.take n) hidx (by rw [htk]; omega) hS2
          (by rw [hnew, htk]) (secList_length ss hsec) hother j
        rw [hb2, htk, List.length_drop]
        by_cases h1 : off + n ≤ j ∧ j < off + n + (bs.length - n)
        · rw [if_pos h1, if_pos (by omega), List.getElem?_drop]
          congr 1
          omega
        · rw [if_neg h1]
          by_cases h2 : off ≤ j ∧ j < off + n
          · rw [if_pos h2, if_pos (by omega), List.getElem?_take_of_lt (by omega)]
          · rw [if_neg h2, if_neg (by omega)]

/-- **what was written is read back, and the rest of the chain is as it was** -/
theorem chainWrite_read (kind : Init) (p : P) (ids : List Nat) (off : Nat) (bs : Bytes)
    (ss : SS p) (hp : Present p ids) (nd : ids.Nodup) (hlen : off + bs.length ≤ ids.length * p.S) :
    ∃ p', chainWrite kind (bs.length + 2) p ids off bs = .ok (p', ids) ∧
      chainRead (bs.length + 2) p' ids off bs.length [] = .ok bs ∧
      chainBytes p' ids = (chainBytes p ids).take off ++ bs ++ (chainBytes p ids).drop (off + bs.length) ∧
      (∀ i, i ∉ ids → p'.sectors[i]? = p.sectors[i]?) := by
  obtain ⟨p', hw, hsame, ss', hp', hout, hpt⟩ := chainWrite_spec kind (bs.length + 2) p ids off bs ss hp nd hlen (by omega)
  have hS' : p'.S = p.S := sameButSectors_S hsame
  have hB : chainBytes p' ids = (chainBytes p ids).take off ++ bs ++ (chainBytes p ids).drop (off + bs.length) := by
    have hl := chainBytes_length ss ids hp
    apply List.ext_getElem?
    intro j
    rw [chainBytes_get ss' ids hp' j, hpt j]
    have htl : ((chainBytes p ids).take off).length = off := by rw [List.length_take, hl]; omega
    by_cases h1 : off ≤ j ∧ j < off + bs.length
    · rw [if_pos h1, List.append_assoc, List.getElem?_append_right (by rw [htl]; exact h1.1), htl,
        List.getElem?_append_left (by omega)]
    · rw [if_neg h1, ← chainBytes_get ss ids hp j]
      by_cases h2 : j < off
      · rw [List.append_assoc, List.getElem?_append_left (by rw [htl]; exact h2), List.getElem?_take_of_lt h2]
      · rw [List.getElem?_append_right (by rw [List.length_append, htl]; omega), List.length_append, htl, List.getElem?_drop]
        congr 1
        omega
  refine ⟨p', hw, ?_, hB, hout⟩
  rw [chainRead_spec _ p' ids off bs.length [] ss' hp' (by rw [hS']; exact hlen) (by omega), hB]
  have hl := chainBytes_length ss ids hp
  have htl : ((chainBytes p ids).take off).length = off := by rw [List.length_take, hl]; omega
  have hd : List.drop off ((chainBytes p ids).take off ++ (bs ++ (chainBytes p ids).drop (off + bs.length))) =
      bs ++ (chainBytes p ids).drop (off + bs.length) := by
    rw [List.drop_append_of_le_length (by rw [htl]; exact Nat.le_refl _), List.drop_eq_nil_of_le (by rw [htl]; exact Nat.le_refl _),
      List.nil_append]
  rw [List.nil_append, List.append_assoc, hd, List.take_append_of_le_length (Nat.le_refl _), List.take_of_length_le (Nat.le_refl _)]

/-- a chain none of whose sectors was touched keeps its bytes -/
theorem chainBytes_frame {p p' : P} (ids2 : List Nat) (h : ∀ id ∈ ids2, p'.sectors[id]? = p.sectors[id]?) :
    chainBytes p' ids2 = chainBytes p ids2 := by
  unfold chainBytes
  congr 1
  apply List.map_congr_left
  intro id hid
  unfold secList
  rw [h id hid]

/-- **writing into one chain leaves every chain that shares no sector with it byte for byte as it was**
(with `NSH.disjoint` — no two owners share a sector, in every reachable state — this is: a write to
one stream's chain changes no other stream's bytes) -/
theorem chainWrite_frame (kind : Init) (p : P) (ids ids2 : List Nat) (off : Nat) (bs : Bytes)
    (ss : SS p) (hp : Present p ids) (nd : ids.Nodup) (hlen : off + bs.length ≤ ids.length * p.S)
    (hdisj : ∀ id ∈ ids2, id ∉ ids) :
    ∃ p', chainWrite kind (bs.length + 2) p ids off bs = .ok (p', ids) ∧ chainBytes p' ids2 = chainBytes p ids2 := by
  obtain ⟨p', hw, _, _, hout⟩ := chainWrite_read kind p ids off bs ss hp nd hlen
  exact ⟨p', hw, chainBytes_frame ids2 (fun id hid => hout id (hdisj id hid))⟩

end CfbVerif.Phys
