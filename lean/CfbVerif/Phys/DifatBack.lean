import CfbVerif.Phys.HeaderBack
/-!
# The DIFAT chain is read back: `open` reconstructs the writer's tables for files of every size

For files with more than 109 FAT sectors the DIFAT continues in DIFAT sectors.  The reader model's
`difatLoop` on the rendered image walks exactly the writer's DIFAT sectors and collects exactly the
writer's DIFAT (padded with FREE to whole sectors), because the DIFAT fits into the header's slots
plus the DIFAT sectors (`CapD`, part of `MK`).  With the header and the FAT stage this gives the
first half of `open` on the rendered image for every reachable state.
-/
namespace CfbVerif.Phys
open CfbVerif.Raw CfbVerif.Dir

theorem rolesOf_difat {p : P} (wf : RolesWf p) (k : Nat) (hk : k < p.difatSectorIds.length) :
    (rolesOf p)[p.difatSectorIds[k]]? = some (.difat k) := by
  have hm : p.difatSectorIds[k] ∈ p.difatSectorIds := List.getElem_mem _
  unfold rolesOf
  simp only [markRoles_eq]
  rw [markFrom_not_mem _ _ _ _ _ (wf.dif_mf _ hm), markFrom_not_mem _ _ _ _ _ (wf.dif_dir _ hm)]
  have := markFrom_get Role.difat p.difatSectorIds (markFrom Role.fat (Array.replicate p.numSectors Role.data) p.difat 0)
    0 k hk wf.difNd (by rw [markFrom_size]; simp; exact wf.difLt _ hm)
  simpa using this

/-- what the renderer puts into DIFAT sector `k` -/
def difatCells (p : P) (k : Nat) : List Nat :=
  (List.range ((p.S - 4) / 4)).map (fun j => (p.difat[Gen.NUM_DIFAT_ENTRIES_IN_HEADER + k * ((p.S - 4) / 4) + j]?).getD FREE)

theorem difat_cell_readback (p : P) (rows : List Row) (ss : SS p) (hs : SlotsOk (slotsOf p rows)) (wf : RolesWf p)
    (k : Nat) (hk : k < p.difatSectorIds.length) (j : Nat) (hj : j < (p.S - 4) / 4) :
    leN (render p rows) (sectorOff p.S p.difatSectorIds[k] (4 * j)) 4 = some ((difatCells p k)[j]'(by unfold difatCells; simpa using hj) % 256 ^ 4) := by
  have hid : p.difatSectorIds[k] < p.numSectors := wf.difLt _ (List.getElem_mem _)
  obtain ⟨_, f2, _, _⟩ := S_facts p
  have hw : 4 * j + 4 ≤ p.S := by omega
  unfold sectorOff
  rw [render_at p rows ss hs _ hid (4 * j) 4 hw]
  unfold sectorStep
  rw [rolesOf_difat wf k hk]
  simp only [Option.getD_some]
  have hsz := prefixOf_size p rows ss hs p.difatSectorIds[k] (Nat.le_of_lt hid)
  have h := pushCells_read (prefixOf p rows p.difatSectorIds[k]) (difatCells p k)
    [(4, (p.difatSectorIds[k + 1]?).getD END)] j (by unfold difatCells; simpa using hj)
  rw [hsz] at h
  simp only [pushFields] at h
  exact h

theorem difat_next_readback (p : P) (rows : List Row) (ss : SS p) (hs : SlotsOk (slotsOf p rows)) (wf : RolesWf p)
    (k : Nat) (hk : k < p.difatSectorIds.length) :
    leN (render p rows) (sectorOff p.S p.difatSectorIds[k] (4 * ((p.S - 4) / 4))) 4 =
      some ((p.difatSectorIds[k + 1]?).getD END % 256 ^ 4) := by
  have hid : p.difatSectorIds[k] < p.numSectors := wf.difLt _ (List.getElem_mem _)
  obtain ⟨_, f2, _, _⟩ := S_facts p
  have hw : 4 * ((p.S - 4) / 4) + 4 ≤ p.S := by omega
  unfold sectorOff
  rw [render_at p rows ss hs _ hid (4 * ((p.S - 4) / 4)) 4 hw]
  unfold sectorStep
  rw [rolesOf_difat wf k hk]
  simp only [Option.getD_some]
  have hsz := prefixOf_size p rows ss hs p.difatSectorIds[k] (Nat.le_of_lt hid)
  have h := le_roundtrip 4 (pushCells (prefixOf p rows p.difatSectorIds[k]) (difatCells p k)) ((p.difatSectorIds[k + 1]?).getD END)
  rw [size_pushCells, hsz] at h
  have hl : (difatCells p k).length = (p.S - 4) / 4 := by unfold difatCells; simp
  rw [hl] at h
  exact h

theorem readDifatEntries_of_cells (img : Img) (c : Nat → Nat) : ∀ (n off : Nat),
    (∀ j, j < n → rd img (off + 4 * j) 4 = .ok (c j)) → (∀ j, j < n → c j = FREE ∨ c j ≤ MAXREG) →
    readDifatEntries img off n = .ok ((List.range n).map c) := by
  intro n
  induction n generalizing c with
  | zero => intro off _ _; rfl
  | succ n ih =>
    intro off h hc
    unfold readDifatEntries
    have h0 := h 0 (Nat.succ_pos _)
    simp only [Nat.mul_zero, Nat.add_zero] at h0
    rw [h0]
    simp only
    have hc0 := hc 0 (Nat.succ_pos _)
    have hcond : ¬ (c 0 ≠ FREE ∧ c 0 > MAXREG) := by
      rcases hc0 with e | e
      · intro hh; exact hh.1 e
      · intro hh; omega
    rw [if_neg hcond]
    rw [ih (fun j => c (j + 1)) (off + 4) (by
      intro j hj
      have := h (j + 1) (by omega)
      have e : off + 4 * (j + 1) = off + 4 + 4 * j := by omega
      rw [e] at this; exact this) (fun j hj => hc (j + 1) (by omega))]
    simp only
    congr 1
    rw [List.range_succ_eq_map]
    simp [List.map_map, Function.comp_def]

theorem difatCells_small {p : P} (hdifat : ∀ x ∈ p.difat, x ≤ MAXREG) (k : Nat) :
    ∀ x ∈ difatCells p k, x = FREE ∨ x ≤ MAXREG := by
  intro x hx
  unfold difatCells at hx
  obtain ⟨j, _, rfl⟩ := List.mem_map.mp hx
  cases hg : p.difat[Gen.NUM_DIFAT_ENTRIES_IN_HEADER + k * ((p.S - 4) / 4) + j]? with
  | none => left; rfl
  | some v => right; exact hdifat v (List.mem_of_getElem? hg)

/-- **the reader walks the writer's DIFAT sectors and collects the writer's DIFAT entries** -/
theorem difatLoop_readback (p : P) (rows : List Row) (ss : SS p) (hs : SlotsOk (slotsOf p rows)) (wf : RolesWf p)
    (hdifat : ∀ x ∈ p.difat, x ≤ MAXREG) (hids : ∀ x ∈ p.difatSectorIds, x ≤ MAXREG) (m : Mode) :
    ∀ (r k : Nat), k + r = p.difatSectorIds.length → ∀ (fuel : Nat), r < fuel → ∀ (acc : List Nat),
    difatLoop m (render p rows) p.S p.numSectors fuel ((p.difatSectorIds[k]?).getD END)
        (p.difatSectorIds.take k).reverse (p.difatSectorIds.take k).reverse acc =
      .ok (p.difatSectorIds, acc ++ ((List.range r).map (fun i => difatCells p (k + i))).flatten) := by
  have big : MAXREG < 256 ^ 4 := by decide
  obtain ⟨f1, f2, _, _⟩ := S_facts p
  have hper : p.S / 4 - 1 = (p.S - 4) / 4 := by omega
  intro r
  induction r with
  | zero =>
    intro k hk fuel hf acc
    have hk' : k = p.difatSectorIds.length := by omega
    have hnone : p.difatSectorIds[k]? = none := List.getElem?_eq_none (by omega)
    rw [hnone]
    cases fuel with
    | zero => omega
    | succ fuel =>
      unfold difatLoop
      simp only [Option.getD_none, true_or, if_true]
      rw [List.reverse_reverse, hk', List.take_length]
      simp
  | succ r ih =>
    intro k hk fuel hf acc
    have hklt : k < p.difatSectorIds.length := by omega
    have hsome : p.difatSectorIds[k]? = some p.difatSectorIds[k] := List.getElem?_eq_getElem hklt
    have hmem : p.difatSectorIds[k] ∈ p.difatSectorIds := List.getElem_mem _
    have hreg := hids _ hmem
    have hlt := wf.difLt _ hmem
    cases fuel with
    | zero => omega
    | succ fuel =>
      unfold difatLoop
      rw [hsome]
      simp only [Option.getD_some]
      have hEND : MAXREG < END := by decide
      have hFREE := MAXREG_lt_FREE
      rw [if_neg (by intro h; rcases h with h | h <;> omega), if_neg (by omega), if_neg (by omega)]
      have hnotseen : (p.difatSectorIds.take k).reverse.contains p.difatSectorIds[k] = false := by
        rw [Bool.eq_false_iff]
        intro hc
        have hm' : p.difatSectorIds[k] ∈ p.difatSectorIds.take k := by simpa using hc
        obtain ⟨i, hi, he⟩ := List.getElem_of_mem hm'
        have hi' : i < k := by simp [List.length_take] at hi; omega
        rw [List.getElem_take] at he
        have := (List.getElem_inj wf.difNd).mp he
        omega
      rw [if_neg (by rw [hnotseen]; simp)]
      -- the entries of this DIFAT sector
      have hent : readDifatEntries (render p rows) (sectorOff p.S p.difatSectorIds[k] 0) (p.S / 4 - 1) =
          .ok (difatCells p k) := by
        rw [hper]
        have hl : (difatCells p k).length = (p.S - 4) / 4 := by unfold difatCells; simp
        have := readDifatEntries_of_cells (render p rows) (fun j => (difatCells p k)[j]?.getD FREE) ((p.S - 4) / 4)
          (sectorOff p.S p.difatSectorIds[k] 0) (by
            intro j hj
            have h1 := difat_cell_readback p rows ss hs wf k hklt j hj
            unfold rd
            unfold sectorOff at h1 ⊢
            simp only [Nat.add_zero]
            rw [h1]
            congr 1
            have hjl : j < (difatCells p k).length := by rw [hl]; exact hj
            rw [List.getElem?_eq_getElem hjl]
            simp only [Option.getD_some]
            have hmod : (difatCells p k)[j] % 256 ^ 4 = (difatCells p k)[j] := by
              rcases difatCells_small hdifat k _ (List.getElem_mem hjl) with e | e
              · rw [e]; decide
              · exact Nat.mod_eq_of_lt (by omega)
            rw [hmod])
          (by
            intro j hj
            have hjl : j < (difatCells p k).length := by rw [hl]; exact hj
            rw [List.getElem?_eq_getElem hjl]
            exact difatCells_small hdifat k _ (List.getElem_mem hjl))
        rw [this]
        congr 1
        apply List.ext_getElem
        · simp [hl]
        · intro i h1 h2
          simp only [List.getElem_map, List.getElem_range]
          rw [List.getElem?_eq_getElem h2]; rfl
      rw [hent]
      simp only
      -- the pointer to the next DIFAT sector
      have hnext : rd (render p rows) (sectorOff p.S p.difatSectorIds[k] (4 * (p.S / 4 - 1))) 4 =
          .ok ((p.difatSectorIds[k + 1]?).getD END) := by
        rw [hper]
        unfold rd
        rw [difat_next_readback p rows ss hs wf k hklt]
        have hmod : (p.difatSectorIds[k + 1]?).getD END % 256 ^ 4 = (p.difatSectorIds[k + 1]?).getD END := by
          cases hg : p.difatSectorIds[k + 1]? with
          | none => decide
          | some v =>
            simp only [Option.getD_some]
            exact Nat.mod_eq_of_lt (by have := hids v (List.mem_of_getElem? hg); omega)
        rw [hmod]
      rw [hnext]
      simp only
      have hnf : (p.difatSectorIds[k + 1]?).getD END ≠ FREE := by
        cases hg : p.difatSectorIds[k + 1]? with
        | none => decide
        | some v => simp only [Option.getD_some]; have := hids v (List.mem_of_getElem? hg); omega
      rw [if_neg (by intro h; exact hnf h.2)]
      have htake : (p.difatSectorIds.take (k + 1)).reverse = p.difatSectorIds[k] :: (p.difatSectorIds.take k).reverse := by
        rw [List.take_succ_eq_append_getElem hklt, List.reverse_append]; rfl
      rw [← htake]
      have := ih (k + 1) (by omega) fuel (by omega) (acc ++ difatCells p k)
      rw [this]
      congr 2
      rw [List.append_assoc]
      congr 1
      rw [List.range_succ_eq_map]
      simp only [List.map_cons, List.flatten_cons, List.map_map, Nat.add_zero]
      congr 2
      apply List.map_congr_left
      intro i _
      simp only [Function.comp_def]
      congr 1
      omega

theorem drop_cells_eq (l : List Nat) (a M : Nat) (hM : l.length - a ≤ M) :
    (List.range M).map (fun t => (l[a + t]?).getD FREE) = l.drop a ++ List.replicate (M - (l.length - a)) FREE := by
  apply List.ext_getElem
  · simp; omega
  · intro i h1 h2
    simp only [List.getElem_map, List.getElem_range]
    simp only [List.length_map, List.length_range] at h1
    by_cases hi : a + i < l.length
    · rw [List.getElem_append_left (by simp; omega)]
      rw [List.getElem?_eq_getElem hi]
      simp
    · rw [List.getElem_append_right (by simp; omega)]
      rw [List.getElem?_eq_none (by omega)]
      simp

/-- header slots plus DIFAT sectors hold the writer's DIFAT, padded with FREE -/
theorem difat_total {p : P} (cap : CapD p) :
    p.difat.take Gen.NUM_DIFAT_ENTRIES_IN_HEADER ++
        ((List.range p.difatSectorIds.length).map (fun k => difatCells p (0 + k))).flatten =
      p.difat ++ List.replicate (p.difatSectorIds.length * ((p.S - 4) / 4) - (p.difat.length - Gen.NUM_DIFAT_ENTRIES_IN_HEADER)) FREE := by
  have hblocks : ((List.range p.difatSectorIds.length).map (fun k => difatCells p (0 + k))).flatten =
      (List.range (p.difatSectorIds.length * ((p.S - 4) / 4))).map
        (fun t => (p.difat[Gen.NUM_DIFAT_ENTRIES_IN_HEADER + t]?).getD FREE) := by
    rw [← flatten_blocks (fun t => (p.difat[Gen.NUM_DIFAT_ENTRIES_IN_HEADER + t]?).getD FREE) ((p.S - 4) / 4)]
    congr 1
    apply List.map_congr_left
    intro k _
    unfold difatCells
    apply List.map_congr_left
    intro j _
    simp only [Nat.zero_add, Nat.add_assoc]
  rw [hblocks, drop_cells_eq p.difat _ _ (by unfold CapD at cap; omega), ← List.append_assoc, List.take_append_drop]

theorem popWhile_pad (l : List Nat) (r : Nat) (h : ∀ x ∈ l, x ≠ FREE) :
    popWhile (fun x => x == FREE) (l ++ List.replicate r FREE) = l := by
  induction r with
  | zero => simpa using popWhile_free_id l h
  | succ r ih =>
    unfold popWhile at ih ⊢
    show (List.dropWhile (fun x => x == FREE) (l ++ List.replicate (r + 1) FREE).reverse).reverse = l
    rw [List.replicate_succ', ← List.append_assoc, List.reverse_append]
    simp only [List.reverse_cons, List.reverse_nil, List.nil_append, List.singleton_append]
    rw [List.dropWhile_cons_of_pos (by simp)]
    exact ih

theorem popZeros_pad (numFat : Nat) (l : List Nat) (r : Nat) (hl : l.length = numFat) : ∀ fuel : Nat,
    popZeros numFat fuel (l ++ List.replicate r FREE) = l ++ List.replicate r FREE := by
  intro fuel
  cases fuel with
  | zero => rfl
  | succ fuel =>
    unfold popZeros
    rw [if_neg]
    intro ⟨_, h2, h3⟩
    cases r with
    | zero => simp at h2; omega
    | succ r =>
      rw [List.replicate_succ', ← List.append_assoc] at h3
      simp at h3
      exact absurd h3 (by decide)

/-- **`open` on the rendered image reconstructs the writer's DIFAT and FAT, for files of every size** -/
theorem open_fat_stage_all {p : P} {L : Nat → Nat} (rows : List Row) (j : JC p L) (mk : MK p) (ss : SS p) (cap : Cap p)
    (hs : SlotsOk (slotsOf p rows)) (hn : p.numSectors ≤ MAXREG) (m : Mode) :
    ∃ h : Header, readHeader m (render p rows) = .ok h ∧ h.v4 = p.v4 ∧ h.firstDirSector = p.dirStart ∧
      h.firstMiniFatSector = p.miniFatStart ∧
      openImg m (render p rows) =
        openAfterFat m (render p rows) h p.numSectors p.difatSectorIds p.difat p.fat := by
  have wf := rolesWf_of j mk
  have sm := hdrSmall_of j mk
  have hdifat : ∀ x ∈ p.difat, x ≤ MAXREG := by
    intro x hx
    have := lt_of_get ((mk.fatMark x).mpr hx)
    have := j.nc.ns.bound
    omega
  have hids : ∀ x ∈ p.difatSectorIds, x ≤ MAXREG := by
    intro x hx
    have := lt_of_get ((mk.difMark x).mpr hx)
    have := j.nc.ns.bound
    omega
  have hh : readHeader m (render p rows) = .ok (hdrOf p) := readHeader_render p rows ss hs sm hdifat hids m
  refine ⟨hdrOf p, hh, rfl, rfl, rfl, ?_⟩
  have hsz := render_size p rows ss hs
  have hS := hdrOf_sectorLen p
  have hSpos := S_pos p
  have hH := (S_facts p).2.2.2
  unfold openImg
  simp only [bind, pure]
  rw [if_neg (by rw [hsz]; have : p.S ≤ (p.numSectors + 1) * p.S := Nat.le_mul_of_pos_left _ (Nat.succ_pos _); omega)]
  rw [hh]
  simp only [liftE, Outcome.bind, hS]
  rw [if_neg (by rw [hsz]; exact Nat.not_lt.mpr (Nat.mul_le_mul_right _ (by omega)))]
  rw [if_neg (by rw [hsz]; have : p.S ≤ (p.numSectors + 1) * p.S := Nat.le_mul_of_pos_left _ (Nat.succ_pos _); omega)]
  have hns : numSectorsOf (render p rows).size p.S = p.numSectors := by
    unfold numSectorsOf
    rw [hsz]
    have : ((p.numSectors + 1) * p.S + p.S - 1) / p.S = p.numSectors + 1 := by
      have e : (p.numSectors + 1) * p.S + p.S - 1 = (p.S - 1) + (p.numSectors + 1) * p.S := by omega
      rw [e, Nat.add_mul_div_right _ _ hSpos, Nat.div_eq_of_lt (by omega)]
      omega
    rw [this]; rfl
  rw [hns]
  have e1 : (hdrOf p).firstDifatSector = (p.difatSectorIds[0]?).getD END := by
    show p.difatSectorIds.head?.getD END = _
    cases p.difatSectorIds <;> rfl
  have e2 : (hdrOf p).initialDifat = p.difat.take Gen.NUM_DIFAT_ENTRIES_IN_HEADER := rfl
  have e3 : (hdrOf p).numDifatSectors = p.difatSectorIds.length := rfl
  have e4 : (hdrOf p).numFatSectors = p.difat.length := rfl
  rw [e1, e2, e3, e4]
  have hlen : p.difatSectorIds.length ≤ p.numSectors :=
    length_le_of_nodup_lt _ _ wf.difNd wf.difLt
  have hloop := difatLoop_readback p rows ss hs wf hdifat hids m p.difatSectorIds.length 0 (by omega) (p.numSectors + 1)
    (by omega) (p.difat.take Gen.NUM_DIFAT_ENTRIES_IN_HEADER)
  simp only [List.take_zero, List.reverse_nil] at hloop
  rw [hloop]
  simp only
  rw [if_neg (by simp)]
  rw [difat_total mk.capD]
  have hnorm : normDifat m p.difat.length
      (p.difat ++ List.replicate (p.difatSectorIds.length * ((p.S - 4) / 4) - (p.difat.length - Gen.NUM_DIFAT_ENTRIES_IN_HEADER)) FREE) =
      p.difat := by
    unfold normDifat
    have hne : ∀ x ∈ p.difat, x ≠ FREE := fun x hx => by have := hdifat x hx; have := MAXREG_lt_FREE; omega
    split
    · exact popWhile_pad _ _ hne
    · rw [popZeros_pad p.difat.length p.difat _ rfl]
      exact popWhile_pad _ _ hne
  rw [hnorm, openTail_eq]
  rw [if_neg (by rw [e4]; simp)]
  obtain ⟨fat0, hr, hv⟩ := reader_fat_is_writer_fat rows j mk ss cap hs m
  rw [hS, hr]
  simp only [liftE, bind, Outcome.bind]
  rw [hv]

/-- **after every history** of the store machine, in both modes: the reader model's `open` on the
rendered image reads the header the renderer wrote, walks the DIFAT chain, loads, normalises and
validates the FAT, and continues on exactly the writer's DIFAT sectors, DIFAT and FAT -/
theorem open_fat_stage_all_reachable (v4 : Bool) (ops : List GOp) (rows : List Row) (m : Mode) :
    let g := grun { p := Phys.create v4, L := fun _ => 0 } ops
    g.p.fat.size ≤ MAXREG → SlotsOk (slotsOf g.p rows) →
    ∃ h : Header, readHeader m (render g.p rows) = .ok h ∧ h.v4 = g.p.v4 ∧ h.firstDirSector = g.p.dirStart ∧
      h.firstMiniFatSector = g.p.miniFatStart ∧
      openImg m (render g.p rows) =
        openAfterFat m (render g.p rows) h g.p.numSectors g.p.difatSectorIds g.p.difat g.p.fat := by
  intro g hfs hs
  have gs := gs_grun ops { p := Phys.create v4, L := fun _ => 0 }
  have hb : g.p.fat.size ≤ MAXREG + 1 := Nat.le_succ_of_le hfs
  have j := noLeak_reachable v4 ops hb
  have mk := (mk_grun_reachable v4 ops hb).1
  have hn : g.p.numSectors ≤ MAXREG := by rw [← j.inv.fat.size]; exact hfs
  exact open_fat_stage_all rows j mk (gs.ss (ss_create v4)) (gs.cap (cap_create v4)) hs hn m

end CfbVerif.Phys
