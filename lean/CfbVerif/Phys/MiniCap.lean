import CfbVerif.Phys.MiniLen
import CfbVerif.Phys.MiniFitA
/-!
# The in-memory MiniFAT fits its chain

`CapI p`: the MiniFAT chain (the FAT chain from `minifat_start_sector`, empty when that is END) has
room for every cell of the in-memory MiniFAT — the fourth clause of `MiniFit` (C02).  Every new
cell is written through `set_minifat`, which checks it against the chain as it is then; what has
to be shown is that the chain never gets shorter afterwards: allocations and the growth of other
chains leave it as it is, `ensureMiniFatRoom` begins or extends it, and nothing that is freed or
cut lies on it — the last needs the no-sharing / no-leak invariant `NC` of the FAT, which is why
this clause is carried beside `JC` and not on its own.  (Without `NC` it is false: F20.)
-/
namespace CfbVerif.Phys
open CfbVerif.Raw

/-- the MiniFAT chain as a list -/
def MChain (p : P) (l : List Nat) : Prop :=
  (p.miniFatStart = END ∧ l = []) ∨ (p.miniFatStart ≠ END ∧ IsChain p.fat p.miniFatStart l)

def CapI (p : P) : Prop := ∃ l, MChain p l ∧ 4 * p.miniFat.size ≤ l.length * p.S

/-- a mini-level step keeps `CapI`, given the FAT-level invariants before it -/
def CapK (p p' : P) : Prop :=
  p'.fat.size ≤ MAXREG + 1 → Inv p → ∀ Y, NC p.fat (cont p ++ Y) → CapI p → CapI p'

theorem CapK.refl (p : P) : CapK p p := fun _ _ _ _ c => c

theorem CapK.kk {p q r : P} (h1 : CapK p q) (k1 : KKC p q) (h2 : CapK q r) (g2 : Good q r) : CapK p r := by
  intro hb inv Y n c
  have hbq : q.fat.size ≤ MAXREG + 1 := Nat.le_trans g2.mono hb
  exact h2 hb (k1.k.good.inv inv (small_of_bound hbq)) Y (k1.k.keep hbq inv Y n) (h1 hbq inv Y n c)

theorem mfs_mem_cont {p : P} (hne : p.miniFatStart ≠ END) : p.miniFatStart ∈ cont p := by
  unfold cont; exact List.mem_cons_of_mem _ (List.mem_append_left _ (hd1_mem hne))

/-- same FAT, same start, same sector size, a MiniFAT that is not longer -/
theorem capk_same {p q : P} (hf : q.fat = p.fat) (hs : q.miniFatStart = p.miniFatStart) (hv : q.v4 = p.v4)
    (hm : q.miniFat.size ≤ p.miniFat.size) : CapK p q := by
  intro _ _ _ _ ⟨l, ml, hc⟩
  refine ⟨l, ?_, ?_⟩
  · rcases ml with ⟨he, hl⟩ | ⟨hne, c⟩
    · exact Or.inl ⟨by rw [hs]; exact he, hl⟩
    · exact Or.inr ⟨by rw [hs]; exact hne, by rw [hs, hf]; exact c⟩
  · rw [S_of_v4 hv]; omega

theorem setMiniFat_check {p p' : P} {i v : Nat} (h : setMiniFat p i v = .ok p') :
    ∃ chain, chainIds p p.miniFatStart = .ok chain ∧ 4 * i + 4 ≤ chain.length * p.S := by
  unfold setMiniFat at h
  obtain ⟨chain, hc, h⟩ := bind_ok h
  refine ⟨chain, hc, ?_⟩
  split at h
  · cases h
  · omega

theorem setMiniFat_v4 {p p' : P} {i v : Nat} (h : setMiniFat p i v = .ok p') : p'.v4 = p.v4 := by
  have := (setMiniFat_ok h).1
  rw [this]

theorem capk_setMiniFat {p p' : P} {i v : Nat} (h : setMiniFat p i v = .ok p') : CapK p p' := by
  have hf := (same_setMiniFat h).1
  have hs := (sf_setMiniFat h).2.1
  have hv := setMiniFat_v4 h
  rcases setMiniFat_ok2 h with ⟨hi, hm⟩ | ⟨hi, hm⟩
  · -- a new cell: the check of `set_minifat` against the chain as it is now
    intro _ _ Y n ⟨l, ml, hc⟩
    obtain ⟨chain, hch, hchk⟩ := setMiniFat_check h
    have hl : chain = l := by
      rcases ml with ⟨he, hl⟩ | ⟨hne, c⟩
      · rw [he] at hch
        have : chainIds p END = .ok [] := by
          unfold chainIds chainFrom chainLoop; simp
        rw [this] at hch; cases hch; exact hl.symm
      · have := chainFrom_of_isChain n.ns (List.mem_append_left _ (mfs_mem_cont hne)) c
        unfold chainIds at hch
        rw [this] at hch; cases hch; rfl
    subst hl
    refine ⟨chain, ?_, ?_⟩
    · rcases ml with ⟨he, hl⟩ | ⟨hne, c⟩
      · exact Or.inl ⟨by rw [hs]; exact he, hl⟩
      · exact Or.inr ⟨by rw [hs]; exact hne, by rw [hs, hf]; exact c⟩
    · rw [S_of_v4 hv, hm, Array.size_push]; omega
  · exact capk_same hf hs hv (by rw [hm]; simp)

/-- `extend_chain` from any sector of a head's chain: the chain gets one sector longer -/
theorem extendChain_grows {p p' : P} {start id : Nat} {k : Init} (h : extendChain p start k = .ok (p', id))
    (hb : p'.fat.size ≤ MAXREG + 1) (inv : Inv p) {hs : List Nat} (n : NC p.fat hs) {hd : Nat} {l : List Nat}
    (hm : hd ∈ hs) (c0 : IsChain p.fat hd l) (hx : start ∈ l) : IsChain p'.fat hd (l ++ [id]) := by
  unfold extendChain at h
  obtain ⟨z, hz, h⟩ := bind_ok h
  obtain ⟨⟨q1, id1⟩, ha, h⟩ := bind_ok h
  obtain ⟨q2, hset, h⟩ := bind_ok h
  cases h
  have hl := (lastOfChain_mem c0 hx hz).2
  have hlast := lastOfChain_ok _ _ hz
  have r := inv_allocateSector inv ha
  have hb1 : q1.fat.size ≤ MAXREG + 1 := Nat.le_trans (setFat_mono hset) hb
  have hidnot : id ∉ l := by
    intro hmem
    obtain ⟨w, hw, hwf⟩ := c0.used id hmem
    rcases r.2.2.1 with hfr | hge
    · rw [hw] at hfr; exact hwf (Option.some.inj hfr)
    · have := lt_of_get hw; omega
  have c1 : IsChain q1.fat hd l := by
    refine c0.frame ?_
    intro x hx'
    obtain ⟨w, hw, _⟩ := c0.used x hx'
    exact allocateSector_frame inv ha x (lt_of_get hw) (fun e => hidnot (e ▸ hx'))
  have cid : IsChain q1.fat id [id] := IsChain.last r.2.1
  have n1 := nc_allocateSector inv ha hb1 n
  have hidreg : id ≤ MAXREG := n1.ns.head_reg (List.mem_cons_self ..)
  have hnd : l.Nodup := c0.nodup n.ns hm
  have hp' : p'.fat = q1.fat.setIfInBounds z id := by
    rcases setFat_ok hset with ⟨he2, _⟩ | ⟨_, he2⟩
    · have := Nat.lt_of_lt_of_le hlast.1 (allocateSector_mono ha); omega
    · subst he2; rfl
  rw [hp']
  exact c1.append cid hl hidreg (by intro x hx'; simp at hx'; subst hx'; exact hidnot) hnd

theorem capk_ensureMiniFatRoom {p p' : P} (h : ensureMiniFatRoom p = .ok p') : CapK p p' := by
  have hmf := mf_ensureMiniFatRoom h
  unfold ensureMiniFatRoom at h
  dsimp only at h
  split at h
  · rename_i hend
    split at h
    · rename_i p1 id ha
      cases h
      intro hb inv Y n ⟨l, ml, hc⟩
      have r := inv_allocateSector inv ha
      have n1 := nc_allocateSector inv ha hb n
      have hidreg : id ≤ MAXREG := n1.ns.head_reg (List.mem_cons_self ..)
      have hl : l = [] := by
        rcases ml with ⟨_, hl⟩ | ⟨hne, _⟩
        · exact hl
        · exact absurd hend hne
      subst hl
      refine ⟨[id], Or.inr ⟨?_, IsChain.last r.2.1⟩, ?_⟩
      · show id ≠ END
        have := MAXREG_lt_END; omega
      · show 4 * p1.miniFat.size ≤ 1 * p1.S
        have : p1.miniFat.size = p.miniFat.size := by rw [← hmf]
        rw [this]
        simp at hc
        omega
    · cases h
    · cases h
    · cases h
  · rename_i hne
    split at h
    · split at h
      · split at h
        · split at h
          · rename_i p1 id he; cases h
            intro hb inv Y n ⟨l, ml, hc⟩
            have c : IsChain p.fat p.miniFatStart l := by
              rcases ml with ⟨he', _⟩ | ⟨_, c⟩
              · exact absurd he' hne
              · exact c
            obtain ⟨t, et⟩ := c.head
            have c' := extendChain_grows he hb inv n (List.mem_append_left _ (mfs_mem_cont hne)) c (by rw [et]; simp)
            have hs := (sf_extendChain he).2.1
            refine ⟨l ++ [id], Or.inr ⟨by rw [hs]; exact hne, by rw [hs]; exact c'⟩, ?_⟩
            rw [hmf, S_of_v4 (extendChain_v4 he), List.length_append]
            simp only [List.length_singleton]
            have : (l.length + 1) * p.S = l.length * p.S + p.S := by rw [Nat.add_mul, Nat.one_mul]
            omega
          · cases h
          · cases h
          · cases h
        · cases h; exact CapK.refl _
      · cases h
      · cases h
      · cases h
    · cases h; exact CapK.refl _

theorem capk_ensureRootRoom {p p' : P} (h : ensureRootRoom p = .ok p') : CapK p p' := by
  have hmf := mf_ensureRootRoom h
  unfold ensureRootRoom at h
  split at h
  · split at h
    · rename_i p1 id ha
      cases h
      intro hb inv Y n ⟨l, ml, hc⟩
      have hs := (sf_allocateSector ha).2.1
      refine ⟨l, ?_, ?_⟩
      · rcases ml with ⟨he, hl⟩ | ⟨hne, c⟩
        · exact Or.inl ⟨by show p1.miniFatStart = END; rw [hs]; exact he, hl⟩
        · refine Or.inr ⟨by show p1.miniFatStart ≠ END; rw [hs]; exact hne, ?_⟩
          show IsChain p1.fat p1.miniFatStart l
          rw [hs]
          exact pres_allocateSector ha [] hb inv (cont p ++ Y) (by simpa using n) _
            (List.mem_append_left _ (mfs_mem_cont hne)) l c
      · show 4 * p1.miniFat.size ≤ l.length * p1.S
        have : p1.miniFat.size = p.miniFat.size := by rw [← hmf]
        rw [this, S_of_v4 (allocateSector_v4 ha)]; exact hc
    · cases h
    · cases h
    · cases h
  · rename_i hroot
    split at h
    · split at h
      · split at h
        · split at h
          · rename_i p1 id he; cases h
            intro hb inv Y n ⟨l, ml, hc⟩
            have hs := (sf_extendChain he).2.1
            refine ⟨l, ?_, ?_⟩
            · rcases ml with ⟨he', hl⟩ | ⟨hne, c⟩
              · exact Or.inl ⟨by rw [hs]; exact he', hl⟩
              · refine Or.inr ⟨by rw [hs]; exact hne, ?_⟩
                rw [hs]
                -- the heads rearranged: the mini stream's chain is the one worked on
                have hperm : (cont p ++ Y).Perm ([p.rootStart] ++ ((p.dirStart :: hd1 p.miniFatStart) ++ Y)) := by
                  have e : cont p ++ Y = (p.dirStart :: hd1 p.miniFatStart) ++ p.rootStart :: Y := by
                    unfold cont hd1; rw [if_neg hroot]; simp
                  rw [e]
                  exact List.perm_middle
                have n' := n.perm hperm
                obtain ⟨l0, c0, hs0⟩ := head_on_chain n' (List.mem_append_left _ (List.mem_singleton.mpr rfl))
                have hmem : p.miniFatStart ∈ (p.dirStart :: hd1 p.miniFatStart) ++ Y :=
                  List.mem_append_left _ (List.mem_cons_of_mem _ (hd1_mem hne))
                exact pres_extendChain he hb inv _ n' ⟨p.rootStart, List.mem_singleton.mpr rfl, l0, c0, hs0⟩ _ hmem l c
            · rw [hmf, S_of_v4 (extendChain_v4 he)]; exact hc
          · cases h
          · cases h
          · cases h
        · cases h; exact CapK.refl _
      · cases h
      · cases h
      · cases h
    · cases h; exact CapK.refl _

theorem capk_appendMiniSector {p p' : P} (h : appendMiniSector p = .ok p') : CapK p p' := by
  unfold appendMiniSector at h
  split at h
  · rename_i q hr; cases h
    intro hb inv Y n c
    have c1 : CapI q := capk_ensureRootRoom hr hb inv Y n c
    exact c1
  · cases h
  · cases h
  · cases h

theorem popFreeMini_v4 {fuel : Nat} {p p1 : P} {r : Option Nat} (h : popFreeMini p fuel = .ok (p1, r)) : p1.v4 = p.v4 := by
  have e := (popFreeMini_ok fuel h).1
  rw [e]

theorem capk_popFreeMini {fuel : Nat} {p p1 : P} {r : Option Nat} (h : popFreeMini p fuel = .ok (p1, r)) : CapK p p1 :=
  capk_same (same_popFreeMini h).1 (sf_popFreeMini h).2.1 (popFreeMini_v4 h) (by rw [mf_popFreeMini h]; exact Nat.le_refl _)

theorem capk_allocateMiniSector {p p' : P} {v id : Nat} (h : allocateMiniSector p v = .ok (p', id)) : CapK p p' := by
  unfold allocateMiniSector at h
  obtain ⟨⟨p1, reuse⟩, hp, h⟩ := bind_ok h
  have k0 : KKC p p1 := KKC.of_same (same_popFreeMini hp) (sf_popFreeMini hp)
  have c0 := capk_popFreeMini hp
  dsimp only at h
  split at h
  · obtain ⟨p2, hs, h⟩ := bind_ok h
    cases h
    exact c0.kk k0 (capk_setMiniFat hs) (Good.of_same (same_setMiniFat hs))
  · obtain ⟨p2, h2, h⟩ := bind_ok h
    obtain ⟨p3, h3, h⟩ := bind_ok h
    obtain ⟨p4, h4, h⟩ := bind_ok h
    cases h
    have a := c0.kk k0 (capk_ensureMiniFatRoom h2) (good_ensureMiniFatRoom h2)
    have b := a.kk (k0.trans (kkc_ensureMiniFatRoom h2)) (capk_appendMiniSector h3) (good_appendMiniSector h3)
    exact b.kk ((k0.trans (kkc_ensureMiniFatRoom h2)).trans (kkc_appendMiniSector h3)) (capk_setMiniFat h4)
      (Good.of_same (same_setMiniFat h4))

theorem capk_extendMiniChain {p p' : P} {start id : Nat} (h : extendMiniChain p start = .ok (p', id)) : CapK p p' := by
  unfold extendMiniChain at h
  obtain ⟨last, hl, h⟩ := bind_ok h
  obtain ⟨⟨p1, i1⟩, ha, h⟩ := bind_ok h
  obtain ⟨p2, hs, h⟩ := bind_ok h
  cases h
  exact (capk_allocateMiniSector ha).kk (kkc_allocateMiniSector ha) (capk_setMiniFat hs) (Good.of_same (same_setMiniFat hs))

theorem capk_growOneMini {p p' : P} {ids ids' : List Nat} (h : growOneMini p ids = .ok (p', ids')) : CapK p p' := by
  unfold growOneMini at h
  split at h
  · split at h
    · rename_i he; cases h; exact capk_extendMiniChain he
    · cases h
    · cases h
    · cases h
  · split at h
    · rename_i he; cases h; exact capk_allocateMiniSector he
    · cases h
    · cases h
    · cases h

theorem miniWriteAt_v4 {p p' : P} {m off : Nat} {bs : Bytes} (h : miniWriteAt p m off bs = .ok p') : p'.v4 = p.v4 := by
  unfold miniWriteAt at h
  obtain ⟨⟨sid, base⟩, hl, h⟩ := bind_ok h
  exact writeSector_v4 h

theorem capk_miniWriteAt {p p' : P} {m off : Nat} {bs : Bytes} (h : miniWriteAt p m off bs = .ok p') : CapK p p' :=
  capk_same (same_miniWriteAt h).1 (kkc_miniWriteAt h |> fun _ => by
    unfold miniWriteAt at h
    obtain ⟨⟨sid, base⟩, hl, h⟩ := bind_ok h
    exact (sf_writeSector h).2.1) (miniWriteAt_v4 h) (by rw [mf_miniWriteAt h]; exact Nat.le_refl _)

theorem capk_miniChainWrite (fuel : Nat) : ∀ {p p' : P} {ids ids' : List Nat} {off : Nat} {bs : Bytes},
    miniChainWrite fuel p ids off bs = .ok (p', ids') → CapK p p' := by
  induction fuel with
  | zero => intro p p' ids ids' off bs h; simp [miniChainWrite] at h
  | succ fuel ih =>
    intro p p' ids ids' off bs h
    unfold miniChainWrite at h
    split at h
    · cases h; exact CapK.refl _
    · split at h
      · rename_i p1 ids1 hgrow
        have g1 : CapK p p1 ∧ KKC p p1 := by
          split at hgrow
          · exact ⟨capk_growOneMini hgrow, kkc_growOneMini hgrow⟩
          · cases hgrow; exact ⟨CapK.refl _, KKC.refl _⟩
        split at h
        · cases h
        · dsimp only at h
          split at h
          · rename_i p2 hw
            have s2 := same_miniWriteAt hw
            have a := g1.1.kk g1.2 (capk_miniWriteAt hw) (Good.of_same s2)
            exact a.kk (g1.2.trans (kkc_miniWriteAt hw)) (ih h) (good_miniChainWrite _ h)
          · cases h
          · cases h
          · cases h
      · cases h
      · cases h
      · cases h

theorem capk_miniChainGrow (fuel : Nat) : ∀ {p p' : P} {ids ids' : List Nat} {target : Nat},
    miniChainGrow fuel p ids target = .ok (p', ids') → CapK p p' := by
  induction fuel with
  | zero => intro p p' ids ids' target h; simp [miniChainGrow] at h
  | succ fuel ih =>
    intro p p' ids ids' target h
    unfold miniChainGrow at h
    split at h
    · cases h; exact CapK.refl _
    · split at h
      · rename_i p1 ids1 hg
        split at h
        · rename_i p2 hw
          have s2 := same_miniWriteAt hw
          have a := (capk_growOneMini hg).kk (kkc_growOneMini hg) (capk_miniWriteAt hw) (Good.of_same s2)
          exact a.kk ((kkc_growOneMini hg).trans (kkc_miniWriteAt hw)) (ih h) (good_miniChainGrow _ h)
        · cases h
        · cases h
        · cases h
      · cases h
      · cases h
      · cases h

end CfbVerif.Phys

/-! ## releases: the FAT is not touched and the MiniFAT does not grow -/
namespace CfbVerif.Phys
open CfbVerif.Raw

theorem trim_size_le : ∀ (fuel : Nat) (mf : Array Nat) (len : Nat), (trimMiniFat fuel mf len).1.size ≤ mf.size := by
  intro fuel
  induction fuel with
  | zero => intro mf len; exact Nat.le_refl _
  | succ fuel ih =>
    intro mf len
    unfold trimMiniFat
    split
    · exact Nat.le_trans (ih _ _) (by rw [Array.size_pop]; omega)
    · exact Nat.le_refl _

theorem freeMiniSector_size_le {p p' : P} {id : Nat} (h : freeMiniSector p id = .ok p') : p'.miniFat.size ≤ p.miniFat.size := by
  unfold freeMiniSector at h
  split at h
  · cases h
  · rename_i cell hc
    split at h
    · cases h
    · obtain ⟨p1, hs, h⟩ := bind_ok h
      cases h
      have hset : p1.miniFat.size = p.miniFat.size := by
        rcases setMiniFat_ok2 hs with ⟨he, _⟩ | ⟨_, he⟩
        · have := lt_of_get hc; omega
        · rw [he]; simp
      have t := trim_size_le (p1.miniFat.size + 1) p1.miniFat p1.rootLen
      have t2 : (trimMiniFat (p1.miniFat.size + 1) p1.miniFat p1.rootLen).1.size ≤ p.miniFat.size := Nat.le_trans t (Nat.le_of_eq hset)
      exact t2

theorem freeMiniChain_size_le (fuel : Nat) : ∀ {p p' : P} {cur : Nat}, freeMiniChain p fuel cur = .ok p' →
    p'.miniFat.size ≤ p.miniFat.size := by
  induction fuel with
  | zero => intro p p' cur h; simp [freeMiniChain] at h
  | succ fuel ih =>
    intro p p' cur h
    unfold freeMiniChain at h
    split at h
    · cases h; exact Nat.le_refl _
    · split at h
      · cases h
      · split at h
        · rename_i p1 h1
          exact Nat.le_trans (ih h) (freeMiniSector_size_le h1)
        · cases h
        · cases h
        · cases h

theorem sf_freeMiniChain (fuel : Nat) : ∀ {p p' : P} {cur : Nat}, freeMiniChain p fuel cur = .ok p' → SF p p' := by
  induction fuel with
  | zero => intro p p' cur h; simp [freeMiniChain] at h
  | succ fuel ih =>
    intro p p' cur h
    unfold freeMiniChain at h
    split at h
    · cases h; exact SF.refl _
    · split at h
      · cases h
      · split at h
        · rename_i p1 h1
          exact (sf_freeMiniSector h1).trans (ih h)
        · cases h
        · cases h
        · cases h

theorem capk_freeMiniChain {fuel : Nat} {p p' : P} {cur : Nat} (h : freeMiniChain p fuel cur = .ok p') : CapK p p' :=
  capk_same (same_freeMiniChain _ h).1 (sf_freeMiniChain _ h).2.1 (GS.of_same (ssm_freeMiniChain _ h)).v4
    (freeMiniChain_size_le _ h)

theorem capk_freeMiniChainFrom {p p' : P} {start : Nat} (h : freeMiniChainFrom p start = .ok p') : CapK p p' :=
  capk_freeMiniChain h

theorem capk_freeMiniChainAfter {p p' : P} {id : Nat} (h : freeMiniChainAfter p id = .ok p') : CapK p p' := by
  have hv := (GS.of_same (ssm_freeMiniChainAfter h)).v4
  have hf := (same_freeMiniChainAfter h).1
  unfold freeMiniChainAfter at h
  split at h
  · cases h
  · rename_i next hn
    obtain ⟨p1, hs, h⟩ := bind_ok h
    have ns := nextSector_ok (fat := p.miniFat) hn
    have hsz : p1.miniFat.size = p.miniFat.size := by
      rcases setMiniFat_ok2 hs with ⟨he, _⟩ | ⟨_, he⟩
      · omega
      · rw [he]; simp
    exact capk_same hf ((sf_setMiniFat hs).trans (sf_freeMiniChain _ h)).2.1 hv
      (Nat.le_trans (freeMiniChain_size_le _ h) (Nat.le_of_eq hsz))

theorem capk_miniChainSetLen {p p' : P} {ids ids' : List Nat} {n : Nat}
    (h : miniChainSetLen p ids n = .ok (p', ids')) : CapK p p' := by
  unfold miniChainSetLen at h
  dsimp only at h
  split at h
  · split at h
    · obtain ⟨q, hf, h⟩ := obind_ok h
      cases h; exact capk_freeMiniChainFrom hf
    · cases h; exact CapK.refl _
  · split at h
    · split at h
      · split at h
        · obtain ⟨q, hf, h⟩ := obind_ok h
          cases h; exact capk_freeMiniChainAfter hf
        · cases h
      · cases h; exact CapK.refl _
    · exact capk_miniChainGrow _ h

end CfbVerif.Phys

/-! ## inside the store operations -/
namespace CfbVerif.Phys
open CfbVerif.Raw

/-- a mini-level step at a point where the container chains and the other owners' heads are known -/
theorem cap_mini {q q' : P} {Y : List Nat} (ck : CapK q q') (a : At q [] (cont q ++ Y)) (hb : q'.fat.size ≤ MAXREG + 1)
    (c : CapI q) : CapI q' :=
  ck hb a.inv Y (by simpa [hdl] using a.nc) c

/-- a step on somebody else's regular chain: the MiniFAT chain is among the preserved ones -/
theorem cap_reg {q q' : P} {Y : List Nat} (pr : Pres q q' (cont q ++ Y)) (sf : SF q q') (hm : q'.miniFat = q.miniFat)
    (hv : q'.v4 = q.v4) (c : CapI q) : CapI q' := by
  obtain ⟨l, ml, hc⟩ := c
  refine ⟨l, ?_, by rw [hm, S_of_v4 hv]; exact hc⟩
  rcases ml with ⟨he, hl⟩ | ⟨hne, ch⟩
  · exact Or.inl ⟨by rw [sf.2.1]; exact he, hl⟩
  · exact Or.inr ⟨by rw [sf.2.1]; exact hne, by
      rw [sf.2.1]; exact pr _ (List.mem_append_left _ (mfs_mem_cont hne)) l ch⟩

theorem capI_setStart {q : P} (c : CapI q) (s x : Nat) : CapI (setStart q s x) := c
theorem capI_dropStart {q : P} (c : CapI q) (s : Nat) : CapI (dropStart q s) := c

theorem cap_writeData {p p' : P} {L : Nat → Nat} {slot off n : Nat} {buf : Bytes}
    (h : writeData p slot (L slot) off buf = .ok (p', n)) (j : JC p L) (ss : SS p)
    (hoff : off ≤ L slot) (hb : p'.fat.size ≤ MAXREG + 1) (c : CapI p) : CapI p' := by
  have hS := S_cases p
  unfold writeData at h
  dsimp only [bind, pure] at h
  split at h
  · rename_i hend
    have hown : ownOf p.starts L slot = [] := ownOf_noStart L hend
    have a0 := at_start_none j hown
    split at h
    · cases h
    · split at h
      · obtain ⟨⟨q, ids⟩, hw, h⟩ := obind_ok h
        cases h
        exact capI_setStart (cap_mini (capk_miniChainWrite _ hw) a0 hb c) _ _
      · obtain ⟨⟨q, ids⟩, hw, h⟩ := obind_ok h
        cases h
        obtain ⟨a1, hv, hl, pr, _, hst⟩ := at_chainWrite hw a0 (by simp) hb
        exact capI_setStart (cap_reg pr (kc_chainWrite _ _ hw).2 (sm_chainWrite _ _ hw).1 hv c) _ _
  · rename_i hstart
    split at h
    · rename_i hsmallOld
      have hown : ownOf p.starts L slot = [] := ownOf_small _ hsmallOld
      have a0 := at_start_none j hown
      split at h
      · obtain ⟨ids, hi, h⟩ := obind_ok h
        split at h
        · cases h
        · obtain ⟨⟨q, ids'⟩, hw, h⟩ := obind_ok h
          cases h
          exact cap_mini (capk_miniChainWrite _ hw) a0 hb c
      · obtain ⟨ids, hi, h⟩ := obind_ok h
        obtain ⟨tmp, hr, h⟩ := obind_ok h
        obtain ⟨q1, hf, h⟩ := obind_ok h
        obtain ⟨⟨q2, ids1⟩, hw1, h⟩ := obind_ok h
        obtain ⟨⟨q3, ids2⟩, hw2, h⟩ := obind_ok h
        cases h
        have hb2 : q2.fat.size ≤ MAXREG + 1 := Nat.le_trans (kc_chainWrite _ _ hw2).1.good.mono hb
        have hb1 : q1.fat.size ≤ MAXREG + 1 := Nat.le_trans (kc_chainWrite _ _ hw1).1.good.mono hb2
        have hv1 : q1.v4 = p.v4 := (GS.of_same (ssm_freeMiniChain _ hf)).v4
        have c1 := cap_mini (capk_freeMiniChainFrom hf) a0 hb1 c
        obtain ⟨a1, pr1, hst1⟩ := at_mini (kkc_freeMiniChainFrom hf) (pk_of_same (same_freeMiniChain _ hf)) a0 hb1
        obtain ⟨a2, hv2, hl1, pr2, hcont2, hst2⟩ := at_chainWrite hw1 a1 (by simp) hb2
        have c2 := cap_reg pr2 (kc_chainWrite _ _ hw1).2 (sm_chainWrite _ _ hw1).1 hv2 c1
        have hS1 : q1.S = p.S := S_of_v4 hv1
        have hS2 : q2.S = p.S := by rw [S_of_v4 hv2, hS1]
        have htmp : tmp.length = off := by have := miniChainRead_len ss _ hr; simpa using this
        rw [htmp] at hw2 hl1
        rw [hS1] at hl1
        have hoff2 : off ≤ ids1.length * q2.S := by
          rw [hl1, hS2]
          rcases hS with hS | hS <;> rw [hS] <;> omega
        obtain ⟨a3, hv3, hl2, pr3, _, hst3⟩ := at_chainWrite hw2 a2 hoff2 hb
        rw [← hcont2] at pr3
        have c3 := cap_reg pr3 (kc_chainWrite _ _ hw2).2 (sm_chainWrite _ _ hw2).1 hv3 c2
        exact capI_setStart c3 _ _
    · rename_i hbig
      have hc0 : CUTOFF ≤ L slot := Nat.le_of_not_lt hbig
      obtain ⟨ids, hi, h⟩ := obind_ok h
      split at h
      · cases h
      · rename_i hguard
        obtain ⟨⟨q, ids'⟩, hw, h⟩ := obind_ok h
        cases h
        have a0 := at_start_own j hc0 hstart hi
        obtain ⟨a1, hv, hl, pr, _, hst⟩ := at_chainWrite hw a0 (Nat.le_of_not_lt hguard) hb
        exact cap_reg pr (kc_chainWrite _ _ hw).2 (sm_chainWrite _ _ hw).1 hv c

end CfbVerif.Phys

namespace CfbVerif.Phys
open CfbVerif.Raw

theorem cap_resize {p p' : P} {L : Nat → Nat} {slot newLen : Nat}
    (h : resize p slot (L slot) newLen = .ok p') (j : JC p L) (r : RegLen p L)
    (hb : p'.fat.size ≤ MAXREG + 1) (c : CapI p) : CapI p' := by
  unfold resize at h
  dsimp only [bind, pure] at h
  split at h
  · rename_i hend
    have hown : ownOf p.starts L slot = [] := ownOf_noStart L hend
    have a0 := at_start_none j hown
    split at h
    · cases h
    · split at h
      · obtain ⟨⟨q, ids⟩, hw, h⟩ := obind_ok h
        cases h
        exact capI_setStart (cap_mini (capk_miniChainSetLen hw) a0 hb c) _ _
      · rename_i hbig
        obtain ⟨⟨q, ids⟩, hw, h⟩ := obind_ok h
        cases h
        have hpos : 0 < newLen := by have := CUTOFF_pos; omega
        obtain ⟨l', a1, hh, hl, hv, pr, _, hst, _⟩ := at_chainSetLen hpos hw a0 hb
        exact capI_setStart (cap_reg pr (kc_chainSetLen hpos hw).2 (sm_chainSetLen hw).1 hv c) _ _
  · rename_i hstart
    split at h
    · rename_i hsmallOld
      have hown : ownOf p.starts L slot = [] := ownOf_small _ hsmallOld
      have a0 := at_start_none j hown
      split at h
      · obtain ⟨q, hf, h⟩ := obind_ok h
        cases h
        exact capI_setStart (cap_mini (capk_freeMiniChainFrom hf) a0 hb c) _ _
      · split at h
        · obtain ⟨ids, hi, h⟩ := obind_ok h
          obtain ⟨⟨q, ids'⟩, hs, h⟩ := obind_ok h
          split at h
          · split at h
            · cases h
            · obtain ⟨⟨q2, ids2⟩, hw, h⟩ := obind_ok h
              cases h
              have hbq : q.fat.size ≤ MAXREG + 1 := Nat.le_trans (kkc_miniChainWrite _ hw).k.good.mono hb
              have c1 := cap_mini (capk_miniChainSetLen hs) a0 hbq c
              obtain ⟨a1, pr1, hst1⟩ := at_mini (kkc_miniChainSetLen hs) (pk_miniChainSetLen hs) a0 hbq
              exact cap_mini (capk_miniChainWrite _ hw) a1 hb c1
          · cases h
            exact cap_mini (capk_miniChainSetLen hs) a0 hb c
        · obtain ⟨ids, hi, h⟩ := obind_ok h
          obtain ⟨tmp, hr, h⟩ := obind_ok h
          obtain ⟨q1, hf, h⟩ := obind_ok h
          obtain ⟨⟨q2, ids1⟩, hw1, h⟩ := obind_ok h
          obtain ⟨⟨q3, ids2⟩, hs, h⟩ := obind_ok h
          cases h
          have hpos : 0 < newLen := by have := CUTOFF_pos; omega
          have hb2 : q2.fat.size ≤ MAXREG + 1 := Nat.le_trans (kc_chainSetLen hpos hs).1.good.mono hb
          have hb1 : q1.fat.size ≤ MAXREG + 1 := Nat.le_trans (kc_chainWrite _ _ hw1).1.good.mono hb2
          have c1 := cap_mini (capk_freeMiniChainFrom hf) a0 hb1 c
          obtain ⟨a1, pr1, hst1⟩ := at_mini (kkc_freeMiniChainFrom hf) (pk_of_same (same_freeMiniChain _ hf)) a0 hb1
          obtain ⟨a2, hv2, _, pr2, hcont2, hst2⟩ := at_chainWrite hw1 a1 (by simp) hb2
          have c2 := cap_reg pr2 (kc_chainWrite _ _ hw1).2 (sm_chainWrite _ _ hw1).1 hv2 c1
          obtain ⟨l', a3, hh, hl, hv3, pr3, _, hst3, _⟩ := at_chainSetLen hpos hs a2 hb
          rw [← hcont2] at pr3
          have c3 := cap_reg pr3 (kc_chainSetLen hpos hs).2 (sm_chainSetLen hs).1 hv3 c2
          exact capI_setStart c3 _ _
    · rename_i hbigOld
      have hc0 : CUTOFF ≤ L slot := Nat.le_of_not_lt hbigOld
      have hs' : startIn p.starts slot ≠ END := hstart
      have hhd : hd1 (startOf p slot) = [startOf p slot] := by unfold hd1; rw [if_neg hstart]
      have nfree : NC p.fat (hd1 (startOf p slot) ++ (cont p ++ regs (others p.starts slot) L)) := by
        have n0 := jc_n0 j slot
        rw [ownOf_reg hc0 hs'] at n0
        rw [hhd]
        refine n0.perm ?_
        show ((cont p ++ [startIn p.starts slot]) ++ regs (others p.starts slot) L).Perm
          ([startIn p.starts slot] ++ (cont p ++ regs (others p.starts slot) L))
        rw [List.append_assoc]
        exact List.perm_middle
      split at h
      · obtain ⟨q, hf, h⟩ := obind_ok h
        cases h
        obtain ⟨a1, pr, _, hst, hv⟩ := at_freeChainFrom hf j.inv nfree hb
        exact capI_setStart (cap_reg pr (sf_freeChain _ hf) (sm_freeChain _ hf).1 hv c) _ _
      · split at h
        · obtain ⟨ids, hi, h⟩ := obind_ok h
          obtain ⟨tmp, hr, h⟩ := obind_ok h
          obtain ⟨q1, hf, h⟩ := obind_ok h
          obtain ⟨⟨q2, ids1⟩, hw, h⟩ := obind_ok h
          cases h
          have hb1 : q1.fat.size ≤ MAXREG + 1 := Nat.le_trans (kkc_miniChainWrite _ hw).k.good.mono hb
          obtain ⟨a1, pr1, hcont, hst1, hv1⟩ := at_freeChainFrom hf j.inv nfree hb1
          have c1 := cap_reg pr1 (sf_freeChain _ hf) (sm_freeChain _ hf).1 hv1 c
          rw [← hcont] at a1
          exact capI_setStart (cap_mini (capk_miniChainWrite _ hw) a1 hb c1) _ _
        · rename_i hbig
          obtain ⟨ids, hi, h⟩ := obind_ok h
          obtain ⟨⟨q, ids'⟩, hs, h⟩ := obind_ok h
          have hpos : 0 < newLen := by have := CUTOFF_pos; omega
          have a0 := at_start_own j hc0 hstart hi
          obtain ⟨_, l0, c0, hl0⟩ := r _ (startIn_mem hs') hc0
          have hids : ids = l0 := (isChain_of_chainFrom hi hstart).unique c0
          split at h
          · rename_i at_ n hz
            split at h
            · cases h
            · rename_i hguard
              obtain ⟨⟨q2, ids2⟩, hw, h⟩ := obind_ok h
              cases h
              have hbq : q.fat.size ≤ MAXREG + 1 := Nat.le_trans (kc_chainWrite _ _ hw).1.good.mono hb
              obtain ⟨l', a1, hh, hl, hv, pr, hcont1, hst, hsame⟩ := at_chainSetLen hpos hs a0 hbq
              have c1 := cap_reg pr (kc_chainSetLen hpos hs).2 (sm_chainSetLen hs).1 hv c
              obtain ⟨hlt, hat, hsum⟩ := zeroTail_some hz
              have hle : ids.length ≤ (p.S + newLen - 1) / p.S := by
                rw [hids, hl0, Nat.add_comm p.S newLen]
                exact ceil_mono (Nat.le_of_lt hlt)
              have e := hsame hle
              subst e
              obtain ⟨a2, hv2, hl2, pr2, _, hst2⟩ := at_chainWrite hw a1 (Nat.le_of_not_lt hguard) hb
              rw [← hcont1] at pr2
              exact cap_reg pr2 (kc_chainWrite _ _ hw).2 (sm_chainWrite _ _ hw).1 hv2 c1
          · cases h
            obtain ⟨l', a1, hh, hl, hv, pr, _, hst, _⟩ := at_chainSetLen hpos hs a0 hb
            exact cap_reg pr (kc_chainSetLen hpos hs).2 (sm_chainSetLen hs).1 hv c

theorem cap_freeStream {p p' : P} {L : Nat → Nat} {slot : Nat}
    (h : freeStream p slot (L slot) = .ok p') (j : JC p L) (hb : p'.fat.size ≤ MAXREG + 1) (c : CapI p) : CapI p' := by
  unfold freeStream at h
  dsimp only [bind, pure] at h
  split at h
  · rename_i hsmall
    obtain ⟨q, hf, h⟩ := obind_ok h
    cases h
    have a0 := at_start_none j (ownOf_small _ hsmall)
    exact capI_dropStart (cap_mini (capk_freeMiniChainFrom hf) a0 hb c) _
  · rename_i hbig
    obtain ⟨q, hf, h⟩ := obind_ok h
    cases h
    have hc0 : CUTOFF ≤ L slot := Nat.le_of_not_lt hbig
    have nfree : NC p.fat (hd1 (startOf p slot) ++ (cont p ++ regs (others p.starts slot) L)) := by
      have n0 := jc_n0 j slot
      by_cases he : startOf p slot = END
      · have he' : startIn p.starts slot = END := he
        rw [ownOf_noStart L he', List.append_nil] at n0
        unfold hd1; rw [if_pos he]; simpa using n0
      · have he' : startIn p.starts slot ≠ END := he
        rw [ownOf_reg hc0 he'] at n0
        have hhd : hd1 (startOf p slot) = [startOf p slot] := by unfold hd1; rw [if_neg he]
        rw [hhd]
        refine n0.perm ?_
        show ((cont p ++ [startIn p.starts slot]) ++ regs (others p.starts slot) L).Perm
          ([startIn p.starts slot] ++ (cont p ++ regs (others p.starts slot) L))
        rw [List.append_assoc]
        exact List.perm_middle
    obtain ⟨a1, pr, _, hst, hv⟩ := at_freeChainFrom hf j.inv nfree hb
    exact capI_dropStart (cap_reg pr (sf_freeChain _ hf) (sm_freeChain _ hf).1 hv c) _

theorem cap_ensureDirSlot {p p' : P} {L : Nat → Nat} {slot : Nat} (h : ensureDirSlot p slot = .ok p') (j : JC p L)
    (hb : p'.fat.size ≤ MAXREG + 1) (c : CapI p) : CapI p' := by
  unfold ensureDirSlot at h
  split at h
  · cases h; exact c
  · split at h
    · split at h
      · rename_i q id he
        cases h
        have sf := sf_extendChain he
        -- the directory chain is the one worked on; the MiniFAT chain is among the others
        have nh : NC p.fat ([p.dirStart] ++ ((hd1 p.miniFatStart ++ hd1 p.rootStart) ++ regs p.starts L)) := by
          have := j.nc
          simpa [heads, cont] using this
        obtain ⟨l0, c0, hm0⟩ := head_on_chain nh (List.mem_append_left _ (List.mem_singleton.mpr rfl))
        obtain ⟨l, ml, hc⟩ := c
        refine ⟨l, ?_, ?_⟩
        · rcases ml with ⟨hend, hl⟩ | ⟨hne, ch⟩
          · exact Or.inl ⟨by show q.miniFatStart = END; rw [sf.2.1]; exact hend, hl⟩
          · refine Or.inr ⟨by show q.miniFatStart ≠ END; rw [sf.2.1]; exact hne, ?_⟩
            show IsChain q.fat q.miniFatStart l
            rw [sf.2.1]
            exact pres_extendChain (a := [p.dirStart]) he hb j.inv _ nh
              ⟨p.dirStart, List.mem_singleton.mpr rfl, l0, c0, hm0⟩ _
              (List.mem_append_left _ (List.mem_append_left _ (hd1_mem hne))) l ch
        · show 4 * q.miniFat.size ≤ l.length * q.S
          rw [(sm_extendChain he).1, S_of_v4 (extendChain_v4 he)]; exact hc
      · cases h
      · cases h
      · cases h
    · cases h; exact c

theorem cap_reopen {p p' : P} (h : Phys.reopen p = .ok p') (c : CapI p) : CapI p' := by
  unfold Phys.reopen at h
  obtain ⟨chain, hc, h⟩ := bind_ok h
  cases h
  exact c

theorem capI_create (v4 : Bool) : CapI (Phys.create v4) :=
  ⟨[], Or.inl ⟨rfl, rfl⟩, by simp [Phys.create]⟩

theorem cap_gstep {g g' : G} {op : GOp} (h : gstep g op = .ok g') (j : JR g.p g.L) (hw : opInRange g op)
    (hb : g'.p.fat.size ≤ MAXREG + 1) (c : CapI g.p) : CapI g'.p := by
  cases op with
  | ensure s => obtain ⟨q, hq, h⟩ := obind_ok h; cases h; exact cap_ensureDirSlot hq j.jc hb c
  | create s =>
    simp only [gstep] at h
    split at h
    · cases h; exact capI_setStart c _ _
    · cases h
  | write s off bs => obtain ⟨r, hq, h⟩ := obind_ok h; cases h; exact cap_writeData hq j.jc j.ss hw hb c
  | resize s n => obtain ⟨q, hq, h⟩ := obind_ok h; cases h; exact cap_resize hq j.jc j.rl hb c
  | free s => obtain ⟨q, hq, h⟩ := obind_ok h; cases h; exact cap_freeStream hq j.jc hb c
  | reopen => obtain ⟨q, hq, h⟩ := obind_ok h; cases h; exact cap_reopen hq c

end CfbVerif.Phys
