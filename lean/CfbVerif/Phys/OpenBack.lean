import CfbVerif.Phys.DirTable
/-!
# `open` on the rendered image runs through and returns the writer's tables

The stages proved so far — header, DIFAT chain, FAT load/normalise/validate (`open_fat_stage_all`),
directory chain (`dirLoop_readback`), `Directory::validate` (`validateDir_accepts`), MiniFAT chain
read (`C02_minifat_readback`) and pointee check (`checkMiniPointees_accepts`) — are put together:
the reader model's `openImg`, in both modes, returns `rawOf p rows`: the writer's DIFAT sectors,
DIFAT, FAT, directory table and MiniFAT.

`MiniFit` collects what the MiniFAT stage needs of the writer's state besides the no-leak
invariants: the in-memory MiniFAT is trimmed (its last cell is in use), fits the MiniFAT chain, its
cells are 32-bit values, and the mini stream is at least as long as the MiniFAT says.  It is a
hypothesis here (not yet carried through the operations; the byte-exact lock-step compares the
caches it speaks about after every call).
-/
namespace CfbVerif.Phys
open CfbVerif.Raw CfbVerif.Dir CfbVerif.Names

structure MiniFit (p : P) : Prop where
  trim : ∀ v, p.miniFat.back? = some v → v ≠ FREE
  cap : p.miniFat.size ≤ (chainOrEmpty p p.miniFatStart).length * p.S / 4
  small : ∀ (i : Nat) (hi : i < p.miniFat.size), p.miniFat[i] < 256 ^ 4
  root : p.miniFat.size ≤ p.rootLen / Gen.MINI_SECTOR_LEN

/-- `MiniFit` as a computation: the phys driver evaluates it on every state of every replayed
history (a `false` is printed as a model failure), so the hypothesis is at least lock-stepped -/
def miniFitB (p : P) : Bool :=
  (match p.miniFat.back? with | some v => v != FREE | none => true) &&
  decide (p.miniFat.size ≤ (chainOrEmpty p p.miniFatStart).length * p.S / 4) &&
  p.miniFat.all (fun v => decide (v < 256 ^ 4)) &&
  decide (p.miniFat.size ≤ p.rootLen / Gen.MINI_SECTOR_LEN)

theorem miniFitB_sound {p : P} (h : miniFitB p = true) : MiniFit p := by
  unfold miniFitB at h
  simp only [Bool.and_eq_true, decide_eq_true_eq] at h
  obtain ⟨⟨⟨h1, h2⟩, h3⟩, h4⟩ := h
  refine ⟨?_, h2, ?_, h4⟩
  · intro v hv
    rw [hv] at h1
    simpa using h1
  · intro i hi
    have := (Array.all_eq_true.mp h3) i hi
    simpa using this

/-- what `open` is to return -/
def rawOf (p : P) (rows : List Row) : RawState :=
  { v4 := p.v4, numSectors := p.numSectors, difatSectorIds := p.difatSectorIds, difat := p.difat, fat := p.fat,
    dirStart := p.dirStart, dir := (tableOf p rows).toArray, miniFatStart := p.miniFatStart, miniFat := p.miniFat }

theorem chainFrom_miniFat {p : P} {L : Nat → Nat} (j : JC p L) :
    chainFrom p.fat p.miniFatStart = .ok (chainOrEmpty p p.miniFatStart) := by
  by_cases he : p.miniFatStart = END
  · rw [he, chainOrEmpty_END]
    unfold chainFrom chainLoop
    simp
  · have hm : p.miniFatStart ∈ heads p L := by simp [heads, cont, hd1, he]
    obtain ⟨lm, cm⟩ := j.nc.ch p.miniFatStart hm
    rw [chainOrEmpty_of_isChain j.nc.ns hm cm]
    exact chainFrom_of_isChain j.nc.ns hm cm

theorem popWhile_trimmed (l : List Nat) (r : Nat) (h : ∀ v, l.getLast? = some v → v ≠ FREE) :
    popWhile (fun x => x == FREE) (l ++ List.replicate r FREE) = l := by
  show (List.dropWhile (fun x => x == FREE) (l ++ List.replicate r FREE).reverse).reverse = l
  rw [List.reverse_append, List.reverse_replicate]
  have h1 : List.dropWhile (fun x => x == FREE) (List.replicate r FREE ++ l.reverse) =
      List.dropWhile (fun x => x == FREE) l.reverse := by
    induction r with
    | zero => rfl
    | succ r ih => rw [List.replicate_succ, List.cons_append, List.dropWhile_cons_of_pos (by simp)]; exact ih
  rw [h1]
  cases hl : l.reverse with
  | nil => simp [List.reverse_eq_nil_iff.mp hl]
  | cons a t =>
    have : l.getLast? = some a := by rw [List.getLast?_eq_head?_reverse, hl]; rfl
    have hne := h a this
    rw [List.dropWhile_cons_of_neg (by simpa using hne), ← hl, List.reverse_reverse]

/-- **the reader model's `open`, run on the rendered image, returns the writer's tables** (both
modes, both versions, files of every size) -/
theorem open_reads_back {p : P} {L : Nat → Nat} (rows : List Row) (j : JC p L) (jm : JMC p L) (mk : MK p) (ss : SS p)
    (cap : Cap p) (sw : SlotsWf p (slotsOf p rows)) (hn : p.numSectors ≤ MAXREG) (mf : MiniFit p) (m : Mode)
    (hdir : validateDir m (tableOf p rows).toArray = .ok ())
    (d0 : DirEntry) (hroot : (tableOf p rows).toArray[0]? = some d0) (hrl : d0.streamLen = p.rootLen) :
    openImg m (render p rows) = .ok (rawOf p rows) := by
  have hs := slotsOk_of_slotsWf sw
  have wf := rolesWf_of j mk
  obtain ⟨h, hh, hv, hfd, hfm, hopen⟩ := open_fat_stage_all rows j mk ss cap hs hn m
  have sm := hdrSmall_of j mk
  have hdifat : ∀ x ∈ p.difat, x ≤ MAXREG := by
    intro x hx
    have := lt_of_get ((mk.fatMark x).mpr hx)
    have := j.nc.ns.bound
    omega
  have hids : ∀ x ∈ p.difatSectorIds, x ≤ MAXREG := by
    intro x hx
    have := lt_of_get ((mk.difMark x).mpr hx)
    have := j.nc.ns.bound
    omega
  have hh' := readHeader_render p rows ss hs sm hdifat hids m
  rw [hh] at hh'
  have hhd : h = hdrOf p := Except.ok.inj hh'
  have hS : h.sectorLen = p.S := sectorLen_of_v4 hv
  rw [hopen]
  unfold openAfterFat
  simp only [bind, pure]
  rw [hfd, dirLoop_readback rows j mk ss sw hn m h hv (by intro hv4; rw [hhd]; simp only [hdrOf]; rw [hv] at hv4; rw [if_pos hv4])]
  simp only [Outcome.bind]
  rw [hdir]
  simp only [Outcome.bind]
  rw [hfm, chainFrom_miniFat j]
  simp only [Outcome.bind]
  rw [if_neg (by rw [hhd]; simp [hdrOf])]
  rw [hS, C02_minifat_readback p rows ss hs wf]
  simp only [Outcome.bind]
  rw [cells_eq p.miniFat _ mf.cap mf.small, popWhile_trimmed _ _ (by
    intro v hv'
    apply mf.trim v
    rw [Array.back?_eq_getElem?, ← hv', List.getLast?_eq_getElem?]
    simp)]
  rw [hroot]
  simp only [Option.map_some, Option.getD_some, hrl]
  have hval : validateMiniFat m p.rootLen p.miniFat.toList = .ok p.miniFat.toList := by
    unfold validateMiniFat
    simp only [Array.length_toList]
    rw [if_neg (by have := mf.root; omega)]
    simp only [Array.toArray_toList, checkMiniPointees_accepts jm]
  rw [hval]
  simp only [liftE, Outcome.bind, Array.toArray_toList, hv, hfd, hfm]
  rfl

/-- the slots of the rows of a tree are the slots of the tree -/
theorem rows_slots (t : Tree) : t.rows.map (·.slot) = t.slots := by
  induction t with
  | leaf => rfl
  | node l e k r ihl ihk ihr =>
    simp only [Tree.rows, Tree.slots, List.map_append, List.map_cons, List.map_nil, ihl, ihk, ihr]

/-- names without surrogate code units decode to themselves -/
theorem decodeUtf16_low : ∀ (l : List Nat), (∀ u ∈ l, u < 0xD800) → decodeUtf16 l = some l := by
  intro l
  induction l with
  | nil => intro _; rw [decodeUtf16.eq_def]
  | cons u rest ih =>
    intro h
    have hu := h u (by simp)
    rw [decodeUtf16.eq_def]
    simp only
    rw [if_neg (by omega), if_neg (by omega), ih (fun x hx => h x (List.mem_cons_of_mem _ hx))]
    rfl

def rootRowOf (s : Dir.State) : Row :=
  { slot := 0, name := Dir.rootName, typ := Gen.OBJ_TYPE_ROOT, black := true, left := -1, right := -1,
    child := s.top.rootSlot, len := 0, md := s.rootMeta }

theorem dirtable_eq (s : Dir.State) : dirtable s = rootRowOf s :: s.top.rows := rfl

/-- **reopening the rendered image of a directory tree**: with the directory model's table
(`dirtable s`) rendered into distinct slots of the directory chain, the reader model's `open` — both
modes — accepts the image and returns the writer's tables.  The directory stage is discharged from
the tree: sibling order from `Tree.WF`, the colour rule (strict mode) from `RBAll`. -/
theorem open_reads_back_dir {p : P} {L : Nat → Nat} (s : Dir.State) (j : JC p L) (jm : JMC p L) (mk : MK p) (ss : SS p)
    (cap : Cap p) (sw : SlotsWf p (slotsOf p (dirtable s))) (hn : p.numSectors ≤ MAXREG) (mf : MiniFit p) (m : Mode)
    (wf : s.top.WF) (rb : m.isStrict = true → RBAll s.top)
    (nd : (0 :: s.top.slots).Nodup) (hcap : ∀ x ∈ 0 :: s.top.slots, x < dirCap p) (hcapN : dirCap p ≤ NOSTREAM)
    (hmod : p.rootLen % Gen.MINI_SECTOR_LEN = 0) :
    openImg m (render p (dirtable s)) = .ok (rawOf p (dirtable s)) := by
  have hrows : (dirtable s).map (·.slot) = 0 :: s.top.slots := by
    simp only [dirtable, List.map_cons, rows_slots]
  have ndr : ((dirtable s).map (·.slot)).Nodup := by rw [hrows]; exact nd
  generalize hrr : rootRowOf s = rootRow
  have hmemroot : rootRow ∈ dirtable s := by rw [← hrr, dirtable_eq]; simp
  have hslot0 : rootRow.slot = 0 := by rw [← hrr]; rfl
  have hroot := table_row p (dirtable s) ndr rootRow hmemroot (by rw [hslot0]; exact hcap 0 (by simp))
  rw [hslot0] at hroot
  have hsl : startLenOf p rootRow = (p.rootStart, p.rootLen) := by
    unfold startLenOf; rw [← hrr]; simp [rootRowOf]
  have hwfroot := sw 0 rootRow (by
    have := slotsOf_row p (dirtable s) ndr rootRow hmemroot (by rw [hslot0]; exact hcap 0 (by simp))
    rw [hslot0] at this; exact this)
  have hlenlt := hwfroot.lenLt
  rw [hsl] at hroot hlenlt
  -- the tree below the root
  have hs0 : ∀ x ∈ s.top.slots, x ≠ 0 ∧ x ≠ NOSTREAM := by
    intro x hx
    have h1 : x ≠ 0 := fun e => (List.nodup_cons.mp nd).1 (e ▸ hx)
    have h2 := hcap x (List.mem_cons_of_mem _ hx)
    exact ⟨h1, by omega⟩
  have ok : DfsOk (tableOf p (dirtable s)).toArray m.isStrict s.top :=
    dfsOk_of_rows _ _ (startLenOf p) s.top (by
      intro r hr
      exact table_row p (dirtable s) ndr r (by simp [dirtable, hr])
        (hcap r.slot (by rw [← hrows]; exact List.mem_map_of_mem (by simp [dirtable, hr]))))
      wf rb hs0
  have hdir := validateDir_accepts m (tableOf p (dirtable s)).toArray s.top _ hroot
    (by rw [← hrr]; rfl) (by rw [← hrr]; simp [entryOf, linkOf, rootRowOf]) (by rw [← hrr]; simp [entryOf, linkOf, rootRowOf])
    (by rw [← hrr]; simp only [entryOf, rootRowOf]; exact linkOf_rootSlot s.top)
    (by simp only [entryOf]; exact hmod) ok (List.nodup_cons.mp nd).2
  exact open_reads_back (dirtable s) j jm mk ss cap sw hn mf m hdir _ hroot rfl

end CfbVerif.Phys
