import CfbVerif.Phys.Codec
import CfbVerif.Phys.SecSize
/-!
# Where the renderer puts what: sector `id` of the image is the `id`-th block after the header

`render` appends, after the header sector, one block per sector.  Every block has exactly the
sector size (given that the model's sectors have it, `SS`, and that directory rows have names of at
most 32 units and 16-byte CLSIDs), so the block of sector `id` starts at byte `(id + 1) * S` and is
not touched by anything appended later.  This is the frame the read-back theorems stand on.
-/
namespace CfbVerif.Phys
open CfbVerif.Raw CfbVerif.Dir

/-! ## a fold of block-appending steps -/

/-- a step that appends exactly `S` bytes and leaves what is there as it is -/
structure Appends (S : Nat) (step : ByteArray → Nat → ByteArray) : Prop where
  size : ∀ out id, (step out id).size = out.size + S
  frame : ∀ out id off w, off + w ≤ out.size → leN (step out id) off w = leN out off w

theorem fold_size {S : Nat} {step : ByteArray → Nat → ByteArray} (a : Appends S step) :
    ∀ (l : List Nat) (out : ByteArray), (l.foldl step out).size = out.size + l.length * S := by
  intro l
  induction l with
  | nil => intro out; simp
  | cons x l ih =>
    intro out
    simp only [List.foldl_cons, List.length_cons]
    rw [ih, a.size, Nat.add_mul]; omega

theorem fold_frame {S : Nat} {step : ByteArray → Nat → ByteArray} (a : Appends S step) :
    ∀ (l : List Nat) (out : ByteArray) (off w : Nat), off + w ≤ out.size →
    leN (l.foldl step out) off w = leN out off w := by
  intro l
  induction l with
  | nil => intro out off w _; rfl
  | cons x l ih =>
    intro out off w h
    simp only [List.foldl_cons]
    rw [ih _ _ _ (by rw [a.size]; omega)]
    exact a.frame out x off w h

/-- a read inside the `i`-th block sees what the `i`-th step appended -/
theorem fold_at {S : Nat} {step : ByteArray → Nat → ByteArray} (a : Appends S step) :
    ∀ (l : List Nat) (out : ByteArray) (i : Nat) (hi : i < l.length) (off w : Nat), off + w ≤ S →
    leN (l.foldl step out) (out.size + i * S + off) w =
      leN (step ((l.take i).foldl step out) l[i]) (out.size + i * S + off) w := by
  intro l
  induction l with
  | nil => intro out i hi; simp at hi
  | cons x l ih =>
    intro out i hi off w hw
    cases i with
    | zero =>
      simp only [List.foldl_cons, List.take_zero, List.foldl_nil, List.getElem_cons_zero, Nat.zero_mul, Nat.add_zero]
      exact fold_frame a l _ _ _ (by rw [a.size]; omega)
    | succ i =>
      simp only [List.foldl_cons, List.take_succ_cons, List.getElem_cons_succ]
      have hi' : i < l.length := by simpa using hi
      have := ih (step out x) i hi' off w hw
      rw [a.size] at this
      have e : out.size + (i + 1) * S + off = out.size + S + i * S + off := by rw [Nat.add_mul]; omega
      rw [e]
      exact this

/-! ## the steps of `render` -/

def rolesOf (p : P) : Array Role :=
  let roles : Array Role := Array.replicate p.numSectors .data
  let roles := markRoles roles p.difat .fat
  let roles := markRoles roles p.difatSectorIds .difat
  let roles := markRoles roles (chainOrEmpty p p.dirStart) .dir
  markRoles roles (chainOrEmpty p p.miniFatStart) .miniFat

def slotsOf (p : P) (rows : List Row) : Array (Option Row) :=
  rows.foldl (fun acc r => acc.setIfInBounds r.slot (some r))
    (Array.replicate ((chainOrEmpty p p.dirStart).length * (p.S / Gen.DIR_ENTRY_LEN)) none)

def entryStep (p : P) (slots : Array (Option Row)) (k : Nat) (out : ByteArray) (j : Nat) : ByteArray :=
  match (slots[k * (p.S / Gen.DIR_ENTRY_LEN) + j]?).getD none with
  | none => renderUnallocated out
  | some r =>
    if r.typ = Gen.OBJ_TYPE_ROOT then renderEntry out r p.rootStart p.rootLen
    else if r.typ = Gen.OBJ_TYPE_STREAM then renderEntry out r (startOf p r.slot) r.len
    else renderEntry out r 0 0

def sectorStep (p : P) (roles : Array Role) (slots : Array (Option Row)) (out : ByteArray) (id : Nat) : ByteArray :=
  match roles[id]?.getD .data with
  | .data => out ++ (p.sectors[id]?.getD (zeroSector p.S))
  | .fat k => pushCells out ((List.range p.epsec).map (fun j => cellAt p.fat (k * p.epsec + j)))
  | .difat k =>
    let base := Gen.NUM_DIFAT_ENTRIES_IN_HEADER + k * ((p.S - 4) / 4)
    let out := pushCells out ((List.range ((p.S - 4) / 4)).map (fun j => (p.difat[base + j]?).getD FREE))
    pushLE out 4 ((p.difatSectorIds[k + 1]?).getD END)
  | .miniFat k => pushCells out ((List.range (p.S / 4)).map (fun j => cellAt p.miniFat (k * (p.S / 4) + j)))
  | .dir k => (List.range (p.S / Gen.DIR_ENTRY_LEN)).foldl (entryStep p slots k) out

theorem render_eq (p : P) (rows : List Row) :
    render p rows = (List.range p.numSectors).foldl (sectorStep p (rolesOf p) (slotsOf p rows))
      (renderHeader p (chainOrEmpty p p.dirStart) (chainOrEmpty p p.miniFatStart)) := by
  rfl

/-! ## every step appends one sector -/

theorem get!_append_left (a b : ByteArray) (i : Nat) (h : i < a.size) : (a ++ b).get! i = a.get! i := by
  show (a ++ b).data[i]! = a.data[i]!
  rw [ByteArray.data_append]
  have h' : i < a.data.size := h
  rw [getElem!_pos (a.data ++ b.data) i (by simp; omega), getElem!_pos a.data i h']
  exact Array.getElem_append_left h'

theorem leN_append_frame (a b : ByteArray) (w off : Nat) (h : off + w ≤ a.size) :
    leN (a ++ b) off w = leN a off w := by
  induction w generalizing off with
  | zero => rfl
  | succ w ih =>
    unfold leN
    have hu : u8 (a ++ b) off = u8 a off := by
      unfold u8
      rw [if_pos (by rw [ByteArray.size_append]; omega), if_pos (by omega)]
      rw [get!_append_left a b off (by omega)]
    rw [hu, ih (off + 1) (by omega)]

theorem widthSum_cells (cells : List Nat) : widthSum (cells.map (fun c => (4, c))) = 4 * cells.length := by
  induction cells with
  | nil => rfl
  | cons c cells ih => simp only [List.map_cons, widthSum, ih, List.length_cons]; omega

theorem size_pushCells (b : ByteArray) (cells : List Nat) : (pushCells b cells).size = b.size + 4 * cells.length := by
  rw [pushCells_eq, size_pushFields, widthSum_cells]

theorem leN_pushCells_frame (b : ByteArray) (cells : List Nat) (w off : Nat) (h : off + w ≤ b.size) :
    leN (pushCells b cells) off w = leN b off w := by
  rw [pushCells_eq]; exact leN_pushFields_frame _ _ _ _ h

/-- the `j`-th cell of a block of cells is read back, whatever follows -/
theorem pushCells_read (b : ByteArray) (cells : List Nat) (rest : List (Nat × Nat)) (j : Nat) (hj : j < cells.length) :
    leN (pushFields (pushCells b cells) rest) (b.size + 4 * j) 4 = some (cells[j] % 256 ^ 4) := by
  rw [pushCells_eq, pushFields_append]
  have h := pushFields_read_nth (cells.map (fun c => (4, c))) rest j (by simpa using hj) b
  have e : widthSum (List.take j (List.map (fun c => (4, c)) cells)) = 4 * j := by
    rw [← List.map_take, widthSum_cells, List.length_take, Nat.min_eq_left (Nat.le_of_lt hj)]
  rw [e] at h
  simpa using h

/-- a directory row the renderer turns into exactly 128 bytes -/
def RowOk (r : Row) : Prop := (CfbVerif.Names.utf16 r.name).length ≤ 32 ∧ r.md.clsid.length = 16

theorem clsidOnDisk_length {c : List UInt8} (h : c.length = 16) : (clsidOnDisk c).length = 16 := by
  match c, h with
  | [a0, a1, a2, a3, b0, b1, c0, c1, d0, d1, d2, d3, d4, d5, d6, d7], _ => rfl

theorem widthSum_append (a b : List (Nat × Nat)) : widthSum (a ++ b) = widthSum a + widthSum b := by
  induction a with
  | nil => simp [widthSum]
  | cons f a ih => obtain ⟨w, v⟩ := f; simp only [List.cons_append, widthSum, ih]; omega

theorem widthSum_bytes (l : List UInt8) : widthSum (l.map (fun x => (1, x.toNat))) = l.length := by
  induction l with
  | nil => rfl
  | cons x l ih => simp only [List.map_cons, widthSum, ih, List.length_cons]; omega

theorem widthSum_entryFields (r : Row) (start len : Nat) (h : RowOk r) :
    widthSum (entryFields r start len) = Gen.DIR_ENTRY_LEN := by
  unfold entryFields
  simp only [widthSum_append, widthSum_units, widthSum_bytes, widthSum, clsidOnDisk_length h.2]
  have := h.1
  show _ = 128
  omega

theorem size_renderEntry (b : ByteArray) (r : Row) (start len : Nat) (h : RowOk r) :
    (renderEntry b r start len).size = b.size + Gen.DIR_ENTRY_LEN := by
  rw [renderEntry_eq, size_pushFields, widthSum_entryFields r start len h]

theorem renderUnallocated_eq (b : ByteArray) :
    renderUnallocated b = pushFields b [(68, 0), (4, NOSTREAM), (4, NOSTREAM), (4, NOSTREAM), (48, 0)] := by
  unfold renderUnallocated
  simp only [pushZeros_eq, pushFields]

theorem size_renderUnallocated (b : ByteArray) : (renderUnallocated b).size = b.size + Gen.DIR_ENTRY_LEN := by
  rw [renderUnallocated_eq, size_pushFields]
  rfl

/-- the rows in the slot table are well-formed -/
def SlotsOk (slots : Array (Option Row)) : Prop := ∀ (i : Nat) (r : Row), slots[i]? = some (some r) → RowOk r

theorem entryStep_appends (p : P) (slots : Array (Option Row)) (hs : SlotsOk slots) (k : Nat) :
    Appends Gen.DIR_ENTRY_LEN (entryStep p slots k) := by
  constructor
  · intro out j
    unfold entryStep
    cases hg : slots[k * (p.S / Gen.DIR_ENTRY_LEN) + j]? with
    | none => simp only [Option.getD_none]; exact size_renderUnallocated out
    | some o =>
      cases o with
      | none => simp only [Option.getD_some]; exact size_renderUnallocated out
      | some r =>
        simp only [Option.getD_some]
        have ok := hs _ r hg
        split
        · exact size_renderEntry _ _ _ _ ok
        · split
          · exact size_renderEntry _ _ _ _ ok
          · exact size_renderEntry _ _ _ _ ok
  · intro out j off w h
    unfold entryStep
    cases hg : slots[k * (p.S / Gen.DIR_ENTRY_LEN) + j]? with
    | none => simp only [Option.getD_none]; rw [renderUnallocated_eq]; exact leN_pushFields_frame _ _ _ _ h
    | some o =>
      cases o with
      | none => simp only [Option.getD_some]; rw [renderUnallocated_eq]; exact leN_pushFields_frame _ _ _ _ h
      | some r =>
        simp only [Option.getD_some]
        split
        · rw [renderEntry_eq]; exact leN_pushFields_frame _ _ _ _ h
        · split
          · rw [renderEntry_eq]; exact leN_pushFields_frame _ _ _ _ h
          · rw [renderEntry_eq]; exact leN_pushFields_frame _ _ _ _ h

theorem S_facts (p : P) : p.S / 4 * 4 = p.S ∧ (p.S - 4) / 4 * 4 + 4 = p.S ∧
    p.S / Gen.DIR_ENTRY_LEN * Gen.DIR_ENTRY_LEN = p.S ∧ Gen.HEADER_LEN ≤ p.S := by
  have h128 : Gen.DIR_ENTRY_LEN = 128 := rfl
  have h512 : Gen.HEADER_LEN = 512 := rfl
  rw [h128, h512]
  rcases S_cases p with h | h <;> rw [h] <;> omega

/-- **every step of the renderer appends exactly one sector** and leaves the image so far as it is -/
theorem sectorStep_appends (p : P) (roles : Array Role) (slots : Array (Option Row)) (ss : SS p)
    (hs : SlotsOk slots) : Appends p.S (sectorStep p roles slots) := by
  obtain ⟨f1, f2, f3, _⟩ := S_facts p
  constructor
  · intro out id
    unfold sectorStep
    split
    · rw [ByteArray.size_append]
      cases hg : p.sectors[id]? with
      | none => simp only [Option.getD_none]; rw [size_zeroSector]
      | some sec => simp only [Option.getD_some]; rw [ss id sec hg]
    · rw [size_pushCells]; simp only [List.length_map, List.length_range]; unfold P.epsec; omega
    · dsimp only
      rw [size_pushLE, size_pushCells]; simp only [List.length_map, List.length_range]; omega
    · rw [size_pushCells]; simp only [List.length_map, List.length_range]; omega
    · rw [fold_size (entryStep_appends p slots hs _)]; simp only [List.length_range]; omega
  · intro out id off w h
    unfold sectorStep
    split
    · exact leN_append_frame _ _ _ _ h
    · exact leN_pushCells_frame _ _ _ _ h
    · dsimp only
      rw [leN_pushLE_frame _ _ _ _ _ (by rw [size_pushCells]; omega)]
      exact leN_pushCells_frame _ _ _ _ h
    · exact leN_pushCells_frame _ _ _ _ h
    · exact fold_frame (entryStep_appends p slots hs _) _ _ _ _ h

/-! ## the layout -/

theorem size_renderHeader (p : P) (dc mc : List Nat) : (renderHeader p dc mc).size = p.S := by
  rw [renderHeader_eq, size_pushFields]
  unfold headerFields
  simp only [widthSum_append, widthSum_bytes, widthSum_cells, widthSum, List.length_map, List.length_replicate,
    List.length_take]
  have hH := (S_facts p).2.2.2
  have h1 : Gen.HEADER_LEN = 512 := rfl
  have h2 : Gen.NUM_DIFAT_ENTRIES_IN_HEADER = 109 := rfl
  have h3 : Gen.MAGIC_NUMBER.length = 8 := rfl
  rw [h1] at hH
  rw [h1, h2, h3]
  show (ByteArray.empty).size + _ = _
  have : ByteArray.empty.size = 0 := rfl
  rw [this]
  omega

/-- **the image is the header sector followed by one sector-sized block per sector** -/
theorem render_size (p : P) (rows : List Row) (ss : SS p) (hs : SlotsOk (slotsOf p rows)) :
    (render p rows).size = (p.numSectors + 1) * p.S := by
  rw [render_eq, fold_size (sectorStep_appends p _ _ ss hs), size_renderHeader, List.length_range, Nat.add_mul]
  omega

/-- the image before sector `id` is appended -/
def prefixOf (p : P) (rows : List Row) (id : Nat) : ByteArray :=
  ((List.range p.numSectors).take id).foldl (sectorStep p (rolesOf p) (slotsOf p rows))
    (renderHeader p (chainOrEmpty p p.dirStart) (chainOrEmpty p p.miniFatStart))

theorem prefixOf_size (p : P) (rows : List Row) (ss : SS p) (hs : SlotsOk (slotsOf p rows)) (id : Nat)
    (hid : id ≤ p.numSectors) : (prefixOf p rows id).size = (id + 1) * p.S := by
  unfold prefixOf
  rw [fold_size (sectorStep_appends p _ _ ss hs), size_renderHeader, List.length_take, List.length_range,
    Nat.min_eq_left hid, Nat.add_mul]
  omega

/-- **a read inside sector `id` of the image sees what the renderer appended for sector `id`** -/
theorem render_at (p : P) (rows : List Row) (ss : SS p) (hs : SlotsOk (slotsOf p rows)) (id : Nat)
    (hid : id < p.numSectors) (off w : Nat) (hw : off + w ≤ p.S) :
    leN (render p rows) ((id + 1) * p.S + off) w =
      leN (sectorStep p (rolesOf p) (slotsOf p rows) (prefixOf p rows id) id) ((id + 1) * p.S + off) w := by
  rw [render_eq]
  have h := fold_at (sectorStep_appends p (rolesOf p) (slotsOf p rows) ss hs) (List.range p.numSectors)
    (renderHeader p (chainOrEmpty p p.dirStart) (chainOrEmpty p p.miniFatStart)) id (by simpa using hid) off w hw
  rw [size_renderHeader] at h
  have e : p.S + id * p.S + off = (id + 1) * p.S + off := by rw [Nat.add_mul]; omega
  rw [e] at h
  rw [h]
  simp only [List.getElem_range]
  rfl

/-! ## which sector plays which role -/

def markFrom (mk : Nat → Role) (roles : Array Role) (ids : List Nat) (start : Nat) : Array Role :=
  (ids.zipIdx start).foldl (fun acc (x : Nat × Nat) => acc.setIfInBounds x.1 (mk x.2)) roles

theorem markRoles_eq (roles : Array Role) (ids : List Nat) (mk : Nat → Role) :
    markRoles roles ids mk = markFrom mk roles ids 0 := rfl

theorem markFrom_size (mk : Nat → Role) : ∀ (ids : List Nat) (roles : Array Role) (start : Nat),
    (markFrom mk roles ids start).size = roles.size := by
  intro ids
  induction ids with
  | nil => intro roles start; rfl
  | cons x ids ih =>
    intro roles start
    unfold markFrom
    simp only [List.zipIdx_cons, List.foldl_cons]
    have := ih (roles.setIfInBounds x (mk start)) (start + 1)
    unfold markFrom at this
    rw [this, Array.size_setIfInBounds]

theorem markFrom_not_mem (mk : Nat → Role) : ∀ (ids : List Nat) (roles : Array Role) (start id : Nat),
    id ∉ ids → (markFrom mk roles ids start)[id]? = roles[id]? := by
  intro ids
  induction ids with
  | nil => intro roles start id _; rfl
  | cons x ids ih =>
    intro roles start id hnot
    unfold markFrom
    simp only [List.zipIdx_cons, List.foldl_cons]
    have := ih (roles.setIfInBounds x (mk start)) (start + 1) id (fun h => hnot (List.mem_cons_of_mem _ h))
    unfold markFrom at this
    rw [this]
    simp only [Array.getElem?_setIfInBounds]
    rw [if_neg]
    intro e; exact hnot (by rw [e]; simp)

theorem markFrom_get (mk : Nat → Role) : ∀ (ids : List Nat) (roles : Array Role) (start k : Nat) (hk : k < ids.length),
    ids.Nodup → ids[k] < roles.size → (markFrom mk roles ids start)[ids[k]]? = some (mk (start + k)) := by
  intro ids
  induction ids with
  | nil => intro roles start k hk; simp at hk
  | cons x ids ih =>
    intro roles start k hk hnd hlt
    have hnd' := List.nodup_cons.mp hnd
    cases k with
    | zero =>
      simp only [List.getElem_cons_zero] at hlt ⊢
      unfold markFrom
      simp only [List.zipIdx_cons, List.foldl_cons]
      have := markFrom_not_mem mk ids (roles.setIfInBounds x (mk start)) (start + 1) x hnd'.1
      unfold markFrom at this
      rw [this]
      simp [hlt]
    | succ k =>
      simp only [List.getElem_cons_succ] at hlt ⊢
      unfold markFrom
      simp only [List.zipIdx_cons, List.foldl_cons]
      have := ih (roles.setIfInBounds x (mk start)) (start + 1) k (by simpa using hk) hnd'.2
        (by rw [Array.size_setIfInBounds]; exact hlt)
      unfold markFrom at this
      rw [this]
      congr 2
      omega

end CfbVerif.Phys
