import CfbVerif.Phys.Api
import CfbVerif.Raw.Read
/-!
# Loading the two-level model from a file somebody else wrote

`ofImage img`: run the reader model (`Raw.openImg`, permissive), turn its directory table into the
`Dir` tree (any shape, any slots, any colouring), read every stream's bytes through its chain, and
take over the allocation tables and the raw sectors.  The free lists are what `open` builds:
ascending.  After this the API model continues on a foreign layout exactly as on a library-made
file; for the layouts the harness synthesises, `render (ofImage img) = img` byte for byte (checked
on every loaded image by the driver).

Not every accepted file can be loaded: a directory with allocated entries that no storage reaches,
or a stream whose chain cannot be read, has no `Dir` counterpart (`none`).
-/
namespace CfbVerif.Phys
open CfbVerif.Raw CfbVerif.Dir

def metaOf (e : DirEntry) : Meta := ⟨e.clsid, e.stateBits, e.ctime, e.mtime⟩

/-- the sibling tree rooted at directory slot `id` -/
def treeOf (r : RawState) (img : Img) : Nat → Nat → Option Tree
  | 0, _ => none
  | fuel + 1, id =>
    if id = NOSTREAM then some .leaf else
    match r.dir[id]? with
    | none => none
    | some e =>
      let isStream := e.objType = Gen.OBJ_TYPE_STREAM
      let content : Option Bytes :=
        if isStream then
          match readAll r img e with
          | .ok bs => some bs
          | _ => none
        else some []
      match content, treeOf r img fuel e.left, treeOf r img fuel e.right,
            (if isStream then some Tree.leaf else treeOf r img fuel e.child) with
      | some c, some l, some rt, some k =>
        some (.node l { slot := id, name := e.name, isStream := isStream, black := !e.red, md := metaOf e, content := c } k rt)
      | _, _, _, _ => none

def sectorsOf (img : Img) (S n : Nat) : Array ByteArray :=
  (List.range n).toArray.map (fun i => img.extract ((i + 1) * S) ((i + 2) * S))

def ofImage (img : Img) (maxBuf : Nat) : Option PState :=
  match openImg .permissive img with
  | .ok r =>
    match r.dir[0]? with
    | none => none
    | some root =>
      match treeOf r img (r.dir.size + 1) root.child with
      | none => none
      | some top =>
        -- every allocated entry must be in the tree
        let allocated := (List.range r.dir.size).filter (fun i => i ≠ 0 ∧ (r.dir[i]?.map (·.objType)).getD 0 ≠ Gen.OBJ_TYPE_UNALLOCATED)
        if allocated.any (fun i => !top.slots.contains i) then none else
        let S := sectorLenOf r.v4
        let starts := (List.range r.dir.size).filterMap (fun i =>
          match r.dir[i]? with
          | some e => if e.objType = Gen.OBJ_TYPE_STREAM then some (i, e.startSector) else none
          | none => none)
        let p : P := { v4 := r.v4, numSectors := r.numSectors, sectors := sectorsOf img S r.numSectors,
                       difatSectorIds := r.difatSectorIds, difat := r.difat, fat := r.fat,
                       free := indicesOf r.fat FREE, dirStart := r.dirStart, dirLen := r.dir.size,
                       miniFat := r.miniFat, miniFatStart := r.miniFatStart, freeMini := indicesOf r.miniFat FREE,
                       rootStart := root.startSector, rootLen := root.streamLen, starts := starts,
                       txSig := (Raw.leN img 52 4).getD 0 }
        some { s := { base := { rootMeta := metaOf root, top := top }, handles := [], maxBuf := maxBuf }, p := p }
  | _ => none

end CfbVerif.Phys
