import CfbVerif.Phys.Api
/-!
# A refused API call has no physical effect

`pstep` derives the allocation-level effects of an API call from the logical states before and after
it.  When the logical model refuses the call and leaves its state as it was (`Props/C10.lean`:
every refusal of every operation), nothing is derived: no directory slot is prepared, no chain is
freed, no store operation runs — the allocation state is the same value, so the rendered file is
the same byte array (`pstep_refused`).
-/
namespace CfbVerif.Phys
open CfbVerif.Dir CfbVerif.Names CfbVerif.Raw

theorem newSlots_self (t : Tree) : newSlots t t = [] := by
  unfold newSlots
  have : t.slots.filter (fun s => !t.slots.contains s) = [] := by
    rw [List.filter_eq_nil_iff]
    intro a ha
    simp [ha]
  rw [this]
  rfl

/-- a list of entries none of which is a stream of `t` frees nothing -/
theorem freeStreams_none (t : Tree) (p : P) : ∀ (l : List Info),
    (∀ i ∈ l, (nameChain i.path).bind (streamAt t) = none) → freeStreams t p l = .ok p := by
  intro l
  induction l with
  | nil => intro _; rfl
  | cons i rest ih =>
    intro h
    have hi := h i (by simp)
    have hr := ih (fun x hx => h x (List.mem_cons_of_mem _ hx))
    unfold freeStreams
    by_cases hk : i.kind = .stream
    · rw [if_pos hk, hi]
      exact hr
    · rw [if_neg hk]
      exact hr

/-- **a call that the logical model answers with an error, leaving its state as it was, leaves the
allocation state as it was** — whatever the operation (`reopen` is never answered with an error) -/
theorem pstep_refused (ps : PState) (op : Op) (e : Err) (hre : op ≠ .reopen)
    (h : hstep ps.s (.base op) = (ps.s, .base (.err e))) :
    pstep ps (.base op) = (ps, .base (.err e), .fine) := by
  have hphys : physOf ps.s ps.s (.base (.err e)) ps.p (.base op) = .ok ps.p := by
    cases op with
    | mkdir q => simp only [physOf, newSlots_self]; rfl
    | mkdirs q => simp only [physOf, newSlots_self]; rfl
    | mkstream q => simp only [physOf]
    | mknew q => simp only [physOf]
    | put q d => simp only [physOf]
    | rm q => simp only [physOf]
    | rmall q =>
      simp only [physOf]
      cases hw : (nameChain q).bind (walkOf ps.s.base) with
      | none => rfl
      | some infos =>
        simp only
        apply freeStreams_none
        intro i hi
        have := (List.mem_filter.mp hi).2
        simpa using this
    | reopen => exact absurd rfl hre
    | _ => rfl
  unfold pstep
  rw [h]
  simp only [hphys]

/-- … and therefore the file: the rendered image is the same byte array -/
theorem pstep_refused_image (ps : PState) (op : Op) (e : Err) (hre : op ≠ .reopen)
    (h : hstep ps.s (.base op) = (ps.s, .base (.err e))) :
    (pstep ps (.base op)).1.image = ps.image := by
  rw [pstep_refused ps op e hre h]

end CfbVerif.Phys
