import CfbVerif.Phys.NoLeak
import CfbVerif.Phys.SecSize
/-!
# Chains of other owners are not touched; the chain an operation works on is what it returns

`PresV p p' a`: an operation that works on the chains of the heads `a` leaves the chain of every
other head exactly as it was (the same list).  Together with the tracked versions of the chain
operations — the sector list a chain operation returns *is* the chain of its head in the new
table, with the expected length — this gives: every stream's chain has exactly
`⌈length / sector size⌉` sectors in every state of the store machine (C03: "each stream's chain
length matches its size").
-/
namespace CfbVerif.Phys
open CfbVerif.Raw

/-- the chains of the heads an operation does not work on are preserved verbatim -/
def PresV (p p' : P) (a : List Nat) : Prop :=
  p'.fat.size ≤ MAXREG + 1 → Inv p → ∀ X, NC p.fat (a ++ X) →
    ∀ h ∈ X, ∀ l, IsChain p.fat h l → IsChain p'.fat h l

theorem PresV.refl (p : P) (a : List Nat) : PresV p p a := fun _ _ _ _ _ _ _ c => c

theorem PresV.trans {p q r : P} {a b : List Nat} (h1 : PresV p q a) (k : KeepsC p q a b) (h2 : PresV q r b)
    (g2 : Good q r) : PresV p r a := by
  intro hb inv X n h hh l c
  have hbq : q.fat.size ≤ MAXREG + 1 := Nat.le_trans g2.mono hb
  have c1 := h1 hbq inv X n h hh l c
  exact h2 hb (k.good.inv inv (small_of_bound hbq)) X (k.keep hbq inv X n) h hh l c1

theorem PresV.of_same {p q : P} (h : SameAlloc p q) (a : List Nat) : PresV p q a :=
  fun _ _ _ _ _ _ _ c => by rw [h.1]; exact c

/-- a head of `X` is not a head of `a` (the list of all heads has no repetition) -/
theorem NC.apart {fat : Array Nat} {a X : List Nat} (n : NC fat (a ++ X)) {h0 h : Nat} (m0 : h0 ∈ a) (m : h ∈ X) : h0 ≠ h := by
  intro e; subst e
  have := List.nodup_append.mp n.ns.nodup
  exact this.2.2 h0 m0 h0 m rfl

/-- a cell on the chain of a head of `a` is not on the chain of a head of `X` -/
theorem NC.off_chain {fat : Array Nat} {a X : List Nat} (n : NC fat (a ++ X)) {h0 h x : Nat} {l0 l : List Nat}
    (m0 : h0 ∈ a) (m : h ∈ X) (c0 : IsChain fat h0 l0) (c : IsChain fat h l) (x0 : x ∈ l0) : x ∉ l := by
  intro xl
  exact n.apart m0 m (IsChain.disjoint n.ns (List.mem_append_left _ m0) (List.mem_append_right _ m) c0 c x0 xl)

theorem pres_allocateSector {p p' : P} {id : Nat} {k : Init} (h : allocateSector p k = .ok (p', id)) (a : List Nat) :
    PresV p p' a := by
  intro _ inv X n h0 hh l c
  refine c.frame ?_
  intro x hx
  obtain ⟨w, hw, hwf⟩ := c.used x hx
  have r := inv_allocateSector inv h
  refine allocateSector_frame inv h x (lt_of_get hw) ?_
  intro e; subst e
  rcases r.2.2.1 with hf | hge
  · rw [hw] at hf; exact hwf (Option.some.inj hf)
  · have := lt_of_get hw; omega

/-- `lastOfChain` from the first sector of a chain returns its last sector -/
theorem lastOfChain_eq (fat : Array Nat) (fuel : Nat) : ∀ {x z : Nat} {post : List Nat}, IsChain fat x post →
    lastOfChain fat fuel x = .ok z → post.getLast? = some z := by
  induction fuel with
  | zero => intro x z post _ h; simp [lastOfChain] at h
  | succ fuel ih =>
    intro x z post c h
    unfold lastOfChain at h
    cases c with
    | last he =>
      have hlt := lt_of_get he
      have hn : nextSector fat x = .ok END := by
        unfold nextSector
        rw [dif_pos hlt]
        have : fat[x] = END := by simpa [hlt] using he
        simp [this]
      rw [hn] at h
      simp only [↓reduceIte] at h
      cases h; rfl
    | cons hab hb hc =>
      rename_i b t
      have hlt := lt_of_get hab
      obtain ⟨t', e⟩ := hc.head
      obtain ⟨w, hw, _⟩ := hc.used b (by rw [e]; simp)
      have hblt := lt_of_get hw
      have hn : nextSector fat x = .ok b := by
        unfold nextSector
        rw [dif_pos hlt]
        have : fat[x] = b := by simpa [hlt] using hab
        simp only [this]
        rw [if_neg]
        intro hc'
        rcases hc'.2 with h1 | h1 <;> omega
      rw [hn] at h
      have hbe : b ≠ END := by have := MAXREG_lt_END; omega
      simp only [hbe, ↓reduceIte] at h
      subst e
      rw [List.getLast?_cons_cons]
      exact ih hc h

theorem lastOfChain_mem {fat : Array Nat} {fuel : Nat} {a x z : Nat} {l : List Nat} (c : IsChain fat a l) (hx : x ∈ l)
    (h : lastOfChain fat fuel x = .ok z) : z ∈ l ∧ l.getLast? = some z := by
  obtain ⟨pre, post, e, cp⟩ := c.suffix hx
  have hz := lastOfChain_eq fat fuel cp h
  have hne : post ≠ [] := by obtain ⟨t, e'⟩ := cp.head; rw [e']; simp
  refine ⟨by rw [e]; exact List.mem_append_right _ (List.mem_of_getLast? hz), ?_⟩
  rw [e, List.getLast?_append, hz]; rfl

/-- `extend_chain` from a sector on the chain of a head of `a` -/
theorem pres_extendChain {p p' : P} {start id : Nat} {k : Init} {a : List Nat}
    (h : extendChain p start k = .ok (p', id)) :
    p'.fat.size ≤ MAXREG + 1 → Inv p → ∀ X, NC p.fat (a ++ X) →
    (∃ h0 ∈ a, ∃ l0, IsChain p.fat h0 l0 ∧ start ∈ l0) →
    ∀ h ∈ X, ∀ l, IsChain p.fat h l → IsChain p'.fat h l := by
  intro hb inv X n ⟨h0, hh0, l0, c0, hs0⟩ hx hh l c
  unfold extendChain at h
  obtain ⟨last, hl, h⟩ := bind_ok h
  obtain ⟨⟨p1, id1⟩, ha, h⟩ := bind_ok h
  obtain ⟨p2, hs', h⟩ := bind_ok h
  cases h
  have hlast := lastOfChain_ok _ _ hl
  have hlm := (lastOfChain_mem c0 hs0 hl).1
  have hnot : last ∉ l := n.off_chain hh0 hh c0 c hlm
  have c1 : IsChain p1.fat hx l := pres_allocateSector ha a (Nat.le_trans (setFat_mono hs') hb) inv X n hx hh l c
  have hp' : p'.fat = p1.fat.setIfInBounds last id := by
    rcases setFat_ok hs' with ⟨he, _⟩ | ⟨_, he⟩
    · have := Nat.lt_of_lt_of_le hlast.1 (allocateSector_mono ha); omega
    · subst he; rfl
  rw [hp']
  refine c1.frame ?_
  intro y hy
  simp only [Array.getElem?_setIfInBounds]
  rw [if_neg]
  intro e; exact hnot (by rw [e]; exact hy)

/-- `free_chain` from a head -/
theorem pres_freeChain (fuel : Nat) : ∀ {p p' : P} {cur : Nat} {hs : List Nat},
    freeChain p fuel cur = .ok p' → NC p.fat (hd1 cur ++ hs) →
    ∀ h ∈ hs, ∀ l, IsChain p.fat h l → IsChain p'.fat h l := by
  induction fuel with
  | zero => intro p p' cur hs h; simp [freeChain] at h
  | succ fuel ih =>
    intro p p' cur hs h n hx hh l c
    unfold freeChain at h
    split at h
    · cases h; exact c
    · rename_i hne
      cases hn : nextSector p.fat cur with
      | error k => simp [hn] at h
      | ok next =>
        simp only [hn] at h
        have ns := nextSector_ok hn
        split at h
        · cases h
        · cases h1 : setFat p cur FREE with
          | err e => simp [h1] at h
          | panic s => simp [h1] at h
          | hang s => simp [h1] at h
          | ok p1 =>
            simp only [h1] at h
            have hp1 : p1 = { p with fat := p.fat.setIfInBounds cur FREE } := by
              rcases setFat_ok h1 with ⟨he, _⟩ | ⟨_, he⟩
              · omega
              · exact he
            subst hp1
            have n0 : NC p.fat (cur :: hs) := by simpa [hd1, hne] using n
            have n1 := n0.freeHead ns.2.1 ns.2.2
            -- `cur` is not on `h`'s chain
            obtain ⟨l0, c0⟩ := n0.ch cur (List.mem_cons_self ..)
            have hcur : cur ∉ l := by
              intro hm
              have : cur = hx := IsChain.disjoint n0.ns (List.mem_cons_self ..) (List.mem_cons_of_mem _ hh) c0 c
                (by obtain ⟨t, e⟩ := c0.head; rw [e]; simp) hm
              exact (List.nodup_cons.mp n0.ns.nodup).1 (this ▸ hh)
            have c1 : IsChain (p.fat.setIfInBounds cur FREE) hx l := by
              refine c.frame ?_
              intro y hy
              simp only [Array.getElem?_setIfInBounds]
              rw [if_neg]
              intro e; exact hcur (by rw [e]; exact hy)
            refine ih h ?_ hx hh l c1
            rcases nextSector_class hn with he | ⟨hne', hreg⟩
            · subst he
              have : ¬ (END ≤ MAXREG) := Nat.not_le.mpr MAXREG_lt_END
              simpa [hd1, this] using n1
            · simpa [hd1, hne', hreg] using n1

end CfbVerif.Phys

/-! ## tracked chain operations -/
namespace CfbVerif.Phys
open CfbVerif.Raw

/-- `ids` is the chain of its first sector (nothing is said about the empty list) -/
def Tr (fat : Array Nat) (ids : List Nat) : Prop := ∀ hd ∈ hdl ids, IsChain fat hd ids

theorem Tr.nil (fat : Array Nat) : Tr fat [] := by intro hd h; simp [hdl] at h

theorem allocateSector_v4 {p p' : P} {id : Nat} {k : Init} (h : allocateSector p k = .ok (p', id)) : p'.v4 = p.v4 := by
  have e1 : ∀ {q q' : P} {i v : Nat}, setFat q i v = .ok q' → q'.v4 = q.v4 := by
    intro q q' i v h; rcases setFat_ok h with ⟨_, he⟩ | ⟨_, he⟩ <;> subst he <;> rfl
  have e2 : ∀ {q q' : P} {i : Nat} {k : Init}, initSector q i k = .ok q' → q'.v4 = q.v4 := by
    intro q q' i k h; rcases initSector_ok h with ⟨_, he⟩ | ⟨_, he⟩ <;> subst he <;> rfl
  have e3 : ∀ {q q' : P}, appendFatSector q = .ok q' → q'.v4 = q.v4 := by
    intro q q' h
    unfold appendFatSector at h
    obtain ⟨p1, h1, h⟩ := bind_ok h
    obtain ⟨p2, h2, h⟩ := bind_ok h
    have a : p2.v4 = q.v4 := by
      have a1 : p1.v4 = q.v4 := e2 h1
      have a2 := e1 h2
      rw [a2]; exact a1
    split at h
    · cases h; exact a
    · dsimp only at h
      split at h
      · obtain ⟨p3, h3, h⟩ := bind_ok h
        obtain ⟨p4, h4, h⟩ := bind_ok h
        cases h
        show p4.v4 = q.v4
        rw [e1 h4, e2 h3]; exact a
      · cases h; exact a
  unfold allocateSector at h
  split at h
  · obtain ⟨p1, h1, h⟩ := bind_ok h
    obtain ⟨p2, h2, h⟩ := bind_ok h
    cases h
    rw [e2 h2, e1 h1]
  · split at h
    · obtain ⟨p0, h0, h⟩ := bind_ok h
      obtain ⟨p1, h1, h⟩ := bind_ok h
      obtain ⟨p2, h2, h⟩ := bind_ok h
      cases h
      rw [e2 h2, e1 h1, e3 h0]
    · obtain ⟨p0, h0, h⟩ := bind_ok h
      cases h0
      obtain ⟨p1, h1, h⟩ := bind_ok h
      obtain ⟨p2, h2, h⟩ := bind_ok h
      cases h
      rw [e2 h2, e1 h1]

theorem extendChain_v4 {p p' : P} {start id : Nat} {k : Init} (h : extendChain p start k = .ok (p', id)) : p'.v4 = p.v4 := by
  unfold extendChain at h
  obtain ⟨last, hl, h⟩ := bind_ok h
  obtain ⟨⟨p1, id1⟩, ha, h⟩ := bind_ok h
  obtain ⟨p2, hs, h⟩ := bind_ok h
  cases h
  have : p'.v4 = p1.v4 := by rcases setFat_ok hs with ⟨_, he⟩ | ⟨_, he⟩ <;> subst he <;> rfl
  rw [this]; exact allocateSector_v4 ha

/-- one more sector at the end of a tracked chain: the returned list is the chain -/
theorem growOne_v {kind : Init} {p p' : P} {ids ids' : List Nat} (h : growOne kind p ids = .ok (p', ids'))
    (hb : p'.fat.size ≤ MAXREG + 1) (inv : Inv p) (X : List Nat) (n : NC p.fat (hdl ids ++ X)) (tr : Tr p.fat ids) :
    (∃ id, ids' = ids ++ [id]) ∧ Tr p'.fat ids' ∧ p'.v4 = p.v4 ∧
    (∀ h ∈ X, ∀ l, IsChain p.fat h l → IsChain p'.fat h l) := by
  unfold growOne at h
  split at h
  · rename_i last hl
    have hne : ids ≠ [] := by intro he; subst he; simp at hl
    obtain ⟨hd, t, eids⟩ : ∃ hd t, ids = hd :: t := by
      cases ids with
      | nil => exact absurd rfl hne
      | cons a t => exact ⟨a, t, rfl⟩
    have hhd : hd ∈ hdl ids := by rw [eids]; simp [hdl]
    have c0 : IsChain p.fat hd ids := tr hd hhd
    have hlastmem : last ∈ ids := List.mem_of_getLast? hl
    split at h
    · rename_i p1 id he
      cases h
      refine ⟨⟨id, rfl⟩, ?_, extendChain_v4 he, ?_⟩
      · -- the new chain
        intro hd' hhd'
        have : hd' = hd := by rw [hdl_append hne] at hhd'; rw [eids] at hhd'; simpa [hdl] using hhd'
        subst this
        have he' := he
        unfold extendChain at he'
        obtain ⟨z, hz, he'⟩ := bind_ok he'
        obtain ⟨⟨q1, id1⟩, ha, he'⟩ := bind_ok he'
        obtain ⟨q2, hs, he'⟩ := bind_ok he'
        cases he'
        have hzl := (lastOfChain_mem c0 hlastmem hz).2
        have hzeq : z = last := by rw [hl] at hzl; exact (Option.some.inj hzl).symm
        subst hzeq
        have hlast := lastOfChain_ok _ _ hz
        have r := inv_allocateSector inv ha
        have hb1 : q1.fat.size ≤ MAXREG + 1 := Nat.le_trans (setFat_mono hs) hb
        have hne' : z ≠ id := by
          intro e; subst e
          rcases r.2.2.1 with hfr | hge
          · rw [hlast.2] at hfr; exact END_ne_FREE (Option.some.inj hfr)
          · omega
        have hidnot : id ∉ ids := by
          intro hm
          obtain ⟨w, hw, hwf⟩ := c0.used id hm
          rcases r.2.2.1 with hfr | hge
          · rw [hw] at hfr; exact hwf (Option.some.inj hfr)
          · have := lt_of_get hw; omega
        have c1 : IsChain q1.fat hd' ids := by
          refine c0.frame ?_
          intro x hx
          obtain ⟨w, hw, _⟩ := c0.used x hx
          exact allocateSector_frame inv ha x (lt_of_get hw) (fun e => hidnot (e ▸ hx))
        have cid : IsChain q1.fat id [id] := IsChain.last r.2.1
        have n1 := nc_allocateSector inv ha hb1 n
        have hidreg : id ≤ MAXREG := n1.ns.head_reg (List.mem_cons_self ..)
        have hnd : ids.Nodup := c0.nodup n.ns (List.mem_append_left _ hhd)
        have hp' : p'.fat = q1.fat.setIfInBounds z id := by
          rcases setFat_ok hs with ⟨he2, _⟩ | ⟨_, he2⟩
          · have := Nat.lt_of_lt_of_le hlast.1 (allocateSector_mono ha); omega
          · subst he2; rfl
        rw [hp']
        exact c1.append cid hl hidreg (by intro x hx; simp at hx; subst hx; exact hidnot) hnd
      · exact pres_extendChain he hb inv X n ⟨hd, hhd, ids, c0, hlastmem⟩
    · cases h
    · cases h
    · cases h
  · rename_i hl
    have he0 : ids = [] := List.getLast?_eq_none_iff.mp hl
    subst he0
    split at h
    · rename_i p1 id he
      cases h
      have r := inv_allocateSector inv he
      refine ⟨⟨id, rfl⟩, ?_, allocateSector_v4 he, ?_⟩
      · intro hd' hhd'
        have : hd' = id := by simpa [hdl] using hhd'
        subst this
        exact IsChain.last r.2.1
      · exact pres_allocateSector he _ hb inv X n
    · cases h
    · cases h
    · cases h

end CfbVerif.Phys

namespace CfbVerif.Phys
open CfbVerif.Raw

theorem writeSector_v4 {p p' : P} {id off : Nat} {bs : Bytes} (h : writeSector p id off bs = .ok p') : p'.v4 = p.v4 := by
  unfold writeSector at h
  split at h
  · cases h
  · cases h; rfl

theorem len_h1 {S off L : Nat} (hS : S = 512 ∨ S = 4096) (h : off ≤ L * S) : L = max L ((off + 0 + S - 1) / S) := by
  rcases hS with rfl | rfl <;> omega

theorem len_h2 {S off L1 len : Nat} (hS : S = 512 ∨ S = 4096) (hi : off / S < L1) :
    off + min len (S - off % S) ≤ L1 * S := by
  rcases hS with rfl | rfl <;> omega

theorem len_h4 {S off L len : Nat} (hS : S = 512 ∨ S = 4096) (ho : off = L * S) (hl : 1 ≤ len) :
    max (L + 1) ((off + len + S - 1) / S) = max L ((off + len + S - 1) / S) := by
  rcases hS with rfl | rfl <;> omega

/-- `Chain::write` under `write_all` on a tracked chain: the returned list is the chain, it has
`max(old sectors, ⌈(offset + bytes) / S⌉)` sectors, and no other owner's chain is touched -/
theorem chainWrite_v (kind : Init) (fuel : Nat) : ∀ {p p' : P} {ids ids' : List Nat} {off : Nat} {bs : Bytes},
    chainWrite kind fuel p ids off bs = .ok (p', ids') → p'.fat.size ≤ MAXREG + 1 → Inv p →
    ∀ X, NC p.fat (hdl ids ++ X) → Tr p.fat ids → off ≤ ids.length * p.S →
    Tr p'.fat ids' ∧ p'.v4 = p.v4 ∧ ids'.length = max ids.length ((off + bs.length + p.S - 1) / p.S) ∧
    (∀ h ∈ X, ∀ l, IsChain p.fat h l → IsChain p'.fat h l) := by
  induction fuel with
  | zero => intro p p' ids ids' off bs h; simp [chainWrite] at h
  | succ fuel ih =>
    intro p p' ids ids' off bs h hb inv X n tr hoff
    have hS := S_cases p
    unfold chainWrite at h
    split at h
    · rename_i hemp
      cases h
      have hl : bs.length = 0 := by simpa using hemp
      rw [hl]
      exact ⟨tr, rfl, len_h1 hS hoff, fun _ _ _ c => c⟩
    · rename_i hne
      have hlen : 1 ≤ bs.length := by
        cases bs with
        | nil => simp at hne
        | cons a t => simp
      dsimp only at h
      split at h
      · rename_i p1 ids1 hgrow
        -- the chain after the optional growth
        have step : Tr p1.fat ids1 ∧ p1.v4 = p.v4 ∧ (∀ h ∈ X, ∀ l, IsChain p.fat h l → IsChain p1.fat h l) ∧
            KeepsC p p1 (hdl ids) (hdl ids1) ∧
            ((ids1 = ids ∧ off ≠ ids.length * p.S) ∨ (ids1.length = ids.length + 1 ∧ off = ids.length * p.S)) := by
          split at hgrow
          · rename_i heq
            have hb1 : p1.fat.size ≤ MAXREG + 1 := by
              have g : Good p1 p' := by
                split at h
                · cases h
                · split at h
                  · rename_i p2 hw
                    exact (good_writeSector hw).trans (good_chainWrite _ _ h)
                  · cases h
                  · cases h
                  · cases h
              exact Nat.le_trans g.mono hb
            obtain ⟨⟨id, e⟩, tr1, v1, pr1⟩ := growOne_v hgrow hb1 inv X n tr
            exact ⟨tr1, v1, pr1, (kc_growOne hgrow).1, Or.inr ⟨by rw [e]; simp, heq⟩⟩
          · rename_i hneq
            cases hgrow
            exact ⟨tr, rfl, fun _ _ _ c => c, KeepsC.refl _ _, Or.inl ⟨rfl, hneq⟩⟩
        obtain ⟨tr1, v1, pr1, k1, hcase⟩ := step
        split at h
        · cases h
        · rename_i id hidx
          split at h
          · rename_i p2 hw
            have hfat2 : p2.fat = p1.fat := (writeSector_same hw).1
            have v2 : p2.v4 = p1.v4 := writeSector_v4 hw
            have g2 : Good p2 p' := good_chainWrite _ _ h
            have hb1 : p1.fat.size ≤ MAXREG + 1 := by rw [← hfat2]; exact Nat.le_trans g2.mono hb
            have inv1 : Inv p1 := k1.good.inv inv (small_of_bound hb1)
            have inv2 : Inv p2 := inv_of_same (writeSector_same hw) inv1
            have n1 : NC p1.fat (hdl ids1 ++ X) := k1.keep hb1 inv X n
            have hS2 : p2.S = p.S := by rw [S_of_v4 v2, S_of_v4 v1]
            have hi : off / p.S < ids1.length := by
              rcases Nat.lt_or_ge (off / p.S) ids1.length with hc | hc
              · exact hc
              · rw [List.getElem?_eq_none hc] at hidx; cases hidx
            have hoff2 : off + min bs.length (p.S - off % p.S) ≤ ids1.length * p2.S := by
              rw [hS2]; exact len_h2 hS hi
            have r := ih h hb inv2 X (by rw [hfat2]; exact n1) (by intro hd hh; rw [hfat2]; exact tr1 hd hh) hoff2
            obtain ⟨tr', v', hl', pr'⟩ := r
            refine ⟨tr', by rw [v', v2, v1], ?_, ?_⟩
            · rw [hl', hS2]
              have hn : min bs.length (p.S - off % p.S) ≤ bs.length := Nat.min_le_left _ _
              have hsum : off + min bs.length (p.S - off % p.S) + (bs.drop (min bs.length (p.S - off % p.S))).length = off + bs.length := by
                rw [List.length_drop]; omega
              rw [hsum]
              rcases hcase with ⟨e, _⟩ | ⟨e, ho⟩
              · rw [e]
              · rw [e]; exact len_h4 hS ho hlen
            · intro hx hh l c
              have c1 := pr1 hx hh l c
              exact pr' hx hh l (by rw [hfat2]; exact c1)
          · cases h
          · cases h
          · cases h
      · cases h
      · cases h
      · cases h

end CfbVerif.Phys

namespace CfbVerif.Phys
open CfbVerif.Raw

theorem chainGrow_v (kind : Init) (fuel : Nat) : ∀ {p p' : P} {ids ids' : List Nat} {target : Nat},
    chainGrow kind fuel p ids target = .ok (p', ids') → p'.fat.size ≤ MAXREG + 1 → Inv p →
    ∀ X, NC p.fat (hdl ids ++ X) → Tr p.fat ids →
    Tr p'.fat ids' ∧ p'.v4 = p.v4 ∧ ids'.length = max ids.length target ∧
    (∀ h ∈ X, ∀ l, IsChain p.fat h l → IsChain p'.fat h l) := by
  induction fuel with
  | zero => intro p p' ids ids' target h; simp [chainGrow] at h
  | succ fuel ih =>
    intro p p' ids ids' target h hb inv X n tr
    unfold chainGrow at h
    split at h
    · rename_i hge
      cases h
      exact ⟨tr, rfl, by omega, fun _ _ _ c => c⟩
    · rename_i hlt
      split at h
      · rename_i p1 ids1 hg
        have g2 : Good p1 p' := good_chainGrow _ _ h
        have hb1 : p1.fat.size ≤ MAXREG + 1 := Nat.le_trans g2.mono hb
        obtain ⟨⟨id, e⟩, tr1, v1, pr1⟩ := growOne_v hg hb1 inv X n tr
        have k1 := (kc_growOne hg).1
        have inv1 : Inv p1 := k1.good.inv inv (small_of_bound hb1)
        have n1 : NC p1.fat (hdl ids1 ++ X) := k1.keep hb1 inv X n
        obtain ⟨tr', v', hl', pr'⟩ := ih h hb inv1 X n1 tr1
        refine ⟨tr', by rw [v', v1], ?_, fun hx hh l c => pr' hx hh l (pr1 hx hh l c)⟩
        rw [hl', e]; simp; omega
      · cases h
      · cases h
      · cases h

/-- cutting a chain behind its `k`-th sector (not the last one) -/
theorem IsChain.cutAt {fat : Array Nat} : ∀ {a : Nat} {l : List Nat} (k : Nat), IsChain fat a l → l.Nodup →
    (hk : k + 1 < l.length) →
    ∃ next, fat[l[k]'(by omega)]? = some next ∧ next ≤ MAXREG ∧
      IsChain (fat.setIfInBounds (l[k]'(by omega)) END) a (l.take (k + 1)) ∧
      IsChain (fat.setIfInBounds (l[k]'(by omega)) END) next (l.drop (k + 1)) := by
  intro a l k c
  induction c generalizing k with
  | last _ => intro _ hk; simp at hk
  | cons hab hb hc ih =>
    rename_i a b t
    intro hnd hk
    have hnd' := List.nodup_cons.mp hnd
    cases k with
    | zero =>
      refine ⟨b, by simpa using hab, hb, ?_, ?_⟩
      · simp only [List.getElem_cons_zero, List.take_succ_cons, List.take_zero]
        exact IsChain.last (by simp [lt_of_get hab])
      · simp only [List.getElem_cons_zero, List.drop_succ_cons, List.drop_zero]
        refine hc.frame ?_
        intro y hy
        simp only [Array.getElem?_setIfInBounds]
        rw [if_neg]
        intro e; exact hnd'.1 (by rw [e]; exact hy)
    | succ k =>
      have hk' : k + 1 < t.length := by simpa using hk
      obtain ⟨next, h1, h2, c1, c2⟩ := ih k hnd'.2 hk'
      have hmem : t[k]'(by omega) ∈ t := List.getElem_mem _
      have hne : a ≠ t[k]'(by omega) := fun e => hnd'.1 (e ▸ hmem)
      refine ⟨next, by simpa using h1, h2, ?_, by simpa using c2⟩
      simp only [List.getElem_cons_succ, List.take_succ_cons]
      refine IsChain.cons ?_ hb c1
      simp only [Array.getElem?_setIfInBounds]
      rw [if_neg (fun e => hne e.symm)]
      exact hab

end CfbVerif.Phys

namespace CfbVerif.Phys
open CfbVerif.Raw

theorem setFat_v4 {q q' : P} {i v : Nat} (h : setFat q i v = .ok q') : q'.v4 = q.v4 := by
  rcases setFat_ok h with ⟨_, he⟩ | ⟨_, he⟩ <;> subst he <;> rfl

theorem freeChain_v4 (fuel : Nat) : ∀ {p p' : P} {cur : Nat}, freeChain p fuel cur = .ok p' → p'.v4 = p.v4 := by
  induction fuel with
  | zero => intro p p' cur h; simp [freeChain] at h
  | succ fuel ih =>
    intro p p' cur h
    unfold freeChain at h
    split at h
    · cases h; rfl
    · cases hn : nextSector p.fat cur with
      | error k => simp [hn] at h
      | ok next =>
        simp only [hn] at h
        split at h
        · cases h
        · cases h1 : setFat p cur FREE with
          | err e => simp [h1] at h
          | panic s => simp [h1] at h
          | hang s => simp [h1] at h
          | ok p1 =>
            simp only [h1] at h
            have e1 : p1.v4 = p.v4 := setFat_v4 h1
            have e2 := ih h
            exact e2.trans e1

/-- `Chain::set_len` to a non-zero length on a tracked chain: afterwards the chain of its head has
exactly `⌈n / S⌉` sectors, and no other owner's chain is touched -/
theorem chainSetLen_v {p p' : P} {ids ids' : List Nat} {kind : Init} {n : Nat} (hn : 0 < n)
    (h : chainSetLen p ids kind n = .ok (p', ids')) (hb : p'.fat.size ≤ MAXREG + 1) (inv : Inv p)
    (X : List Nat) (nc : NC p.fat (hdl ids ++ X)) (tr : Tr p.fat ids) :
    p'.v4 = p.v4 ∧ (∃ l', Tr p'.fat l' ∧ hdl l' = hdl ids' ∧ l'.length = (p.S + n - 1) / p.S ∧
      (ids.length ≤ (p.S + n - 1) / p.S → l' = ids')) ∧
    (∀ h ∈ X, ∀ l, IsChain p.fat h l → IsChain p'.fat h l) := by
  unfold chainSetLen at h
  dsimp only at h
  have hpos : (p.S + n - 1) / p.S ≠ 0 := by
    have hS := S_pos p
    intro he
    have := (Nat.div_eq_zero_iff).mp he
    omega
  rw [if_neg hpos] at h
  generalize hq : (p.S + n - 1) / p.S = q at h hpos ⊢
  have hq1 : 1 ≤ q := Nat.pos_of_ne_zero hpos
  split at h
  · rename_i hle
    split at h
    · rename_i hlt
      split at h
      · rename_i keep hkeep
        obtain ⟨q, hf, h⟩ := obind_ok h
        cases h
        -- the chain and the sector after which it is cut
        have hne : ids ≠ [] := by intro e; subst e; simp at hlt
        obtain ⟨hd, t, eids⟩ : ∃ hd t, ids = hd :: t := by
          cases ids with
          | nil => exact absurd rfl hne
          | cons a t => exact ⟨a, t, rfl⟩
        have hhd : hd ∈ hdl ids := by rw [eids]; simp [hdl]
        have c0 : IsChain p.fat hd ids := tr hd hhd
        have hnd : ids.Nodup := c0.nodup nc.ns (List.mem_append_left _ hhd)
        have hk : (q - 1) + 1 < ids.length := by omega
        have hkeq : (q - 1) + 1 = q := by omega
        obtain ⟨next, hnx, hreg, c1, c2⟩ := c0.cutAt (q - 1) hnd hk
        have hkeep' : ids[q - 1]'(by omega) = keep := by
          have := List.getElem?_eq_getElem (l := ids) (i := q - 1) (by omega)
          rw [this] at hkeep; exact Option.some.inj hkeep
        rw [hkeep'] at hnx c1 c2
        rw [hkeq] at c1 c2
        have hkm : keep ∈ ids := by rw [← hkeep']; exact List.getElem_mem _
        -- unfold `free_chain_after`
        unfold freeChainAfter at hf
        cases hns : nextSector p.fat keep with
        | error k => simp [hns] at hf
        | ok next' =>
          simp only [hns] at hf
          obtain ⟨p1, h1, hf⟩ := bind_ok hf
          have ns := nextSector_ok hns
          have hnn : next' = next := by rw [ns.2.1] at hnx; exact Option.some.inj hnx
          subst hnn
          have hp1 : p1 = { p with fat := p.fat.setIfInBounds keep END } := by
            rcases setFat_ok h1 with ⟨he, _⟩ | ⟨_, he⟩
            · omega
            · exact he
          subst hp1
          have n1 : NC (p.fat.setIfInBounds keep END) (next' :: (hdl ids ++ X)) := nc.cut hnx hreg
          have hnend : next' ≠ END := by have := MAXREG_lt_END; omega
          have n1' : NC (p.fat.setIfInBounds keep END) (hd1 next' ++ (hdl ids ++ X)) := by
            simpa [hd1, hnend] using n1
          have pr := pres_freeChain _ hf n1'
          refine ⟨by rw [freeChain_v4 _ hf], ⟨ids.take q, ?_, ?_, ?_, fun hle' => by omega⟩, ?_⟩
          · intro hd' hh'
            have : hd' = hd := by
              have e : hdl (ids.take q) = hdl ids := by
                rw [eids]
                cases q with
                | zero => exact absurd rfl hpos
                | succ m => simp [hdl]
              rw [e, eids] at hh'; simpa [hdl] using hh'
            subst this
            exact pr hd' (List.mem_append_left _ hhd) _ c1
          · rw [eids]
            cases q with
            | zero => exact absurd rfl hpos
            | succ m => simp [hdl]
          · rw [List.length_take]; omega
          · intro hx hh l c
            refine pr hx (List.mem_append_right _ hh) l ?_
            refine c.frame ?_
            intro y hy
            simp only [Array.getElem?_setIfInBounds]
            rw [if_neg]
            intro e
            exact nc.off_chain hhd hh c0 c hkm (by rw [e]; exact hy)
      · cases h
    · rename_i hnlt
      cases h
      refine ⟨rfl, ⟨ids, tr, rfl, by omega, fun _ => rfl⟩, fun _ _ _ c => c⟩
  · rename_i hgt
    obtain ⟨tr', v', hl', pr'⟩ := chainGrow_v _ _ h hb inv X nc tr
    exact ⟨v', ⟨ids', tr', rfl, by rw [hl']; omega, fun _ => rfl⟩, pr'⟩

end CfbVerif.Phys

/-! ## the mini level touches only the container chains -/
namespace CfbVerif.Phys
open CfbVerif.Raw

/-- a head is on its own chain -/
theorem head_on_chain {fat : Array Nat} {hs : List Nat} (n : NC fat hs) {h : Nat} (m : h ∈ hs) :
    ∃ l, IsChain fat h l ∧ h ∈ l := by
  obtain ⟨l, c⟩ := n.ch h m
  obtain ⟨t, e⟩ := c.head
  exact ⟨l, c, by rw [e]; simp⟩

theorem hd1_mem {s : Nat} (h : s ≠ END) : s ∈ hd1 s := by unfold hd1; rw [if_neg h]; simp

theorem pk_ensureRootRoom {p p' : P} (h : ensureRootRoom p = .ok p') : PresV p p' (cont p) := by
  unfold ensureRootRoom at h
  split at h
  · split at h
    · rename_i p1 id ha
      cases h
      intro hb inv X n hx hh l c
      exact pres_allocateSector ha (cont p) hb inv X n hx hh l c
    · cases h
    · cases h
    · cases h
  · rename_i hne
    split at h
    · split at h
      · split at h
        · split at h
          · rename_i he; cases h
            intro hb inv X n hx hh l c
            have hm : p.rootStart ∈ cont p := by
              unfold cont; exact List.mem_cons_of_mem _ (List.mem_append_right _ (hd1_mem hne))
            obtain ⟨l0, c0, hs0⟩ := head_on_chain n (List.mem_append_left _ hm)
            exact pres_extendChain he hb inv X n ⟨p.rootStart, hm, l0, c0, hs0⟩ hx hh l c
          · cases h
          · cases h
          · cases h
        · cases h; exact PresV.refl _ _
      · cases h
      · cases h
      · cases h
    · cases h; exact PresV.refl _ _

theorem pk_appendMiniSector {p p' : P} (h : appendMiniSector p = .ok p') : PresV p p' (cont p) := by
  unfold appendMiniSector at h
  split at h
  · rename_i q hr; cases h
    intro hb inv X n hx hh l c
    exact pk_ensureRootRoom hr hb inv X n hx hh l c
  · cases h
  · cases h
  · cases h

theorem pk_ensureMiniFatRoom {p p' : P} (h : ensureMiniFatRoom p = .ok p') : PresV p p' (cont p) := by
  unfold ensureMiniFatRoom at h
  dsimp only at h
  split at h
  · split at h
    · rename_i p1 id ha
      cases h
      intro hb inv X n hx hh l c
      exact pres_allocateSector ha (cont p) hb inv X n hx hh l c
    · cases h
    · cases h
    · cases h
  · rename_i hne
    split at h
    · split at h
      · split at h
        · split at h
          · rename_i he; cases h
            intro hb inv X n hx hh l c
            have hm : p.miniFatStart ∈ cont p := by
              unfold cont; exact List.mem_cons_of_mem _ (List.mem_append_left _ (hd1_mem hne))
            obtain ⟨l0, c0, hs0⟩ := head_on_chain n (List.mem_append_left _ hm)
            exact pres_extendChain he hb inv X n ⟨p.miniFatStart, hm, l0, c0, hs0⟩ hx hh l c
          · cases h
          · cases h
          · cases h
        · cases h; exact PresV.refl _ _
      · cases h
      · cases h
      · cases h
    · cases h; exact PresV.refl _ _

/-- chaining two mini-level steps -/
theorem PresV.kk {p q r : P} (h1 : PresV p q (cont p)) (k1 : KKC p q) (h2 : PresV q r (cont q)) (g2 : Good q r) :
    PresV p r (cont p) := h1.trans k1.k h2 g2

theorem pk_of_same {p q : P} (h : SameAlloc p q) : PresV p q (cont p) := PresV.of_same h _

theorem pk_allocateMiniSector {p p' : P} {v id : Nat} (h : allocateMiniSector p v = .ok (p', id)) : PresV p p' (cont p) := by
  unfold allocateMiniSector at h
  obtain ⟨⟨p1, reuse⟩, hp, h⟩ := bind_ok h
  have s0 := same_popFreeMini hp
  have k0 : KKC p p1 := KKC.of_same s0 (sf_popFreeMini hp)
  dsimp only at h
  split at h
  · obtain ⟨p2, hs, h⟩ := bind_ok h
    cases h
    exact (pk_of_same s0).kk k0 (pk_of_same (same_setMiniFat hs)) (Good.of_same (same_setMiniFat hs))
  · obtain ⟨p2, h2, h⟩ := bind_ok h
    obtain ⟨p3, h3, h⟩ := bind_ok h
    obtain ⟨p4, h4, h⟩ := bind_ok h
    cases h
    have a := (pk_of_same s0).kk k0 (pk_ensureMiniFatRoom h2) (good_ensureMiniFatRoom h2)
    have b := a.kk (k0.trans (kkc_ensureMiniFatRoom h2)) (pk_appendMiniSector h3) (good_appendMiniSector h3)
    exact b.kk ((k0.trans (kkc_ensureMiniFatRoom h2)).trans (kkc_appendMiniSector h3)) (pk_of_same (same_setMiniFat h4))
      (Good.of_same (same_setMiniFat h4))

theorem pk_extendMiniChain {p p' : P} {start id : Nat} (h : extendMiniChain p start = .ok (p', id)) : PresV p p' (cont p) := by
  unfold extendMiniChain at h
  obtain ⟨last, hl, h⟩ := bind_ok h
  obtain ⟨⟨p1, i1⟩, ha, h⟩ := bind_ok h
  obtain ⟨p2, hs, h⟩ := bind_ok h
  cases h
  exact (pk_allocateMiniSector ha).kk (kkc_allocateMiniSector ha) (pk_of_same (same_setMiniFat hs)) (Good.of_same (same_setMiniFat hs))

theorem pk_growOneMini {p p' : P} {ids ids' : List Nat} (h : growOneMini p ids = .ok (p', ids')) : PresV p p' (cont p) := by
  unfold growOneMini at h
  split at h
  · split at h
    · rename_i he; cases h; exact pk_extendMiniChain he
    · cases h
    · cases h
    · cases h
  · split at h
    · rename_i he; cases h; exact pk_allocateMiniSector he
    · cases h
    · cases h
    · cases h

theorem pk_miniChainWrite (fuel : Nat) : ∀ {p p' : P} {ids ids' : List Nat} {off : Nat} {bs : Bytes},
    miniChainWrite fuel p ids off bs = .ok (p', ids') → PresV p p' (cont p) := by
  induction fuel with
  | zero => intro p p' ids ids' off bs h; simp [miniChainWrite] at h
  | succ fuel ih =>
    intro p p' ids ids' off bs h
    unfold miniChainWrite at h
    split at h
    · cases h; exact PresV.refl _ _
    · split at h
      · rename_i p1 ids1 hgrow
        have g1 : PresV p p1 (cont p) ∧ KKC p p1 := by
          split at hgrow
          · exact ⟨pk_growOneMini hgrow, kkc_growOneMini hgrow⟩
          · cases hgrow; exact ⟨PresV.refl _ _, KKC.refl _⟩
        split at h
        · cases h
        · dsimp only at h
          split at h
          · rename_i p2 hw
            have s2 := same_miniWriteAt hw
            have a := g1.1.kk g1.2 (pk_of_same s2) (Good.of_same s2)
            exact a.kk (g1.2.trans (kkc_miniWriteAt hw)) (ih h) (good_miniChainWrite _ h)
          · cases h
          · cases h
          · cases h
      · cases h
      · cases h
      · cases h

theorem pk_miniChainGrow (fuel : Nat) : ∀ {p p' : P} {ids ids' : List Nat} {target : Nat},
    miniChainGrow fuel p ids target = .ok (p', ids') → PresV p p' (cont p) := by
  induction fuel with
  | zero => intro p p' ids ids' target h; simp [miniChainGrow] at h
  | succ fuel ih =>
    intro p p' ids ids' target h
    unfold miniChainGrow at h
    split at h
    · cases h; exact PresV.refl _ _
    · split at h
      · rename_i p1 ids1 hg
        split at h
        · rename_i p2 hw
          have s2 := same_miniWriteAt hw
          have a := (pk_growOneMini hg).kk (kkc_growOneMini hg) (pk_of_same s2) (Good.of_same s2)
          exact a.kk ((kkc_growOneMini hg).trans (kkc_miniWriteAt hw)) (ih h) (good_miniChainGrow _ h)
        · cases h
        · cases h
        · cases h
      · cases h
      · cases h
      · cases h

theorem pk_miniChainSetLen {p p' : P} {ids ids' : List Nat} {n : Nat}
    (h : miniChainSetLen p ids n = .ok (p', ids')) : PresV p p' (cont p) := by
  unfold miniChainSetLen at h
  dsimp only at h
  split at h
  · split at h
    · obtain ⟨q, hf, h⟩ := obind_ok h
      cases h; exact pk_of_same (same_freeMiniChain _ hf)
    · cases h; exact PresV.refl _ _
  · split at h
    · split at h
      · split at h
        · obtain ⟨q, hf, h⟩ := obind_ok h
          cases h; exact pk_of_same (same_freeMiniChainAfter hf)
        · cases h
      · cases h; exact PresV.refl _ _
    · exact pk_miniChainGrow _ h

end CfbVerif.Phys

/-! ## every stream of at least 4096 bytes has a chain of exactly ⌈length / S⌉ sectors -/
namespace CfbVerif.Phys
open CfbVerif.Raw

def RegLen (p : P) (L : Nat → Nat) : Prop :=
  ∀ e ∈ p.starts, CUTOFF ≤ L e.1 → e.2 ≠ END ∧ ∃ l, IsChain p.fat e.2 l ∧ l.length = (L e.1 + p.S - 1) / p.S

/-- the heads as `jc_step` arranges them for an operation on slot `s` -/
theorem jc_n0 {p : P} {L : Nat → Nat} (j : JC p L) (s : Nat) :
    NC p.fat ((cont p ++ ownOf p.starts L s) ++ regs (others p.starts s) L) := by
  refine j.nc.perm ?_
  unfold heads
  rw [List.append_assoc]
  exact (regs_split p.starts L s j.keys).append_left _

theorem mem_others {starts : List (Nat × Nat)} {s : Nat} {e : Nat × Nat} : e ∈ others starts s ↔ e ∈ starts ∧ e.1 ≠ s := by
  unfold others
  simp [List.mem_filter]

/-- the common shape: other streams keep their chains, the operated one is dealt with by `hown` -/
theorem reglen_step {p p' : P} {L L' : Nat → Nat} {s : Nat} (j : JC p L) (r : RegLen p L)
    (hL : ∀ t, t ≠ s → L' t = L t)
    (ho : others p'.starts s = others p.starts s)
    (hv : p'.v4 = p.v4)
    (hpres : ∀ h ∈ regs (others p.starts s) L, ∀ l, IsChain p.fat h l → IsChain p'.fat h l)
    (hown : ∀ st, (s, st) ∈ p'.starts → CUTOFF ≤ L' s →
      st ≠ END ∧ ∃ l, IsChain p'.fat st l ∧ l.length = (L' s + p.S - 1) / p.S) : RegLen p' L' := by
  intro e he hc
  rw [S_of_v4 hv]
  by_cases hs : e.1 = s
  · have : e = (s, e.2) := by rw [← hs]
    rw [this] at he
    have := hown e.2 he (by rw [← hs]; exact hc)
    rw [hs]; exact this
  · have he' : e ∈ others p.starts s := by rw [← ho]; exact mem_others.mpr ⟨he, hs⟩
    have hep := (mem_others.mp he').1
    rw [hL e.1 hs] at hc ⊢
    obtain ⟨hne, l, cl, hl⟩ := r e hep hc
    refine ⟨hne, l, hpres e.2 ?_ l cl, hl⟩
    unfold regs
    refine List.mem_map.mpr ⟨e, List.mem_filter.mpr ⟨he', ?_⟩, rfl⟩
    simp [isRegStart, hc, hne]

end CfbVerif.Phys

/-! ## inside a composite operation -/
namespace CfbVerif.Phys
open CfbVerif.Raw

/-- a point inside a composite operation: the chain being worked on (`ids`, possibly empty) and
the heads `X` whose chains must stay as they are -/
structure At (q : P) (ids X : List Nat) : Prop where
  inv : Inv q
  nc : NC q.fat (hdl ids ++ X)
  tr : Tr q.fat ids

def Pres (q q' : P) (X : List Nat) : Prop := ∀ h ∈ X, ∀ l, IsChain q.fat h l → IsChain q'.fat h l

theorem Pres.refl (q : P) (X : List Nat) : Pres q q X := fun _ _ _ c => c
theorem Pres.trans {p q r : P} {X : List Nat} (h1 : Pres p q X) (h2 : Pres q r X) : Pres p r X :=
  fun h hh l c => h2 h hh l (h1 h hh l c)
theorem Pres.sub {p q : P} {X Y : List Nat} (h : Pres p q X) (hs : ∀ x ∈ Y, x ∈ X) : Pres p q Y :=
  fun h' hh l c => h h' (hs h' hh) l c
theorem Pres.of_fat {p q : P} (X : List Nat) (h : q.fat = p.fat) : Pres p q X := fun _ _ _ c => by rw [h]; exact c

theorem at_chainWrite {kind : Init} {fuel : Nat} {q q' : P} {ids ids' X : List Nat} {off : Nat} {bs : Bytes}
    (h : chainWrite kind fuel q ids off bs = .ok (q', ids')) (a : At q ids X) (hoff : off ≤ ids.length * q.S)
    (hb : q'.fat.size ≤ MAXREG + 1) :
    At q' ids' X ∧ q'.v4 = q.v4 ∧ ids'.length = max ids.length ((off + bs.length + q.S - 1) / q.S) ∧ Pres q q' X ∧
      cont q' = cont q ∧ q'.starts = q.starts := by
  have k := kc_chainWrite kind fuel h
  obtain ⟨tr, hv, hl, hp⟩ := chainWrite_v kind fuel h hb a.inv X a.nc a.tr hoff
  exact ⟨⟨k.1.good.inv a.inv (small_of_bound hb), k.1.keep hb a.inv X a.nc, tr⟩, hv, hl, hp, cont_of_sf k.2, k.2.2.2.2⟩

theorem at_chainSetLen {kind : Init} {q q' : P} {ids ids' X : List Nat} {n : Nat} (hn : 0 < n)
    (h : chainSetLen q ids kind n = .ok (q', ids')) (a : At q ids X) (hb : q'.fat.size ≤ MAXREG + 1) :
    ∃ l', At q' l' X ∧ hdl l' = hdl ids' ∧ l'.length = (q.S + n - 1) / q.S ∧ q'.v4 = q.v4 ∧ Pres q q' X ∧
      cont q' = cont q ∧ q'.starts = q.starts ∧ (ids.length ≤ (q.S + n - 1) / q.S → l' = ids') := by
  have k := kc_chainSetLen hn h
  obtain ⟨hv, ⟨l', tr, hh, hl, hsame⟩, hp⟩ := chainSetLen_v hn h hb a.inv X a.nc a.tr
  refine ⟨l', ⟨k.1.good.inv a.inv (small_of_bound hb), ?_, tr⟩, hh, hl, hv, hp, cont_of_sf k.2, k.2.2.2.2, hsame⟩
  rw [hh]; exact k.1.keep hb a.inv X a.nc

/-- a mini-level step -/
theorem at_mini {q q' : P} {Y : List Nat} (k : KKC q q') (pk : PresV q q' (cont q))
    (a : At q [] (cont q ++ Y)) (hb : q'.fat.size ≤ MAXREG + 1) :
    At q' [] (cont q' ++ Y) ∧ Pres q q' Y ∧ q'.starts = q.starts := by
  have n : NC q.fat (cont q ++ Y) := by simpa [hdl] using a.nc
  refine ⟨⟨k.k.good.inv a.inv (small_of_bound hb), ?_, Tr.nil _⟩, pk hb a.inv Y n, k.starts⟩
  simpa [hdl] using k.k.keep hb a.inv Y n

theorem mem_startIn {starts : List (Nat × Nat)} {s st : Nat} (hk : (starts.map (·.1)).Nodup) (hm : (s, st) ∈ starts) :
    startIn starts s = st := by
  unfold startIn
  induction starts with
  | nil => simp at hm
  | cons e t ih =>
    rw [List.map_cons, List.nodup_cons] at hk
    rw [List.find?_cons]
    rcases List.mem_cons.mp hm with rfl | hm
    · simp
    · have hne : e.1 ≠ s := by
        intro he
        exact hk.1 (List.mem_map.mpr ⟨(s, st), hm, he.symm⟩)
      have : (e.1 == s) = false := by simpa using hne
      rw [this]
      exact ih hk.2 hm

theorem mem_setStart {p : P} {s st st0 : Nat} (hm : (s, st) ∈ (setStart p s st0).starts) : st = st0 := by
  have : (s, st) ∈ (s, st0) :: p.starts.filter (·.1 != s) := hm
  rcases List.mem_cons.mp this with h | h
  · exact (Prod.mk.inj h).2
  · have := (List.mem_filter.mp h).2
    simp at this

theorem ceil_mono {S a b : Nat} (h : a ≤ b) : (a + S - 1) / S ≤ (b + S - 1) / S :=
  Nat.div_le_div_right (by omega)

theorem max_ceil {S a b : Nat} : max ((a + S - 1) / S) ((b + S - 1) / S) = (max a b + S - 1) / S := by
  rcases Nat.le_total a b with h | h
  · rw [Nat.max_eq_right h, Nat.max_eq_right (ceil_mono h)]
  · rw [Nat.max_eq_left h, Nat.max_eq_left (ceil_mono h)]

/-- the new head of a stream, from the sector list an operation returned -/
theorem own_of_tr {fat : Array Nat} {ids X : List Nat} {n : Nat} (nc : NC fat (hdl ids ++ X)) (tr : Tr fat ids)
    (hl : ids.length = n) (hn : 0 < n) :
    ids.head?.getD END ≠ END ∧ ∃ l, IsChain fat (ids.head?.getD END) l ∧ l.length = n := by
  cases ids with
  | nil => simp at hl; omega
  | cons x r =>
    have hx : x ∈ hdl (x :: r) := by simp [hdl]
    have hreg := nc.ns.head_reg (List.mem_append_left X hx)
    have := MAXREG_lt_END
    refine ⟨by simp; omega, x :: r, ?_, hl⟩
    simpa using tr x hx

end CfbVerif.Phys

namespace CfbVerif.Phys
open CfbVerif.Raw

theorem toList_loop_length (bs : ByteArray) (i : Nat) (r : List UInt8) (h : i ≤ bs.size) :
    (ByteArray.toList.loop bs i r).length = r.length + (bs.size - i) := by
  fun_induction ByteArray.toList.loop bs i r with
  | case1 i r hlt ih => rw [ih (by omega)]; simp; omega
  | case2 i r hge => simp; omega

theorem byteArray_toList_length (bs : ByteArray) : bs.toList.length = bs.size := by
  unfold ByteArray.toList
  rw [toList_loop_length bs 0 [] (Nat.zero_le _)]
  simp

theorem readSector_len {p : P} {id off n : Nat} {bs : Bytes} (ss : SS p) (h : readSector p id off n = .ok bs)
    (hin : off + n ≤ p.S) : bs.length = n := by
  unfold readSector at h
  split at h
  · cases h
  · rename_i sec hs
    cases h
    have := ss id sec hs
    show (sec.extract off (off + n)).toList.length = n
    rw [byteArray_toList_length, ByteArray.size_extract]
    omega

theorem miniChainRead_len {p : P} (ss : SS p) (fuel : Nat) : ∀ {ids : List Nat} {off n : Nat} {acc r : Bytes},
    miniChainRead fuel p ids off n acc = .ok r → r.length = acc.length + n := by
  induction fuel with
  | zero => intro ids off n acc r h; simp [miniChainRead] at h
  | succ fuel ih =>
    intro ids off n acc r h
    unfold miniChainRead at h
    split at h
    · rename_i hn; cases h; omega
    · split at h
      · cases h
      · rename_i m hm
        dsimp only at h
        split at h
        · rename_i sid base hl
          split at h
          · rename_i bs hr
            have hk := ih h
            have hM : MINI = 64 := rfl
            have hbase : base + MINI ≤ p.S := by
              unfold locateMini at hl
              obtain ⟨root, hroot, hl⟩ := bind_ok hl
              dsimp only at hl
              split at hl
              · cases hl
              · cases hl
                rw [hM]
                rcases S_cases p with hS | hS <;> rw [hS] <;> omega
            have hlen : bs.length = min n (MINI - off % MINI) := by
              refine readSector_len ss hr ?_
              have : off % MINI < MINI := Nat.mod_lt _ (by decide)
              omega
            rw [hk, List.length_append, hlen]
            omega
          · cases h
          · cases h
          · cases h
        · cases h
        · cases h
        · cases h

end CfbVerif.Phys

namespace CfbVerif.Phys
open CfbVerif.Raw

theorem startIn_mem {starts : List (Nat × Nat)} {s : Nat} (h : startIn starts s ≠ END) : (s, startIn starts s) ∈ starts := by
  unfold startIn at h ⊢
  cases hf : starts.find? (·.1 == s) with
  | none => rw [hf] at h; simp at h
  | some e =>
    have hm := List.mem_of_find?_eq_some hf
    have hp := List.find?_some hf
    have : e.1 = s := by simpa using hp
    simp only [Option.map_some, Option.getD_some]
    rw [← this]
    exact hm

/-- the state at the start of an operation on `slot`, when the slot owns no regular chain -/
theorem at_start_none {p : P} {L : Nat → Nat} {slot : Nat} (j : JC p L) (hown : ownOf p.starts L slot = []) :
    At p [] (cont p ++ regs (others p.starts slot) L) := by
  have n0 := jc_n0 j slot
  rw [hown, List.append_nil] at n0
  exact ⟨j.inv, by simpa [hdl] using n0, Tr.nil _⟩

/-- … and when it owns the chain `ids` -/
theorem at_start_own {p : P} {L : Nat → Nat} {slot : Nat} {ids : List Nat} (j : JC p L) (hc : CUTOFF ≤ L slot)
    (hstart : startOf p slot ≠ END) (hi : chainIds p (startOf p slot) = .ok ids) :
    At p ids (cont p ++ regs (others p.starts slot) L) := by
  have n0 := jc_n0 j slot
  have hs' : startIn p.starts slot ≠ END := hstart
  rw [ownOf_reg hc hs'] at n0
  have hhead : hdl ids = [startOf p slot] := chainIds_head hi hstart
  refine ⟨j.inv, ?_, ?_⟩
  · rw [hhead]
    refine n0.perm ?_
    show ((cont p ++ [startIn p.starts slot]) ++ regs (others p.starts slot) L).Perm
      ([startIn p.starts slot] ++ (cont p ++ regs (others p.starts slot) L))
    rw [List.append_assoc]
    exact List.perm_middle
  · intro hd hh
    rw [hhead] at hh
    have : hd = startOf p slot := by simpa using hh
    subst this
    exact isChain_of_chainFrom hi hstart

theorem ceil_pos {S n : Nat} (hS : S = 512 ∨ S = 4096) (h : CUTOFF ≤ n) : 0 < (n + S - 1) / S := by
  have : CUTOFF = 4096 := rfl
  rcases hS with rfl | rfl <;> omega

theorem rl_writeData {p p' : P} {L : Nat → Nat} {slot off n : Nat} {buf : Bytes}
    (h : writeData p slot (L slot) off buf = .ok (p', n)) (j : JC p L) (r : RegLen p L) (ss : SS p)
    (hoff : off ≤ L slot) (hb : p'.fat.size ≤ MAXREG + 1) : RegLen p' (upd L slot n) := by
  have hS := S_cases p
  unfold writeData at h
  dsimp only [bind, pure] at h
  split at h
  · rename_i hend
    have hown : ownOf p.starts L slot = [] := ownOf_noStart L hend
    have a0 := at_start_none j hown
    split at h
    · cases h
    · rename_i hzero
      have hL0 : L slot = 0 := by simpa using hzero
      split at h
      · rename_i hsmall
        obtain ⟨⟨q, ids⟩, hw, h⟩ := obind_ok h
        cases h
        obtain ⟨a1, pr, hst⟩ := at_mini (kkc_miniChainWrite _ hw) (pk_miniChainWrite _ hw) a0 hb
        refine reglen_step j r (upd_other _ _ _) (by rw [others_setStart, hst]) (gs_miniChainWrite _ hw).v4 pr ?_
        intro st _ hc
        rw [upd_self] at hc; omega
      · rename_i hbig
        obtain ⟨⟨q, ids⟩, hw, h⟩ := obind_ok h
        cases h
        obtain ⟨a1, hv, hl, pr, _, hst⟩ := at_chainWrite hw a0 (by simp) hb
        refine reglen_step j r (upd_other _ _ _) (by rw [others_setStart, hst]) hv
          (pr.sub (fun x hx => List.mem_append_right _ hx)) ?_
        intro st hm hc
        rw [mem_setStart hm]
        rw [upd_self] at hc ⊢
        have ho0 : off = 0 := by omega
        rw [hL0, ho0] at hc ⊢
        have hl' : ids.length = (max 0 (0 + buf.length) + p.S - 1) / p.S := by
          rw [hl]; simp
        exact own_of_tr a1.nc a1.tr hl' (ceil_pos hS hc)
  · rename_i hstart
    split at h
    · rename_i hsmallOld
      have hown : ownOf p.starts L slot = [] := ownOf_small _ hsmallOld
      have a0 := at_start_none j hown
      split at h
      · rename_i hsmall
        obtain ⟨ids, hi, h⟩ := obind_ok h
        split at h
        · cases h
        · obtain ⟨⟨q, ids'⟩, hw, h⟩ := obind_ok h
          cases h
          obtain ⟨a1, pr, hst⟩ := at_mini (kkc_miniChainWrite _ hw) (pk_miniChainWrite _ hw) a0 hb
          refine reglen_step j r (upd_other _ _ _) (by rw [hst]) (gs_miniChainWrite _ hw).v4 pr ?_
          intro st _ hc
          rw [upd_self] at hc; omega
      · rename_i hbig
        obtain ⟨ids, hi, h⟩ := obind_ok h
        obtain ⟨tmp, hr, h⟩ := obind_ok h
        obtain ⟨q1, hf, h⟩ := obind_ok h
        obtain ⟨⟨q2, ids1⟩, hw1, h⟩ := obind_ok h
        obtain ⟨⟨q3, ids2⟩, hw2, h⟩ := obind_ok h
        cases h
        have hb2 : q2.fat.size ≤ MAXREG + 1 := Nat.le_trans (kc_chainWrite _ _ hw2).1.good.mono hb
        have hb1 : q1.fat.size ≤ MAXREG + 1 := Nat.le_trans (kc_chainWrite _ _ hw1).1.good.mono hb2
        have hv1 : q1.v4 = p.v4 := (GS.of_same (ssm_freeMiniChain _ hf)).v4
        obtain ⟨a1, pr1, hst1⟩ := at_mini (kkc_freeMiniChainFrom hf) (pk_of_same (same_freeMiniChain _ hf)) a0 hb1
        obtain ⟨a2, hv2, hl1, pr2, _, hst2⟩ := at_chainWrite hw1 a1 (by simp) hb2
        have hS1 : q1.S = p.S := S_of_v4 hv1
        have hS2 : q2.S = p.S := by rw [S_of_v4 hv2, hS1]
        have htmp : tmp.length = off := by have := miniChainRead_len ss _ hr; simpa using this
        rw [htmp] at hw2 hl1
        rw [hS1] at hl1
        have hoff2 : off ≤ ids1.length * q2.S := by
          rw [hl1, hS2]
          rcases hS with hS | hS <;> rw [hS] <;> omega
        obtain ⟨a3, hv3, hl2, pr3, _, hst3⟩ := at_chainWrite hw2 a2 hoff2 hb
        rw [hS2, hl1] at hl2
        refine reglen_step j r (upd_other _ _ _) (by rw [others_setStart, hst3, hst2, hst1]) (show q3.v4 = p.v4 by rw [hv3, hv2, hv1]) ?_ ?_
        · exact (pr1.trans (pr2.sub (fun x hx => List.mem_append_right _ hx))).trans (pr3.sub (fun x hx => List.mem_append_right _ hx))
        · intro st hm hc
          rw [mem_setStart hm]
          rw [upd_self] at hc ⊢
          have hnl : max (L slot) (off + buf.length) = off + buf.length := by omega
          rw [hnl] at hc ⊢
          have hl' : ids2.length = (off + buf.length + p.S - 1) / p.S := by
            rw [hl2]
            simp only [Nat.zero_add]
            exact Nat.max_eq_right (ceil_mono (by omega))
          exact own_of_tr a3.nc a3.tr hl' (ceil_pos hS hc)
    · rename_i hbig
      have hc0 : CUTOFF ≤ L slot := Nat.le_of_not_lt hbig
      obtain ⟨ids, hi, h⟩ := obind_ok h
      split at h
      · cases h
      · rename_i hguard
        obtain ⟨⟨q, ids'⟩, hw, h⟩ := obind_ok h
        cases h
        have a0 := at_start_own j hc0 hstart hi
        obtain ⟨a1, hv, hl, pr, _, hst⟩ := at_chainWrite hw a0 (Nat.le_of_not_lt hguard) hb
        have hs' : startIn p.starts slot ≠ END := hstart
        obtain ⟨_, l0, c0, hl0⟩ := r _ (startIn_mem hs') hc0
        have hids : ids = l0 := (isChain_of_chainFrom hi hstart).unique c0
        have hhead : hdl ids = [startOf p slot] := chainIds_head hi hstart
        have hne : ids ≠ [] := by intro he; subst he; simp [hdl] at hhead
        have hhead' : hdl ids' = [startOf p slot] := by rw [hdl_of_prefix hne (chainWrite_prefix _ _ hw)]; exact hhead
        refine reglen_step j r (upd_other _ _ _) (by rw [hst]) hv (pr.sub (fun x hx => List.mem_append_right _ hx)) ?_
        intro st hm hc
        rw [hst] at hm
        have hst' : st = startOf p slot := (mem_startIn j.keys hm).symm
        rw [upd_self] at hc ⊢
        refine ⟨by rw [hst']; exact hstart, ids', ?_, ?_⟩
        · rw [hst']; exact a1.tr _ (by rw [hhead']; simp)
        · rw [hl, hids, hl0, max_ceil]

end CfbVerif.Phys

namespace CfbVerif.Phys
open CfbVerif.Raw

theorem at_freeChainFrom {q q' : P} {start : Nat} {X : List Nat} (h : freeChainFrom q start = .ok q') (inv : Inv q)
    (nc : NC q.fat (hd1 start ++ X)) (hb : q'.fat.size ≤ MAXREG + 1) :
    At q' [] X ∧ Pres q q' X ∧ cont q' = cont q ∧ q'.starts = q.starts ∧ q'.v4 = q.v4 := by
  have k := kc_freeChainFrom h
  have sf := sf_freeChain _ h
  refine ⟨⟨k.good.inv inv (small_of_bound hb), by simpa [hdl] using k.keep hb inv X nc, Tr.nil _⟩,
    pres_freeChain _ h nc, cont_of_sf sf, sf.2.2.2, freeChain_v4 _ h⟩

theorem head_of_hdl {a b : List Nat} (h : hdl a = hdl b) : a.head? = b.head? := by
  unfold hdl at h
  cases ha : a.head? <;> cases hb : b.head? <;> simp [ha, hb] at h ⊢
  exact h

theorem zeroTail_some {a b u x n : Nat} (h : zeroTailRange a b u = some (x, n)) : a < b ∧ x = a ∧ x + n ≤ b := by
  unfold zeroTailRange at h
  split at h
  · rename_i hc
    dsimp only at h
    have h' := Option.some.inj h
    have h1 := (Prod.mk.inj h').1
    have h2 := (Prod.mk.inj h').2
    generalize (a + u - 1) / u * u = ru at h2
    refine ⟨hc.1, h1.symm, ?_⟩
    have := hc.1
    rw [← h1, ← h2]
    omega
  · cases h

/-- the slot's start when the start list did not change -/
theorem own_start {p q : P} {L : Nat → Nat} {slot st : Nat} (j : JC p L) (hst : q.starts = p.starts)
    (hm : (slot, st) ∈ q.starts) : st = startOf p slot := by
  rw [hst] at hm
  exact (mem_startIn j.keys hm).symm

theorem rl_resize {p p' : P} {L : Nat → Nat} {slot newLen : Nat}
    (h : resize p slot (L slot) newLen = .ok p') (j : JC p L) (r : RegLen p L)
    (hb : p'.fat.size ≤ MAXREG + 1) : RegLen p' (upd L slot newLen) := by
  have hS := S_cases p
  unfold resize at h
  dsimp only [bind, pure] at h
  split at h
  · rename_i hend
    have hown : ownOf p.starts L slot = [] := ownOf_noStart L hend
    have a0 := at_start_none j hown
    split at h
    · cases h
    · split at h
      · rename_i hsmall
        obtain ⟨⟨q, ids⟩, hw, h⟩ := obind_ok h
        cases h
        obtain ⟨a1, pr, hst⟩ := at_mini (kkc_miniChainSetLen hw) (pk_miniChainSetLen hw) a0 hb
        refine reglen_step j r (upd_other _ _ _) (by rw [others_setStart, hst]) (gs_miniChainSetLen hw).v4 pr ?_
        intro st _ hc
        rw [upd_self] at hc; omega
      · rename_i hbig
        obtain ⟨⟨q, ids⟩, hw, h⟩ := obind_ok h
        cases h
        have hpos : 0 < newLen := by have := CUTOFF_pos; omega
        obtain ⟨l', a1, hh, hl, hv, pr, _, hst, _⟩ := at_chainSetLen hpos hw a0 hb
        refine reglen_step j r (upd_other _ _ _) (by rw [others_setStart, hst]) hv
          (pr.sub (fun x hx => List.mem_append_right _ hx)) ?_
        intro st hm hc
        rw [mem_setStart hm]
        rw [upd_self] at hc ⊢
        rw [← head_of_hdl hh]
        exact own_of_tr a1.nc a1.tr (by rw [hl, Nat.add_comm]) (ceil_pos hS hc)
  · rename_i hstart
    split at h
    · rename_i hsmallOld
      have hown : ownOf p.starts L slot = [] := ownOf_small _ hsmallOld
      have a0 := at_start_none j hown
      split at h
      · rename_i hzero
        obtain ⟨q, hf, h⟩ := obind_ok h
        cases h
        obtain ⟨a1, pr, hst⟩ := at_mini (kkc_freeMiniChainFrom hf) (pk_of_same (same_freeMiniChain _ hf)) a0 hb
        refine reglen_step j r (upd_other _ _ _) (by rw [others_setStart, hst]) (GS.of_same (ssm_freeMiniChain _ hf)).v4 pr ?_
        intro st _ hc
        rw [upd_self] at hc; have := CUTOFF_pos; omega
      · split at h
        · rename_i hsmall
          obtain ⟨ids, hi, h⟩ := obind_ok h
          obtain ⟨⟨q, ids'⟩, hs, h⟩ := obind_ok h
          have fin : ∀ {q2 : P}, q2.starts = p.starts → q2.v4 = p.v4 →
              Pres p q2 (regs (others p.starts slot) L) → q2 = p' → RegLen p' (upd L slot newLen) := by
            intro q2 hst hv pr e
            subst e
            refine reglen_step j r (upd_other _ _ _) (by rw [hst]) hv pr ?_
            intro st _ hc
            rw [upd_self] at hc; omega
          split at h
          · split at h
            · cases h
            · obtain ⟨⟨q2, ids2⟩, hw, h⟩ := obind_ok h
              cases h
              have hbq : q.fat.size ≤ MAXREG + 1 := Nat.le_trans (kkc_miniChainWrite _ hw).k.good.mono hb
              obtain ⟨a1, pr1, hst1⟩ := at_mini (kkc_miniChainSetLen hs) (pk_miniChainSetLen hs) a0 hbq
              obtain ⟨a2, pr2, hst2⟩ := at_mini (kkc_miniChainWrite _ hw) (pk_miniChainWrite _ hw) a1 hb
              exact fin (hst2.trans hst1) ((gs_miniChainWrite _ hw).v4.trans (gs_miniChainSetLen hs).v4) (pr1.trans pr2) rfl
          · cases h
            obtain ⟨a1, pr1, hst1⟩ := at_mini (kkc_miniChainSetLen hs) (pk_miniChainSetLen hs) a0 hb
            exact fin hst1 (gs_miniChainSetLen hs).v4 pr1 rfl
        · rename_i hbig
          obtain ⟨ids, hi, h⟩ := obind_ok h
          obtain ⟨tmp, hr, h⟩ := obind_ok h
          obtain ⟨q1, hf, h⟩ := obind_ok h
          obtain ⟨⟨q2, ids1⟩, hw1, h⟩ := obind_ok h
          obtain ⟨⟨q3, ids2⟩, hs, h⟩ := obind_ok h
          cases h
          have hpos : 0 < newLen := by have := CUTOFF_pos; omega
          have hb2 : q2.fat.size ≤ MAXREG + 1 := Nat.le_trans (kc_chainSetLen hpos hs).1.good.mono hb
          have hb1 : q1.fat.size ≤ MAXREG + 1 := Nat.le_trans (kc_chainWrite _ _ hw1).1.good.mono hb2
          have hv1 : q1.v4 = p.v4 := (GS.of_same (ssm_freeMiniChain _ hf)).v4
          obtain ⟨a1, pr1, hst1⟩ := at_mini (kkc_freeMiniChainFrom hf) (pk_of_same (same_freeMiniChain _ hf)) a0 hb1
          obtain ⟨a2, hv2, _, pr2, _, hst2⟩ := at_chainWrite hw1 a1 (by simp) hb2
          obtain ⟨l', a3, hh, hl, hv3, pr3, _, hst3, _⟩ := at_chainSetLen hpos hs a2 hb
          have hS2 : q2.S = p.S := by rw [S_of_v4 hv2, S_of_v4 hv1]
          refine reglen_step j r (upd_other _ _ _) (by rw [others_setStart, hst3, hst2, hst1])
            (show q3.v4 = p.v4 by rw [hv3, hv2, hv1]) ?_ ?_
          · exact (pr1.trans (pr2.sub (fun x hx => List.mem_append_right _ hx))).trans (pr3.sub (fun x hx => List.mem_append_right _ hx))
          · intro st hm hc
            rw [mem_setStart hm]
            rw [upd_self] at hc ⊢
            rw [← head_of_hdl hh]
            exact own_of_tr a3.nc a3.tr (by rw [hl, hS2, Nat.add_comm]) (ceil_pos hS hc)
    · rename_i hbigOld
      have hc0 : CUTOFF ≤ L slot := Nat.le_of_not_lt hbigOld
      have hs' : startIn p.starts slot ≠ END := hstart
      have hhd : hd1 (startOf p slot) = [startOf p slot] := by unfold hd1; rw [if_neg hstart]
      have nfree : NC p.fat (hd1 (startOf p slot) ++ (cont p ++ regs (others p.starts slot) L)) := by
        have n0 := jc_n0 j slot
        rw [ownOf_reg hc0 hs'] at n0
        rw [hhd]
        refine n0.perm ?_
        show ((cont p ++ [startIn p.starts slot]) ++ regs (others p.starts slot) L).Perm
          ([startIn p.starts slot] ++ (cont p ++ regs (others p.starts slot) L))
        rw [List.append_assoc]
        exact List.perm_middle
      split at h
      · rename_i hzero
        obtain ⟨q, hf, h⟩ := obind_ok h
        cases h
        obtain ⟨a1, pr, _, hst, hv⟩ := at_freeChainFrom hf j.inv nfree hb
        refine reglen_step j r (upd_other _ _ _) (by rw [others_setStart, hst]) hv
          (pr.sub (fun x hx => List.mem_append_right _ hx)) ?_
        intro st _ hc
        rw [upd_self] at hc; have := CUTOFF_pos; omega
      · split at h
        · rename_i hsmall
          obtain ⟨ids, hi, h⟩ := obind_ok h
          obtain ⟨tmp, hr, h⟩ := obind_ok h
          obtain ⟨q1, hf, h⟩ := obind_ok h
          obtain ⟨⟨q2, ids1⟩, hw, h⟩ := obind_ok h
          cases h
          have hb1 : q1.fat.size ≤ MAXREG + 1 := Nat.le_trans (kkc_miniChainWrite _ hw).k.good.mono hb
          obtain ⟨a1, pr1, hcont, hst1, hv1⟩ := at_freeChainFrom hf j.inv nfree hb1
          rw [← hcont] at a1
          obtain ⟨a2, pr2, hst2⟩ := at_mini (kkc_miniChainWrite _ hw) (pk_miniChainWrite _ hw) a1 hb
          refine reglen_step j r (upd_other _ _ _) (by rw [others_setStart, hst2, hst1])
            (show q2.v4 = p.v4 by rw [(gs_miniChainWrite _ hw).v4, hv1])
            ((pr1.sub (fun x hx => List.mem_append_right _ hx)).trans pr2) ?_
          intro st _ hc
          rw [upd_self] at hc; omega
        · rename_i hbig
          obtain ⟨ids, hi, h⟩ := obind_ok h
          obtain ⟨⟨q, ids'⟩, hs, h⟩ := obind_ok h
          have hpos : 0 < newLen := by have := CUTOFF_pos; omega
          have hcn : CUTOFF ≤ newLen := Nat.le_of_not_lt hbig
          have a0 := at_start_own j hc0 hstart hi
          obtain ⟨_, l0, c0, hl0⟩ := r _ (startIn_mem hs') hc0
          have hids : ids = l0 := (isChain_of_chainFrom hi hstart).unique c0
          have hhead : hdl ids = [startOf p slot] := chainIds_head hi hstart
          have hne : ids ≠ [] := by intro he; subst he; simp [hdl] at hhead
          have hhead' : hdl ids' = [startOf p slot] := by rw [hdl_of_prefix hne (chainSetLen_prefix hs)]; exact hhead
          have hne' : ids' ≠ [] := by intro he; subst he; simp [hdl] at hhead'
          have fin : ∀ {q2 : P} {l2 : List Nat}, q2.starts = p.starts → q2.v4 = p.v4 →
              Pres p q2 (regs (others p.starts slot) L) → IsChain q2.fat (startOf p slot) l2 →
              l2.length = (newLen + p.S - 1) / p.S → q2 = p' → RegLen p' (upd L slot newLen) := by
            intro q2 l2 hst hv pr c hl e
            subst e
            refine reglen_step j r (upd_other _ _ _) (by rw [hst]) hv pr ?_
            intro st hm hc
            rw [own_start j hst hm, upd_self]
            exact ⟨hstart, l2, c, hl⟩
          split at h
          · rename_i at_ n hz
            split at h
            · cases h
            · rename_i hguard
              obtain ⟨⟨q2, ids2⟩, hw, h⟩ := obind_ok h
              cases h
              have hbq : q.fat.size ≤ MAXREG + 1 := Nat.le_trans (kc_chainWrite _ _ hw).1.good.mono hb
              obtain ⟨l', a1, hh, hl, hv, pr, _, hst, hsame⟩ := at_chainSetLen hpos hs a0 hbq
              have hSq : q.S = p.S := S_of_v4 hv
              obtain ⟨hlt, hat, hsum⟩ := zeroTail_some hz
              have hle : ids.length ≤ (p.S + newLen - 1) / p.S := by
                rw [hids, hl0, Nat.add_comm p.S newLen]
                exact ceil_mono (Nat.le_of_lt hlt)
              have e := hsame hle
              subst e
              obtain ⟨a2, hv2, hl2, pr2, _, hst2⟩ := at_chainWrite hw a1 (Nat.le_of_not_lt hguard) hb
              have hhead2 : hdl ids2 = [startOf p slot] := by rw [hdl_of_prefix hne' (chainWrite_prefix _ _ hw)]; exact hhead'
              refine fin (hst2.trans hst) (hv2.trans hv)
                ((pr.sub (fun x hx => List.mem_append_right _ hx)).trans (pr2.sub (fun x hx => List.mem_append_right _ hx)))
                (a2.tr _ (by rw [hhead2]; simp)) ?_ rfl
              rw [hl2, hl, hSq, List.length_replicate, Nat.add_comm p.S newLen]
              exact Nat.max_eq_left (ceil_mono hsum)
          · cases h
            obtain ⟨l', a1, hh, hl, hv, pr, _, hst, _⟩ := at_chainSetLen hpos hs a0 hb
            refine fin hst hv (pr.sub (fun x hx => List.mem_append_right _ hx))
              (a1.tr _ (by rw [hh, hhead']; simp)) (by rw [hl, Nat.add_comm]) rfl

end CfbVerif.Phys

namespace CfbVerif.Phys
open CfbVerif.Raw

theorem rl_of_pres {p p' : P} {L : Nat → Nat} (r : RegLen p L) (hst : p'.starts = p.starts) (hv : p'.v4 = p.v4)
    (pr : Pres p p' (regs p.starts L)) : RegLen p' L := by
  intro e he hc
  rw [hst] at he
  rw [S_of_v4 hv]
  obtain ⟨hne, l, c, hl⟩ := r e he hc
  refine ⟨hne, l, pr e.2 ?_ l c, hl⟩
  unfold regs
  refine List.mem_map.mpr ⟨e, List.mem_filter.mpr ⟨he, ?_⟩, rfl⟩
  simp [isRegStart, hc, hne]

theorem rl_freeStream {p p' : P} {L : Nat → Nat} {slot : Nat}
    (h : freeStream p slot (L slot) = .ok p') (j : JC p L) (r : RegLen p L) (hb : p'.fat.size ≤ MAXREG + 1) :
    RegLen p' (upd L slot 0) := by
  unfold freeStream at h
  dsimp only [bind, pure] at h
  have hvac : ∀ st, (slot, st) ∈ p'.starts → CUTOFF ≤ upd L slot 0 slot →
      st ≠ END ∧ ∃ l, IsChain p'.fat st l ∧ l.length = (upd L slot 0 slot + p.S - 1) / p.S := by
    intro st _ hc
    rw [upd_self] at hc; have := CUTOFF_pos; omega
  split at h
  · rename_i hsmall
    obtain ⟨q, hf, h⟩ := obind_ok h
    cases h
    have a0 := at_start_none j (ownOf_small _ hsmall)
    obtain ⟨a1, pr, hst⟩ := at_mini (kkc_freeMiniChainFrom hf) (pk_of_same (same_freeMiniChain _ hf)) a0 hb
    exact reglen_step j r (upd_other _ _ _) (by rw [others_dropStart, hst]) (GS.of_same (ssm_freeMiniChain _ hf)).v4 pr hvac
  · rename_i hbig
    obtain ⟨q, hf, h⟩ := obind_ok h
    cases h
    have hc0 : CUTOFF ≤ L slot := Nat.le_of_not_lt hbig
    have nfree : NC p.fat (hd1 (startOf p slot) ++ (cont p ++ regs (others p.starts slot) L)) := by
      have n0 := jc_n0 j slot
      by_cases he : startOf p slot = END
      · have he' : startIn p.starts slot = END := he
        rw [ownOf_noStart L he', List.append_nil] at n0
        unfold hd1; rw [if_pos he]; simpa using n0
      · have he' : startIn p.starts slot ≠ END := he
        rw [ownOf_reg hc0 he'] at n0
        have hhd : hd1 (startOf p slot) = [startOf p slot] := by unfold hd1; rw [if_neg he]
        rw [hhd]
        refine n0.perm ?_
        show ((cont p ++ [startIn p.starts slot]) ++ regs (others p.starts slot) L).Perm
          ([startIn p.starts slot] ++ (cont p ++ regs (others p.starts slot) L))
        rw [List.append_assoc]
        exact List.perm_middle
    obtain ⟨a1, pr, _, hst, hv⟩ := at_freeChainFrom hf j.inv nfree hb
    exact reglen_step j r (upd_other _ _ _) (by rw [others_dropStart, hst]) hv
      (pr.sub (fun x hx => List.mem_append_right _ hx)) hvac

theorem rl_ensureDirSlot {p p' : P} {L : Nat → Nat} {slot : Nat} (h : ensureDirSlot p slot = .ok p') (j : JC p L)
    (r : RegLen p L) (hb : p'.fat.size ≤ MAXREG + 1) : RegLen p' L := by
  unfold ensureDirSlot at h
  split at h
  · cases h; exact r
  · split at h
    · split at h
      · rename_i q id he
        cases h
        have sf := sf_extendChain he
        have hd : p.dirStart ∈ cont p := by simp [cont]
        have nh : NC p.fat (cont p ++ regs p.starts L) := j.nc
        obtain ⟨l0, c0, hm0⟩ := head_on_chain nh (List.mem_append_left _ hd)
        have pr : Pres p q (regs p.starts L) :=
          pres_extendChain (a := cont p) he hb j.inv _ nh ⟨p.dirStart, hd, l0, c0, hm0⟩
        exact rl_of_pres r (show q.starts = p.starts from sf.2.2.2) (show q.v4 = p.v4 from extendChain_v4 he) pr
      · cases h
      · cases h
      · cases h
    · cases h
      exact rl_of_pres r rfl rfl (Pres.refl _ _)

theorem rl_reopen {p p' : P} {L : Nat → Nat} (h : Phys.reopen p = .ok p') (r : RegLen p L) : RegLen p' L := by
  unfold Phys.reopen at h
  obtain ⟨chain, hc, h⟩ := bind_ok h
  cases h
  exact r

theorem rl_create {p : P} {L : Nat → Nat} {slot : Nat} (j : JC p L) (r : RegLen p L) :
    RegLen (setStart p slot END) (upd L slot 0) := by
  refine reglen_step j r (upd_other _ _ _) (others_setStart _ _ _) rfl (fun _ _ _ c => c) ?_
  intro st _ hc
  rw [upd_self] at hc; have := CUTOFF_pos; omega

theorem rl_init (v4 : Bool) : RegLen (Phys.create v4) (fun _ => 0) := by
  intro e he
  have : (Phys.create v4).starts = [] := rfl
  rw [this] at he
  simp at he

/-- no sharing, no leak, every sector of the sector size, and every regular chain as long as its stream needs -/
structure JR (p : P) (L : Nat → Nat) : Prop where
  jc : JC p L
  rl : RegLen p L
  ss : SS p

/-- the store is only asked to write at or before the end of a stream (what a stream handle does:
its window starts inside the stream) -/
def opInRange (g : G) : GOp → Prop
  | .write s off _ => off ≤ g.L s
  | _ => True

def WritesInRange : G → List GOp → Prop
  | _, [] => True
  | g, op :: rest =>
    opInRange g op ∧
    (match gstep g op with
      | .ok g' => WritesInRange g' rest
      | _ => WritesInRange g rest)

theorem gs_gstep {g g' : G} {op : GOp} (h : gstep g op = .ok g') : GS g.p g'.p := by
  cases op with
  | ensure s => obtain ⟨q, hq, h⟩ := obind_ok h; cases h; exact gs_ensureDirSlot hq
  | create s =>
    simp only [gstep] at h
    split at h
    · cases h; exact GS.of_same ⟨rfl, rfl, rfl, rfl⟩
    · cases h
  | write s off bs => obtain ⟨r, hq, h⟩ := obind_ok h; cases h; exact gs_writeData hq
  | resize s n => obtain ⟨q, hq, h⟩ := obind_ok h; cases h; exact gs_resize hq
  | free s => obtain ⟨q, hq, h⟩ := obind_ok h; cases h; exact gs_freeStream hq
  | reopen => obtain ⟨q, hq, h⟩ := obind_ok h; cases h; exact gs_reopen hq

theorem jr_gstep {g g' : G} {op : GOp} (h : gstep g op = .ok g') (j : JR g.p g.L)
    (hw : opInRange g op)
    (hb : g'.p.fat.size ≤ MAXREG + 1) : JR g'.p g'.L := by
  refine ⟨jc_gstep h j.jc hb, ?_, (gs_gstep h).ss j.ss⟩
  cases op with
  | ensure s => obtain ⟨q, hq, h⟩ := obind_ok h; cases h; exact rl_ensureDirSlot hq j.jc j.rl hb
  | create s =>
    simp only [gstep] at h
    split at h
    · cases h; exact rl_create j.jc j.rl
    · cases h
  | write s off bs => obtain ⟨r, hq, h⟩ := obind_ok h; cases h; exact rl_writeData hq j.jc j.rl j.ss hw hb
  | resize s n => obtain ⟨q, hq, h⟩ := obind_ok h; cases h; exact rl_resize hq j.jc j.rl hb
  | free s => obtain ⟨q, hq, h⟩ := obind_ok h; cases h; exact rl_freeStream hq j.jc j.rl hb
  | reopen => obtain ⟨q, hq, h⟩ := obind_ok h; cases h; exact rl_reopen hq j.rl

theorem jr_grun (ops : List GOp) : ∀ g : G, JR g.p g.L → WritesInRange g ops →
    (grun g ops).p.fat.size ≤ MAXREG + 1 → JR (grun g ops).p (grun g ops).L := by
  induction ops with
  | nil => intro g j _ _; exact j
  | cons op rest ih =>
    intro g j hw hb
    simp only [grun] at hb ⊢
    simp only [WritesInRange] at hw
    cases hs : gstep g op with
    | ok g' =>
      simp only [hs] at hb hw ⊢
      exact ih g' (jr_gstep hs j hw.1 (Nat.le_trans (grun_mono rest g') hb)) hw.2 hb
    | err k => simp only [hs] at hb hw ⊢; exact ih g j hw.2 hb
    | panic s => simp only [hs] at hb hw ⊢; exact ih g j hw.2 hb
    | hang s => simp only [hs] at hb hw ⊢; exact ih g j hw.2 hb

/-- **each stream's chain length matches its size**: after every history of stream-level operations
on a fresh file in which writes start at or before the end of their stream, every stream of at
least 4096 bytes has a start sector, and the chain from it has exactly `⌈length / sector size⌉`
sectors — together with no sharing, no leak and whole sectors -/
theorem regLen_reachable (v4 : Bool) (ops : List GOp) :
    let g0 : G := { p := Phys.create v4, L := fun _ => 0 }
    WritesInRange g0 ops → (grun g0 ops).p.fat.size ≤ MAXREG + 1 → JR (grun g0 ops).p (grun g0 ops).L :=
  fun hw hb => jr_grun ops _ ⟨jc_init v4, rl_init v4, ss_create v4⟩ hw hb

end CfbVerif.Phys

namespace CfbVerif.Phys
open CfbVerif.Raw

def opInRangeB (g : G) : GOp → Bool
  | .write s off _ => decide (off ≤ g.L s)
  | _ => true

def writesInRangeB : G → List GOp → Bool
  | _, [] => true
  | g, op :: rest =>
    opInRangeB g op &&
    (match gstep g op with
      | .ok g' => writesInRangeB g' rest
      | _ => writesInRangeB g rest)

theorem opInRange_of_B {g : G} {op : GOp} (h : opInRangeB g op = true) : opInRange g op := by
  cases op <;> simp_all [opInRange, opInRangeB]

theorem writesInRange_of_B : ∀ (ops : List GOp) (g : G), writesInRangeB g ops = true → WritesInRange g ops := by
  intro ops
  induction ops with
  | nil => intro g _; trivial
  | cons op rest ih =>
    intro g h
    simp only [writesInRangeB, Bool.and_eq_true] at h
    simp only [WritesInRange]
    refine ⟨opInRange_of_B h.1, ?_⟩
    cases hs : gstep g op with
    | ok g' => simp only [hs] at h ⊢; exact ih g' h.2
    | err k => simp only [hs] at h ⊢; exact ih g h.2
    | panic s => simp only [hs] at h ⊢; exact ih g h.2
    | hang s => simp only [hs] at h ⊢; exact ih g h.2

end CfbVerif.Phys
