import CfbVerif.Phys.LE
import CfbVerif.Dir.Model
/-!
# The field codec: what the renderer appends, the reader model reads back

`renderEntry`, `renderUnallocated` and `renderHeader` are sequences of little-endian fields.
`pushFields` is that sequence made explicit; `pushFields_read` says that *every* field of such a
sequence is read back exactly (modulo its width) by the reader model's primitive `Raw.leN` at the
offset where it starts — whatever is appended later.  The statements about concrete directory-entry
fields are corollaries.
-/
namespace CfbVerif.Phys
open CfbVerif.Raw CfbVerif.Dir

def pushFields (b : ByteArray) : List (Nat × Nat) → ByteArray
  | [] => b
  | (w, v) :: fs => pushFields (pushLE b w v) fs

def widthSum : List (Nat × Nat) → Nat
  | [] => 0
  | (w, _) :: fs => w + widthSum fs

theorem size_pushFields (fs : List (Nat × Nat)) : ∀ b : ByteArray, (pushFields b fs).size = b.size + widthSum fs := by
  induction fs with
  | nil => intro b; rfl
  | cons f fs ih =>
    intro b
    obtain ⟨w, v⟩ := f
    simp only [pushFields, widthSum]
    rw [ih, size_pushLE]; omega

theorem leN_pushFields_frame (fs : List (Nat × Nat)) : ∀ (b : ByteArray) (w off : Nat), off + w ≤ b.size →
    leN (pushFields b fs) off w = leN b off w := by
  induction fs with
  | nil => intro b w off _; rfl
  | cons f fs ih =>
    intro b w off h
    obtain ⟨w', v⟩ := f
    simp only [pushFields]
    rw [ih _ _ _ (by rw [size_pushLE]; omega)]
    exact leN_pushLE_frame w' b v w off h

/-- **field round trip**: the field that starts after the fields `pre` is read back exactly -/
theorem pushFields_read (pre : List (Nat × Nat)) (w v : Nat) (post : List (Nat × Nat)) (b : ByteArray) :
    leN (pushFields b (pre ++ (w, v) :: post)) (b.size + widthSum pre) w = some (v % 256 ^ w) := by
  induction pre generalizing b with
  | nil =>
    simp only [List.nil_append, pushFields, widthSum, Nat.add_zero]
    rw [leN_pushFields_frame post _ w b.size (by rw [size_pushLE]; exact Nat.le_refl _)]
    exact le_roundtrip w b v
  | cons f pre ih =>
    obtain ⟨w', v'⟩ := f
    simp only [List.cons_append, pushFields, widthSum]
    have := ih (pushLE b w' v')
    rw [size_pushLE] at this
    rw [← Nat.add_assoc]
    exact this

/-- every field of a field sequence is read back at the offset where it starts, whatever follows -/
theorem pushFields_read_nth (fs rest : List (Nat × Nat)) (k : Nat) (hk : k < fs.length) (b : ByteArray) :
    leN (pushFields b (fs ++ rest)) (b.size + widthSum (fs.take k)) fs[k].1 = some (fs[k].2 % 256 ^ fs[k].1) := by
  have hsplit : fs ++ rest = fs.take k ++ (fs[k].1, fs[k].2) :: (fs.drop (k + 1) ++ rest) := by
    have h1 : fs.take k ++ fs[k] :: fs.drop (k + 1) = fs := by
      rw [List.getElem_cons_drop]; exact List.take_append_drop k fs
    calc fs ++ rest = (fs.take k ++ fs[k] :: fs.drop (k + 1)) ++ rest := by rw [h1]
      _ = fs.take k ++ (fs[k].1, fs[k].2) :: (fs.drop (k + 1) ++ rest) := by
        rw [List.append_assoc, List.cons_append]
  rw [hsplit]
  exact pushFields_read (fs.take k) fs[k].1 fs[k].2 _ b

theorem pushZeros_eq (n : Nat) : ∀ b : ByteArray, pushZeros b n = pushLE b n 0 := by
  induction n with
  | zero => intro b; rfl
  | succ n ih => intro b; simp only [pushZeros, pushLE]; rw [ih]; rfl

theorem pushUnits_eq (us : List Nat) : ∀ b : ByteArray,
    us.foldl (fun acc x => pushLE acc 2 x) b = pushFields b (us.map (fun x => (2, x))) := by
  induction us with
  | nil => intro b; rfl
  | cons u us ih => intro b; simp only [List.foldl_cons, List.map_cons, pushFields]; exact ih _

theorem pushBytes_eq (l : List UInt8) : ∀ b : ByteArray,
    pushBytes b l = pushFields b (l.map (fun x => (1, x.toNat))) := by
  induction l with
  | nil => intro b; rfl
  | cons x l ih =>
    intro b
    simp only [pushBytes, List.foldl_cons, List.map_cons, pushFields]
    have : pushLE b 1 x.toNat = b.push x := by
      simp only [pushLE]
      congr 1
      apply UInt8.toNat_inj.mp
      simp
    rw [this]
    exact ih _

theorem pushFields_append (a c : List (Nat × Nat)) : ∀ b : ByteArray, pushFields (pushFields b a) c = pushFields b (a ++ c) := by
  induction a with
  | nil => intro b; rfl
  | cons f a ih => intro b; obtain ⟨w, v⟩ := f; simp only [pushFields, List.cons_append]; exact ih _

/-- the fields of one rendered directory entry, in order -/
def entryFields (r : Row) (start len : Nat) : List (Nat × Nat) :=
  let u := CfbVerif.Names.utf16 r.name
  u.map (fun x => (2, x)) ++
  [(2 * (32 - u.length), 0), (2, (u.length + 1) * 2), (1, (UInt8.ofNat r.typ).toNat),
   (1, (if r.black then UInt8.ofNat Gen.COLOR_BLACK else UInt8.ofNat Gen.COLOR_RED).toNat),
   (4, linkOf r.left), (4, linkOf r.right), (4, linkOf r.child)] ++
  (clsidOnDisk r.md.clsid).map (fun x => (1, x.toNat)) ++
  [(4, r.md.bits), (8, r.md.ctime), (8, r.md.mtime), (4, start), (8, len)]

theorem push_eq_pushLE1 (b : ByteArray) (x : UInt8) : b.push x = pushLE b 1 x.toNat := by
  simp only [pushLE]
  congr 1
  apply UInt8.toNat_inj.mp
  simp

/-- the renderer of a directory entry *is* that field sequence -/
theorem renderEntry_eq (b : ByteArray) (r : Row) (start len : Nat) :
    renderEntry b r start len = pushFields b (entryFields r start len) := by
  unfold renderEntry entryFields
  simp only [pushUnits_eq, pushZeros_eq, pushBytes_eq, push_eq_pushLE1]
  simp only [← pushFields_append, pushFields]

/-- widths of the name part: 64 bytes whenever the name has at most 32 units -/
theorem widthSum_units (us : List Nat) : widthSum (us.map (fun x => (2, x))) = 2 * us.length := by
  induction us with
  | nil => rfl
  | cons u us ih => simp only [List.map_cons, widthSum, ih, List.length_cons]; omega

/-- **the left-sibling link of a rendered entry is read back** at offset 68, for every entry whose
name has at most 32 UTF-16 units (all valid names), whatever follows in the file -/
theorem entry_left_roundtrip (b : ByteArray) (r : Row) (start len : Nat)
    (hn : (CfbVerif.Names.utf16 r.name).length ≤ 32) (rest : List (Nat × Nat)) :
    leN (pushFields (renderEntry b r start len) rest) (b.size + 68) 4 = some (linkOf r.left % 256 ^ 4) := by
  rw [renderEntry_eq, pushFields_append]
  unfold entryFields
  let u := CfbVerif.Names.utf16 r.name
  have hsplit : (u.map (fun x => (2, x)) ++
      [(2 * (32 - u.length), 0), (2, (u.length + 1) * 2), (1, (UInt8.ofNat r.typ).toNat),
       (1, (if r.black then UInt8.ofNat Gen.COLOR_BLACK else UInt8.ofNat Gen.COLOR_RED).toNat),
       (4, linkOf r.left), (4, linkOf r.right), (4, linkOf r.child)] ++
      (clsidOnDisk r.md.clsid).map (fun x => (1, x.toNat)) ++
      [(4, r.md.bits), (8, r.md.ctime), (8, r.md.mtime), (4, start), (8, len)]) ++ rest =
      (u.map (fun x => (2, x)) ++ [(2 * (32 - u.length), 0), (2, (u.length + 1) * 2), (1, (UInt8.ofNat r.typ).toNat),
       (1, (if r.black then UInt8.ofNat Gen.COLOR_BLACK else UInt8.ofNat Gen.COLOR_RED).toNat)]) ++
      (4, linkOf r.left) :: ([(4, linkOf r.right), (4, linkOf r.child)] ++
        (clsidOnDisk r.md.clsid).map (fun x => (1, x.toNat)) ++
        [(4, r.md.bits), (8, r.md.ctime), (8, r.md.mtime), (4, start), (8, len)] ++ rest) := by
    simp [List.append_assoc]
  show leN (pushFields b (_ ++ rest)) _ _ = _
  rw [hsplit]
  have hw : widthSum (u.map (fun x => (2, x)) ++ [(2 * (32 - u.length), 0), (2, (u.length + 1) * 2), (1, (UInt8.ofNat r.typ).toNat),
       (1, (if r.black then UInt8.ofNat Gen.COLOR_BLACK else UInt8.ofNat Gen.COLOR_RED).toNat)]) = 68 := by
    have hu : u.length ≤ 32 := hn
    have : ∀ (a c : List (Nat × Nat)), widthSum (a ++ c) = widthSum a + widthSum c := by
      intro a c; induction a with
      | nil => simp [widthSum]
      | cons f a ih => obtain ⟨w, v⟩ := f; simp only [List.cons_append, widthSum, ih]; omega
    rw [this, widthSum_units]
    simp only [widthSum]
    omega
  have := pushFields_read (u.map (fun x => (2, x)) ++ [(2 * (32 - u.length), 0), (2, (u.length + 1) * 2), (1, (UInt8.ofNat r.typ).toNat),
       (1, (if r.black then UInt8.ofNat Gen.COLOR_BLACK else UInt8.ofNat Gen.COLOR_RED).toNat)]) 4 (linkOf r.left)
    ([(4, linkOf r.right), (4, linkOf r.child)] ++ (clsidOnDisk r.md.clsid).map (fun x => (1, x.toNat)) ++
        [(4, r.md.bits), (8, r.md.ctime), (8, r.md.mtime), (4, start), (8, len)] ++ rest) b
  rw [hw] at this
  exact this

/-- **directory-entry codec**: every field of a rendered directory entry — name units, name length,
type, colour, the three links, CLSID bytes, state bits, both times, start sector, length — is read
back exactly by the reader model's primitive at the offset where the renderer put it, whatever the
renderer appends afterwards -/
theorem entry_field_roundtrip (b : ByteArray) (r : Row) (start len : Nat) (rest : List (Nat × Nat))
    (k : Nat) (hk : k < (entryFields r start len).length) :
    leN (pushFields (renderEntry b r start len) rest) (b.size + widthSum ((entryFields r start len).take k))
      (entryFields r start len)[k].1 =
    some ((entryFields r start len)[k].2 % 256 ^ (entryFields r start len)[k].1) := by
  rw [renderEntry_eq, pushFields_append]
  exact pushFields_read_nth _ rest k hk b

end CfbVerif.Phys

namespace CfbVerif.Phys
open CfbVerif.Raw CfbVerif.Dir

theorem pushCells_eq (cells : List Nat) : ∀ b : ByteArray,
    pushCells b cells = pushFields b (cells.map (fun c => (4, c))) := by
  induction cells with
  | nil => intro b; rfl
  | cons c cells ih => intro b; simp only [pushCells, List.foldl_cons, List.map_cons, pushFields]; exact ih _

/-- the fields of the rendered header, in order -/
def headerFields (p : P) (dirChain mfChain : List Nat) : List (Nat × Nat) :=
  let inHeader := p.difat.take Gen.NUM_DIFAT_ENTRIES_IN_HEADER
  (Gen.MAGIC_NUMBER.map UInt8.ofNat).map (fun x => (1, x.toNat)) ++
  [(16, 0), (2, Gen.MINOR_VERSION), (2, if p.v4 then Gen.versionNumberV4 else Gen.versionNumberV3),
   (2, Gen.BYTE_ORDER_MARK), (2, if p.v4 then Gen.sectorShiftV4 else Gen.sectorShiftV3),
   (2, Gen.MINI_SECTOR_SHIFT), (6, 0), (4, if p.v4 then dirChain.length else 0), (4, p.difat.length),
   (4, p.dirStart), (4, p.txSig), (4, Gen.MINI_STREAM_CUTOFF), (4, p.miniFatStart), (4, mfChain.length),
   (4, p.difatSectorIds.head?.getD END), (4, p.difatSectorIds.length)] ++
  inHeader.map (fun c => (4, c)) ++
  (List.replicate (Gen.NUM_DIFAT_ENTRIES_IN_HEADER - inHeader.length) FREE).map (fun c => (4, c)) ++
  [(p.S - Gen.HEADER_LEN, 0)]

/-- the header renderer *is* that field sequence -/
theorem renderHeader_eq (p : P) (dirChain mfChain : List Nat) :
    renderHeader p dirChain mfChain = pushFields ByteArray.empty (headerFields p dirChain mfChain) := by
  unfold renderHeader headerFields
  simp only [pushZeros_eq, pushBytes_eq, pushCells_eq]
  simp only [← pushFields_append, pushFields]

/-- **header codec**: every header field the renderer writes — version, sector shift, the sector
counts, the three chain starts, every DIFAT entry — is read back by the reader model's primitive
at its offset -/
theorem header_field_roundtrip (p : P) (dirChain mfChain : List Nat) (rest : List (Nat × Nat))
    (k : Nat) (hk : k < (headerFields p dirChain mfChain).length) :
    leN (pushFields (renderHeader p dirChain mfChain) rest) (widthSum ((headerFields p dirChain mfChain).take k))
      (headerFields p dirChain mfChain)[k].1 =
    some ((headerFields p dirChain mfChain)[k].2 % 256 ^ (headerFields p dirChain mfChain)[k].1) := by
  rw [renderHeader_eq, pushFields_append]
  have := pushFields_read_nth (headerFields p dirChain mfChain) rest k hk ByteArray.empty
  simpa using this

end CfbVerif.Phys
