import CfbVerif.Phys.NoHang
/-!
# Whole operations on regular streams, the directory chain and `open` never hang in a reachable state

`Phys/NoHang.lean` proves termination of the regular-chain loops under local conditions.  Here those
conditions are discharged from the invariant `JR` that every state reachable by store operations and
reopens satisfies (`regLen_reachable`): a stream of at least 4096 bytes has a chain that can be walked
(`RegLen`, `NC.ch`), the walk of `open_chain` returns it (`chainFrom_of_isChain`), its last sector has END
in its cell and is not on the free list (`Inv`).  So, in every reachable state and for all arguments,
`allocate_dir_entry`'s chain growth, `open`'s cache rebuild, and reading, writing, resizing (to zero or
to another length of at least 4096 bytes) and removing a stream that lives in a regular chain are not
one of the model's `hang` exits.  The mini level (streams below 4096 bytes, and the migrations between
the two) is not covered.
-/
namespace CfbVerif.Phys
open CfbVerif.Raw

theorem dir_mem_heads (p : P) (L : Nat → Nat) : p.dirStart ∈ heads p L := by
  unfold heads cont; simp

/-- the walk of a head's chain succeeds -/
theorem chainIds_head_ok {p : P} {L : Nat → Nat} (j : JC p L) {h : Nat} (hm : h ∈ heads p L) :
    h ≠ END ∧ ∃ l, chainIds p h = .ok l ∧ IsChain p.fat h l := by
  obtain ⟨l, c⟩ := j.nc.ch h hm
  have hne : h ≠ END := by have := j.nc.ns.head_reg hm; have := MAXREG_lt_END; omega
  exact ⟨hne, l, chainFrom_of_isChain j.nc.ns hm c, c⟩

theorem nh_ensureDirSlot {p : P} {L : Nat → Nat} (j : JC p L) (slot : Nat) : NH (ensureDirSlot p slot) := by
  unfold ensureDirSlot
  split
  · exact NH.ok _
  · split
    · obtain ⟨hne, l, hw, _⟩ := chainIds_head_ok j (dir_mem_heads p L)
      have hn := nh_extendChain_of_walk (p := p) .dir hne hw
      intro s hs
      split at hs
      · cases hs
      · cases hs
      · cases hs
      · rename_i s' heq; exact hn s' heq
    · exact NH.ok _

theorem nh_reopen {p : P} {L : Nat → Nat} (j : JC p L) : NH (Phys.reopen p) := by
  unfold Phys.reopen
  obtain ⟨_, l, hw, _⟩ := chainIds_head_ok j (dir_mem_heads p L)
  rw [hw]
  exact NH.bind (NH.ok _) (fun _ _ => NH.ok _)

/-- free-list facts of the allocator invariant in the shape `TailOK` wants -/
theorem tailOK_of_chain {p : P} (inv : Inv p) {a : Nat} {l : List Nat} (c : IsChain p.fat a l) : TailOK p l := by
  refine ⟨inv.fat.freeNodup, ?_, ?_⟩
  · intro i hi; exact lt_of_get (inv.fat.freeFree i hi)
  · intro z hz
    obtain ⟨z', hz', hend⟩ := c.last_is_end
    rw [hz] at hz'; cases hz'
    refine ⟨?_, hend⟩
    intro hf
    have := inv.fat.freeFree z hf
    rw [hend] at this
    exact END_ne_FREE (Option.some.inj this)

theorem tailOK_nil_of_inv {p : P} (inv : Inv p) : TailOK p [] :=
  TailOK.nil inv.fat.freeNodup (fun i hi => lt_of_get (inv.fat.freeFree i hi))

/-- a stream of at least 4096 bytes: its chain is walked, can be grown, and has the length its size needs -/
theorem reg_walk {p : P} {L : Nat → Nat} (j : JR p L) {s : Nat} (hc : CUTOFF ≤ L s) (hs : startOf p s ≠ END) :
    ∃ ids, chainIds p (startOf p s) = .ok ids ∧ TailOK p ids ∧ ids.length = (L s + p.S - 1) / p.S := by
  have hm : (s, startOf p s) ∈ p.starts := startIn_mem hs
  obtain ⟨_, l, c, hl⟩ := j.rl (s, startOf p s) hm hc
  have hmem : startOf p s ∈ heads p L := by
    unfold heads regs
    refine List.mem_append_right _ (List.mem_map.mpr ⟨(s, startOf p s), List.mem_filter.mpr ⟨hm, ?_⟩, rfl⟩)
    simp [isRegStart, hc, hs]
  exact ⟨l, chainFrom_of_isChain j.jc.nc.ns hmem c, tailOK_of_chain j.jc.inv c, hl⟩

theorem nh_readData_reg {p : P} {L : Nat → Nat} (j : JR p L) (s off n : Nat) (hc : CUTOFF ≤ L s) :
    NH (readData p s (L s) off n) := by
  unfold readData
  by_cases hn : n = 0
  · simp only [hn, if_true]; exact NH.ok _
  · simp only [hn, if_false]
    have hlt : ¬ L s < CUTOFF := by omega
    simp only [hlt, if_false]
    by_cases hs : startOf p s = END
    · rw [hs]
      have : chainIds p END = .ok [] := by unfold chainIds chainFrom chainLoop; simp
      rw [this]
      refine NH.bind (NH.ok _) ?_
      intro ids _
      split
      · exact NH.err _
      · exact nh_chainRead _ p ids off n [] (by omega)
    · obtain ⟨ids, hw, _, _⟩ := reg_walk j hc hs
      rw [hw]
      refine NH.bind (NH.ok _) ?_
      intro ids' _
      split
      · exact NH.err _
      · exact nh_chainRead _ p ids' off n [] (by omega)

theorem nh_freeStream_reg (p : P) (s len : Nat) (hc : CUTOFF ≤ len) : NH (freeStream p s len) := by
  unfold freeStream
  have hlt : ¬ len < CUTOFF := by omega
  simp only [hlt, if_false]
  exact NH.bind (nh_freeChainFrom _ _) (fun _ _ => NH.ok _)


theorem nh_writeData_reg {p : P} {L : Nat → Nat} (j : JR p L) (s off : Nat) (buf : Bytes) (hc : CUTOFF ≤ L s) :
    NH (writeData p s (L s) off buf) := by
  unfold writeData
  dsimp only
  by_cases hs : startOf p s = END
  · simp only [hs, if_true]
    have : L s ≠ 0 := by have := CUTOFF_pos; omega
    simp only [this, ne_eq, not_false_eq_true, if_true]
    exact NH.bad
  · simp only [hs, if_false]
    have hlt : ¬ L s < CUTOFF := by omega
    simp only [hlt, if_false]
    obtain ⟨ids, hw, t, _⟩ := reg_walk j hc hs
    rw [hw]
    refine NH.bind (NH.ok _) ?_
    intro ids' he
    cases he
    split
    · exact NH.err _
    · refine NH.bind (tail_chainWrite .zero _ p ids off buf t (by omega)).1 ?_
      intro r _
      exact NH.ok _

/-- `Chain::set_len` to at least as many sectors as the chain has leaves a chain that can be grown -/
theorem tail_chainSetLen_ge {p p' : P} {ids ids' : List Nat} {kind : Init} {newLen : Nat} (t : TailOK p ids)
    (hge : ids.length ≤ (p.S + newLen - 1) / p.S) (h : chainSetLen p ids kind newLen = .ok (p', ids')) :
    TailOK p' ids' := by
  unfold chainSetLen at h
  dsimp only at h
  split at h
  · rename_i h0
    have hnil : ids = [] := by
      cases ids with
      | nil => rfl
      | cons a r => simp at hge; omega
    subst hnil
    simp at h
    obtain ⟨h1, h2⟩ := h
    subst h1; subst h2; exact t
  · split at h
    · split at h
      · omega
      · cases h; exact t
    · exact (tail_chainGrow kind _ p ids _ t (by omega)).2 p' ids' h

theorem zeroTailRange_some {oldLen newLen unit : Nat} {r : Nat × Nat} (h : zeroTailRange oldLen newLen unit = some r) :
    oldLen < newLen := by
  unfold zeroTailRange at h
  split at h
  · rename_i hc; exact hc.1
  · cases h

/-- resizing a stream that lives in a regular chain, to nothing or to another length of at least 4096 bytes -/
theorem nh_resize_reg {p : P} {L : Nat → Nat} (j : JR p L) (s newLen : Nat) (hc : CUTOFF ≤ L s)
    (hn : newLen = 0 ∨ CUTOFF ≤ newLen) : NH (resize p s (L s) newLen) := by
  unfold resize
  dsimp only
  by_cases hs : startOf p s = END
  · simp only [hs, if_true]
    have : L s ≠ 0 := by have := CUTOFF_pos; omega
    simp only [this, ne_eq, not_false_eq_true, if_true]
    exact NH.bad
  · simp only [hs, if_false]
    have hlt : ¬ L s < CUTOFF := by omega
    simp only [hlt, if_false]
    rcases hn with h0 | hge
    · simp only [h0, if_true]
      exact NH.bind (nh_freeChainFrom _ _) (fun _ _ => NH.ok _)
    · have hne0 : newLen ≠ 0 := by have := CUTOFF_pos; omega
      have hlt2 : ¬ newLen < CUTOFF := by omega
      simp only [hne0, hlt2, if_false]
      obtain ⟨ids, hw, t, hlen⟩ := reg_walk j hc hs
      rw [hw]
      refine NH.bind (NH.ok _) ?_
      intro ids0 he
      cases he
      refine NH.bind (nh_chainSetLen .zero newLen t) ?_
      intro r hr
      obtain ⟨p', ids'⟩ := r
      dsimp only
      split
      · rename_i at_ n hz
        have hgrow := zeroTailRange_some hz
        have hge' : ids.length ≤ (p.S + newLen - 1) / p.S := by
          rw [hlen]
          exact Nat.div_le_div_right (by have := S_pos p; omega)
        have t' := tail_chainSetLen_ge t hge' hr
        split
        · exact NH.err _
        · refine NH.bind (tail_chainWrite .zero _ p' ids' at_ _ t' (by simp)).1 ?_
          intro r2 _
          exact NH.ok _
      · exact NH.ok _

/-- **in every state reachable by store operations and reopens, no operation on the directory chain, no
reopen and no operation on a stream that lives in a regular chain hangs** -/
theorem regular_ops_never_hang (v4 : Bool) (ops : List GOp) :
    let g0 : G := { p := Phys.create v4, L := fun _ => 0 }
    WritesInRange g0 ops → (grun g0 ops).p.fat.size ≤ MAXREG + 1 →
    let g := grun g0 ops
    (∀ slot, NH (gstep g (.ensure slot))) ∧ NH (gstep g .reopen) ∧
    (∀ s, CUTOFF ≤ g.L s →
      (∀ off n, NH (readData g.p s (g.L s) off n)) ∧
      (∀ off bs, NH (gstep g (.write s off bs))) ∧
      (∀ n, n = 0 ∨ CUTOFF ≤ n → NH (gstep g (.resize s n))) ∧
      NH (gstep g (.free s))) := by
  intro g0 hw hb g
  have j : JR g.p g.L := regLen_reachable v4 ops hw hb
  refine ⟨?_, ?_, ?_⟩
  · intro slot
    exact NH.obind (nh_ensureDirSlot j.jc slot) (fun _ _ => NH.ok _)
  · exact NH.obind (nh_reopen j.jc) (fun _ _ => NH.ok _)
  · intro s hc
    refine ⟨fun off n => nh_readData_reg j s off n hc, ?_, ?_, ?_⟩
    · intro off bs
      exact NH.obind (nh_writeData_reg j s off bs hc) (fun _ _ => NH.ok _)
    · intro n hn
      exact NH.obind (nh_resize_reg j s n hc hn) (fun _ _ => NH.ok _)
    · exact NH.obind (nh_freeStream_reg g.p s (g.L s) hc) (fun _ _ => NH.ok _)

end CfbVerif.Phys
