import CfbVerif.Phys.DirBack
import CfbVerif.Dir.Bst
/-!
# `Directory::validate` accepts the writer's directory

The reader's validation is a depth-first walk over the index-linked table with a visited list.
Here it is run on a table that *represents* an inductive directory tree (`DfsOk`: every node's
entry sits at the node's slot, carries its name, type and colour and links to the roots of its
three subtrees; siblings are ordered; in strict mode no red node has a red sibling-child).
`dfs_tree` is the big-step lemma: with the root of a tree on top of the stack, the walk consumes
exactly `size` iterations, leaves the rest of the stack alone and has then visited the tree's
slots.  `validateDir_accepts` puts the root entry on top.
-/
namespace CfbVerif.Phys
open CfbVerif.Raw CfbVerif.Dir CfbVerif.Names

/-- the link value that points at a tree's root -/
def lnk : Tree → Nat
  | .leaf => NOSTREAM
  | .node _ e _ _ => e.slot

/-- pushing a tree's root on the walk's stack (nothing for an absent link) -/
def pushT : Tree → Bool → List (Nat × Bool) → List (Nat × Bool)
  | .leaf, _, st => st
  | .node _ e _ _, f, st => (e.slot, f) :: st

/-- the visited list after a whole tree has been walked (child, then right, then left subtree) -/
def va : Tree → List Nat → List Nat
  | .leaf, v => v
  | .node l e k r, v => va l (va r (va k (e.slot :: v)))

def rootName? : Tree → Option Name
  | .leaf => none
  | .node _ e _ _ => some e.name

/-- the table `T` represents the tree, and the tree is what the validation wants to see -/
def DfsOk (T : Array DirEntry) (strict : Bool) : Tree → Prop
  | .leaf => True
  | .node l e k r => DfsOk T strict l ∧ DfsOk T strict k ∧ DfsOk T strict r ∧
      e.slot ≠ 0 ∧ e.slot ≠ NOSTREAM ∧
      (∃ d, T[e.slot]? = some d ∧ d.name = e.name ∧
        d.objType = (if e.isStream then Gen.OBJ_TYPE_STREAM else Gen.OBJ_TYPE_STORAGE) ∧
        d.red = !e.black ∧ d.left = lnk l ∧ d.right = lnk r ∧ d.child = lnk k) ∧
      (e.isStream = true → k = .leaf) ∧
      (∀ x, rootName? l = some x → cmp x e.name = .lt) ∧ (∀ x, rootName? r = some x → cmp e.name x = .lt) ∧
      (strict = true → e.black = false → l.isRed = false ∧ r.isRed = false)

theorem mem_va (t : Tree) : ∀ (v : List Nat) (x : Nat), x ∈ va t v ↔ x ∈ t.slots ∨ x ∈ v := by
  induction t with
  | leaf => intro v x; simp [va, Tree.slots]
  | node l e k r ihl ihk ihr =>
    intro v x
    simp only [va, Tree.slots, ihl, ihr, ihk, List.mem_append, List.mem_cons, List.mem_singleton, List.not_mem_nil, or_false]
    constructor
    · rintro (h | h | h | h | h)
      · exact Or.inl (Or.inl (Or.inl (Or.inl h)))
      · exact Or.inl (Or.inr h)
      · exact Or.inl (Or.inl (Or.inr h))
      · exact Or.inl (Or.inl (Or.inl (Or.inr h)))
      · exact Or.inr h
    · rintro ((((h | h) | h) | h) | h)
      · exact Or.inl h
      · exact Or.inr (Or.inr (Or.inr (Or.inl h)))
      · exact Or.inr (Or.inr (Or.inl h))
      · exact Or.inr (Or.inl h)
      · exact Or.inr (Or.inr (Or.inr (Or.inr h)))

/-- following the link to a represented tree pushes its root -/
theorem pushLink_tree (T : Array DirEntry) (strict : Bool) (t : Tree) (ok : DfsOk T strict t)
    (check : DirEntry → Bool) (flag : Bool) (stack : List (Nat × Bool))
    (hc : ∀ (tl : Tree) (te : Entry) (tk tr : Tree) (d : DirEntry), t = .node tl te tk tr → T[te.slot]? = some d → check d = true) :
    pushLink T (lnk t) check flag stack = .ok (pushT t flag stack) := by
  cases t with
  | leaf => simp [pushLink, lnk, pushT]
  | node tl te tk tr =>
    obtain ⟨_, _, _, _, hne, ⟨d, hd, _⟩, _, _⟩ := ok
    have hlt : te.slot < T.size := by
      rcases Nat.lt_or_ge te.slot T.size with h | h
      · exact h
      · rw [Array.getElem?_eq_none h] at hd; cases hd
    have hdd : T[te.slot] = d := by rw [Array.getElem?_eq_getElem hlt] at hd; exact Option.some.inj hd
    have := hc tl te tk tr d rfl hd
    simp [pushLink, lnk, pushT, hne, hlt, hdd, this]

/-- one iteration of the walk on an entry that passes every check -/
theorem validateDirLoop_step (m : Mode) (T : Array DirEntry) (fuel id : Nat) (parentRed : Bool)
    (stack st1 st2 st3 : List (Nat × Bool)) (visited : List Nat) (d : DirEntry)
    (hv : visited.contains id = false) (hd : T[id]? = some d)
    (ht1 : ¬ (id = Gen.ROOT_STREAM_ID ∧ d.objType ≠ Gen.OBJ_TYPE_ROOT))
    (ht2 : ¬ (id ≠ Gen.ROOT_STREAM_ID ∧ d.objType ≠ Gen.OBJ_TYPE_STORAGE ∧ d.objType ≠ Gen.OBJ_TYPE_STREAM))
    (hred : ¬ (parentRed = true ∧ d.red = true ∧ m.isStrict = true))
    (h1 : pushLink T d.left (fun x => cmpNames Gen.upper x.name d.name == .lt) d.red stack = .ok st1)
    (h2 : pushLink T d.right (fun x => cmpNames Gen.upper d.name x.name == .lt) d.red st1 = .ok st2)
    (h3 : pushLink T d.child (fun _ => true) false st2 = .ok st3) :
    validateDirLoop m T (fuel + 1) ((id, parentRed) :: stack) visited = validateDirLoop m T fuel st3 (id :: visited) := by
  have hlt : id < T.size := by
    rcases Nat.lt_or_ge id T.size with h | h
    · exact h
    · rw [Array.getElem?_eq_none h] at hd; cases hd
  have hdd : T[id] = d := by rw [Array.getElem?_eq_getElem hlt] at hd; exact Option.some.inj hd
  rw [validateDirLoop]
  rw [hv]
  simp only [Bool.false_eq_true, if_false]
  rw [dif_pos hlt]
  simp only [hdd]
  rw [if_neg ht1, if_neg ht2, if_neg hred]
  simp only [h1, h2, h3]

theorem isRed_node (l : Tree) (e : Entry) (k r : Tree) : (Tree.node l e k r).isRed = !e.black := rfl

/-- **the walk of one represented tree**: `size` iterations, the stack below untouched -/
theorem dfs_tree (m : Mode) (T : Array DirEntry) (t : Tree) :
    ∀ (f : Bool) (stack : List (Nat × Bool)) (visited : List Nat) (fuel : Nat),
      DfsOk T m.isStrict t → (m.isStrict = true → f = true → t.isRed = false) → t.slots.Nodup →
      (∀ s ∈ t.slots, s ∉ visited) →
      validateDirLoop m T (fuel + t.size) (pushT t f stack) visited = validateDirLoop m T fuel stack (va t visited) := by
  induction t with
  | leaf => intro f stack visited fuel _ _ _ _; rfl
  | node l e k r ihl ihk ihr =>
    intro f stack visited fuel ok hf nd hnv
    obtain ⟨okl, okk, okr, h0, hne, ⟨d, hd, hname, htyp, hredd, hleft, hright, hchild⟩, _, hlo, hro, hrb⟩ := ok
    simp only [Tree.slots] at nd hnv
    have hsz : fuel + (Tree.node l e k r).size = (((fuel + l.size) + r.size) + k.size) + 1 := by
      simp only [Tree.size]; omega
    rw [hsz]
    simp only [pushT, va]
    -- distinctness facts
    have ndl : l.slots.Nodup := by
      have := nd; simp only [List.append_assoc] at this
      exact (List.nodup_append.mp this).1
    have hmem : ∀ s, s ∈ l.slots ++ [e.slot] ++ k.slots ++ r.slots ↔ s ∈ l.slots ∨ s = e.slot ∨ s ∈ k.slots ∨ s ∈ r.slots := by
      intro s; simp only [List.mem_append, List.mem_singleton]; constructor
      · rintro (((h | h) | h) | h)
        · exact Or.inl h
        · exact Or.inr (Or.inl h)
        · exact Or.inr (Or.inr (Or.inl h))
        · exact Or.inr (Or.inr (Or.inr h))
      · rintro (h | h | h | h)
        · exact Or.inl (Or.inl (Or.inl h))
        · exact Or.inl (Or.inl (Or.inr h))
        · exact Or.inl (Or.inr h)
        · exact Or.inr h
    have nd' : (l.slots ++ ([e.slot] ++ (k.slots ++ r.slots))).Nodup := by
      simpa only [List.append_assoc] using nd
    have ⟨ndl', nd1, dl⟩ := List.nodup_append.mp nd'
    have ⟨_, nd2, de⟩ := List.nodup_append.mp nd1
    have ⟨ndk, ndr, dkr⟩ := List.nodup_append.mp nd2
    have he_l : e.slot ∉ l.slots := fun h => dl e.slot h e.slot (by simp) rfl
    have he_k : e.slot ∉ k.slots := fun h => de e.slot (by simp) e.slot (List.mem_append.mpr (Or.inl h)) rfl
    have he_r : e.slot ∉ r.slots := fun h => de e.slot (by simp) e.slot (List.mem_append.mpr (Or.inr h)) rfl
    have hl_k : ∀ s ∈ l.slots, s ∉ k.slots := fun s h1 h2 => dl s h1 s (by simp [h2]) rfl
    have hl_r : ∀ s ∈ l.slots, s ∉ r.slots := fun s h1 h2 => dl s h1 s (by simp [h2]) rfl
    have hk_r : ∀ s ∈ k.slots, s ∉ r.slots := fun s h1 h2 => dkr _ h1 _ h2 rfl
    -- the three links
    have p1 := pushLink_tree T m.isStrict l okl (fun x => cmpNames Gen.upper x.name d.name == .lt) d.red stack (by
      intro tl te tk tr dl' e1 hdl
      obtain ⟨_, _, _, _, _, ⟨d2, hd2, hn2, _⟩, _, _⟩ := (e1 ▸ okl : DfsOk T m.isStrict (.node tl te tk tr))
      rw [hdl] at hd2; cases hd2
      have := hlo te.name (by rw [e1]; rfl)
      simp only [beq_iff_eq]
      rw [hn2, hname]; exact this)
    have p2 := pushLink_tree T m.isStrict r okr (fun x => cmpNames Gen.upper d.name x.name == .lt) d.red (pushT l d.red stack) (by
      intro tl te tk tr dl' e1 hdl
      obtain ⟨_, _, _, _, _, ⟨d2, hd2, hn2, _⟩, _, _⟩ := (e1 ▸ okr : DfsOk T m.isStrict (.node tl te tk tr))
      rw [hdl] at hd2; cases hd2
      have := hro te.name (by rw [e1]; rfl)
      simp only [beq_iff_eq]
      rw [hn2, hname]; exact this)
    have p3 := pushLink_tree T m.isStrict k okk (fun _ => true) false (pushT r d.red (pushT l d.red stack)) (by
      intros; rfl)
    rw [validateDirLoop_step m T _ e.slot f stack _ _ _ visited d
      (by
        have : e.slot ∉ visited := hnv _ ((hmem _).mpr (Or.inr (Or.inl rfl)))
        simpa using this)
      hd
      (by intro ⟨h, _⟩; exact h0 h)
      (by intro ⟨_, h1, h2⟩; rw [htyp] at h1 h2; cases hst : e.isStream <;> simp [hst] at h1 h2)
      (by
        intro ⟨hf1, hr1, hs1⟩
        have := hf hs1 hf1
        rw [isRed_node, ← hredd, hr1] at this
        cases this)
      (hleft ▸ p1) (hright ▸ p2) (hchild ▸ p3)]
    -- the child tree, then the right, then the left subtree
    rw [ihk false _ (e.slot :: visited) _ okk (by intro _ h; cases h) ndk (by
      intro s hs
      simp only [List.mem_cons, not_or]
      exact ⟨fun h => he_k (h ▸ hs), hnv s ((hmem s).mpr (Or.inr (Or.inr (Or.inl hs))))⟩)]
    rw [ihr d.red _ _ _ okr (by
        intro hs1 hr1
        rw [hredd] at hr1
        have hb : e.black = false := by cases hb : e.black <;> simp [hb] at hr1 ⊢
        exact (hrb hs1 hb).2) ndr (by
      intro s hs
      rw [mem_va]
      simp only [List.mem_cons, not_or]
      exact ⟨fun h => hk_r s h hs, fun h => he_r (h ▸ hs), hnv s ((hmem s).mpr (Or.inr (Or.inr (Or.inr hs))))⟩)]
    rw [ihl d.red _ _ _ okl (by
        intro hs1 hr1
        rw [hredd] at hr1
        have hb : e.black = false := by cases hb : e.black <;> simp [hb] at hr1 ⊢
        exact (hrb hs1 hb).1) ndl (by
      intro s hs
      rw [mem_va, mem_va]
      simp only [List.mem_cons, not_or]
      exact ⟨hl_r s hs, hl_k s hs, fun h => he_l (h ▸ hs), hnv s ((hmem s).mpr (Or.inl hs))⟩)]

theorem slots_length (t : Tree) : t.slots.length = t.size := by
  induction t with
  | leaf => rfl
  | node l e k r ihl ihk ihr => simp only [Tree.slots, Tree.size, List.length_append, List.length_cons, List.length_nil, ihl, ihk, ihr]

theorem dfsOk_slots (T : Array DirEntry) (strict : Bool) (t : Tree) (ok : DfsOk T strict t) :
    ∀ s ∈ t.slots, s ≠ 0 ∧ s < T.size := by
  induction t with
  | leaf => intro s hs; simp [Tree.slots] at hs
  | node l e k r ihl ihk ihr =>
    obtain ⟨okl, okk, okr, h0, _, ⟨d, hd, _⟩, _, _⟩ := ok
    intro s hs
    simp only [Tree.slots, List.mem_append, List.mem_singleton] at hs
    rcases hs with ((hs | hs) | hs) | hs
    · exact ihl okl s hs
    · subst hs
      refine ⟨h0, ?_⟩
      rcases Nat.lt_or_ge e.slot T.size with h | h
      · exact h
      · rw [Array.getElem?_eq_none h] at hd; cases hd
    · exact ihk okk s hs
    · exact ihr okr s hs

theorem validateDirLoop_nil (m : Mode) (T : Array DirEntry) (fuel : Nat) (visited : List Nat) :
    validateDirLoop m T (fuel + 1) [] visited = .ok () := by
  rw [validateDirLoop]

/-- **`Directory::validate` accepts a table that represents a directory tree**: the root entry in
slot 0 (of root type, its length a whole number of mini sectors, no siblings) above a represented
tree with distinct slots -/
theorem validateDir_accepts (m : Mode) (T : Array DirEntry) (top : Tree) (d0 : DirEntry)
    (h0 : T[0]? = some d0) (hty : d0.objType = Gen.OBJ_TYPE_ROOT) (hl : d0.left = NOSTREAM) (hr : d0.right = NOSTREAM)
    (hc : d0.child = lnk top) (hlen : d0.streamLen % Gen.MINI_SECTOR_LEN = 0)
    (ok : DfsOk T m.isStrict top) (nd : top.slots.Nodup) :
    validateDir m T = .ok () := by
  have hsz : 0 < T.size := by
    rcases Nat.lt_or_ge 0 T.size with h | h
    · exact h
    · rw [Array.getElem?_eq_none h] at h0; cases h0
  have hd0 : T[0] = d0 := by rw [Array.getElem?_eq_getElem hsz] at h0; exact Option.some.inj h0
  have hs := dfsOk_slots T m.isStrict top ok
  -- the root and the tree's slots are distinct slots of the table
  have hcount : top.size + 1 ≤ T.size := by
    have := length_le_of_nodup_lt T.size (0 :: top.slots)
      (List.nodup_cons.mpr ⟨fun h => (hs 0 h).1 rfl, nd⟩)
      (by intro x hx; rcases List.mem_cons.mp hx with rfl | hx; exact hsz; exact (hs x hx).2)
    rw [List.length_cons, slots_length] at this
    exact this
  unfold validateDir
  rw [dif_pos hsz, hd0, if_neg (by rw [hlen]; simp)]
  obtain ⟨fuel, hf⟩ : ∃ fuel, T.size + 1 = ((fuel + 1) + top.size) + 1 := ⟨T.size - top.size - 1, by omega⟩
  rw [hf]
  have p3 := pushLink_tree T m.isStrict top ok (fun _ => true) false [] (by intros; rfl)
  rw [validateDirLoop_step m T _ Gen.ROOT_STREAM_ID false [] [] [] (pushT top false []) [] d0 rfl h0
    (by intro ⟨_, h⟩; exact h hty)
    (by intro ⟨h, _⟩; exact h rfl)
    (by intro ⟨h, _⟩; cases h)
    (by rw [hl]; simp [pushLink])
    (by rw [hr]; simp [pushLink])
    (hc ▸ p3)]
  rw [dfs_tree m T top false [] [Gen.ROOT_STREAM_ID] (fuel + 1) ok (by intro _ h; cases h) nd
    (by intro s hs' hm; simp only [List.mem_singleton] at hm; exact (hs s hs').1 hm)]
  exact validateDirLoop_nil m T fuel _

end CfbVerif.Phys
