import CfbVerif.Phys.ApiInv
/-!
# No sector is shared between chains

`NSH fat hs`: in the FAT `fat`, whose chains start at the sectors `hs` (their *heads*),

* no two cells point at the same sector (`inj`) and no cell points at a FREE sector or outside the
  FAT (`nd`): following cells never merges two chains and never enters free space;
* the heads are distinct, in use, and nothing points at them (`nodup`, `used`, `unp`): no chain
  runs into the beginning of another one, and no two owners start at the same sector.

Together: the chains starting at the heads are pairwise disjoint — "every sector belongs to at most
one chain" (C03).  The first part of this file proves how the five FAT updates the allocator makes
(claim a FREE or new cell, link it behind the last sector of a chain, cut a chain behind a sector,
free the head of a chain) transform `NSH`; the rest lifts that through every operation of `Phys`.
-/
namespace CfbVerif.Phys
open CfbVerif.Raw

structure NSH (fat : Array Nat) (hs : List Nat) : Prop where
  bound : fat.size ≤ MAXREG + 1
  inj : ∀ i j v : Nat, fat[i]? = some v → fat[j]? = some v → v ≤ MAXREG → i = j
  nd : ∀ i v : Nat, fat[i]? = some v → v ≤ MAXREG → ∃ w, fat[v]? = some w ∧ w ≠ FREE
  nodup : hs.Nodup
  used : ∀ h ∈ hs, ∃ w, fat[h]? = some w ∧ w ≠ FREE
  unp : ∀ h ∈ hs, ∀ i : Nat, fat[i]? ≠ some h

theorem lt_of_get {fat : Array Nat} {i v : Nat} (h : fat[i]? = some v) : i < fat.size := by
  rcases Nat.lt_or_ge i fat.size with hc | hc
  · exact hc
  · rw [Array.getElem?_eq_none hc] at h; cases h

theorem MAXREG_lt_FREE : MAXREG < FREE := by decide
theorem MAXREG_lt_END : MAXREG < END := by decide
theorem MAXREG_lt_FATSECT : MAXREG < FATSECT := by decide
theorem MAXREG_lt_DIFSECT : MAXREG < DIFSECT := by decide

theorem NSH.head_reg {fat : Array Nat} {hs : List Nat} (n : NSH fat hs) {h : Nat} (hh : h ∈ hs) : h ≤ MAXREG := by
  obtain ⟨w, hw, _⟩ := n.used h hh
  have := lt_of_get hw
  have := n.bound
  omega

/-- fewer heads, or the same heads in another order -/
theorem NSH.sub {fat : Array Nat} {hs hs' : List Nat} (n : NSH fat hs) (hn : hs'.Nodup) (hsub : ∀ x ∈ hs', x ∈ hs) :
    NSH fat hs' :=
  ⟨n.bound, n.inj, n.nd, hn, fun h hh => n.used h (hsub h hh), fun h hh => n.unp h (hsub h hh)⟩

theorem NSH.perm {fat : Array Nat} {hs hs' : List Nat} (n : NSH fat hs) (hp : hs.Perm hs') : NSH fat hs' :=
  n.sub (hp.nodup_iff.mp n.nodup) (fun x hx => hp.mem_iff.mpr hx)

/-- **claiming a sector**: the FAT after `allocate_sector` (`fat'`) agrees with the one before on
every old cell but `id`, holds END at `id`, and only table markers in other new cells; `id` was
FREE or is new.  Then `id` is one more head. -/
theorem NSH.claim {fat fat' : Array Nat} {hs : List Nat} {id : Nat} (n : NSH fat hs)
    (hb : fat'.size ≤ MAXREG + 1)
    (hframe : ∀ j, j < fat.size → j ≠ id → fat'[j]? = fat[j]?)
    (hid : fat'[id]? = some END)
    (hwas : fat[id]? = some FREE ∨ fat.size ≤ id)
    (hnew : ∀ j v, fat.size ≤ j → j ≠ id → fat'[j]? = some v → MAXREG < v) :
    NSH fat' (id :: hs) := by
  -- a cell of `fat'` holding a regular value is an old cell other than `id`, with its old value
  have old : ∀ i v : Nat, fat'[i]? = some v → v ≤ MAXREG → i < fat.size ∧ i ≠ id ∧ fat[i]? = some v := by
    intro i v hi hv
    have hne : i ≠ id := by
      intro he; subst he; rw [hid] at hi; cases hi; exact absurd hv (Nat.not_le.mpr MAXREG_lt_END)
    rcases Nat.lt_or_ge i fat.size with hc | hc
    · exact ⟨hc, hne, by rw [← hframe i hc hne]; exact hi⟩
    · exact absurd hv (Nat.not_le.mpr (hnew i v hc hne hi))
  -- a used old sector is not `id`
  have notid : ∀ x w : Nat, fat[x]? = some w → w ≠ FREE → x ≠ id := by
    intro x w hx hw he
    subst he
    rcases hwas with hf | hge
    · rw [hx] at hf; exact hw (Option.some.inj hf)
    · have := lt_of_get hx; omega
  have keep : ∀ x w : Nat, fat[x]? = some w → w ≠ FREE → fat'[x]? = some w := by
    intro x w hx hw
    rw [hframe x (lt_of_get hx) (notid x w hx hw)]; exact hx
  refine ⟨hb, ?_, ?_, ?_, ?_, ?_⟩
  · intro i j v hi hj hv
    obtain ⟨_, _, hi'⟩ := old i v hi hv
    obtain ⟨_, _, hj'⟩ := old j v hj hv
    exact n.inj i j v hi' hj' hv
  · intro i v hi hv
    obtain ⟨_, _, hi'⟩ := old i v hi hv
    obtain ⟨w, hw, hwf⟩ := n.nd i v hi' hv
    exact ⟨w, keep v w hw hwf, hwf⟩
  · refine List.nodup_cons.mpr ⟨?_, n.nodup⟩
    intro hm
    obtain ⟨w, hw, hwf⟩ := n.used id hm
    exact notid id w hw hwf rfl
  · intro h hh
    rcases List.mem_cons.mp hh with rfl | hh
    · exact ⟨END, hid, END_ne_FREE⟩
    · obtain ⟨w, hw, hwf⟩ := n.used h hh
      exact ⟨w, keep h w hw hwf, hwf⟩
  · intro h hh i hi
    rcases List.mem_cons.mp hh with rfl | hh
    · have hreg : h ≤ MAXREG := by have := lt_of_get hid; omega
      obtain ⟨_, _, hi'⟩ := old i h hi hreg
      obtain ⟨w, hw, hwf⟩ := n.nd i h hi' hreg
      exact notid h w hw hwf rfl
    · have hreg := n.head_reg hh
      obtain ⟨_, _, hi'⟩ := old i h hi hreg
      exact n.unp h hh i hi'

/-- **linking** the head `id` behind a sector whose cell says END: `id` stops being a head -/
theorem NSH.link {fat : Array Nat} {hs : List Nat} {id last : Nat} (n : NSH fat (id :: hs))
    (hlast : fat[last]? = some END) (hne : last ≠ id) :
    NSH (fat.setIfInBounds last id) hs := by
  have hidreg : id ≤ MAXREG := n.head_reg (List.mem_cons_self ..)
  have hll := lt_of_get hlast
  have get : ∀ i : Nat, (fat.setIfInBounds last id)[i]? = if last = i then some id else fat[i]? := by
    intro i
    simp only [Array.getElem?_setIfInBounds]
    split
    · rename_i he; subst he; simp
    · rfl
  have hnd := List.nodup_cons.mp n.nodup
  refine ⟨by simpa using n.bound, ?_, ?_, hnd.2, ?_, ?_⟩
  · intro i j v hi hj hv
    rw [get] at hi hj
    split at hi
    · rename_i hli
      have hv' : v = id := (Option.some.inj hi).symm
      split at hj
      · rename_i hlj; omega
      · exact absurd (hv' ▸ hj) (n.unp id (List.mem_cons_self ..) j)
    · split at hj
      · have hv' : v = id := (Option.some.inj hj).symm
        exact absurd (hv' ▸ hi) (n.unp id (List.mem_cons_self ..) i)
      · exact n.inj i j v hi hj hv
  · intro i v hi hv
    rw [get] at hi
    have pointee : ∀ x w : Nat, fat[x]? = some w → w ≠ FREE → ∃ w', (fat.setIfInBounds last id)[x]? = some w' ∧ w' ≠ FREE := by
      intro x w hx hw
      rw [get]
      split
      · exact ⟨id, rfl, by have := MAXREG_lt_FREE; omega⟩
      · exact ⟨w, hx, hw⟩
    split at hi
    · have hv' : v = id := (Option.some.inj hi).symm
      obtain ⟨w, hw, hwf⟩ := n.used id (List.mem_cons_self ..)
      exact hv' ▸ pointee id w hw hwf
    · obtain ⟨w, hw, hwf⟩ := n.nd i v hi hv
      exact pointee v w hw hwf
  · intro h hh
    obtain ⟨w, hw, hwf⟩ := n.used h (List.mem_cons_of_mem _ hh)
    rw [get]
    split
    · exact ⟨id, rfl, by have := MAXREG_lt_FREE; omega⟩
    · exact ⟨w, hw, hwf⟩
  · intro h hh i hi
    rw [get] at hi
    split at hi
    · cases hi; exact hnd.1 hh
    · exact n.unp h (List.mem_cons_of_mem _ hh) i hi

/-- **cutting** a chain behind `id`: its successor becomes a head -/
theorem NSH.cut {fat : Array Nat} {hs : List Nat} {id next : Nat} (n : NSH fat hs)
    (hid : fat[id]? = some next) (hreg : next ≤ MAXREG) :
    NSH (fat.setIfInBounds id END) (next :: hs) := by
  have hil := lt_of_get hid
  have get : ∀ i : Nat, (fat.setIfInBounds id END)[i]? = if id = i then some END else fat[i]? := by
    intro i
    simp only [Array.getElem?_setIfInBounds]
    split
    · rename_i he; subst he; simp
    · rfl
  have hnotin : next ∉ hs := fun hm => n.unp next hm id hid
  refine ⟨by simpa using n.bound, ?_, ?_, List.nodup_cons.mpr ⟨hnotin, n.nodup⟩, ?_, ?_⟩
  · intro i j v hi hj hv
    rw [get] at hi hj
    split at hi
    · cases hi; exact absurd hv (Nat.not_le.mpr MAXREG_lt_END)
    · split at hj
      · cases hj; exact absurd hv (Nat.not_le.mpr MAXREG_lt_END)
      · exact n.inj i j v hi hj hv
  · intro i v hi hv
    rw [get] at hi
    split at hi
    · cases hi; exact absurd hv (Nat.not_le.mpr MAXREG_lt_END)
    · obtain ⟨w, hw, hwf⟩ := n.nd i v hi hv
      rw [get]
      split
      · exact ⟨END, rfl, END_ne_FREE⟩
      · exact ⟨w, hw, hwf⟩
  · intro h hh
    have : ∃ w, fat[h]? = some w ∧ w ≠ FREE := by
      rcases List.mem_cons.mp hh with rfl | hh
      · exact n.nd id h hid hreg
      · exact n.used h hh
    obtain ⟨w, hw, hwf⟩ := this
    rw [get]
    split
    · exact ⟨END, rfl, END_ne_FREE⟩
    · exact ⟨w, hw, hwf⟩
  · intro h hh i hi
    rw [get] at hi
    split at hi
    · rename_i he
      cases hi
      -- h = END would be a head beyond the FAT
      have hr : END ≤ MAXREG := by
        rcases List.mem_cons.mp hh with he' | hh'
        · rw [he']; exact hreg
        · exact n.head_reg hh'
      exact absurd hr (Nat.not_le.mpr MAXREG_lt_END)
    · rcases List.mem_cons.mp hh with rfl | hh
      · rename_i hne
        exact hne (n.inj id i h hid hi hreg)
      · exact n.unp h hh i hi

/-- **freeing the head** of a chain: its successor (if any) becomes the head of what is left -/
theorem NSH.freeHead {fat : Array Nat} {hs : List Nat} {cur next : Nat} (n : NSH fat (cur :: hs))
    (hcur : fat[cur]? = some next) (hnf : next ≠ FREE) :
    NSH (fat.setIfInBounds cur FREE) ((if next ≤ MAXREG then [next] else []) ++ hs) := by
  have hcl := lt_of_get hcur
  have hnd := List.nodup_cons.mp n.nodup
  have get : ∀ i : Nat, (fat.setIfInBounds cur FREE)[i]? = if cur = i then some FREE else fat[i]? := by
    intro i
    simp only [Array.getElem?_setIfInBounds]
    split
    · rename_i he; subst he; simp
    · rfl
  have hcurunp := n.unp cur (List.mem_cons_self ..)
  -- sectors other than `cur` that were in use still are
  have keep : ∀ x w : Nat, fat[x]? = some w → x ≠ cur → (fat.setIfInBounds cur FREE)[x]? = some w := by
    intro x w hx hne
    rw [get, if_neg (fun he => hne he.symm)]; exact hx
  have hbase : NSH (fat.setIfInBounds cur FREE) hs := by
    refine ⟨by simpa using n.bound, ?_, ?_, hnd.2, ?_, ?_⟩
    · intro i j v hi hj hv
      rw [get] at hi hj
      split at hi
      · cases hi; exact absurd hv (Nat.not_le.mpr MAXREG_lt_FREE)
      · split at hj
        · cases hj; exact absurd hv (Nat.not_le.mpr MAXREG_lt_FREE)
        · exact n.inj i j v hi hj hv
    · intro i v hi hv
      rw [get] at hi
      split at hi
      · cases hi; exact absurd hv (Nat.not_le.mpr MAXREG_lt_FREE)
      · obtain ⟨w, hw, hwf⟩ := n.nd i v hi hv
        have hvne : v ≠ cur := fun he => hcurunp i (he ▸ hi)
        exact ⟨w, keep v w hw hvne, hwf⟩
    · intro h hh
      obtain ⟨w, hw, hwf⟩ := n.used h (List.mem_cons_of_mem _ hh)
      have hne : h ≠ cur := fun he => hnd.1 (he ▸ hh)
      exact ⟨w, keep h w hw hne, hwf⟩
    · intro h hh i hi
      rw [get] at hi
      split at hi
      · cases hi
        have := n.head_reg (List.mem_cons_of_mem cur hh)
        exact absurd this (Nat.not_le.mpr MAXREG_lt_FREE)
      · exact n.unp h (List.mem_cons_of_mem _ hh) i hi
  split
  · rename_i hreg
    have hne : next ≠ cur := fun he => hcurunp cur (he ▸ hcur)
    have hnotin : next ∉ hs := fun hm => n.unp next (List.mem_cons_of_mem _ hm) cur hcur
    refine ⟨hbase.bound, hbase.inj, hbase.nd, ?_, ?_, ?_⟩
    · exact List.nodup_cons.mpr ⟨hnotin, hnd.2⟩
    · intro h hh
      rcases List.mem_cons.mp hh with rfl | hh
      · obtain ⟨w, hw, hwf⟩ := n.nd cur h hcur hreg
        exact ⟨w, keep h w hw hne, hwf⟩
      · exact hbase.used h hh
    · intro h hh i hi
      rcases List.mem_cons.mp hh with rfl | hh
      · rw [get] at hi
        split at hi
        · cases hi; exact absurd hreg (Nat.not_le.mpr MAXREG_lt_FREE)
        · rename_i hci
          exact hci (n.inj cur i h hcur hi hreg)
      · exact hbase.unp h hh i hi
  · simpa using hbase

end CfbVerif.Phys

/-! ## the sector level -/
namespace CfbVerif.Phys
open CfbVerif.Raw

/-- the fields that name chain heads are untouched -/
def SF (p q : P) : Prop :=
  q.dirStart = p.dirStart ∧ q.miniFatStart = p.miniFatStart ∧ q.rootStart = p.rootStart ∧ q.starts = p.starts

theorem SF.refl (p : P) : SF p p := ⟨rfl, rfl, rfl, rfl⟩
theorem SF.trans {p q r : P} (h1 : SF p q) (h2 : SF q r) : SF p r :=
  ⟨h2.1.trans h1.1, h2.2.1.trans h1.2.1, h2.2.2.1.trans h1.2.2.1, h2.2.2.2.trans h1.2.2.2⟩

theorem sf_setFat {p p' : P} {i v : Nat} (h : setFat p i v = .ok p') : SF p p' := by
  rcases setFat_ok h with ⟨_, he⟩ | ⟨_, he⟩ <;> subst he <;> exact ⟨rfl, rfl, rfl, rfl⟩

theorem sf_initSector {p p' : P} {id : Nat} {k : Init} (h : initSector p id k = .ok p') : SF p p' := by
  rcases initSector_ok h with ⟨_, he⟩ | ⟨_, he⟩ <;> subst he <;> exact ⟨rfl, rfl, rfl, rfl⟩

theorem sf_writeSector {p p' : P} {id off : Nat} {bs : Bytes} (h : writeSector p id off bs = .ok p') : SF p p' := by
  unfold writeSector at h
  split at h
  · cases h
  · cases h; exact ⟨rfl, rfl, rfl, rfl⟩

theorem sf_appendFatSector {p p' : P} (h : appendFatSector p = .ok p') : SF p p' := by
  unfold appendFatSector at h
  obtain ⟨p1, h1, h⟩ := bind_ok h
  obtain ⟨p2, h2, h⟩ := bind_ok h
  have s12 : SF p p2 := (sf_initSector h1).trans ((SF.refl _ : SF _ { p1 with difat := p1.difat ++ [p.fat.size] }).trans (sf_setFat h2))
  split at h
  · cases h; exact s12
  · dsimp only at h
    split at h
    · obtain ⟨p3, h3, h⟩ := bind_ok h
      obtain ⟨p4, h4, h⟩ := bind_ok h
      cases h
      exact ((s12.trans (sf_initSector h3)).trans (sf_setFat h4)).trans ⟨rfl, rfl, rfl, rfl⟩
    · cases h; exact s12

theorem sf_allocateSector {p p' : P} {id : Nat} {k : Init} (h : allocateSector p k = .ok (p', id)) : SF p p' := by
  unfold allocateSector at h
  split at h
  · obtain ⟨p1, h1, h⟩ := bind_ok h
    obtain ⟨p2, h2, h⟩ := bind_ok h
    cases h
    exact ((SF.refl _ : SF p { p with free := p.free.dropLast }).trans (sf_setFat h1)).trans (sf_initSector h2)
  · split at h
    · obtain ⟨p0, h0, h⟩ := bind_ok h
      obtain ⟨p1, h1, h⟩ := bind_ok h
      obtain ⟨p2, h2, h⟩ := bind_ok h
      cases h
      exact ((sf_appendFatSector h0).trans (sf_setFat h1)).trans (sf_initSector h2)
    · obtain ⟨p0, h0, h⟩ := bind_ok h
      cases h0
      obtain ⟨p1, h1, h⟩ := bind_ok h
      obtain ⟨p2, h2, h⟩ := bind_ok h
      cases h
      exact (sf_setFat h1).trans (sf_initSector h2)

/-- what `append_fat_sector` does to the FAT: one FATSECT cell, and a DIFSECT cell when a DIFAT
sector is added too -/
theorem appendFatSector_fat {p p' : P} (h0 : appendFatSector p = .ok p') :
    p'.fat = p.fat.push FATSECT ∨ p'.fat = (p.fat.push FATSECT).push DIFSECT := by
  unfold appendFatSector at h0
  obtain ⟨q1, g1, h0⟩ := bind_ok h0
  obtain ⟨q2, g2, h0⟩ := bind_ok h0
  have e1 : q1.fat = p.fat := initSector_fat g1
  have e2 : q2.fat = p.fat.push FATSECT := by
    rcases setFat_ok g2 with ⟨_, he⟩ | ⟨hl, _⟩
    · subst he; simp [e1]
    · simp [e1] at hl
  split at h0
  · cases h0; exact Or.inl e2
  · dsimp only at h0
    split at h0
    · obtain ⟨q3, g3, h0⟩ := bind_ok h0
      obtain ⟨q4, g4, h0⟩ := bind_ok h0
      cases h0
      have e3 : q3.fat = q2.fat := initSector_fat g3
      rcases setFat_ok g4 with ⟨_, he⟩ | ⟨hl, _⟩
      · subst he; right; simp only [e3, e2]
      · rw [e3, e2] at hl; simp at hl
    · cases h0; exact Or.inl e2

/-- cells that `allocate_sector` adds besides the one it hands out are table markers -/
theorem allocateSector_new {p p' : P} {id : Nat} {k : Init} (inv : Inv p) (h : allocateSector p k = .ok (p', id))
    (j v : Nat) (hj : p.fat.size ≤ j) (hne : j ≠ id) (hv : p'.fat[j]? = some v) : MAXREG < v := by
  by_cases hfree : p.free = []
  · unfold allocateSector at h
    simp only [hfree, List.getLast?_nil] at h
    have tail : ∀ {p0 : P}, (∀ j v, p.fat.size ≤ j → p0.fat[j]? = some v → MAXREG < v) →
        (setFat p0 p0.fat.size END >>= fun p1 => initSector p1 p0.fat.size k >>= fun p2 => pure (p2, p0.fat.size)) = .ok (p', id) →
        MAXREG < v := by
      intro p0 hmark h
      obtain ⟨p1, h1, h⟩ := bind_ok h
      obtain ⟨p2, h2, h⟩ := bind_ok h
      cases h
      rw [initSector_fat h2] at hv
      rcases setFat_ok h1 with ⟨_, he⟩ | ⟨hl, _⟩
      · subst he
        simp only [Array.getElem?_push] at hv
        split at hv
        · rename_i he; exact absurd he hne
        · exact hmark j v hj hv
      · omega
    split at h
    · obtain ⟨p0, h0, h⟩ := bind_ok h
      refine tail ?_ h
      intro j v hj hv
      rcases appendFatSector_fat h0 with e | e
      · rw [e] at hv
        simp only [Array.getElem?_push] at hv
        split at hv
        · cases hv; exact MAXREG_lt_FATSECT
        · have := lt_of_get hv; omega
      · rw [e] at hv
        simp only [Array.getElem?_push] at hv
        split at hv
        · cases hv; exact MAXREG_lt_DIFSECT
        · split at hv
          · cases hv; exact MAXREG_lt_FATSECT
          · have := lt_of_get hv; omega
    · obtain ⟨p0, h0, h⟩ := bind_ok h
      cases h0
      refine tail ?_ h
      intro j v hj hv
      have := lt_of_get hv; omega
  · have r := allocateSector_reuse inv.fat hfree h
    rw [r.2.2.2.2.1] at hv
    have := lt_of_get hv
    simp at this
    omega

/-- `allocate_sector`: the sector handed out is a new head; every other head stays one -/
theorem nsh_allocateSector {p p' : P} {id : Nat} {k : Init} {hs : List Nat} (inv : Inv p)
    (h : allocateSector p k = .ok (p', id)) (hb : p'.fat.size ≤ MAXREG + 1) (n : NSH p.fat hs) :
    NSH p'.fat (id :: hs) := by
  have r := inv_allocateSector inv h
  exact n.claim hb (fun j hj hne => allocateSector_frame inv h j hj hne) r.2.1 r.2.2.1
    (fun j v hj hne hv => allocateSector_new inv h j v hj hne hv)

/-- `extend_chain`: the new sector is linked behind the last one; the heads are the same -/
theorem nsh_extendChain {p p' : P} {start id : Nat} {k : Init} {hs : List Nat} (inv : Inv p)
    (h : extendChain p start k = .ok (p', id)) (hb : p'.fat.size ≤ MAXREG + 1) (n : NSH p.fat hs) :
    NSH p'.fat hs := by
  unfold extendChain at h
  obtain ⟨last, hl, h⟩ := bind_ok h
  obtain ⟨⟨p1, id1⟩, ha, h⟩ := bind_ok h
  obtain ⟨p2, hs', h⟩ := bind_ok h
  cases h
  have hlast := lastOfChain_ok _ _ hl
  have r := inv_allocateSector inv ha
  have hne : last ≠ id := by
    intro he
    subst he
    rcases r.2.2.1 with hfr | hge
    · rw [hlast.2] at hfr; exact END_ne_FREE (Option.some.inj hfr)
    · omega
  have hcell : p1.fat[last]? = some END := by
    rw [allocateSector_frame inv ha last hlast.1 hne]; exact hlast.2
  have hb1 : p1.fat.size ≤ MAXREG + 1 := Nat.le_trans (setFat_mono hs') hb
  have n1 := nsh_allocateSector inv ha hb1 n
  have hp' : p'.fat = p1.fat.setIfInBounds last id := by
    rcases setFat_ok hs' with ⟨he, _⟩ | ⟨_, he⟩
    · have := lt_of_get hcell; omega
    · subst he; rfl
  rw [hp']
  exact n1.link hcell hne

theorem sf_extendChain {p p' : P} {start id : Nat} {k : Init} (h : extendChain p start k = .ok (p', id)) : SF p p' := by
  unfold extendChain at h
  obtain ⟨last, hl, h⟩ := bind_ok h
  obtain ⟨⟨p1, id1⟩, ha, h⟩ := bind_ok h
  obtain ⟨p2, hs, h⟩ := bind_ok h
  cases h
  exact (sf_allocateSector ha).trans (sf_setFat hs)

def hd1 (s : Nat) : List Nat := if s = END then [] else [s]

/-- `free_chain` from a head: the whole chain goes, the other heads stay -/
theorem nsh_freeChain (fuel : Nat) : ∀ {p p' : P} {cur : Nat} {hs : List Nat},
    freeChain p fuel cur = .ok p' → NSH p.fat (hd1 cur ++ hs) → NSH p'.fat hs := by
  induction fuel with
  | zero => intro p p' cur hs h; simp [freeChain] at h
  | succ fuel ih =>
    intro p p' cur hs h n
    unfold freeChain at h
    split at h
    · rename_i he
      cases h
      simpa [hd1, he] using n
    · rename_i hne
      cases hn : nextSector p.fat cur with
      | error k => simp [hn] at h
      | ok next =>
        simp only [hn] at h
        have ns := nextSector_ok hn
        split at h
        · cases h
        · cases h1 : setFat p cur FREE with
          | err e => simp [h1] at h
          | panic s => simp [h1] at h
          | hang s => simp [h1] at h
          | ok p1 =>
            simp only [h1] at h
            have hp1 : p1 = { p with fat := p.fat.setIfInBounds cur FREE } := by
              rcases setFat_ok h1 with ⟨he, _⟩ | ⟨_, he⟩
              · omega
              · exact he
            subst hp1
            have n0 : NSH p.fat (cur :: hs) := by simpa [hd1, hne] using n
            have n1 := n0.freeHead ns.2.1 ns.2.2
            refine ih h ?_
            -- the successor is END, or a regular sector that is now the head of the rest
            have hcase : next = END ∨ (next ≠ END ∧ next ≤ MAXREG) := by
              unfold nextSector at hn
              split at hn
              · dsimp only at hn
                split at hn
                · cases hn
                · rename_i hc
                  cases hn
                  rcases Nat.lt_or_ge MAXREG (p.fat[cur]) with hgt | hle
                  · left
                    rcases Classical.em (p.fat[cur] = END) with he | he
                    · exact he
                    · exact absurd ⟨he, Or.inl hgt⟩ hc
                  · right
                    exact ⟨by have := MAXREG_lt_END; omega, hle⟩
              · cases hn
            rcases hcase with he | ⟨hne', hreg⟩
            · subst he
              have : ¬ (END ≤ MAXREG) := Nat.not_le.mpr MAXREG_lt_END
              simpa [hd1, this] using n1
            · simpa [hd1, hne', hreg] using n1

theorem sf_freeChain (fuel : Nat) : ∀ {p p' : P} {cur : Nat}, freeChain p fuel cur = .ok p' → SF p p' := by
  induction fuel with
  | zero => intro p p' cur h; simp [freeChain] at h
  | succ fuel ih =>
    intro p p' cur h
    unfold freeChain at h
    split at h
    · cases h; exact SF.refl _
    · cases hn : nextSector p.fat cur with
      | error k => simp [hn] at h
      | ok next =>
        simp only [hn] at h
        split at h
        · cases h
        · cases h1 : setFat p cur FREE with
          | err e => simp [h1] at h
          | panic s => simp [h1] at h
          | hang s => simp [h1] at h
          | ok p1 =>
            simp only [h1] at h
            exact ((sf_setFat h1).trans (⟨rfl, rfl, rfl, rfl⟩ : SF p1 { p1 with free := p1.free ++ [cur] })).trans (ih h)

/-- `free_chain_after`: everything behind `id` goes; the heads are the same -/
theorem nsh_freeChainAfter {p p' : P} {id : Nat} {hs : List Nat}
    (h : freeChainAfter p id = .ok p') (n : NSH p.fat hs) : NSH p'.fat hs := by
  unfold freeChainAfter at h
  cases hn : nextSector p.fat id with
  | error k => simp [hn] at h
  | ok next =>
    simp only [hn] at h
    obtain ⟨p1, h1, h⟩ := bind_ok h
    have ns := nextSector_ok hn
    have hp1 : p1 = { p with fat := p.fat.setIfInBounds id END } := by
      rcases setFat_ok h1 with ⟨he, _⟩ | ⟨_, he⟩
      · omega
      · exact he
    subst hp1
    refine nsh_freeChain _ h ?_
    rcases Classical.em (next = END) with he | he
    · subst he
      -- the cell already said END: nothing changes
      have : p.fat.setIfInBounds id END = p.fat := by
        apply Array.ext_getElem?
        intro i
        simp only [Array.getElem?_setIfInBounds]
        split
        · rename_i hi; subst hi
          have h2 := ns.2.1
          simp only [ns.1, Array.getElem?_eq_getElem, Option.some.injEq] at h2
          simp [ns.1, h2]
        · rfl
      simpa [hd1, this] using n
    · have hreg : next ≤ MAXREG := by
        unfold nextSector at hn
        split at hn
        · dsimp only at hn
          split at hn
          · cases hn
          · rename_i hc
            cases hn
            rcases Nat.lt_or_ge MAXREG (p.fat[id]) with hgt | hle
            · exact absurd ⟨he, Or.inl hgt⟩ hc
            · exact hle
        · cases hn
      simpa [hd1, he] using n.cut ns.2.1 hreg

theorem sf_freeChainAfter {p p' : P} {id : Nat} (h : freeChainAfter p id = .ok p') : SF p p' := by
  unfold freeChainAfter at h
  cases hn : nextSector p.fat id with
  | error k => simp [hn] at h
  | ok next =>
    simp only [hn] at h
    obtain ⟨p1, h1, h⟩ := bind_ok h
    exact (sf_setFat h1).trans (sf_freeChain _ h)

end CfbVerif.Phys

/-! ## summaries that compose -/
namespace CfbVerif.Phys
open CfbVerif.Raw

/-- `Keeps p p' a a'`: an operation that turns the heads `a` into `a'` and leaves every other head
(`X`, arbitrary) alone — as long as the FAT stays inside the range of regular sector numbers -/
structure Keeps (p p' : P) (a a' : List Nat) : Prop where
  good : Good p p'
  keep : p'.fat.size ≤ MAXREG + 1 → Inv p → ∀ X, NSH p.fat (a ++ X) → NSH p'.fat (a' ++ X)

theorem small_of_bound {p : P} (h : p.fat.size ≤ MAXREG + 1) : Small p := by
  unfold Small; have := MAXREG_lt_FREE; omega

theorem Keeps.refl (p : P) (a : List Nat) : Keeps p p a a := ⟨Good.refl p, fun _ _ _ n => n⟩

theorem Keeps.trans {p q r : P} {a b c : List Nat} (h1 : Keeps p q a b) (h2 : Keeps q r b c) : Keeps p r a c := by
  refine ⟨h1.good.trans h2.good, ?_⟩
  intro hb inv X n
  have hbq : q.fat.size ≤ MAXREG + 1 := Nat.le_trans h2.good.mono hb
  exact h2.keep hb (h1.good.inv inv (small_of_bound hbq)) X (h1.keep hbq inv X n)

theorem Keeps.of_same {p q : P} (h : SameAlloc p q) (a : List Nat) : Keeps p q a a :=
  ⟨Good.of_same h, fun _ _ _ n => by rw [h.1]; exact n⟩

/-- more heads in front that the operation does not care about -/
theorem Keeps.frame {p p' : P} {a a' : List Nat} (Y : List Nat) (h : Keeps p p' a a') : Keeps p p' (Y ++ a) (Y ++ a') := by
  refine ⟨h.good, ?_⟩
  intro hb inv X n
  have p1 : ((Y ++ a) ++ X).Perm (a ++ (Y ++ X)) := by
    rw [List.append_assoc]
    exact (List.perm_append_comm_assoc Y a X)
  have p2 : (a' ++ (Y ++ X)).Perm ((Y ++ a') ++ X) := by
    rw [List.append_assoc]
    exact (List.perm_append_comm_assoc a' Y X)
  exact (h.keep hb inv (Y ++ X) (n.perm p1)).perm p2

theorem keeps_allocateSector {p p' : P} {id : Nat} {k : Init} (h : allocateSector p k = .ok (p', id)) :
    Keeps p p' [] [id] :=
  ⟨good_allocateSector h, fun hb inv X n => by simpa using nsh_allocateSector inv h hb n⟩

theorem keeps_extendChain {p p' : P} {start id : Nat} {k : Init} (h : extendChain p start k = .ok (p', id))
    (a : List Nat) : Keeps p p' a a :=
  ⟨good_extendChain h, fun hb inv X n => nsh_extendChain inv h hb n⟩

theorem keeps_freeChainFrom {p p' : P} {start : Nat} (h : freeChainFrom p start = .ok p') :
    Keeps p p' (hd1 start) [] :=
  ⟨good_freeChainFrom h, fun _ _ X n => by simpa using nsh_freeChain _ h n⟩

theorem keeps_freeChainAfter {p p' : P} {id : Nat} (h : freeChainAfter p id = .ok p') (a : List Nat) :
    Keeps p p' a a :=
  ⟨good_freeChainAfter h, fun _ _ X n => nsh_freeChainAfter h n⟩

/-! ## regular chains -/

/-- the head of a chain given by its sector list -/
def hdl (ids : List Nat) : List Nat := ids.head?.toList

theorem hdl_append {ids : List Nat} (hne : ids ≠ []) (t : List Nat) : hdl (ids ++ t) = hdl ids := by
  cases ids with
  | nil => exact absurd rfl hne
  | cons a l => rfl

theorem keeps_growOne {kind : Init} {p p' : P} {ids ids' : List Nat} (h : growOne kind p ids = .ok (p', ids')) :
    Keeps p p' (hdl ids) (hdl ids') ∧ SF p p' := by
  unfold growOne at h
  split at h
  · rename_i last hl
    have hne : ids ≠ [] := by intro he; subst he; simp at hl
    split at h
    · rename_i p1 id he
      cases h
      rw [hdl_append hne]
      exact ⟨keeps_extendChain he _, sf_extendChain he⟩
    · cases h
    · cases h
    · cases h
  · rename_i hl
    have he0 : ids = [] := List.getLast?_eq_none_iff.mp hl
    subst he0
    split at h
    · rename_i p1 id he
      cases h
      exact ⟨by simpa [hdl] using keeps_allocateSector he, sf_allocateSector he⟩
    · cases h
    · cases h
    · cases h

theorem keeps_chainWrite (kind : Init) (fuel : Nat) : ∀ {p p' : P} {ids ids' : List Nat} {off : Nat} {bs : Bytes},
    chainWrite kind fuel p ids off bs = .ok (p', ids') → Keeps p p' (hdl ids) (hdl ids') ∧ SF p p' := by
  induction fuel with
  | zero => intro p p' ids ids' off bs h; simp [chainWrite] at h
  | succ fuel ih =>
    intro p p' ids ids' off bs h
    unfold chainWrite at h
    split at h
    · cases h; exact ⟨Keeps.refl _ _, SF.refl _⟩
    · dsimp only at h
      split at h
      · rename_i p1 ids1 hgrow
        have g1 : Keeps p p1 (hdl ids) (hdl ids1) ∧ SF p p1 := by
          split at hgrow
          · exact keeps_growOne hgrow
          · cases hgrow; exact ⟨Keeps.refl _ _, SF.refl _⟩
        split at h
        · cases h
        · split at h
          · rename_i p2 hw
            have r := ih h
            exact ⟨(g1.1.trans (Keeps.of_same (writeSector_same hw) _)).trans r.1, (g1.2.trans (sf_writeSector hw)).trans r.2⟩
          · cases h
          · cases h
          · cases h
      · cases h
      · cases h
      · cases h

theorem keeps_chainGrow (kind : Init) (fuel : Nat) : ∀ {p p' : P} {ids ids' : List Nat} {target : Nat},
    chainGrow kind fuel p ids target = .ok (p', ids') → Keeps p p' (hdl ids) (hdl ids') ∧ SF p p' := by
  induction fuel with
  | zero => intro p p' ids ids' target h; simp [chainGrow] at h
  | succ fuel ih =>
    intro p p' ids ids' target h
    unfold chainGrow at h
    split at h
    · cases h; exact ⟨Keeps.refl _ _, SF.refl _⟩
    · split at h
      · rename_i p1 ids1 hg
        have g := keeps_growOne hg
        have r := ih h
        exact ⟨g.1.trans r.1, g.2.trans r.2⟩
      · cases h
      · cases h
      · cases h

theorem S_pos (p : P) : 0 < p.S := by
  unfold P.S sectorLenOf
  split <;> decide

/-- `Chain::set_len` to a non-zero length: the chain keeps its head (or gets one) -/
theorem keeps_chainSetLen {p p' : P} {ids ids' : List Nat} {kind : Init} {n : Nat} (hn : 0 < n)
    (h : chainSetLen p ids kind n = .ok (p', ids')) : Keeps p p' (hdl ids) (hdl ids') ∧ SF p p' := by
  unfold chainSetLen at h
  dsimp only at h
  have hpos : (p.S + n - 1) / p.S ≠ 0 := by
    have hS := S_pos p
    intro he
    have := (Nat.div_eq_zero_iff).mp he
    omega
  rw [if_neg hpos] at h
  split at h
  · split at h
    · split at h
      · obtain ⟨q, hf, h⟩ := obind_ok h
        cases h; exact ⟨keeps_freeChainAfter hf _, sf_freeChainAfter hf⟩
      · cases h
    · cases h; exact ⟨Keeps.refl _ _, SF.refl _⟩
  · exact keeps_chainGrow _ _ h

end CfbVerif.Phys

/-! ## the mini level: only the two container chains (MiniFAT, mini stream) touch the FAT -/
namespace CfbVerif.Phys
open CfbVerif.Raw

/-- heads of the chains that belong to the file itself: directory, MiniFAT, mini stream -/
def cont (p : P) : List Nat := p.dirStart :: (hd1 p.miniFatStart ++ hd1 p.rootStart)

structure KK (p p' : P) : Prop where
  k : Keeps p p' (cont p) (cont p')
  starts : p'.starts = p.starts

theorem KK.refl (p : P) : KK p p := ⟨Keeps.refl _ _, rfl⟩
theorem KK.trans {p q r : P} (h1 : KK p q) (h2 : KK q r) : KK p r := ⟨h1.k.trans h2.k, h2.starts.trans h1.starts⟩

theorem cont_of_sf {p q : P} (h : SF p q) : cont q = cont p := by
  unfold cont; rw [h.1, h.2.1, h.2.2.1]

theorem KK.of_same {p q : P} (h : SameAlloc p q) (s : SF p q) : KK p q :=
  ⟨by rw [cont_of_sf s]; exact Keeps.of_same h _, s.2.2.2⟩

theorem KK.of_keeps {p q : P} (h : ∀ a, Keeps p q a a) (s : SF p q) : KK p q :=
  ⟨by rw [cont_of_sf s]; exact h _, s.2.2.2⟩

theorem sf_setMiniFat {p p' : P} {i v : Nat} (h : setMiniFat p i v = .ok p') : SF p p' := by
  have := (setMiniFat_ok h).1
  rw [this]; exact ⟨rfl, rfl, rfl, rfl⟩

theorem sf_popFreeMini {p p1 : P} {fuel : Nat} {r : Option Nat} (h : popFreeMini p fuel = .ok (p1, r)) : SF p p1 := by
  have := (popFreeMini_ok fuel h).1
  rw [this]; exact ⟨rfl, rfl, rfl, rfl⟩

theorem hd1_reg {id : Nat} (h : id ≤ MAXREG) : hd1 id = [id] := by
  unfold hd1; rw [if_neg]; have := MAXREG_lt_END; omega

theorem kk_ensureRootRoom {p p' : P} (h : ensureRootRoom p = .ok p') : KK p p' := by
  unfold ensureRootRoom at h
  split at h
  · rename_i hend
    split at h
    · rename_i p1 id ha
      cases h
      have sf := sf_allocateSector ha
      refine ⟨⟨(good_allocateSector ha).trans (Good.of_same ⟨rfl, rfl, rfl, rfl⟩), ?_⟩, sf.2.2.2⟩
      intro hb inv X n
      have n1 := nsh_allocateSector inv ha hb n
      have hreg : id ≤ MAXREG := n1.head_reg (List.mem_cons_self ..)
      have hc : cont { p1 with rootStart := id } ++ X = (p.dirStart :: hd1 p.miniFatStart) ++ id :: X := by
        simp [cont, sf.1, sf.2.1, hd1_reg hreg]
      have hc0 : cont p ++ X = (p.dirStart :: hd1 p.miniFatStart) ++ X := by
        simp [cont, hend, hd1]
      rw [hc]
      rw [hc0] at n1
      exact n1.perm List.perm_middle.symm
    · cases h
    · cases h
    · cases h
  · split at h
    · split at h
      · split at h
        · split at h
          · rename_i he; cases h
            exact KK.of_keeps (keeps_extendChain he) (sf_extendChain he)
          · cases h
          · cases h
          · cases h
        · cases h; exact KK.refl _
      · cases h
      · cases h
      · cases h
    · cases h; exact KK.refl _

theorem kk_appendMiniSector {p p' : P} (h : appendMiniSector p = .ok p') : KK p p' := by
  unfold appendMiniSector at h
  split at h
  · rename_i hr; cases h
    exact (kk_ensureRootRoom hr).trans (KK.of_same ⟨rfl, rfl, rfl, rfl⟩ ⟨rfl, rfl, rfl, rfl⟩)
  · cases h
  · cases h
  · cases h

theorem kk_ensureMiniFatRoom {p p' : P} (h : ensureMiniFatRoom p = .ok p') : KK p p' := by
  unfold ensureMiniFatRoom at h
  dsimp only at h
  split at h
  · rename_i hend
    split at h
    · rename_i p1 id ha
      cases h
      have sf := sf_allocateSector ha
      refine ⟨⟨(good_allocateSector ha).trans (Good.of_same ⟨rfl, rfl, rfl, rfl⟩), ?_⟩, sf.2.2.2⟩
      intro hb inv X n
      have n1 := nsh_allocateSector inv ha hb n
      have hreg : id ≤ MAXREG := n1.head_reg (List.mem_cons_self ..)
      have hc : cont { p1 with miniFatStart := id } ++ X = [p.dirStart] ++ id :: (hd1 p.rootStart ++ X) := by
        simp [cont, sf.1, sf.2.2.1, hd1_reg hreg]
      have hc0 : cont p ++ X = [p.dirStart] ++ (hd1 p.rootStart ++ X) := by
        simp [cont, hend, hd1]
      rw [hc]
      rw [hc0] at n1
      exact n1.perm List.perm_middle.symm
    · cases h
    · cases h
    · cases h
  · split at h
    · split at h
      · split at h
        · split at h
          · rename_i he; cases h
            exact KK.of_keeps (keeps_extendChain he) (sf_extendChain he)
          · cases h
          · cases h
          · cases h
        · cases h; exact KK.refl _
      · cases h
      · cases h
      · cases h
    · cases h; exact KK.refl _

theorem kk_setMiniFat {p p' : P} {i v : Nat} (h : setMiniFat p i v = .ok p') : KK p p' :=
  KK.of_same (same_setMiniFat h) (sf_setMiniFat h)

theorem kk_allocateMiniSector {p p' : P} {v id : Nat} (h : allocateMiniSector p v = .ok (p', id)) : KK p p' := by
  unfold allocateMiniSector at h
  obtain ⟨⟨p1, reuse⟩, hp, h⟩ := bind_ok h
  have g0 : KK p p1 := KK.of_same (same_popFreeMini hp) (sf_popFreeMini hp)
  dsimp only at h
  split at h
  · obtain ⟨p2, hs, h⟩ := bind_ok h
    cases h
    exact g0.trans (kk_setMiniFat hs)
  · obtain ⟨p2, h2, h⟩ := bind_ok h
    obtain ⟨p3, h3, h⟩ := bind_ok h
    obtain ⟨p4, h4, h⟩ := bind_ok h
    cases h
    exact ((g0.trans (kk_ensureMiniFatRoom h2)).trans (kk_appendMiniSector h3)).trans (kk_setMiniFat h4)

theorem kk_extendMiniChain {p p' : P} {start id : Nat} (h : extendMiniChain p start = .ok (p', id)) : KK p p' := by
  unfold extendMiniChain at h
  obtain ⟨last, hl, h⟩ := bind_ok h
  obtain ⟨⟨p1, i1⟩, ha, h⟩ := bind_ok h
  obtain ⟨p2, hs, h⟩ := bind_ok h
  cases h
  exact (kk_allocateMiniSector ha).trans (kk_setMiniFat hs)

theorem sf_freeMiniSector {p p' : P} {id : Nat} (h : freeMiniSector p id = .ok p') : SF p p' := by
  unfold freeMiniSector at h
  split at h
  · cases h
  · split at h
    · cases h
    · obtain ⟨p1, hs, h⟩ := bind_ok h
      cases h
      have := sf_setMiniFat hs
      exact ⟨this.1, this.2.1, this.2.2.1, this.2.2.2⟩

theorem kk_freeMiniChain (fuel : Nat) : ∀ {p p' : P} {cur : Nat}, freeMiniChain p fuel cur = .ok p' → KK p p' := by
  induction fuel with
  | zero => intro p p' cur h; simp [freeMiniChain] at h
  | succ fuel ih =>
    intro p p' cur h
    unfold freeMiniChain at h
    split at h
    · cases h; exact KK.refl _
    · split at h
      · cases h
      · split at h
        · rename_i p1 hf
          exact (KK.of_same (same_freeMiniSector hf) (sf_freeMiniSector hf)).trans (ih h)
        · cases h
        · cases h
        · cases h

theorem kk_freeMiniChainFrom {p p' : P} {start : Nat} (h : freeMiniChainFrom p start = .ok p') : KK p p' :=
  kk_freeMiniChain _ h

theorem kk_freeMiniChainAfter {p p' : P} {id : Nat} (h : freeMiniChainAfter p id = .ok p') : KK p p' := by
  unfold freeMiniChainAfter at h
  split at h
  · cases h
  · obtain ⟨p1, hs, h⟩ := bind_ok h
    exact (kk_setMiniFat hs).trans (kk_freeMiniChain _ h)

theorem kk_miniWriteAt {p p' : P} {m off : Nat} {bs : Bytes} (h : miniWriteAt p m off bs = .ok p') : KK p p' := by
  unfold miniWriteAt at h
  obtain ⟨⟨sid, base⟩, hl, h⟩ := bind_ok h
  exact KK.of_same (writeSector_same h) (sf_writeSector h)

theorem kk_growOneMini {p p' : P} {ids ids' : List Nat} (h : growOneMini p ids = .ok (p', ids')) : KK p p' := by
  unfold growOneMini at h
  split at h
  · split at h
    · rename_i he; cases h; exact kk_extendMiniChain he
    · cases h
    · cases h
    · cases h
  · split at h
    · rename_i he; cases h; exact kk_allocateMiniSector he
    · cases h
    · cases h
    · cases h

theorem kk_miniChainWrite (fuel : Nat) : ∀ {p p' : P} {ids ids' : List Nat} {off : Nat} {bs : Bytes},
    miniChainWrite fuel p ids off bs = .ok (p', ids') → KK p p' := by
  induction fuel with
  | zero => intro p p' ids ids' off bs h; simp [miniChainWrite] at h
  | succ fuel ih =>
    intro p p' ids ids' off bs h
    unfold miniChainWrite at h
    split at h
    · cases h; exact KK.refl _
    · split at h
      · rename_i p1 ids1 hgrow
        have g1 : KK p p1 := by
          split at hgrow
          · exact kk_growOneMini hgrow
          · cases hgrow; exact KK.refl _
        split at h
        · cases h
        · dsimp only at h
          split at h
          · rename_i p2 hw
            exact (g1.trans (kk_miniWriteAt hw)).trans (ih h)
          · cases h
          · cases h
          · cases h
      · cases h
      · cases h
      · cases h

theorem kk_miniChainGrow (fuel : Nat) : ∀ {p p' : P} {ids ids' : List Nat} {target : Nat},
    miniChainGrow fuel p ids target = .ok (p', ids') → KK p p' := by
  induction fuel with
  | zero => intro p p' ids ids' target h; simp [miniChainGrow] at h
  | succ fuel ih =>
    intro p p' ids ids' target h
    unfold miniChainGrow at h
    split at h
    · cases h; exact KK.refl _
    · split at h
      · rename_i p1 ids1 hg
        split at h
        · rename_i p2 hw
          exact ((kk_growOneMini hg).trans (kk_miniWriteAt hw)).trans (ih h)
        · cases h
        · cases h
        · cases h
      · cases h
      · cases h
      · cases h

theorem kk_miniChainSetLen {p p' : P} {ids ids' : List Nat} {n : Nat}
    (h : miniChainSetLen p ids n = .ok (p', ids')) : KK p p' := by
  unfold miniChainSetLen at h
  dsimp only at h
  split at h
  · split at h
    · obtain ⟨q, hf, h⟩ := obind_ok h
      cases h; exact kk_freeMiniChain _ hf
    · cases h; exact KK.refl _
  · split at h
    · split at h
      · split at h
        · obtain ⟨q, hf, h⟩ := obind_ok h
          cases h; exact kk_freeMiniChainAfter hf
        · cases h
      · cases h; exact KK.refl _
    · exact kk_miniChainGrow _ h

end CfbVerif.Phys

/-! ## streams: which start sectors are heads is decided by the stream lengths -/
namespace CfbVerif.Phys
open CfbVerif.Raw

theorem NSH.sublist {fat : Array Nat} {hs hs' : List Nat} (n : NSH fat hs) (h : hs'.Sublist hs) : NSH fat hs' :=
  n.sub (n.nodup.sublist h) (fun _ hx => h.subset hx)

/-- `L` gives every directory slot the (flushed) length of its stream: a stream of at least
`CUTOFF` bytes lives in a regular chain, whose first sector is a head -/
def isRegStart (L : Nat → Nat) (e : Nat × Nat) : Bool := decide (CUTOFF ≤ L e.1) && (e.2 != END)

def regs (starts : List (Nat × Nat)) (L : Nat → Nat) : List Nat := (starts.filter (isRegStart L)).map (·.2)

def heads (p : P) (L : Nat → Nat) : List Nat := cont p ++ regs p.starts L

def startIn (starts : List (Nat × Nat)) (s : Nat) : Nat := ((starts.find? (·.1 == s)).map (·.2)).getD END

theorem startOf_eq (p : P) (s : Nat) : startOf p s = startIn p.starts s := rfl

def ownOf (starts : List (Nat × Nat)) (L : Nat → Nat) (s : Nat) : List Nat :=
  if CUTOFF ≤ L s ∧ startIn starts s ≠ END then [startIn starts s] else []

def others (starts : List (Nat × Nat)) (s : Nat) : List (Nat × Nat) := starts.filter (·.1 != s)

theorem filter_key_eq {starts : List (Nat × Nat)} {s : Nat} (hk : (starts.map (·.1)).Nodup) :
    starts.filter (·.1 == s) = (starts.find? (·.1 == s)).toList := by
  induction starts with
  | nil => rfl
  | cons e t ih =>
    have hk' : e.1 ∉ t.map (·.1) ∧ (t.map (·.1)).Nodup := List.nodup_cons.mp hk
    by_cases he : e.1 = s
    · have hnone : t.filter (·.1 == s) = [] := by
        apply List.filter_eq_nil_iff.mpr
        intro x hx hxs
        have : x.1 = s := by simpa using hxs
        apply hk'.1
        rw [he, ← this]
        exact List.mem_map_of_mem (f := (·.1)) hx
      simp [List.filter_cons, List.find?_cons, he, hnone]
    · have hb : (e.1 == s) = false := by simpa using he
      simp only [List.filter_cons, List.find?_cons, hb]
      exact ih hk'.2

theorem regs_split (starts : List (Nat × Nat)) (L : Nat → Nat) (s : Nat) (hk : (starts.map (·.1)).Nodup) :
    (regs starts L).Perm (ownOf starts L s ++ regs (others starts s) L) := by
  have hp : starts.Perm (starts.filter (·.1 == s) ++ others starts s) := by
    have := List.filter_append_perm (fun e : Nat × Nat => e.1 == s) starts
    unfold others
    have hneg : (fun e : Nat × Nat => !(e.1 == s)) = (fun e : Nat × Nat => e.1 != s) := by
      funext e; rfl
    rw [hneg] at this
    exact this.symm
  have h1 : (regs starts L).Perm (regs (starts.filter (·.1 == s) ++ others starts s) L) := by
    unfold regs
    exact (hp.filter _).map _
  have h2 : regs (starts.filter (·.1 == s) ++ others starts s) L =
      regs (starts.filter (·.1 == s)) L ++ regs (others starts s) L := by
    unfold regs; rw [List.filter_append, List.map_append]
  have h3 : regs (starts.filter (·.1 == s)) L = ownOf starts L s := by
    rw [filter_key_eq hk]
    unfold ownOf startIn regs
    cases hf : starts.find? (·.1 == s) with
    | none => simp
    | some e =>
      have hes : e.1 = s := by
        have := List.find?_some hf; simpa using this
      simp only [Option.toList, Option.map, Option.getD, List.filter_cons, List.filter_nil, isRegStart, hes]
      by_cases h1 : CUTOFF ≤ L s
      · by_cases h2 : e.2 = END
        · simp [h1, h2]
        · simp [h1, h2]
      · simp [h1]
  rw [h2, h3] at h1
  exact h1

theorem regs_others_congr (starts : List (Nat × Nat)) {L L' : Nat → Nat} {s : Nat}
    (hL : ∀ t, t ≠ s → L' t = L t) : regs (others starts s) L' = regs (others starts s) L := by
  unfold regs others
  congr 1
  rw [List.filter_filter, List.filter_filter]
  apply List.filter_congr
  intro e _
  by_cases he : e.1 = s
  · simp [he]
  · simp [isRegStart, hL e.1 he]

structure JJ (p : P) (L : Nat → Nat) : Prop where
  inv : Inv p
  ns : NSH p.fat (heads p L)
  keys : (p.starts.map (·.1)).Nodup

/-- the common shape of every stream-level step on slot `s` -/
theorem jj_step {p p' : P} {L L' : Nat → Nat} {s : Nat} {b : List Nat} (j : JJ p L)
    (hL : ∀ t, t ≠ s → L' t = L t)
    (hk : Keeps p p' (cont p ++ ownOf p.starts L s) (cont p' ++ b))
    (hsub : (ownOf p'.starts L' s).Sublist b)
    (ho : others p'.starts s = others p.starts s)
    (hkeys : (p'.starts.map (·.1)).Nodup)
    (hb : p'.fat.size ≤ MAXREG + 1) : JJ p' L' := by
  have hbp : p.fat.size ≤ MAXREG + 1 := Nat.le_trans hk.good.mono hb
  refine ⟨hk.good.inv j.inv (small_of_bound hb), ?_, hkeys⟩
  have n0 : NSH p.fat ((cont p ++ ownOf p.starts L s) ++ regs (others p.starts s) L) := by
    refine j.ns.perm ?_
    unfold heads
    rw [List.append_assoc]
    exact (regs_split p.starts L s j.keys).append_left _
  have n1 := hk.keep hb j.inv _ n0
  have n2 : NSH p'.fat ((cont p' ++ ownOf p'.starts L' s) ++ regs (others p'.starts s) L') := by
    rw [ho, regs_others_congr _ hL]
    refine n1.sublist ?_
    exact ((List.Sublist.refl _).append hsub).append (List.Sublist.refl _)
  refine n2.perm ?_
  unfold heads
  rw [List.append_assoc]
  exact ((regs_split p'.starts L' s hkeys).append_left _).symm

end CfbVerif.Phys

/-! ## chains keep their first sector; a chain read from the FAT begins at its start sector -/
namespace CfbVerif.Phys
open CfbVerif.Raw

theorem growOne_prefix {kind : Init} {p p' : P} {ids ids' : List Nat} (h : growOne kind p ids = .ok (p', ids')) :
    ∃ t, ids' = ids ++ t := by
  unfold growOne at h
  split at h
  · split at h
    · cases h; exact ⟨_, rfl⟩
    · cases h
    · cases h
    · cases h
  · split at h
    · cases h; exact ⟨_, rfl⟩
    · cases h
    · cases h
    · cases h

theorem chainWrite_prefix (kind : Init) (fuel : Nat) : ∀ {p p' : P} {ids ids' : List Nat} {off : Nat} {bs : Bytes},
    chainWrite kind fuel p ids off bs = .ok (p', ids') → ∃ t, ids' = ids ++ t := by
  induction fuel with
  | zero => intro p p' ids ids' off bs h; simp [chainWrite] at h
  | succ fuel ih =>
    intro p p' ids ids' off bs h
    unfold chainWrite at h
    split at h
    · cases h; exact ⟨[], by simp⟩
    · dsimp only at h
      split at h
      · rename_i p1 ids1 hgrow
        have g1 : ∃ t, ids1 = ids ++ t := by
          split at hgrow
          · exact growOne_prefix hgrow
          · cases hgrow; exact ⟨[], by simp⟩
        split at h
        · cases h
        · split at h
          · obtain ⟨t1, e1⟩ := g1
            obtain ⟨t2, e2⟩ := ih h
            exact ⟨t1 ++ t2, by rw [e2, e1, List.append_assoc]⟩
          · cases h
          · cases h
          · cases h
      · cases h
      · cases h
      · cases h

theorem chainGrow_prefix (kind : Init) (fuel : Nat) : ∀ {p p' : P} {ids ids' : List Nat} {target : Nat},
    chainGrow kind fuel p ids target = .ok (p', ids') → ∃ t, ids' = ids ++ t := by
  induction fuel with
  | zero => intro p p' ids ids' target h; simp [chainGrow] at h
  | succ fuel ih =>
    intro p p' ids ids' target h
    unfold chainGrow at h
    split at h
    · cases h; exact ⟨[], by simp⟩
    · split at h
      · rename_i p1 ids1 hg
        obtain ⟨t1, e1⟩ := growOne_prefix hg
        obtain ⟨t2, e2⟩ := ih h
        exact ⟨t1 ++ t2, by rw [e2, e1, List.append_assoc]⟩
      · cases h
      · cases h
      · cases h

theorem chainSetLen_prefix {p p' : P} {ids ids' : List Nat} {kind : Init} {n : Nat}
    (h : chainSetLen p ids kind n = .ok (p', ids')) : ∃ t, ids' = ids ++ t := by
  unfold chainSetLen at h
  dsimp only at h
  split at h
  · split at h
    · obtain ⟨q, hf, h⟩ := obind_ok h
      cases h; exact ⟨[], by simp⟩
    · cases h; exact ⟨[], by simp⟩
  · split at h
    · split at h
      · split at h
        · obtain ⟨q, hf, h⟩ := obind_ok h
          cases h; exact ⟨[], by simp⟩
        · cases h
      · cases h; exact ⟨[], by simp⟩
    · exact chainGrow_prefix _ _ h

theorem hdl_of_prefix {ids ids' : List Nat} (hne : ids ≠ []) (h : ∃ t, ids' = ids ++ t) : hdl ids' = hdl ids := by
  obtain ⟨t, e⟩ := h
  rw [e, hdl_append hne]

theorem chainLoop_head (fat : Array Nat) (first : Nat) (fuel : Nat) : ∀ {cur : Nat} {acc ids : List Nat},
    chainLoop fat first fuel cur acc = .ok ids → ∃ t, ids = acc.reverse ++ t ∧ (cur ≠ END → t.head? = some cur) := by
  induction fuel with
  | zero => intro cur acc ids h; simp [chainLoop] at h
  | succ fuel ih =>
    intro cur acc ids h
    unfold chainLoop at h
    split at h
    · rename_i he
      cases h
      exact ⟨[], by simp, fun hne => absurd he hne⟩
    · split at h
      · split at h
        · cases h
        · obtain ⟨t, e, _⟩ := ih h
          refine ⟨cur :: t, by rw [e]; simp, fun _ => rfl⟩
      · cases h

/-- the sector list of the chain starting at `start` begins with `start` -/
theorem chainIds_head {p : P} {start : Nat} {ids : List Nat} (h : chainIds p start = .ok ids) (hne : start ≠ END) :
    hdl ids = [start] := by
  unfold chainIds chainFrom at h
  obtain ⟨t, e, ht⟩ := chainLoop_head _ _ _ h
  simp only [List.reverse_nil, List.nil_append] at e
  subst e
  unfold hdl
  rw [ht hne]; rfl

end CfbVerif.Phys

/-! ## the stream operations -/
namespace CfbVerif.Phys
open CfbVerif.Raw

def upd (L : Nat → Nat) (s v : Nat) : Nat → Nat := fun t => if t = s then v else L t

theorem upd_other (L : Nat → Nat) (s v : Nat) : ∀ t, t ≠ s → upd L s v t = L t := by
  intro t ht; simp [upd, ht]

theorem upd_self (L : Nat → Nat) (s v : Nat) : upd L s v s = v := by simp [upd]

theorem startIn_setStart (p : P) (s st : Nat) : startIn (setStart p s st).starts s = st := by
  simp [startIn, setStart]

theorem others_idem (starts : List (Nat × Nat)) (s : Nat) : others (others starts s) s = others starts s := by
  unfold others; rw [List.filter_filter]; congr 1; funext e; simp

theorem others_setStart (p : P) (s st : Nat) : others (setStart p s st).starts s = others p.starts s := by
  show others ((s, st) :: others p.starts s) s = others p.starts s
  unfold others
  rw [List.filter_cons]
  simp only [bne_self_eq_false, Bool.false_eq_true, ↓reduceIte]
  exact others_idem p.starts s

theorem keys_others {starts : List (Nat × Nat)} (s : Nat) (hk : (starts.map (·.1)).Nodup) :
    ((others starts s).map (·.1)).Nodup ∧ s ∉ (others starts s).map (·.1) := by
  refine ⟨hk.sublist ((List.filter_sublist).map _), ?_⟩
  intro hm
  obtain ⟨e, he, hes⟩ := List.mem_map.mp hm
  have := (List.mem_filter.mp he).2
  simp [hes] at this

theorem keys_setStart {p : P} (s st : Nat) (hk : (p.starts.map (·.1)).Nodup) :
    ((setStart p s st).starts.map (·.1)).Nodup := by
  have := keys_others s hk
  show (((s, st) :: others p.starts s).map (·.1)).Nodup
  rw [List.map_cons]
  exact List.nodup_cons.mpr ⟨this.2, this.1⟩

theorem ownOf_sublist_hd1 (starts : List (Nat × Nat)) (L : Nat → Nat) (s : Nat) :
    (ownOf starts L s).Sublist (hd1 (startIn starts s)) := by
  unfold ownOf hd1
  by_cases h1 : CUTOFF ≤ L s <;> by_cases h2 : startIn starts s = END <;> simp [h1, h2]

theorem hd1_head_sublist (ids : List Nat) : (hd1 (ids.head?.getD END)).Sublist (hdl ids) := by
  cases ids with
  | nil => simp [hd1, hdl]
  | cons a r =>
    simp only [List.head?_cons, Option.getD_some, hdl, Option.toList]
    unfold hd1
    split
    · exact List.nil_sublist _
    · exact List.Sublist.refl _

/-- the new owner list of slot `s` after `setStart … (ids.head?.getD END)` sits inside the head of `ids` -/
theorem ownOf_setStart_sublist (p : P) (L : Nat → Nat) (s : Nat) (ids : List Nat) :
    (ownOf (setStart p s (ids.head?.getD END)).starts L s).Sublist (hdl ids) := by
  have h1 := ownOf_sublist_hd1 (setStart p s (ids.head?.getD END)).starts L s
  rw [startIn_setStart] at h1
  exact h1.trans (hd1_head_sublist ids)

theorem ownOf_small (starts : List (Nat × Nat)) {L : Nat → Nat} {s : Nat} (h : L s < CUTOFF) : ownOf starts L s = [] := by
  unfold ownOf; rw [if_neg]; intro hc; omega

theorem ownOf_noStart {starts : List (Nat × Nat)} (L : Nat → Nat) {s : Nat} (h : startIn starts s = END) :
    ownOf starts L s = [] := by
  unfold ownOf; rw [if_neg]; intro hc; exact hc.2 h

theorem ownOf_reg {starts : List (Nat × Nat)} {L : Nat → Nat} {s : Nat} (h1 : CUTOFF ≤ L s) (h2 : startIn starts s ≠ END) :
    ownOf starts L s = [startIn starts s] := by
  unfold ownOf; rw [if_pos ⟨h1, h2⟩]

theorem cont_setStart (p : P) (s st : Nat) : cont (setStart p s st) = cont p := rfl

/-- a `KK` step followed by `setStart`, as a `Keeps` in the shape `jj_step` wants -/
theorem keeps_kk_setStart {p q : P} (k : KK p q) (s st : Nat) :
    Keeps p (setStart q s st) (cont p ++ []) (cont (setStart q s st) ++ []) := by
  rw [List.append_nil, List.append_nil, cont_setStart]
  exact k.k.trans (Keeps.of_same (same_setStart _ _ _) _)

theorem jj_writeData {p p' : P} {L : Nat → Nat} {slot off n : Nat} {buf : Bytes}
    (h : writeData p slot (L slot) off buf = .ok (p', n)) (j : JJ p L) (hb : p'.fat.size ≤ MAXREG + 1) :
    JJ p' (upd L slot n) := by
  unfold writeData at h
  dsimp only [bind, pure] at h
  split at h
  · rename_i hend
    have hown : ownOf p.starts L slot = [] := ownOf_noStart L hend
    split at h
    · cases h
    · split at h
      · rename_i hsmall
        obtain ⟨⟨q, ids⟩, hw, h⟩ := obind_ok h
        cases h
        have kk := kk_miniChainWrite _ hw
        refine jj_step (b := []) j (upd_other _ _ _) (by rw [hown]; exact keeps_kk_setStart kk _ _) ?_ ?_ ?_ hb
        · rw [ownOf_small _ (by rw [upd_self]; exact hsmall)]; exact List.Sublist.refl _
        · rw [others_setStart, kk.starts]
        · exact keys_setStart _ _ (by rw [kk.starts]; exact j.keys)
      · obtain ⟨⟨q, ids⟩, hw, h⟩ := obind_ok h
        cases h
        have k := keeps_chainWrite _ _ hw
        refine jj_step (b := hdl ids) j (upd_other _ _ _) ?_ (ownOf_setStart_sublist _ _ _ _) ?_ ?_ hb
        · rw [hown, cont_setStart, cont_of_sf k.2]
          have := (k.1.frame (cont p)).trans (Keeps.of_same (same_setStart q slot (ids.head?.getD END)) _)
          simpa [hdl] using this
        · rw [others_setStart, k.2.2.2.2]
        · exact keys_setStart _ _ (by rw [k.2.2.2.2]; exact j.keys)
  · rename_i hstart
    split at h
    · rename_i hsmallOld
      have hown : ownOf p.starts L slot = [] := ownOf_small _ hsmallOld
      split at h
      · rename_i hsmall
        obtain ⟨ids, hi, h⟩ := obind_ok h
        split at h
        · cases h
        · obtain ⟨⟨q, ids'⟩, hw, h⟩ := obind_ok h
          cases h
          have kk := kk_miniChainWrite _ hw
          refine jj_step (b := []) j (upd_other _ _ _) (by rw [hown]; simpa using kk.k) ?_ ?_ ?_ hb
          · rw [ownOf_small _ (by rw [upd_self]; exact hsmall)]; exact List.Sublist.refl _
          · rw [kk.starts]
          · rw [kk.starts]; exact j.keys
      · obtain ⟨ids, hi, h⟩ := obind_ok h
        obtain ⟨tmp, hr, h⟩ := obind_ok h
        obtain ⟨q1, hf, h⟩ := obind_ok h
        obtain ⟨⟨q2, ids1⟩, hw1, h⟩ := obind_ok h
        obtain ⟨⟨q3, ids2⟩, hw2, h⟩ := obind_ok h
        cases h
        have kk := kk_freeMiniChainFrom hf
        have k1 := keeps_chainWrite _ _ hw1
        have k2 := keeps_chainWrite _ _ hw2
        refine jj_step (b := hdl ids2) j (upd_other _ _ _) ?_ (ownOf_setStart_sublist _ _ _ _) ?_ ?_ hb
        · rw [hown, cont_setStart, cont_of_sf k2.2, cont_of_sf k1.2]
          have e1 : Keeps p q1 (cont p ++ []) (cont q1 ++ []) := by simpa using kk.k
          have e2 : Keeps q1 q2 (cont q1 ++ []) (cont q1 ++ hdl ids1) := by simpa [hdl] using k1.1.frame (cont q1)
          have e3 := k2.1.frame (cont q1)
          exact ((e1.trans e2).trans e3).trans (Keeps.of_same (same_setStart q3 slot (ids2.head?.getD END)) _)
        · rw [others_setStart, k2.2.2.2.2, k1.2.2.2.2, kk.starts]
        · exact keys_setStart _ _ (by rw [k2.2.2.2.2, k1.2.2.2.2, kk.starts]; exact j.keys)
    · rename_i hbig
      obtain ⟨ids, hi, h⟩ := obind_ok h
      split at h
      · cases h
      · obtain ⟨⟨q, ids'⟩, hw, h⟩ := obind_ok h
        cases h
        have k := keeps_chainWrite _ _ hw
        have hhead : hdl ids = [startOf p slot] := chainIds_head hi hstart
        have hne : ids ≠ [] := by intro he; subst he; simp [hdl] at hhead
        have hhead' : hdl ids' = [startOf p slot] := by rw [hdl_of_prefix hne (chainWrite_prefix _ _ hw)]; exact hhead
        have hown : ownOf p.starts L slot = [startOf p slot] := ownOf_reg (Nat.le_of_not_lt hbig) hstart
        refine jj_step (b := [startOf p slot]) j (upd_other _ _ _) ?_ ?_ ?_ ?_ hb
        · rw [hown, cont_of_sf k.2]
          have := k.1.frame (cont p)
          rw [hhead, hhead'] at this
          exact this
        · rw [k.2.2.2.2]
          have := ownOf_sublist_hd1 p.starts (upd L slot (max (L slot) (off + buf.length))) slot
          refine this.trans ?_
          have hs' : ¬ startIn p.starts slot = END := hstart
          unfold hd1; rw [if_neg hs']
          exact List.Sublist.refl _
        · rw [k.2.2.2.2]
        · rw [k.2.2.2.2]; exact j.keys

end CfbVerif.Phys

namespace CfbVerif.Phys
open CfbVerif.Raw

theorem CUTOFF_pos : 0 < CUTOFF := by decide

theorem jj_resize {p p' : P} {L : Nat → Nat} {slot newLen : Nat}
    (h : resize p slot (L slot) newLen = .ok p') (j : JJ p L) (hb : p'.fat.size ≤ MAXREG + 1) :
    JJ p' (upd L slot newLen) := by
  unfold resize at h
  dsimp only [bind, pure] at h
  split at h
  · rename_i hend
    have hown : ownOf p.starts L slot = [] := ownOf_noStart L hend
    split at h
    · cases h
    · split at h
      · rename_i hsmall
        obtain ⟨⟨q, ids⟩, hw, h⟩ := obind_ok h
        cases h
        have kk := kk_miniChainSetLen hw
        refine jj_step (b := []) j (upd_other _ _ _) (by rw [hown]; exact keeps_kk_setStart kk _ _) ?_ ?_ ?_ hb
        · rw [ownOf_small _ (by rw [upd_self]; exact hsmall)]; exact List.Sublist.refl _
        · rw [others_setStart, kk.starts]
        · exact keys_setStart _ _ (by rw [kk.starts]; exact j.keys)
      · rename_i hbig
        obtain ⟨⟨q, ids⟩, hw, h⟩ := obind_ok h
        cases h
        have hpos : 0 < newLen := by have := CUTOFF_pos; omega
        have k := keeps_chainSetLen hpos hw
        refine jj_step (b := hdl ids) j (upd_other _ _ _) ?_ (ownOf_setStart_sublist _ _ _ _) ?_ ?_ hb
        · rw [hown, cont_setStart, cont_of_sf k.2]
          have := (k.1.frame (cont p)).trans (Keeps.of_same (same_setStart q slot (ids.head?.getD END)) _)
          simpa [hdl] using this
        · rw [others_setStart, k.2.2.2.2]
        · exact keys_setStart _ _ (by rw [k.2.2.2.2]; exact j.keys)
  · rename_i hstart
    split at h
    · rename_i hsmallOld
      have hown : ownOf p.starts L slot = [] := ownOf_small _ hsmallOld
      split at h
      · obtain ⟨q, hf, h⟩ := obind_ok h
        cases h
        have kk := kk_freeMiniChainFrom hf
        refine jj_step (b := []) j (upd_other _ _ _) (by rw [hown]; exact keeps_kk_setStart kk _ _) ?_ ?_ ?_ hb
        · rw [ownOf_noStart _ (startIn_setStart _ _ _)]; exact List.Sublist.refl _
        · rw [others_setStart, kk.starts]
        · exact keys_setStart _ _ (by rw [kk.starts]; exact j.keys)
      · split at h
        · rename_i hsmall
          obtain ⟨ids, hi, h⟩ := obind_ok h
          obtain ⟨⟨q, ids'⟩, hs, h⟩ := obind_ok h
          have kk1 := kk_miniChainSetLen hs
          have fin : ∀ {q2 : P}, KK p q2 → q2 = p' → JJ p' (upd L slot newLen) := by
            intro q2 kk e
            subst e
            refine jj_step (b := []) j (upd_other _ _ _) (by rw [hown]; simpa using kk.k) ?_ ?_ ?_ hb
            · rw [ownOf_small _ (by rw [upd_self]; exact hsmall)]; exact List.Sublist.refl _
            · rw [kk.starts]
            · rw [kk.starts]; exact j.keys
          split at h
          · split at h
            · cases h
            · obtain ⟨⟨q2, ids2⟩, hw, h⟩ := obind_ok h
              cases h
              exact fin (kk1.trans (kk_miniChainWrite _ hw)) rfl
          · cases h; exact fin kk1 rfl
        · rename_i hbig
          obtain ⟨ids, hi, h⟩ := obind_ok h
          obtain ⟨tmp, hr, h⟩ := obind_ok h
          obtain ⟨q1, hf, h⟩ := obind_ok h
          obtain ⟨⟨q2, ids1⟩, hw1, h⟩ := obind_ok h
          obtain ⟨⟨q3, ids2⟩, hs, h⟩ := obind_ok h
          cases h
          have hpos : 0 < newLen := by have := CUTOFF_pos; omega
          have kk := kk_freeMiniChainFrom hf
          have k1 := keeps_chainWrite _ _ hw1
          have k2 := keeps_chainSetLen hpos hs
          refine jj_step (b := hdl ids2) j (upd_other _ _ _) ?_ (ownOf_setStart_sublist _ _ _ _) ?_ ?_ hb
          · rw [hown, cont_setStart, cont_of_sf k2.2, cont_of_sf k1.2]
            have e1 : Keeps p q1 (cont p ++ []) (cont q1 ++ []) := by simpa using kk.k
            have e2 : Keeps q1 q2 (cont q1 ++ []) (cont q1 ++ hdl ids1) := by simpa [hdl] using k1.1.frame (cont q1)
            have e3 := k2.1.frame (cont q1)
            exact ((e1.trans e2).trans e3).trans (Keeps.of_same (same_setStart q3 slot (ids2.head?.getD END)) _)
          · rw [others_setStart, k2.2.2.2.2, k1.2.2.2.2, kk.starts]
          · exact keys_setStart _ _ (by rw [k2.2.2.2.2, k1.2.2.2.2, kk.starts]; exact j.keys)
    · rename_i hbigOld
      have hown : ownOf p.starts L slot = [startOf p slot] := ownOf_reg (Nat.le_of_not_lt hbigOld) hstart
      have hhd : hd1 (startOf p slot) = [startOf p slot] := by unfold hd1; rw [if_neg hstart]
      split at h
      · obtain ⟨q, hf, h⟩ := obind_ok h
        cases h
        have k := keeps_freeChainFrom hf
        have sf := sf_freeChain _ hf
        refine jj_step (b := []) j (upd_other _ _ _) ?_ ?_ ?_ ?_ hb
        · rw [hown, cont_setStart, cont_of_sf sf]
          have := (k.frame (cont p)).trans (Keeps.of_same (same_setStart q slot END) _)
          rw [hhd] at this
          exact this
        · rw [ownOf_noStart _ (startIn_setStart _ _ _)]; exact List.Sublist.refl _
        · rw [others_setStart, sf.2.2.2]
        · exact keys_setStart _ _ (by rw [sf.2.2.2]; exact j.keys)
      · split at h
        · rename_i hsmall
          obtain ⟨ids, hi, h⟩ := obind_ok h
          obtain ⟨tmp, hr, h⟩ := obind_ok h
          obtain ⟨q1, hf, h⟩ := obind_ok h
          obtain ⟨⟨q2, ids1⟩, hw, h⟩ := obind_ok h
          cases h
          have k := keeps_freeChainFrom hf
          have sf := sf_freeChain _ hf
          have kk := kk_miniChainWrite _ hw
          refine jj_step (b := []) j (upd_other _ _ _) ?_ ?_ ?_ ?_ hb
          · rw [hown, cont_setStart]
            have e1 := k.frame (cont p)
            rw [hhd, ← cont_of_sf sf] at e1
            have e2 : Keeps q1 q2 (cont q1 ++ []) (cont q2 ++ []) := by simpa using kk.k
            rw [← cont_of_sf sf]
            exact (e1.trans e2).trans (Keeps.of_same (same_setStart q2 slot (ids1.head?.getD END)) _)
          · rw [ownOf_small _ (by rw [upd_self]; exact hsmall)]; exact List.Sublist.refl _
          · rw [others_setStart, kk.starts, sf.2.2.2]
          · exact keys_setStart _ _ (by rw [kk.starts, sf.2.2.2]; exact j.keys)
        · rename_i hbig
          obtain ⟨ids, hi, h⟩ := obind_ok h
          obtain ⟨⟨q, ids'⟩, hs, h⟩ := obind_ok h
          have hpos : 0 < newLen := by have := CUTOFF_pos; omega
          have k1 := keeps_chainSetLen hpos hs
          have hhead : hdl ids = [startOf p slot] := chainIds_head hi hstart
          have hne : ids ≠ [] := by intro he; subst he; simp [hdl] at hhead
          have hhead' : hdl ids' = [startOf p slot] := by rw [hdl_of_prefix hne (chainSetLen_prefix hs)]; exact hhead
          have hne' : ids' ≠ [] := by intro he; subst he; simp [hdl] at hhead'
          have fin : ∀ {q2 : P}, Keeps p q2 (cont p ++ [startOf p slot]) (cont p ++ [startOf p slot]) → SF p q2 → q2 = p' →
              JJ p' (upd L slot newLen) := by
            intro q2 k sf e
            subst e
            refine jj_step (b := [startOf p slot]) j (upd_other _ _ _) ?_ ?_ ?_ ?_ hb
            · rw [hown, cont_of_sf sf]; exact k
            · rw [sf.2.2.2]
              refine (ownOf_sublist_hd1 p.starts (upd L slot newLen) slot).trans ?_
              have hs' : ¬ startIn p.starts slot = END := hstart
              unfold hd1; rw [if_neg hs']
              exact List.Sublist.refl _
            · rw [sf.2.2.2]
            · rw [sf.2.2.2]; exact j.keys
          have e1 : Keeps p q (cont p ++ [startOf p slot]) (cont p ++ [startOf p slot]) := by
            have := k1.1.frame (cont p)
            rw [hhead, hhead'] at this
            exact this
          split at h
          · split at h
            · cases h
            · obtain ⟨⟨q2, ids2⟩, hw, h⟩ := obind_ok h
              cases h
              have k2 := keeps_chainWrite _ _ hw
              have hhead2 : hdl ids2 = [startOf p slot] := by rw [hdl_of_prefix hne' (chainWrite_prefix _ _ hw)]; exact hhead'
              have e2 : Keeps q q2 (cont p ++ [startOf p slot]) (cont p ++ [startOf p slot]) := by
                have := k2.1.frame (cont p)
                rw [hhead', hhead2] at this
                exact this
              exact fin (e1.trans e2) (k1.2.trans k2.2) rfl
          · cases h; exact fin e1 k1.2 rfl

theorem others_dropStart (p : P) (s : Nat) : others (dropStart p s).starts s = others p.starts s := others_idem p.starts s

theorem jj_freeStream {p p' : P} {L : Nat → Nat} {slot : Nat}
    (h : freeStream p slot (L slot) = .ok p') (j : JJ p L) (hb : p'.fat.size ≤ MAXREG + 1) :
    JJ p' (upd L slot 0) := by
  unfold freeStream at h
  dsimp only [bind, pure] at h
  have hown' : ∀ st : List (Nat × Nat), (ownOf st (upd L slot 0) slot).Sublist [] := by
    intro st
    rw [ownOf_small _ (by rw [upd_self]; exact CUTOFF_pos)]; exact List.Sublist.refl _
  split at h
  · rename_i hsmall
    obtain ⟨q, hf, h⟩ := obind_ok h
    cases h
    have kk := kk_freeMiniChainFrom hf
    refine jj_step (b := []) j (upd_other _ _ _) ?_ (hown' _) ?_ ?_ hb
    · rw [ownOf_small _ hsmall]
      have : cont (dropStart q slot) = cont q := rfl
      rw [this]
      have e : Keeps p q (cont p ++ []) (cont q ++ []) := by simpa using kk.k
      exact e.trans (Keeps.of_same (same_dropStart _ _) _)
    · rw [others_dropStart, kk.starts]
    · show ((others q.starts slot).map (·.1)).Nodup
      rw [kk.starts]; exact (keys_others slot j.keys).1
  · rename_i hbig
    obtain ⟨q, hf, h⟩ := obind_ok h
    cases h
    have k := keeps_freeChainFrom hf
    have sf := sf_freeChain _ hf
    refine jj_step (b := []) j (upd_other _ _ _) ?_ (hown' _) ?_ ?_ hb
    · have : cont (dropStart q slot) = cont p := by
        show cont q = cont p
        exact cont_of_sf sf
      rw [this]
      have e := (k.frame (cont p)).trans (Keeps.of_same (same_dropStart q slot) _)
      have hown : ownOf p.starts L slot = hd1 (startOf p slot) := by
        unfold ownOf hd1
        have hc : CUTOFF ≤ L slot := Nat.le_of_not_lt hbig
        by_cases he : startIn p.starts slot = END
        · have he' : startOf p slot = END := he
          simp [he, he']
        · have he' : ¬ startOf p slot = END := he
          simp [hc, he, he']
          rfl
      rw [hown]
      exact e
    · rw [others_dropStart, sf.2.2.2]
    · show ((others q.starts slot).map (·.1)).Nodup
      rw [sf.2.2.2]; exact (keys_others slot j.keys).1

/-- operations that keep every head and touch no start field -/
theorem jj_of_keeps_sf {p p' : P} {L : Nat → Nat} (k : ∀ a, Keeps p p' a a) (sf : SF p p') (j : JJ p L)
    (hb : p'.fat.size ≤ MAXREG + 1) : JJ p' L := by
  refine ⟨(k []).good.inv j.inv (small_of_bound hb), ?_, by rw [sf.2.2.2]; exact j.keys⟩
  have : heads p' L = heads p L := by unfold heads; rw [cont_of_sf sf, sf.2.2.2]
  rw [this]
  simpa using (k (heads p L)).keep hb j.inv [] (by simpa using j.ns)

theorem jj_ensureDirSlot {p p' : P} {L : Nat → Nat} {slot : Nat} (h : ensureDirSlot p slot = .ok p') (j : JJ p L)
    (hb : p'.fat.size ≤ MAXREG + 1) : JJ p' L := by
  unfold ensureDirSlot at h
  split at h
  · cases h; exact j
  · split at h
    · split at h
      · rename_i q id he
        cases h
        have hs : SameAlloc q { q with dirLen := q.dirLen + 1 } := ⟨rfl, rfl, rfl, rfl⟩
        have hf : SF q { q with dirLen := q.dirLen + 1 } := ⟨rfl, rfl, rfl, rfl⟩
        exact jj_of_keeps_sf (fun a => (keeps_extendChain he a).trans (Keeps.of_same hs a)) ((sf_extendChain he).trans hf) j hb
      · cases h
      · cases h
      · cases h
    · cases h
      have hs : SameAlloc p { p with dirLen := p.dirLen + 1 } := ⟨rfl, rfl, rfl, rfl⟩
      have hf : SF p { p with dirLen := p.dirLen + 1 } := ⟨rfl, rfl, rfl, rfl⟩
      exact jj_of_keeps_sf (fun a => Keeps.of_same hs a) hf j hb

theorem jj_reopen {p p' : P} {L : Nat → Nat} (h : Phys.reopen p = .ok p') (j : JJ p L) : JJ p' L := by
  have inv' := inv_reopen j.inv h
  unfold Phys.reopen at h
  obtain ⟨chain, hc, h⟩ := bind_ok h
  cases h
  exact ⟨inv', j.ns, j.keys⟩

/-- registering a new, empty stream in a slot that has no chain -/
theorem jj_create {p : P} {L : Nat → Nat} {slot : Nat} (hfree : startOf p slot = END) (j : JJ p L) :
    JJ (setStart p slot END) (upd L slot 0) := by
  have hb : (setStart p slot END).fat.size ≤ MAXREG + 1 := j.ns.bound
  refine jj_step (b := []) j (upd_other _ _ _) ?_ ?_ (others_setStart _ _ _) (keys_setStart _ _ j.keys) hb
  · rw [ownOf_noStart L hfree, cont_setStart]
    exact Keeps.of_same (same_setStart _ _ _) _
  · rw [ownOf_small _ (by rw [upd_self]; exact CUTOFF_pos)]; exact List.Sublist.refl _

end CfbVerif.Phys

/-! ## the store machine: every history of stream-level operations -/
namespace CfbVerif.Phys
open CfbVerif.Raw

theorem jj_init (v4 : Bool) : JJ (Phys.create v4) (fun _ => 0) := by
  refine ⟨inv_create v4, ?_, by simp [Phys.create]⟩
  have hfat : (Phys.create v4).fat = #[FATSECT, END] := rfl
  have hheads : heads (Phys.create v4) (fun _ => 0) = [1] := by
    simp [heads, cont, regs, Phys.create, hd1]
  rw [hheads, hfat]
  have cell : ∀ i v : Nat, (#[FATSECT, END] : Array Nat)[i]? = some v → v = FATSECT ∨ v = END := by
    intro i v h
    rcases i with _ | _ | i
    · left; simpa using h.symm
    · right; simpa using h.symm
    · simp at h
  refine ⟨by decide, ?_, ?_, by simp, ?_, ?_⟩
  · intro i j v hi _ hv
    rcases cell i v hi with rfl | rfl
    · exact absurd hv (Nat.not_le.mpr MAXREG_lt_FATSECT)
    · exact absurd hv (Nat.not_le.mpr MAXREG_lt_END)
  · intro i v hi hv
    rcases cell i v hi with rfl | rfl
    · exact absurd hv (Nat.not_le.mpr MAXREG_lt_FATSECT)
    · exact absurd hv (Nat.not_le.mpr MAXREG_lt_END)
  · intro h hh
    simp only [List.mem_singleton] at hh
    subst hh
    exact ⟨END, by simp, END_ne_FREE⟩
  · intro h hh i hi
    simp only [List.mem_singleton] at hh
    subst hh
    rcases cell i 1 hi with he | he
    · exact absurd he (by decide)
    · exact absurd he (by decide)

/-- the operations `physOf` composes, with the stream lengths carried along (`L`) -/
inductive GOp
  | ensure (slot : Nat)                      -- `allocate_dir_entry` reaches slot `slot`
  | create (slot : Nat)                      -- a new, empty stream in `slot`
  | write (slot off : Nat) (bs : Bytes)      -- `write_data_to_stream`
  | resize (slot n : Nat)                    -- `resize_stream`
  | free (slot : Nat)                        -- `remove_stream`
  | reopen

structure G where
  p : P
  L : Nat → Nat

def gstep (g : G) : GOp → Outcome G
  | .ensure s => (ensureDirSlot g.p s).bind (fun p' => .ok { g with p := p' })
  | .create s => if startOf g.p s = END then .ok { p := setStart g.p s END, L := upd g.L s 0 } else .err .invalidInput
  | .write s off bs => (writeData g.p s (g.L s) off bs).bind (fun r => .ok { p := r.1, L := upd g.L s r.2 })
  | .resize s n => (Phys.resize g.p s (g.L s) n).bind (fun p' => .ok { p := p', L := upd g.L s n })
  | .free s => (freeStream g.p s (g.L s)).bind (fun p' => .ok { p := p', L := upd g.L s 0 })
  | .reopen => (Phys.reopen g.p).bind (fun p' => .ok { g with p := p' })

/-- a failed operation leaves the state as it was (its partial effects are C13's subject) -/
def grun (g : G) : List GOp → G
  | [] => g
  | op :: rest =>
    match gstep g op with
    | .ok g' => grun g' rest
    | _ => grun g rest

theorem good_gstep {g g' : G} {op : GOp} (h : gstep g op = .ok g') : Good g.p g'.p := by
  cases op with
  | ensure s => obtain ⟨q, hq, h⟩ := obind_ok h; cases h; exact good_ensureDirSlot hq
  | create s =>
    simp only [gstep] at h
    split at h
    · cases h; exact Good.of_same (same_setStart _ _ _)
    · cases h
  | write s off bs => obtain ⟨r, hq, h⟩ := obind_ok h; cases h; exact good_writeData hq
  | resize s n => obtain ⟨q, hq, h⟩ := obind_ok h; cases h; exact good_resize hq
  | free s => obtain ⟨q, hq, h⟩ := obind_ok h; cases h; exact good_freeStream hq
  | reopen => obtain ⟨q, hq, h⟩ := obind_ok h; cases h; exact good_reopen hq

theorem jj_gstep {g g' : G} {op : GOp} (h : gstep g op = .ok g') (j : JJ g.p g.L)
    (hb : g'.p.fat.size ≤ MAXREG + 1) : JJ g'.p g'.L := by
  cases op with
  | ensure s => obtain ⟨q, hq, h⟩ := obind_ok h; cases h; exact jj_ensureDirSlot hq j hb
  | create s =>
    simp only [gstep] at h
    split at h
    · rename_i hfree; cases h; exact jj_create hfree j
    · cases h
  | write s off bs => obtain ⟨r, hq, h⟩ := obind_ok h; cases h; exact jj_writeData hq j hb
  | resize s n => obtain ⟨q, hq, h⟩ := obind_ok h; cases h; exact jj_resize hq j hb
  | free s => obtain ⟨q, hq, h⟩ := obind_ok h; cases h; exact jj_freeStream hq j hb
  | reopen => obtain ⟨q, hq, h⟩ := obind_ok h; cases h; exact jj_reopen hq j

theorem grun_mono (ops : List GOp) : ∀ g : G, g.p.fat.size ≤ (grun g ops).p.fat.size := by
  induction ops with
  | nil => intro g; exact Nat.le_refl _
  | cons op rest ih =>
    intro g
    simp only [grun]
    cases hs : gstep g op with
    | ok g' => exact Nat.le_trans (good_gstep hs).mono (ih g')
    | err k => exact ih g
    | panic s => exact ih g
    | hang s => exact ih g

theorem jj_grun (ops : List GOp) : ∀ g : G, JJ g.p g.L → (grun g ops).p.fat.size ≤ MAXREG + 1 →
    JJ (grun g ops).p (grun g ops).L := by
  induction ops with
  | nil => intro g j _; exact j
  | cons op rest ih =>
    intro g j hb
    simp only [grun] at hb ⊢
    cases hs : gstep g op with
    | ok g' =>
      simp only [hs] at hb ⊢
      exact ih g' (jj_gstep hs j (Nat.le_trans (grun_mono rest g') hb)) hb
    | err k => simp only [hs] at hb ⊢; exact ih g j hb
    | panic s => simp only [hs] at hb ⊢; exact ih g j hb
    | hang s => simp only [hs] at hb ⊢; exact ih g j hb

/-- **no sector is ever shared**: after every history of stream-level operations on a fresh file
(within the format's range of sector numbers) no two FAT cells point at the same sector, no cell
points at a FREE sector, and the first sectors of the directory, the MiniFAT, the mini stream and
of every stream of at least 4096 bytes are distinct, in use, and pointed at by nothing -/
theorem noShare_reachable (v4 : Bool) (ops : List GOp) :
    let g := grun { p := Phys.create v4, L := fun _ => 0 } ops
    g.p.fat.size ≤ MAXREG + 1 → JJ g.p g.L :=
  fun hb => jj_grun ops _ (jj_init v4) hb

end CfbVerif.Phys

/-! ## what `physOf` is made of -/
namespace CfbVerif.Phys
open CfbVerif.Raw

/-- the length a stream has after a log of store operations -/
def lenAfter : Nat → List StoreOp → Nat
  | len, [] => len
  | len, .write off bs :: rest => lenAfter (max len (off + bs.length)) rest
  | _, .resize n :: rest => lenAfter n rest

theorem upd_upd (L : Nat → Nat) (s a b : Nat) : upd (upd L s a) s b = upd L s b := by
  funext t; simp only [upd]; split <;> rfl

theorem upd_same (L : Nat → Nat) (s : Nat) : upd L s (L s) = L := by
  funext t; simp only [upd]; split
  · rename_i h; rw [h]
  · rfl

theorem writeData_len {p p' : P} {slot oldLen off n : Nat} {buf : Bytes}
    (h : writeData p slot oldLen off buf = .ok (p', n)) : n = max oldLen (off + buf.length) := by
  unfold writeData at h
  dsimp only [bind, pure] at h
  split at h
  · split at h
    · cases h
    · split at h
      · obtain ⟨⟨q, ids⟩, hw, h⟩ := obind_ok h; cases h; rfl
      · obtain ⟨⟨q, ids⟩, hw, h⟩ := obind_ok h; cases h; rfl
  · split at h
    · split at h
      · obtain ⟨ids, hi, h⟩ := obind_ok h
        split at h
        · cases h
        · obtain ⟨⟨q, ids'⟩, hw, h⟩ := obind_ok h; cases h; rfl
      · obtain ⟨ids, hi, h⟩ := obind_ok h
        obtain ⟨tmp, hr, h⟩ := obind_ok h
        obtain ⟨q1, hf, h⟩ := obind_ok h
        obtain ⟨⟨q2, ids1⟩, hw1, h⟩ := obind_ok h
        obtain ⟨⟨q3, ids2⟩, hw2, h⟩ := obind_ok h
        cases h; rfl
    · obtain ⟨ids, hi, h⟩ := obind_ok h
      split at h
      · cases h
      · obtain ⟨⟨q, ids'⟩, hw, h⟩ := obind_ok h; cases h; rfl

/-- a handle call's store operations, replayed on the allocation level from the right length -/
theorem jj_applyLogPhys (slot : Nat) (log : List StoreOp) : ∀ {p p' : P} {L : Nat → Nat},
    applyLogPhys p slot (L slot) log = .ok p' → JJ p L → p'.fat.size ≤ MAXREG + 1 →
    JJ p' (upd L slot (lenAfter (L slot) log)) := by
  induction log with
  | nil =>
    intro p p' L h j _
    simp only [applyLogPhys] at h; cases h
    simp only [lenAfter]; rw [upd_same]; exact j
  | cons op rest ih =>
    intro p p' L h j hb
    cases op with
    | write off bs =>
      simp only [applyLogPhys] at h
      split at h
      · rename_i q len' hw
        have hbq : q.fat.size ≤ MAXREG + 1 := Nat.le_trans (good_applyLogPhys _ _ h).mono hb
        have j1 := jj_writeData hw j hbq
        have hl := writeData_len hw
        have h' : applyLogPhys q slot ((upd L slot len') slot) rest = .ok p' := by rw [upd_self]; exact h
        have := ih h' j1 hb
        rw [upd_upd, upd_self, hl] at this
        simpa only [lenAfter] using this
      · cases h
      · cases h
      · cases h
    | resize n =>
      simp only [applyLogPhys] at h
      split at h
      · rename_i q hr
        have hbq : q.fat.size ≤ MAXREG + 1 := Nat.le_trans (good_applyLogPhys _ _ h).mono hb
        have j1 := jj_resize hr j hbq
        have h' : applyLogPhys q slot ((upd L slot n) slot) rest = .ok p' := by rw [upd_self]; exact h
        have := ih h' j1 hb
        rw [upd_upd, upd_self] at this
        simpa only [lenAfter] using this
      · cases h
      · cases h
      · cases h

theorem jj_ensureSlots (slots : List Nat) : ∀ {p p' : P} {L : Nat → Nat}, ensureSlots p slots = .ok p' → JJ p L →
    p'.fat.size ≤ MAXREG + 1 → JJ p' L := by
  induction slots with
  | nil => intro p p' L h j _; simp only [ensureSlots] at h; cases h; exact j
  | cons s rest ih =>
    intro p p' L h j hb
    simp only [ensureSlots] at h
    split at h
    · rename_i q he
      have hbq : q.fat.size ≤ MAXREG + 1 := Nat.le_trans (good_ensureSlots _ h).mono hb
      exact ih h (jj_ensureDirSlot he j hbq) hb
    · cases h
    · cases h
    · cases h

end CfbVerif.Phys

/-! ## what `NSH` means for chains: two heads never lead to the same sector -/
namespace CfbVerif.Phys
open CfbVerif.Raw

/-- `Reach fat a x`: following FAT cells from `a` arrives at `x` -/
inductive Reach (fat : Array Nat) (a : Nat) : Nat → Prop
  | refl : Reach fat a a
  | step {b c : Nat} : Reach fat a b → fat[b]? = some c → c ≤ MAXREG → Reach fat a c

/-- **chains are pairwise disjoint**: a sector that can be reached from two heads makes them the
same head -/
theorem NSH.disjoint {fat : Array Nat} {hs : List Nat} (n : NSH fat hs) {h1 h2 x : Nat}
    (m1 : h1 ∈ hs) (m2 : h2 ∈ hs) (r1 : Reach fat h1 x) (r2 : Reach fat h2 x) : h1 = h2 := by
  induction r1 generalizing h2 with
  | refl =>
    cases r2 with
    | refl => rfl
    | step r2' hc _ => exact absurd hc (n.unp h1 m1 _)
  | step r1' hc1 hreg ih =>
    cases r2 with
    | refl => exact absurd hc1 (n.unp _ m2 _)
    | step r2' hc2 _ =>
      have := n.inj _ _ _ hc1 hc2 hreg
      subst this
      exact ih m2 r2'

/-- a chain never runs into free space -/
theorem NSH.reach_used {fat : Array Nat} {hs : List Nat} (n : NSH fat hs) {h x : Nat}
    (m : h ∈ hs) (r : Reach fat h x) : ∃ w, fat[x]? = some w ∧ w ≠ FREE := by
  cases r with
  | refl => exact n.used h m
  | step r' hc hreg => exact n.nd _ _ hc hreg

end CfbVerif.Phys
