import CfbVerif.Phys.ApiInv
/-!
# No sector is shared between chains

`NSH fat hs`: in the FAT `fat`, whose chains start at the sectors `hs` (their *heads*),

* no two cells point at the same sector (`inj`) and no cell points at a FREE sector or outside the
  FAT (`nd`): following cells never merges two chains and never enters free space;
* the heads are distinct, in use, and nothing points at them (`nodup`, `used`, `unp`): no chain
  runs into the beginning of another one, and no two owners start at the same sector.

Together: the chains starting at the heads are pairwise disjoint — "every sector belongs to at most
one chain" (C03).  The first part of this file proves how the five FAT updates the allocator makes
(claim a FREE or new cell, link it behind the last sector of a chain, cut a chain behind a sector,
free the head of a chain) transform `NSH`; the rest lifts that through every operation of `Phys`.
-/
namespace CfbVerif.Phys
open CfbVerif.Raw

structure NSH (fat : Array Nat) (hs : List Nat) : Prop where
  bound : fat.size ≤ MAXREG + 1
  inj : ∀ i j v : Nat, fat[i]? = some v → fat[j]? = some v → v ≤ MAXREG → i = j
  nd : ∀ i v : Nat, fat[i]? = some v → v ≤ MAXREG → ∃ w, fat[v]? = some w ∧ w ≠ FREE
  nodup : hs.Nodup
  used : ∀ h ∈ hs, ∃ w, fat[h]? = some w ∧ w ≠ FREE
  unp : ∀ h ∈ hs, ∀ i : Nat, fat[i]? ≠ some h

theorem lt_of_get {fat : Array Nat} {i v : Nat} (h : fat[i]? = some v) : i < fat.size := by
  rcases Nat.lt_or_ge i fat.size with hc | hc
  · exact hc
  · rw [Array.getElem?_eq_none hc] at h; cases h

theorem MAXREG_lt_FREE : MAXREG < FREE := by decide
theorem MAXREG_lt_END : MAXREG < END := by decide
theorem MAXREG_lt_FATSECT : MAXREG < FATSECT := by decide
theorem MAXREG_lt_DIFSECT : MAXREG < DIFSECT := by decide

theorem NSH.head_reg {fat : Array Nat} {hs : List Nat} (n : NSH fat hs) {h : Nat} (hh : h ∈ hs) : h ≤ MAXREG := by
  obtain ⟨w, hw, _⟩ := n.used h hh
  have := lt_of_get hw
  have := n.bound
  omega

/-- fewer heads, or the same heads in another order -/
theorem NSH.sub {fat : Array Nat} {hs hs' : List Nat} (n : NSH fat hs) (hn : hs'.Nodup) (hsub : ∀ x ∈ hs', x ∈ hs) :
    NSH fat hs' :=
  ⟨n.bound, n.inj, n.nd, hn, fun h hh => n.used h (hsub h hh), fun h hh => n.unp h (hsub h hh)⟩

theorem NSH.perm {fat : Array Nat} {hs hs' : List Nat} (n : NSH fat hs) (hp : hs.Perm hs') : NSH fat hs' :=
  n.sub (hp.nodup_iff.mp n.nodup) (fun x hx => hp.mem_iff.mpr hx)

/-- **claiming a sector**: the FAT after `allocate_sector` (`fat'`) agrees with the one before on
every old cell but `id`, holds END at `id`, and only table markers in other new cells; `id` was
FREE or is new.  Then `id` is one more head. -/
theorem NSH.claim {fat fat' : Array Nat} {hs : List Nat} {id : Nat} (n : NSH fat hs)
    (hb : fat'.size ≤ MAXREG + 1)
    (hframe : ∀ j, j < fat.size → j ≠ id → fat'[j]? = fat[j]?)
    (hid : fat'[id]? = some END)
    (hwas : fat[id]? = some FREE ∨ fat.size ≤ id)
    (hnew : ∀ j v, fat.size ≤ j → j ≠ id → fat'[j]? = some v → MAXREG < v) :
    NSH fat' (id :: hs) := by
  -- a cell of `fat'` holding a regular value is an old cell other than `id`, with its old value
  have old : ∀ i v : Nat, fat'[i]? = some v → v ≤ MAXREG → i < fat.size ∧ i ≠ id ∧ fat[i]? = some v := by
    intro i v hi hv
    have hne : i ≠ id := by
      intro he; subst he; rw [hid] at hi; cases hi; exact absurd hv (Nat.not_le.mpr MAXREG_lt_END)
    rcases Nat.lt_or_ge i fat.size with hc | hc
    · exact ⟨hc, hne, by rw [← hframe i hc hne]; exact hi⟩
    · exact absurd hv (Nat.not_le.mpr (hnew i v hc hne hi))
  -- a used old sector is not `id`
  have notid : ∀ x w : Nat, fat[x]? = some w → w ≠ FREE → x ≠ id := by
    intro x w hx hw he
    subst he
    rcases hwas with hf | hge
    · rw [hx] at hf; exact hw (Option.some.inj hf)
    · have := lt_of_get hx; omega
  have keep : ∀ x w : Nat, fat[x]? = some w → w ≠ FREE → fat'[x]? = some w := by
    intro x w hx hw
    rw [hframe x (lt_of_get hx) (notid x w hx hw)]; exact hx
  refine ⟨hb, ?_, ?_, ?_, ?_, ?_⟩
  · intro i j v hi hj hv
    obtain ⟨_, _, hi'⟩ := old i v hi hv
    obtain ⟨_, _, hj'⟩ := old j v hj hv
    exact n.inj i j v hi' hj' hv
  · intro i v hi hv
    obtain ⟨_, _, hi'⟩ := old i v hi hv
    obtain ⟨w, hw, hwf⟩ := n.nd i v hi' hv
    exact ⟨w, keep v w hw hwf, hwf⟩
  · refine List.nodup_cons.mpr ⟨?_, n.nodup⟩
    intro hm
    obtain ⟨w, hw, hwf⟩ := n.used id hm
    exact notid id w hw hwf rfl
  · intro h hh
    rcases List.mem_cons.mp hh with rfl | hh
    · exact ⟨END, hid, END_ne_FREE⟩
    · obtain ⟨w, hw, hwf⟩ := n.used h hh
      exact ⟨w, keep h w hw hwf, hwf⟩
  · intro h hh i hi
    rcases List.mem_cons.mp hh with rfl | hh
    · have hreg : h ≤ MAXREG := by have := lt_of_get hid; omega
      obtain ⟨_, _, hi'⟩ := old i h hi hreg
      obtain ⟨w, hw, hwf⟩ := n.nd i h hi' hreg
      exact notid h w hw hwf rfl
    · have hreg := n.head_reg hh
      obtain ⟨_, _, hi'⟩ := old i h hi hreg
      exact n.unp h hh i hi'

/-- **linking** the head `id` behind a sector whose cell says END: `id` stops being a head -/
theorem NSH.link {fat : Array Nat} {hs : List Nat} {id last : Nat} (n : NSH fat (id :: hs))
    (hlast : fat[last]? = some END) (hne : last ≠ id) :
    NSH (fat.setIfInBounds last id) hs := by
  have hidreg : id ≤ MAXREG := n.head_reg (List.mem_cons_self ..)
  have hll := lt_of_get hlast
  have get : ∀ i : Nat, (fat.setIfInBounds last id)[i]? = if last = i then some id else fat[i]? := by
    intro i
    simp only [Array.getElem?_setIfInBounds]
    split
    · rename_i he; subst he; simp
    · rfl
  have hnd := List.nodup_cons.mp n.nodup
  refine ⟨by simpa using n.bound, ?_, ?_, hnd.2, ?_, ?_⟩
  · intro i j v hi hj hv
    rw [get] at hi hj
    split at hi
    · rename_i hli
      have hv' : v = id := (Option.some.inj hi).symm
      split at hj
      · rename_i hlj; omega
      · exact absurd (hv' ▸ hj) (n.unp id (List.mem_cons_self ..) j)
    · split at hj
      · have hv' : v = id := (Option.some.inj hj).symm
        exact absurd (hv' ▸ hi) (n.unp id (List.mem_cons_self ..) i)
      · exact n.inj i j v hi hj hv
  · intro i v hi hv
    rw [get] at hi
    have pointee : ∀ x w : Nat, fat[x]? = some w → w ≠ FREE → ∃ w', (fat.setIfInBounds last id)[x]? = some w' ∧ w' ≠ FREE := by
      intro x w hx hw
      rw [get]
      split
      · exact ⟨id, rfl, by have := MAXREG_lt_FREE; omega⟩
      · exact ⟨w, hx, hw⟩
    split at hi
    · have hv' : v = id := (Option.some.inj hi).symm
      obtain ⟨w, hw, hwf⟩ := n.used id (List.mem_cons_self ..)
      exact hv' ▸ pointee id w hw hwf
    · obtain ⟨w, hw, hwf⟩ := n.nd i v hi hv
      exact pointee v w hw hwf
  · intro h hh
    obtain ⟨w, hw, hwf⟩ := n.used h (List.mem_cons_of_mem _ hh)
    rw [get]
    split
    · exact ⟨id, rfl, by have := MAXREG_lt_FREE; omega⟩
    · exact ⟨w, hw, hwf⟩
  · intro h hh i hi
    rw [get] at hi
    split at hi
    · cases hi; exact hnd.1 hh
    · exact n.unp h (List.mem_cons_of_mem _ hh) i hi

/-- **cutting** a chain behind `id`: its successor becomes a head -/
theorem NSH.cut {fat : Array Nat} {hs : List Nat} {id next : Nat} (n : NSH fat hs)
    (hid : fat[id]? = some next) (hreg : next ≤ MAXREG) :
    NSH (fat.setIfInBounds id END) (next :: hs) := by
  have hil := lt_of_get hid
  have get : ∀ i : Nat, (fat.setIfInBounds id END)[i]? = if id = i then some END else fat[i]? := by
    intro i
    simp only [Array.getElem?_setIfInBounds]
    split
    · rename_i he; subst he; simp
    · rfl
  have hnotin : next ∉ hs := fun hm => n.unp next hm id hid
  refine ⟨by simpa using n.bound, ?_, ?_, List.nodup_cons.mpr ⟨hnotin, n.nodup⟩, ?_, ?_⟩
  · intro i j v hi hj hv
    rw [get] at hi hj
    split at hi
    · cases hi; exact absurd hv (Nat.not_le.mpr MAXREG_lt_END)
    · split at hj
      · cases hj; exact absurd hv (Nat.not_le.mpr MAXREG_lt_END)
      · exact n.inj i j v hi hj hv
  · intro i v hi hv
    rw [get] at hi
    split at hi
    · cases hi; exact absurd hv (Nat.not_le.mpr MAXREG_lt_END)
    · obtain ⟨w, hw, hwf⟩ := n.nd i v hi hv
      rw [get]
      split
      · exact ⟨END, rfl, END_ne_FREE⟩
      · exact ⟨w, hw, hwf⟩
  · intro h hh
    have : ∃ w, fat[h]? = some w ∧ w ≠ FREE := by
      rcases List.mem_cons.mp hh with rfl | hh
      · exact n.nd id h hid hreg
      · exact n.used h hh
    obtain ⟨w, hw, hwf⟩ := this
    rw [get]
    split
    · exact ⟨END, rfl, END_ne_FREE⟩
    · exact ⟨w, hw, hwf⟩
  · intro h hh i hi
    rw [get] at hi
    split at hi
    · rename_i he
      cases hi
      -- h = END would be a head beyond the FAT
      have hr : END ≤ MAXREG := by
        rcases List.mem_cons.mp hh with he' | hh'
        · rw [he']; exact hreg
        · exact n.head_reg hh'
      exact absurd hr (Nat.not_le.mpr MAXREG_lt_END)
    · rcases List.mem_cons.mp hh with rfl | hh
      · rename_i hne
        exact hne (n.inj id i h hid hi hreg)
      · exact n.unp h hh i hi

/-- **freeing the head** of a chain: its successor (if any) becomes the head of what is left -/
theorem NSH.freeHead {fat : Array Nat} {hs : List Nat} {cur next : Nat} (n : NSH fat (cur :: hs))
    (hcur : fat[cur]? = some next) (hnf : next ≠ FREE) :
    NSH (fat.setIfInBounds cur FREE) ((if next ≤ MAXREG then [next] else []) ++ hs) := by
  have hcl := lt_of_get hcur
  have hnd := List.nodup_cons.mp n.nodup
  have get : ∀ i : Nat, (fat.setIfInBounds cur FREE)[i]? = if cur = i then some FREE else fat[i]? := by
    intro i
    simp only [Array.getElem?_setIfInBounds]
    split
    · rename_i he; subst he; simp
    · rfl
  have hcurunp := n.unp cur (List.mem_cons_self ..)
  -- sectors other than `cur` that were in use still are
  have keep : ∀ x w : Nat, fat[x]? = some w → x ≠ cur → (fat.setIfInBounds cur FREE)[x]? = some w := by
    intro x w hx hne
    rw [get, if_neg (fun he => hne he.symm)]; exact hx
  have hbase : NSH (fat.setIfInBounds cur FREE) hs := by
    refine ⟨by simpa using n.bound, ?_, ?_, hnd.2, ?_, ?_⟩
    · intro i j v hi hj hv
      rw [get] at hi hj
      split at hi
      · cases hi; exact absurd hv (Nat.not_le.mpr MAXREG_lt_FREE)
      · split at hj
        · cases hj; exact absurd hv (Nat.not_le.mpr MAXREG_lt_FREE)
        · exact n.inj i j v hi hj hv
    · intro i v hi hv
      rw [get] at hi
      split at hi
      · cases hi; exact absurd hv (Nat.not_le.mpr MAXREG_lt_FREE)
      · obtain ⟨w, hw, hwf⟩ := n.nd i v hi hv
        have hvne : v ≠ cur := fun he => hcurunp i (he ▸ hi)
        exact ⟨w, keep v w hw hvne, hwf⟩
    · intro h hh
      obtain ⟨w, hw, hwf⟩ := n.used h (List.mem_cons_of_mem _ hh)
      have hne : h ≠ cur := fun he => hnd.1 (he ▸ hh)
      exact ⟨w, keep h w hw hne, hwf⟩
    · intro h hh i hi
      rw [get] at hi
      split at hi
      · cases hi
        have := n.head_reg (List.mem_cons_of_mem cur hh)
        exact absurd this (Nat.not_le.mpr MAXREG_lt_FREE)
      · exact n.unp h (List.mem_cons_of_mem _ hh) i hi
  split
  · rename_i hreg
    have hne : next ≠ cur := fun he => hcurunp cur (he ▸ hcur)
    have hnotin : next ∉ hs := fun hm => n.unp next (List.mem_cons_of_mem _ hm) cur hcur
    refine ⟨hbase.bound, hbase.inj, hbase.nd, ?_, ?_, ?_⟩
    · exact List.nodup_cons.mpr ⟨hnotin, hnd.2⟩
    · intro h hh
      rcases List.mem_cons.mp hh with rfl | hh
      · obtain ⟨w, hw, hwf⟩ := n.nd cur h hcur hreg
        exact ⟨w, keep h w hw hne, hwf⟩
      · exact hbase.used h hh
    · intro h hh i hi
      rcases List.mem_cons.mp hh with rfl | hh
      · rw [get] at hi
        split at hi
        · cases hi; exact absurd hreg (Nat.not_le.mpr MAXREG_lt_FREE)
        · rename_i hci
          exact hci (n.inj cur i h hcur hi hreg)
      · exact hbase.unp h hh i hi
  · simpa using hbase

end CfbVerif.Phys
