import CfbVerif.Phys.ApiInv
/-!
# No sector is shared between chains

`NSH fat hs`: in the FAT `fat`, whose chains start at the sectors `hs` (their *heads*),

* no two cells point at the same sector (`inj`) and no cell points at a FREE sector or outside the
  FAT (`nd`): following cells never merges two chains and never enters free space;
* the heads are distinct, in use, and nothing points at them (`nodup`, `used`, `unp`): no chain
  runs into the beginning of another one, and no two owners start at the same sector.

Together: the chains starting at the heads are pairwise disjoint — "every sector belongs to at most
one chain" (C03).  The first part of this file proves how the five FAT updates the allocator makes
(claim a FREE or new cell, link it behind the last sector of a chain, cut a chain behind a sector,
free the head of a chain) transform `NSH`; the rest lifts that through every operation of `Phys`.
-/
namespace CfbVerif.Phys
open CfbVerif.Raw

structure NSH (fat : Array Nat) (hs : List Nat) : Prop where
  bound : fat.size ≤ MAXREG + 1
  inj : ∀ i j v : Nat, fat[i]? = some v → fat[j]? = some v → v ≤ MAXREG → i = j
  nd : ∀ i v : Nat, fat[i]? = some v → v ≤ MAXREG → ∃ w, fat[v]? = some w ∧ w ≠ FREE
  nodup : hs.Nodup
  used : ∀ h ∈ hs, ∃ w, fat[h]? = some w ∧ w ≠ FREE
  unp : ∀ h ∈ hs, ∀ i : Nat, fat[i]? ≠ some h

theorem lt_of_get {fat : Array Nat} {i v : Nat} (h : fat[i]? = some v) : i < fat.size := by
  rcases Nat.lt_or_ge i fat.size with hc | hc
  · exact hc
  · rw [Array.getElem?_eq_none hc] at h; cases h

theorem MAXREG_lt_FREE : MAXREG < FREE := by decide
theorem MAXREG_lt_END : MAXREG < END := by decide
theorem MAXREG_lt_FATSECT : MAXREG < FATSECT := by decide
theorem MAXREG_lt_DIFSECT : MAXREG < DIFSECT := by decide

theorem NSH.head_reg {fat : Array Nat} {hs : List Nat} (n : NSH fat hs) {h : Nat} (hh : h ∈ hs) : h ≤ MAXREG := by
  obtain ⟨w, hw, _⟩ := n.used h hh
  have := lt_of_get hw
  have := n.bound
  omega

/-- fewer heads, or the same heads in another order -/
theorem NSH.sub {fat : Array Nat} {hs hs' : List Nat} (n : NSH fat hs) (hn : hs'.Nodup) (hsub : ∀ x ∈ hs', x ∈ hs) :
    NSH fat hs' :=
  ⟨n.bound, n.inj, n.nd, hn, fun h hh => n.used h (hsub h hh), fun h hh => n.unp h (hsub h hh)⟩

theorem NSH.perm {fat : Array Nat} {hs hs' : List Nat} (n : NSH fat hs) (hp : hs.Perm hs') : NSH fat hs' :=
  n.sub (hp.nodup_iff.mp n.nodup) (fun x hx => hp.mem_iff.mpr hx)

/-- **claiming a sector**: the FAT after `allocate_sector` (`fat'`) agrees with the one before on
every old cell but `id`, holds END at `id`, and only table markers in other new cells; `id` was
FREE or is new.  Then `id` is one more head. -/
theorem NSH.claim {fat fat' : Array Nat} {hs : List Nat} {id : Nat} (n : NSH fat hs)
    (hb : fat'.size ≤ MAXREG + 1)
    (hframe : ∀ j, j < fat.size → j ≠ id → fat'[j]? = fat[j]?)
    (hid : fat'[id]? = some END)
    (hwas : fat[id]? = some FREE ∨ fat.size ≤ id)
    (hnew : ∀ j v, fat.size ≤ j → j ≠ id → fat'[j]? = some v → MAXREG < v) :
    NSH fat' (id :: hs) := by
  -- a cell of `fat'` holding a regular value is an old cell other than `id`, with its old value
  have old : ∀ i v : Nat, fat'[i]? = some v → v ≤ MAXREG → i < fat.size ∧ i ≠ id ∧ fat[i]? = some v := by
    intro i v hi hv
    have hne : i ≠ id := by
      intro he; subst he; rw [hid] at hi; cases hi; exact absurd hv (Nat.not_le.mpr MAXREG_lt_END)
    rcases Nat.lt_or_ge i fat.size with hc | hc
    · exact ⟨hc, hne, by rw [← hframe i hc hne]; exact hi⟩
    · exact absurd hv (Nat.not_le.mpr (hnew i v hc hne hi))
  -- a used old sector is not `id`
  have notid : ∀ x w : Nat, fat[x]? = some w → w ≠ FREE → x ≠ id := by
    intro x w hx hw he
    subst he
    rcases hwas with hf | hge
    · rw [hx] at hf; exact hw (Option.some.inj hf)
    · have := lt_of_get hx; omega
  have keep : ∀ x w : Nat, fat[x]? = some w → w ≠ FREE → fat'[x]? = some w := by
    intro x w hx hw
    rw [hframe x (lt_of_get hx) (notid x w hx hw)]; exact hx
  refine ⟨hb, ?_, ?_, ?_, ?_, ?_⟩
  · intro i j v hi hj hv
    obtain ⟨_, _, hi'⟩ := old i v hi hv
    obtain ⟨_, _, hj'⟩ := old j v hj hv
    exact n.inj i j v hi' hj' hv
  · intro i v hi hv
    obtain ⟨_, _, hi'⟩ := old i v hi hv
    obtain ⟨w, hw, hwf⟩ := n.nd i v hi' hv
    exact ⟨w, keep v w hw hwf, hwf⟩
  · refine List.nodup_cons.mpr ⟨?_, n.nodup⟩
    intro hm
    obtain ⟨w, hw, hwf⟩ := n.used id hm
    exact notid id w hw hwf rfl
  · intro h hh
    rcases List.mem_cons.mp hh with rfl | hh
    · exact ⟨END, hid, END_ne_FREE⟩
    · obtain ⟨w, hw, hwf⟩ := n.used h hh
      exact ⟨w, keep h w hw hwf, hwf⟩
  · intro h hh i hi
    rcases List.mem_cons.mp hh with rfl | hh
    · have hreg : h ≤ MAXREG := by have := lt_of_get hid; omega
      obtain ⟨_, _, hi'⟩ := old i h hi hreg
      obtain ⟨w, hw, hwf⟩ := n.nd i h hi' hreg
      exact notid h w hw hwf rfl
    · have hreg := n.head_reg hh
      obtain ⟨_, _, hi'⟩ := old i h hi hreg
      exact n.unp h hh i hi'

/-- **linking** the head `id` behind a sector whose cell says END: `id` stops being a head -/
theorem NSH.link {fat : Array Nat} {hs : List Nat} {id last : Nat} (n : NSH fat (id :: hs))
    (hlast : fat[last]? = some END) (hne : last ≠ id) :
    NSH (fat.setIfInBounds last id) hs := by
  have hidreg : id ≤ MAXREG := n.head_reg (List.mem_cons_self ..)
  have hll := lt_of_get hlast
  have get : ∀ i : Nat, (fat.setIfInBounds last id)[i]? = if last = i then some id else fat[i]? := by
    intro i
    simp only [Array.getElem?_setIfInBounds]
    split
    · rename_i he; subst he; simp
    · rfl
  have hnd := List.nodup_cons.mp n.nodup
  refine ⟨by simpa using n.bound, ?_, ?_, hnd.2, ?_, ?_⟩
  · intro i j v hi hj hv
    rw [get] at hi hj
    split at hi
    · rename_i hli
      have hv' : v = id := (Option.some.inj hi).symm
      split at hj
      · rename_i hlj; omega
      · exact absurd (hv' ▸ hj) (n.unp id (List.mem_cons_self ..) j)
    · split at hj
      · have hv' : v = id := (Option.some.inj hj).symm
        exact absurd (hv' ▸ hi) (n.unp id (List.mem_cons_self ..) i)
      · exact n.inj i j v hi hj hv
  · intro i v hi hv
    rw [get] at hi
    have pointee : ∀ x w : Nat, fat[x]? = some w → w ≠ FREE → ∃ w', (fat.setIfInBounds last id)[x]? = some w' ∧ w' ≠ FREE := by
      intro x w hx hw
      rw [get]
      split
      · exact ⟨id, rfl, by have := MAXREG_lt_FREE; omega⟩
      · exact ⟨w, hx, hw⟩
    split at hi
    · have hv' : v = id := (Option.some.inj hi).symm
      obtain ⟨w, hw, hwf⟩ := n.used id (List.mem_cons_self ..)
      exact hv' ▸ pointee id w hw hwf
    · obtain ⟨w, hw, hwf⟩ := n.nd i v hi hv
      exact pointee v w hw hwf
  · intro h hh
    obtain ⟨w, hw, hwf⟩ := n.used h (List.mem_cons_of_mem _ hh)
    rw [get]
    split
    · exact ⟨id, rfl, by have := MAXREG_lt_FREE; omega⟩
    · exact ⟨w, hw, hwf⟩
  · intro h hh i hi
    rw [get] at hi
    split at hi
    · cases hi; exact hnd.1 hh
    · exact n.unp h (List.mem_cons_of_mem _ hh) i hi

/-- **cutting** a chain behind `id`: its successor becomes a head -/
theorem NSH.cut {fat : Array Nat} {hs : List Nat} {id next : Nat} (n : NSH fat hs)
    (hid : fat[id]? = some next) (hreg : next ≤ MAXREG) :
    NSH (fat.setIfInBounds id END) (next :: hs) := by
  have hil := lt_of_get hid
  have get : ∀ i : Nat, (fat.setIfInBounds id END)[i]? = if id = i then some END else fat[i]? := by
    intro i
    simp only [Array.getElem?_setIfInBounds]
    split
    · rename_i he; subst he; simp
    · rfl
  have hnotin : next ∉ hs := fun hm => n.unp next hm id hid
  refine ⟨by simpa using n.bound, ?_, ?_, List.nodup_cons.mpr ⟨hnotin, n.nodup⟩, ?_, ?_⟩
  · intro i j v hi hj hv
    rw [get] at hi hj
    split at hi
    · cases hi; exact absurd hv (Nat.not_le.mpr MAXREG_lt_END)
    · split at hj
      · cases hj; exact absurd hv (Nat.not_le.mpr MAXREG_lt_END)
      · exact n.inj i j v hi hj hv
  · intro i v hi hv
    rw [get] at hi
    split at hi
    · cases hi; exact absurd hv (Nat.not_le.mpr MAXREG_lt_END)
    · obtain ⟨w, hw, hwf⟩ := n.nd i v hi hv
      rw [get]
      split
      · exact ⟨END, rfl, END_ne_FREE⟩
      · exact ⟨w, hw, hwf⟩
  · intro h hh
    have : ∃ w, fat[h]? = some w ∧ w ≠ FREE := by
      rcases List.mem_cons.mp hh with rfl | hh
      · exact n.nd id h hid hreg
      · exact n.used h hh
    obtain ⟨w, hw, hwf⟩ := this
    rw [get]
    split
    · exact ⟨END, rfl, END_ne_FREE⟩
    · exact ⟨w, hw, hwf⟩
  · intro h hh i hi
    rw [get] at hi
    split at hi
    · rename_i he
      cases hi
      -- h = END would be a head beyond the FAT
      have hr : END ≤ MAXREG := by
        rcases List.mem_cons.mp hh with he' | hh'
        · rw [he']; exact hreg
        · exact n.head_reg hh'
      exact absurd hr (Nat.not_le.mpr MAXREG_lt_END)
    · rcases List.mem_cons.mp hh with rfl | hh
      · rename_i hne
        exact hne (n.inj id i h hid hi hreg)
      · exact n.unp h hh i hi

/-- **freeing the head** of a chain: its successor (if any) becomes the head of what is left -/
theorem NSH.freeHead {fat : Array Nat} {hs : List Nat} {cur next : Nat} (n : NSH fat (cur :: hs))
    (hcur : fat[cur]? = some next) (hnf : next ≠ FREE) :
    NSH (fat.setIfInBounds cur FREE) ((if next ≤ MAXREG then [next] else []) ++ hs) := by
  have hcl := lt_of_get hcur
  have hnd := List.nodup_cons.mp n.nodup
  have get : ∀ i : Nat, (fat.setIfInBounds cur FREE)[i]? = if cur = i then some FREE else fat[i]? := by
    intro i
    simp only [Array.getElem?_setIfInBounds]
    split
    · rename_i he; subst he; simp
    · rfl
  have hcurunp := n.unp cur (List.mem_cons_self ..)
  -- sectors other than `cur` that were in use still are
  have keep : ∀ x w : Nat, fat[x]? = some w → x ≠ cur → (fat.setIfInBounds cur FREE)[x]? = some w := by
    intro x w hx hne
    rw [get, if_neg (fun he => hne he.symm)]; exact hx
  have hbase : NSH (fat.setIfInBounds cur FREE) hs := by
    refine ⟨by simpa using n.bound, ?_, ?_, hnd.2, ?_, ?_⟩
    · intro i j v hi hj hv
      rw [get] at hi hj
      split at hi
      · cases hi; exact absurd hv (Nat.not_le.mpr MAXREG_lt_FREE)
      · split at hj
        · cases hj; exact absurd hv (Nat.not_le.mpr MAXREG_lt_FREE)
        · exact n.inj i j v hi hj hv
    · intro i v hi hv
      rw [get] at hi
      split at hi
      · cases hi; exact absurd hv (Nat.not_le.mpr MAXREG_lt_FREE)
      · obtain ⟨w, hw, hwf⟩ := n.nd i v hi hv
        have hvne : v ≠ cur := fun he => hcurunp i (he ▸ hi)
        exact ⟨w, keep v w hw hvne, hwf⟩
    · intro h hh
      obtain ⟨w, hw, hwf⟩ := n.used h (List.mem_cons_of_mem _ hh)
      have hne : h ≠ cur := fun he => hnd.1 (he ▸ hh)
      exact ⟨w, keep h w hw hne, hwf⟩
    · intro h hh i hi
      rw [get] at hi
      split at hi
      · cases hi
        have := n.head_reg (List.mem_cons_of_mem cur hh)
        exact absurd this (Nat.not_le.mpr MAXREG_lt_FREE)
      · exact n.unp h (List.mem_cons_of_mem _ hh) i hi
  split
  · rename_i hreg
    have hne : next ≠ cur := fun he => hcurunp cur (he ▸ hcur)
    have hnotin : next ∉ hs := fun hm => n.unp next (List.mem_cons_of_mem _ hm) cur hcur
    refine ⟨hbase.bound, hbase.inj, hbase.nd, ?_, ?_, ?_⟩
    · exact List.nodup_cons.mpr ⟨hnotin, hnd.2⟩
    · intro h hh
      rcases List.mem_cons.mp hh with rfl | hh
      · obtain ⟨w, hw, hwf⟩ := n.nd cur h hcur hreg
        exact ⟨w, keep h w hw hne, hwf⟩
      · exact hbase.used h hh
    · intro h hh i hi
      rcases List.mem_cons.mp hh with rfl | hh
      · rw [get] at hi
        split at hi
        · cases hi; exact absurd hreg (Nat.not_le.mpr MAXREG_lt_FREE)
        · rename_i hci
          exact hci (n.inj cur i h hcur hi hreg)
      · exact hbase.unp h hh i hi
  · simpa using hbase

end CfbVerif.Phys

/-! ## the sector level -/
namespace CfbVerif.Phys
open CfbVerif.Raw

/-- the fields that name chain heads are untouched -/
def SF (p q : P) : Prop :=
  q.dirStart = p.dirStart ∧ q.miniFatStart = p.miniFatStart ∧ q.rootStart = p.rootStart ∧ q.starts = p.starts

theorem SF.refl (p : P) : SF p p := ⟨rfl, rfl, rfl, rfl⟩
theorem SF.trans {p q r : P} (h1 : SF p q) (h2 : SF q r) : SF p r :=
  ⟨h2.1.trans h1.1, h2.2.1.trans h1.2.1, h2.2.2.1.trans h1.2.2.1, h2.2.2.2.trans h1.2.2.2⟩

theorem sf_setFat {p p' : P} {i v : Nat} (h : setFat p i v = .ok p') : SF p p' := by
  rcases setFat_ok h with ⟨_, he⟩ | ⟨_, he⟩ <;> subst he <;> exact ⟨rfl, rfl, rfl, rfl⟩

theorem sf_initSector {p p' : P} {id : Nat} {k : Init} (h : initSector p id k = .ok p') : SF p p' := by
  rcases initSector_ok h with ⟨_, he⟩ | ⟨_, he⟩ <;> subst he <;> exact ⟨rfl, rfl, rfl, rfl⟩

theorem sf_writeSector {p p' : P} {id off : Nat} {bs : Bytes} (h : writeSector p id off bs = .ok p') : SF p p' := by
  unfold writeSector at h
  split at h
  · cases h
  · cases h; exact ⟨rfl, rfl, rfl, rfl⟩

theorem sf_appendFatSector {p p' : P} (h : appendFatSector p = .ok p') : SF p p' := by
  unfold appendFatSector at h
  obtain ⟨p1, h1, h⟩ := bind_ok h
  obtain ⟨p2, h2, h⟩ := bind_ok h
  have s12 : SF p p2 := (sf_initSector h1).trans ((SF.refl _ : SF _ { p1 with difat := p1.difat ++ [p.fat.size] }).trans (sf_setFat h2))
  split at h
  · cases h; exact s12
  · dsimp only at h
    split at h
    · obtain ⟨p3, h3, h⟩ := bind_ok h
      obtain ⟨p4, h4, h⟩ := bind_ok h
      cases h
      exact ((s12.trans (sf_initSector h3)).trans (sf_setFat h4)).trans ⟨rfl, rfl, rfl, rfl⟩
    · cases h; exact s12

theorem sf_allocateSector {p p' : P} {id : Nat} {k : Init} (h : allocateSector p k = .ok (p', id)) : SF p p' := by
  unfold allocateSector at h
  split at h
  · obtain ⟨p1, h1, h⟩ := bind_ok h
    obtain ⟨p2, h2, h⟩ := bind_ok h
    cases h
    exact ((SF.refl _ : SF p { p with free := p.free.dropLast }).trans (sf_setFat h1)).trans (sf_initSector h2)
  · split at h
    · obtain ⟨p0, h0, h⟩ := bind_ok h
      obtain ⟨p1, h1, h⟩ := bind_ok h
      obtain ⟨p2, h2, h⟩ := bind_ok h
      cases h
      exact ((sf_appendFatSector h0).trans (sf_setFat h1)).trans (sf_initSector h2)
    · obtain ⟨p0, h0, h⟩ := bind_ok h
      cases h0
      obtain ⟨p1, h1, h⟩ := bind_ok h
      obtain ⟨p2, h2, h⟩ := bind_ok h
      cases h
      exact (sf_setFat h1).trans (sf_initSector h2)

/-- what `append_fat_sector` does to the FAT: one FATSECT cell, and a DIFSECT cell when a DIFAT
sector is added too -/
theorem appendFatSector_fat {p p' : P} (h0 : appendFatSector p = .ok p') :
    p'.fat = p.fat.push FATSECT ∨ p'.fat = (p.fat.push FATSECT).push DIFSECT := by
  unfold appendFatSector at h0
  obtain ⟨q1, g1, h0⟩ := bind_ok h0
  obtain ⟨q2, g2, h0⟩ := bind_ok h0
  have e1 : q1.fat = p.fat := initSector_fat g1
  have e2 : q2.fat = p.fat.push FATSECT := by
    rcases setFat_ok g2 with ⟨_, he⟩ | ⟨hl, _⟩
    · subst he; simp [e1]
    · simp [e1] at hl
  split at h0
  · cases h0; exact Or.inl e2
  · dsimp only at h0
    split at h0
    · obtain ⟨q3, g3, h0⟩ := bind_ok h0
      obtain ⟨q4, g4, h0⟩ := bind_ok h0
      cases h0
      have e3 : q3.fat = q2.fat := initSector_fat g3
      rcases setFat_ok g4 with ⟨_, he⟩ | ⟨hl, _⟩
      · subst he; right; simp only [e3, e2]
      · rw [e3, e2] at hl; simp at hl
    · cases h0; exact Or.inl e2

/-- cells that `allocate_sector` adds besides the one it hands out are table markers -/
theorem allocateSector_new {p p' : P} {id : Nat} {k : Init} (inv : Inv p) (h : allocateSector p k = .ok (p', id))
    (j v : Nat) (hj : p.fat.size ≤ j) (hne : j ≠ id) (hv : p'.fat[j]? = some v) : MAXREG < v := by
  by_cases hfree : p.free = []
  · unfold allocateSector at h
    simp only [hfree, List.getLast?_nil] at h
    have tail : ∀ {p0 : P}, (∀ j v, p.fat.size ≤ j → p0.fat[j]? = some v → MAXREG < v) →
        (setFat p0 p0.fat.size END >>= fun p1 => initSector p1 p0.fat.size k >>= fun p2 => pure (p2, p0.fat.size)) = .ok (p', id) →
        MAXREG < v := by
      intro p0 hmark h
      obtain ⟨p1, h1, h⟩ := bind_ok h
      obtain ⟨p2, h2, h⟩ := bind_ok h
      cases h
      rw [initSector_fat h2] at hv
      rcases setFat_ok h1 with ⟨_, he⟩ | ⟨hl, _⟩
      · subst he
        simp only [Array.getElem?_push] at hv
        split at hv
        · rename_i he; exact absurd he hne
        · exact hmark j v hj hv
      · omega
    split at h
    · obtain ⟨p0, h0, h⟩ := bind_ok h
      refine tail ?_ h
      intro j v hj hv
      rcases appendFatSector_fat h0 with e | e
      · rw [e] at hv
        simp only [Array.getElem?_push] at hv
        split at hv
        · cases hv; exact MAXREG_lt_FATSECT
        · have := lt_of_get hv; omega
      · rw [e] at hv
        simp only [Array.getElem?_push] at hv
        split at hv
        · cases hv; exact MAXREG_lt_DIFSECT
        · split at hv
          · cases hv; exact MAXREG_lt_FATSECT
          · have := lt_of_get hv; omega
    · obtain ⟨p0, h0, h⟩ := bind_ok h
      cases h0
      refine tail ?_ h
      intro j v hj hv
      have := lt_of_get hv; omega
  · have r := allocateSector_reuse inv.fat hfree h
    rw [r.2.2.2.2.1] at hv
    have := lt_of_get hv
    simp at this
    omega

/-- `allocate_sector`: the sector handed out is a new head; every other head stays one -/
theorem nsh_allocateSector {p p' : P} {id : Nat} {k : Init} {hs : List Nat} (inv : Inv p)
    (h : allocateSector p k = .ok (p', id)) (hb : p'.fat.size ≤ MAXREG + 1) (n : NSH p.fat hs) :
    NSH p'.fat (id :: hs) := by
  have r := inv_allocateSector inv h
  exact n.claim hb (fun j hj hne => allocateSector_frame inv h j hj hne) r.2.1 r.2.2.1
    (fun j v hj hne hv => allocateSector_new inv h j v hj hne hv)

/-- `extend_chain`: the new sector is linked behind the last one; the heads are the same -/
theorem nsh_extendChain {p p' : P} {start id : Nat} {k : Init} {hs : List Nat} (inv : Inv p)
    (h : extendChain p start k = .ok (p', id)) (hb : p'.fat.size ≤ MAXREG + 1) (n : NSH p.fat hs) :
    NSH p'.fat hs := by
  unfold extendChain at h
  obtain ⟨last, hl, h⟩ := bind_ok h
  obtain ⟨⟨p1, id1⟩, ha, h⟩ := bind_ok h
  obtain ⟨p2, hs', h⟩ := bind_ok h
  cases h
  have hlast := lastOfChain_ok _ _ hl
  have r := inv_allocateSector inv ha
  have hne : last ≠ id := by
    intro he
    subst he
    rcases r.2.2.1 with hfr | hge
    · rw [hlast.2] at hfr; exact END_ne_FREE (Option.some.inj hfr)
    · omega
  have hcell : p1.fat[last]? = some END := by
    rw [allocateSector_frame inv ha last hlast.1 hne]; exact hlast.2
  have hb1 : p1.fat.size ≤ MAXREG + 1 := Nat.le_trans (setFat_mono hs') hb
  have n1 := nsh_allocateSector inv ha hb1 n
  have hp' : p'.fat = p1.fat.setIfInBounds last id := by
    rcases setFat_ok hs' with ⟨he, _⟩ | ⟨_, he⟩
    · have := lt_of_get hcell; omega
    · subst he; rfl
  rw [hp']
  exact n1.link hcell hne

theorem sf_extendChain {p p' : P} {start id : Nat} {k : Init} (h : extendChain p start k = .ok (p', id)) : SF p p' := by
  unfold extendChain at h
  obtain ⟨last, hl, h⟩ := bind_ok h
  obtain ⟨⟨p1, id1⟩, ha, h⟩ := bind_ok h
  obtain ⟨p2, hs, h⟩ := bind_ok h
  cases h
  exact (sf_allocateSector ha).trans (sf_setFat hs)

def hd1 (s : Nat) : List Nat := if s = END then [] else [s]

/-- `free_chain` from a head: the whole chain goes, the other heads stay -/
theorem nsh_freeChain (fuel : Nat) : ∀ {p p' : P} {cur : Nat} {hs : List Nat},
    freeChain p fuel cur = .ok p' → NSH p.fat (hd1 cur ++ hs) → NSH p'.fat hs := by
  induction fuel with
  | zero => intro p p' cur hs h; simp [freeChain] at h
  | succ fuel ih =>
    intro p p' cur hs h n
    unfold freeChain at h
    split at h
    · rename_i he
      cases h
      simpa [hd1, he] using n
    · rename_i hne
      cases hn : nextSector p.fat cur with
      | error k => simp [hn] at h
      | ok next =>
        simp only [hn] at h
        have ns := nextSector_ok hn
        split at h
        · cases h
        · cases h1 : setFat p cur FREE with
          | err e => simp [h1] at h
          | panic s => simp [h1] at h
          | hang s => simp [h1] at h
          | ok p1 =>
            simp only [h1] at h
            have hp1 : p1 = { p with fat := p.fat.setIfInBounds cur FREE } := by
              rcases setFat_ok h1 with ⟨he, _⟩ | ⟨_, he⟩
              · omega
              · exact he
            subst hp1
            have n0 : NSH p.fat (cur :: hs) := by simpa [hd1, hne] using n
            have n1 := n0.freeHead ns.2.1 ns.2.2
            refine ih h ?_
            -- the successor is END, or a regular sector that is now the head of the rest
            have hcase : next = END ∨ (next ≠ END ∧ next ≤ MAXREG) := by
              unfold nextSector at hn
              split at hn
              · dsimp only at hn
                split at hn
                · cases hn
                · rename_i hc
                  cases hn
                  rcases Nat.lt_or_ge MAXREG (p.fat[cur]) with hgt | hle
                  · left
                    rcases Classical.em (p.fat[cur] = END) with he | he
                    · exact he
                    · exact absurd ⟨he, Or.inl hgt⟩ hc
                  · right
                    exact ⟨by have := MAXREG_lt_END; omega, hle⟩
              · cases hn
            rcases hcase with he | ⟨hne', hreg⟩
            · subst he
              have : ¬ (END ≤ MAXREG) := Nat.not_le.mpr MAXREG_lt_END
              simpa [hd1, this] using n1
            · simpa [hd1, hne', hreg] using n1

theorem sf_freeChain (fuel : Nat) : ∀ {p p' : P} {cur : Nat}, freeChain p fuel cur = .ok p' → SF p p' := by
  induction fuel with
  | zero => intro p p' cur h; simp [freeChain] at h
  | succ fuel ih =>
    intro p p' cur h
    unfold freeChain at h
    split at h
    · cases h; exact SF.refl _
    · cases hn : nextSector p.fat cur with
      | error k => simp [hn] at h
      | ok next =>
        simp only [hn] at h
        split at h
        · cases h
        · cases h1 : setFat p cur FREE with
          | err e => simp [h1] at h
          | panic s => simp [h1] at h
          | hang s => simp [h1] at h
          | ok p1 =>
            simp only [h1] at h
            exact ((sf_setFat h1).trans (⟨rfl, rfl, rfl, rfl⟩ : SF p1 { p1 with free := p1.free ++ [cur] })).trans (ih h)

/-- `free_chain_after`: everything behind `id` goes; the heads are the same -/
theorem nsh_freeChainAfter {p p' : P} {id : Nat} {hs : List Nat}
    (h : freeChainAfter p id = .ok p') (n : NSH p.fat hs) : NSH p'.fat hs := by
  unfold freeChainAfter at h
  cases hn : nextSector p.fat id with
  | error k => simp [hn] at h
  | ok next =>
    simp only [hn] at h
    obtain ⟨p1, h1, h⟩ := bind_ok h
    have ns := nextSector_ok hn
    have hp1 : p1 = { p with fat := p.fat.setIfInBounds id END } := by
      rcases setFat_ok h1 with ⟨he, _⟩ | ⟨_, he⟩
      · omega
      · exact he
    subst hp1
    refine nsh_freeChain _ h ?_
    rcases Classical.em (next = END) with he | he
    · subst he
      -- the cell already said END: nothing changes
      have : p.fat.setIfInBounds id END = p.fat := by
        apply Array.ext_getElem?
        intro i
        simp only [Array.getElem?_setIfInBounds]
        split
        · rename_i hi; subst hi
          have h2 := ns.2.1
          simp only [ns.1, Array.getElem?_eq_getElem, Option.some.injEq] at h2
          simp [ns.1, h2]
        · rfl
      simpa [hd1, this] using n
    · have hreg : next ≤ MAXREG := by
        unfold nextSector at hn
        split at hn
        · dsimp only at hn
          split at hn
          · cases hn
          · rename_i hc
            cases hn
            rcases Nat.lt_or_ge MAXREG (p.fat[id]) with hgt | hle
            · exact absurd ⟨he, Or.inl hgt⟩ hc
            · exact hle
        · cases hn
      simpa [hd1, he] using n.cut ns.2.1 hreg

theorem sf_freeChainAfter {p p' : P} {id : Nat} (h : freeChainAfter p id = .ok p') : SF p p' := by
  unfold freeChainAfter at h
  cases hn : nextSector p.fat id with
  | error k => simp [hn] at h
  | ok next =>
    simp only [hn] at h
    obtain ⟨p1, h1, h⟩ := bind_ok h
    exact (sf_setFat h1).trans (sf_freeChain _ h)

end CfbVerif.Phys

/-! ## summaries that compose -/
namespace CfbVerif.Phys
open CfbVerif.Raw

/-- `Keeps p p' a a'`: an operation that turns the heads `a` into `a'` and leaves every other head
(`X`, arbitrary) alone — as long as the FAT stays inside the range of regular sector numbers -/
structure Keeps (p p' : P) (a a' : List Nat) : Prop where
  good : Good p p'
  keep : p'.fat.size ≤ MAXREG + 1 → Inv p → ∀ X, NSH p.fat (a ++ X) → NSH p'.fat (a' ++ X)

theorem small_of_bound {p : P} (h : p.fat.size ≤ MAXREG + 1) : Small p := by
  unfold Small; have := MAXREG_lt_FREE; omega

theorem Keeps.refl (p : P) (a : List Nat) : Keeps p p a a := ⟨Good.refl p, fun _ _ _ n => n⟩

theorem Keeps.trans {p q r : P} {a b c : List Nat} (h1 : Keeps p q a b) (h2 : Keeps q r b c) : Keeps p r a c := by
  refine ⟨h1.good.trans h2.good, ?_⟩
  intro hb inv X n
  have hbq : q.fat.size ≤ MAXREG + 1 := Nat.le_trans h2.good.mono hb
  exact h2.keep hb (h1.good.inv inv (small_of_bound hbq)) X (h1.keep hbq inv X n)

theorem Keeps.of_same {p q : P} (h : SameAlloc p q) (a : List Nat) : Keeps p q a a :=
  ⟨Good.of_same h, fun _ _ _ n => by rw [h.1]; exact n⟩

/-- more heads in front that the operation does not care about -/
theorem Keeps.frame {p p' : P} {a a' : List Nat} (Y : List Nat) (h : Keeps p p' a a') : Keeps p p' (Y ++ a) (Y ++ a') := by
  refine ⟨h.good, ?_⟩
  intro hb inv X n
  have p1 : ((Y ++ a) ++ X).Perm (a ++ (Y ++ X)) := by
    rw [List.append_assoc]
    exact (List.perm_append_comm_assoc Y a X)
  have p2 : (a' ++ (Y ++ X)).Perm ((Y ++ a') ++ X) := by
    rw [List.append_assoc]
    exact (List.perm_append_comm_assoc a' Y X)
  exact (h.keep hb inv (Y ++ X) (n.perm p1)).perm p2

theorem keeps_allocateSector {p p' : P} {id : Nat} {k : Init} (h : allocateSector p k = .ok (p', id)) :
    Keeps p p' [] [id] :=
  ⟨good_allocateSector h, fun hb inv X n => by simpa using nsh_allocateSector inv h hb n⟩

theorem keeps_extendChain {p p' : P} {start id : Nat} {k : Init} (h : extendChain p start k = .ok (p', id))
    (a : List Nat) : Keeps p p' a a :=
  ⟨good_extendChain h, fun hb inv X n => nsh_extendChain inv h hb n⟩

theorem keeps_freeChainFrom {p p' : P} {start : Nat} (h : freeChainFrom p start = .ok p') :
    Keeps p p' (hd1 start) [] :=
  ⟨good_freeChainFrom h, fun _ _ X n => by simpa using nsh_freeChain _ h n⟩

theorem keeps_freeChainAfter {p p' : P} {id : Nat} (h : freeChainAfter p id = .ok p') (a : List Nat) :
    Keeps p p' a a :=
  ⟨good_freeChainAfter h, fun _ _ X n => nsh_freeChainAfter h n⟩

/-! ## regular chains -/

/-- the head of a chain given by its sector list -/
def hdl (ids : List Nat) : List Nat := ids.head?.toList

theorem hdl_append {ids : List Nat} (hne : ids ≠ []) (t : List Nat) : hdl (ids ++ t) = hdl ids := by
  cases ids with
  | nil => exact absurd rfl hne
  | cons a l => rfl

theorem keeps_growOne {kind : Init} {p p' : P} {ids ids' : List Nat} (h : growOne kind p ids = .ok (p', ids')) :
    Keeps p p' (hdl ids) (hdl ids') ∧ SF p p' := by
  unfold growOne at h
  split at h
  · rename_i last hl
    have hne : ids ≠ [] := by intro he; subst he; simp at hl
    split at h
    · rename_i p1 id he
      cases h
      rw [hdl_append hne]
      exact ⟨keeps_extendChain he _, sf_extendChain he⟩
    · cases h
    · cases h
    · cases h
  · rename_i hl
    have he0 : ids = [] := List.getLast?_eq_none_iff.mp hl
    subst he0
    split at h
    · rename_i p1 id he
      cases h
      exact ⟨by simpa [hdl] using keeps_allocateSector he, sf_allocateSector he⟩
    · cases h
    · cases h
    · cases h

theorem keeps_chainWrite (kind : Init) (fuel : Nat) : ∀ {p p' : P} {ids ids' : List Nat} {off : Nat} {bs : Bytes},
    chainWrite kind fuel p ids off bs = .ok (p', ids') → Keeps p p' (hdl ids) (hdl ids') ∧ SF p p' := by
  induction fuel with
  | zero => intro p p' ids ids' off bs h; simp [chainWrite] at h
  | succ fuel ih =>
    intro p p' ids ids' off bs h
    unfold chainWrite at h
    split at h
    · cases h; exact ⟨Keeps.refl _ _, SF.refl _⟩
    · dsimp only at h
      split at h
      · rename_i p1 ids1 hgrow
        have g1 : Keeps p p1 (hdl ids) (hdl ids1) ∧ SF p p1 := by
          split at hgrow
          · exact keeps_growOne hgrow
          · cases hgrow; exact ⟨Keeps.refl _ _, SF.refl _⟩
        split at h
        · cases h
        · split at h
          · rename_i p2 hw
            have r := ih h
            exact ⟨(g1.1.trans (Keeps.of_same (writeSector_same hw) _)).trans r.1, (g1.2.trans (sf_writeSector hw)).trans r.2⟩
          · cases h
          · cases h
          · cases h
      · cases h
      · cases h
      · cases h

theorem keeps_chainGrow (kind : Init) (fuel : Nat) : ∀ {p p' : P} {ids ids' : List Nat} {target : Nat},
    chainGrow kind fuel p ids target = .ok (p', ids') → Keeps p p' (hdl ids) (hdl ids') ∧ SF p p' := by
  induction fuel with
  | zero => intro p p' ids ids' target h; simp [chainGrow] at h
  | succ fuel ih =>
    intro p p' ids ids' target h
    unfold chainGrow at h
    split at h
    · cases h; exact ⟨Keeps.refl _ _, SF.refl _⟩
    · split at h
      · rename_i p1 ids1 hg
        have g := keeps_growOne hg
        have r := ih h
        exact ⟨g.1.trans r.1, g.2.trans r.2⟩
      · cases h
      · cases h
      · cases h

theorem S_pos (p : P) : 0 < p.S := by
  unfold P.S sectorLenOf
  split <;> decide

/-- `Chain::set_len` to a non-zero length: the chain keeps its head (or gets one) -/
theorem keeps_chainSetLen {p p' : P} {ids ids' : List Nat} {kind : Init} {n : Nat} (hn : 0 < n)
    (h : chainSetLen p ids kind n = .ok (p', ids')) : Keeps p p' (hdl ids) (hdl ids') ∧ SF p p' := by
  unfold chainSetLen at h
  dsimp only at h
  have hpos : (p.S + n - 1) / p.S ≠ 0 := by
    have hS := S_pos p
    intro he
    have := (Nat.div_eq_zero_iff).mp he
    omega
  rw [if_neg hpos] at h
  split at h
  · split at h
    · split at h
      · obtain ⟨q, hf, h⟩ := obind_ok h
        cases h; exact ⟨keeps_freeChainAfter hf _, sf_freeChainAfter hf⟩
      · cases h
    · cases h; exact ⟨Keeps.refl _ _, SF.refl _⟩
  · exact keeps_chainGrow _ _ h

end CfbVerif.Phys

/-! ## the mini level: only the two container chains (MiniFAT, mini stream) touch the FAT -/
namespace CfbVerif.Phys
open CfbVerif.Raw

/-- heads of the chains that belong to the file itself: directory, MiniFAT, mini stream -/
def cont (p : P) : List Nat := p.dirStart :: (hd1 p.miniFatStart ++ hd1 p.rootStart)

structure KK (p p' : P) : Prop where
  k : Keeps p p' (cont p) (cont p')
  starts : p'.starts = p.starts

theorem KK.refl (p : P) : KK p p := ⟨Keeps.refl _ _, rfl⟩
theorem KK.trans {p q r : P} (h1 : KK p q) (h2 : KK q r) : KK p r := ⟨h1.k.trans h2.k, h2.starts.trans h1.starts⟩

theorem cont_of_sf {p q : P} (h : SF p q) : cont q = cont p := by
  unfold cont; rw [h.1, h.2.1, h.2.2.1]

theorem KK.of_same {p q : P} (h : SameAlloc p q) (s : SF p q) : KK p q :=
  ⟨by rw [cont_of_sf s]; exact Keeps.of_same h _, s.2.2.2⟩

theorem KK.of_keeps {p q : P} (h : ∀ a, Keeps p q a a) (s : SF p q) : KK p q :=
  ⟨by rw [cont_of_sf s]; exact h _, s.2.2.2⟩

theorem sf_setMiniFat {p p' : P} {i v : Nat} (h : setMiniFat p i v = .ok p') : SF p p' := by
  have := (setMiniFat_ok h).1
  rw [this]; exact ⟨rfl, rfl, rfl, rfl⟩

theorem sf_popFreeMini {p p1 : P} {fuel : Nat} {r : Option Nat} (h : popFreeMini p fuel = .ok (p1, r)) : SF p p1 := by
  have := (popFreeMini_ok fuel h).1
  rw [this]; exact ⟨rfl, rfl, rfl, rfl⟩

theorem hd1_reg {id : Nat} (h : id ≤ MAXREG) : hd1 id = [id] := by
  unfold hd1; rw [if_neg]; have := MAXREG_lt_END; omega

theorem kk_ensureRootRoom {p p' : P} (h : ensureRootRoom p = .ok p') : KK p p' := by
  unfold ensureRootRoom at h
  split at h
  · rename_i hend
    split at h
    · rename_i p1 id ha
      cases h
      have sf := sf_allocateSector ha
      refine ⟨⟨(good_allocateSector ha).trans (Good.of_same ⟨rfl, rfl, rfl, rfl⟩), ?_⟩, sf.2.2.2⟩
      intro hb inv X n
      have n1 := nsh_allocateSector inv ha hb n
      have hreg : id ≤ MAXREG := n1.head_reg (List.mem_cons_self ..)
      have hc : cont { p1 with rootStart := id } ++ X = (p.dirStart :: hd1 p.miniFatStart) ++ id :: X := by
        simp [cont, sf.1, sf.2.1, hd1_reg hreg]
      have hc0 : cont p ++ X = (p.dirStart :: hd1 p.miniFatStart) ++ X := by
        simp [cont, hend, hd1]
      rw [hc]
      rw [hc0] at n1
      exact n1.perm List.perm_middle.symm
    · cases h
    · cases h
    · cases h
  · split at h
    · split at h
      · split at h
        · split at h
          · rename_i he; cases h
            exact KK.of_keeps (keeps_extendChain he) (sf_extendChain he)
          · cases h
          · cases h
          · cases h
        · cases h; exact KK.refl _
      · cases h
      · cases h
      · cases h
    · cases h; exact KK.refl _

theorem kk_appendMiniSector {p p' : P} (h : appendMiniSector p = .ok p') : KK p p' := by
  unfold appendMiniSector at h
  split at h
  · rename_i hr; cases h
    exact (kk_ensureRootRoom hr).trans (KK.of_same ⟨rfl, rfl, rfl, rfl⟩ ⟨rfl, rfl, rfl, rfl⟩)
  · cases h
  · cases h
  · cases h

theorem kk_ensureMiniFatRoom {p p' : P} (h : ensureMiniFatRoom p = .ok p') : KK p p' := by
  unfold ensureMiniFatRoom at h
  dsimp only at h
  split at h
  · rename_i hend
    split at h
    · rename_i p1 id ha
      cases h
      have sf := sf_allocateSector ha
      refine ⟨⟨(good_allocateSector ha).trans (Good.of_same ⟨rfl, rfl, rfl, rfl⟩), ?_⟩, sf.2.2.2⟩
      intro hb inv X n
      have n1 := nsh_allocateSector inv ha hb n
      have hreg : id ≤ MAXREG := n1.head_reg (List.mem_cons_self ..)
      have hc : cont { p1 with miniFatStart := id } ++ X = [p.dirStart] ++ id :: (hd1 p.rootStart ++ X) := by
        simp [cont, sf.1, sf.2.2.1, hd1_reg hreg]
      have hc0 : cont p ++ X = [p.dirStart] ++ (hd1 p.rootStart ++ X) := by
        simp [cont, hend, hd1]
      rw [hc]
      rw [hc0] at n1
      exact n1.perm List.perm_middle.symm
    · cases h
    · cases h
    · cases h
  · split at h
    · split at h
      · split at h
        · split at h
          · rename_i he; cases h
            exact KK.of_keeps (keeps_extendChain he) (sf_extendChain he)
          · cases h
          · cases h
          · cases h
        · cases h; exact KK.refl _
      · cases h
      · cases h
      · cases h
    · cases h; exact KK.refl _

theorem kk_setMiniFat {p p' : P} {i v : Nat} (h : setMiniFat p i v = .ok p') : KK p p' :=
  KK.of_same (same_setMiniFat h) (sf_setMiniFat h)

theorem kk_allocateMiniSector {p p' : P} {v id : Nat} (h : allocateMiniSector p v = .ok (p', id)) : KK p p' := by
  unfold allocateMiniSector at h
  obtain ⟨⟨p1, reuse⟩, hp, h⟩ := bind_ok h
  have g0 : KK p p1 := KK.of_same (same_popFreeMini hp) (sf_popFreeMini hp)
  dsimp only at h
  split at h
  · obtain ⟨p2, hs, h⟩ := bind_ok h
    cases h
    exact g0.trans (kk_setMiniFat hs)
  · obtain ⟨p2, h2, h⟩ := bind_ok h
    obtain ⟨p3, h3, h⟩ := bind_ok h
    obtain ⟨p4, h4, h⟩ := bind_ok h
    cases h
    exact ((g0.trans (kk_ensureMiniFatRoom h2)).trans (kk_appendMiniSector h3)).trans (kk_setMiniFat h4)

theorem kk_extendMiniChain {p p' : P} {start id : Nat} (h : extendMiniChain p start = .ok (p', id)) : KK p p' := by
  unfold extendMiniChain at h
  obtain ⟨last, hl, h⟩ := bind_ok h
  obtain ⟨⟨p1, i1⟩, ha, h⟩ := bind_ok h
  obtain ⟨p2, hs, h⟩ := bind_ok h
  cases h
  exact (kk_allocateMiniSector ha).trans (kk_setMiniFat hs)

theorem sf_freeMiniSector {p p' : P} {id : Nat} (h : freeMiniSector p id = .ok p') : SF p p' := by
  unfold freeMiniSector at h
  split at h
  · cases h
  · split at h
    · cases h
    · obtain ⟨p1, hs, h⟩ := bind_ok h
      cases h
      have := sf_setMiniFat hs
      exact ⟨this.1, this.2.1, this.2.2.1, this.2.2.2⟩

theorem kk_freeMiniChain (fuel : Nat) : ∀ {p p' : P} {cur : Nat}, freeMiniChain p fuel cur = .ok p' → KK p p' := by
  induction fuel with
  | zero => intro p p' cur h; simp [freeMiniChain] at h
  | succ fuel ih =>
    intro p p' cur h
    unfold freeMiniChain at h
    split at h
    · cases h; exact KK.refl _
    · split at h
      · cases h
      · split at h
        · rename_i p1 hf
          exact (KK.of_same (same_freeMiniSector hf) (sf_freeMiniSector hf)).trans (ih h)
        · cases h
        · cases h
        · cases h

theorem kk_freeMiniChainFrom {p p' : P} {start : Nat} (h : freeMiniChainFrom p start = .ok p') : KK p p' :=
  kk_freeMiniChain _ h

theorem kk_freeMiniChainAfter {p p' : P} {id : Nat} (h : freeMiniChainAfter p id = .ok p') : KK p p' := by
  unfold freeMiniChainAfter at h
  split at h
  · cases h
  · obtain ⟨p1, hs, h⟩ := bind_ok h
    exact (kk_setMiniFat hs).trans (kk_freeMiniChain _ h)

theorem kk_miniWriteAt {p p' : P} {m off : Nat} {bs : Bytes} (h : miniWriteAt p m off bs = .ok p') : KK p p' := by
  unfold miniWriteAt at h
  obtain ⟨⟨sid, base⟩, hl, h⟩ := bind_ok h
  exact KK.of_same (writeSector_same h) (sf_writeSector h)

theorem kk_growOneMini {p p' : P} {ids ids' : List Nat} (h : growOneMini p ids = .ok (p', ids')) : KK p p' := by
  unfold growOneMini at h
  split at h
  · split at h
    · rename_i he; cases h; exact kk_extendMiniChain he
    · cases h
    · cases h
    · cases h
  · split at h
    · rename_i he; cases h; exact kk_allocateMiniSector he
    · cases h
    · cases h
    · cases h

theorem kk_miniChainWrite (fuel : Nat) : ∀ {p p' : P} {ids ids' : List Nat} {off : Nat} {bs : Bytes},
    miniChainWrite fuel p ids off bs = .ok (p', ids') → KK p p' := by
  induction fuel with
  | zero => intro p p' ids ids' off bs h; simp [miniChainWrite] at h
  | succ fuel ih =>
    intro p p' ids ids' off bs h
    unfold miniChainWrite at h
    split at h
    · cases h; exact KK.refl _
    · split at h
      · rename_i p1 ids1 hgrow
        have g1 : KK p p1 := by
          split at hgrow
          · exact kk_growOneMini hgrow
          · cases hgrow; exact KK.refl _
        split at h
        · cases h
        · dsimp only at h
          split at h
          · rename_i p2 hw
            exact (g1.trans (kk_miniWriteAt hw)).trans (ih h)
          · cases h
          · cases h
          · cases h
      · cases h
      · cases h
      · cases h

theorem kk_miniChainGrow (fuel : Nat) : ∀ {p p' : P} {ids ids' : List Nat} {target : Nat},
    miniChainGrow fuel p ids target = .ok (p', ids') → KK p p' := by
  induction fuel with
  | zero => intro p p' ids ids' target h; simp [miniChainGrow] at h
  | succ fuel ih =>
    intro p p' ids ids' target h
    unfold miniChainGrow at h
    split at h
    · cases h; exact KK.refl _
    · split at h
      · rename_i p1 ids1 hg
        split at h
        · rename_i p2 hw
          exact ((kk_growOneMini hg).trans (kk_miniWriteAt hw)).trans (ih h)
        · cases h
        · cases h
        · cases h
      · cases h
      · cases h
      · cases h

theorem kk_miniChainSetLen {p p' : P} {ids ids' : List Nat} {n : Nat}
    (h : miniChainSetLen p ids n = .ok (p', ids')) : KK p p' := by
  unfold miniChainSetLen at h
  dsimp only at h
  split at h
  · split at h
    · obtain ⟨q, hf, h⟩ := obind_ok h
      cases h; exact kk_freeMiniChain _ hf
    · cases h; exact KK.refl _
  · split at h
    · split at h
      · split at h
        · obtain ⟨q, hf, h⟩ := obind_ok h
          cases h; exact kk_freeMiniChainAfter hf
        · cases h
      · cases h; exact KK.refl _
    · exact kk_miniChainGrow _ h

end CfbVerif.Phys

/-! ## streams: which start sectors are heads is decided by the stream lengths -/
namespace CfbVerif.Phys
open CfbVerif.Raw

theorem NSH.sublist {fat : Array Nat} {hs hs' : List Nat} (n : NSH fat hs) (h : hs'.Sublist hs) : NSH fat hs' :=
  n.sub (n.nodup.sublist h) (fun _ hx => h.subset hx)

/-- `L` gives every directory slot the (flushed) length of its stream: a stream of at least
`CUTOFF` bytes lives in a regular chain, whose first sector is a head -/
def isRegStart (L : Nat → Nat) (e : Nat × Nat) : Bool := decide (CUTOFF ≤ L e.1) && (e.2 != END)

def regs (starts : List (Nat × Nat)) (L : Nat → Nat) : List Nat := (starts.filter (isRegStart L)).map (·.2)

def heads (p : P) (L : Nat → Nat) : List Nat := cont p ++ regs p.starts L

def startIn (starts : List (Nat × Nat)) (s : Nat) : Nat := ((starts.find? (·.1 == s)).map (·.2)).getD END

theorem startOf_eq (p : P) (s : Nat) : startOf p s = startIn p.starts s := rfl

def ownOf (starts : List (Nat × Nat)) (L : Nat → Nat) (s : Nat) : List Nat :=
  if CUTOFF ≤ L s ∧ startIn starts s ≠ END then [startIn starts s] else []

def others (starts : List (Nat × Nat)) (s : Nat) : List (Nat × Nat) := starts.filter (·.1 != s)

theorem filter_key_eq {starts : List (Nat × Nat)} {s : Nat} (hk : (starts.map (·.1)).Nodup) :
    starts.filter (·.1 == s) = (starts.find? (·.1 == s)).toList := by
  induction starts with
  | nil => rfl
  | cons e t ih =>
    have hk' := List.nodup_cons.mp (by simpa using hk)
    by_cases he : e.1 = s
    · have hnone : t.filter (·.1 == s) = [] := by
        apply List.filter_eq_nil_iff.mpr
        intro x hx hxs
        have : x.1 = s := by simpa using hxs
        apply hk'.1
        rw [he, ← this]
        exact List.mem_map_of_mem hx
      simp [List.filter_cons, List.find?_cons, he, hnone]
    · have hb : (e.1 == s) = false := by simpa using he
      simp only [List.filter_cons, List.find?_cons, hb]
      exact ih hk'.2

theorem regs_split (starts : List (Nat × Nat)) (L : Nat → Nat) (s : Nat) (hk : (starts.map (·.1)).Nodup) :
    (regs starts L).Perm (ownOf starts L s ++ regs (others starts s) L) := by
  have hp : starts.Perm (starts.filter (·.1 == s) ++ others starts s) := by
    have := List.filter_append_perm (fun e : Nat × Nat => e.1 == s) starts
    unfold others
    have hneg : (fun e : Nat × Nat => !(e.1 == s)) = (fun e : Nat × Nat => e.1 != s) := by
      funext e; rfl
    rw [hneg] at this
    exact this.symm
  have h1 : (regs starts L).Perm (regs (starts.filter (·.1 == s) ++ others starts s) L) := by
    unfold regs
    exact (hp.filter _).map _
  have h2 : regs (starts.filter (·.1 == s) ++ others starts s) L =
      regs (starts.filter (·.1 == s)) L ++ regs (others starts s) L := by
    unfold regs; rw [List.filter_append, List.map_append]
  have h3 : regs (starts.filter (·.1 == s)) L = ownOf starts L s := by
    rw [filter_key_eq hk]
    unfold ownOf startIn regs
    cases hf : starts.find? (·.1 == s) with
    | none => simp
    | some e =>
      have hes : e.1 = s := by
        have := List.find?_some hf; simpa using this
      simp only [Option.toList, Option.map, Option.getD, List.filter_cons, List.filter_nil, isRegStart, hes]
      by_cases h1 : CUTOFF ≤ L s
      · by_cases h2 : e.2 = END
        · simp [h1, h2]
        · simp [h1, h2]
      · simp [h1]
  rw [h2, h3] at h1
  exact h1

theorem regs_others_congr (starts : List (Nat × Nat)) {L L' : Nat → Nat} {s : Nat}
    (hL : ∀ t, t ≠ s → L' t = L t) : regs (others starts s) L' = regs (others starts s) L := by
  unfold regs others
  congr 1
  rw [List.filter_filter, List.filter_filter]
  apply List.filter_congr
  intro e _
  by_cases he : e.1 = s
  · simp [he]
  · simp [isRegStart, hL e.1 he]

structure JJ (p : P) (L : Nat → Nat) : Prop where
  inv : Inv p
  ns : NSH p.fat (heads p L)
  keys : (p.starts.map (·.1)).Nodup

/-- the common shape of every stream-level step on slot `s` -/
theorem jj_step {p p' : P} {L L' : Nat → Nat} {s : Nat} {b : List Nat} (j : JJ p L)
    (hL : ∀ t, t ≠ s → L' t = L t)
    (hk : Keeps p p' (cont p ++ ownOf p.starts L s) (cont p' ++ b))
    (hsub : (ownOf p'.starts L' s).Sublist b)
    (ho : others p'.starts s = others p.starts s)
    (hkeys : (p'.starts.map (·.1)).Nodup)
    (hb : p'.fat.size ≤ MAXREG + 1) : JJ p' L' := by
  have hbp : p.fat.size ≤ MAXREG + 1 := Nat.le_trans hk.good.mono hb
  refine ⟨hk.good.inv j.inv (small_of_bound hb), ?_, hkeys⟩
  have n0 : NSH p.fat ((cont p ++ ownOf p.starts L s) ++ regs (others p.starts s) L) := by
    refine j.ns.perm ?_
    unfold heads
    rw [List.append_assoc]
    exact (regs_split p.starts L s j.keys).append_left _
  have n1 := hk.keep hb j.inv _ n0
  have n2 : NSH p'.fat ((cont p' ++ ownOf p'.starts L' s) ++ regs (others p'.starts s) L') := by
    rw [ho, regs_others_congr _ hL]
    refine n1.sublist ?_
    exact ((List.Sublist.refl _).append hsub).append (List.Sublist.refl _)
  refine n2.perm ?_
  unfold heads
  rw [List.append_assoc]
  exact ((regs_split p'.starts L' s hkeys).append_left _).symm

end CfbVerif.Phys
