import CfbVerif.Phys.Content
import CfbVerif.Phys.Zero
/-!
# Growing a chain: the new sectors are zero and nothing else changes (C08 at sector level)

`KeepS p p' id`: the operation handed out sector `id`; afterwards it holds zeros, every sector the
file had before (other than `id`) holds what it held, and `id` was FREE or beyond the FAT — so it
belonged to no chain.  `allocateSector`, `extendChain`, `growOne` are `KeepS`; `chainGrow_zero` lifts
it to `Chain::set_len`'s growing branch: the chain's bytes are the old ones followed by zeros.
-/
namespace CfbVerif.Phys
open CfbVerif.Raw

/-- sectors below `n` other than those in `J` are untouched, and none is lost -/
structure KeepBelow (p p' : P) (n : Nat) (J : List Nat) : Prop where
  v4 : p'.v4 = p.v4
  size : p.sectors.size ≤ p'.sectors.size
  keep : ∀ i, i < n → i < p.sectors.size → i ∉ J → p'.sectors[i]? = p.sectors[i]?

theorem KeepBelow.refl (p : P) (n : Nat) : KeepBelow p p n [] := ⟨rfl, Nat.le_refl _, fun _ _ _ _ => rfl⟩

theorem KeepBelow.trans {p q r : P} {n : Nat} {J1 J2 : List Nat} (h1 : KeepBelow p q n J1) (h2 : KeepBelow q r n J2) :
    KeepBelow p r n (J1 ++ J2) :=
  ⟨h2.v4.trans h1.v4, Nat.le_trans h1.size h2.size, fun i hn hi hj => by
    rw [h2.keep i hn (Nat.lt_of_lt_of_le hi h1.size) (fun h => hj (List.mem_append_right _ h)),
      h1.keep i hn hi (fun h => hj (List.mem_append_left _ h))]⟩

theorem kb_setFat {p p' : P} {i v : Nat} (n : Nat) (h : setFat p i v = .ok p') :
    KeepBelow p p' n [] ∧ p'.sectors = p.sectors ∧ p'.numSectors = p.numSectors := by
  rcases setFat_ok h with ⟨_, he⟩ | ⟨_, he⟩ <;> subst he <;> exact ⟨⟨rfl, Nat.le_refl _, fun _ _ _ _ => rfl⟩, rfl, rfl⟩

theorem kb_initSector {p p' : P} {j : Nat} {k : Init} (n : Nat) (h : initSector p j k = .ok p') :
    KeepBelow p p' n [j] := by
  rcases initSector_ok h with ⟨_, he⟩ | ⟨_, he⟩ <;> subst he
  · refine ⟨rfl, by simp, ?_⟩
    intro i _ hi _
    show (p.sectors.push _)[i]? = _
    rw [Array.getElem?_push_lt hi, Array.getElem?_eq_getElem hi]
  · refine ⟨rfl, by simp, ?_⟩
    intro i _ _ hj
    show (p.sectors.setIfInBounds j _)[i]? = _
    rw [Array.getElem?_setIfInBounds, if_neg (fun e => hj (by simp [e]))]

theorem KeepBelow.weaken {p p' : P} {n : Nat} {J J' : List Nat} (h : KeepBelow p p' n J)
    (hj : ∀ j ∈ J, j ∉ J' → n ≤ j) : KeepBelow p p' n J' :=
  ⟨h.v4, h.size, fun i hn hi hnot => h.keep i hn hi (fun hm => by
    by_cases hjj : i ∈ J'
    · exact hnot hjj
    · have := hj i hm hjj; omega)⟩

theorem kb_appendFatSector {p p' : P} (h : appendFatSector p = .ok p') : KeepBelow p p' p.fat.size [] := by
  unfold appendFatSector at h
  obtain ⟨p1, h1, h⟩ := bind_ok h
  obtain ⟨p2, h2, h⟩ := bind_ok h
  have k1 := kb_initSector p.fat.size h1
  have f1 : p1.fat = p.fat := initSector_fat h1
  have k2 := (kb_setFat p.fat.size h2).1
  have kmid : KeepBelow p1 { p1 with difat := p1.difat ++ [p.fat.size] } p.fat.size [] :=
    ⟨rfl, Nat.le_refl _, fun _ _ _ _ => rfl⟩
  have k12 : KeepBelow p p2 p.fat.size [] :=
    (k1.trans (kmid.trans k2)).weaken (by
      intro j hj _
      simp at hj
      omega)
  split at h
  · cases h; exact k12
  · dsimp only at h
    split at h
    · obtain ⟨p3, h3, h⟩ := bind_ok h
      obtain ⟨p4, h4, h⟩ := bind_ok h
      cases h
      have hm2 : p.fat.size ≤ p2.fat.size := by
        have := setFat_mono h2
        simp only at this
        rw [f1] at this
        exact this
      have k3 := kb_initSector p.fat.size h3
      have k4 := (kb_setFat p.fat.size h4).1
      have k34 : KeepBelow p2 p4 p.fat.size [] := (k3.trans k4).weaken (by
        intro j hj _
        simp at hj
        omega)
      have := k12.trans k34
      exact ⟨this.v4, this.size, fun i hn hi _ => this.keep i hn hi (by simp)⟩
    · cases h; exact k12

/-- **`allocate_sector` (for data): the sector handed out holds zeros, every sector the file had
keeps its contents, and the sector was FREE or is new** -/
theorem kb_allocateSector {p p' : P} {id : Nat} (inv : Inv p) (h : allocateSector p .zero = .ok (p', id)) :
    KeepBelow p p' p.numSectors [id] ∧ p'.sectors[id]? = some (zeroSector p.S) := by
  have hsz : p.fat.size = p.numSectors := inv.fat.size
  by_cases hfree : p.free = []
  · unfold allocateSector at h
    simp only [hfree, List.getLast?_nil] at h
    -- the tail: set the new cell, initialise the new sector
    have tail : ∀ (q : P), Inv q → KeepBelow p q p.fat.size [] → p.fat.size ≤ q.fat.size → q.S = p.S →
        ((do let q1 ← setFat q q.fat.size END; let q2 ← initSector q1 q.fat.size .zero; pure (q2, q.fat.size)) : Outcome (P × Nat)) = .ok (p', id) →
        KeepBelow p p' p.numSectors [id] ∧ p'.sectors[id]? = some (zeroSector p.S) := by
      intro q invq kq hq hS hh
      obtain ⟨q1, hq1, hh⟩ := bind_ok hh
      obtain ⟨q2, hq2, hh⟩ := bind_ok hh
      cases hh
      have s1 := kb_setFat p.fat.size hq1
      have k2 := kb_initSector p.fat.size hq2
      have hs1 : q1.sectors.size = q1.numSectors := by rw [s1.2.1, s1.2.2]; exact invq.fat.secs
      have z := (initSector_zero hs1 hq2).1
      have hS1 : q1.S = p.S := by
        have : q1.v4 = q.v4 := s1.1.v4
        unfold P.S at hS ⊢; rw [this]; exact hS
      rw [hS1] at z
      refine ⟨?_, z⟩
      rw [← hsz]
      exact ((kq.trans s1.1).trans k2).weaken (by
        intro j hj hnot
        simp at hj
        simp at hnot
        exact absurd hj hnot)
    split at h
    · obtain ⟨p0, h0, h⟩ := bind_ok h
      have i0 := inv_appendFatSector inv hfree h0
      have k0 := kb_appendFatSector h0
      have hS0 : p0.S = p.S := by unfold P.S; rw [k0.v4]
      exact tail p0 i0.1 k0 (appendFatSector_size h0) hS0 h
    · obtain ⟨p0, h0, h⟩ := bind_ok h
      cases h0
      exact tail p inv (KeepBelow.refl p _) (Nat.le_refl _) rfl h
  · have z := allocateSector_reuse_zero inv.fat hfree h
    refine ⟨?_, z⟩
    unfold allocateSector at h
    cases hl : p.free.getLast? with
    | none => exact absurd (List.getLast?_eq_none_iff.mp hl) hfree
    | some x =>
      simp only [hl] at h
      obtain ⟨p1, h1, h⟩ := bind_ok h
      obtain ⟨p2, h2, h⟩ := bind_ok h
      cases h
      have s1 := kb_setFat p.numSectors h1
      have k2 := kb_initSector p.numSectors h2
      have k0 : KeepBelow p { p with free := p.free.dropLast } p.numSectors [] := ⟨rfl, Nat.le_refl _, fun _ _ _ _ => rfl⟩
      have := (k0.trans s1.1).trans k2
      exact ⟨this.v4, this.size, fun i hn hi hj => this.keep i hn hi (by simpa using hj)⟩

/-- one more sector for a chain (data): zeros in the new sector, everything else as it was -/
theorem kb_growOne {p p' : P} {ids ids' : List Nat} (inv : Inv p) (h : growOne .zero p ids = .ok (p', ids')) :
    ∃ id, ids' = ids ++ [id] ∧ KeepBelow p p' p.numSectors [id] ∧ p'.sectors[id]? = some (zeroSector p.S) ∧
      (p.fat[id]? = some FREE ∨ p.fat.size ≤ id) := by
  unfold growOne at h
  split at h
  · split at h
    · rename_i q id he
      cases h
      unfold extendChain at he
      obtain ⟨lst, _, he⟩ := bind_ok he
      obtain ⟨⟨q1, id1⟩, ha, he⟩ := bind_ok he
      obtain ⟨q2, hs, he⟩ := bind_ok he
      have hq : q2 = p' ∧ id1 = id := by cases he; exact ⟨rfl, rfl⟩
      obtain ⟨rfl, rfl⟩ := hq
      have r := kb_allocateSector inv ha
      have f := (inv_allocateSector inv ha).2.2.1
      have s2 := kb_setFat p.numSectors hs
      refine ⟨id1, rfl, ?_, ?_, f⟩
      · have := r.1.trans s2.1
        exact ⟨this.v4, this.size, fun i hn hi hj => this.keep i hn hi (by simpa using hj)⟩
      · rw [s2.2.1]; exact r.2
    · cases h
    · cases h
    · cases h
  · split at h
    · rename_i q id he
      cases h
      have r := kb_allocateSector inv he
      exact ⟨id, rfl, r.1, r.2, (inv_allocateSector inv he).2.2.1⟩
    · cases h
    · cases h
    · cases h

/-- all zeros -/
def zeros (n : Nat) : List UInt8 := List.replicate n 0

theorem zeroSector_toList (n : Nat) : (zeroSector n).toList = zeros n := by
  rw [toList_eq_data]
  simp [zeroSector, zeros]

/-- **`Chain::set_len`'s growing branch on a tracked chain: the new sectors hold zeros**, and every
sector of the old chain and of every other owner's chain (`X`) keeps its contents -/
theorem chainGrow_zero (fuel : Nat) : ∀ {p p' : P} {ids ids' : List Nat} {target : Nat},
    chainGrow .zero fuel p ids target = .ok (p', ids') → p'.fat.size ≤ MAXREG + 1 → Inv p →
    ∀ X, NC p.fat (hdl ids ++ X) → Tr p.fat ids →
    ∃ news, ids' = ids ++ news ∧ p'.v4 = p.v4 ∧
      (∀ x ∈ news, p'.sectors[x]? = some (zeroSector p.S)) ∧
      (∀ x ∈ ids, p'.sectors[x]? = p.sectors[x]?) ∧
      (∀ h ∈ X, ∀ l, IsChain p.fat h l → ∀ x ∈ l, p'.sectors[x]? = p.sectors[x]?) := by
  induction fuel with
  | zero => intro p p' ids ids' target h; simp [chainGrow] at h
  | succ fuel ih =>
    intro p p' ids ids' target h hb inv X n tr
    unfold chainGrow at h
    split at h
    · cases h
      exact ⟨[], by simp, rfl, (fun _ hx => by cases hx), (fun _ _ => rfl), (fun _ _ _ _ _ _ => rfl)⟩
    · split at h
      · rename_i p1 ids1 hg
        have g2 : Good p1 p' := good_chainGrow _ _ h
        have hb1 : p1.fat.size ≤ MAXREG + 1 := Nat.le_trans g2.mono hb
        obtain ⟨⟨_, _⟩, tr1, v1, pr1⟩ := growOne_v hg hb1 inv X n tr
        have k1 := (kc_growOne hg).1
        have inv1 : Inv p1 := k1.good.inv inv (small_of_bound hb1)
        have n1 : NC p1.fat (hdl ids1 ++ X) := k1.keep hb1 inv X n
        obtain ⟨id, e, kb, hz, hfresh⟩ := kb_growOne inv hg
        obtain ⟨news, e', v', hzs, hkeepIds, hkeepX⟩ := ih h hb inv1 X n1 tr1
        have hS1 : p1.S = p.S := by unfold P.S; rw [v1]
        -- a cell that is in use in `p` is not the one handed out, and lies inside the file
        have used1 : ∀ x : Nat, (∃ w : Nat, p.fat[x]? = some w ∧ w ≠ FREE) → p1.sectors[x]? = p.sectors[x]? := by
          intro x ⟨w, hw, hne⟩
          have hlt : x < p.fat.size := lt_of_get hw
          have hlt' : x < p.numSectors := by rw [← inv.fat.size]; exact hlt
          refine kb.keep x hlt' (by rw [inv.fat.secs]; exact hlt') ?_
          intro hm
          simp only [List.mem_singleton] at hm
          subst hm
          rcases hfresh with hf | hf
          · rw [hw] at hf; exact hne (Option.some.inj hf)
          · omega
        have hidmem : id ∈ ids1 := by rw [e]; simp
        refine ⟨id :: news, by rw [e', e]; simp, by rw [v', v1], ?_, ?_, ?_⟩
        · intro x hx
          rcases List.mem_cons.mp hx with rfl | hx
          · rw [hkeepIds x hidmem]; exact hz
          · rw [hzs x hx, hS1]
        · intro x hx
          have hx1 : x ∈ ids1 := by rw [e]; exact List.mem_append_left _ hx
          rw [hkeepIds x hx1]
          cases hids : ids with
          | nil => rw [hids] at hx; cases hx
          | cons hd t =>
            have c := tr hd (by rw [hids]; simp [hdl])
            exact used1 x (c.used x hx)
        · intro hh hhX l c x hx
          rw [hkeepX hh hhX l (pr1 hh hhX l c) x hx]
          exact used1 x (c.used x hx)
      · cases h
      · cases h
      · cases h

end CfbVerif.Phys
