import CfbVerif.Phys.Content
import CfbVerif.Phys.Zero
/-!
# Growing a chain: the new sectors are zero and nothing else changes (C08 at sector level)

`KeepS p p' id`: the operation handed out sector `id`; afterwards it holds zeros, every sector the
file had before (other than `id`) holds what it held, and `id` was FREE or beyond the FAT — so it
belonged to no chain.  `allocateSector`, `extendChain`, `growOne` are `KeepS`; `chainGrow_zero` lifts
it to `Chain::set_len`'s growing branch: the chain's bytes are the old ones followed by zeros.
-/
namespace CfbVerif.Phys
open CfbVerif.Raw

/-- sectors below `n` other than those in `J` are untouched, and none is lost -/
structure KeepBelow (p p' : P) (n : Nat) (J : List Nat) : Prop where
  v4 : p'.v4 = p.v4
  size : p.sectors.size ≤ p'.sectors.size
  keep : ∀ i, i < n → i < p.sectors.size → i ∉ J → p'.sectors[i]? = p.sectors[i]?

theorem KeepBelow.refl (p : P) (n : Nat) : KeepBelow p p n [] := ⟨rfl, Nat.le_refl _, fun _ _ _ _ => rfl⟩

theorem KeepBelow.trans {p q r : P} {n : Nat} {J1 J2 : List Nat} (h1 : KeepBelow p q n J1) (h2 : KeepBelow q r n J2) :
    KeepBelow p r n (J1 ++ J2) :=
  ⟨h2.v4.trans h1.v4, Nat.le_trans h1.size h2.size, fun i hn hi hj => by
    rw [h2.keep i hn (Nat.lt_of_lt_of_le hi h1.size) (fun h => hj (List.mem_append_right _ h)),
      h1.keep i hn hi (fun h => hj (List.mem_append_left _ h))]⟩

theorem kb_setFat {p p' : P} {i v : Nat} (n : Nat) (h : setFat p i v = .ok p') :
    KeepBelow p p' n [] ∧ p'.sectors = p.sectors ∧ p'.numSectors = p.numSectors := by
  rcases setFat_ok h with ⟨_, he⟩ | ⟨_, he⟩ <;> subst he <;> exact ⟨⟨rfl, Nat.le_refl _, fun _ _ _ _ => rfl⟩, rfl, rfl⟩

theorem kb_initSector {p p' : P} {j : Nat} {k : Init} (n : Nat) (h : initSector p j k = .ok p') :
    KeepBelow p p' n [j] := by
  rcases initSector_ok h with ⟨_, he⟩ | ⟨_, he⟩ <;> subst he
  · refine ⟨rfl, by simp, ?_⟩
    intro i _ hi _
    show (p.sectors.push _)[i]? = _
    rw [Array.getElem?_push_lt hi, Array.getElem?_eq_getElem hi]
  · refine ⟨rfl, by simp, ?_⟩
    intro i _ _ hj
    show (p.sectors.setIfInBounds j _)[i]? = _
    rw [Array.getElem?_setIfInBounds, if_neg (fun e => hj (by simp [e]))]

theorem KeepBelow.weaken {p p' : P} {n : Nat} {J J' : List Nat} (h : KeepBelow p p' n J)
    (hj : ∀ j ∈ J, j ∉ J' → n ≤ j) : KeepBelow p p' n J' :=
  ⟨h.v4, h.size, fun i hn hi hnot => h.keep i hn hi (fun hm => by
    by_cases hjj : i ∈ J'
    · exact hnot hjj
    · have := hj i hm hjj; omega)⟩

theorem kb_appendFatSector {p p' : P} (h : appendFatSector p = .ok p') : KeepBelow p p' p.fat.size [] := by
  unfold appendFatSector at h
  obtain ⟨p1, h1, h⟩ := bind_ok h
  obtain ⟨p2, h2, h⟩ := bind_ok h
  have k1 := kb_initSector p.fat.size h1
  have f1 : p1.fat = p.fat := initSector_fat h1
  have k2 := (kb_setFat p.fat.size h2).1
  have kmid : KeepBelow p1 { p1 with difat := p1.difat ++ [p.fat.size] } p.fat.size [] :=
    ⟨rfl, Nat.le_refl _, fun _ _ _ _ => rfl⟩
  have k12 : KeepBelow p p2 p.fat.size [] :=
    (k1.trans (kmid.trans k2)).weaken (by
      intro j hj _
      simp at hj
      omega)
  split at h
  · cases h; exact k12
  · dsimp only at h
    split at h
    · obtain ⟨p3, h3, h⟩ := bind_ok h
      obtain ⟨p4, h4, h⟩ := bind_ok h
      cases h
      have hm2 : p.fat.size ≤ p2.fat.size := by
        have := setFat_mono h2
        simp only at this
        rw [f1] at this
        exact this
      have k3 := kb_initSector p.fat.size h3
      have k4 := (kb_setFat p.fat.size h4).1
      have k34 : KeepBelow p2 p4 p.fat.size [] := (k3.trans k4).weaken (by
        intro j hj _
        simp at hj
        omega)
      have := k12.trans k34
      exact ⟨this.v4, this.size, fun i hn hi _ => this.keep i hn hi (by simp)⟩
    · cases h; exact k12

/-- **`allocate_sector` (for data): the sector handed out holds zeros, every sector the file had
keeps its contents, and the sector was FREE or is new** -/
theorem kb_allocateSector {p p' : P} {id : Nat} (inv : Inv p) (h : allocateSector p .zero = .ok (p', id)) :
    KeepBelow p p' p.numSectors [id] ∧ p'.sectors[id]? = some (zeroSector p.S) := by
  have hsz : p.fat.size = p.numSectors := inv.fat.size
  by_cases hfree : p.free = []
  · unfold allocateSector at h
    simp only [hfree, List.getLast?_nil] at h
    -- the tail: set the new cell, initialise the new sector
    have tail : ∀ (q : P), Inv q → KeepBelow p q p.fat.size [] → p.fat.size ≤ q.fat.size → q.S = p.S →
        ((do let q1 ← setFat q q.fat.size END; let q2 ← initSector q1 q.fat.size .zero; pure (q2, q.fat.size)) : Outcome (P × Nat)) = .ok (p', id) →
        KeepBelow p p' p.numSectors [id] ∧ p'.sectors[id]? = some (zeroSector p.S) := by
      intro q invq kq hq hS hh
      obtain ⟨q1, hq1, hh⟩ := bind_ok hh
      obtain ⟨q2, hq2, hh⟩ := bind_ok hh
      cases hh
      have s1 := kb_setFat p.fat.size hq1
      have k2 := kb_initSector p.fat.size hq2
      have hs1 : q1.sectors.size = q1.numSectors := by rw [s1.2.1, s1.2.2]; exact invq.fat.secs
      have z := (initSector_zero hs1 hq2).1
      have hS1 : q1.S = p.S := by
        have : q1.v4 = q.v4 := s1.1.v4
        unfold P.S at hS ⊢; rw [this]; exact hS
      rw [hS1] at z
      refine ⟨?_, z⟩
      rw [← hsz]
      exact ((kq.trans s1.1).trans k2).weaken (by
        intro j hj hnot
        simp at hj
        simp at hnot
        exact absurd hj hnot)
    split at h
    · obtain ⟨p0, h0, h⟩ := bind_ok h
      have i0 := inv_appendFatSector inv hfree h0
      have k0 := kb_appendFatSector h0
      have hS0 : p0.S = p.S := by unfold P.S; rw [k0.v4]
      exact tail p0 i0.1 k0 (appendFatSector_size h0) hS0 h
    · obtain ⟨p0, h0, h⟩ := bind_ok h
      cases h0
      exact tail p inv (KeepBelow.refl p _) (Nat.le_refl _) rfl h
  · have z := allocateSector_reuse_zero inv.fat hfree h
    refine ⟨?_, z⟩
    unfold allocateSector at h
    cases hl : p.free.getLast? with
    | none => exact absurd (List.getLast?_eq_none_iff.mp hl) hfree
    | some x =>
      simp only [hl] at h
      obtain ⟨p1, h1, h⟩ := bind_ok h
      obtain ⟨p2, h2, h⟩ := bind_ok h
      cases h
      have s1 := kb_setFat p.numSectors h1
      have k2 := kb_initSector p.numSectors h2
      have k0 : KeepBelow p { p with free := p.free.dropLast } p.numSectors [] := ⟨rfl, Nat.le_refl _, fun _ _ _ _ => rfl⟩
      have := (k0.trans s1.1).trans k2
      exact ⟨this.v4, this.size, fun i hn hi hj => this.keep i hn hi (by simpa using hj)⟩

/-- one more sector for a chain (data): zeros in the new sector, everything else as it was -/
theorem kb_growOne {p p' : P} {ids ids' : List Nat} (inv : Inv p) (h : growOne .zero p ids = .ok (p', ids')) :
    ∃ id, ids' = ids ++ [id] ∧ KeepBelow p p' p.numSectors [id] ∧ p'.sectors[id]? = some (zeroSector p.S) ∧
      (p.fat[id]? = some FREE ∨ p.fat.size ≤ id) := by
  unfold growOne at h
  split at h
  · split at h
    · rename_i q id he
      cases h
      unfold extendChain at he
      obtain ⟨lst, _, he⟩ := bind_ok he
      obtain ⟨⟨q1, id1⟩, ha, he⟩ := bind_ok he
      obtain ⟨q2, hs, he⟩ := bind_ok he
      have hq : q2 = p' ∧ id1 = id := by cases he; exact ⟨rfl, rfl⟩
      obtain ⟨rfl, rfl⟩ := hq
      have r := kb_allocateSector inv ha
      have f := (inv_allocateSector inv ha).2.2.1
      have s2 := kb_setFat p.numSectors hs
      refine ⟨id1, rfl, ?_, ?_, f⟩
      · have := r.1.trans s2.1
        exact ⟨this.v4, this.size, fun i hn hi hj => this.keep i hn hi (by simpa using hj)⟩
      · rw [s2.2.1]; exact r.2
    · cases h
    · cases h
    · cases h
  · split at h
    · rename_i q id he
      cases h
      have r := kb_allocateSector inv he
      exact ⟨id, rfl, r.1, r.2, (inv_allocateSector inv he).2.2.1⟩
    · cases h
    · cases h
    · cases h

/-- all zeros -/
def zeros (n : Nat) : List UInt8 := List.replicate n 0

theorem zeroSector_toList (n : Nat) : (zeroSector n).toList = zeros n := by
  rw [toList_eq_data]
  simp [zeroSector, zeros]

/-- **`Chain::set_len`'s growing branch on a tracked chain: the new sectors hold zeros**, and every
sector of the old chain and of every other owner's chain (`X`) keeps its contents -/
theorem chainGrow_zero (fuel : Nat) : ∀ {p p' : P} {ids ids' : List Nat} {target : Nat},
    chainGrow .zero fuel p ids target = .ok (p', ids') → p'.fat.size ≤ MAXREG + 1 → Inv p →
    ∀ X, NC p.fat (hdl ids ++ X) → Tr p.fat ids →
    ∃ news, ids' = ids ++ news ∧ p'.v4 = p.v4 ∧
      (∀ x ∈ news, p'.sectors[x]? = some (zeroSector p.S)) ∧
      (∀ x ∈ ids, p'.sectors[x]? = p.sectors[x]?) ∧
      (∀ h ∈ X, ∀ l, IsChain p.fat h l → ∀ x ∈ l, p'.sectors[x]? = p.sectors[x]?) := by
  induction fuel with
  | zero => intro p p' ids ids' target h; simp [chainGrow] at h
  | succ fuel ih =>
    intro p p' ids ids' target h hb inv X n tr
    unfold chainGrow at h
    split at h
    · cases h
      exact ⟨[], by simp, rfl, (fun _ hx => by cases hx), (fun _ _ => rfl), (fun _ _ _ _ _ _ => rfl)⟩
    · split at h
      · rename_i p1 ids1 hg
        have g2 : Good p1 p' := good_chainGrow _ _ h
        have hb1 : p1.fat.size ≤ MAXREG + 1 := Nat.le_trans g2.mono hb
        obtain ⟨⟨_, _⟩, tr1, v1, pr1⟩ := growOne_v hg hb1 inv X n tr
        have k1 := (kc_growOne hg).1
        have inv1 : Inv p1 := k1.good.inv inv (small_of_bound hb1)
        have n1 : NC p1.fat (hdl ids1 ++ X) := k1.keep hb1 inv X n
        obtain ⟨id, e, kb, hz, hfresh⟩ := kb_growOne inv hg
        obtain ⟨news, e', v', hzs, hkeepIds, hkeepX⟩ := ih h hb inv1 X n1 tr1
        have hS1 : p1.S = p.S := by unfold P.S; rw [v1]
        -- a cell that is in use in `p` is not the one handed out, and lies inside the file
        have used1 : ∀ x : Nat, (∃ w : Nat, p.fat[x]? = some w ∧ w ≠ FREE) → p1.sectors[x]? = p.sectors[x]? := by
          intro x ⟨w, hw, hne⟩
          have hlt : x < p.fat.size := lt_of_get hw
          have hlt' : x < p.numSectors := by rw [← inv.fat.size]; exact hlt
          refine kb.keep x hlt' (by rw [inv.fat.secs]; exact hlt') ?_
          intro hm
          simp only [List.mem_singleton] at hm
          subst hm
          rcases hfresh with hf | hf
          · rw [hw] at hf; exact hne (Option.some.inj hf)
          · omega
        have hidmem : id ∈ ids1 := by rw [e]; simp
        refine ⟨id :: news, by rw [e', e]; simp, by rw [v', v1], ?_, ?_, ?_⟩
        · intro x hx
          rcases List.mem_cons.mp hx with rfl | hx
          · rw [hkeepIds x hidmem]; exact hz
          · rw [hzs x hx, hS1]
        · intro x hx
          have hx1 : x ∈ ids1 := by rw [e]; exact List.mem_append_left _ hx
          rw [hkeepIds x hx1]
          cases hids : ids with
          | nil => rw [hids] at hx; cases hx
          | cons hd t =>
            have c := tr hd (by rw [hids]; simp [hdl])
            exact used1 x (c.used x hx)
        · intro hh hhX l c x hx
          rw [hkeepX hh hhX l (pr1 hh hhX l c) x hx]
          exact used1 x (c.used x hx)
      · cases h
      · cases h
      · cases h

/-- where the pair for slot `s` sits in the start table -/
theorem startIn_mem_of_ne {starts : List (Nat × Nat)} {s : Nat} (h : startIn starts s ≠ END) :
    (s, startIn starts s) ∈ starts := by
  unfold startIn at h ⊢
  cases hf : starts.find? (·.1 == s) with
  | none => rw [hf] at h; exact absurd rfl h
  | some e =>
    simp only [hf, Option.map_some, Option.getD_some]
    have hm := List.mem_of_find?_eq_some hf
    have hk := List.find?_some hf
    simp only [beq_iff_eq] at hk
    obtain ⟨a, b⟩ := e
    simp only at hk
    subst hk
    exact hm

/-- `Chain::set_len` to at least the present number of sectors, on a tracked non-empty chain -/
theorem chainSetLen_grow_zero {p p' : P} {ids ids' : List Nat} {n : Nat} (hn : 0 < n)
    (h : chainSetLen p ids .zero n = .ok (p', ids')) (hb : p'.fat.size ≤ MAXREG + 1) (inv : Inv p)
    (X : List Nat) (nc : NC p.fat (hdl ids ++ X)) (tr : Tr p.fat ids) (hne : ids ≠ [])
    (hle : ids.length ≤ (p.S + n - 1) / p.S) :
    ∃ news, ids' = ids ++ news ∧ p'.v4 = p.v4 ∧ ids'.length = (p.S + n - 1) / p.S ∧
      (∀ x ∈ news, p'.sectors[x]? = some (zeroSector p.S)) ∧
      (∀ x ∈ ids, p'.sectors[x]? = p.sectors[x]?) ∧
      (∀ hh ∈ X, ∀ l, IsChain p.fat hh l → ∀ x ∈ l, p'.sectors[x]? = p.sectors[x]?) ∧
      Tr p'.fat ids' ∧ NC p'.fat (hdl ids' ++ X) := by
  have v := chainSetLen_v hn h hb inv X nc tr
  obtain ⟨l', trl, _, hl, heq⟩ := v.2.1
  have e := heq hle
  subst e
  have kc := (kc_chainSetLen hn h).1
  have nc' := kc.keep hb inv X nc
  unfold chainSetLen at h
  dsimp only at h
  have hpos : (p.S + n - 1) / p.S ≠ 0 := by
    intro he
    have hl0 : ids.length = 0 := by omega
    exact hne (List.length_eq_zero_iff.mp hl0)
  rw [if_neg hpos] at h
  split at h
  · rename_i hle2
    have heqlen : (p.S + n - 1) / p.S = ids.length := by omega
    rw [if_neg (by omega)] at h
    cases h
    exact ⟨[], by simp, rfl, by omega, (fun _ hx => by cases hx), (fun _ _ => rfl), (fun _ _ _ _ _ _ => rfl), trl, nc'⟩
  · obtain ⟨news, e, v4, hz, hk, hx⟩ := chainGrow_zero _ h hb inv X nc tr
    exact ⟨news, e, v4, hl, hz, hk, hx, trl, nc'⟩

/-- **growing a stream of at least 4096 bytes: every byte gained reads as zero, every byte it had is
kept** — at the level of sector contents: `resize` (the regular-to-regular case of `resize_stream`:
`Chain::set_len`, then `zero_old_tail`) on a tracked chain whose length matches the old size -/
theorem resize_regular_grow_zero {p p' : P} {slot oldLen newLen : Nat} {ids : List Nat} (inv : Inv p) (ss : SS p)
    (hstart : startOf p slot ≠ END) (hold : CUTOFF ≤ oldLen) (hgrow : oldLen ≤ newLen)
    (hids : chainIds p (startOf p slot) = .ok ids) (X : List Nat) (nc : NC p.fat (hdl ids ++ X)) (tr : Tr p.fat ids)
    (hlen : ids.length = (oldLen + p.S - 1) / p.S) (hpres : Present p ids)
    (h : resize p slot oldLen newLen = .ok p') (hb : p'.fat.size ≤ MAXREG + 1) :
    ∃ ids', ids'.length = (p.S + newLen - 1) / p.S ∧ Tr p'.fat ids' ∧ hdl ids' = hdl ids ∧ p'.S = p.S ∧
      (∀ j, oldLen ≤ j → j < newLen → byteAt p' ids' j = some 0) ∧
      (∀ j, j < oldLen → byteAt p' ids' j = byteAt p ids j) := by
  have hS := S_pos p
  have hC : CUTOFF = 4096 := rfl
  have hne : ids ≠ [] := by
    intro e; rw [e] at hlen; simp at hlen
    have := (Nat.div_eq_zero_iff).mp hlen.symm; omega
  unfold resize at h
  simp only [bind, pure] at h
  rw [if_neg hstart, if_neg (by omega), if_neg (by omega), if_neg (by omega), hids] at h
  simp only [Outcome.bind] at h
  obtain ⟨⟨p1, ids1⟩, hsl, h⟩ := obind_ok h
  simp only at h
  -- bounds on p1
  have hb1 : p1.fat.size ≤ MAXREG + 1 := by
    split at h
    · split at h
      · cases h
      · obtain ⟨⟨q, _⟩, hw, h⟩ := obind_ok h
        cases h
        exact Nat.le_trans (good_chainWrite _ _ hw).mono hb
    · cases h; exact hb
  have hle : ids.length ≤ (p.S + newLen - 1) / p.S := by
    rw [hlen]
    have : oldLen + p.S - 1 ≤ p.S + newLen - 1 := by omega
    exact Nat.div_le_div_right this
  obtain ⟨news, e, v4, hl1, hz, hk, _, tr1, nc1⟩ :=
    chainSetLen_grow_zero (by omega) hsl hb1 inv X nc tr hne hle
  have hS1 : p1.S = p.S := by unfold P.S; rw [v4]
  have ss1 : SS p1 := (gs_chainSetLen hsl).ss ss
  have hpres1 : Present p1 ids1 := by
    intro x hx
    rw [e] at hx
    rcases List.mem_append.mp hx with hx | hx
    · rw [hk x hx]; exact hpres x hx
    · exact ⟨_, hz x hx⟩
  -- the chain's bytes after `set_len`: old bytes, then zeros
  have hb1at : ∀ j, (j < ids.length * p.S → byteAt p1 ids1 j = byteAt p ids j) ∧
      (ids.length * p.S ≤ j → j < ids1.length * p.S → byteAt p1 ids1 j = some 0) := by
    intro j
    unfold byteAt
    rw [hS1]
    constructor
    · intro hj
      have hidx : j / p.S < ids.length := (Nat.div_lt_iff_lt_mul hS).mpr hj
      rw [e, List.getElem?_append_left hidx, List.getElem?_eq_getElem hidx]
      simp only [Option.bind_some]
      unfold secList
      rw [hk _ (List.getElem_mem hidx)]
    · intro hj1 hj2
      have hidx1 : j / p.S < ids1.length := (Nat.div_lt_iff_lt_mul hS).mpr hj2
      have hidx0 : ids.length ≤ j / p.S := (Nat.le_div_iff_mul_le hS).mpr hj1
      rw [List.getElem?_eq_getElem hidx1]
      simp only [Option.bind_some]
      have hmem : ids1[j / p.S] ∈ news := by
        have : ids1[j / p.S] = (ids ++ news)[j / p.S]'(by rw [← e]; exact hidx1) := by congr 1
        rw [this, List.getElem_append_right hidx0]
        exact List.getElem_mem _
      unfold secList
      rw [hz _ hmem]
      simp only [Option.map_some, Option.getD_some]
      rw [zeroSector_toList]
      unfold zeros
      rw [List.getElem?_replicate, if_pos (Nat.mod_lt _ hS)]
  have hhd : hdl ids1 = hdl ids := by rw [e]; exact hdl_append hne news
  have hlenS : ids.length * p.S = (oldLen + p.S - 1) / p.S * p.S := by rw [hlen]
  have hcover : oldLen ≤ ids.length * p.S := by
    rw [hlenS]
    have := Nat.div_add_mod (oldLen + p.S - 1) p.S
    have hm := Nat.mod_lt (oldLen + p.S - 1) hS
    have : (oldLen + p.S - 1) / p.S * p.S = p.S * ((oldLen + p.S - 1) / p.S) := Nat.mul_comm _ _
    omega
  have hcover1 : newLen ≤ ids1.length * p.S := by
    rw [hl1]
    have := Nat.div_add_mod (p.S + newLen - 1) p.S
    have hm := Nat.mod_lt (p.S + newLen - 1) hS
    have : (p.S + newLen - 1) / p.S * p.S = p.S * ((p.S + newLen - 1) / p.S) := Nat.mul_comm _ _
    omega
  have hbelow : ids.length * p.S < oldLen + p.S := by
    rw [hlenS]
    have := Nat.div_mul_le_self (oldLen + p.S - 1) p.S
    omega
  split at h
  · -- `zero_old_tail`: the rest of the old last sector
    rename_i at_ nz hz0
    unfold zeroTailRange at hz0
    split at hz0
    · rename_i hcond
      simp only [Option.some.injEq, Prod.mk.injEq] at hz0
      obtain ⟨rfl, rfl⟩ := hz0
      rw [hS1] at h
      rw [if_neg (by have := hcover1; omega)] at h
      obtain ⟨⟨q, idsq⟩, hw, h⟩ := obind_ok h
      cases h
      generalize hstop : min newLen ((oldLen + p.S - 1) / p.S * p.S) = stop at hw
      have hstop1 : oldLen ≤ stop := by rw [← hstop, ← hlenS]; omega
      have hnd : ids1.Nodup := by
        cases hi1 : ids1 with
        | nil => exact List.nodup_nil
        | cons hd t =>
          have c := tr1 hd (by rw [hi1]; simp [hdl])
          exact (hi1 ▸ c).nodup nc1.ns (by rw [hi1]; simp [hdl])
      have hfit : oldLen + (List.replicate (stop - oldLen) (0 : UInt8)).length ≤ ids1.length * p1.S := by
        rw [List.length_replicate, hS1]
        have : stop ≤ newLen := by rw [← hstop]; exact Nat.min_le_left _ _
        omega
      obtain ⟨q', hw', hsame, ssq, _, _, hpt⟩ :=
        chainWrite_spec .zero ((stop - oldLen) + 2) p1 ids1 oldLen (List.replicate (stop - oldLen) 0) ss1 hpres1 hnd hfit
          (by rw [List.length_replicate]; omega)
      rw [hw'] at hw
      cases hw
      have hSq : q.S = p.S := by rw [sameButSectors_S hsame, hS1]
      have hfatq : q.fat = p1.fat := by unfold SameButSectors at hsame; rw [hsame]
      refine ⟨ids1, hl1, by rw [hfatq]; exact tr1, hhd, hSq, ?_, ?_⟩
      · intro j h1 h2
        rw [hpt j, List.length_replicate]
        by_cases hin : oldLen ≤ j ∧ j < oldLen + (stop - oldLen)
        · rw [if_pos hin, List.getElem?_replicate, if_pos (by omega)]
        · rw [if_neg hin]
          have hjs : stop ≤ j := by omega
          have hstopeq : stop = ids.length * p.S := by
            rw [← hstop, ← hlenS]
            exact Nat.min_eq_right (by omega)
          exact (hb1at j).2 (by omega) (by omega)
      · intro j hj
        rw [hpt j, List.length_replicate, if_neg (by omega)]
        exact (hb1at j).1 (by omega)
    · cases hz0
  · -- the old length was a whole number of sectors: nothing to clear
    rename_i hz0
    unfold zeroTailRange at hz0
    have hal : ¬ (newLen > oldLen ∧ oldLen % p1.S ≠ 0) := by
      intro hc; rw [if_pos hc] at hz0; cases hz0
    rw [hS1] at hal
    cases h
    refine ⟨ids1, hl1, tr1, hhd, hS1, ?_, ?_⟩
    · intro j h1 h2
      have hmod : oldLen % p.S = 0 := by
        by_cases hm : oldLen % p.S = 0
        · exact hm
        · exact absurd ⟨by omega, hm⟩ hal
      have hexact : ids.length * p.S = oldLen := by
        rw [hlenS]
        have := Nat.div_add_mod oldLen p.S
        have h2' : (oldLen + p.S - 1) / p.S = oldLen / p.S := by
          have hd : oldLen = p.S * (oldLen / p.S) := by omega
          have : oldLen + p.S - 1 = (p.S - 1) + p.S * (oldLen / p.S) := by omega
          rw [this, Nat.add_mul_div_left _ _ hS, Nat.div_eq_of_lt (by omega)]
          omega
        rw [h2', Nat.mul_comm]; omega
      exact (hb1at j).2 (by omega) (by omega)
    · intro j hj
      exact (hb1at j).1 (by omega)

end CfbVerif.Phys
