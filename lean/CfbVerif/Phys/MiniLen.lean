import CfbVerif.Phys.NoLeakMini
import CfbVerif.Phys.ChainLen
/-!
# Each mini stream's chain length matches its size

The MiniFAT analogue of `Phys/ChainLen.lean`: the mini-chain operations return the mini sector list
that *is* the chain of its head in the new MiniFAT, with the expected length, and leave every other
mini chain verbatim — although the MiniFAT is trimmed when trailing mini sectors become free.
Lifted through the write and resize case tables: every stream below 4096 bytes has no start
sector when it is empty and otherwise a chain of exactly `⌈length / 64⌉` mini sectors.
-/
namespace CfbVerif.Phys
open CfbVerif.Raw

/-- the mini chains of the heads `X` stay verbatim -/
def MPres (p p' : P) (X : List Nat) : Prop := ∀ h ∈ X, ∀ l, IsChain p.miniFat h l → IsChain p'.miniFat h l

theorem MPres.refl (p : P) (X : List Nat) : MPres p p X := fun _ _ _ c => c
theorem MPres.trans {p q r : P} {X : List Nat} (h1 : MPres p q X) (h2 : MPres q r X) : MPres p r X :=
  fun h hh l c => h2 h hh l (h1 h hh l c)
theorem MPres.sub {p q : P} {X Y : List Nat} (h : MPres p q X) (hs : ∀ x ∈ Y, x ∈ X) : MPres p q Y :=
  fun h' hh l c => h h' (hs h' hh) l c
theorem MPres.of_mf {p q : P} (X : List Nat) (h : q.miniFat = p.miniFat) : MPres p q X :=
  fun _ _ _ c => by rw [h]; exact c

/-- `allocate_mini_sector(END)`: the new mini sector is a chain of its own; every existing chain
stays and does not contain it -/
theorem mv_allocateMiniSector {p p' : P} {id : Nat} (h : allocateMiniSector p END = .ok (p', id)) :
    IsChain p'.miniFat id [id] ∧
    ∀ (hd : Nat) (l : List Nat), IsChain p.miniFat hd l → IsChain p'.miniFat hd l ∧ id ∉ l := by
  rcases allocateMiniSector_spec h with ⟨hfree, hlt, he⟩ | ⟨hid, he⟩
  · rw [he]
    refine ⟨IsChain.last (by simp [hlt]), ?_⟩
    intro hd l c
    have hnot : id ∉ l := by
      intro hm
      obtain ⟨w, hw, hwf⟩ := c.used id hm
      rw [hw] at hfree; exact hwf (Option.some.inj hfree)
    refine ⟨c.frame ?_, hnot⟩
    intro x hx
    simp only [Array.getElem?_setIfInBounds]
    rw [if_neg]
    intro e; exact hnot (by rw [e]; exact hx)
  · rw [he]
    subst hid
    refine ⟨IsChain.last (by simp), ?_⟩
    intro hd l c
    have hlt : ∀ x ∈ l, x < p.miniFat.size := fun x hx => by
      obtain ⟨w, hw, _⟩ := c.used x hx; exact lt_of_get hw
    refine ⟨c.frame ?_, fun hm => Nat.lt_irrefl _ (hlt _ hm)⟩
    intro x hx
    simp only [Array.getElem?_push]
    rw [if_neg (by have := hlt x hx; omega)]

theorem lastOfMiniChain_self {mf : Array Nat} {fuel cur z : Nat} (hc : mf[cur]? = some END)
    (h : lastOfMiniChain mf fuel cur = .ok z) : z = cur := by
  cases fuel with
  | zero => simp [lastOfMiniChain] at h
  | succ fuel =>
    unfold lastOfMiniChain at h
    cases hn : nextSector mf cur with
    | error k => simp [hn] at h
    | ok next =>
      simp only [hn] at h
      have ns := nextSector_ok hn
      rw [hc] at ns
      have : next = END := (Option.some.inj ns.2.1).symm
      rw [if_pos this] at h
      cases h; rfl

/-- `extend_mini_chain` from the last mini sector of a chain -/
theorem mv_extendMiniChain {p p' : P} {last id hd : Nat} {l0 : List Nat} (h : extendMiniChain p last = .ok (p', id))
    (c0 : IsChain p.miniFat hd l0) (hl : l0.getLast? = some last) (hnd : l0.Nodup) (hb : p'.miniFat.size ≤ MAXREG + 1) :
    IsChain p'.miniFat hd (l0 ++ [id]) ∧
    ∀ (h' : Nat) (l : List Nat), IsChain p.miniFat h' l → last ∉ l → IsChain p'.miniFat h' l := by
  unfold extendMiniChain at h
  obtain ⟨z, hz, h⟩ := bind_ok h
  obtain ⟨⟨p1, id1⟩, ha, h⟩ := bind_ok h
  obtain ⟨p2, hs, h⟩ := bind_ok h
  cases h
  obtain ⟨z', hz', hze⟩ := c0.last_is_end
  have : z' = last := by rw [hl] at hz'; exact (Option.some.inj hz').symm
  subst this
  have hzeq := lastOfMiniChain_self hze hz
  subst hzeq
  obtain ⟨cid, hall⟩ := mv_allocateMiniSector ha
  obtain ⟨c1, hidnot⟩ := hall hd l0 c0
  have hcell : p1.miniFat[z]? = some END := by
    obtain ⟨w, hw⟩ : ∃ w, p1.miniFat[z]? = some w := by
      obtain ⟨w, hw, _⟩ := c1.used z (List.mem_of_getLast? hl); exact ⟨w, hw⟩
    obtain ⟨z2, hz2, hz2e⟩ := c1.last_is_end
    have : z2 = z := by rw [hl] at hz2; exact (Option.some.inj hz2).symm
    rw [this] at hz2e; exact hz2e
  have hp' : p'.miniFat = p1.miniFat.setIfInBounds z id := by
    rcases setMiniFat_ok2 hs with ⟨he, _⟩ | ⟨_, he⟩
    · have := lt_of_get hcell; omega
    · exact he
  have hidreg : id ≤ MAXREG := by
    have hlt : id < p1.miniFat.size := by
      cases cid with
      | last he => exact lt_of_get he
      | cons hab _ _ => exact lt_of_get hab
    rw [hp'] at hb
    simp at hb
    omega
  rw [hp']
  refine ⟨c1.append cid hl hidreg (by intro x hx; simp at hx; subst hx; exact hidnot) hnd, ?_⟩
  intro h' l c hnot
  refine (hall h' l c).1.frame ?_
  intro x hx
  simp only [Array.getElem?_setIfInBounds]
  rw [if_neg]
  intro e; exact hnot (by rw [e]; exact hx)

/-- one more mini sector at the end of a tracked mini chain -/
theorem growOneMini_v {p p' : P} {ids ids' X : List Nat} (h : growOneMini p ids = .ok (p', ids'))
    (hb : p'.miniFat.size ≤ MAXREG + 1) (n : NC p.miniFat (hdl ids ++ X)) (tr : Tr p.miniFat ids) :
    (∃ id, ids' = ids ++ [id]) ∧ Tr p'.miniFat ids' ∧ MPres p p' X := by
  unfold growOneMini at h
  split at h
  · rename_i last hl
    have hne : ids ≠ [] := by intro he; subst he; simp at hl
    obtain ⟨hd, t, eids⟩ : ∃ hd t, ids = hd :: t := by
      cases ids with
      | nil => exact absurd rfl hne
      | cons a t => exact ⟨a, t, rfl⟩
    have hhd : hd ∈ hdl ids := by rw [eids]; simp [hdl]
    have c0 : IsChain p.miniFat hd ids := tr hd hhd
    have hnd : ids.Nodup := c0.nodup n.ns (List.mem_append_left _ hhd)
    split at h
    · rename_i p1 id he
      cases h
      obtain ⟨cnew, hall⟩ := mv_extendMiniChain he c0 hl hnd hb
      refine ⟨⟨id, rfl⟩, ?_, ?_⟩
      · intro hd' hhd'
        have : hd' = hd := by rw [hdl_append hne] at hhd'; rw [eids] at hhd'; simpa [hdl] using hhd'
        subst this
        exact cnew
      · intro hx hh l c
        exact hall hx l c (n.off_chain hhd hh c0 c (List.mem_of_getLast? hl))
    · cases h
    · cases h
    · cases h
  · rename_i hl
    have he0 : ids = [] := List.getLast?_eq_none_iff.mp hl
    subst he0
    split at h
    · rename_i p1 id he
      cases h
      obtain ⟨cid, hall⟩ := mv_allocateMiniSector he
      refine ⟨⟨id, rfl⟩, ?_, ?_⟩
      · intro hd' hhd'
        have : hd' = id := by simpa [hdl] using hhd'
        subst this
        exact cid
      · intro hx _ l c
        exact (hall hx l c).1
    · cases h
    · cases h
    · cases h

end CfbVerif.Phys

namespace CfbVerif.Phys
open CfbVerif.Raw

theorem mlen_h1 {off L : Nat} (h : off ≤ L * MINI) : L = max L ((off + 0 + MINI - 1) / MINI) := by
  have : MINI = 64 := rfl
  rw [this] at h ⊢; omega

theorem mlen_h2 {off L1 len : Nat} (hi : off / MINI < L1) : off + min len (MINI - off % MINI) ≤ L1 * MINI := by
  have : MINI = 64 := rfl
  rw [this] at hi ⊢; omega

theorem mlen_h4 {off L len : Nat} (ho : off = L * MINI) (hl : 1 ≤ len) :
    max (L + 1) ((off + len + MINI - 1) / MINI) = max L ((off + len + MINI - 1) / MINI) := by
  have : MINI = 64 := rfl
  rw [this] at ho ⊢; omega

/-- `MiniChain::write` under `write_all` on a tracked mini chain -/
theorem miniChainWrite_v (fuel : Nat) : ∀ {p p' : P} {ids ids' : List Nat} {off : Nat} {bs : Bytes},
    miniChainWrite fuel p ids off bs = .ok (p', ids') → p'.miniFat.size ≤ MAXREG + 1 →
    ∀ X, NC p.miniFat (hdl ids ++ X) → Tr p.miniFat ids → off ≤ ids.length * MINI →
    Tr p'.miniFat ids' ∧ ids'.length = max ids.length ((off + bs.length + MINI - 1) / MINI) ∧ MPres p p' X := by
  induction fuel with
  | zero => intro p p' ids ids' off bs h; simp [miniChainWrite] at h
  | succ fuel ih =>
    intro p p' ids ids' off bs h hb X n tr hoff
    unfold miniChainWrite at h
    split at h
    · rename_i hemp
      cases h
      have hl : bs.length = 0 := by simpa using hemp
      rw [hl]
      exact ⟨tr, mlen_h1 hoff, MPres.refl _ _⟩
    · rename_i hne
      have hlen : 1 ≤ bs.length := by
        cases bs with
        | nil => simp at hne
        | cons a t => simp
      split at h
      · rename_i p1 ids1 hgrow
        split at h
        · cases h
        · rename_i m hidx
          dsimp only at h
          split at h
          · rename_i p2 hw
            have hmf2 : p2.miniFat = p1.miniFat := mf_miniWriteAt hw
            have g2 := (growc_miniChainWrite _ h).1
            have hb1 : p1.miniFat.size ≤ MAXREG + 1 := by rw [← hmf2]; exact Nat.le_trans g2.mono hb
            have step : Tr p1.miniFat ids1 ∧ MPres p p1 X ∧ NC p1.miniFat (hdl ids1 ++ X) ∧
                ((ids1 = ids ∧ off ≠ ids.length * MINI) ∨ (ids1.length = ids.length + 1 ∧ off = ids.length * MINI)) := by
              split at hgrow
              · rename_i heq
                obtain ⟨⟨id, e⟩, tr1, pr1⟩ := growOneMini_v hgrow hb1 n tr
                exact ⟨tr1, pr1, (growc_growOneMini hgrow).1.km hb1 X n, Or.inr ⟨by rw [e]; simp, heq⟩⟩
              · rename_i hneq
                cases hgrow
                exact ⟨tr, MPres.refl _ _, n, Or.inl ⟨rfl, hneq⟩⟩
            obtain ⟨tr1, pr1, n1, hcase⟩ := step
            have hi : off / MINI < ids1.length := by
              rcases Nat.lt_or_ge (off / MINI) ids1.length with hc | hc
              · exact hc
              · rw [List.getElem?_eq_none hc] at hidx; cases hidx
            obtain ⟨tr', hl', pr'⟩ := ih h hb X (by rw [hmf2]; exact n1) (by intro hd hh; rw [hmf2]; exact tr1 hd hh)
              (mlen_h2 hi)
            refine ⟨tr', ?_, ?_⟩
            · rw [hl']
              have hn : min bs.length (MINI - off % MINI) ≤ bs.length := Nat.min_le_left _ _
              have hsum : off + min bs.length (MINI - off % MINI) + (bs.drop (min bs.length (MINI - off % MINI))).length = off + bs.length := by
                rw [List.length_drop]; omega
              rw [hsum]
              rcases hcase with ⟨e, _⟩ | ⟨e, ho⟩
              · rw [e]
              · rw [e]; exact mlen_h4 ho hlen
            · exact pr1.trans (fun hx hh l c => pr' hx hh l (by rw [hmf2]; exact c))
          · cases h
          · cases h
          · cases h
      · cases h
      · cases h
      · cases h

theorem miniChainGrow_v (fuel : Nat) : ∀ {p p' : P} {ids ids' : List Nat} {target : Nat},
    miniChainGrow fuel p ids target = .ok (p', ids') → p'.miniFat.size ≤ MAXREG + 1 →
    ∀ X, NC p.miniFat (hdl ids ++ X) → Tr p.miniFat ids →
    Tr p'.miniFat ids' ∧ ids'.length = max ids.length target ∧ MPres p p' X := by
  induction fuel with
  | zero => intro p p' ids ids' target h; simp [miniChainGrow] at h
  | succ fuel ih =>
    intro p p' ids ids' target h hb X n tr
    unfold miniChainGrow at h
    split at h
    · rename_i hge
      cases h
      exact ⟨tr, by omega, MPres.refl _ _⟩
    · rename_i hlt
      split at h
      · rename_i p1 ids1 hg
        split at h
        · rename_i p2 hw
          have hmf2 : p2.miniFat = p1.miniFat := mf_miniWriteAt hw
          have g2 := (growc_miniChainGrow _ h).1
          have hb1 : p1.miniFat.size ≤ MAXREG + 1 := by rw [← hmf2]; exact Nat.le_trans g2.mono hb
          obtain ⟨⟨id, e⟩, tr1, pr1⟩ := growOneMini_v hg hb1 n tr
          have n1 : NC p1.miniFat (hdl ids1 ++ X) := (growc_growOneMini hg).1.km hb1 X n
          obtain ⟨tr', hl', pr'⟩ := ih h hb X (by rw [hmf2]; exact n1) (by intro hd hh; rw [hmf2]; exact tr1 hd hh)
          refine ⟨tr', ?_, pr1.trans (fun hx hh l c => pr' hx hh l (by rw [hmf2]; exact c))⟩
          rw [hl', e]; simp; omega
        · cases h
        · cases h
        · cases h
      · cases h
      · cases h
      · cases h

end CfbVerif.Phys

namespace CfbVerif.Phys
open CfbVerif.Raw

theorem isChain_pop {fat : Array Nat} {a : Nat} {l : List Nat} (c : IsChain fat a l) (hback : fat.back? = some FREE) :
    IsChain fat.pop a l := by
  have hlast : fat[fat.size - 1]? = some FREE := by
    rw [Array.back?_eq_getElem?] at hback; exact hback
  refine c.frame ?_
  intro x hx
  obtain ⟨w, hw, hwf⟩ := c.used x hx
  rw [Array.getElem?_pop, if_pos]
  have hl := lt_of_get hw
  rcases Nat.lt_or_ge x (fat.size - 1) with hc | hc
  · exact hc
  · have : x = fat.size - 1 := by omega
    rw [this, hlast] at hw
    exact absurd (Option.some.inj hw).symm hwf

theorem isChain_trim (fuel : Nat) : ∀ {mf : Array Nat} {len a : Nat} {l : List Nat}, IsChain mf a l →
    IsChain (trimMiniFat fuel mf len).1 a l := by
  induction fuel with
  | zero => intro mf len a l c; exact c
  | succ fuel ih =>
    intro mf len a l c
    unfold trimMiniFat
    split
    · rename_i hb; exact ih (len := len - MINI) (isChain_pop c hb)
    · exact c

/-- `free_mini_sector`: a chain that does not contain the freed mini sector stays -/
theorem mv_freeMiniSector {p p' : P} {id next : Nat} (hnext : p.miniFat[id]? = some next)
    (h : freeMiniSector p id = .ok p') :
    ∀ (hd : Nat) (l : List Nat), IsChain p.miniFat hd l → id ∉ l → IsChain p'.miniFat hd l := by
  unfold freeMiniSector at h
  rw [hnext] at h
  dsimp only at h
  split at h
  · cases h
  · obtain ⟨p1, hs, h⟩ := bind_ok h
    cases h
    have hp1 : p1.miniFat = p.miniFat.setIfInBounds id FREE := by
      rcases setMiniFat_ok2 hs with ⟨he, _⟩ | ⟨_, he⟩
      · have := lt_of_get hnext; omega
      · exact he
    intro hd l c hnot
    have c1 : IsChain p1.miniFat hd l := by
      rw [hp1]
      refine c.frame ?_
      intro x hx
      simp only [Array.getElem?_setIfInBounds]
      rw [if_neg]
      intro e; exact hnot (by rw [e]; exact hx)
    exact isChain_trim _ c1

/-- `free_mini_chain` from a head: the other heads' chains stay -/
theorem mpres_freeMiniChain (fuel : Nat) : ∀ {p p' : P} {cur : Nat} {hs : List Nat},
    freeMiniChain p fuel cur = .ok p' → NC p.miniFat (hd1 cur ++ hs) → MPres p p' hs := by
  induction fuel with
  | zero => intro p p' cur hs h; simp [freeMiniChain] at h
  | succ fuel ih =>
    intro p p' cur hs h n hx hh l c
    unfold freeMiniChain at h
    split at h
    · cases h; exact c
    · rename_i hne
      split at h
      · cases h
      · rename_i next hn
        split at h
        · rename_i p1 hf
          have ns := nextSector_ok (fat := p.miniFat) hn
          have n0 : NC p.miniFat ([cur] ++ hs) := by simpa [hd1, hne] using n
          have n1 := shrinkc_freeMiniSector ns.2.1 hf hs n0
          obtain ⟨l0, c0⟩ := n0.ch cur (by simp)
          have hcur : cur ∉ l := by
            intro hm
            have : cur = hx := IsChain.disjoint n0.ns (by simp) (List.mem_append_right _ hh) c0 c
              (by obtain ⟨t, e⟩ := c0.head; rw [e]; simp) hm
            have hnd := n0.ns.nodup
            simp only [List.singleton_append, List.nodup_cons] at hnd
            exact hnd.1 (this ▸ hh)
          have c1 := mv_freeMiniSector ns.2.1 hf hx l c hcur
          refine ih h ?_ hx hh l c1
          rcases nextSector_class hn with he | ⟨hne', hreg⟩
          · subst he
            have : ¬ (END ≤ MAXREG) := Nat.not_le.mpr MAXREG_lt_END
            simpa [hd1, this] using n1
          · simpa [hd1, hne', hreg] using n1
        · cases h
        · cases h
        · cases h

theorem miniChainSetLen_nil_zero (p : P) : miniChainSetLen p [] 0 = .ok (p, []) := by
  unfold miniChainSetLen
  have : (MINI + 0 - 1) / MINI = 0 := by decide
  dsimp only
  rw [if_pos this]
  rfl

/-- `MiniChain::set_len` to a positive length on a tracked mini chain -/
theorem miniChainSetLen_v {p p' : P} {ids ids' X : List Nat} {n : Nat} (hn : 0 < n)
    (h : miniChainSetLen p ids n = .ok (p', ids')) (hb : p'.miniFat.size ≤ MAXREG + 1)
    (nc : NC p.miniFat (hdl ids ++ X)) (tr : Tr p.miniFat ids) :
    (∃ l', Tr p'.miniFat l' ∧ hdl l' = hdl ids' ∧ l'.length = (MINI + n - 1) / MINI ∧
      (ids.length ≤ (MINI + n - 1) / MINI → l' = ids')) ∧ MPres p p' X := by
  unfold miniChainSetLen at h
  dsimp only at h
  have hpos : (MINI + n - 1) / MINI ≠ 0 := by
    have : MINI = 64 := rfl
    rw [this]; omega
  rw [if_neg hpos] at h
  generalize hq : (MINI + n - 1) / MINI = q at h hpos ⊢
  have hq1 : 1 ≤ q := Nat.pos_of_ne_zero hpos
  split at h
  · rename_i hle
    split at h
    · rename_i hlt
      split at h
      · rename_i keep hkeep
        obtain ⟨q', hf, h⟩ := obind_ok h
        cases h
        have hne : ids ≠ [] := by intro e; subst e; simp at hlt
        obtain ⟨hd, t, eids⟩ : ∃ hd t, ids = hd :: t := by
          cases ids with
          | nil => exact absurd rfl hne
          | cons a t => exact ⟨a, t, rfl⟩
        have hhd : hd ∈ hdl ids := by rw [eids]; simp [hdl]
        have c0 : IsChain p.miniFat hd ids := tr hd hhd
        have hnd : ids.Nodup := c0.nodup nc.ns (List.mem_append_left _ hhd)
        have hk : (q - 1) + 1 < ids.length := by omega
        have hkeq : (q - 1) + 1 = q := by omega
        obtain ⟨next, hnx, hreg, c1, c2⟩ := c0.cutAt (q - 1) hnd hk
        have hkeep' : ids[q - 1]'(by omega) = keep := by
          have := List.getElem?_eq_getElem (l := ids) (i := q - 1) (by omega)
          rw [this] at hkeep; exact Option.some.inj hkeep
        rw [hkeep'] at hnx c1 c2
        rw [hkeq] at c1 c2
        have hkm : keep ∈ ids := by rw [← hkeep']; exact List.getElem_mem _
        unfold freeMiniChainAfter at hf
        cases hns : nextMini p keep with
        | error k => simp [hns] at hf
        | ok next' =>
          simp only [hns] at hf
          obtain ⟨p1, h1, hf⟩ := bind_ok hf
          have ns := nextSector_ok (fat := p.miniFat) hns
          have hnn : next' = next := by rw [ns.2.1] at hnx; exact Option.some.inj hnx
          subst hnn
          have hp1 : p1.miniFat = p.miniFat.setIfInBounds keep END := by
            rcases setMiniFat_ok2 h1 with ⟨he, _⟩ | ⟨_, he⟩
            · omega
            · exact he
          have n1 : NC (p.miniFat.setIfInBounds keep END) (next' :: (hdl ids ++ X)) := nc.cut hnx hreg
          have hnend : next' ≠ END := by have := MAXREG_lt_END; omega
          have n1' : NC p1.miniFat (hd1 next' ++ (hdl ids ++ X)) := by
            rw [hp1]; simpa [hd1, hnend] using n1
          have pr := mpres_freeMiniChain _ hf n1'
          refine ⟨⟨ids.take q, ?_, ?_, ?_, fun hle' => by omega⟩, ?_⟩
          · intro hd' hh'
            have : hd' = hd := by
              have e : hdl (ids.take q) = hdl ids := by
                rw [eids]
                cases q with
                | zero => exact absurd rfl hpos
                | succ m => simp [hdl]
              rw [e, eids] at hh'; simpa [hdl] using hh'
            subst this
            exact pr hd' (List.mem_append_left _ hhd) _ (by rw [hp1]; exact c1)
          · rw [eids]
            cases q with
            | zero => exact absurd rfl hpos
            | succ m => simp [hdl]
          · rw [List.length_take]; omega
          · intro hx hh l c
            refine pr hx (List.mem_append_right _ hh) l ?_
            rw [hp1]
            refine c.frame ?_
            intro y hy
            simp only [Array.getElem?_setIfInBounds]
            rw [if_neg]
            intro e
            exact nc.off_chain hhd hh c0 c hkm (by rw [e]; exact hy)
      · cases h
    · rename_i hnlt
      cases h
      exact ⟨⟨ids, tr, rfl, by omega, fun _ => rfl⟩, MPres.refl _ _⟩
  · rename_i hgt
    obtain ⟨tr', hl', pr'⟩ := miniChainGrow_v _ h hb X nc tr
    exact ⟨⟨ids', tr', rfl, by rw [hl']; omega, fun _ => rfl⟩, pr'⟩

end CfbVerif.Phys

/-! ## every stream below 4096 bytes: no start sector when empty, else `⌈length / 64⌉` mini sectors -/
namespace CfbVerif.Phys
open CfbVerif.Raw

def MiniLen (p : P) (L : Nat → Nat) : Prop :=
  ∀ e ∈ p.starts, L e.1 < CUTOFF →
    (L e.1 = 0 → e.2 = END) ∧
    (0 < L e.1 → e.2 ≠ END ∧ ∃ l, IsChain p.miniFat e.2 l ∧ l.length = (L e.1 + MINI - 1) / MINI)

theorem jmc_n0 {p : P} {L : Nat → Nat} (j : JMC p L) (s : Nat) :
    NC p.miniFat (mownOf p.starts L s ++ mregs (others p.starts s) L) :=
  j.nc.perm (mregs_split p.starts L s j.keys)

theorem mlen_step {p p' : P} {L L' : Nat → Nat} {s : Nat} (r : MiniLen p L)
    (hL : ∀ t, t ≠ s → L' t = L t)
    (ho : others p'.starts s = others p.starts s)
    (hpres : MPres p p' (mregs (others p.starts s) L))
    (hown : ∀ st, (s, st) ∈ p'.starts → L' s < CUTOFF →
      (L' s = 0 → st = END) ∧
      (0 < L' s → st ≠ END ∧ ∃ l, IsChain p'.miniFat st l ∧ l.length = (L' s + MINI - 1) / MINI)) : MiniLen p' L' := by
  intro e he hc
  by_cases hs : e.1 = s
  · have : e = (s, e.2) := by rw [← hs]
    rw [this] at he
    have := hown e.2 he (by rw [← hs]; exact hc)
    rw [hs]; exact this
  · have he' : e ∈ others p.starts s := by rw [← ho]; exact mem_others.mpr ⟨he, hs⟩
    have hep := (mem_others.mp he').1
    rw [hL e.1 hs] at hc ⊢
    obtain ⟨h0, h1⟩ := r e hep hc
    refine ⟨h0, fun hpos => ?_⟩
    obtain ⟨hne, l, cl, hl⟩ := h1 hpos
    refine ⟨hne, l, hpres e.2 ?_ l cl, hl⟩
    unfold mregs
    refine List.mem_map.mpr ⟨e, List.mem_filter.mpr ⟨he', ?_⟩, rfl⟩
    simp [isMiniStart, hc, hne]

/-- nothing on the mini level changed and the slot ends at or above the cutoff -/
theorem ml_of_mf_big {p p' : P} {L L' : Nat → Nat} {s : Nat} (r : MiniLen p L)
    (hL : ∀ t, t ≠ s → L' t = L t) (ho : others p'.starts s = others p.starts s)
    (hpres : MPres p p' (mregs (others p.starts s) L)) (hbig : CUTOFF ≤ L' s) : MiniLen p' L' :=
  mlen_step r hL ho hpres (fun _ _ hc => by omega)

theorem mceil_pos {n : Nat} (h : 0 < n) : 0 < (n + MINI - 1) / MINI := by
  have : MINI = 64 := rfl
  rw [this]; omega

theorem chainRead_len {p : P} (ss : SS p) (fuel : Nat) : ∀ {ids : List Nat} {off n : Nat} {acc r : Bytes},
    chainRead fuel p ids off n acc = .ok r → r.length = acc.length + n := by
  induction fuel with
  | zero => intro ids off n acc r h; simp [chainRead] at h
  | succ fuel ih =>
    intro ids off n acc r h
    unfold chainRead at h
    split at h
    · rename_i hn; cases h; omega
    · dsimp only at h
      split at h
      · cases h
      · rename_i id hid
        split at h
        · rename_i bs hr
          have hk := ih h
          have hlen : bs.length = min n (p.S - off % p.S) := by
            refine readSector_len ss hr ?_
            have : off % p.S < p.S := Nat.mod_lt _ (S_pos p)
            omega
          rw [hk, List.length_append, hlen]
          have : off % p.S < p.S := Nat.mod_lt _ (S_pos p)
          omega
        · cases h
        · cases h
        · cases h

/-- the chain of a slot that has a start and is below the cutoff -/
theorem mini_own_chain {p : P} {L : Nat → Nat} {slot : Nat} {ids : List Nat} (j : JMC p L) (r : MiniLen p L)
    (hsmall : L slot < CUTOFF) (hstart : startOf p slot ≠ END) (hi : miniChainIds p (startOf p slot) = .ok ids) :
    0 < L slot ∧ IsChain p.miniFat (startOf p slot) ids ∧ ids.length = (L slot + MINI - 1) / MINI ∧
    NC p.miniFat (hdl ids ++ mregs (others p.starts slot) L) ∧ Tr p.miniFat ids ∧ hdl ids = [startOf p slot] := by
  have hs' : startIn p.starts slot ≠ END := hstart
  obtain ⟨h0, h1⟩ := r _ (startIn_mem hs') hsmall
  have hpos : 0 < L slot := by
    rcases Nat.eq_zero_or_pos (L slot) with hz | hp
    · exact absurd (h0 hz) hs'
    · exact hp
  obtain ⟨_, l0, c0, hl0⟩ := h1 hpos
  have ci : IsChain p.miniFat (startOf p slot) ids := isChain_of_chainFrom (fat := p.miniFat) hi hstart
  have hids : ids = l0 := ci.unique c0
  have hhead : hdl ids = [startOf p slot] := miniChainIds_head hi hstart
  have n0 := jmc_n0 j slot
  rw [mownOf_mini hsmall hs'] at n0
  refine ⟨hpos, ci, by rw [hids]; exact hl0, by rw [hhead]; exact n0, ?_, hhead⟩
  intro hd hh
  rw [hhead] at hh
  have : hd = startOf p slot := by simpa using hh
  subst this
  exact ci

theorem ml_writeData {p p' : P} {L : Nat → Nat} {slot off n : Nat} {buf : Bytes}
    (h : writeData p slot (L slot) off buf = .ok (p', n)) (j : JMC p L) (r : MiniLen p L)
    (hoff : off ≤ L slot) (hb : p'.miniFat.size ≤ MAXREG + 1) : MiniLen p' (upd L slot n) := by
  unfold writeData at h
  dsimp only [bind, pure] at h
  split at h
  · rename_i hend
    have hown : mownOf p.starts L slot = [] := mownOf_noStart L hend
    have n0 := jmc_n0 j slot
    rw [hown] at n0
    split at h
    · cases h
    · rename_i hzero
      have hL0 : L slot = 0 := by simpa using hzero
      split at h
      · rename_i hsmall
        obtain ⟨⟨q, ids⟩, hw, h⟩ := obind_ok h
        cases h
        have n0' : NC p.miniFat (hdl [] ++ mregs (others p.starts slot) L) := by simpa [hdl] using n0
        obtain ⟨tr', hl, pr⟩ := miniChainWrite_v _ hw hb _ n0' (Tr.nil _) (by simp)
        have n1 : NC q.miniFat (hdl ids ++ mregs (others p.starts slot) L) :=
          (growc_miniChainWrite _ hw).1.km hb _ n0'
        refine mlen_step r (upd_other _ _ _) (by rw [others_setStart, (kkc_miniChainWrite _ hw).starts]) pr ?_
        intro st hm _
        rw [mem_setStart hm, upd_self]
        have ho0 : off = 0 := by omega
        rw [hL0, ho0]
        have hl' : ids.length = (max 0 (0 + buf.length) + MINI - 1) / MINI := by rw [hl]; simp
        refine ⟨fun hz => ?_, fun hp => own_of_tr n1 tr' hl' (mceil_pos hp)⟩
        have : ids.length = 0 := by rw [hl', hz]; decide
        have : ids = [] := List.eq_nil_of_length_eq_zero this
        rw [this]; rfl
      · rename_i hbig
        obtain ⟨⟨q, ids⟩, hw, h⟩ := obind_ok h
        cases h
        refine ml_of_mf_big r (upd_other _ _ _) (by rw [others_setStart, (kc_chainWrite _ _ hw).2.2.2.2])
          (MPres.of_mf _ (sm_chainWrite _ _ hw).1) (by rw [upd_self]; exact Nat.le_of_not_lt hbig)
  · rename_i hstart
    split at h
    · rename_i hsmallOld
      split at h
      · rename_i hsmall
        obtain ⟨ids, hi, h⟩ := obind_ok h
        split at h
        · cases h
        · rename_i hguard
          obtain ⟨⟨q, ids'⟩, hw, h⟩ := obind_ok h
          cases h
          obtain ⟨hpos, ci, hlen, n0, tr, hhead⟩ := mini_own_chain j r hsmallOld hstart hi
          obtain ⟨tr', hl, pr⟩ := miniChainWrite_v _ hw hb _ n0 tr (Nat.le_of_not_lt hguard)
          have g := growc_miniChainWrite _ hw
          have hne : ids ≠ [] := by intro he; subst he; simp [hdl] at hhead
          have hhead' : hdl ids' = [startOf p slot] := by rw [hdl_of_prefix hne g.2]; exact hhead
          have hst := (kkc_miniChainWrite _ hw).starts
          refine mlen_step r (upd_other _ _ _) (by rw [hst]) pr ?_
          intro st hm _
          rw [hst] at hm
          have hst' : st = startOf p slot := (mem_startIn j.keys hm).symm
          rw [upd_self]
          refine ⟨fun hz => by omega, fun _ => ⟨by rw [hst']; exact hstart, ids', ?_, ?_⟩⟩
          · rw [hst']; exact tr' _ (by rw [hhead']; simp)
          · rw [hl, hlen, max_ceil]
      · rename_i hbig
        obtain ⟨ids, hi, h⟩ := obind_ok h
        obtain ⟨tmp, hr, h⟩ := obind_ok h
        obtain ⟨q1, hf, h⟩ := obind_ok h
        obtain ⟨⟨q2, ids1⟩, hw1, h⟩ := obind_ok h
        obtain ⟨⟨q3, ids2⟩, hw2, h⟩ := obind_ok h
        cases h
        have hs' : startIn p.starts slot ≠ END := hstart
        have n0 := jmc_n0 j slot
        rw [mownOf_mini hsmallOld hs'] at n0
        have hhd : hd1 (startOf p slot) = [startOf p slot] := by unfold hd1; rw [if_neg hstart]
        have pr1 : MPres p q1 (mregs (others p.starts slot) L) := mpres_freeMiniChain _ hf (by rw [hhd]; exact n0)
        have pr2 : MPres q1 q2 (mregs (others p.starts slot) L) := MPres.of_mf _ (sm_chainWrite _ _ hw1).1
        have pr3 : MPres q2 q3 (mregs (others p.starts slot) L) := MPres.of_mf _ (sm_chainWrite _ _ hw2).1
        refine ml_of_mf_big r (upd_other _ _ _)
          (by rw [others_setStart, (kc_chainWrite _ _ hw2).2.2.2.2, (kc_chainWrite _ _ hw1).2.2.2.2, (kkc_freeMiniChainFrom hf).starts])
          ((pr1.trans pr2).trans pr3) (by rw [upd_self]; exact Nat.le_of_not_lt hbig)
    · rename_i hbigOld
      obtain ⟨ids, hi, h⟩ := obind_ok h
      split at h
      · cases h
      · obtain ⟨⟨q, ids'⟩, hw, h⟩ := obind_ok h
        cases h
        refine ml_of_mf_big r (upd_other _ _ _) (by rw [(kc_chainWrite _ _ hw).2.2.2.2])
          (MPres.of_mf _ (sm_chainWrite _ _ hw).1) (by rw [upd_self]; have := Nat.le_of_not_lt hbigOld; omega)

end CfbVerif.Phys

namespace CfbVerif.Phys
open CfbVerif.Raw

/-- the MiniFAT after `MiniChain::set_len` still has no sharing and no leak, for the returned head -/
theorem kmc_miniChainSetLen {p q : P} {ids ids' : List Nat} {n : Nat} (hn : 0 < n ∨ ids = [])
    (h : miniChainSetLen p ids n = .ok (q, ids')) : KMC p q (hdl ids) (hdl ids') := by
  rcases miniChainSetLen_shapec hn h with ⟨s, _⟩ | ⟨g, _⟩
  · exact s.toKM
  · exact g.km

theorem ml_resize {p p' : P} {L : Nat → Nat} {slot newLen : Nat}
    (h : resize p slot (L slot) newLen = .ok p') (j : JMC p L) (r : MiniLen p L) (ss : SS p)
    (hb : p'.miniFat.size ≤ MAXREG + 1) : MiniLen p' (upd L slot newLen) := by
  unfold resize at h
  dsimp only [bind, pure] at h
  split at h
  · rename_i hend
    have hown : mownOf p.starts L slot = [] := mownOf_noStart L hend
    have n0 := jmc_n0 j slot
    rw [hown] at n0
    have n0' : NC p.miniFat (hdl [] ++ mregs (others p.starts slot) L) := by simpa [hdl] using n0
    split at h
    · cases h
    · split at h
      · rename_i hsmall
        obtain ⟨⟨q, ids⟩, hw, h⟩ := obind_ok h
        cases h
        rcases Nat.eq_zero_or_pos newLen with hz | hpos
        · subst hz
          rw [miniChainSetLen_nil_zero] at hw
          cases hw
          refine mlen_step r (upd_other _ _ _) (others_setStart _ _ _) (MPres.refl _ _) ?_
          intro st hm _
          rw [mem_setStart hm, upd_self]
          exact ⟨fun _ => rfl, fun hp => absurd hp (Nat.lt_irrefl 0)⟩
        · obtain ⟨⟨l', tr', hh, hl, _⟩, pr⟩ := miniChainSetLen_v hpos hw hb n0' (Tr.nil _)
          have n1 : NC q.miniFat (hdl l' ++ mregs (others p.starts slot) L) := by
            rw [hh]; exact kmc_miniChainSetLen (Or.inl hpos) hw hb _ n0'
          refine mlen_step r (upd_other _ _ _) (by rw [others_setStart, (kkc_miniChainSetLen hw).starts]) pr ?_
          intro st hm _
          rw [mem_setStart hm, upd_self, ← head_of_hdl hh]
          refine ⟨fun hz => by omega, fun hp => own_of_tr n1 tr' (by rw [hl, Nat.add_comm]) (mceil_pos hp)⟩
      · rename_i hbig
        obtain ⟨⟨q, ids⟩, hw, h⟩ := obind_ok h
        cases h
        have hpos : 0 < newLen := by have := CUTOFF_pos; omega
        refine ml_of_mf_big r (upd_other _ _ _) (by rw [others_setStart, (kc_chainSetLen hpos hw).2.2.2.2])
          (MPres.of_mf _ (sm_chainSetLen hw).1) (by rw [upd_self]; exact Nat.le_of_not_lt hbig)
  · rename_i hstart
    have hs' : startIn p.starts slot ≠ END := hstart
    have hhd : hd1 (startOf p slot) = [startOf p slot] := by unfold hd1; rw [if_neg hstart]
    split at h
    · rename_i hsmallOld
      have n0 := jmc_n0 j slot
      rw [mownOf_mini hsmallOld hs'] at n0
      split at h
      · rename_i hzero
        obtain ⟨q, hf, h⟩ := obind_ok h
        cases h
        have pr : MPres p q (mregs (others p.starts slot) L) := mpres_freeMiniChain _ hf (by rw [hhd]; exact n0)
        refine mlen_step r (upd_other _ _ _) (by rw [others_setStart, (kkc_freeMiniChainFrom hf).starts]) pr ?_
        intro st hm _
        rw [mem_setStart hm, upd_self]
        exact ⟨fun _ => rfl, fun hp => by omega⟩
      · rename_i hnz
        split at h
        · rename_i hsmall
          obtain ⟨ids, hi, h⟩ := obind_ok h
          obtain ⟨⟨q, ids'⟩, hs, h⟩ := obind_ok h
          have hpos : 0 < newLen := Nat.pos_of_ne_zero hnz
          obtain ⟨hposL, ci, hlen, nown, tr, hhead⟩ := mini_own_chain j r hsmallOld hstart hi
          have hne : ids ≠ [] := by intro he; subst he; simp [hdl] at hhead
          have shape := miniChainSetLen_shapec (Or.inl hpos) hs
          have hhead' : hdl ids' = [startOf p slot] := by
            rcases shape with ⟨_, e⟩ | ⟨_, pre⟩
            · rw [e]; exact hhead
            · rw [hdl_of_prefix hne pre]; exact hhead
          have hne' : ids' ≠ [] := by intro he; subst he; simp [hdl] at hhead'
          have kk1 := kkc_miniChainSetLen hs
          have fin : ∀ {q2 : P} {l2 : List Nat}, q2.starts = p.starts →
              MPres p q2 (mregs (others p.starts slot) L) → IsChain q2.miniFat (startOf p slot) l2 →
              l2.length = (newLen + MINI - 1) / MINI → q2 = p' → MiniLen p' (upd L slot newLen) := by
            intro q2 l2 hst pr c hl e
            subst e
            refine mlen_step r (upd_other _ _ _) (by rw [hst]) pr ?_
            intro st hm _
            rw [hst] at hm
            rw [(mem_startIn j.keys hm).symm, upd_self]
            exact ⟨fun hz => by omega, fun _ => ⟨hstart, l2, c, hl⟩⟩
          split at h
          · rename_i at_ n hz
            split at h
            · cases h
            · rename_i hguard
              obtain ⟨⟨q2, ids2⟩, hw, h⟩ := obind_ok h
              cases h
              have g2 := growc_miniChainWrite _ hw
              have hbq : q.miniFat.size ≤ MAXREG + 1 := Nat.le_trans g2.1.mono hb
              obtain ⟨⟨l', tr', hh, hl, hsame⟩, pr⟩ := miniChainSetLen_v hpos hs hbq nown tr
              obtain ⟨hlt, hat, hsum⟩ := zeroTail_some hz
              have hle : ids.length ≤ (MINI + newLen - 1) / MINI := by
                rw [hlen, Nat.add_comm MINI newLen]
                exact ceil_mono (Nat.le_of_lt hlt)
              have e := hsame hle
              subst e
              have n1 : NC q.miniFat (hdl l' ++ mregs (others p.starts slot) L) :=
                kmc_miniChainSetLen (Or.inl hpos) hs hbq _ nown
              obtain ⟨tr2, hl2, pr2⟩ := miniChainWrite_v _ hw hb _ n1 tr' (Nat.le_of_not_lt hguard)
              have hhead2 : hdl ids2 = [startOf p slot] := by rw [hdl_of_prefix hne' g2.2]; exact hhead'
              refine fin (by rw [(kkc_miniChainWrite _ hw).starts, kk1.starts]) (pr.trans pr2)
                (tr2 _ (by rw [hhead2]; simp)) ?_ rfl
              rw [hl2, hl, List.length_replicate, Nat.add_comm MINI newLen]
              exact Nat.max_eq_left (ceil_mono hsum)
          · cases h
            obtain ⟨⟨l', tr', hh, hl, _⟩, pr⟩ := miniChainSetLen_v hpos hs hb nown tr
            exact fin kk1.starts pr (tr' _ (by rw [hh, hhead']; simp)) (by rw [hl, Nat.add_comm]) rfl
        · rename_i hbig
          obtain ⟨ids, hi, h⟩ := obind_ok h
          obtain ⟨tmp, hr, h⟩ := obind_ok h
          obtain ⟨q1, hf, h⟩ := obind_ok h
          obtain ⟨⟨q2, ids1⟩, hw1, h⟩ := obind_ok h
          obtain ⟨⟨q3, ids2⟩, hs, h⟩ := obind_ok h
          cases h
          have hpos : 0 < newLen := by have := CUTOFF_pos; omega
          have pr1 : MPres p q1 (mregs (others p.starts slot) L) := mpres_freeMiniChain _ hf (by rw [hhd]; exact n0)
          have pr2 : MPres q1 q2 (mregs (others p.starts slot) L) := MPres.of_mf _ (sm_chainWrite _ _ hw1).1
          have pr3 : MPres q2 q3 (mregs (others p.starts slot) L) := MPres.of_mf _ (sm_chainSetLen hs).1
          refine ml_of_mf_big r (upd_other _ _ _)
            (by rw [others_setStart, (kc_chainSetLen hpos hs).2.2.2.2, (kc_chainWrite _ _ hw1).2.2.2.2, (kkc_freeMiniChainFrom hf).starts])
            ((pr1.trans pr2).trans pr3) (by rw [upd_self]; exact Nat.le_of_not_lt hbig)
    · rename_i hbigOld
      have hown : mownOf p.starts L slot = [] := mownOf_big _ (Nat.le_of_not_lt hbigOld)
      have n0 := jmc_n0 j slot
      rw [hown] at n0
      split at h
      · rename_i hzero
        obtain ⟨q, hf, h⟩ := obind_ok h
        cases h
        refine mlen_step r (upd_other _ _ _) (by rw [others_setStart, (sf_freeChain _ hf).2.2.2])
          (MPres.of_mf _ (sm_freeChain _ hf).1) ?_
        intro st hm _
        rw [mem_setStart hm, upd_self]
        exact ⟨fun _ => rfl, fun hp => by omega⟩
      · rename_i hnz
        split at h
        · rename_i hsmall
          obtain ⟨ids, hi, h⟩ := obind_ok h
          obtain ⟨tmp, hr, h⟩ := obind_ok h
          obtain ⟨q1, hf, h⟩ := obind_ok h
          obtain ⟨⟨q2, ids1⟩, hw, h⟩ := obind_ok h
          cases h
          have hmf1 : q1.miniFat = p.miniFat := (sm_freeChain _ hf).1
          have n1 : NC q1.miniFat (hdl [] ++ mregs (others p.starts slot) L) := by rw [hmf1]; simpa [hdl] using n0
          obtain ⟨tr', hl, pr⟩ := miniChainWrite_v _ hw hb _ n1 (Tr.nil _) (by simp)
          have n2 : NC q2.miniFat (hdl ids1 ++ mregs (others p.starts slot) L) :=
            (growc_miniChainWrite _ hw).1.km hb _ n1
          have htmp : tmp.length = newLen := by have := chainRead_len ss _ hr; simpa using this
          refine mlen_step r (upd_other _ _ _)
            (by rw [others_setStart, (kkc_miniChainWrite _ hw).starts, (sf_freeChain _ hf).2.2.2])
            ((MPres.of_mf _ hmf1).trans pr) ?_
          intro st hm _
          rw [mem_setStart hm, upd_self]
          have hl' : ids1.length = (newLen + MINI - 1) / MINI := by rw [hl, htmp]; simp
          exact ⟨fun hz => absurd hz hnz, fun hp => own_of_tr n2 tr' hl' (mceil_pos hp)⟩
        · rename_i hbig
          obtain ⟨ids, hi, h⟩ := obind_ok h
          obtain ⟨⟨q, ids'⟩, hs, h⟩ := obind_ok h
          have hpos : 0 < newLen := by have := CUTOFF_pos; omega
          have sm1 := sm_chainSetLen hs
          have sf1 := (kc_chainSetLen hpos hs).2
          have fin : ∀ {q2 : P}, q2.miniFat = p.miniFat → q2.starts = p.starts → q2 = p' → MiniLen p' (upd L slot newLen) := by
            intro q2 em est e
            subst e
            exact ml_of_mf_big r (upd_other _ _ _) (by rw [est]) (MPres.of_mf _ em)
              (by rw [upd_self]; exact Nat.le_of_not_lt hbig)
          split at h
          · split at h
            · cases h
            · obtain ⟨⟨q2, ids2⟩, hw, h⟩ := obind_ok h
              cases h
              have sm2 := sm_chainWrite _ _ hw
              have sf2 := (kc_chainWrite _ _ hw).2
              exact fin (by show q2.miniFat = p.miniFat; rw [sm2.1, sm1.1]) (by show q2.starts = p.starts; rw [sf2.2.2.2, sf1.2.2.2]) rfl
          · cases h; exact fin sm1.1 sf1.2.2.2 rfl

end CfbVerif.Phys

namespace CfbVerif.Phys
open CfbVerif.Raw

theorem ml_of_same {p p' : P} {L : Nat → Nat} (hm : p'.miniFat = p.miniFat) (hs : p'.starts = p.starts)
    (r : MiniLen p L) : MiniLen p' L := by
  intro e he hc
  rw [hs] at he
  rw [hm]
  exact r e he hc

theorem ml_freeStream {p p' : P} {L : Nat → Nat} {slot : Nat}
    (h : freeStream p slot (L slot) = .ok p') (j : JMC p L) (r : MiniLen p L) : MiniLen p' (upd L slot 0) := by
  unfold freeStream at h
  dsimp only [bind, pure] at h
  have hvac : ∀ q : P, ∀ st, (slot, st) ∈ (dropStart q slot).starts → upd L slot 0 slot < CUTOFF →
      (upd L slot 0 slot = 0 → st = END) ∧
      (0 < upd L slot 0 slot → st ≠ END ∧ ∃ l, IsChain (dropStart q slot).miniFat st l ∧ l.length = (upd L slot 0 slot + MINI - 1) / MINI) := by
    intro q st hm _
    have : (slot, st) ∈ others q.starts slot := hm
    exact absurd rfl (mem_others.mp this).2
  split at h
  · rename_i hsmall
    obtain ⟨q, hf, h⟩ := obind_ok h
    cases h
    have n0 := jmc_n0 j slot
    have hown : mownOf p.starts L slot = hd1 (startOf p slot) := by
      unfold mownOf hd1
      by_cases he : startIn p.starts slot = END
      · have he' : startOf p slot = END := he
        simp [he, he']
      · have he' : ¬ startOf p slot = END := he
        simp [hsmall, he, he']
        rfl
    rw [hown] at n0
    have pr : MPres p q (mregs (others p.starts slot) L) := mpres_freeMiniChain _ hf n0
    exact mlen_step r (upd_other _ _ _) (by rw [others_dropStart, (kkc_freeMiniChainFrom hf).starts]) pr (hvac q)
  · rename_i hbig
    obtain ⟨q, hf, h⟩ := obind_ok h
    cases h
    exact mlen_step r (upd_other _ _ _) (by rw [others_dropStart, (sf_freeChain _ hf).2.2.2])
      (MPres.of_mf _ (sm_freeChain _ hf).1) (hvac q)

theorem ml_ensureDirSlot {p p' : P} {L : Nat → Nat} {slot : Nat} (h : ensureDirSlot p slot = .ok p') (r : MiniLen p L) :
    MiniLen p' L := by
  unfold ensureDirSlot at h
  split at h
  · cases h; exact r
  · split at h
    · split at h
      · rename_i q id he
        cases h
        exact ml_of_same (by show q.miniFat = p.miniFat; exact (sm_extendChain he).1)
          (by show q.starts = p.starts; exact (sf_extendChain he).2.2.2) r
      · cases h
      · cases h
      · cases h
    · cases h; exact ml_of_same (p := p) rfl rfl r

theorem ml_reopen {p p' : P} {L : Nat → Nat} (h : Phys.reopen p = .ok p') (r : MiniLen p L) : MiniLen p' L := by
  unfold Phys.reopen at h
  obtain ⟨chain, hc, h⟩ := bind_ok h
  cases h
  exact ml_of_same (p := p) rfl rfl r

theorem ml_create {p : P} {L : Nat → Nat} {slot : Nat} (r : MiniLen p L) :
    MiniLen (setStart p slot END) (upd L slot 0) := by
  refine mlen_step r (upd_other _ _ _) (others_setStart _ _ _) (MPres.refl _ _) ?_
  intro st hm _
  rw [mem_setStart hm, upd_self]
  exact ⟨fun _ => rfl, fun hp => absurd hp (Nat.lt_irrefl 0)⟩

theorem ml_init (v4 : Bool) : MiniLen (Phys.create v4) (fun _ => 0) := by
  intro e he
  have : (Phys.create v4).starts = [] := rfl
  rw [this] at he
  simp at he

/-- everything the allocation level keeps: regular chains, mini chains, sector sizes, lengths -/
structure JA (p : P) (L : Nat → Nat) : Prop where
  jr : JR p L
  jm : JMC p L
  ml : MiniLen p L

theorem ja_gstep {g g' : G} {op : GOp} (h : gstep g op = .ok g') (j : JA g.p g.L) (hw : opInRange g op)
    (hb : g'.p.fat.size ≤ MAXREG + 1) (hbm : g'.p.miniFat.size ≤ MAXREG + 1) : JA g'.p g'.L := by
  refine ⟨jr_gstep h j.jr hw hb, jmc_gstep h j.jm hbm, ?_⟩
  cases op with
  | ensure s => obtain ⟨q, hq, h⟩ := obind_ok h; cases h; exact ml_ensureDirSlot hq j.ml
  | create s =>
    simp only [gstep] at h
    split at h
    · cases h; exact ml_create j.ml
    · cases h
  | write s off bs => obtain ⟨r, hq, h⟩ := obind_ok h; cases h; exact ml_writeData hq j.jm j.ml hw hbm
  | resize s n => obtain ⟨q, hq, h⟩ := obind_ok h; cases h; exact ml_resize hq j.jm j.ml j.jr.ss hbm
  | free s => obtain ⟨q, hq, h⟩ := obind_ok h; cases h; exact ml_freeStream hq j.jm j.ml
  | reopen => obtain ⟨q, hq, h⟩ := obind_ok h; cases h; exact ml_reopen hq j.ml

theorem ja_grun (ops : List GOp) : ∀ g : G, JA g.p g.L → WritesInRange g ops → MiniBounded g ops →
    (grun g ops).p.fat.size ≤ MAXREG + 1 → JA (grun g ops).p (grun g ops).L := by
  induction ops with
  | nil => intro g j _ _ _; exact j
  | cons op rest ih =>
    intro g j hw hm hb
    simp only [grun] at hb ⊢
    simp only [WritesInRange] at hw
    simp only [MiniBounded] at hm
    cases hs : gstep g op with
    | ok g' =>
      simp only [hs] at hb hw hm ⊢
      exact ih g' (ja_gstep hs j hw.1 (Nat.le_trans (grun_mono rest g') hb) hm.1) hw.2 hm.2 hb
    | err k => simp only [hs] at hb hw hm ⊢; exact ih g j hw.2 hm hb
    | panic s => simp only [hs] at hb hw hm ⊢; exact ih g j hw.2 hm hb
    | hang s => simp only [hs] at hb hw hm ⊢; exact ih g j hw.2 hm hb

/-- **each stream's chain length matches its size, below the cutoff too**: after every history of
stream-level operations on a fresh file in which writes start at or before the end of their stream,
a stream below 4096 bytes has no start sector when it is empty and otherwise a chain of exactly
`⌈length / 64⌉` mini sectors in the MiniFAT; a stream of at least 4096 bytes has exactly
`⌈length / sector size⌉` sectors in the FAT -/
theorem lengths_reachable (v4 : Bool) (ops : List GOp) :
    let g0 : G := { p := Phys.create v4, L := fun _ => 0 }
    WritesInRange g0 ops → MiniBounded g0 ops → (grun g0 ops).p.fat.size ≤ MAXREG + 1 →
    JA (grun g0 ops).p (grun g0 ops).L :=
  fun hw hm hb => ja_grun ops _ ⟨⟨jc_init v4, rl_init v4, ss_create v4⟩, jmc_init v4, ml_init v4⟩ hw hm hb

end CfbVerif.Phys
