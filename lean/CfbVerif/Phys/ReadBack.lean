import CfbVerif.Phys.Layout
import CfbVerif.Phys.NoLeak
/-!
# The reader model reads the allocation tables back from the rendered image

For every state of the allocation model whose four kinds of table sectors are where the model says
they are (`RolesWf`: the FAT sectors listed in the DIFAT, the DIFAT sectors, the directory chain
and the MiniFAT chain are pairwise disjoint, inside the file, without repetition), the reader
model's `readFat`, run on the image the renderer produces, returns the model's FAT (padded with
FREE to whole sectors) — for every such state, not for the states a campaign visited.
-/
namespace CfbVerif.Phys
open CfbVerif.Raw CfbVerif.Dir

/-- the table sectors are where the model says, and nowhere twice -/
structure RolesWf (p : P) : Prop where
  fatNd : p.difat.Nodup
  fatLt : ∀ x ∈ p.difat, x < p.numSectors
  difNd : p.difatSectorIds.Nodup
  difLt : ∀ x ∈ p.difatSectorIds, x < p.numSectors
  dirNd : (chainOrEmpty p p.dirStart).Nodup
  dirLt : ∀ x ∈ chainOrEmpty p p.dirStart, x < p.numSectors
  mfNd : (chainOrEmpty p p.miniFatStart).Nodup
  mfLt : ∀ x ∈ chainOrEmpty p p.miniFatStart, x < p.numSectors
  fat_dif : ∀ x ∈ p.difat, x ∉ p.difatSectorIds
  fat_dir : ∀ x ∈ p.difat, x ∉ chainOrEmpty p p.dirStart
  fat_mf : ∀ x ∈ p.difat, x ∉ chainOrEmpty p p.miniFatStart
  dif_dir : ∀ x ∈ p.difatSectorIds, x ∉ chainOrEmpty p p.dirStart
  dif_mf : ∀ x ∈ p.difatSectorIds, x ∉ chainOrEmpty p p.miniFatStart
  dir_mf : ∀ x ∈ chainOrEmpty p p.dirStart, x ∉ chainOrEmpty p p.miniFatStart

theorem rolesOf_fat {p : P} (wf : RolesWf p) (k : Nat) (hk : k < p.difat.length) :
    (rolesOf p)[p.difat[k]]? = some (.fat k) := by
  have hm : p.difat[k] ∈ p.difat := List.getElem_mem _
  unfold rolesOf
  simp only [markRoles_eq]
  rw [markFrom_not_mem _ _ _ _ _ (wf.fat_mf _ hm), markFrom_not_mem _ _ _ _ _ (wf.fat_dir _ hm),
    markFrom_not_mem _ _ _ _ _ (wf.fat_dif _ hm)]
  have := markFrom_get Role.fat p.difat (Array.replicate p.numSectors Role.data) 0 k hk wf.fatNd
    (by simp; exact wf.fatLt _ hm)
  simpa using this

theorem rolesOf_miniFat {p : P} (wf : RolesWf p) (k : Nat) (hk : k < (chainOrEmpty p p.miniFatStart).length) :
    (rolesOf p)[(chainOrEmpty p p.miniFatStart)[k]]? = some (.miniFat k) := by
  have hm : (chainOrEmpty p p.miniFatStart)[k] ∈ chainOrEmpty p p.miniFatStart := List.getElem_mem _
  unfold rolesOf
  simp only [markRoles_eq]
  have := markFrom_get Role.miniFat (chainOrEmpty p p.miniFatStart)
    (markFrom Role.dir (markFrom Role.difat (markFrom Role.fat (Array.replicate p.numSectors Role.data) p.difat 0)
      p.difatSectorIds 0) (chainOrEmpty p p.dirStart) 0) 0 k hk wf.mfNd
    (by rw [markFrom_size, markFrom_size, markFrom_size]; simp; exact wf.mfLt _ hm)
  simpa using this

/-- **every FAT cell is read back**: the reader model's 4-byte read at cell `j` of the `k`-th FAT
sector of the rendered image returns the model's FAT entry (FREE beyond its end) -/
theorem fat_cell_readback (p : P) (rows : List Row) (ss : SS p) (hs : SlotsOk (slotsOf p rows)) (wf : RolesWf p)
    (k : Nat) (hk : k < p.difat.length) (j : Nat) (hj : j < p.epsec) :
    leN (render p rows) (sectorOff p.S p.difat[k] (4 * j)) 4 = some (cellAt p.fat (k * p.epsec + j) % 256 ^ 4) := by
  have hid : p.difat[k] < p.numSectors := wf.fatLt _ (List.getElem_mem _)
  obtain ⟨f1, _, _, _⟩ := S_facts p
  have hw : 4 * j + 4 ≤ p.S := by unfold P.epsec at hj; omega
  unfold sectorOff
  rw [render_at p rows ss hs _ hid (4 * j) 4 hw]
  unfold sectorStep
  rw [rolesOf_fat wf k hk]
  simp only [Option.getD_some]
  have hsz := prefixOf_size p rows ss hs p.difat[k] (Nat.le_of_lt hid)
  have h := pushCells_read (prefixOf p rows p.difat[k])
    ((List.range p.epsec).map (fun j => cellAt p.fat (k * p.epsec + j))) [] j (by simpa using hj)
  simp only [pushFields] at h
  rw [hsz] at h
  rw [h]
  simp

theorem readU32s_of_cells (img : Img) (c : Nat → Nat) : ∀ (n off : Nat),
    (∀ j, j < n → leN img (off + 4 * j) 4 = some (c j)) →
    readU32s img off n = .ok ((List.range n).map c) := by
  intro n
  induction n generalizing c with
  | zero => intro off _; rfl
  | succ n ih =>
    intro off h
    unfold readU32s
    have h0 := h 0 (Nat.succ_pos _)
    simp only [Nat.mul_zero, Nat.add_zero] at h0
    have hr : rd img off 4 = .ok (c 0) := by unfold rd; rw [h0]
    have hrest := ih (fun j => c (j + 1)) (off + 4) (by
      intro j hj
      have := h (j + 1) (by omega)
      have e : off + 4 * (j + 1) = off + 4 + 4 * j := by omega
      rw [e] at this; exact this)
    simp only [bind, Except.bind, hr, hrest, pure, Except.pure]
    congr 1
    rw [List.range_succ_eq_map]
    simp [List.map_map, Function.comp_def]

/-- the FAT as the reader loads it from the image: the model's FAT, FAT sector by FAT sector -/
def fatCells (p : P) (k : Nat) : List Nat := (List.range p.epsec).map (fun j => cellAt p.fat (k * p.epsec + j) % 256 ^ 4)

theorem readFat_readback (p : P) (rows : List Row) (ss : SS p) (hs : SlotsOk (slotsOf p rows)) (wf : RolesWf p) :
    ∀ (n k0 : Nat), k0 + n = p.difat.length →
    readFat (render p rows) p.S p.numSectors (p.difat.drop k0) = .ok (((List.range n).map (fun i => fatCells p (k0 + i))).flatten) := by
  intro n
  induction n with
  | zero =>
    intro k0 h
    have : p.difat.drop k0 = [] := List.drop_eq_nil_of_le (by omega)
    rw [this]; rfl
  | succ n ih =>
    intro k0 h
    have hk : k0 < p.difat.length := by omega
    rw [List.drop_eq_getElem_cons hk]
    unfold readFat
    have hid : p.difat[k0] < p.numSectors := wf.fatLt _ (List.getElem_mem _)
    rw [if_neg (by omega)]
    have hcells : readU32s (render p rows) (sectorOff p.S p.difat[k0] 0) (p.S / 4) = .ok (fatCells p k0) := by
      have := readU32s_of_cells (render p rows) (fun j => cellAt p.fat (k0 * p.epsec + j) % 256 ^ 4) p.epsec
        (sectorOff p.S p.difat[k0] 0) (by
          intro j hj
          have := fat_cell_readback p rows ss hs wf k0 hk j hj
          unfold sectorOff at this ⊢
          rw [← this]
          congr 1)
      exact this
    rw [hcells]
    simp only
    rw [ih (k0 + 1) (by omega)]
    simp only [bind, Except.bind, pure, Except.pure]
    congr 1
    rw [List.range_succ_eq_map]
    simp only [List.map_cons, List.flatten_cons, List.map_map, Nat.add_zero]
    congr 2
    apply List.map_congr_left
    intro i _
    simp only [Function.comp_def]
    congr 1
    omega

/-- **the reader's FAT is the writer's FAT**: `readFat` on the rendered image returns, FAT sector by
FAT sector, the model's FAT entries (FREE beyond the end of the table) -/
theorem C02_fat_readback (p : P) (rows : List Row) (ss : SS p) (hs : SlotsOk (slotsOf p rows)) (wf : RolesWf p) :
    readFat (render p rows) p.S p.numSectors p.difat =
      .ok (((List.range p.difat.length).map (fun k => fatCells p k)).flatten) := by
  have := readFat_readback p rows ss hs wf p.difat.length 0 (by omega)
  simpa using this

/-! ## the MiniFAT -/

theorem mf_cell_readback (p : P) (rows : List Row) (ss : SS p) (hs : SlotsOk (slotsOf p rows)) (wf : RolesWf p)
    (k : Nat) (hk : k < (chainOrEmpty p p.miniFatStart).length) (j : Nat) (hj : j < p.S / 4) :
    leN (render p rows) (sectorOff p.S (chainOrEmpty p p.miniFatStart)[k] (4 * j)) 4 =
      some (cellAt p.miniFat (k * (p.S / 4) + j) % 256 ^ 4) := by
  have hid : (chainOrEmpty p p.miniFatStart)[k] < p.numSectors := wf.mfLt _ (List.getElem_mem _)
  obtain ⟨f1, _, _, _⟩ := S_facts p
  have hw : 4 * j + 4 ≤ p.S := by omega
  unfold sectorOff
  rw [render_at p rows ss hs _ hid (4 * j) 4 hw]
  unfold sectorStep
  rw [rolesOf_miniFat wf k hk]
  simp only [Option.getD_some]
  have hsz := prefixOf_size p rows ss hs (chainOrEmpty p p.miniFatStart)[k] (Nat.le_of_lt hid)
  have h := pushCells_read (prefixOf p rows (chainOrEmpty p p.miniFatStart)[k])
    ((List.range (p.S / 4)).map (fun j => cellAt p.miniFat (k * (p.S / 4) + j))) [] j (by simpa using hj)
  simp only [pushFields] at h
  rw [hsz] at h
  rw [h]
  simp

theorem readChainU32s_of_cells (img : Img) (S : Nat) (ids : Array Nat) (c : Nat → Nat) : ∀ (n i : Nat),
    (∀ t, i ≤ t → t < i + n → ∃ id, ids[4 * t / S]? = some id ∧ leN img (sectorOff S id (4 * t % S)) 4 = some (c t)) →
    readChainU32s img S ids n i = .ok ((List.range n).map (fun t => c (i + t))) := by
  intro n
  induction n with
  | zero => intro i _; rfl
  | succ n ih =>
    intro i h
    unfold readChainU32s
    obtain ⟨id, hid, hc⟩ := h i (Nat.le_refl _) (by omega)
    simp only [hid]
    have hr : liftE (rd img (sectorOff S id (4 * i % S)) 4) = .ok (c i) := by unfold rd; rw [hc]; rfl
    have hrest := ih (i + 1) (fun t h1 h2 => h t (by omega) (by omega))
    simp only [bind, pure]
    rw [hr]
    show (readChainU32s img S ids n (i + 1)).bind _ = _
    rw [hrest]
    show Outcome.ok _ = _
    congr 1
    rw [List.range_succ_eq_map]
    simp only [List.map_cons, List.map_map, Nat.add_zero]
    congr 1
    apply List.map_congr_left
    intro t _
    simp only [Function.comp_def]
    congr 1
    omega

/-- **the reader's MiniFAT is the writer's MiniFAT**: reading the MiniFAT chain of the rendered image
returns the model's MiniFAT entries (FREE beyond the end of the table, up to whole sectors) -/
theorem C02_minifat_readback (p : P) (rows : List Row) (ss : SS p) (hs : SlotsOk (slotsOf p rows)) (wf : RolesWf p) :
    readChainU32s (render p rows) p.S (chainOrEmpty p p.miniFatStart).toArray
        ((chainOrEmpty p p.miniFatStart).length * p.S / 4) 0 =
      .ok ((List.range ((chainOrEmpty p p.miniFatStart).length * p.S / 4)).map (fun t => cellAt p.miniFat t % 256 ^ 4)) := by
  obtain ⟨f1, _, _, _⟩ := S_facts p
  have hS4 : 0 < p.S / 4 := by rcases S_cases p with h | h <;> rw [h] <;> decide
  have h := readChainU32s_of_cells (render p rows) p.S (chainOrEmpty p p.miniFatStart).toArray
    (fun t => cellAt p.miniFat t % 256 ^ 4) ((chainOrEmpty p p.miniFatStart).length * p.S / 4) 0 (by
      intro t _ ht
      simp only [Nat.zero_add] at ht
      -- t = k * (S/4) + j
      have hlen : (chainOrEmpty p p.miniFatStart).length * p.S / 4 = (chainOrEmpty p p.miniFatStart).length * (p.S / 4) := by
        rw [← f1, ← Nat.mul_assoc, Nat.mul_div_cancel _ (by decide : 0 < 4)]
        rw [f1]
      rw [hlen] at ht
      have hk : t / (p.S / 4) < (chainOrEmpty p p.miniFatStart).length := by
        apply (Nat.div_lt_iff_lt_mul hS4).mpr; exact ht
      have hj : t % (p.S / 4) < p.S / 4 := Nat.mod_lt _ hS4
      have hdecomp : t = t / (p.S / 4) * (p.S / 4) + t % (p.S / 4) := by
        rw [Nat.mul_comm]; exact (Nat.div_add_mod t (p.S / 4)).symm
      have hidx : 4 * t / p.S = t / (p.S / 4) := by
        rcases S_cases p with hS | hS <;> rw [hS] <;> omega
      have hoff : 4 * t % p.S = 4 * (t % (p.S / 4)) := by
        rcases S_cases p with hS | hS <;> rw [hS] <;> omega
      refine ⟨(chainOrEmpty p p.miniFatStart)[t / (p.S / 4)], ?_, ?_⟩
      · rw [hidx]; simp [hk]
      · rw [hoff]
        have := mf_cell_readback p rows ss hs wf (t / (p.S / 4)) hk (t % (p.S / 4)) hj
        rw [this, ← hdecomp])
  simpa using h

/-! ## the premise holds in every state the invariants describe -/

theorem IsChain.cell {fat : Array Nat} {a : Nat} {l : List Nat} (c : IsChain fat a l) :
    ∀ x ∈ l, ∃ w, fat[x]? = some w ∧ (w = END ∨ w ≤ MAXREG) := by
  induction c with
  | last he => intro x hx; simp at hx; subst hx; exact ⟨END, he, Or.inl rfl⟩
  | cons hab hb _ ih =>
    intro x hx
    rcases List.mem_cons.mp hx with rfl | hx
    · exact ⟨_, hab, Or.inr hb⟩
    · exact ih x hx

theorem chainOrEmpty_of_isChain {p : P} {hs : List Nat} (n : NSH p.fat hs) {h : Nat} (m : h ∈ hs) {l : List Nat}
    (c : IsChain p.fat h l) : chainOrEmpty p h = l := by
  unfold chainOrEmpty chainIds
  rw [chainFrom_of_isChain n m c]

theorem chainOrEmpty_END (p : P) : chainOrEmpty p END = [] := by
  unfold chainOrEmpty chainIds chainFrom chainLoop
  simp

/-- **the table sectors are where the model says**, in every state with no sharing, no leak and
correct marks — in particular in every reachable state of the store machine -/
theorem rolesWf_of {p : P} {L : Nat → Nat} (j : JC p L) (m : MK p) : RolesWf p := by
  have hsize : p.fat.size = p.numSectors := j.inv.fat.size
  have n := j.nc
  have hdirm : p.dirStart ∈ heads p L := by simp [heads, cont]
  obtain ⟨ld, cd⟩ := n.ch p.dirStart hdirm
  have ed : chainOrEmpty p p.dirStart = ld := chainOrEmpty_of_isChain n.ns hdirm cd
  -- the MiniFAT chain: empty, or the chain of a head
  have hmf : ∃ lm, chainOrEmpty p p.miniFatStart = lm ∧ lm.Nodup ∧
      (∀ x ∈ lm, ∃ w, p.fat[x]? = some w ∧ (w = END ∨ w ≤ MAXREG)) ∧ (∀ x ∈ ld, x ∉ lm) := by
    by_cases he : p.miniFatStart = END
    · rw [he, chainOrEmpty_END]
      refine ⟨[], rfl, List.nodup_nil, ?_, ?_⟩
      · intro x hx; cases hx
      · intro x _ hx; cases hx
    · have hm : p.miniFatStart ∈ heads p L := by simp [heads, cont, hd1, he]
      obtain ⟨lm, cm⟩ := n.ch p.miniFatStart hm
      refine ⟨lm, chainOrEmpty_of_isChain n.ns hm cm, cm.nodup n.ns hm, cm.cell, ?_⟩
      intro x hxd hxm
      have e := IsChain.disjoint n.ns hdirm hm cd cm hxd hxm
      -- the two heads are different entries of a list without repetition
      have hnd := n.ns.nodup
      unfold heads cont at hnd
      simp only [hd1, he, if_false, List.cons_append, List.nodup_cons] at hnd
      exact hnd.1 (by rw [e]; simp)
  obtain ⟨lm, em, hmnd, hmcell, hdm⟩ := hmf
  have cellLt : ∀ {x w : Nat}, p.fat[x]? = some w → x < p.numSectors := fun h => by rw [← hsize]; exact lt_of_get h
  have plainNotFat : ∀ {x w : Nat}, p.fat[x]? = some w → (w = END ∨ w ≤ MAXREG) → x ∉ p.difat := by
    intro x w hw hp hm'
    have := (m.fatMark x).mpr hm'
    rw [hw] at this
    have e := Option.some.inj this
    rcases hp with h | h
    · rw [h] at e; exact absurd e (by decide)
    · have := MAXREG_lt_FATSECT; omega
  have plainNotDif : ∀ {x w : Nat}, p.fat[x]? = some w → (w = END ∨ w ≤ MAXREG) → x ∉ p.difatSectorIds := by
    intro x w hw hp hm'
    have := (m.difMark x).mpr hm'
    rw [hw] at this
    have e := Option.some.inj this
    rcases hp with h | h
    · rw [h] at e; exact absurd e (by decide)
    · have := MAXREG_lt_DIFSECT; omega
  have dcell := cd.cell
  rw [ed.symm] at dcell hdm
  have hdnd : (chainOrEmpty p p.dirStart).Nodup := by rw [ed]; exact cd.nodup n.ns hdirm
  rw [em.symm] at hmnd hmcell hdm
  refine ⟨m.fatNd, ?_, m.difNd, ?_, hdnd, ?_, hmnd, ?_, ?_, ?_, ?_, ?_, ?_, hdm⟩
  · intro x hx; exact cellLt ((m.fatMark x).mpr hx)
  · intro x hx; exact cellLt ((m.difMark x).mpr hx)
  · intro x hx; obtain ⟨w, hw, _⟩ := dcell x hx; exact cellLt hw
  · intro x hx; obtain ⟨w, hw, _⟩ := hmcell x hx; exact cellLt hw
  · intro x hx hx2
    have h1 := (m.fatMark x).mpr hx
    have h2 := (m.difMark x).mpr hx2
    rw [h1] at h2
    exact absurd (Option.some.inj h2) (by decide)
  · intro x hx hx2; obtain ⟨w, hw, hp⟩ := dcell x hx2; exact plainNotFat hw hp hx
  · intro x hx hx2; obtain ⟨w, hw, hp⟩ := hmcell x hx2; exact plainNotFat hw hp hx
  · intro x hx hx2; obtain ⟨w, hw, hp⟩ := dcell x hx2; exact plainNotDif hw hp hx
  · intro x hx hx2; obtain ⟨w, hw, hp⟩ := hmcell x hx2; exact plainNotDif hw hp hx

end CfbVerif.Phys
