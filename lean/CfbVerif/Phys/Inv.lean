import CfbVerif.Phys.Mini
/-!
# The allocator invariant holds after every operation of the allocation level

`Inv p`: the FAT covers exactly the sectors of the file; the free list holds exactly the sectors
whose FAT cell is FREE, each once.  It is proved for a fresh file and preserved by every operation
of `Phys` that the API model composes (`ensureDirSlot`, `writeData`, `resize`, `freeStream`,
`reopen`, and everything they are made of), so it holds in every state the API model can reach.
Two consequences are what C03 and C15 ask of the allocator:

* every sector handed out was FREE or is new (no sector enters two chains through allocation);
* the file grows only when not a single FREE sector exists (`grow_only_when_full`).
-/
namespace CfbVerif.Phys
open CfbVerif.Raw

structure Inv (p : P) : Prop where
  fat : FatInv p
  complete : ∀ i : Nat, p.fat[i]? = some FREE → i ∈ p.free

theorem bind_ok {α β : Type} {x : Outcome α} {f : α → Outcome β} {b : β}
    (h : (x >>= f) = .ok b) : ∃ a, x = .ok a ∧ f a = .ok b := by
  cases x with
  | ok a => exact ⟨a, rfl, h⟩
  | err k => cases h
  | panic s => cases h
  | hang s => cases h

theorem obind_ok {α β : Type} {x : Outcome α} {f : α → Outcome β} {b : β}
    (h : x.bind f = .ok b) : ∃ a, x = .ok a ∧ f a = .ok b := bind_ok h

theorem inv_create (v4 : Bool) : Inv (Phys.create v4) := by
  refine ⟨⟨rfl, rfl, (by intro i hi; cases hi), List.nodup_nil⟩, ?_⟩
  intro i hi
  simp only [Phys.create] at hi
  rcases i with _ | _ | i
  · simp [FATSECT, FREE, Gen.FAT_SECTOR, Gen.FREE_SECTOR] at hi
  · simp [END, FREE, Gen.END_OF_CHAIN, Gen.FREE_SECTOR] at hi
  · simp at hi

/-- fields an operation may touch without any effect on the invariant -/
def SameAlloc (p q : P) : Prop :=
  q.fat = p.fat ∧ q.free = p.free ∧ q.numSectors = p.numSectors ∧ q.sectors.size = p.sectors.size

theorem inv_of_same {p q : P} (h : SameAlloc p q) (inv : Inv p) : Inv q := by
  obtain ⟨hf, hfr, hn, hs⟩ := h
  refine ⟨⟨(by rw [hf, hn]; exact inv.fat.size), (by rw [hs, hn]; exact inv.fat.secs), ?_, (by rw [hfr]; exact inv.fat.freeNodup)⟩, ?_⟩
  · intro i hi; rw [hf]; exact inv.fat.freeFree i (hfr ▸ hi)
  · intro i hi; rw [hfr]; exact inv.complete i (hf ▸ hi)

theorem SameAlloc.refl (p : P) : SameAlloc p p := ⟨rfl, rfl, rfl, rfl⟩
theorem SameAlloc.trans {p q r : P} (h1 : SameAlloc p q) (h2 : SameAlloc q r) : SameAlloc p r :=
  ⟨h2.1.trans h1.1, h2.2.1.trans h1.2.1, h2.2.2.1.trans h1.2.2.1, h2.2.2.2.trans h1.2.2.2⟩

/-! ## primitives -/

/-- overwriting a cell that is not FREE with a value that is not FREE -/
theorem inv_setFat_used {p p' : P} {idx val : Nat} (inv : Inv p) (hidx : idx < p.fat.size)
    (hold : p.fat[idx]? ≠ some FREE) (hval : val ≠ FREE) (h : setFat p idx val = .ok p') :
    Inv p' ∧ p'.numSectors = p.numSectors ∧ p'.free = p.free := by
  have hp : p' = { p with fat := p.fat.setIfInBounds idx val } := by
    rcases setFat_ok h with ⟨he, _⟩ | ⟨_, he⟩
    · omega
    · exact he
  subst hp
  refine ⟨⟨⟨(by simpa using inv.fat.size), inv.fat.secs, ?_, inv.fat.freeNodup⟩, ?_⟩, rfl, rfl⟩
  · intro i hi
    have hne : idx ≠ i := by
      intro he; subst he; exact hold (inv.fat.freeFree _ hi)
    simp only [Array.getElem?_setIfInBounds, if_neg hne]
    exact inv.fat.freeFree i hi
  · intro i hi
    by_cases he : idx = i
    · subst he
      simp [hidx] at hi
      exact absurd hi hval
    · simp only [Array.getElem?_setIfInBounds, if_neg he] at hi
      exact inv.complete i hi

theorem writeSector_same {p p' : P} {id off : Nat} {bs : Bytes} (h : writeSector p id off bs = .ok p') :
    SameAlloc p p' := by
  unfold writeSector at h
  split at h
  · cases h
  · cases h
    exact ⟨rfl, rfl, rfl, (by simp)⟩

theorem nextSector_ok {fat : Array Nat} {id next : Nat} (h : nextSector fat id = .ok next) :
    id < fat.size ∧ fat[id]? = some next ∧ next ≠ FREE := by
  unfold nextSector at h
  split at h
  · rename_i hlt
    dsimp only at h
    split at h
    · cases h
    · rename_i hc
      cases h
      refine ⟨hlt, (by simp [hlt]), ?_⟩
      intro he
      apply hc
      rw [he]
      refine ⟨(by decide), Or.inl (by decide)⟩
  · cases h

/-! ## allocation -/

theorem inv_appendFatSector {p p' : P} (inv : Inv p) (hfree : p.free = []) (h : appendFatSector p = .ok p') :
    Inv p' ∧ p'.free = [] := by
  unfold appendFatSector at h
  obtain ⟨p1, h1, h⟩ := bind_ok h
  have hp1 : p1 = { p with numSectors := p.numSectors + 1, sectors := p.sectors.push (zeroSector p.S) } := by
    rcases initSector_ok h1 with ⟨_, he⟩ | ⟨hl, _⟩
    · exact he
    · have := inv.fat.size; omega
  subst hp1
  obtain ⟨p2, h2, h⟩ := bind_ok h
  have hp2 : p2 = { p with numSectors := p.numSectors + 1, sectors := p.sectors.push (zeroSector p.S),
                           difat := p.difat ++ [p.fat.size], fat := p.fat.push FATSECT } := by
    rcases setFat_ok h2 with ⟨_, he⟩ | ⟨hl, _⟩
    · exact he
    · simp at hl
  subst hp2
  have inv2 : Inv { p with numSectors := p.numSectors + 1, sectors := p.sectors.push (zeroSector p.S),
                           difat := p.difat ++ [p.fat.size], fat := p.fat.push FATSECT } := by
    refine ⟨⟨(by simp [inv.fat.size]), (by simp [inv.fat.secs]), (by intro i hi; simp [hfree] at hi), (by simp [hfree])⟩, ?_⟩
    intro i hi
    simp only [Array.getElem?_push] at hi
    split at hi
    · simp [FATSECT, FREE, Gen.FAT_SECTOR, Gen.FREE_SECTOR] at hi
    · exact inv.complete i hi
  split at h
  · cases h; exact ⟨inv2, hfree⟩
  · dsimp only at h
    split at h
    · obtain ⟨p3, h3, h⟩ := bind_ok h
      obtain ⟨p4, h4, h⟩ := bind_ok h
      cases h
      have hp3 : p3 = { p with numSectors := p.numSectors + 1 + 1,
                               sectors := (p.sectors.push (zeroSector p.S)).push (zeroSector p.S),
                               difat := p.difat ++ [p.fat.size], fat := p.fat.push FATSECT } := by
        rcases initSector_ok h3 with ⟨_, he⟩ | ⟨hl, _⟩
        · exact he
        · simp at hl; have := inv.fat.size; omega
      subst hp3
      have hp4 : p4 = { p with numSectors := p.numSectors + 1 + 1,
                               sectors := (p.sectors.push (zeroSector p.S)).push (zeroSector p.S),
                               difat := p.difat ++ [p.fat.size], fat := (p.fat.push FATSECT).push DIFSECT } := by
        rcases setFat_ok h4 with ⟨_, he⟩ | ⟨hl, _⟩
        · exact he
        · simp at hl
      subst hp4
      refine ⟨⟨⟨(by simp [inv.fat.size]), (by simp [inv.fat.secs]), (by intro i hi; simp [hfree] at hi), (by simp [hfree])⟩, ?_⟩, hfree⟩
      intro i hi
      simp only [Array.getElem?_push] at hi
      split at hi
      · simp [DIFSECT, FREE, Gen.DIFAT_SECTOR, Gen.FREE_SECTOR] at hi
      · split at hi
        · simp [FATSECT, FREE, Gen.FAT_SECTOR, Gen.FREE_SECTOR] at hi
        · exact inv.complete i hi
    · cases h; exact ⟨inv2, hfree⟩

/-- the FAT only gets longer when a FAT sector is appended -/
theorem appendFatSector_size {p p' : P} (h0 : appendFatSector p = .ok p') : p.fat.size ≤ p'.fat.size := by
  unfold appendFatSector at h0
  obtain ⟨q1, g1, h0⟩ := bind_ok h0
  obtain ⟨q2, g2, h0⟩ := bind_ok h0
  have e1 : q1.fat = p.fat := by
    rcases initSector_ok g1 with ⟨_, he⟩ | ⟨_, he⟩ <;> subst he <;> rfl
  have e2 : q2.fat.size = p.fat.size + 1 := by
    rcases setFat_ok g2 with ⟨_, he⟩ | ⟨hl, _⟩
    · subst he; simp [e1]
    · simp [e1] at hl
  split at h0
  · cases h0; omega
  · dsimp only at h0
    split at h0
    · obtain ⟨q3, g3, h0⟩ := bind_ok h0
      obtain ⟨q4, g4, h0⟩ := bind_ok h0
      cases h0
      have e3 : q3.fat = q2.fat := by
        rcases initSector_ok g3 with ⟨_, he⟩ | ⟨_, he⟩ <;> subst he <;> rfl
      rcases setFat_ok g4 with ⟨_, he⟩ | ⟨_, he⟩
      · subst he; simp [e3]; omega
      · subst he; simp [e3]; omega
    · cases h0; omega

/-- the tail of the growing branch: a new sector at the end of the file -/
theorem inv_extend_tail {p0 p' : P} {id : Nat} {k : Init} (inv0 : Inv p0) (hfree0 : p0.free = [])
    (h : (setFat p0 p0.fat.size END >>= fun p1 => initSector p1 p0.fat.size k >>= fun p2 => pure (p2, p0.fat.size)) = .ok (p', id)) :
    Inv p' ∧ p'.fat[id]? = some END ∧ id = p0.fat.size := by
  obtain ⟨p1, h1, h⟩ := bind_ok h
  obtain ⟨p2, h2, h⟩ := bind_ok h
  have hp1 : p1 = { p0 with fat := p0.fat.push END } := by
    rcases setFat_ok h1 with ⟨_, he⟩ | ⟨hl, _⟩
    · exact he
    · omega
  subst hp1
  have hp2 : p2 = { p0 with fat := p0.fat.push END, numSectors := p0.numSectors + 1,
                            sectors := p0.sectors.push (zeroSector p0.S) } := by
    rcases initSector_ok h2 with ⟨_, he⟩ | ⟨hl, _⟩
    · exact he
    · simp at hl; have := inv0.fat.size; omega
  subst hp2
  cases h
  refine ⟨⟨⟨(by simp [inv0.fat.size]), (by simp [inv0.fat.secs]), (by intro i hi; simp [hfree0] at hi), (by simp [hfree0])⟩, ?_⟩,
          (by simp), rfl⟩
  intro i hi
  simp only [Array.getElem?_push] at hi
  split at hi
  · simp [END, FREE, Gen.END_OF_CHAIN, Gen.FREE_SECTOR] at hi
  · exact inv0.complete i hi

/-- `allocate_sector` keeps the invariant; the sector it returns had a FREE cell or is new, and the
file grows only when the free list — hence the whole FAT — has no FREE cell -/
theorem inv_allocateSector {p p' : P} {id : Nat} {k : Init} (inv : Inv p) (h : allocateSector p k = .ok (p', id)) :
    Inv p' ∧ p'.fat[id]? = some END ∧
    (p.fat[id]? = some FREE ∨ p.fat.size ≤ id) ∧
    (p'.numSectors ≠ p.numSectors → ∀ i : Nat, p.fat[i]? ≠ some FREE) := by
  by_cases hfree : p.free = []
  · -- nothing free: the file grows
    have hnone : ∀ i : Nat, p.fat[i]? ≠ some FREE := by
      intro i hi; have := inv.complete i hi; rw [hfree] at this; cases this
    unfold allocateSector at h
    simp only [hfree, List.getLast?_nil] at h
    split at h
    · obtain ⟨p0, h0, h⟩ := bind_ok h
      have i0 := inv_appendFatSector inv hfree h0
      have hge := appendFatSector_size h0
      have t := inv_extend_tail i0.1 i0.2 h
      exact ⟨t.1, t.2.1, Or.inr (by rw [t.2.2]; exact hge), fun _ => hnone⟩
    · obtain ⟨p0, h0, h⟩ := bind_ok h
      cases h0
      have t := inv_extend_tail inv hfree h
      exact ⟨t.1, t.2.1, Or.inr (by rw [t.2.2]; exact Nat.le_refl _), fun _ => hnone⟩
  · have r := allocateSector_reuse inv.fat hfree h
    refine ⟨⟨r.2.2.2.2.2, ?_⟩, ?_, Or.inl r.2.1, fun hn => absurd r.2.2.1 hn⟩
    · intro i hi
      rw [r.2.2.2.2.1] at hi
      simp only [Array.getElem?_setIfInBounds] at hi
      split at hi
      · split at hi
        · simp [END, FREE, Gen.END_OF_CHAIN, Gen.FREE_SECTOR] at hi
        · cases hi
      · rename_i hne
        have hm := inv.complete i hi
        rw [r.2.2.2.1]
        -- i is in the old free list and is not the popped element
        have hlast := r.1
        rcases List.eq_nil_or_concat p.free with hnil | ⟨l, a, hla⟩
        · exact absurd hnil hfree
        · rw [hla] at hm hlast ⊢
          simp only [List.concat_eq_append, List.getLast?_append, List.getLast?_singleton, Option.some_or,
            Option.some.injEq] at hlast
          simp only [List.concat_eq_append, List.dropLast_concat] at *
          simp only [List.mem_append, List.mem_singleton] at hm
          rcases hm with hm | hm
          · exact hm
          · omega
    · rw [r.2.2.2.2.1]
      have hlt : id < p.fat.size := by
        rcases Nat.lt_or_ge id p.fat.size with hc | hc
        · exact hc
        · have := r.2.1; rw [Array.getElem?_eq_none hc] at this; cases this
      simp [hlt]

end CfbVerif.Phys

namespace CfbVerif.Phys
open CfbVerif.Raw

/-- the file stays below the format's sector-number range (FREE = 0xFFFFFFFF is not an index) -/
def Small (p : P) : Prop := p.fat.size ≤ FREE

/-- summary of an operation: the FAT never gets shorter, and the invariant survives as long as the
result is still `Small` -/
structure Good (p p' : P) : Prop where
  mono : p.fat.size ≤ p'.fat.size
  inv : Inv p → Small p' → Inv p'

theorem Good.refl (p : P) : Good p p := ⟨Nat.le_refl _, fun i _ => i⟩

theorem Good.trans {p q r : P} (h1 : Good p q) (h2 : Good q r) : Good p r :=
  ⟨Nat.le_trans h1.mono h2.mono, fun i s => h2.inv (h1.inv i (Nat.le_trans h2.mono s)) s⟩

theorem Good.of_same {p q : P} (h : SameAlloc p q) : Good p q :=
  ⟨by rw [h.1]; exact Nat.le_refl _, fun i _ => inv_of_same h i⟩

theorem setFat_mono {p p' : P} {i v : Nat} (h : setFat p i v = .ok p') : p.fat.size ≤ p'.fat.size := by
  rcases setFat_ok h with ⟨_, he⟩ | ⟨_, he⟩ <;> subst he <;> simp

theorem initSector_fat {p p' : P} {id : Nat} {k : Init} (h : initSector p id k = .ok p') : p'.fat = p.fat := by
  rcases initSector_ok h with ⟨_, he⟩ | ⟨_, he⟩ <;> subst he <;> rfl

theorem allocateSector_mono {p p' : P} {id : Nat} {k : Init} (h : allocateSector p k = .ok (p', id)) :
    p.fat.size ≤ p'.fat.size := by
  unfold allocateSector at h
  split at h
  · obtain ⟨p1, h1, h⟩ := bind_ok h
    obtain ⟨p2, h2, h⟩ := bind_ok h
    cases h
    rw [initSector_fat h2]
    exact (setFat_mono h1 : ({ p with free := p.free.dropLast } : P).fat.size ≤ p1.fat.size)
  · split at h
    · obtain ⟨p0, h0, h⟩ := bind_ok h
      obtain ⟨p1, h1, h⟩ := bind_ok h
      obtain ⟨p2, h2, h⟩ := bind_ok h
      cases h
      rw [initSector_fat h2]
      exact Nat.le_trans (appendFatSector_size h0) (setFat_mono h1)
    · obtain ⟨p0, h0, h⟩ := bind_ok h
      cases h0
      obtain ⟨p1, h1, h⟩ := bind_ok h
      obtain ⟨p2, h2, h⟩ := bind_ok h
      cases h
      rw [initSector_fat h2]
      exact setFat_mono h1

theorem good_allocateSector {p p' : P} {id : Nat} {k : Init} (h : allocateSector p k = .ok (p', id)) : Good p p' :=
  ⟨allocateSector_mono h, fun i _ => (inv_allocateSector i h).1⟩

/-- cells other than the allocated one keep their value -/
theorem allocateSector_frame {p p' : P} {id : Nat} {k : Init} (inv : Inv p) (h : allocateSector p k = .ok (p', id))
    (j : Nat) (hj : j < p.fat.size) (hne : j ≠ id) : p'.fat[j]? = p.fat[j]? := by
  by_cases hfree : p.free = []
  · unfold allocateSector at h
    simp only [hfree, List.getLast?_nil] at h
    have tail : ∀ {p0 : P}, p.fat.size ≤ p0.fat.size → (∀ j, j < p.fat.size → p0.fat[j]? = p.fat[j]?) →
        (setFat p0 p0.fat.size END >>= fun p1 => initSector p1 p0.fat.size k >>= fun p2 => pure (p2, p0.fat.size)) = .ok (p', id) →
        p'.fat[j]? = p.fat[j]? := by
      intro p0 hge hsame h
      obtain ⟨p1, h1, h⟩ := bind_ok h
      obtain ⟨p2, h2, h⟩ := bind_ok h
      cases h
      rw [initSector_fat h2]
      rcases setFat_ok h1 with ⟨_, he⟩ | ⟨hl, _⟩
      · subst he
        simp only [Array.getElem?_push]
        rw [if_neg (by omega)]
        exact hsame j hj
      · omega
    split at h
    · obtain ⟨p0, h0, h⟩ := bind_ok h
      refine tail (appendFatSector_size h0) ?_ h
      intro j hj
      -- appending a FAT sector only pushes
      unfold appendFatSector at h0
      obtain ⟨q1, g1, h0⟩ := bind_ok h0
      obtain ⟨q2, g2, h0⟩ := bind_ok h0
      have e1 : q1.fat = p.fat := initSector_fat g1
      have e2 : q2.fat = p.fat.push FATSECT := by
        rcases setFat_ok g2 with ⟨_, he⟩ | ⟨hl, _⟩
        · subst he; simp [e1]
        · simp [e1] at hl
      split at h0
      · cases h0; rw [e2]; simp only [Array.getElem?_push]; rw [if_neg (by omega)]
      · dsimp only at h0
        split at h0
        · obtain ⟨q3, g3, h0⟩ := bind_ok h0
          obtain ⟨q4, g4, h0⟩ := bind_ok h0
          cases h0
          have e3 : q3.fat = q2.fat := initSector_fat g3
          rcases setFat_ok g4 with ⟨_, he⟩ | ⟨hl, _⟩
          · subst he; simp only [e3, e2]
            simp only [Array.getElem?_push]
            rw [if_neg (by simp; omega), if_neg (by omega)]
          · rw [e3, e2] at hl; simp at hl
        · cases h0; rw [e2]; simp only [Array.getElem?_push]; rw [if_neg (by omega)]
    · obtain ⟨p0, h0, h⟩ := bind_ok h
      cases h0
      exact tail (Nat.le_refl _) (fun _ _ => rfl) h
  · have r := allocateSector_reuse inv.fat hfree h
    rw [r.2.2.2.2.1]
    simp only [Array.getElem?_setIfInBounds]
    rw [if_neg (fun he => hne he.symm)]

theorem lastOfChain_ok (fat : Array Nat) (fuel : Nat) : ∀ {cur last : Nat}, lastOfChain fat fuel cur = .ok last →
    last < fat.size ∧ fat[last]? = some END := by
  induction fuel with
  | zero => intro cur last h; simp [lastOfChain] at h
  | succ fuel ih =>
    intro cur last h
    unfold lastOfChain at h
    cases hn : nextSector fat cur with
    | error k => simp [hn] at h
    | ok next =>
      simp only [hn] at h
      split at h
      · rename_i he
        cases h
        have := nextSector_ok hn
        exact ⟨this.1, by rw [this.2.1, he]⟩
      · exact ih h

theorem END_ne_FREE : END ≠ FREE := by decide

theorem good_extendChain {p p' : P} {start id : Nat} {k : Init} (h : extendChain p start k = .ok (p', id)) :
    Good p p' := by
  unfold extendChain at h
  obtain ⟨last, hl, h⟩ := bind_ok h
  obtain ⟨⟨p1, id1⟩, ha, h⟩ := bind_ok h
  obtain ⟨p2, hs, h⟩ := bind_ok h
  cases h
  have hlast := lastOfChain_ok _ _ hl
  refine ⟨Nat.le_trans (allocateSector_mono ha) (setFat_mono hs), ?_⟩
  intro inv small
  have r := inv_allocateSector inv ha
  have hne : last ≠ id := by
    intro he
    subst he
    rcases r.2.2.1 with hfr | hge
    · rw [hlast.2] at hfr; exact END_ne_FREE (Option.some.inj hfr)
    · omega
  have hl1 : last < p1.fat.size := Nat.lt_of_lt_of_le hlast.1 (allocateSector_mono ha)
  have hcell : p1.fat[last]? = some END := by
    rw [allocateSector_frame inv ha last hlast.1 hne]; exact hlast.2
  have hidlt : id < p1.fat.size := by
    rcases Nat.lt_or_ge id p1.fat.size with hc | hc
    · exact hc
    · have := r.2.1; rw [Array.getElem?_eq_none hc] at this; cases this
  have hval : id ≠ FREE := by
    have : p1.fat.size ≤ p'.fat.size := setFat_mono hs
    unfold Small at small
    omega
  exact (inv_setFat_used r.1 hl1 (by rw [hcell]; exact fun hc => END_ne_FREE (Option.some.inj hc)) hval hs).1

end CfbVerif.Phys

namespace CfbVerif.Phys
open CfbVerif.Raw

/-- freeing one sector: the cell becomes FREE and the sector goes onto the free list -/
theorem inv_free_one {p : P} {cur : Nat} (inv : Inv p) (hlt : cur < p.fat.size) (hnf : p.fat[cur]? ≠ some FREE) :
    Inv { p with fat := p.fat.setIfInBounds cur FREE, free := p.free ++ [cur] } := by
  have hcur : cur ∉ p.free := fun hm => hnf (inv.fat.freeFree cur hm)
  refine ⟨⟨(by simpa using inv.fat.size), inv.fat.secs, ?_, ?_⟩, ?_⟩
  · intro i hi
    simp only [List.mem_append, List.mem_singleton] at hi
    simp only [Array.getElem?_setIfInBounds]
    by_cases hic : cur = i
    · subst hic; simp [hlt]
    · rw [if_neg hic]
      rcases hi with h' | h'
      · exact inv.fat.freeFree i h'
      · exact absurd h'.symm hic
  · exact List.nodup_append.mpr ⟨inv.fat.freeNodup, (by simp), (by
      intro a ha b hb; simp at hb; subst hb; intro he; exact hcur (he ▸ ha))⟩
  · intro i hi
    simp only [Array.getElem?_setIfInBounds] at hi
    by_cases hic : cur = i
    · subst hic; simp
    · rw [if_neg hic] at hi
      exact List.mem_append_left _ (inv.complete i hi)

theorem good_freeChain (fuel : Nat) : ∀ {p p' : P} {cur : Nat}, freeChain p fuel cur = .ok p' → Good p p' := by
  induction fuel with
  | zero => intro p p' cur h; simp [freeChain] at h
  | succ fuel ih =>
    intro p p' cur h
    unfold freeChain at h
    split at h
    · cases h; exact Good.refl _
    · cases hn : nextSector p.fat cur with
      | error k => simp [hn] at h
      | ok next =>
        simp only [hn] at h
        have hlt := (nextSector_ok hn).1
        split at h
        · cases h
        · rename_i hnotfree
          cases h1 : setFat p cur FREE with
          | err e => simp [h1] at h
          | panic s => simp [h1] at h
          | hang s => simp [h1] at h
          | ok p1 =>
            simp only [h1] at h
            have hp1 : p1 = { p with fat := p.fat.setIfInBounds cur FREE } := by
              rcases setFat_ok h1 with ⟨he, _⟩ | ⟨_, he⟩
              · omega
              · exact he
            subst hp1
            have g := ih h
            refine ⟨by have := g.mono; simpa using this, fun inv small => g.inv (inv_free_one inv hlt hnotfree) small⟩

theorem good_freeChainFrom {p p' : P} {start : Nat} (h : freeChainFrom p start = .ok p') : Good p p' :=
  good_freeChain _ h

theorem good_freeChainAfter {p p' : P} {id : Nat} (h : freeChainAfter p id = .ok p') : Good p p' := by
  unfold freeChainAfter at h
  cases hn : nextSector p.fat id with
  | error k => simp [hn] at h
  | ok next =>
    simp only [hn] at h
    obtain ⟨p1, h1, h⟩ := bind_ok h
    have ns := nextSector_ok hn
    have g1 : Good p p1 := ⟨setFat_mono h1, fun inv _ =>
      (inv_setFat_used inv ns.1 (by rw [ns.2.1]; exact fun hc => ns.2.2 (Option.some.inj hc)) END_ne_FREE h1).1⟩
    exact g1.trans (good_freeChainFrom h)

theorem good_writeSector {p p' : P} {id off : Nat} {bs : Bytes} (h : writeSector p id off bs = .ok p') : Good p p' :=
  Good.of_same (writeSector_same h)

theorem good_growOne {kind : Init} {p p' : P} {ids ids' : List Nat} (h : growOne kind p ids = .ok (p', ids')) : Good p p' := by
  unfold growOne at h
  split at h
  · split at h
    · rename_i he; cases h; exact good_extendChain he
    · cases h
    · cases h
    · cases h
  · split at h
    · rename_i he; cases h; exact good_allocateSector he
    · cases h
    · cases h
    · cases h

theorem good_chainWrite (kind : Init) (fuel : Nat) : ∀ {p p' : P} {ids ids' : List Nat} {off : Nat} {bs : Bytes},
    chainWrite kind fuel p ids off bs = .ok (p', ids') → Good p p' := by
  induction fuel with
  | zero => intro p p' ids ids' off bs h; simp [chainWrite] at h
  | succ fuel ih =>
    intro p p' ids ids' off bs h
    unfold chainWrite at h
    split at h
    · cases h; exact Good.refl _
    · dsimp only at h
      split at h
      · rename_i p1 ids1 hgrow
        have g1 : Good p p1 := by
          split at hgrow
          · exact good_growOne hgrow
          · cases hgrow; exact Good.refl _
        split at h
        · cases h
        · split at h
          · rename_i p2 hw
            exact (g1.trans (good_writeSector hw)).trans (ih h)
          · cases h
          · cases h
          · cases h
      · cases h
      · cases h
      · cases h

theorem good_chainGrow (kind : Init) (fuel : Nat) : ∀ {p p' : P} {ids ids' : List Nat} {target : Nat},
    chainGrow kind fuel p ids target = .ok (p', ids') → Good p p' := by
  induction fuel with
  | zero => intro p p' ids ids' target h; simp [chainGrow] at h
  | succ fuel ih =>
    intro p p' ids ids' target h
    unfold chainGrow at h
    split at h
    · cases h; exact Good.refl _
    · split at h
      · rename_i p1 ids1 hg
        exact (good_growOne hg).trans (ih h)
      · cases h
      · cases h
      · cases h

theorem good_chainSetLen {p p' : P} {ids ids' : List Nat} {kind : Init} {n : Nat}
    (h : chainSetLen p ids kind n = .ok (p', ids')) : Good p p' := by
  unfold chainSetLen at h
  dsimp only at h
  split at h
  · split at h
    · obtain ⟨q, hf, h⟩ := obind_ok h
      cases h; exact good_freeChainFrom hf
    · cases h; exact Good.refl _
  · split at h
    · split at h
      · split at h
        · obtain ⟨q, hf, h⟩ := obind_ok h
          cases h; exact good_freeChainAfter hf
        · cases h
      · cases h; exact Good.refl _
    · exact good_chainGrow _ _ h

end CfbVerif.Phys

namespace CfbVerif.Phys
open CfbVerif.Raw

/-! ## the mini level touches the FAT only through `allocate_sector` / `extend_chain` -/

theorem same_setMiniFat {p p' : P} {i v : Nat} (h : setMiniFat p i v = .ok p') : SameAlloc p p' := by
  have := (setMiniFat_ok h).1
  rw [this]; exact ⟨rfl, rfl, rfl, rfl⟩

theorem same_popFreeMini {p p1 : P} {fuel : Nat} {r : Option Nat} (h : popFreeMini p fuel = .ok (p1, r)) : SameAlloc p p1 := by
  have := (popFreeMini_ok fuel h).1
  rw [this]; exact ⟨rfl, rfl, rfl, rfl⟩

theorem good_ensureRootRoom {p p' : P} (h : ensureRootRoom p = .ok p') : Good p p' := by
  unfold ensureRootRoom at h
  split at h
  · split at h
    · rename_i ha; cases h
      exact (good_allocateSector ha).trans (Good.of_same ⟨rfl, rfl, rfl, rfl⟩)
    · cases h
    · cases h
    · cases h
  · split at h
    · split at h
      · split at h
        · split at h
          · rename_i he; cases h; exact good_extendChain he
          · cases h
          · cases h
          · cases h
        · cases h; exact Good.refl _
      · cases h
      · cases h
      · cases h
    · cases h; exact Good.refl _

theorem good_appendMiniSector {p p' : P} (h : appendMiniSector p = .ok p') : Good p p' := by
  unfold appendMiniSector at h
  split at h
  · rename_i hr; cases h
    exact (good_ensureRootRoom hr).trans (Good.of_same ⟨rfl, rfl, rfl, rfl⟩)
  · cases h
  · cases h
  · cases h

theorem good_ensureMiniFatRoom {p p' : P} (h : ensureMiniFatRoom p = .ok p') : Good p p' := by
  unfold ensureMiniFatRoom at h
  dsimp only at h
  split at h
  · split at h
    · rename_i ha; cases h
      exact (good_allocateSector ha).trans (Good.of_same ⟨rfl, rfl, rfl, rfl⟩)
    · cases h
    · cases h
    · cases h
  · split at h
    · split at h
      · split at h
        · split at h
          · rename_i he; cases h; exact good_extendChain he
          · cases h
          · cases h
          · cases h
        · cases h; exact Good.refl _
      · cases h
      · cases h
      · cases h
    · cases h; exact Good.refl _

theorem good_allocateMiniSector {p p' : P} {v id : Nat} (h : allocateMiniSector p v = .ok (p', id)) : Good p p' := by
  unfold allocateMiniSector at h
  obtain ⟨⟨p1, reuse⟩, hp, h⟩ := bind_ok h
  have g0 : Good p p1 := Good.of_same (same_popFreeMini hp)
  dsimp only at h
  split at h
  · obtain ⟨p2, hs, h⟩ := bind_ok h
    cases h
    exact g0.trans (Good.of_same (same_setMiniFat hs))
  · obtain ⟨p2, h2, h⟩ := bind_ok h
    obtain ⟨p3, h3, h⟩ := bind_ok h
    obtain ⟨p4, h4, h⟩ := bind_ok h
    cases h
    exact ((g0.trans (good_ensureMiniFatRoom h2)).trans (good_appendMiniSector h3)).trans (Good.of_same (same_setMiniFat h4))

theorem good_extendMiniChain {p p' : P} {start id : Nat} (h : extendMiniChain p start = .ok (p', id)) : Good p p' := by
  unfold extendMiniChain at h
  obtain ⟨last, hl, h⟩ := bind_ok h
  obtain ⟨⟨p1, i1⟩, ha, h⟩ := bind_ok h
  obtain ⟨p2, hs, h⟩ := bind_ok h
  cases h
  exact (good_allocateMiniSector ha).trans (Good.of_same (same_setMiniFat hs))

theorem same_freeMiniSector {p p' : P} {id : Nat} (h : freeMiniSector p id = .ok p') : SameAlloc p p' := by
  unfold freeMiniSector at h
  split at h
  · cases h
  · split at h
    · cases h
    · obtain ⟨p1, hs, h⟩ := bind_ok h
      cases h
      have := same_setMiniFat hs
      exact ⟨this.1, this.2.1, this.2.2.1, this.2.2.2⟩

theorem same_freeMiniChain (fuel : Nat) : ∀ {p p' : P} {cur : Nat}, freeMiniChain p fuel cur = .ok p' → SameAlloc p p' := by
  induction fuel with
  | zero => intro p p' cur h; simp [freeMiniChain] at h
  | succ fuel ih =>
    intro p p' cur h
    unfold freeMiniChain at h
    split at h
    · cases h; exact SameAlloc.refl _
    · split at h
      · cases h
      · split at h
        · rename_i p1 hf
          exact (same_freeMiniSector hf).trans (ih h)
        · cases h
        · cases h
        · cases h

theorem same_freeMiniChainAfter {p p' : P} {id : Nat} (h : freeMiniChainAfter p id = .ok p') : SameAlloc p p' := by
  unfold freeMiniChainAfter at h
  split at h
  · cases h
  · obtain ⟨p1, hs, h⟩ := bind_ok h
    exact (same_setMiniFat hs).trans (same_freeMiniChain _ h)

theorem same_miniWriteAt {p p' : P} {m off : Nat} {bs : Bytes} (h : miniWriteAt p m off bs = .ok p') : SameAlloc p p' := by
  unfold miniWriteAt at h
  obtain ⟨⟨sid, base⟩, hl, h⟩ := bind_ok h
  exact writeSector_same h

theorem good_growOneMini {p p' : P} {ids ids' : List Nat} (h : growOneMini p ids = .ok (p', ids')) : Good p p' := by
  unfold growOneMini at h
  split at h
  · split at h
    · rename_i he; cases h; exact good_extendMiniChain he
    · cases h
    · cases h
    · cases h
  · split at h
    · rename_i he; cases h; exact good_allocateMiniSector he
    · cases h
    · cases h
    · cases h

theorem good_miniChainWrite (fuel : Nat) : ∀ {p p' : P} {ids ids' : List Nat} {off : Nat} {bs : Bytes},
    miniChainWrite fuel p ids off bs = .ok (p', ids') → Good p p' := by
  induction fuel with
  | zero => intro p p' ids ids' off bs h; simp [miniChainWrite] at h
  | succ fuel ih =>
    intro p p' ids ids' off bs h
    unfold miniChainWrite at h
    split at h
    · cases h; exact Good.refl _
    · split at h
      · rename_i p1 ids1 hgrow
        have g1 : Good p p1 := by
          split at hgrow
          · exact good_growOneMini hgrow
          · cases hgrow; exact Good.refl _
        split at h
        · cases h
        · dsimp only at h
          split at h
          · rename_i p2 hw
            exact (g1.trans (Good.of_same (same_miniWriteAt hw))).trans (ih h)
          · cases h
          · cases h
          · cases h
      · cases h
      · cases h
      · cases h

theorem good_miniChainGrow (fuel : Nat) : ∀ {p p' : P} {ids ids' : List Nat} {target : Nat},
    miniChainGrow fuel p ids target = .ok (p', ids') → Good p p' := by
  induction fuel with
  | zero => intro p p' ids ids' target h; simp [miniChainGrow] at h
  | succ fuel ih =>
    intro p p' ids ids' target h
    unfold miniChainGrow at h
    split at h
    · cases h; exact Good.refl _
    · split at h
      · rename_i p1 ids1 hg
        split at h
        · rename_i p2 hw
          exact ((good_growOneMini hg).trans (Good.of_same (same_miniWriteAt hw))).trans (ih h)
        · cases h
        · cases h
        · cases h
      · cases h
      · cases h
      · cases h

theorem good_miniChainSetLen {p p' : P} {ids ids' : List Nat} {n : Nat}
    (h : miniChainSetLen p ids n = .ok (p', ids')) : Good p p' := by
  unfold miniChainSetLen at h
  dsimp only at h
  split at h
  · split at h
    · obtain ⟨q, hf, h⟩ := obind_ok h
      cases h; exact Good.of_same (same_freeMiniChain _ hf)
    · cases h; exact Good.refl _
  · split at h
    · split at h
      · split at h
        · obtain ⟨q, hf, h⟩ := obind_ok h
          cases h; exact Good.of_same (same_freeMiniChainAfter hf)
        · cases h
      · cases h; exact Good.refl _
    · exact good_miniChainGrow _ h

end CfbVerif.Phys

namespace CfbVerif.Phys
open CfbVerif.Raw

/-! ## streams and the directory chain -/

theorem same_setStart (p : P) (slot start : Nat) : SameAlloc p (setStart p slot start) := ⟨rfl, rfl, rfl, rfl⟩
theorem same_dropStart (p : P) (slot : Nat) : SameAlloc p (dropStart p slot) := ⟨rfl, rfl, rfl, rfl⟩

theorem good_writeData {p p' : P} {slot oldLen off n : Nat} {buf : Bytes}
    (h : writeData p slot oldLen off buf = .ok (p', n)) : Good p p' := by
  unfold writeData at h
  dsimp only [bind, pure] at h
  split at h
  · split at h
    · cases h
    · split at h
      · obtain ⟨⟨q, ids⟩, hw, h⟩ := obind_ok h
        cases h
        exact (good_miniChainWrite _ hw).trans (Good.of_same (same_setStart _ _ _))
      · obtain ⟨⟨q, ids⟩, hw, h⟩ := obind_ok h
        cases h
        exact (good_chainWrite _ _ hw).trans (Good.of_same (same_setStart _ _ _))
  · split at h
    · split at h
      · obtain ⟨ids, hi, h⟩ := obind_ok h
        split at h
        · cases h
        · obtain ⟨⟨q, ids'⟩, hw, h⟩ := obind_ok h
          cases h
          exact good_miniChainWrite _ hw
      · obtain ⟨ids, hi, h⟩ := obind_ok h
        obtain ⟨tmp, hr, h⟩ := obind_ok h
        obtain ⟨q1, hf, h⟩ := obind_ok h
        obtain ⟨⟨q2, ids1⟩, hw1, h⟩ := obind_ok h
        obtain ⟨⟨q3, ids2⟩, hw2, h⟩ := obind_ok h
        cases h
        exact (((Good.of_same (same_freeMiniChain _ hf)).trans (good_chainWrite _ _ hw1)).trans (good_chainWrite _ _ hw2)).trans
          (Good.of_same (same_setStart _ _ _))
    · obtain ⟨ids, hi, h⟩ := obind_ok h
      split at h
      · cases h
      · obtain ⟨⟨q, ids'⟩, hw, h⟩ := obind_ok h
        cases h
        exact good_chainWrite _ _ hw

end CfbVerif.Phys

namespace CfbVerif.Phys
open CfbVerif.Raw

theorem good_resize {p p' : P} {slot oldLen newLen : Nat} (h : resize p slot oldLen newLen = .ok p') : Good p p' := by
  unfold resize at h
  dsimp only [bind, pure] at h
  split at h
  · split at h
    · cases h
    · split at h
      · obtain ⟨⟨q, ids⟩, hw, h⟩ := obind_ok h
        cases h
        exact (good_miniChainSetLen hw).trans (Good.of_same (same_setStart _ _ _))
      · obtain ⟨⟨q, ids⟩, hw, h⟩ := obind_ok h
        cases h
        exact (good_chainSetLen hw).trans (Good.of_same (same_setStart _ _ _))
  · split at h
    · split at h
      · obtain ⟨q, hf, h⟩ := obind_ok h
        cases h
        exact (Good.of_same (same_freeMiniChain _ hf)).trans (Good.of_same (same_setStart _ _ _))
      · split at h
        · obtain ⟨ids, hi, h⟩ := obind_ok h
          obtain ⟨⟨q, ids'⟩, hs, h⟩ := obind_ok h
          split at h
          · split at h
            · cases h
            · obtain ⟨⟨q2, ids2⟩, hw, h⟩ := obind_ok h
              cases h
              exact (good_miniChainSetLen hs).trans (good_miniChainWrite _ hw)
          · cases h; exact good_miniChainSetLen hs
        · obtain ⟨ids, hi, h⟩ := obind_ok h
          obtain ⟨tmp, hr, h⟩ := obind_ok h
          obtain ⟨q1, hf, h⟩ := obind_ok h
          obtain ⟨⟨q2, ids1⟩, hw1, h⟩ := obind_ok h
          obtain ⟨⟨q3, ids2⟩, hs, h⟩ := obind_ok h
          cases h
          exact (((Good.of_same (same_freeMiniChain _ hf)).trans (good_chainWrite _ _ hw1)).trans (good_chainSetLen hs)).trans
            (Good.of_same (same_setStart _ _ _))
    · split at h
      · obtain ⟨q, hf, h⟩ := obind_ok h
        cases h
        exact (good_freeChainFrom hf).trans (Good.of_same (same_setStart _ _ _))
      · split at h
        · obtain ⟨ids, hi, h⟩ := obind_ok h
          obtain ⟨tmp, hr, h⟩ := obind_ok h
          obtain ⟨q1, hf, h⟩ := obind_ok h
          obtain ⟨⟨q2, ids1⟩, hw, h⟩ := obind_ok h
          cases h
          exact ((good_freeChainFrom hf).trans (good_miniChainWrite _ hw)).trans (Good.of_same (same_setStart _ _ _))
        · obtain ⟨ids, hi, h⟩ := obind_ok h
          obtain ⟨⟨q, ids'⟩, hs, h⟩ := obind_ok h
          split at h
          · split at h
            · cases h
            · obtain ⟨⟨q2, ids2⟩, hw, h⟩ := obind_ok h
              cases h
              exact (good_chainSetLen hs).trans (good_chainWrite _ _ hw)
          · cases h; exact good_chainSetLen hs

theorem good_freeStream {p p' : P} {slot len : Nat} (h : freeStream p slot len = .ok p') : Good p p' := by
  unfold freeStream at h
  dsimp only [bind, pure] at h
  split at h
  · obtain ⟨q, hf, h⟩ := obind_ok h
    cases h
    exact (Good.of_same (same_freeMiniChain _ hf)).trans (Good.of_same (same_dropStart _ _))
  · obtain ⟨q, hf, h⟩ := obind_ok h
    cases h
    exact (good_freeChainFrom hf).trans (Good.of_same (same_dropStart _ _))

theorem good_ensureDirSlot {p p' : P} {slot : Nat} (h : ensureDirSlot p slot = .ok p') : Good p p' := by
  unfold ensureDirSlot at h
  split at h
  · cases h; exact Good.refl _
  · split at h
    · split at h
      · rename_i he; cases h
        exact (good_extendChain he).trans (Good.of_same ⟨rfl, rfl, rfl, rfl⟩)
      · cases h
      · cases h
      · cases h
    · cases h; exact Good.of_same ⟨rfl, rfl, rfl, rfl⟩

theorem mem_indicesOf {a : Array Nat} {v i : Nat} : i ∈ indicesOf a v ↔ i < a.size ∧ a[i]? = some v := by
  unfold indicesOf
  simp [List.mem_filter, List.mem_range]

/-- `open` rebuilds the free list from the FAT: exactly the FREE cells, ascending -/
theorem inv_reopen {p p' : P} (inv : Inv p) (h : Phys.reopen p = .ok p') : Inv p' := by
  unfold Phys.reopen at h
  obtain ⟨chain, hc, h⟩ := bind_ok h
  cases h
  refine ⟨⟨inv.fat.size, inv.fat.secs, ?_, ?_⟩, ?_⟩
  · intro i hi; exact (mem_indicesOf.mp hi).2
  · unfold indicesOf; exact List.Nodup.sublist List.filter_sublist List.nodup_range
  · intro i hi
    refine mem_indicesOf.mpr ⟨?_, hi⟩
    rcases Nat.lt_or_ge i p.fat.size with hc' | hc'
    · exact hc'
    · rw [Array.getElem?_eq_none hc'] at hi; cases hi

theorem good_reopen {p p' : P} (h : Phys.reopen p = .ok p') : Good p p' := by
  refine ⟨?_, fun inv _ => inv_reopen inv h⟩
  unfold Phys.reopen at h
  obtain ⟨chain, hc, h⟩ := bind_ok h
  cases h
  exact Nat.le_refl _

end CfbVerif.Phys
