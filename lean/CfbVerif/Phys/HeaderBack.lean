import CfbVerif.Phys.Accepts
/-!
# The reader model reads the header back, and with it the whole FAT stage of `open`

Every header field the renderer writes is read back by `Raw.readHeader` from the rendered image
(not just from the header block: whatever sectors follow).  For files whose DIFAT fits into the
header (no DIFAT sectors: up to 109 FAT sectors, about 7 MB in version 3 and 450 MB in version 4)
this gives the whole first half of `open`: header, DIFAT, FAT load, normalisation and
`Allocator::validate` on the rendered image return the writer's DIFAT and FAT.
-/
namespace CfbVerif.Phys
open CfbVerif.Raw CfbVerif.Dir

theorem widthSum_take_le (fs : List (Nat × Nat)) (k : Nat) : widthSum (fs.take k) ≤ widthSum fs := by
  induction fs generalizing k with
  | nil => simp [widthSum]
  | cons f fs ih =>
    obtain ⟨w, v⟩ := f
    cases k with
    | zero => simp [widthSum]
    | succ k => simp only [List.take_succ_cons, widthSum]; have := ih k; omega

theorem widthSum_take_succ (fs : List (Nat × Nat)) (k : Nat) (hk : k < fs.length) :
    widthSum (fs.take (k + 1)) = widthSum (fs.take k) + fs[k].1 := by
  induction fs generalizing k with
  | nil => simp at hk
  | cons f fs ih =>
    obtain ⟨w, v⟩ := f
    cases k with
    | zero => simp [widthSum]
    | succ k =>
      simp only [List.take_succ_cons, widthSum, List.getElem_cons_succ]
      rw [ih k (by simpa using hk)]
      omega

/-- every header field is read back from the whole image -/
theorem header_field_in_image (p : P) (rows : List Row) (ss : SS p) (hs : SlotsOk (slotsOf p rows))
    (k : Nat) (hk : k < (headerFields p (chainOrEmpty p p.dirStart) (chainOrEmpty p p.miniFatStart)).length) :
    leN (render p rows) (widthSum ((headerFields p (chainOrEmpty p p.dirStart) (chainOrEmpty p p.miniFatStart)).take k))
        (headerFields p (chainOrEmpty p p.dirStart) (chainOrEmpty p p.miniFatStart))[k].1 =
      some ((headerFields p (chainOrEmpty p p.dirStart) (chainOrEmpty p p.miniFatStart))[k].2 %
        256 ^ (headerFields p (chainOrEmpty p p.dirStart) (chainOrEmpty p p.miniFatStart))[k].1) := by
  generalize hdc : chainOrEmpty p p.dirStart = dc at hk ⊢
  generalize hmc : chainOrEmpty p p.miniFatStart = mc at hk ⊢
  rw [render_eq, hdc, hmc]
  have hsz : (renderHeader p dc mc).size = widthSum (headerFields p dc mc) := by
    rw [renderHeader_eq, size_pushFields]; show 0 + _ = _; omega
  rw [fold_frame (sectorStep_appends p _ _ ss hs) _ _ _ _ (by
    rw [hsz, ← widthSum_take_succ _ k hk]; exact widthSum_take_le _ _)]
  have := header_field_roundtrip p dc mc [] k hk
  simpa [pushFields] using this

end CfbVerif.Phys

namespace CfbVerif.Phys
open CfbVerif.Raw CfbVerif.Dir

theorem hf_len (p : P) (dc mc : List Nat) : 25 ≤ (headerFields p dc mc).length := by
  unfold headerFields
  simp only [List.length_append, List.length_map, List.length_cons, List.length_nil]
  have : Gen.MAGIC_NUMBER.length = 8 := rfl
  omega

/-- field `k` of the header, read from the image with the reader's `rd` -/
theorem hdr_rd (p : P) (rows : List Row) (ss : SS p) (hs : SlotsOk (slotsOf p rows)) (k off w v : Nat)
    (hk : k < (headerFields p (chainOrEmpty p p.dirStart) (chainOrEmpty p p.miniFatStart)).length)
    (hoff : widthSum ((headerFields p (chainOrEmpty p p.dirStart) (chainOrEmpty p p.miniFatStart)).take k) = off)
    (hfk : (headerFields p (chainOrEmpty p p.dirStart) (chainOrEmpty p p.miniFatStart))[k] = (w, v)) :
    rd (render p rows) off w = .ok (v % 256 ^ w) := by
  have h := header_field_in_image p rows ss hs k hk
  rw [hoff, hfk] at h
  unfold rd
  simp only at h
  rw [h]

theorem u8_of_leN1 {b : ByteArray} {off v : Nat} (h : leN b off 1 = some v) : u8 b off = some v := by
  unfold leN at h
  cases hu : u8 b off with
  | none => rw [hu] at h; simp at h
  | some x =>
    rw [hu] at h
    simp only [leN] at h
    have : x + 256 * 0 = v := Option.some.inj h
    rw [← this]; simp

/-- the values the header holds, small enough for their fields -/
structure HdrSmall (p : P) : Prop where
  dc : (chainOrEmpty p p.dirStart).length < 256 ^ 4
  mc : (chainOrEmpty p p.miniFatStart).length < 256 ^ 4
  nf : p.difat.length < 256 ^ 4
  ds : p.dirStart < 256 ^ 4
  ms : p.miniFatStart < 256 ^ 4
  dh : p.difatSectorIds.head?.getD END < 256 ^ 4
  dn : p.difatSectorIds.length < 256 ^ 4

/-- the 109 DIFAT slots of the header as the renderer fills them -/
def headerCells (p : P) : List Nat :=
  p.difat.take Gen.NUM_DIFAT_ENTRIES_IN_HEADER ++
    List.replicate (Gen.NUM_DIFAT_ENTRIES_IN_HEADER - (p.difat.take Gen.NUM_DIFAT_ENTRIES_IN_HEADER).length) FREE

theorem headerCells_length (p : P) : (headerCells p).length = 109 := by
  unfold headerCells
  have : Gen.NUM_DIFAT_ENTRIES_IN_HEADER = 109 := rfl
  simp only [List.length_append, List.length_replicate, List.length_take, this]
  omega

theorem hf_take24_width (p : P) (dc mc : List Nat) : widthSum ((headerFields p dc mc).take 24) = 76 := by
  unfold headerFields
  simp [widthSum, Gen.MAGIC_NUMBER, List.take]

theorem hf_drop24 (p : P) (dc mc : List Nat) :
    (headerFields p dc mc).drop 24 = (headerCells p).map (fun c => (4, c)) ++ [(p.S - Gen.HEADER_LEN, 0)] := by
  unfold headerFields headerCells
  simp only [List.map_append, List.append_assoc]
  rfl

/-- the header's field list: 24 fixed fields (76 bytes), the 109 DIFAT slots, the padding -/
theorem headerFields_split (p : P) (dc mc : List Nat) :
    ∃ fixed : List (Nat × Nat), fixed.length = 24 ∧ widthSum fixed = 76 ∧
      headerFields p dc mc = fixed ++ ((headerCells p).map (fun c => (4, c)) ++ [(p.S - Gen.HEADER_LEN, 0)]) := by
  refine ⟨(headerFields p dc mc).take 24, ?_, hf_take24_width p dc mc, ?_⟩
  · have := hf_len p dc mc
    simp only [List.length_take]; omega
  · rw [← hf_drop24 p dc mc, List.take_append_drop]

/-- slot `j` of the header's DIFAT part, read from the image -/
theorem hdr_cell_rd (p : P) (rows : List Row) (ss : SS p) (hs : SlotsOk (slotsOf p rows)) (j : Nat) (hj : j < 109) :
    rd (render p rows) (76 + 4 * j) 4 = .ok ((headerCells p)[j]'(by rw [headerCells_length]; exact hj) % 256 ^ 4) := by
  obtain ⟨fixed, hl, hw, hsplit⟩ := headerFields_split p (chainOrEmpty p p.dirStart) (chainOrEmpty p p.miniFatStart)
  have hlen := headerCells_length p
  have hk : 24 + j < (headerFields p (chainOrEmpty p p.dirStart) (chainOrEmpty p p.miniFatStart)).length := by
    rw [hsplit]; simp [hl, hlen]; omega
  refine hdr_rd p rows ss hs (24 + j) _ _ _ hk ?_ ?_
  · rw [hsplit, List.take_append, hl]
    have e1 : List.take (24 + j) fixed = fixed := List.take_of_length_le (by omega)
    have e2 : 24 + j - 24 = j := by omega
    rw [e1, e2, widthSum_append, hw, List.take_append, List.length_map, hlen]
    have e3 : j - 109 = 0 := by omega
    rw [e3]
    simp only [List.take_zero, List.append_nil]
    rw [← List.map_take, widthSum_cells, List.length_take, hlen, Nat.min_eq_left (Nat.le_of_lt hj)]
  · have : (headerFields p (chainOrEmpty p p.dirStart) (chainOrEmpty p p.miniFatStart))[24 + j] =
        (fixed ++ ((headerCells p).map (fun c => (4, c)) ++ [(p.S - Gen.HEADER_LEN, 0)]))[24 + j]'(by
          simp [hl, hlen]; omega) := by
      congr 1 <;> simp [hsplit]
    rw [this, List.getElem_append_right (by omega)]
    simp only [hl, Nat.add_sub_cancel_left]
    rw [List.getElem_append_left (by simp [hlen]; exact hj)]
    simp

theorem headerCells_get_lt (p : P) (j : Nat) (hj : j < (p.difat.take 109).length) :
    (headerCells p)[j]? = some (p.difat.take 109)[j] := by
  show (p.difat.take 109 ++ List.replicate (109 - (p.difat.take 109).length) FREE)[j]? = _
  rw [List.getElem?_append_left hj, List.getElem?_eq_getElem hj]

theorem headerCells_get_ge (p : P) (j : Nat) (h1 : (p.difat.take 109).length ≤ j) (h2 : j < 109) :
    (headerCells p)[j]? = some FREE := by
  show (p.difat.take 109 ++ List.replicate (109 - (p.difat.take 109).length) FREE)[j]? = _
  rw [List.getElem?_append_right h1]
  have hl : (p.difat.take 109).length ≤ 109 := by simp [List.length_take]; omega
  rw [List.getElem?_replicate, if_pos (by omega)]

/-- `readInitialDifat` over slots that hold `good` (all regular) followed by FREE -/
theorem readInitialDifat_spec (img : Img) : ∀ (good : List Nat) (r n off : Nat) (acc : List Nat),
    n = good.length + r → (∀ x ∈ good, x ≤ MAXREG) →
    (∀ j (hj : j < good.length), rd img (off + 4 * j) 4 = .ok good[j]) →
    (∀ j, j < r → rd img (off + 4 * (good.length + j)) 4 = .ok FREE) →
    readInitialDifat img n off acc = .ok (acc.reverse ++ good) := by
  intro good
  induction good with
  | nil =>
    intro r n off acc hn _ _ hfree
    cases r with
    | zero => subst hn; simp [readInitialDifat]
    | succ r =>
      subst hn
      simp only [List.length_nil, Nat.zero_add]
      unfold readInitialDifat
      have := hfree 0 (Nat.succ_pos _)
      simp only [List.length_nil, Nat.zero_add, Nat.mul_zero, Nat.add_zero] at this
      rw [this]
      simp
  | cons g good ih =>
    intro r n off acc hn hreg hgood hfree
    subst hn
    have e : (g :: good).length + r = (good.length + r) + 1 := by simp; omega
    rw [e]
    unfold readInitialDifat
    have h0 := hgood 0 (by simp)
    simp only [Nat.mul_zero, Nat.add_zero, List.getElem_cons_zero] at h0
    rw [h0]
    have hg : g ≤ MAXREG := hreg g (by simp)
    have hne : g ≠ FREE := by have := MAXREG_lt_FREE; omega
    simp only
    rw [if_neg hne, if_neg (by omega)]
    rw [ih r (good.length + r) (off + 4) (g :: acc) rfl (fun x hx => hreg x (List.mem_cons_of_mem _ hx))]
    · simp
    · intro j hj
      have := hgood (j + 1) (by simpa using hj)
      simp only [List.getElem_cons_succ] at this
      have e2 : off + 4 * (j + 1) = off + 4 + 4 * j := by omega
      rw [e2] at this; exact this
    · intro j hj
      have := hfree j hj
      have e2 : off + 4 * ((g :: good).length + j) = off + 4 + 4 * (good.length + j) := by simp; omega
      rw [e2] at this; exact this

/-- the 24 fields before the DIFAT slots, spelled out -/
def fixedFields (p : P) (dc mc : List Nat) : List (Nat × Nat) :=
  [(1, 208), (1, 207), (1, 17), (1, 224), (1, 161), (1, 177), (1, 26), (1, 225),
   (16, 0), (2, Gen.MINOR_VERSION), (2, if p.v4 then Gen.versionNumberV4 else Gen.versionNumberV3),
   (2, Gen.BYTE_ORDER_MARK), (2, if p.v4 then Gen.sectorShiftV4 else Gen.sectorShiftV3),
   (2, Gen.MINI_SECTOR_SHIFT), (6, 0), (4, if p.v4 then dc.length else 0), (4, p.difat.length),
   (4, p.dirStart), (4, p.txSig), (4, Gen.MINI_STREAM_CUTOFF), (4, p.miniFatStart), (4, mc.length),
   (4, p.difatSectorIds.head?.getD END), (4, p.difatSectorIds.length)]

theorem hf_take24 (p : P) (dc mc : List Nat) : (headerFields p dc mc).take 24 = fixedFields p dc mc := by
  unfold headerFields fixedFields
  simp [Gen.MAGIC_NUMBER, List.take]

/-- a field among the first 24, by its position in the spelled-out list -/
theorem hdr_rd_fixed (p : P) (rows : List Row) (ss : SS p) (hs : SlotsOk (slotsOf p rows)) (k off w v : Nat)
    (hk : k < 24)
    (hoff : widthSum ((fixedFields p (chainOrEmpty p p.dirStart) (chainOrEmpty p p.miniFatStart)).take k) = off)
    (hfk : (fixedFields p (chainOrEmpty p p.dirStart) (chainOrEmpty p p.miniFatStart))[k]? = some (w, v)) :
    rd (render p rows) off w = .ok (v % 256 ^ w) := by
  have hlen := hf_len p (chainOrEmpty p p.dirStart) (chainOrEmpty p p.miniFatStart)
  refine hdr_rd p rows ss hs k off w v (by omega) ?_ ?_
  · rw [← hoff, ← hf_take24, List.take_take, Nat.min_eq_left (Nat.le_of_lt hk)]
  · have h1 : ((headerFields p (chainOrEmpty p p.dirStart) (chainOrEmpty p p.miniFatStart)).take 24)[k]? = some (w, v) := by
      rw [hf_take24]; exact hfk
    rw [List.getElem?_take_of_lt hk] at h1
    rw [List.getElem?_eq_getElem (by omega)] at h1
    exact Option.some.inj h1

theorem leN_of_rd {img : Img} {off w v : Nat} (h : rd img off w = .ok v) : leN img off w = some v := by
  unfold rd at h
  cases hl : leN img off w with
  | none => rw [hl] at h; cases h
  | some x => rw [hl] at h; cases h; rfl

set_option maxRecDepth 4000 in
/-- **the reader reads the header the renderer wrote** -/
theorem readHeader_render (p : P) (rows : List Row) (ss : SS p) (hs : SlotsOk (slotsOf p rows)) (sm : HdrSmall p)
    (hdifat : ∀ x ∈ p.difat, x ≤ MAXREG) (hids : ∀ x ∈ p.difatSectorIds, x ≤ MAXREG) (m : Mode) :
    readHeader m (render p rows) = .ok
      { v4 := p.v4, numDirSectors := if p.v4 then (chainOrEmpty p p.dirStart).length else 0,
        numFatSectors := p.difat.length, firstDirSector := p.dirStart, firstMiniFatSector := p.miniFatStart,
        numMiniFatSectors := (chainOrEmpty p p.miniFatStart).length,
        firstDifatSector := p.difatSectorIds.head?.getD END, numDifatSectors := p.difatSectorIds.length,
        initialDifat := p.difat.take Gen.NUM_DIFAT_ENTRIES_IN_HEADER } := by
  generalize hdc : chainOrEmpty p p.dirStart = dc
  generalize hmc : chainOrEmpty p p.miniFatStart = mc
  have smdc := sm.dc; have smmc := sm.mc
  rw [hdc] at smdc; rw [hmc] at smmc
  have hdr := hdr_rd_fixed p rows ss hs
  rw [hdc, hmc] at hdr
  have hlen := hf_len p dc mc
  have u0 : u8 (render p rows) 0 = some 208 :=
    u8_of_leN1 (leN_of_rd (hdr 0 0 1 208 (by omega) (by simp [fixedFields, widthSum]) (by simp [fixedFields])))
  have u1 : u8 (render p rows) 1 = some 207 :=
    u8_of_leN1 (leN_of_rd (hdr 1 1 1 207 (by omega) (by simp [fixedFields, widthSum]) (by simp [fixedFields])))
  have u2 : u8 (render p rows) 2 = some 17 :=
    u8_of_leN1 (leN_of_rd (hdr 2 2 1 17 (by omega) (by simp [fixedFields, widthSum]) (by simp [fixedFields])))
  have u3 : u8 (render p rows) 3 = some 224 :=
    u8_of_leN1 (leN_of_rd (hdr 3 3 1 224 (by omega) (by simp [fixedFields, widthSum]) (by simp [fixedFields])))
  have u4 : u8 (render p rows) 4 = some 161 :=
    u8_of_leN1 (leN_of_rd (hdr 4 4 1 161 (by omega) (by simp [fixedFields, widthSum]) (by simp [fixedFields])))
  have u5 : u8 (render p rows) 5 = some 177 :=
    u8_of_leN1 (leN_of_rd (hdr 5 5 1 177 (by omega) (by simp [fixedFields, widthSum]) (by simp [fixedFields])))
  have u6 : u8 (render p rows) 6 = some 26 :=
    u8_of_leN1 (leN_of_rd (hdr 6 6 1 26 (by omega) (by simp [fixedFields, widthSum]) (by simp [fixedFields])))
  have u7 : u8 (render p rows) 7 = some 225 :=
    u8_of_leN1 (leN_of_rd (hdr 7 7 1 225 (by omega) (by simp [fixedFields, widthSum]) (by simp [fixedFields])))
  have r0 : rd (render p rows) 0 8 = .ok (Gen.MAGIC_NUMBER.foldr (fun b acc => b + 256 * acc) 0) := by
    unfold rd
    simp only [leN, u0, u1, u2, u3, u4, u5, u6, u7]
    rfl
  have r26 : rd (render p rows) 26 2 = .ok (if p.v4 then Gen.versionNumberV4 else Gen.versionNumberV3) := by
    have := hdr 10 26 2 (if p.v4 then Gen.versionNumberV4 else Gen.versionNumberV3) (by omega) (by simp [fixedFields, widthSum]) (by simp [fixedFields])
    rw [this]; congr 1; split <;> rfl
  have r28 : rd (render p rows) 28 2 = .ok Gen.BYTE_ORDER_MARK := by
    have := hdr 11 28 2 Gen.BYTE_ORDER_MARK (by omega) (by simp [fixedFields, widthSum]) (by simp [fixedFields])
    rw [this]; rfl
  have r30 : rd (render p rows) 30 2 = .ok (if p.v4 then Gen.sectorShiftV4 else Gen.sectorShiftV3) := by
    have := hdr 12 30 2 (if p.v4 then Gen.sectorShiftV4 else Gen.sectorShiftV3) (by omega) (by simp [fixedFields, widthSum]) (by simp [fixedFields])
    rw [this]; congr 1; split <;> rfl
  have r32 : rd (render p rows) 32 2 = .ok Gen.MINI_SECTOR_SHIFT := by
    have := hdr 13 32 2 Gen.MINI_SECTOR_SHIFT (by omega) (by simp [fixedFields, widthSum]) (by simp [fixedFields])
    rw [this]; rfl
  have r40 : rd (render p rows) 40 4 = .ok (if p.v4 then dc.length else 0) := by
    have := hdr 15 40 4 (if p.v4 then dc.length else 0) (by omega) (by simp [fixedFields, widthSum]) (by simp [fixedFields])
    rw [this]; congr 1; split
    · exact Nat.mod_eq_of_lt smdc
    · rfl
  have r44 : rd (render p rows) 44 4 = .ok p.difat.length := by
    have := hdr 16 44 4 p.difat.length (by omega) (by simp [fixedFields, widthSum]) (by simp [fixedFields])
    rw [this, Nat.mod_eq_of_lt sm.nf]
  have r48 : rd (render p rows) 48 4 = .ok p.dirStart := by
    have := hdr 17 48 4 p.dirStart (by omega) (by simp [fixedFields, widthSum]) (by simp [fixedFields])
    rw [this, Nat.mod_eq_of_lt sm.ds]
  have r56 : rd (render p rows) 56 4 = .ok Gen.MINI_STREAM_CUTOFF := by
    have := hdr 19 56 4 Gen.MINI_STREAM_CUTOFF (by omega) (by simp [fixedFields, widthSum]) (by simp [fixedFields])
    rw [this]; rfl
  have r60 : rd (render p rows) 60 4 = .ok p.miniFatStart := by
    have := hdr 20 60 4 p.miniFatStart (by omega) (by simp [fixedFields, widthSum]) (by simp [fixedFields])
    rw [this, Nat.mod_eq_of_lt sm.ms]
  have r64 : rd (render p rows) 64 4 = .ok mc.length := by
    have := hdr 21 64 4 mc.length (by omega) (by simp [fixedFields, widthSum]) (by simp [fixedFields])
    rw [this, Nat.mod_eq_of_lt smmc]
  have r68 : rd (render p rows) 68 4 = .ok (p.difatSectorIds.head?.getD END) := by
    have := hdr 22 68 4 (p.difatSectorIds.head?.getD END) (by omega) (by simp [fixedFields, widthSum]) (by simp [fixedFields])
    rw [this, Nat.mod_eq_of_lt sm.dh]
  have r72 : rd (render p rows) 72 4 = .ok p.difatSectorIds.length := by
    have := hdr 23 72 4 p.difatSectorIds.length (by omega) (by simp [fixedFields, widthSum]) (by simp [fixedFields])
    rw [this, Nat.mod_eq_of_lt sm.dn]
  -- the 109 slots
  have hN : Gen.NUM_DIFAT_ENTRIES_IN_HEADER = 109 := rfl
  have hgoodlen : (p.difat.take 109).length ≤ 109 := by simp [List.length_take]; omega
  have rinit : readInitialDifat (render p rows) Gen.NUM_DIFAT_ENTRIES_IN_HEADER 76 [] = .ok (p.difat.take 109) := by
    have hsp := readInitialDifat_spec (render p rows) (p.difat.take 109) (109 - (p.difat.take 109).length) 109 76 []
      (by omega) (fun x hx => hdifat x (List.mem_of_mem_take hx))
      (by
        intro j hj
        have hj' : j < 109 := by omega
        have := hdr_cell_rd p rows ss hs j hj'
        rw [this]
        congr 1
        have hc : (headerCells p)[j]'(by rw [headerCells_length]; exact hj') = (p.difat.take 109)[j] := by
          have h1 := headerCells_get_lt p j hj
          rw [List.getElem?_eq_getElem (by rw [headerCells_length]; exact hj')] at h1
          exact Option.some.inj h1
        rw [hc]
        have : (p.difat.take 109)[j] ≤ MAXREG := hdifat _ (List.mem_of_mem_take (List.getElem_mem _))
        exact Nat.mod_eq_of_lt (by have : MAXREG < 256 ^ 4 := by decide
                                   omega))
      (by
        intro j hj
        have hj' : (p.difat.take 109).length + j < 109 := by omega
        have := hdr_cell_rd p rows ss hs _ hj'
        rw [this]
        congr 1
        have hc : (headerCells p)[(p.difat.take 109).length + j]'(by rw [headerCells_length]; exact hj') = FREE := by
          have h1 := headerCells_get_ge p _ (Nat.le_add_right _ j) hj'
          rw [List.getElem?_eq_getElem (by rw [headerCells_length]; exact hj')] at h1
          exact Option.some.inj h1
        rw [hc]; rfl)
    rw [hN]
    simpa using hsp
  unfold readHeader
  simp only [bind, Except.bind, r0, r26, r28, r30, r32, r40, r44, r48, r56, r60, r64, r68, r72, rinit, pure, Except.pure]
  have hfirst : p.difatSectorIds.head?.getD END ≠ FREE := by
    cases hh : p.difatSectorIds with
    | nil => simp; decide
    | cons a l =>
      simp
      have := hids a (by rw [hh]; simp)
      have := MAXREG_lt_FREE
      omega
  cases hv : p.v4 <;> simp [hv, hfirst, Gen.versionNumberV3, Gen.versionNumberV4, Gen.BYTE_ORDER_MARK,
    Gen.sectorShiftV3, Gen.sectorShiftV4, hN, badE]

/-- the header the renderer writes, as the reader's record -/
def hdrOf (p : P) : Header :=
  { v4 := p.v4, numDirSectors := if p.v4 then (chainOrEmpty p p.dirStart).length else 0,
    numFatSectors := p.difat.length, firstDirSector := p.dirStart, firstMiniFatSector := p.miniFatStart,
    numMiniFatSectors := (chainOrEmpty p p.miniFatStart).length,
    firstDifatSector := p.difatSectorIds.head?.getD END, numDifatSectors := p.difatSectorIds.length,
    initialDifat := p.difat.take Gen.NUM_DIFAT_ENTRIES_IN_HEADER }

theorem hdrOf_sectorLen (p : P) : (hdrOf p).sectorLen = p.S := by
  unfold Header.sectorLen hdrOf P.S sectorLenOf
  cases p.v4 <;> rfl

/-! ## the first half of `open` on the rendered image (files without DIFAT sectors) -/

/-- what `open` does after the FAT is validated -/
def openAfterFat (m : Mode) (img : Img) (h : Header) (numSectors : Nat) (difatIds difat : List Nat) (fat : Array Nat) :
    Outcome RawState := do
  let S := h.sectorLen
  let entries ← dirLoop m h img numSectors fat (numSectors + 1) h.firstDirSector 1 [] []
  let dir := entries.toArray
  validateDir m dir
  let mfChain ← chainFrom fat h.firstMiniFatSector
  if m.isStrict ∧ h.numMiniFatSectors ≠ mfChain.length then bad else
  let mf0 ← readChainU32s img S mfChain.toArray (mfChain.length * S / 4) 0
  let mf1 := popWhile (fun x => x == FREE) mf0
  let rootLen := (dir[0]?.map (·.streamLen)).getD 0
  let mf ← liftE (validateMiniFat m rootLen mf1)
  pure { v4 := h.v4, numSectors := numSectors, difatSectorIds := difatIds, difat := difat, fat := fat,
         dirStart := h.firstDirSector, dir := dir, miniFatStart := h.firstMiniFatSector,
         miniFat := mf.toArray }

theorem openTail_eq (m : Mode) (img : Img) (h : Header) (numSectors : Nat) (difatIds difat : List Nat) :
    openTail m img h numSectors difatIds difat =
      (if m.isStrict ∧ h.numFatSectors ≠ difat.length then bad else
        (liftE (readFat img h.sectorLen numSectors difat)) >>= fun fat0 =>
        (liftE (validateFat m numSectors difatIds difat (normFat m numSectors fat0).toArray)) >>= fun fat =>
        openAfterFat m img h numSectors difatIds difat fat) := by
  rfl

theorem popWhile_free_id (l : List Nat) (h : ∀ x ∈ l, x ≠ FREE) : popWhile (fun x => x == FREE) l = l := by
  unfold popWhile
  cases hr : l.reverse with
  | nil =>
    have : l = [] := by simpa using hr
    rw [this]; rfl
  | cons a r =>
    have ha : a ∈ l := by
      have : a ∈ l.reverse := by rw [hr]; simp
      simpa using this
    have hne : (a == FREE) = false := by simpa using h a ha
    show (List.dropWhile (fun x => x == FREE) l.reverse).reverse = l
    rw [hr, List.dropWhile_cons_of_neg (by simp [hne])]
    rw [← hr]; simp

/-- **`open` on the rendered image of a file without DIFAT sectors**: header, DIFAT, FAT load,
normalisation and `Allocator::validate` go through, in both modes, and what remains of `open` runs
on the writer's DIFAT and the writer's FAT -/
theorem open_fat_stage {p : P} {L : Nat → Nat} (rows : List Row) (j : JC p L) (mk : MK p) (ss : SS p) (cap : Cap p)
    (hs : SlotsOk (slotsOf p rows)) (sm : HdrSmall p) (hn : p.numSectors ≤ MAXREG)
    (hnodif : p.difatSectorIds = []) (hlen : p.difat.length ≤ 109) (m : Mode) :
    ∃ h : Header, readHeader m (render p rows) = .ok h ∧ h.v4 = p.v4 ∧ h.firstDirSector = p.dirStart ∧
      h.firstMiniFatSector = p.miniFatStart ∧
      openImg m (render p rows) = openAfterFat m (render p rows) h p.numSectors [] p.difat p.fat := by
  have hdifat : ∀ x ∈ p.difat, x ≤ MAXREG := by
    intro x hx
    have := lt_of_get ((mk.fatMark x).mpr hx)
    have := j.nc.ns.bound
    omega
  have hids : ∀ x ∈ p.difatSectorIds, x ≤ MAXREG := by rw [hnodif]; intro x hx; cases hx
  have hh : readHeader m (render p rows) = .ok (hdrOf p) := readHeader_render p rows ss hs sm hdifat hids m
  refine ⟨hdrOf p, hh, rfl, rfl, rfl, ?_⟩
  have hsz := render_size p rows ss hs
  have hS := hdrOf_sectorLen p
  have hSpos := S_pos p
  have hH := (S_facts p).2.2.2
  unfold openImg
  simp only [bind, pure]
  rw [if_neg (by rw [hsz]; have : p.S ≤ (p.numSectors + 1) * p.S := Nat.le_mul_of_pos_left _ (Nat.succ_pos _); omega)]
  rw [hh]
  simp only [liftE, Outcome.bind, hS]
  rw [if_neg (by rw [hsz]; exact Nat.not_lt.mpr (Nat.mul_le_mul_right _ (by omega)))]
  rw [if_neg (by rw [hsz]; have : p.S ≤ (p.numSectors + 1) * p.S := Nat.le_mul_of_pos_left _ (Nat.succ_pos _); omega)]
  have hns : numSectorsOf (render p rows).size p.S = p.numSectors := by
    unfold numSectorsOf
    rw [hsz]
    have : ((p.numSectors + 1) * p.S + p.S - 1) / p.S = p.numSectors + 1 := by
      have e : (p.numSectors + 1) * p.S + p.S - 1 = (p.S - 1) + (p.numSectors + 1) * p.S := by omega
      rw [e, Nat.add_mul_div_right _ _ hSpos, Nat.div_eq_of_lt (by omega)]
      omega
    rw [this]; rfl
  rw [hns]
  -- the DIFAT chain is empty
  have hfirst : p.difatSectorIds.head?.getD END = END := by rw [hnodif]; rfl
  have e1 : (hdrOf p).firstDifatSector = END := hfirst
  have e2 : (hdrOf p).initialDifat = p.difat.take Gen.NUM_DIFAT_ENTRIES_IN_HEADER := rfl
  have e3 : (hdrOf p).numDifatSectors = p.difatSectorIds.length := rfl
  have e4 : (hdrOf p).numFatSectors = p.difat.length := rfl
  rw [e1, e2, e3, e4]
  have hloop : difatLoop m (render p rows) p.S p.numSectors (p.numSectors + 1) END [] []
      (p.difat.take Gen.NUM_DIFAT_ENTRIES_IN_HEADER) = .ok ([], p.difat.take Gen.NUM_DIFAT_ENTRIES_IN_HEADER) := by
    unfold difatLoop
    simp
  rw [hloop]
  simp only
  rw [if_neg (by rw [hnodif]; simp)]
  have htake : p.difat.take Gen.NUM_DIFAT_ENTRIES_IN_HEADER = p.difat := List.take_of_length_le hlen
  have hnorm : normDifat m p.difat.length (p.difat.take Gen.NUM_DIFAT_ENTRIES_IN_HEADER) = p.difat := by
    rw [htake]
    unfold normDifat
    have hpz : (if m.isStrict = true then p.difat else popZeros p.difat.length (p.difat.length + 1) p.difat) = p.difat := by
      split
      · rfl
      · unfold popZeros
        have : Gen.NUM_DIFAT_ENTRIES_IN_HEADER = 109 := rfl
        rw [if_neg (by rw [this]; omega)]
    rw [hpz]
    exact popWhile_free_id _ (fun x hx => by have := hdifat x hx; have := MAXREG_lt_FREE; omega)
  rw [hnorm, openTail_eq]
  rw [if_neg (by rw [e4]; simp)]
  obtain ⟨fat0, hr, hv⟩ := reader_fat_is_writer_fat rows j mk ss cap hs m
  rw [hS, hr]
  simp only [liftE, bind, Outcome.bind]
  rw [hnodif] at hv
  rw [hv]

theorem hdrSmall_of {p : P} {L : Nat → Nat} (j : JC p L) (mk : MK p) : HdrSmall p := by
  have wf := rolesWf_of j mk
  have hb := j.nc.ns.bound
  have hsize : p.fat.size = p.numSectors := j.inv.fat.size
  have big : MAXREG + 1 < 256 ^ 4 := by decide
  have hEND : END < 256 ^ 4 := by decide
  have len_lt : ∀ l : List Nat, l.Nodup → (∀ x ∈ l, x < p.numSectors) → l.length < 256 ^ 4 := by
    intro l hnd hlt
    have := length_le_of_nodup_lt p.numSectors l hnd hlt
    omega
  refine ⟨len_lt _ wf.dirNd wf.dirLt, len_lt _ wf.mfNd wf.mfLt, len_lt _ wf.fatNd wf.fatLt, ?_, ?_, ?_,
    len_lt _ wf.difNd wf.difLt⟩
  · have hdirm : p.dirStart ∈ heads p L := by simp [heads, cont]
    obtain ⟨w, hw, _⟩ := j.nc.ns.used _ hdirm
    have := lt_of_get hw
    omega
  · by_cases he : p.miniFatStart = END
    · rw [he]; exact hEND
    · have hm : p.miniFatStart ∈ heads p L := by simp [heads, cont, hd1, he]
      obtain ⟨w, hw, _⟩ := j.nc.ns.used _ hm
      have := lt_of_get hw
      omega
  · cases hh : p.difatSectorIds with
    | nil => exact hEND
    | cons a l =>
      simp only [List.head?_cons, Option.getD_some]
      have := wf.difLt a (by rw [hh]; simp)
      omega

/-- **after every history that needs no DIFAT sector, `open` on the rendered image reconstructs the
writer's DIFAT and FAT**: the reader model's `open` — header, DIFAT, FAT load, normalisation,
`Allocator::validate` — goes through in both modes and continues on exactly the writer's tables -/
theorem open_fat_stage_reachable (v4 : Bool) (ops : List GOp) (rows : List Row) (m : Mode) :
    let g := grun { p := Phys.create v4, L := fun _ => 0 } ops
    g.p.fat.size ≤ MAXREG → SlotsOk (slotsOf g.p rows) → g.p.difatSectorIds = [] → g.p.difat.length ≤ 109 →
    ∃ h : Header, readHeader m (render g.p rows) = .ok h ∧ h.v4 = g.p.v4 ∧ h.firstDirSector = g.p.dirStart ∧
      h.firstMiniFatSector = g.p.miniFatStart ∧
      openImg m (render g.p rows) = openAfterFat m (render g.p rows) h g.p.numSectors [] g.p.difat g.p.fat := by
  intro g hfs hs hnodif hlen
  have gs := gs_grun ops { p := Phys.create v4, L := fun _ => 0 }
  have hb : g.p.fat.size ≤ MAXREG + 1 := Nat.le_succ_of_le hfs
  have j := noLeak_reachable v4 ops hb
  have mk := (mk_grun_reachable v4 ops hb).1
  have hn : g.p.numSectors ≤ MAXREG := by rw [← j.inv.fat.size]; exact hfs
  exact open_fat_stage rows j mk (gs.ss (ss_create v4)) (gs.cap (cap_create v4)) hs (hdrSmall_of j mk) hn hnodif hlen m

end CfbVerif.Phys
