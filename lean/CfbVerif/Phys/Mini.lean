import CfbVerif.Phys.Alloc
/-! # Mini-sector allocation: reuse keeps the mini stream and the file at their length -/
namespace CfbVerif.Phys
open CfbVerif.Raw

theorem setMiniFat_ok {p p' : P} {idx val : Nat} (h : setMiniFat p idx val = .ok p') :
    p' = { p with miniFat := p'.miniFat } ∧
    (p'.miniFat = p.miniFat.push val ∨ p'.miniFat = p.miniFat.setIfInBounds idx val) := by
  unfold setMiniFat at h
  cases hc : chainIds p p.miniFatStart with
  | err e => simp [hc, bind, Outcome.bind] at h
  | panic s => simp [hc, bind, Outcome.bind] at h
  | hang s => simp [hc, bind, Outcome.bind] at h
  | ok chain =>
    simp only [hc, bind, Outcome.bind] at h
    split at h
    · cases h
    · split at h
      · cases h; exact ⟨rfl, Or.inl rfl⟩
      · split at h
        · cases h; exact ⟨rfl, Or.inr rfl⟩
        · cases h

/-- popping candidates never touches the file or the mini stream -/
theorem popFreeMini_ok (fuel : Nat) : ∀ {p p1 : P} {r : Option Nat}, popFreeMini p fuel = .ok (p1, r) →
    p1 = { p with freeMini := p1.freeMini } ∧
    (∀ idx, r = some idx → p1.miniFat[idx]? = some FREE) := by
  induction fuel with
  | zero =>
    intro p p1 r h
    simp only [popFreeMini] at h
    cases h
    exact ⟨rfl, fun _ h => by cases h⟩
  | succ fuel ih =>
    intro p p1 r h
    unfold popFreeMini at h
    split at h
    · cases h; exact ⟨rfl, fun _ h => by cases h⟩
    · rename_i idx hl
      simp only at h
      split at h
      · cases h
      · rename_i cell hcell
        split at h
        · rename_i hfree
          cases h
          refine ⟨rfl, ?_⟩
          intro i hi
          cases hi
          simpa [hfree] using hcell
        · have := ih h
          refine ⟨?_, this.2⟩
          have h1 := this.1
          rw [h1]

/-- **a released mini sector is reused**: when the free list yields a really free mini sector,
allocation returns it and neither the mini stream (`rootLen`) nor the file (`numSectors`) grows -/
theorem allocateMiniSector_reuse {p p' p1 : P} {id idx : Nat} {v : Nat}
    (hpop : popFreeMini p (p.freeMini.length + 1) = .ok (p1, some idx))
    (h : allocateMiniSector p v = .ok (p', id)) :
    id = idx ∧ p.miniFat[idx]? = some FREE ∧ p'.rootLen = p.rootLen ∧ p'.numSectors = p.numSectors ∧
    p'.fat = p.fat := by
  unfold allocateMiniSector at h
  simp only [hpop, bind, Outcome.bind] at h
  cases hs : setMiniFat p1 idx v with
  | err e => simp [hs] at h
  | panic s => simp [hs] at h
  | hang s => simp [hs] at h
  | ok p2 =>
    simp only [hs, pure] at h
    have hp := popFreeMini_ok _ hpop
    have h2 := (setMiniFat_ok hs).1
    have hfree := hp.2 idx rfl
    rw [hp.1] at hfree
    cases h
    refine ⟨rfl, hfree, ?_, ?_, ?_⟩
    · rw [h2, hp.1]
    · rw [h2, hp.1]
    · rw [h2, hp.1]

end CfbVerif.Phys
