import CfbVerif.Phys.ApiInv
/-!
# The mini free list stays inside the MiniFAT in every reachable state

`MiniRange p`: every index on the mini free list is an index of the in-memory MiniFAT.  It is what
makes `allocate_mini_sector`'s unchecked `minifat[free_idx]` safe: with it the pop loop has no
panic exit (`C11_popFreeMini_no_panic`).  The sector level never touches the two mini tables
(`SameMini`), `set_minifat` only lengthens or overwrites, `free_mini_sector` prunes the list to the
shortened MiniFAT, `open` rebuilds it from the MiniFAT: so `MiniRange` holds after every history of
API calls.
-/
namespace CfbVerif.Phys
open CfbVerif.Raw CfbVerif.Dir

def MiniRange (p : P) : Prop := ∀ i ∈ p.freeMini, i < p.miniFat.size

def SameMini (p q : P) : Prop := q.miniFat = p.miniFat ∧ q.freeMini = p.freeMini

theorem SameMini.refl (p : P) : SameMini p p := ⟨rfl, rfl⟩
theorem SameMini.trans {p q r : P} (h1 : SameMini p q) (h2 : SameMini q r) : SameMini p r :=
  ⟨h2.1.trans h1.1, h2.2.trans h1.2⟩

/-- summary for the mini tables: the range property survives -/
def GoodM (p p' : P) : Prop := MiniRange p → MiniRange p'

theorem GoodM.refl (p : P) : GoodM p p := fun h => h
theorem GoodM.trans {p q r : P} (h1 : GoodM p q) (h2 : GoodM q r) : GoodM p r := fun h => h2 (h1 h)
theorem GoodM.of_same {p q : P} (h : SameMini p q) : GoodM p q := by
  intro hr i hi; rw [h.1]; exact hr i (h.2 ▸ hi)

/-! ## the sector level leaves the mini tables alone -/

theorem sm_setFat {p p' : P} {i v : Nat} (h : setFat p i v = .ok p') : SameMini p p' := by
  rcases setFat_ok h with ⟨_, he⟩ | ⟨_, he⟩ <;> subst he <;> exact ⟨rfl, rfl⟩

theorem sm_initSector {p p' : P} {id : Nat} {k : Init} (h : initSector p id k = .ok p') : SameMini p p' := by
  rcases initSector_ok h with ⟨_, he⟩ | ⟨_, he⟩ <;> subst he <;> exact ⟨rfl, rfl⟩

theorem sm_writeSector {p p' : P} {id off : Nat} {bs : Bytes} (h : writeSector p id off bs = .ok p') : SameMini p p' := by
  unfold writeSector at h
  split at h
  · cases h
  · cases h; exact ⟨rfl, rfl⟩

theorem sm_appendFatSector {p p' : P} (h : appendFatSector p = .ok p') : SameMini p p' := by
  unfold appendFatSector at h
  obtain ⟨p1, h1, h⟩ := bind_ok h
  obtain ⟨p2, h2, h⟩ := bind_ok h
  have s12 : SameMini p p2 := (sm_initSector h1).trans ((SameMini.refl _ : SameMini _ { p1 with difat := p1.difat ++ [p.fat.size] }).trans (sm_setFat h2))
  split at h
  · cases h; exact s12
  · dsimp only at h
    split at h
    · obtain ⟨p3, h3, h⟩ := bind_ok h
      obtain ⟨p4, h4, h⟩ := bind_ok h
      cases h
      exact ((s12.trans (sm_initSector h3)).trans (sm_setFat h4)).trans ⟨rfl, rfl⟩
    · cases h; exact s12

theorem sm_allocateSector {p p' : P} {id : Nat} {k : Init} (h : allocateSector p k = .ok (p', id)) : SameMini p p' := by
  unfold allocateSector at h
  split at h
  · obtain ⟨p1, h1, h⟩ := bind_ok h
    obtain ⟨p2, h2, h⟩ := bind_ok h
    cases h
    exact ((SameMini.refl _ : SameMini p { p with free := p.free.dropLast }).trans (sm_setFat h1)).trans (sm_initSector h2)
  · split at h
    · obtain ⟨p0, h0, h⟩ := bind_ok h
      obtain ⟨p1, h1, h⟩ := bind_ok h
      obtain ⟨p2, h2, h⟩ := bind_ok h
      cases h
      exact ((sm_appendFatSector h0).trans (sm_setFat h1)).trans (sm_initSector h2)
    · obtain ⟨p0, h0, h⟩ := bind_ok h
      cases h0
      obtain ⟨p1, h1, h⟩ := bind_ok h
      obtain ⟨p2, h2, h⟩ := bind_ok h
      cases h
      exact (sm_setFat h1).trans (sm_initSector h2)

theorem sm_extendChain {p p' : P} {start id : Nat} {k : Init} (h : extendChain p start k = .ok (p', id)) : SameMini p p' := by
  unfold extendChain at h
  obtain ⟨last, hl, h⟩ := bind_ok h
  obtain ⟨⟨p1, id1⟩, ha, h⟩ := bind_ok h
  obtain ⟨p2, hs, h⟩ := bind_ok h
  cases h
  exact (sm_allocateSector ha).trans (sm_setFat hs)

theorem sm_freeChain (fuel : Nat) : ∀ {p p' : P} {cur : Nat}, freeChain p fuel cur = .ok p' → SameMini p p' := by
  induction fuel with
  | zero => intro p p' cur h; simp [freeChain] at h
  | succ fuel ih =>
    intro p p' cur h
    unfold freeChain at h
    split at h
    · cases h; exact SameMini.refl _
    · split at h
      · cases h
      · split at h
        · cases h
        · split at h
          · rename_i p1 h1
            exact ((sm_setFat h1).trans (SameMini.refl _ : SameMini p1 { p1 with free := p1.free ++ [cur] })).trans (ih h)
          · cases h
          · cases h
          · cases h

theorem sm_freeChainAfter {p p' : P} {id : Nat} (h : freeChainAfter p id = .ok p') : SameMini p p' := by
  unfold freeChainAfter at h
  split at h
  · cases h
  · obtain ⟨p1, h1, h⟩ := bind_ok h
    exact (sm_setFat h1).trans (sm_freeChain _ h)

theorem sm_growOne {kind : Init} {p p' : P} {ids ids' : List Nat} (h : growOne kind p ids = .ok (p', ids')) : SameMini p p' := by
  unfold growOne at h
  split at h
  · split at h
    · rename_i he; cases h; exact sm_extendChain he
    · cases h
    · cases h
    · cases h
  · split at h
    · rename_i he; cases h; exact sm_allocateSector he
    · cases h
    · cases h
    · cases h

theorem sm_chainWrite (kind : Init) (fuel : Nat) : ∀ {p p' : P} {ids ids' : List Nat} {off : Nat} {bs : Bytes},
    chainWrite kind fuel p ids off bs = .ok (p', ids') → SameMini p p' := by
  induction fuel with
  | zero => intro p p' ids ids' off bs h; simp [chainWrite] at h
  | succ fuel ih =>
    intro p p' ids ids' off bs h
    unfold chainWrite at h
    split at h
    · cases h; exact SameMini.refl _
    · dsimp only at h
      split at h
      · rename_i p1 ids1 hgrow
        have g1 : SameMini p p1 := by
          split at hgrow
          · exact sm_growOne hgrow
          · cases hgrow; exact SameMini.refl _
        split at h
        · cases h
        · split at h
          · rename_i p2 hw
            exact (g1.trans (sm_writeSector hw)).trans (ih h)
          · cases h
          · cases h
          · cases h
      · cases h
      · cases h
      · cases h

theorem sm_chainGrow (kind : Init) (fuel : Nat) : ∀ {p p' : P} {ids ids' : List Nat} {target : Nat},
    chainGrow kind fuel p ids target = .ok (p', ids') → SameMini p p' := by
  induction fuel with
  | zero => intro p p' ids ids' target h; simp [chainGrow] at h
  | succ fuel ih =>
    intro p p' ids ids' target h
    unfold chainGrow at h
    split at h
    · cases h; exact SameMini.refl _
    · split at h
      · rename_i p1 ids1 hg
        exact (sm_growOne hg).trans (ih h)
      · cases h
      · cases h
      · cases h

theorem sm_chainSetLen {p p' : P} {ids ids' : List Nat} {kind : Init} {n : Nat}
    (h : chainSetLen p ids kind n = .ok (p', ids')) : SameMini p p' := by
  unfold chainSetLen at h
  dsimp only at h
  split at h
  · split at h
    · obtain ⟨q, hf, h⟩ := obind_ok h
      cases h; exact sm_freeChain _ hf
    · cases h; exact SameMini.refl _
  · split at h
    · split at h
      · split at h
        · obtain ⟨q, hf, h⟩ := obind_ok h
          cases h; exact sm_freeChainAfter hf
        · cases h
      · cases h; exact SameMini.refl _
    · exact sm_chainGrow _ _ h

end CfbVerif.Phys

namespace CfbVerif.Phys
open CfbVerif.Raw CfbVerif.Dir

/-! ## the mini level -/

theorem gm_setMiniFat {p p' : P} {i v : Nat} (h : setMiniFat p i v = .ok p') : GoodM p p' := by
  have r := setMiniFat_ok h
  intro hr j hj
  have hfm : p'.freeMini = p.freeMini := by rw [r.1]
  have hj' := hr j (hfm ▸ hj)
  rcases r.2 with he | he <;> rw [he] <;> simp <;> omega

theorem gm_popFreeMini (fuel : Nat) : ∀ {p p1 : P} {r : Option Nat}, popFreeMini p fuel = .ok (p1, r) → GoodM p p1 := by
  induction fuel with
  | zero => intro p p1 r h; simp only [popFreeMini] at h; cases h; exact GoodM.refl _
  | succ fuel ih =>
    intro p p1 r h
    unfold popFreeMini at h
    split at h
    · cases h; exact GoodM.refl _
    · dsimp only at h
      have step : GoodM p { p with freeMini := p.freeMini.dropLast } := by
        intro hr j hj; exact hr j (List.dropLast_subset _ hj)
      split at h
      · cases h
      · split at h
        · cases h; exact step
        · exact step.trans (ih h)

theorem gm_ensureRootRoom {p p' : P} (h : ensureRootRoom p = .ok p') : GoodM p p' := by
  unfold ensureRootRoom at h
  split at h
  · split at h
    · rename_i ha; cases h
      exact GoodM.of_same ((sm_allocateSector ha).trans ⟨rfl, rfl⟩)
    · cases h
    · cases h
    · cases h
  · split at h
    · split at h
      · split at h
        · split at h
          · rename_i he; cases h; exact GoodM.of_same (sm_extendChain he)
          · cases h
          · cases h
          · cases h
        · cases h; exact GoodM.refl _
      · cases h
      · cases h
      · cases h
    · cases h; exact GoodM.refl _

theorem gm_appendMiniSector {p p' : P} (h : appendMiniSector p = .ok p') : GoodM p p' := by
  unfold appendMiniSector at h
  split at h
  · rename_i hr; cases h
    exact (gm_ensureRootRoom hr).trans (GoodM.of_same ⟨rfl, rfl⟩)
  · cases h
  · cases h
  · cases h

theorem gm_ensureMiniFatRoom {p p' : P} (h : ensureMiniFatRoom p = .ok p') : GoodM p p' := by
  unfold ensureMiniFatRoom at h
  dsimp only at h
  split at h
  · split at h
    · rename_i ha; cases h
      exact GoodM.of_same ((sm_allocateSector ha).trans ⟨rfl, rfl⟩)
    · cases h
    · cases h
    · cases h
  · split at h
    · split at h
      · split at h
        · split at h
          · rename_i he; cases h; exact GoodM.of_same (sm_extendChain he)
          · cases h
          · cases h
          · cases h
        · cases h; exact GoodM.refl _
      · cases h
      · cases h
      · cases h
    · cases h; exact GoodM.refl _

theorem gm_allocateMiniSector {p p' : P} {v id : Nat} (h : allocateMiniSector p v = .ok (p', id)) : GoodM p p' := by
  unfold allocateMiniSector at h
  obtain ⟨⟨p1, reuse⟩, hp, h⟩ := bind_ok h
  have g0 := gm_popFreeMini _ hp
  dsimp only at h
  split at h
  · obtain ⟨p2, hs, h⟩ := bind_ok h
    cases h
    exact g0.trans (gm_setMiniFat hs)
  · obtain ⟨p2, h2, h⟩ := bind_ok h
    obtain ⟨p3, h3, h⟩ := bind_ok h
    obtain ⟨p4, h4, h⟩ := bind_ok h
    cases h
    exact ((g0.trans (gm_ensureMiniFatRoom h2)).trans (gm_appendMiniSector h3)).trans (gm_setMiniFat h4)

theorem gm_extendMiniChain {p p' : P} {start id : Nat} (h : extendMiniChain p start = .ok (p', id)) : GoodM p p' := by
  unfold extendMiniChain at h
  obtain ⟨last, hl, h⟩ := bind_ok h
  obtain ⟨⟨p1, i1⟩, ha, h⟩ := bind_ok h
  obtain ⟨p2, hs, h⟩ := bind_ok h
  cases h
  exact (gm_allocateMiniSector ha).trans (gm_setMiniFat hs)

/-- `free_mini_sector` establishes the range whatever held before -/
theorem gm_freeMiniSector {p p' : P} {id : Nat} (h : freeMiniSector p id = .ok p') : GoodM p p' :=
  fun _ => Props_free_mini_range h
where
  Props_free_mini_range {p p' : P} {id : Nat} (h : freeMiniSector p id = .ok p') : MiniRange p' := by
    unfold freeMiniSector at h
    split at h
    · cases h
    · split at h
      · cases h
      · obtain ⟨p1, hs, h⟩ := bind_ok h
        cases h
        intro i hi
        simp only [List.mem_filter, decide_eq_true_eq] at hi
        exact hi.2

theorem gm_freeMiniChain (fuel : Nat) : ∀ {p p' : P} {cur : Nat}, freeMiniChain p fuel cur = .ok p' → GoodM p p' := by
  induction fuel with
  | zero => intro p p' cur h; simp [freeMiniChain] at h
  | succ fuel ih =>
    intro p p' cur h
    unfold freeMiniChain at h
    split at h
    · cases h; exact GoodM.refl _
    · split at h
      · cases h
      · split at h
        · rename_i p1 hf
          exact (gm_freeMiniSector hf).trans (ih h)
        · cases h
        · cases h
        · cases h

theorem gm_freeMiniChainAfter {p p' : P} {id : Nat} (h : freeMiniChainAfter p id = .ok p') : GoodM p p' := by
  unfold freeMiniChainAfter at h
  split at h
  · cases h
  · obtain ⟨p1, hs, h⟩ := bind_ok h
    exact (gm_setMiniFat hs).trans (gm_freeMiniChain _ h)

theorem sm_miniWriteAt {p p' : P} {m off : Nat} {bs : Bytes} (h : miniWriteAt p m off bs = .ok p') : SameMini p p' := by
  unfold miniWriteAt at h
  obtain ⟨⟨sid, base⟩, hl, h⟩ := bind_ok h
  exact sm_writeSector h

theorem gm_growOneMini {p p' : P} {ids ids' : List Nat} (h : growOneMini p ids = .ok (p', ids')) : GoodM p p' := by
  unfold growOneMini at h
  split at h
  · split at h
    · rename_i he; cases h; exact gm_extendMiniChain he
    · cases h
    · cases h
    · cases h
  · split at h
    · rename_i he; cases h; exact gm_allocateMiniSector he
    · cases h
    · cases h
    · cases h

theorem gm_miniChainWrite (fuel : Nat) : ∀ {p p' : P} {ids ids' : List Nat} {off : Nat} {bs : Bytes},
    miniChainWrite fuel p ids off bs = .ok (p', ids') → GoodM p p' := by
  induction fuel with
  | zero => intro p p' ids ids' off bs h; simp [miniChainWrite] at h
  | succ fuel ih =>
    intro p p' ids ids' off bs h
    unfold miniChainWrite at h
    split at h
    · cases h; exact GoodM.refl _
    · split at h
      · rename_i p1 ids1 hgrow
        have g1 : GoodM p p1 := by
          split at hgrow
          · exact gm_growOneMini hgrow
          · cases hgrow; exact GoodM.refl _
        split at h
        · cases h
        · dsimp only at h
          split at h
          · rename_i p2 hw
            exact (g1.trans (GoodM.of_same (sm_miniWriteAt hw))).trans (ih h)
          · cases h
          · cases h
          · cases h
      · cases h
      · cases h
      · cases h

theorem gm_miniChainGrow (fuel : Nat) : ∀ {p p' : P} {ids ids' : List Nat} {target : Nat},
    miniChainGrow fuel p ids target = .ok (p', ids') → GoodM p p' := by
  induction fuel with
  | zero => intro p p' ids ids' target h; simp [miniChainGrow] at h
  | succ fuel ih =>
    intro p p' ids ids' target h
    unfold miniChainGrow at h
    split at h
    · cases h; exact GoodM.refl _
    · split at h
      · rename_i p1 ids1 hg
        split at h
        · rename_i p2 hw
          exact ((gm_growOneMini hg).trans (GoodM.of_same (sm_miniWriteAt hw))).trans (ih h)
        · cases h
        · cases h
        · cases h
      · cases h
      · cases h
      · cases h

theorem gm_miniChainSetLen {p p' : P} {ids ids' : List Nat} {n : Nat}
    (h : miniChainSetLen p ids n = .ok (p', ids')) : GoodM p p' := by
  unfold miniChainSetLen at h
  dsimp only at h
  split at h
  · split at h
    · obtain ⟨q, hf, h⟩ := obind_ok h
      cases h; exact gm_freeMiniChain _ hf
    · cases h; exact GoodM.refl _
  · split at h
    · split at h
      · split at h
        · obtain ⟨q, hf, h⟩ := obind_ok h
          cases h; exact gm_freeMiniChainAfter hf
        · cases h
      · cases h; exact GoodM.refl _
    · exact gm_miniChainGrow _ h

end CfbVerif.Phys

namespace CfbVerif.Phys
open CfbVerif.Raw CfbVerif.Dir

/-! ## streams, the directory chain, the API -/

theorem gm_writeData {p p' : P} {slot oldLen off n : Nat} {buf : Bytes}
    (h : writeData p slot oldLen off buf = .ok (p', n)) : GoodM p p' := by
  unfold writeData at h
  dsimp only [bind, pure] at h
  split at h
  · split at h
    · cases h
    · split at h
      · obtain ⟨⟨q, ids⟩, hw, h⟩ := obind_ok h
        cases h
        exact (gm_miniChainWrite _ hw).trans (GoodM.of_same ⟨rfl, rfl⟩)
      · obtain ⟨⟨q, ids⟩, hw, h⟩ := obind_ok h
        cases h
        exact (GoodM.of_same (sm_chainWrite _ _ hw)).trans (GoodM.of_same ⟨rfl, rfl⟩)
  · split at h
    · split at h
      · obtain ⟨ids, hi, h⟩ := obind_ok h
        split at h
        · cases h
        · obtain ⟨⟨q, ids'⟩, hw, h⟩ := obind_ok h
          cases h
          exact gm_miniChainWrite _ hw
      · obtain ⟨ids, hi, h⟩ := obind_ok h
        obtain ⟨tmp, hr, h⟩ := obind_ok h
        obtain ⟨q1, hf, h⟩ := obind_ok h
        obtain ⟨⟨q2, ids1⟩, hw1, h⟩ := obind_ok h
        obtain ⟨⟨q3, ids2⟩, hw2, h⟩ := obind_ok h
        cases h
        exact (((gm_freeMiniChain _ hf).trans (GoodM.of_same (sm_chainWrite _ _ hw1))).trans (GoodM.of_same (sm_chainWrite _ _ hw2))).trans
          (GoodM.of_same ⟨rfl, rfl⟩)
    · obtain ⟨ids, hi, h⟩ := obind_ok h
      split at h
      · cases h
      · obtain ⟨⟨q, ids'⟩, hw, h⟩ := obind_ok h
        cases h
        exact GoodM.of_same (sm_chainWrite _ _ hw)

theorem gm_resize {p p' : P} {slot oldLen newLen : Nat} (h : resize p slot oldLen newLen = .ok p') : GoodM p p' := by
  unfold resize at h
  dsimp only [bind, pure] at h
  split at h
  · split at h
    · cases h
    · split at h
      · obtain ⟨⟨q, ids⟩, hw, h⟩ := obind_ok h
        cases h
        exact (gm_miniChainSetLen hw).trans (GoodM.of_same ⟨rfl, rfl⟩)
      · obtain ⟨⟨q, ids⟩, hw, h⟩ := obind_ok h
        cases h
        exact (GoodM.of_same (sm_chainSetLen hw)).trans (GoodM.of_same ⟨rfl, rfl⟩)
  · split at h
    · split at h
      · obtain ⟨q, hf, h⟩ := obind_ok h
        cases h
        exact (gm_freeMiniChain _ hf).trans (GoodM.of_same ⟨rfl, rfl⟩)
      · split at h
        · obtain ⟨ids, hi, h⟩ := obind_ok h
          obtain ⟨⟨q, ids'⟩, hs, h⟩ := obind_ok h
          split at h
          · split at h
            · cases h
            · obtain ⟨⟨q2, ids2⟩, hw, h⟩ := obind_ok h
              cases h
              exact (gm_miniChainSetLen hs).trans (gm_miniChainWrite _ hw)
          · cases h; exact gm_miniChainSetLen hs
        · obtain ⟨ids, hi, h⟩ := obind_ok h
          obtain ⟨tmp, hr, h⟩ := obind_ok h
          obtain ⟨q1, hf, h⟩ := obind_ok h
          obtain ⟨⟨q2, ids1⟩, hw1, h⟩ := obind_ok h
          obtain ⟨⟨q3, ids2⟩, hs, h⟩ := obind_ok h
          cases h
          exact (((gm_freeMiniChain _ hf).trans (GoodM.of_same (sm_chainWrite _ _ hw1))).trans (GoodM.of_same (sm_chainSetLen hs))).trans
            (GoodM.of_same ⟨rfl, rfl⟩)
    · split at h
      · obtain ⟨q, hf, h⟩ := obind_ok h
        cases h
        exact (GoodM.of_same (sm_freeChain _ hf)).trans (GoodM.of_same ⟨rfl, rfl⟩)
      · split at h
        · obtain ⟨ids, hi, h⟩ := obind_ok h
          obtain ⟨tmp, hr, h⟩ := obind_ok h
          obtain ⟨q1, hf, h⟩ := obind_ok h
          obtain ⟨⟨q2, ids1⟩, hw, h⟩ := obind_ok h
          cases h
          exact ((GoodM.of_same (sm_freeChain _ hf)).trans (gm_miniChainWrite _ hw)).trans (GoodM.of_same ⟨rfl, rfl⟩)
        · obtain ⟨ids, hi, h⟩ := obind_ok h
          obtain ⟨⟨q, ids'⟩, hs, h⟩ := obind_ok h
          split at h
          · split at h
            · cases h
            · obtain ⟨⟨q2, ids2⟩, hw, h⟩ := obind_ok h
              cases h
              exact (GoodM.of_same (sm_chainSetLen hs)).trans (GoodM.of_same (sm_chainWrite _ _ hw))
          · cases h; exact GoodM.of_same (sm_chainSetLen hs)

theorem gm_freeStream {p p' : P} {slot len : Nat} (h : freeStream p slot len = .ok p') : GoodM p p' := by
  unfold freeStream at h
  dsimp only [bind, pure] at h
  split at h
  · obtain ⟨q, hf, h⟩ := obind_ok h
    cases h
    exact (gm_freeMiniChain _ hf).trans (GoodM.of_same ⟨rfl, rfl⟩)
  · obtain ⟨q, hf, h⟩ := obind_ok h
    cases h
    exact (GoodM.of_same (sm_freeChain _ hf)).trans (GoodM.of_same ⟨rfl, rfl⟩)

theorem gm_ensureDirSlot {p p' : P} {slot : Nat} (h : ensureDirSlot p slot = .ok p') : GoodM p p' := by
  unfold ensureDirSlot at h
  split at h
  · cases h; exact GoodM.refl _
  · split at h
    · split at h
      · rename_i he; cases h
        exact (GoodM.of_same (sm_extendChain he)).trans (GoodM.of_same ⟨rfl, rfl⟩)
      · cases h
      · cases h
      · cases h
    · cases h; exact GoodM.of_same ⟨rfl, rfl⟩

theorem gm_reopen {p p' : P} (h : Phys.reopen p = .ok p') : GoodM p p' := by
  unfold Phys.reopen at h
  obtain ⟨chain, hc, h⟩ := bind_ok h
  cases h
  intro _ i hi
  exact (mem_indicesOf.mp hi).1

theorem gm_applyLogPhys (slot : Nat) (log : List StoreOp) : ∀ {p p' : P} {len : Nat},
    applyLogPhys p slot len log = .ok p' → GoodM p p' := by
  induction log with
  | nil => intro p p' len h; simp only [applyLogPhys] at h; cases h; exact GoodM.refl _
  | cons op rest ih =>
    intro p p' len h
    cases op with
    | write off bs =>
      simp only [applyLogPhys] at h
      split at h
      · rename_i q len' hw
        exact (gm_writeData hw).trans (ih h)
      · cases h
      · cases h
      · cases h
    | resize n =>
      simp only [applyLogPhys] at h
      split at h
      · rename_i q hr
        exact (gm_resize hr).trans (ih h)
      · cases h
      · cases h
      · cases h

theorem gm_ensureSlots (slots : List Nat) : ∀ {p p' : P}, ensureSlots p slots = .ok p' → GoodM p p' := by
  induction slots with
  | nil => intro p p' h; simp only [ensureSlots] at h; cases h; exact GoodM.refl _
  | cons s rest ih =>
    intro p p' h
    simp only [ensureSlots] at h
    split at h
    · rename_i q he
      exact (gm_ensureDirSlot he).trans (ih h)
    · cases h
    · cases h
    · cases h

theorem gm_createStreamPhys {before after : SState} {p p' : P} {ch : List Names.Name} {r : Option Nat}
    (h : createStreamPhys before after p ch = .ok (p', r)) : GoodM p p' := by
  unfold createStreamPhys at h
  split at h
  · obtain ⟨q, hl, h⟩ := obind_ok h
    cases h
    exact gm_applyLogPhys _ _ hl
  · split at h
    · obtain ⟨q, he, h⟩ := obind_ok h
      cases h
      exact (gm_ensureSlots _ he).trans (GoodM.of_same ⟨rfl, rfl⟩)
    · cases h; exact GoodM.refl _

theorem gm_freeStreams (before : Tree) (infos : List Info) : ∀ {p p' : P}, freeStreams before p infos = .ok p' → GoodM p p' := by
  induction infos with
  | nil => intro p p' h; simp only [freeStreams] at h; cases h; exact GoodM.refl _
  | cons i rest ih =>
    intro p p' h
    simp only [freeStreams] at h
    split at h
    · split at h
      · split at h
        · rename_i q hf
          exact (gm_freeStream hf).trans (ih h)
        · cases h
        · cases h
        · cases h
      · exact ih h
    · exact ih h

theorem gm_dropAllPhys (s : SState) (hs : List HandleRec) : ∀ {p p' : P}, dropAllPhys s p hs = .ok p' → GoodM p p' := by
  induction hs with
  | nil => intro p p' h; simp only [dropAllPhys] at h; cases h; exact GoodM.refl _
  | cons r rest ih =>
    intro p p' h
    simp only [dropAllPhys] at h
    split at h
    · exact ih h
    · split at h
      · rename_i q hl
        exact (gm_applyLogPhys _ _ hl).trans (ih h)
      · cases h
      · cases h
      · cases h

theorem gm_handlePhys {s : SState} {p p' : P} {id : Nat} {log : Handle.H → Handle.Bytes → List StoreOp}
    (h : handlePhys s p id log = .ok p') : GoodM p p' := by
  unfold handlePhys at h
  split at h
  · cases h; exact GoodM.refl _
  · split at h
    · cases h; exact GoodM.refl _
    · exact gm_applyLogPhys _ _ h

theorem gm_physOf {before after : SState} {out : HOut} {p p' : P} {op : HOp}
    (h : physOf before after out p op = .ok p') : GoodM p p' := by
  unfold physOf at h
  split at h
  · exact gm_ensureSlots _ h
  · exact gm_ensureSlots _ h
  all_goals first
    | (split at h
       · obtain ⟨q, hc, h⟩ := obind_ok h
         cases h
         exact gm_createStreamPhys hc
       · obtain ⟨q, hc, h⟩ := obind_ok h
         cases h
         exact gm_createStreamPhys hc
       · cases h; exact GoodM.refl _)
    | (split at h
       · obtain ⟨⟨p1, slot?⟩, hc, h⟩ := obind_ok h
         dsimp only at h
         split at h
         · cases h; exact gm_createStreamPhys hc
         · exact (gm_createStreamPhys hc).trans (gm_applyLogPhys _ _ h)
       · cases h; exact GoodM.refl _)
    | (split at h
       · exact gm_freeStream h
       · cases h; exact GoodM.refl _)
    | (split at h
       · exact gm_freeStreams _ _ h
       · cases h; exact GoodM.refl _)
    | (obtain ⟨q, hd, h⟩ := obind_ok h
       exact (gm_dropAllPhys _ _ hd).trans (gm_reopen h))
    | exact gm_handlePhys h
    | (cases h; exact GoodM.refl _)

theorem gm_pstep (ps : PState) (op : HOp) : GoodM ps.p (pstep ps op).1.p := by
  unfold pstep
  generalize hstep ps.s op = r
  obtain ⟨s', out⟩ := r
  cases out with
  | noHandle => exact GoodM.refl _
  | base o =>
    dsimp only
    split
    · rename_i p' hp; exact gm_physOf hp
    · exact GoodM.refl _
    · exact GoodM.refl _
    · exact GoodM.refl _

theorem gm_prun (ops : List HOp) : ∀ ps : PState, GoodM ps.p (prun ps ops).p := by
  induction ops with
  | nil => intro ps; exact GoodM.refl _
  | cons op ops ih => intro ps; exact (gm_pstep ps op).trans (ih _)

/-- **after every history of API calls the mini free list lies inside the MiniFAT** -/
theorem miniRange_reachable (v4 : Bool) (maxBuf : Nat) (ops : List HOp) :
    MiniRange (prun (PState.create v4 maxBuf) ops).p :=
  gm_prun ops _ (by intro i hi; simp [PState.create, Phys.create] at hi)

end CfbVerif.Phys
