import CfbVerif.Phys.Marks
/-!
# Every sector of the model has exactly the sector size

`SS p`: every entry of `p.sectors` is `p.S` bytes long.  New sectors are created with that size,
and every write into a sector stays inside it (`Chain::write` and `MiniChain::write` never cross a
(mini) sector boundary), so the size never changes — after every API history (`ss_reachable`).
Consequences: reads return as many bytes as were asked for, and the rendered file is a whole number
of sectors long.
-/
namespace CfbVerif.Phys
open CfbVerif.Raw CfbVerif.Dir

theorem S_of_v4 {p p' : P} (h : p'.v4 = p.v4) : p'.S = p.S := by unfold P.S; rw [h]

theorem S_cases (p : P) : p.S = 512 ∨ p.S = 4096 := by
  unfold P.S sectorLenOf
  cases p.v4 <;> simp <;> decide


def SS (p : P) : Prop := ∀ (i : Nat) (sec : ByteArray), p.sectors[i]? = some sec → sec.size = p.S

/-- the FAT fits into the FAT sectors the DIFAT lists -/
def Cap (p : P) : Prop := p.fat.size ≤ p.difat.length * p.epsec

structure GS (p p' : P) : Prop where
  v4 : p'.v4 = p.v4
  ss : SS p → SS p'
  cap : Cap p → Cap p'

theorem GS.refl (p : P) : GS p p := ⟨rfl, fun h => h, fun h => h⟩
theorem GS.trans {p q r : P} (h1 : GS p q) (h2 : GS q r) : GS p r :=
  ⟨h2.v4.trans h1.v4, fun h => h2.ss (h1.ss h), fun h => h2.cap (h1.cap h)⟩

/-- sectors, version, the FAT's size and the DIFAT untouched -/
def SameSecs (p q : P) : Prop := q.sectors = p.sectors ∧ q.v4 = p.v4 ∧ q.fat.size = p.fat.size ∧ q.difat = p.difat

theorem epsec_of_v4 {p p' : P} (h : p'.v4 = p.v4) : p'.epsec = p.epsec := by unfold P.epsec; rw [S_of_v4 h]

theorem GS.of_same {p q : P} (h : SameSecs p q) : GS p q :=
  ⟨h.2.1, fun s i sec hi => by rw [S_of_v4 h.2.1]; exact s i sec (by rw [← h.1]; exact hi),
    fun c => by unfold Cap; rw [h.2.2.1, h.2.2.2, epsec_of_v4 h.2.1]; exact c⟩

theorem size_copySlice_within (src dest : ByteArray) (destOff len : Nat) (hs : len = src.size)
    (h : destOff + len ≤ dest.size) : (src.copySlice 0 dest destOff len).size = dest.size := by
  simp only [ByteArray.copySlice, ByteArray.size]
  simp only [Array.size_append, Array.size_extract]
  have : src.data.size = src.size := rfl
  have : dest.data.size = dest.size := rfl
  omega

theorem size_zeroSector (n : Nat) : (zeroSector n).size = n := by
  simp [zeroSector, ByteArray.size]

theorem ss_set {p : P} {id : Nat} {sec : ByteArray} (s : SS p) (h : sec.size = p.S) :
    SS { p with sectors := p.sectors.setIfInBounds id sec } := by
  intro i x hi
  have hi' : (p.sectors.setIfInBounds id sec)[i]? = some x := hi
  simp only [Array.getElem?_setIfInBounds] at hi'
  split at hi'
  · split at hi'
    · cases hi'; exact h
    · cases hi'
  · exact s i x hi'

theorem gs_initSector {p p' : P} {id : Nat} {k : Init} (h : initSector p id k = .ok p') : GS p p' := by
  rcases initSector_ok h with ⟨_, he⟩ | ⟨_, he⟩
  · subst he
    refine ⟨rfl, ?_, fun c => c⟩
    intro s i x hi
    have hi' : (p.sectors.push (zeroSector p.S))[i]? = some x := hi
    simp only [Array.getElem?_push] at hi'
    split at hi'
    · cases hi'; exact size_zeroSector _
    · exact s i x hi'
  · subst he
    exact ⟨rfl, fun s => ss_set s (size_zeroSector _), fun c => c⟩

/-- a write that stays inside the sector -/
theorem gs_writeSector {p p' : P} {id off : Nat} {bs : Bytes} (h : writeSector p id off bs = .ok p')
    (hin : off + bs.length ≤ p.S) : GS p p' := by
  unfold writeSector at h
  split at h
  · cases h
  · rename_i sec hsec
    cases h
    refine ⟨rfl, ?_, fun c => c⟩
    intro s
    refine ss_set s ?_
    have hs := s id sec hsec
    exact (size_copySlice_within _ _ _ _ (by simp [ByteArray.size]) (by rw [hs]; exact hin)).trans hs

/-- `set_fat` looks the FAT sector of the cell up in the DIFAT first -/
theorem setFat_guard {p p' : P} {i v : Nat} (h : setFat p i v = .ok p') : i < p.difat.length * p.epsec := by
  unfold setFat at h
  split at h
  · cases h
  · rename_i x hx
    have hlt : i / p.epsec < p.difat.length := by
      rcases Nat.lt_or_ge (i / p.epsec) p.difat.length with hc | hc
      · exact hc
      · rw [List.getElem?_eq_none hc] at hx; cases hx
    have hpos : 0 < p.epsec := by
      unfold P.epsec
      rcases S_cases p with hS | hS <;> rw [hS] <;> decide
    exact (Nat.div_lt_iff_lt_mul hpos).mp hlt

theorem gs_setFat {p p' : P} {i v : Nat} (h : setFat p i v = .ok p') : GS p p' := by
  have hg := setFat_guard h
  rcases setFat_ok h with ⟨hi, he⟩ | ⟨hi, he⟩
  · subst he
    refine ⟨rfl, fun s => s, ?_⟩
    intro _
    show (p.fat.push v).size ≤ p.difat.length * p.epsec
    simp only [Array.size_push]
    omega
  · subst he
    refine ⟨rfl, fun s => s, ?_⟩
    intro c
    show (p.fat.setIfInBounds i v).size ≤ p.difat.length * p.epsec
    have c' : p.fat.size ≤ p.difat.length * p.epsec := c
    simpa using c'

/-- one more DIFAT entry -/
theorem gs_growDifat (p : P) (x : Nat) : GS p { p with difat := p.difat ++ [x] } := by
  refine ⟨rfl, fun s => s, ?_⟩
  intro c
  show p.fat.size ≤ (p.difat ++ [x]).length * p.epsec
  have : (p.difat ++ [x]).length = p.difat.length + 1 := by simp
  rw [this, Nat.add_mul]
  exact Nat.le_trans c (Nat.le_add_right _ _)

theorem gs_appendFatSector {p p' : P} (h : appendFatSector p = .ok p') : GS p p' := by
  unfold appendFatSector at h
  obtain ⟨p1, h1, h⟩ := bind_ok h
  obtain ⟨p2, h2, h⟩ := bind_ok h
  have s12 : GS p p2 := (gs_initSector h1).trans ((gs_growDifat p1 p.fat.size).trans (gs_setFat h2))
  split at h
  · cases h; exact s12
  · dsimp only at h
    split at h
    · obtain ⟨p3, h3, h⟩ := bind_ok h
      obtain ⟨p4, h4, h⟩ := bind_ok h
      cases h
      exact ((s12.trans (gs_initSector h3)).trans (gs_setFat h4)).trans (GS.of_same ⟨rfl, rfl, rfl, rfl⟩)
    · cases h; exact s12

theorem gs_allocateSector {p p' : P} {id : Nat} {k : Init} (h : allocateSector p k = .ok (p', id)) : GS p p' := by
  unfold allocateSector at h
  split at h
  · obtain ⟨p1, h1, h⟩ := bind_ok h
    obtain ⟨p2, h2, h⟩ := bind_ok h
    cases h
    exact ((GS.of_same (⟨rfl, rfl, rfl, rfl⟩ : SameSecs p { p with free := p.free.dropLast })).trans (gs_setFat h1)).trans (gs_initSector h2)
  · split at h
    · obtain ⟨p0, h0, h⟩ := bind_ok h
      obtain ⟨p1, h1, h⟩ := bind_ok h
      obtain ⟨p2, h2, h⟩ := bind_ok h
      cases h
      exact ((gs_appendFatSector h0).trans (gs_setFat h1)).trans (gs_initSector h2)
    · obtain ⟨p0, h0, h⟩ := bind_ok h
      cases h0
      obtain ⟨p1, h1, h⟩ := bind_ok h
      obtain ⟨p2, h2, h⟩ := bind_ok h
      cases h
      exact (gs_setFat h1).trans (gs_initSector h2)

theorem gs_extendChain {p p' : P} {start id : Nat} {k : Init} (h : extendChain p start k = .ok (p', id)) : GS p p' := by
  unfold extendChain at h
  obtain ⟨last, hl, h⟩ := bind_ok h
  obtain ⟨⟨p1, id1⟩, ha, h⟩ := bind_ok h
  obtain ⟨p2, hs, h⟩ := bind_ok h
  cases h
  exact (gs_allocateSector ha).trans (gs_setFat hs)

theorem gs_freeChain (fuel : Nat) : ∀ {p p' : P} {cur : Nat}, freeChain p fuel cur = .ok p' → GS p p' := by
  induction fuel with
  | zero => intro p p' cur h; simp [freeChain] at h
  | succ fuel ih =>
    intro p p' cur h
    unfold freeChain at h
    split at h
    · cases h; exact GS.refl _
    · cases hn : nextSector p.fat cur with
      | error k => simp [hn] at h
      | ok next =>
        simp only [hn] at h
        split at h
        · cases h
        · cases h1 : setFat p cur FREE with
          | err e => simp [h1] at h
          | panic s => simp [h1] at h
          | hang s => simp [h1] at h
          | ok p1 =>
            simp only [h1] at h
            exact ((gs_setFat h1).trans (GS.of_same (⟨rfl, rfl, rfl, rfl⟩ : SameSecs p1 { p1 with free := p1.free ++ [cur] }))).trans (ih h)

theorem gs_freeChainFrom {p p' : P} {start : Nat} (h : freeChainFrom p start = .ok p') : GS p p' := gs_freeChain _ h

theorem gs_freeChainAfter {p p' : P} {id : Nat} (h : freeChainAfter p id = .ok p') : GS p p' := by
  unfold freeChainAfter at h
  cases hn : nextSector p.fat id with
  | error k => simp [hn] at h
  | ok next =>
    simp only [hn] at h
    obtain ⟨p1, h1, h⟩ := bind_ok h
    exact (gs_setFat h1).trans (gs_freeChain _ h)

end CfbVerif.Phys

/-! ## everything above composes these -/
namespace CfbVerif.Phys
open CfbVerif.Raw CfbVerif.Dir

theorem ssm_setMiniFat {p p' : P} {i v : Nat} (h : setMiniFat p i v = .ok p') : SameSecs p p' := by
  have := (setMiniFat_ok h).1
  rw [this]; exact ⟨rfl, rfl, rfl, rfl⟩

theorem ssm_popFreeMini {p p1 : P} {fuel : Nat} {r : Option Nat} (h : popFreeMini p fuel = .ok (p1, r)) : SameSecs p p1 := by
  have := (popFreeMini_ok fuel h).1
  rw [this]; exact ⟨rfl, rfl, rfl, rfl⟩

theorem SameSecs.trans {p q r : P} (h1 : SameSecs p q) (h2 : SameSecs q r) : SameSecs p r :=
  ⟨h2.1.trans h1.1, h2.2.1.trans h1.2.1, h2.2.2.1.trans h1.2.2.1, h2.2.2.2.trans h1.2.2.2⟩

theorem ssm_freeMiniSector {p p' : P} {id : Nat} (h : freeMiniSector p id = .ok p') : SameSecs p p' := by
  unfold freeMiniSector at h
  split at h
  · cases h
  · split at h
    · cases h
    · obtain ⟨p1, hs, h⟩ := bind_ok h
      cases h
      have := ssm_setMiniFat hs
      exact ⟨this.1, this.2⟩

theorem ssm_freeMiniChain (fuel : Nat) : ∀ {p p' : P} {cur : Nat}, freeMiniChain p fuel cur = .ok p' → SameSecs p p' := by
  induction fuel with
  | zero => intro p p' cur h; simp [freeMiniChain] at h
  | succ fuel ih =>
    intro p p' cur h
    unfold freeMiniChain at h
    split at h
    · cases h; exact ⟨rfl, rfl, rfl, rfl⟩
    · split at h
      · cases h
      · split at h
        · rename_i p1 hf
          exact (ssm_freeMiniSector hf).trans (ih h)
        · cases h
        · cases h
        · cases h

theorem ssm_freeMiniChainAfter {p p' : P} {id : Nat} (h : freeMiniChainAfter p id = .ok p') : SameSecs p p' := by
  unfold freeMiniChainAfter at h
  split at h
  · cases h
  · obtain ⟨p1, hs, h⟩ := bind_ok h
    exact (ssm_setMiniFat hs).trans (ssm_freeMiniChain _ h)

theorem ssm_setStart (p : P) (slot start : Nat) : SameSecs p (setStart p slot start) := ⟨rfl, rfl, rfl, rfl⟩
theorem ssm_dropStart (p : P) (slot : Nat) : SameSecs p (dropStart p slot) := ⟨rfl, rfl, rfl, rfl⟩

/-- a write inside one mini sector stays inside the sector that holds it -/
theorem gs_miniWriteAt {p p' : P} {m off : Nat} {bs : Bytes} (h : miniWriteAt p m off bs = .ok p')
    (hin : off + bs.length ≤ MINI) : GS p p' := by
  unfold miniWriteAt at h
  obtain ⟨⟨sid, base⟩, hl, h⟩ := bind_ok h
  refine gs_writeSector h ?_
  unfold locateMini at hl
  obtain ⟨root, hr, hl⟩ := bind_ok hl
  dsimp only at hl
  split at hl
  · cases hl
  · cases hl
    have hM : MINI = 64 := rfl
    rw [hM] at hin ⊢
    rcases S_cases p with hS | hS <;> rw [hS] <;> omega

theorem gs_reopen {p p' : P} (h : Phys.reopen p = .ok p') : GS p p' := by
  unfold Phys.reopen at h
  obtain ⟨chain, hc, h⟩ := bind_ok h
  cases h
  exact GS.of_same ⟨rfl, rfl, rfl, rfl⟩

theorem gs_growOne {kind : Init} {p p' : P} {ids ids' : List Nat} (h : growOne kind p ids = .ok (p', ids')) : GS p p' := by
  unfold growOne at h
  split at h
  · split at h
    · rename_i he; cases h; exact gs_extendChain he
    · cases h
    · cases h
    · cases h
  · split at h
    · rename_i he; cases h; exact gs_allocateSector he
    · cases h
    · cases h
    · cases h

theorem gs_chainWrite (kind : Init) (fuel : Nat) : ∀ {p p' : P} {ids ids' : List Nat} {off : Nat} {bs : Bytes},
    chainWrite kind fuel p ids off bs = .ok (p', ids') → GS p p' := by
  induction fuel with
  | zero => intro p p' ids ids' off bs h; simp [chainWrite] at h
  | succ fuel ih =>
    intro p p' ids ids' off bs h
    unfold chainWrite at h
    split at h
    · cases h; exact GS.refl _
    · dsimp only at h
      split at h
      · rename_i p1 ids1 hgrow
        have g1 : GS p p1 := by
          split at hgrow
          · exact gs_growOne hgrow
          · cases hgrow; exact GS.refl _
        split at h
        · cases h
        · split at h
          · rename_i p2 hw
            have hin : off % p.S + (bs.take (min bs.length (p.S - off % p.S))).length ≤ p1.S := by
              rw [S_of_v4 g1.v4]
              have := Nat.mod_lt off (S_pos p)
              simp only [List.length_take]
              omega
            exact (g1.trans (gs_writeSector hw hin)).trans (ih h)
          · cases h
          · cases h
          · cases h
      · cases h
      · cases h
      · cases h

theorem gs_chainGrow (kind : Init) (fuel : Nat) : ∀ {p p' : P} {ids ids' : List Nat} {target : Nat},
    chainGrow kind fuel p ids target = .ok (p', ids') → GS p p' := by
  induction fuel with
  | zero => intro p p' ids ids' target h; simp [chainGrow] at h
  | succ fuel ih =>
    intro p p' ids ids' target h
    unfold chainGrow at h
    split at h
    · cases h; exact GS.refl _
    · split at h
      · rename_i p1 ids1 hg
        exact (gs_growOne hg).trans (ih h)
      · cases h
      · cases h
      · cases h

theorem gs_chainSetLen {p p' : P} {ids ids' : List Nat} {kind : Init} {n : Nat}
    (h : chainSetLen p ids kind n = .ok (p', ids')) : GS p p' := by
  unfold chainSetLen at h
  dsimp only at h
  split at h
  · split at h
    · obtain ⟨q, hf, h⟩ := obind_ok h
      cases h; exact gs_freeChainFrom hf
    · cases h; exact GS.refl _
  · split at h
    · split at h
      · split at h
        · obtain ⟨q, hf, h⟩ := obind_ok h
          cases h; exact gs_freeChainAfter hf
        · cases h
      · cases h; exact GS.refl _
    · exact gs_chainGrow _ _ h



theorem gs_ensureRootRoom {p p' : P} (h : ensureRootRoom p = .ok p') : GS p p' := by
  unfold ensureRootRoom at h
  split at h
  · split at h
    · rename_i ha; cases h
      exact (gs_allocateSector ha).trans (GS.of_same ⟨rfl, rfl, rfl, rfl⟩)
    · cases h
    · cases h
    · cases h
  · split at h
    · split at h
      · split at h
        · split at h
          · rename_i he; cases h; exact gs_extendChain he
          · cases h
          · cases h
          · cases h
        · cases h; exact GS.refl _
      · cases h
      · cases h
      · cases h
    · cases h; exact GS.refl _

theorem gs_appendMiniSector {p p' : P} (h : appendMiniSector p = .ok p') : GS p p' := by
  unfold appendMiniSector at h
  split at h
  · rename_i hr; cases h
    exact (gs_ensureRootRoom hr).trans (GS.of_same ⟨rfl, rfl, rfl, rfl⟩)
  · cases h
  · cases h
  · cases h

theorem gs_ensureMiniFatRoom {p p' : P} (h : ensureMiniFatRoom p = .ok p') : GS p p' := by
  unfold ensureMiniFatRoom at h
  dsimp only at h
  split at h
  · split at h
    · rename_i ha; cases h
      exact (gs_allocateSector ha).trans (GS.of_same ⟨rfl, rfl, rfl, rfl⟩)
    · cases h
    · cases h
    · cases h
  · split at h
    · split at h
      · split at h
        · split at h
          · rename_i he; cases h; exact gs_extendChain he
          · cases h
          · cases h
          · cases h
        · cases h; exact GS.refl _
      · cases h
      · cases h
      · cases h
    · cases h; exact GS.refl _

theorem gs_allocateMiniSector {p p' : P} {v id : Nat} (h : allocateMiniSector p v = .ok (p', id)) : GS p p' := by
  unfold allocateMiniSector at h
  obtain ⟨⟨p1, reuse⟩, hp, h⟩ := bind_ok h
  have g0 : GS p p1 := GS.of_same (ssm_popFreeMini hp)
  dsimp only at h
  split at h
  · obtain ⟨p2, hs, h⟩ := bind_ok h
    cases h
    exact g0.trans (GS.of_same (ssm_setMiniFat hs))
  · obtain ⟨p2, h2, h⟩ := bind_ok h
    obtain ⟨p3, h3, h⟩ := bind_ok h
    obtain ⟨p4, h4, h⟩ := bind_ok h
    cases h
    exact ((g0.trans (gs_ensureMiniFatRoom h2)).trans (gs_appendMiniSector h3)).trans (GS.of_same (ssm_setMiniFat h4))

theorem gs_extendMiniChain {p p' : P} {start id : Nat} (h : extendMiniChain p start = .ok (p', id)) : GS p p' := by
  unfold extendMiniChain at h
  obtain ⟨last, hl, h⟩ := bind_ok h
  obtain ⟨⟨p1, i1⟩, ha, h⟩ := bind_ok h
  obtain ⟨p2, hs, h⟩ := bind_ok h
  cases h
  exact (gs_allocateMiniSector ha).trans (GS.of_same (ssm_setMiniFat hs))

theorem gs_growOneMini {p p' : P} {ids ids' : List Nat} (h : growOneMini p ids = .ok (p', ids')) : GS p p' := by
  unfold growOneMini at h
  split at h
  · split at h
    · rename_i he; cases h; exact gs_extendMiniChain he
    · cases h
    · cases h
    · cases h
  · split at h
    · rename_i he; cases h; exact gs_allocateMiniSector he
    · cases h
    · cases h
    · cases h

theorem gs_miniChainWrite (fuel : Nat) : ∀ {p p' : P} {ids ids' : List Nat} {off : Nat} {bs : Bytes},
    miniChainWrite fuel p ids off bs = .ok (p', ids') → GS p p' := by
  induction fuel with
  | zero => intro p p' ids ids' off bs h; simp [miniChainWrite] at h
  | succ fuel ih =>
    intro p p' ids ids' off bs h
    unfold miniChainWrite at h
    split at h
    · cases h; exact GS.refl _
    · split at h
      · rename_i p1 ids1 hgrow
        have g1 : GS p p1 := by
          split at hgrow
          · exact gs_growOneMini hgrow
          · cases hgrow; exact GS.refl _
        split at h
        · cases h
        · dsimp only at h
          split at h
          · rename_i p2 hw
            have hin : off % MINI + (bs.take (min bs.length (MINI - off % MINI))).length ≤ MINI := by
              have : 0 < MINI := by decide
              have := Nat.mod_lt off this
              simp only [List.length_take]
              omega
            exact (g1.trans (gs_miniWriteAt hw hin)).trans (ih h)
          · cases h
          · cases h
          · cases h
      · cases h
      · cases h
      · cases h

theorem gs_miniChainGrow (fuel : Nat) : ∀ {p p' : P} {ids ids' : List Nat} {target : Nat},
    miniChainGrow fuel p ids target = .ok (p', ids') → GS p p' := by
  induction fuel with
  | zero => intro p p' ids ids' target h; simp [miniChainGrow] at h
  | succ fuel ih =>
    intro p p' ids ids' target h
    unfold miniChainGrow at h
    split at h
    · cases h; exact GS.refl _
    · split at h
      · rename_i p1 ids1 hg
        split at h
        · rename_i p2 hw
          exact ((gs_growOneMini hg).trans (gs_miniWriteAt hw (by simp))).trans (ih h)
        · cases h
        · cases h
        · cases h
      · cases h
      · cases h
      · cases h

theorem gs_miniChainSetLen {p p' : P} {ids ids' : List Nat} {n : Nat}
    (h : miniChainSetLen p ids n = .ok (p', ids')) : GS p p' := by
  unfold miniChainSetLen at h
  dsimp only at h
  split at h
  · split at h
    · obtain ⟨q, hf, h⟩ := obind_ok h
      cases h; exact GS.of_same (ssm_freeMiniChain _ hf)
    · cases h; exact GS.refl _
  · split at h
    · split at h
      · split at h
        · obtain ⟨q, hf, h⟩ := obind_ok h
          cases h; exact GS.of_same (ssm_freeMiniChainAfter hf)
        · cases h
      · cases h; exact GS.refl _
    · exact gs_miniChainGrow _ h



theorem gs_writeData {p p' : P} {slot oldLen off n : Nat} {buf : Bytes}
    (h : writeData p slot oldLen off buf = .ok (p', n)) : GS p p' := by
  unfold writeData at h
  dsimp only [bind, pure] at h
  split at h
  · split at h
    · cases h
    · split at h
      · obtain ⟨⟨q, ids⟩, hw, h⟩ := obind_ok h
        cases h
        exact (gs_miniChainWrite _ hw).trans (GS.of_same (ssm_setStart _ _ _))
      · obtain ⟨⟨q, ids⟩, hw, h⟩ := obind_ok h
        cases h
        exact (gs_chainWrite _ _ hw).trans (GS.of_same (ssm_setStart _ _ _))
  · split at h
    · split at h
      · obtain ⟨ids, hi, h⟩ := obind_ok h
        split at h
        · cases h
        · obtain ⟨⟨q, ids'⟩, hw, h⟩ := obind_ok h
          cases h
          exact gs_miniChainWrite _ hw
      · obtain ⟨ids, hi, h⟩ := obind_ok h
        obtain ⟨tmp, hr, h⟩ := obind_ok h
        obtain ⟨q1, hf, h⟩ := obind_ok h
        obtain ⟨⟨q2, ids1⟩, hw1, h⟩ := obind_ok h
        obtain ⟨⟨q3, ids2⟩, hw2, h⟩ := obind_ok h
        cases h
        exact (((GS.of_same (ssm_freeMiniChain _ hf)).trans (gs_chainWrite _ _ hw1)).trans (gs_chainWrite _ _ hw2)).trans
          (GS.of_same (ssm_setStart _ _ _))
    · obtain ⟨ids, hi, h⟩ := obind_ok h
      split at h
      · cases h
      · obtain ⟨⟨q, ids'⟩, hw, h⟩ := obind_ok h
        cases h
        exact gs_chainWrite _ _ hw


theorem gs_resize {p p' : P} {slot oldLen newLen : Nat} (h : resize p slot oldLen newLen = .ok p') : GS p p' := by
  unfold resize at h
  dsimp only [bind, pure] at h
  split at h
  · split at h
    · cases h
    · split at h
      · obtain ⟨⟨q, ids⟩, hw, h⟩ := obind_ok h
        cases h
        exact (gs_miniChainSetLen hw).trans (GS.of_same (ssm_setStart _ _ _))
      · obtain ⟨⟨q, ids⟩, hw, h⟩ := obind_ok h
        cases h
        exact (gs_chainSetLen hw).trans (GS.of_same (ssm_setStart _ _ _))
  · split at h
    · split at h
      · obtain ⟨q, hf, h⟩ := obind_ok h
        cases h
        exact (GS.of_same (ssm_freeMiniChain _ hf)).trans (GS.of_same (ssm_setStart _ _ _))
      · split at h
        · obtain ⟨ids, hi, h⟩ := obind_ok h
          obtain ⟨⟨q, ids'⟩, hs, h⟩ := obind_ok h
          split at h
          · split at h
            · cases h
            · obtain ⟨⟨q2, ids2⟩, hw, h⟩ := obind_ok h
              cases h
              exact (gs_miniChainSetLen hs).trans (gs_miniChainWrite _ hw)
          · cases h; exact gs_miniChainSetLen hs
        · obtain ⟨ids, hi, h⟩ := obind_ok h
          obtain ⟨tmp, hr, h⟩ := obind_ok h
          obtain ⟨q1, hf, h⟩ := obind_ok h
          obtain ⟨⟨q2, ids1⟩, hw1, h⟩ := obind_ok h
          obtain ⟨⟨q3, ids2⟩, hs, h⟩ := obind_ok h
          cases h
          exact (((GS.of_same (ssm_freeMiniChain _ hf)).trans (gs_chainWrite _ _ hw1)).trans (gs_chainSetLen hs)).trans
            (GS.of_same (ssm_setStart _ _ _))
    · split at h
      · obtain ⟨q, hf, h⟩ := obind_ok h
        cases h
        exact (gs_freeChainFrom hf).trans (GS.of_same (ssm_setStart _ _ _))
      · split at h
        · obtain ⟨ids, hi, h⟩ := obind_ok h
          obtain ⟨tmp, hr, h⟩ := obind_ok h
          obtain ⟨q1, hf, h⟩ := obind_ok h
          obtain ⟨⟨q2, ids1⟩, hw, h⟩ := obind_ok h
          cases h
          exact ((gs_freeChainFrom hf).trans (gs_miniChainWrite _ hw)).trans (GS.of_same (ssm_setStart _ _ _))
        · obtain ⟨ids, hi, h⟩ := obind_ok h
          obtain ⟨⟨q, ids'⟩, hs, h⟩ := obind_ok h
          split at h
          · split at h
            · cases h
            · obtain ⟨⟨q2, ids2⟩, hw, h⟩ := obind_ok h
              cases h
              exact (gs_chainSetLen hs).trans (gs_chainWrite _ _ hw)
          · cases h; exact gs_chainSetLen hs

theorem gs_freeStream {p p' : P} {slot len : Nat} (h : freeStream p slot len = .ok p') : GS p p' := by
  unfold freeStream at h
  dsimp only [bind, pure] at h
  split at h
  · obtain ⟨q, hf, h⟩ := obind_ok h
    cases h
    exact (GS.of_same (ssm_freeMiniChain _ hf)).trans (GS.of_same (ssm_dropStart _ _))
  · obtain ⟨q, hf, h⟩ := obind_ok h
    cases h
    exact (gs_freeChainFrom hf).trans (GS.of_same (ssm_dropStart _ _))

theorem gs_ensureDirSlot {p p' : P} {slot : Nat} (h : ensureDirSlot p slot = .ok p') : GS p p' := by
  unfold ensureDirSlot at h
  split at h
  · cases h; exact GS.refl _
  · split at h
    · split at h
      · rename_i he; cases h
        exact (gs_extendChain he).trans (GS.of_same ⟨rfl, rfl, rfl, rfl⟩)
      · cases h
      · cases h
      · cases h
    · cases h; exact GS.of_same ⟨rfl, rfl, rfl, rfl⟩



theorem gs_applyLogPhys (slot : Nat) (log : List StoreOp) : ∀ {p p' : P} {len : Nat},
    applyLogPhys p slot len log = .ok p' → GS p p' := by
  induction log with
  | nil => intro p p' len h; simp only [applyLogPhys] at h; cases h; exact GS.refl _
  | cons op rest ih =>
    intro p p' len h
    cases op with
    | write off bs =>
      simp only [applyLogPhys] at h
      split at h
      · rename_i q len' hw
        exact (gs_writeData hw).trans (ih h)
      · cases h
      · cases h
      · cases h
    | resize n =>
      simp only [applyLogPhys] at h
      split at h
      · rename_i q hr
        exact (gs_resize hr).trans (ih h)
      · cases h
      · cases h
      · cases h

theorem gs_ensureSlots (slots : List Nat) : ∀ {p p' : P}, ensureSlots p slots = .ok p' → GS p p' := by
  induction slots with
  | nil => intro p p' h; simp only [ensureSlots] at h; cases h; exact GS.refl _
  | cons s rest ih =>
    intro p p' h
    simp only [ensureSlots] at h
    split at h
    · rename_i q he
      exact (gs_ensureDirSlot he).trans (ih h)
    · cases h
    · cases h
    · cases h

theorem gs_createStreamPhys {before after : SState} {p p' : P} {ch : List Names.Name} {r : Option Nat}
    (h : createStreamPhys before after p ch = .ok (p', r)) : GS p p' := by
  unfold createStreamPhys at h
  split at h
  · obtain ⟨q, hl, h⟩ := obind_ok h
    cases h
    exact gs_applyLogPhys _ _ hl
  · split at h
    · obtain ⟨q, he, h⟩ := obind_ok h
      cases h
      exact (gs_ensureSlots _ he).trans (GS.of_same (ssm_setStart _ _ _))
    · cases h; exact GS.refl _

theorem gs_freeStreams (before : Tree) (infos : List Info) : ∀ {p p' : P}, freeStreams before p infos = .ok p' → GS p p' := by
  induction infos with
  | nil => intro p p' h; simp only [freeStreams] at h; cases h; exact GS.refl _
  | cons i rest ih =>
    intro p p' h
    simp only [freeStreams] at h
    split at h
    · split at h
      · split at h
        · rename_i q hf
          exact (gs_freeStream hf).trans (ih h)
        · cases h
        · cases h
        · cases h
      · exact ih h
    · exact ih h

theorem gs_dropAllPhys (s : SState) (hs : List HandleRec) : ∀ {p p' : P}, dropAllPhys s p hs = .ok p' → GS p p' := by
  induction hs with
  | nil => intro p p' h; simp only [dropAllPhys] at h; cases h; exact GS.refl _
  | cons r rest ih =>
    intro p p' h
    simp only [dropAllPhys] at h
    split at h
    · exact ih h
    · split at h
      · rename_i q hl
        exact (gs_applyLogPhys _ _ hl).trans (ih h)
      · cases h
      · cases h
      · cases h

theorem gs_handlePhys {s : SState} {p p' : P} {id : Nat} {log : Handle.H → Handle.Bytes → List StoreOp}
    (h : handlePhys s p id log = .ok p') : GS p p' := by
  unfold handlePhys at h
  split at h
  · cases h; exact GS.refl _
  · split at h
    · cases h; exact GS.refl _
    · exact gs_applyLogPhys _ _ h

/-- every API call's allocation-level effect keeps the FAT at least as long and the invariant alive -/
theorem gs_physOf {before after : SState} {out : HOut} {p p' : P} {op : HOp}
    (h : physOf before after out p op = .ok p') : GS p p' := by
  unfold physOf at h
  split at h
  · exact gs_ensureSlots _ h
  · exact gs_ensureSlots _ h
  all_goals first
    | (split at h
       · obtain ⟨q, hc, h⟩ := obind_ok h
         cases h
         exact gs_createStreamPhys hc
       · obtain ⟨q, hc, h⟩ := obind_ok h
         cases h
         exact gs_createStreamPhys hc
       · cases h; exact GS.refl _)
    | (split at h
       · obtain ⟨⟨p1, slot?⟩, hc, h⟩ := obind_ok h
         dsimp only at h
         split at h
         · cases h; exact gs_createStreamPhys hc
         · exact (gs_createStreamPhys hc).trans (gs_applyLogPhys _ _ h)
       · cases h; exact GS.refl _)
    | (split at h
       · exact gs_freeStream h
       · cases h; exact GS.refl _)
    | (split at h
       · exact gs_freeStreams _ _ h
       · cases h; exact GS.refl _)
    | (obtain ⟨q, hd, h⟩ := obind_ok h
       exact (gs_dropAllPhys _ _ hd).trans (gs_reopen h))
    | exact gs_handlePhys h
    | (cases h; exact GS.refl _)

theorem gs_pstep (ps : PState) (op : HOp) : GS ps.p (pstep ps op).1.p := by
  unfold pstep
  generalize hstep ps.s op = r
  obtain ⟨s', out⟩ := r
  cases out with
  | noHandle => exact GS.refl _
  | base o =>
    dsimp only
    split
    · rename_i p' hp; exact gs_physOf hp
    · exact GS.refl _
    · exact GS.refl _
    · exact GS.refl _

theorem gs_prun (ops : List HOp) : ∀ ps : PState, GS ps.p (prun ps ops).p := by
  induction ops with
  | nil => intro ps; exact GS.refl _
  | cons op ops ih => intro ps; exact (gs_pstep ps op).trans (ih _)


theorem ss_create (v4 : Bool) : SS (Phys.create v4) := by
  intro i sec h
  have : (Phys.create v4).sectors = #[zeroSector (sectorLenOf v4), zeroSector (sectorLenOf v4)] := rfl
  rw [this] at h
  rcases i with _ | _ | i
  · simp at h; subst h; exact size_zeroSector _
  · simp at h; subst h; exact size_zeroSector _
  · simp at h

/-- **every sector has the sector size, after every history of API calls** -/
theorem ss_reachable (v4 : Bool) (maxBuf : Nat) (ops : List HOp) :
    SS (prun (PState.create v4 maxBuf) ops).p :=
  (gs_prun ops (PState.create v4 maxBuf)).ss (ss_create v4)

theorem cap_create (v4 : Bool) : Cap (Phys.create v4) := by
  unfold Cap P.epsec
  have h1 : (Phys.create v4).fat.size = 2 := rfl
  have h2 : (Phys.create v4).difat.length = 1 := rfl
  rw [h1, h2]
  rcases S_cases (Phys.create v4) with h | h <;> rw [h] <;> decide

/-- **the FAT fits into its FAT sectors, after every history of API calls** -/
theorem cap_reachable (v4 : Bool) (maxBuf : Nat) (ops : List HOp) :
    Cap (prun (PState.create v4 maxBuf) ops).p :=
  (gs_prun ops (PState.create v4 maxBuf)).cap (cap_create v4)

end CfbVerif.Phys
