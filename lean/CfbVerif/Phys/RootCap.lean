import CfbVerif.Phys.NoHangMini
/-!
# The mini stream's chain covers the mini stream

`RootI p`: the chain of the root entry (the FAT chain from the root's start sector, empty when that is
END) is long enough for the root entry's length, and that length is a multiple of the mini sector
size.  With `MiniFit.root` (the MiniFAT is no longer than the mini stream, `C02_minifit_reachable`)
this is the range premise of the mini-chain content theorems (`Phys/MiniContent.lean`,
`mini_in_root`): every cell of the in-memory MiniFAT names a mini sector whose 64 bytes lie in a
sector of the root chain.  The mini stream only ever grows (`appendMiniSector`, after
`ensureRootRoom` has made room — the arithmetic of its three cases is `rootk_appendMiniSector`), and
its chain never gets shorter: allocations and the growth of other chains leave it as it is and
nothing that is freed or cut lies on it (no sharing / no leak, `NC`).  The file is a port of
`Phys/MiniCap.lean` (the same argument for the MiniFAT chain) with the two container chains
exchanged.
-/
namespace CfbVerif.Phys
open CfbVerif.Raw

theorem MINI_eq' : MINI = 64 := rfl

/-- the mini stream's chain as a list -/
def RChain (p : P) (l : List Nat) : Prop :=
  (p.rootStart = END ∧ l = []) ∨ (p.rootStart ≠ END ∧ IsChain p.fat p.rootStart l)

def RootI (p : P) : Prop := ∃ l, RChain p l ∧ p.rootLen ≤ l.length * p.S ∧ p.rootLen % 64 = 0

/-- a mini-level step keeps `RootI`, given the FAT-level invariants before it -/
def RootK (p p' : P) : Prop :=
  p'.fat.size ≤ MAXREG + 1 → Inv p → ∀ Y, NC p.fat (cont p ++ Y) → RootI p → RootI p'

theorem RootK.refl (p : P) : RootK p p := fun _ _ _ _ c => c

theorem RootK.kk {p q r : P} (h1 : RootK p q) (k1 : KKC p q) (h2 : RootK q r) (g2 : Good q r) : RootK p r := by
  intro hb inv Y n c
  have hbq : q.fat.size ≤ MAXREG + 1 := Nat.le_trans g2.mono hb
  exact h2 hb (k1.k.good.inv inv (small_of_bound hbq)) Y (k1.k.keep hbq inv Y n) (h1 hbq inv Y n c)

theorem rs_mem_cont {p : P} (hne : p.rootStart ≠ END) : p.rootStart ∈ cont p := by
  unfold cont; exact List.mem_cons_of_mem _ (List.mem_append_right _ (hd1_mem hne))

/-- same FAT, same start, same sector size, same length -/
theorem rootk_same {p q : P} (hf : q.fat = p.fat) (hs : q.rootStart = p.rootStart) (hv : q.v4 = p.v4)
    (hm : q.rootLen = p.rootLen) : RootK p q := by
  intro _ _ _ _ ⟨l, ml, hc, h64⟩
  refine ⟨l, ?_, ?_, by rw [hm]; exact h64⟩
  · rcases ml with ⟨he, hl⟩ | ⟨hne, c⟩
    · exact Or.inl ⟨by rw [hs]; exact he, hl⟩
    · exact Or.inr ⟨by rw [hs]; exact hne, by rw [hs, hf]; exact c⟩
  · rw [S_of_v4 hv, hm]; exact hc

theorem rootk_setMiniFat {p p' : P} {i v : Nat} (h : setMiniFat p i v = .ok p') : RootK p p' :=
  rootk_same (same_setMiniFat h).1 (sf_setMiniFat h).2.2.1 (setMiniFat_v4 h) (rl0_setMiniFat h)

/-- the MiniFAT chain begins or grows: the mini stream's chain is another owner's -/
theorem rootk_ensureMiniFatRoom {p p' : P} (h : ensureMiniFatRoom p = .ok p') : RootK p p' := by
  have hrl : p'.rootLen = p.rootLen := rl0_ensureMiniFatRoom h
  unfold ensureMiniFatRoom at h
  dsimp only at h
  split at h
  · split at h
    · rename_i p1 id ha
      cases h
      intro hb inv Y n ⟨l, ml, hc, h64⟩
      have hs := (sf_allocateSector ha).2.2.1
      refine ⟨l, ?_, ?_, by rw [hrl]; exact h64⟩
      · rcases ml with ⟨he, hl⟩ | ⟨hne, c⟩
        · exact Or.inl ⟨by show p1.rootStart = END; rw [hs]; exact he, hl⟩
        · refine Or.inr ⟨by show p1.rootStart ≠ END; rw [hs]; exact hne, ?_⟩
          show IsChain p1.fat p1.rootStart l
          rw [hs]
          exact pres_allocateSector ha [] hb inv (cont p ++ Y) (by simpa using n) _
            (List.mem_append_left _ (rs_mem_cont hne)) l c
      · show p1.rootLen ≤ l.length * p1.S
        have : p1.rootLen = p.rootLen := hrl
        rw [this, S_of_v4 (allocateSector_v4 ha)]; exact hc
    · cases h
    · cases h
    · cases h
  · rename_i hmfs
    split at h
    · split at h
      · split at h
        · split at h
          · rename_i p1 id he; cases h
            intro hb inv Y n ⟨l, ml, hc, h64⟩
            have hs := (sf_extendChain he).2.2.1
            refine ⟨l, ?_, ?_, by rw [hrl]; exact h64⟩
            · rcases ml with ⟨he', hl⟩ | ⟨hne, c⟩
              · exact Or.inl ⟨by rw [hs]; exact he', hl⟩
              · refine Or.inr ⟨by rw [hs]; exact hne, ?_⟩
                rw [hs]
                -- the heads rearranged: the MiniFAT chain is the one worked on
                have hperm : (cont p ++ Y).Perm ([p.miniFatStart] ++ ((p.dirStart :: hd1 p.rootStart) ++ Y)) := by
                  have e : cont p ++ Y = [p.dirStart] ++ p.miniFatStart :: (hd1 p.rootStart ++ Y) := by
                    unfold cont hd1; rw [if_neg hmfs]; simp
                  rw [e]
                  exact List.perm_middle
                have n' := n.perm hperm
                obtain ⟨l0, c0, hs0⟩ := head_on_chain n' (List.mem_append_left _ (List.mem_singleton.mpr rfl))
                have hmem : p.rootStart ∈ (p.dirStart :: hd1 p.rootStart) ++ Y :=
                  List.mem_append_left _ (List.mem_cons_of_mem _ (hd1_mem hne))
                exact pres_extendChain he hb inv _ n' ⟨p.miniFatStart, List.mem_singleton.mpr rfl, l0, c0, hs0⟩ _ hmem l c
            · rw [hrl, S_of_v4 (extendChain_v4 he)]; exact hc
          · cases h
          · cases h
          · cases h
        · cases h; exact RootK.refl _
      · cases h
      · cases h
      · cases h
    · cases h; exact RootK.refl _

/-- what `ensureRootRoom` is for: afterwards the chain has room for one more mini sector -/
def RootRoom (p : P) : Prop := ∃ l, RChain p l ∧ p.rootLen + 64 ≤ l.length * p.S ∧ p.rootLen % 64 = 0

theorem S_mod_64 (p : P) : p.S % 64 = 0 := by
  rcases S_cases p with h | h <;> rw [h]

/-- a length that is a multiple of 64 and below a multiple `n * S` of the sector size leaves 64 bytes -/
theorem room_of_lt {S r n : Nat} (hS : S % 64 = 0) (h64 : r % 64 = 0) (hlt : r < n * S) : r + 64 ≤ n * S := by
  have : (n * S) % 64 = 0 := by
    rw [Nat.mul_mod, hS, Nat.mul_zero, Nat.zero_mod]
  omega

theorem roomk_ensureRootRoom {p p' : P} (h : ensureRootRoom p = .ok p') (hb : p'.fat.size ≤ MAXREG + 1) (inv : Inv p)
    (Y : List Nat) (n : NC p.fat (cont p ++ Y)) (c : RootI p) : RootRoom p' := by
  have hrl : p'.rootLen = p.rootLen := rl0_ensureRootRoom h
  obtain ⟨l, ml, hc, h64⟩ := c
  have hS := S_pos p
  unfold ensureRootRoom at h
  split at h
  · rename_i hend
    split at h
    · rename_i p1 id ha
      cases h
      have r := inv_allocateSector inv ha
      have n1 := nc_allocateSector inv ha hb n
      have hidreg : id ≤ MAXREG := n1.ns.head_reg (List.mem_cons_self ..)
      have hl : l = [] := by
        rcases ml with ⟨_, hl⟩ | ⟨hne, _⟩
        · exact hl
        · exact absurd hend hne
      subst hl
      have h0 : p.rootLen = 0 := by simpa using hc
      refine ⟨[id], Or.inr ⟨?_, IsChain.last r.2.1⟩, ?_, ?_⟩
      · show id ≠ END
        have := MAXREG_lt_END; omega
      · show p1.rootLen + 64 ≤ 1 * p1.S
        have e : p1.rootLen = p.rootLen := hrl
        rw [e, h0]
        rcases S_cases p1 with hs | hs <;> rw [hs] <;> decide
      · show p1.rootLen % 64 = 0
        have e : p1.rootLen = p.rootLen := hrl
        rw [e]; exact h64
    · cases h
    · cases h
    · cases h
  · rename_i hne
    have cl : IsChain p.fat p.rootStart l := by
      rcases ml with ⟨he', _⟩ | ⟨_, c⟩
      · exact absurd he' hne
      · exact c
    split at h
    · rename_i hmod
      split at h
      · rename_i chain hch
        split at h
        · rename_i hge
          split at h
          · rename_i p1 id he; cases h
            obtain ⟨t, et⟩ := cl.head
            have c' := extendChain_grows he hb inv n (List.mem_append_left _ (rs_mem_cont hne)) cl (by rw [et]; simp)
            have hs := (sf_extendChain he).2.2.1
            refine ⟨l ++ [id], Or.inr ⟨by rw [hs]; exact hne, by rw [hs]; exact c'⟩, ?_, by rw [hrl]; exact h64⟩
            rw [hrl, S_of_v4 (extendChain_v4 he), List.length_append]
            simp only [List.length_singleton]
            have e : (l.length + 1) * p.S = l.length * p.S + p.S := by rw [Nat.add_mul, Nat.one_mul]
            have h64S : 64 ≤ p.S := by rcases S_cases p with hs' | hs' <;> rw [hs'] <;> decide
            omega
          · cases h
          · cases h
          · cases h
        · rename_i hlt
          cases h
          -- the chain the code walked is the invariant's chain
          refine ⟨l, Or.inr ⟨hne, cl⟩, ?_, h64⟩
          have hlen : chain = l := by
            have := chainIds_of_isChain (p := p) (Nat.le_trans (Nat.le_refl _) hb) cl
            rw [hch] at this
            exact (Outcome.ok.inj this)
          rw [hlen] at hlt
          exact room_of_lt (S_mod_64 p) h64 (Nat.not_le.mp hlt)
      · cases h
      · cases h
      · cases h
    · rename_i hmod
      cases h
      refine ⟨l, Or.inr ⟨hne, cl⟩, ?_, h64⟩
      have hlt : p.rootLen < l.length * p.S := by
        rcases Nat.lt_or_ge p.rootLen (l.length * p.S) with h1 | h1
        · exact h1
        · have : p.rootLen = l.length * p.S := Nat.le_antisymm hc h1
          rw [this, Nat.mul_mod_left] at hmod
          exact absurd rfl hmod
      exact room_of_lt (S_mod_64 p) h64 hlt

theorem rootk_ensureRootRoom {p p' : P} (h : ensureRootRoom p = .ok p') : RootK p p' := by
  intro hb inv Y n c
  obtain ⟨l, ml, hc, h64⟩ := roomk_ensureRootRoom h hb inv Y n c
  exact ⟨l, ml, by omega, h64⟩

theorem rootk_appendMiniSector {p p' : P} (h : appendMiniSector p = .ok p') : RootK p p' := by
  unfold appendMiniSector at h
  split at h
  · rename_i q hr; cases h
    intro hb inv Y n c
    obtain ⟨l, ml, hc, h64⟩ := roomk_ensureRootRoom hr hb inv Y n c
    refine ⟨l, ml, ?_, ?_⟩
    · show q.rootLen + MINI ≤ l.length * q.S
      rw [MINI_eq']; exact hc
    · show (q.rootLen + MINI) % 64 = 0
      rw [MINI_eq']; omega
  · cases h
  · cases h
  · cases h

theorem rootk_popFreeMini {fuel : Nat} {p p1 : P} {r : Option Nat} (h : popFreeMini p fuel = .ok (p1, r)) : RootK p p1 :=
  rootk_same (same_popFreeMini h).1 (sf_popFreeMini h).2.2.1 (popFreeMini_v4 h) (rl0_popFreeMini h)

theorem rootk_allocateMiniSector {p p' : P} {v id : Nat} (h : allocateMiniSector p v = .ok (p', id)) : RootK p p' := by
  unfold allocateMiniSector at h
  obtain ⟨⟨p1, reuse⟩, hp, h⟩ := bind_ok h
  have k0 : KKC p p1 := KKC.of_same (same_popFreeMini hp) (sf_popFreeMini hp)
  have c0 := rootk_popFreeMini hp
  dsimp only at h
  split at h
  · obtain ⟨p2, hs, h⟩ := bind_ok h
    cases h
    exact c0.kk k0 (rootk_setMiniFat hs) (Good.of_same (same_setMiniFat hs))
  · obtain ⟨p2, h2, h⟩ := bind_ok h
    obtain ⟨p3, h3, h⟩ := bind_ok h
    obtain ⟨p4, h4, h⟩ := bind_ok h
    cases h
    have a := c0.kk k0 (rootk_ensureMiniFatRoom h2) (good_ensureMiniFatRoom h2)
    have b := a.kk (k0.trans (kkc_ensureMiniFatRoom h2)) (rootk_appendMiniSector h3) (good_appendMiniSector h3)
    exact b.kk ((k0.trans (kkc_ensureMiniFatRoom h2)).trans (kkc_appendMiniSector h3)) (rootk_setMiniFat h4)
      (Good.of_same (same_setMiniFat h4))

theorem rootk_extendMiniChain {p p' : P} {start id : Nat} (h : extendMiniChain p start = .ok (p', id)) : RootK p p' := by
  unfold extendMiniChain at h
  obtain ⟨last, hl, h⟩ := bind_ok h
  obtain ⟨⟨p1, i1⟩, ha, h⟩ := bind_ok h
  obtain ⟨p2, hs, h⟩ := bind_ok h
  cases h
  exact (rootk_allocateMiniSector ha).kk (kkc_allocateMiniSector ha) (rootk_setMiniFat hs) (Good.of_same (same_setMiniFat hs))

theorem rootk_growOneMini {p p' : P} {ids ids' : List Nat} (h : growOneMini p ids = .ok (p', ids')) : RootK p p' := by
  unfold growOneMini at h
  split at h
  · split at h
    · rename_i he; cases h; exact rootk_extendMiniChain he
    · cases h
    · cases h
    · cases h
  · split at h
    · rename_i he; cases h; exact rootk_allocateMiniSector he
    · cases h
    · cases h
    · cases h

theorem rootk_miniWriteAt {p p' : P} {m off : Nat} {bs : Bytes} (h : miniWriteAt p m off bs = .ok p') : RootK p p' :=
  rootk_same (same_miniWriteAt h).1 (kkc_miniWriteAt h |> fun _ => by
    unfold miniWriteAt at h
    obtain ⟨⟨sid, base⟩, hl, h⟩ := bind_ok h
    exact (sf_writeSector h).2.2.1) (miniWriteAt_v4 h) (rl0_miniWriteAt h)

theorem rootk_miniChainWrite (fuel : Nat) : ∀ {p p' : P} {ids ids' : List Nat} {off : Nat} {bs : Bytes},
    miniChainWrite fuel p ids off bs = .ok (p', ids') → RootK p p' := by
  induction fuel with
  | zero => intro p p' ids ids' off bs h; simp [miniChainWrite] at h
  | succ fuel ih =>
    intro p p' ids ids' off bs h
    unfold miniChainWrite at h
    split at h
    · cases h; exact RootK.refl _
    · split at h
      · rename_i p1 ids1 hgrow
        have g1 : RootK p p1 ∧ KKC p p1 := by
          split at hgrow
          · exact ⟨rootk_growOneMini hgrow, kkc_growOneMini hgrow⟩
          · cases hgrow; exact ⟨RootK.refl _, KKC.refl _⟩
        split at h
        · cases h
        · dsimp only at h
          split at h
          · rename_i p2 hw
            have s2 := same_miniWriteAt hw
            have a := g1.1.kk g1.2 (rootk_miniWriteAt hw) (Good.of_same s2)
            exact a.kk (g1.2.trans (kkc_miniWriteAt hw)) (ih h) (good_miniChainWrite _ h)
          · cases h
          · cases h
          · cases h
      · cases h
      · cases h
      · cases h

theorem rootk_miniChainGrow (fuel : Nat) : ∀ {p p' : P} {ids ids' : List Nat} {target : Nat},
    miniChainGrow fuel p ids target = .ok (p', ids') → RootK p p' := by
  induction fuel with
  | zero => intro p p' ids ids' target h; simp [miniChainGrow] at h
  | succ fuel ih =>
    intro p p' ids ids' target h
    unfold miniChainGrow at h
    split at h
    · cases h; exact RootK.refl _
    · split at h
      · rename_i p1 ids1 hg
        split at h
        · rename_i p2 hw
          have s2 := same_miniWriteAt hw
          have a := (rootk_growOneMini hg).kk (kkc_growOneMini hg) (rootk_miniWriteAt hw) (Good.of_same s2)
          exact a.kk ((kkc_growOneMini hg).trans (kkc_miniWriteAt hw)) (ih h) (good_miniChainGrow _ h)
        · cases h
        · cases h
        · cases h
      · cases h
      · cases h
      · cases h

end CfbVerif.Phys


/-! ## releases: neither the FAT nor the root entry is touched -/
namespace CfbVerif.Phys
open CfbVerif.Raw

/-- the root entry's length does not grow and stays a multiple of 64 (releases trim trailing free mini
sectors off the mini stream's length; its chain is kept) -/
def RLle (p q : P) : Prop := q.rootLen ≤ p.rootLen ∧ (p.rootLen % 64 = 0 → q.rootLen % 64 = 0)

theorem RLle.refl (p : P) : RLle p p := ⟨Nat.le_refl _, fun h => h⟩
theorem RLle.trans {p q r : P} (a : RLle p q) (b : RLle q r) : RLle p r :=
  ⟨Nat.le_trans b.1 a.1, fun h => b.2 (a.2 h)⟩
theorem RLle.of_eq {p q : P} (h : q.rootLen = p.rootLen) : RLle p q := ⟨Nat.le_of_eq h, fun h' => by rw [h]; exact h'⟩

/-- same FAT, same start, same sector size, a length that is not larger and still a multiple of 64 -/
theorem rootk_shrink {p q : P} (hf : q.fat = p.fat) (hs : q.rootStart = p.rootStart) (hv : q.v4 = p.v4)
    (hm : RLle p q) : RootK p q := by
  intro _ _ _ _ ⟨l, ml, hc, h64⟩
  refine ⟨l, ?_, ?_, hm.2 h64⟩
  · rcases ml with ⟨he, hl⟩ | ⟨hne, c⟩
    · exact Or.inl ⟨by rw [hs]; exact he, hl⟩
    · exact Or.inr ⟨by rw [hs]; exact hne, by rw [hs, hf]; exact c⟩
  · rw [S_of_v4 hv]; exact Nat.le_trans hm.1 hc

theorem trim_len : ∀ (fuel : Nat) (mf : Array Nat) (len : Nat),
    (trimMiniFat fuel mf len).2 ≤ len ∧ (len % 64 = 0 → (trimMiniFat fuel mf len).2 % 64 = 0) := by
  intro fuel
  induction fuel with
  | zero => intro mf len; exact ⟨Nat.le_refl _, fun h => h⟩
  | succ fuel ih =>
    intro mf len
    unfold trimMiniFat
    split
    · obtain ⟨a, b⟩ := ih mf.pop (len - MINI)
      rw [MINI_eq'] at a b ⊢
      exact ⟨by omega, fun h => b (by omega)⟩
    · exact ⟨Nat.le_refl _, fun h => h⟩

theorem rlle_freeMiniSector {p p' : P} {id : Nat} (h : freeMiniSector p id = .ok p') : RLle p p' := by
  unfold freeMiniSector at h
  split at h
  · cases h
  · split at h
    · cases h
    · obtain ⟨p1, hs, h⟩ := bind_ok h
      cases h
      have hr : p1.rootLen = p.rootLen := rl0_setMiniFat hs
      have t := trim_len (p1.miniFat.size + 1) p1.miniFat p1.rootLen
      unfold RLle
      rw [← hr]
      exact t

theorem rlle_freeMiniChain (fuel : Nat) : ∀ {p p' : P} {cur : Nat}, freeMiniChain p fuel cur = .ok p' → RLle p p' := by
  induction fuel with
  | zero => intro p p' cur h; simp [freeMiniChain] at h
  | succ fuel ih =>
    intro p p' cur h
    unfold freeMiniChain at h
    split at h
    · cases h; exact RLle.refl _
    · split at h
      · cases h
      · split at h
        · rename_i p1 h1
          exact (rlle_freeMiniSector h1).trans (ih h)
        · cases h
        · cases h
        · cases h

theorem rootk_freeMiniChain {fuel : Nat} {p p' : P} {cur : Nat} (h : freeMiniChain p fuel cur = .ok p') : RootK p p' :=
  rootk_shrink (same_freeMiniChain _ h).1 (sf_freeMiniChain _ h).2.2.1 (GS.of_same (ssm_freeMiniChain _ h)).v4
    (rlle_freeMiniChain _ h)

theorem rootk_freeMiniChainFrom {p p' : P} {start : Nat} (h : freeMiniChainFrom p start = .ok p') : RootK p p' :=
  rootk_freeMiniChain h

theorem rootk_freeMiniChainAfter {p p' : P} {id : Nat} (h : freeMiniChainAfter p id = .ok p') : RootK p p' := by
  have hv := (GS.of_same (ssm_freeMiniChainAfter h)).v4
  have hf := (same_freeMiniChainAfter h).1
  unfold freeMiniChainAfter at h
  split at h
  · cases h
  · rename_i next hn
    obtain ⟨p1, hs, h⟩ := bind_ok h
    exact rootk_shrink hf ((sf_setMiniFat hs).trans (sf_freeMiniChain _ h)).2.2.1 hv
      ((RLle.of_eq (rl0_setMiniFat hs)).trans (rlle_freeMiniChain _ h))

theorem rootk_miniChainSetLen {p p' : P} {ids ids' : List Nat} {n : Nat}
    (h : miniChainSetLen p ids n = .ok (p', ids')) : RootK p p' := by
  unfold miniChainSetLen at h
  dsimp only at h
  split at h
  · split at h
    · obtain ⟨q, hf, h⟩ := obind_ok h
      cases h; exact rootk_freeMiniChainFrom hf
    · cases h; exact RootK.refl _
  · split at h
    · split at h
      · split at h
        · obtain ⟨q, hf, h⟩ := obind_ok h
          cases h; exact rootk_freeMiniChainAfter hf
        · cases h
      · cases h; exact RootK.refl _
    · exact rootk_miniChainGrow _ h

end CfbVerif.Phys

/-! ## inside the store operations -/
namespace CfbVerif.Phys
open CfbVerif.Raw

/-- a mini-level step at a point where the container chains and the other owners' heads are known -/
theorem root_mini {q q' : P} {Y : List Nat} (ck : RootK q q') (a : At q [] (cont q ++ Y)) (hb : q'.fat.size ≤ MAXREG + 1)
    (c : RootI q) : RootI q' :=
  ck hb a.inv Y (by simpa [hdl] using a.nc) c

/-- a step on somebody else's regular chain: the mini stream's chain is among the preserved ones -/
theorem root_reg {q q' : P} {Y : List Nat} (pr : Pres q q' (cont q ++ Y)) (sf : SF q q') (hm : q'.rootLen = q.rootLen)
    (hv : q'.v4 = q.v4) (c : RootI q) : RootI q' := by
  obtain ⟨l, ml, hc⟩ := c
  refine ⟨l, ?_, by rw [hm, S_of_v4 hv]; exact hc⟩
  rcases ml with ⟨he, hl⟩ | ⟨hne, ch⟩
  · exact Or.inl ⟨by rw [sf.2.2.1]; exact he, hl⟩
  · exact Or.inr ⟨by rw [sf.2.2.1]; exact hne, by
      rw [sf.2.2.1]; exact pr _ (List.mem_append_left _ (rs_mem_cont hne)) l ch⟩

theorem rootI_setStart {q : P} (c : RootI q) (s x : Nat) : RootI (setStart q s x) := c
theorem rootI_dropStart {q : P} (c : RootI q) (s : Nat) : RootI (dropStart q s) := c

theorem root_writeData {p p' : P} {L : Nat → Nat} {slot off n : Nat} {buf : Bytes}
    (h : writeData p slot (L slot) off buf = .ok (p', n)) (j : JC p L) (ss : SS p)
    (hoff : off ≤ L slot) (hb : p'.fat.size ≤ MAXREG + 1) (c : RootI p) : RootI p' := by
  have hS := S_cases p
  unfold writeData at h
  dsimp only [bind, pure] at h
  split at h
  · rename_i hend
    have hown : ownOf p.starts L slot = [] := ownOf_noStart L hend
    have a0 := at_start_none j hown
    split at h
    · cases h
    · split at h
      · obtain ⟨⟨q, ids⟩, hw, h⟩ := obind_ok h
        cases h
        exact rootI_setStart (root_mini (rootk_miniChainWrite _ hw) a0 hb c) _ _
      · obtain ⟨⟨q, ids⟩, hw, h⟩ := obind_ok h
        cases h
        obtain ⟨a1, hv, hl, pr, _, hst⟩ := at_chainWrite hw a0 (by simp) hb
        exact rootI_setStart (root_reg pr (kc_chainWrite _ _ hw).2 (rl0_chainWrite _ _ hw) hv c) _ _
  · rename_i hstart
    split at h
    · rename_i hsmallOld
      have hown : ownOf p.starts L slot = [] := ownOf_small _ hsmallOld
      have a0 := at_start_none j hown
      split at h
      · obtain ⟨ids, hi, h⟩ := obind_ok h
        split at h
        · cases h
        · obtain ⟨⟨q, ids'⟩, hw, h⟩ := obind_ok h
          cases h
          exact root_mini (rootk_miniChainWrite _ hw) a0 hb c
      · obtain ⟨ids, hi, h⟩ := obind_ok h
        obtain ⟨tmp, hr, h⟩ := obind_ok h
        obtain ⟨q1, hf, h⟩ := obind_ok h
        obtain ⟨⟨q2, ids1⟩, hw1, h⟩ := obind_ok h
        obtain ⟨⟨q3, ids2⟩, hw2, h⟩ := obind_ok h
        cases h
        have hb2 : q2.fat.size ≤ MAXREG + 1 := Nat.le_trans (kc_chainWrite _ _ hw2).1.good.mono hb
        have hb1 : q1.fat.size ≤ MAXREG + 1 := Nat.le_trans (kc_chainWrite _ _ hw1).1.good.mono hb2
        have hv1 : q1.v4 = p.v4 := (GS.of_same (ssm_freeMiniChain _ hf)).v4
        have c1 := root_mini (rootk_freeMiniChainFrom hf) a0 hb1 c
        obtain ⟨a1, pr1, hst1⟩ := at_mini (kkc_freeMiniChainFrom hf) (pk_of_same (same_freeMiniChain _ hf)) a0 hb1
        obtain ⟨a2, hv2, hl1, pr2, hcont2, hst2⟩ := at_chainWrite hw1 a1 (by simp) hb2
        have c2 := root_reg pr2 (kc_chainWrite _ _ hw1).2 (rl0_chainWrite _ _ hw1) hv2 c1
        have hS1 : q1.S = p.S := S_of_v4 hv1
        have hS2 : q2.S = p.S := by rw [S_of_v4 hv2, hS1]
        have htmp : tmp.length = off := by have := miniChainRead_len ss _ hr; simpa using this
        rw [htmp] at hw2 hl1
        rw [hS1] at hl1
        have hoff2 : off ≤ ids1.length * q2.S := by
          rw [hl1, hS2]
          rcases hS with hS | hS <;> rw [hS] <;> omega
        obtain ⟨a3, hv3, hl2, pr3, _, hst3⟩ := at_chainWrite hw2 a2 hoff2 hb
        rw [← hcont2] at pr3
        have c3 := root_reg pr3 (kc_chainWrite _ _ hw2).2 (rl0_chainWrite _ _ hw2) hv3 c2
        exact rootI_setStart c3 _ _
    · rename_i hbig
      have hc0 : CUTOFF ≤ L slot := Nat.le_of_not_lt hbig
      obtain ⟨ids, hi, h⟩ := obind_ok h
      split at h
      · cases h
      · rename_i hguard
        obtain ⟨⟨q, ids'⟩, hw, h⟩ := obind_ok h
        cases h
        have a0 := at_start_own j hc0 hstart hi
        obtain ⟨a1, hv, hl, pr, _, hst⟩ := at_chainWrite hw a0 (Nat.le_of_not_lt hguard) hb
        exact root_reg pr (kc_chainWrite _ _ hw).2 (rl0_chainWrite _ _ hw) hv c

end CfbVerif.Phys

namespace CfbVerif.Phys
open CfbVerif.Raw

theorem root_resize {p p' : P} {L : Nat → Nat} {slot newLen : Nat}
    (h : resize p slot (L slot) newLen = .ok p') (j : JC p L) (r : RegLen p L)
    (hb : p'.fat.size ≤ MAXREG + 1) (c : RootI p) : RootI p' := by
  unfold resize at h
  dsimp only [bind, pure] at h
  split at h
  · rename_i hend
    have hown : ownOf p.starts L slot = [] := ownOf_noStart L hend
    have a0 := at_start_none j hown
    split at h
    · cases h
    · split at h
      · obtain ⟨⟨q, ids⟩, hw, h⟩ := obind_ok h
        cases h
        exact rootI_setStart (root_mini (rootk_miniChainSetLen hw) a0 hb c) _ _
      · rename_i hbig
        obtain ⟨⟨q, ids⟩, hw, h⟩ := obind_ok h
        cases h
        have hpos : 0 < newLen := by have := CUTOFF_pos; omega
        obtain ⟨l', a1, hh, hl, hv, pr, _, hst, _⟩ := at_chainSetLen hpos hw a0 hb
        exact rootI_setStart (root_reg pr (kc_chainSetLen hpos hw).2 (rl0_chainSetLen hw) hv c) _ _
  · rename_i hstart
    split at h
    · rename_i hsmallOld
      have hown : ownOf p.starts L slot = [] := ownOf_small _ hsmallOld
      have a0 := at_start_none j hown
      split at h
      · obtain ⟨q, hf, h⟩ := obind_ok h
        cases h
        exact rootI_setStart (root_mini (rootk_freeMiniChainFrom hf) a0 hb c) _ _
      · split at h
        · obtain ⟨ids, hi, h⟩ := obind_ok h
          obtain ⟨⟨q, ids'⟩, hs, h⟩ := obind_ok h
          split at h
          · split at h
            · cases h
            · obtain ⟨⟨q2, ids2⟩, hw, h⟩ := obind_ok h
              cases h
              have hbq : q.fat.size ≤ MAXREG + 1 := Nat.le_trans (kkc_miniChainWrite _ hw).k.good.mono hb
              have c1 := root_mini (rootk_miniChainSetLen hs) a0 hbq c
              obtain ⟨a1, pr1, hst1⟩ := at_mini (kkc_miniChainSetLen hs) (pk_miniChainSetLen hs) a0 hbq
              exact root_mini (rootk_miniChainWrite _ hw) a1 hb c1
          · cases h
            exact root_mini (rootk_miniChainSetLen hs) a0 hb c
        · obtain ⟨ids, hi, h⟩ := obind_ok h
          obtain ⟨tmp, hr, h⟩ := obind_ok h
          obtain ⟨q1, hf, h⟩ := obind_ok h
          obtain ⟨⟨q2, ids1⟩, hw1, h⟩ := obind_ok h
          obtain ⟨⟨q3, ids2⟩, hs, h⟩ := obind_ok h
          cases h
          have hpos : 0 < newLen := by have := CUTOFF_pos; omega
          have hb2 : q2.fat.size ≤ MAXREG + 1 := Nat.le_trans (kc_chainSetLen hpos hs).1.good.mono hb
          have hb1 : q1.fat.size ≤ MAXREG + 1 := Nat.le_trans (kc_chainWrite _ _ hw1).1.good.mono hb2
          have c1 := root_mini (rootk_freeMiniChainFrom hf) a0 hb1 c
          obtain ⟨a1, pr1, hst1⟩ := at_mini (kkc_freeMiniChainFrom hf) (pk_of_same (same_freeMiniChain _ hf)) a0 hb1
          obtain ⟨a2, hv2, _, pr2, hcont2, hst2⟩ := at_chainWrite hw1 a1 (by simp) hb2
          have c2 := root_reg pr2 (kc_chainWrite _ _ hw1).2 (rl0_chainWrite _ _ hw1) hv2 c1
          obtain ⟨l', a3, hh, hl, hv3, pr3, _, hst3, _⟩ := at_chainSetLen hpos hs a2 hb
          rw [← hcont2] at pr3
          have c3 := root_reg pr3 (kc_chainSetLen hpos hs).2 (rl0_chainSetLen hs) hv3 c2
          exact rootI_setStart c3 _ _
    · rename_i hbigOld
      have hc0 : CUTOFF ≤ L slot := Nat.le_of_not_lt hbigOld
      have hs' : startIn p.starts slot ≠ END := hstart
      have hhd : hd1 (startOf p slot) = [startOf p slot] := by unfold hd1; rw [if_neg hstart]
      have nfree : NC p.fat (hd1 (startOf p slot) ++ (cont p ++ regs (others p.starts slot) L)) := by
        have n0 := jc_n0 j slot
        rw [ownOf_reg hc0 hs'] at n0
        rw [hhd]
        refine n0.perm ?_
        show ((cont p ++ [startIn p.starts slot]) ++ regs (others p.starts slot) L).Perm
          ([startIn p.starts slot] ++ (cont p ++ regs (others p.starts slot) L))
        rw [List.append_assoc]
        exact List.perm_middle
      split at h
      · obtain ⟨q, hf, h⟩ := obind_ok h
        cases h
        obtain ⟨a1, pr, _, hst, hv⟩ := at_freeChainFrom hf j.inv nfree hb
        exact rootI_setStart (root_reg pr (sf_freeChain _ hf) (rl0_freeChain _ hf) hv c) _ _
      · split at h
        · obtain ⟨ids, hi, h⟩ := obind_ok h
          obtain ⟨tmp, hr, h⟩ := obind_ok h
          obtain ⟨q1, hf, h⟩ := obind_ok h
          obtain ⟨⟨q2, ids1⟩, hw, h⟩ := obind_ok h
          cases h
          have hb1 : q1.fat.size ≤ MAXREG + 1 := Nat.le_trans (kkc_miniChainWrite _ hw).k.good.mono hb
          obtain ⟨a1, pr1, hcont, hst1, hv1⟩ := at_freeChainFrom hf j.inv nfree hb1
          have c1 := root_reg pr1 (sf_freeChain _ hf) (rl0_freeChain _ hf) hv1 c
          rw [← hcont] at a1
          exact rootI_setStart (root_mini (rootk_miniChainWrite _ hw) a1 hb c1) _ _
        · rename_i hbig
          obtain ⟨ids, hi, h⟩ := obind_ok h
          obtain ⟨⟨q, ids'⟩, hs, h⟩ := obind_ok h
          have hpos : 0 < newLen := by have := CUTOFF_pos; omega
          have a0 := at_start_own j hc0 hstart hi
          obtain ⟨_, l0, c0, hl0⟩ := r _ (startIn_mem hs') hc0
          have hids : ids = l0 := (isChain_of_chainFrom hi hstart).unique c0
          split at h
          · rename_i at_ n hz
            split at h
            · cases h
            · rename_i hguard
              obtain ⟨⟨q2, ids2⟩, hw, h⟩ := obind_ok h
              cases h
              have hbq : q.fat.size ≤ MAXREG + 1 := Nat.le_trans (kc_chainWrite _ _ hw).1.good.mono hb
              obtain ⟨l', a1, hh, hl, hv, pr, hcont1, hst, hsame⟩ := at_chainSetLen hpos hs a0 hbq
              have c1 := root_reg pr (kc_chainSetLen hpos hs).2 (rl0_chainSetLen hs) hv c
              obtain ⟨hlt, hat, hsum⟩ := zeroTail_some hz
              have hle : ids.length ≤ (p.S + newLen - 1) / p.S := by
                rw [hids, hl0, Nat.add_comm p.S newLen]
                exact ceil_mono (Nat.le_of_lt hlt)
              have e := hsame hle
              subst e
              obtain ⟨a2, hv2, hl2, pr2, _, hst2⟩ := at_chainWrite hw a1 (Nat.le_of_not_lt hguard) hb
              rw [← hcont1] at pr2
              exact root_reg pr2 (kc_chainWrite _ _ hw).2 (rl0_chainWrite _ _ hw) hv2 c1
          · cases h
            obtain ⟨l', a1, hh, hl, hv, pr, _, hst, _⟩ := at_chainSetLen hpos hs a0 hb
            exact root_reg pr (kc_chainSetLen hpos hs).2 (rl0_chainSetLen hs) hv c

theorem root_freeStream {p p' : P} {L : Nat → Nat} {slot : Nat}
    (h : freeStream p slot (L slot) = .ok p') (j : JC p L) (hb : p'.fat.size ≤ MAXREG + 1) (c : RootI p) : RootI p' := by
  unfold freeStream at h
  dsimp only [bind, pure] at h
  split at h
  · rename_i hsmall
    obtain ⟨q, hf, h⟩ := obind_ok h
    cases h
    have a0 := at_start_none j (ownOf_small _ hsmall)
    exact rootI_dropStart (root_mini (rootk_freeMiniChainFrom hf) a0 hb c) _
  · rename_i hbig
    obtain ⟨q, hf, h⟩ := obind_ok h
    cases h
    have hc0 : CUTOFF ≤ L slot := Nat.le_of_not_lt hbig
    have nfree : NC p.fat (hd1 (startOf p slot) ++ (cont p ++ regs (others p.starts slot) L)) := by
      have n0 := jc_n0 j slot
      by_cases he : startOf p slot = END
      · have he' : startIn p.starts slot = END := he
        rw [ownOf_noStart L he', List.append_nil] at n0
        unfold hd1; rw [if_pos he]; simpa using n0
      · have he' : startIn p.starts slot ≠ END := he
        rw [ownOf_reg hc0 he'] at n0
        have hhd : hd1 (startOf p slot) = [startOf p slot] := by unfold hd1; rw [if_neg he]
        rw [hhd]
        refine n0.perm ?_
        show ((cont p ++ [startIn p.starts slot]) ++ regs (others p.starts slot) L).Perm
          ([startIn p.starts slot] ++ (cont p ++ regs (others p.starts slot) L))
        rw [List.append_assoc]
        exact List.perm_middle
    obtain ⟨a1, pr, _, hst, hv⟩ := at_freeChainFrom hf j.inv nfree hb
    exact rootI_dropStart (root_reg pr (sf_freeChain _ hf) (rl0_freeChain _ hf) hv c) _

theorem root_ensureDirSlot {p p' : P} {L : Nat → Nat} {slot : Nat} (h : ensureDirSlot p slot = .ok p') (j : JC p L)
    (hb : p'.fat.size ≤ MAXREG + 1) (c : RootI p) : RootI p' := by
  unfold ensureDirSlot at h
  split at h
  · cases h; exact c
  · split at h
    · split at h
      · rename_i q id he
        cases h
        have sf := sf_extendChain he
        -- the directory chain is the one worked on; the MiniFAT chain is among the others
        have nh : NC p.fat ([p.dirStart] ++ ((hd1 p.miniFatStart ++ hd1 p.rootStart) ++ regs p.starts L)) := by
          have := j.nc
          simpa [heads, cont] using this
        obtain ⟨l0, c0, hm0⟩ := head_on_chain nh (List.mem_append_left _ (List.mem_singleton.mpr rfl))
        obtain ⟨l, ml, hc⟩ := c
        refine ⟨l, ?_, ?_⟩
        · rcases ml with ⟨hend, hl⟩ | ⟨hne, ch⟩
          · exact Or.inl ⟨by show q.rootStart = END; rw [sf.2.2.1]; exact hend, hl⟩
          · refine Or.inr ⟨by show q.rootStart ≠ END; rw [sf.2.2.1]; exact hne, ?_⟩
            show IsChain q.fat q.rootStart l
            rw [sf.2.2.1]
            exact pres_extendChain (a := [p.dirStart]) he hb j.inv _ nh
              ⟨p.dirStart, List.mem_singleton.mpr rfl, l0, c0, hm0⟩ _
              (List.mem_append_left _ (List.mem_append_right _ (hd1_mem hne))) l ch
        · show q.rootLen ≤ l.length * q.S ∧ q.rootLen % 64 = 0
          rw [(rl0_extendChain he : q.rootLen = p.rootLen), S_of_v4 (extendChain_v4 he)]; exact hc
      · cases h
      · cases h
      · cases h
    · cases h; exact c

theorem root_reopen {p p' : P} (h : Phys.reopen p = .ok p') (c : RootI p) : RootI p' := by
  unfold Phys.reopen at h
  obtain ⟨chain, hc, h⟩ := bind_ok h
  cases h
  exact c

theorem rootI_create (v4 : Bool) : RootI (Phys.create v4) :=
  ⟨[], Or.inl ⟨rfl, rfl⟩, by simp [Phys.create], rfl⟩

theorem root_gstep {g g' : G} {op : GOp} (h : gstep g op = .ok g') (j : JR g.p g.L) (hw : opInRange g op)
    (hb : g'.p.fat.size ≤ MAXREG + 1) (c : RootI g.p) : RootI g'.p := by
  cases op with
  | ensure s => obtain ⟨q, hq, h⟩ := obind_ok h; cases h; exact root_ensureDirSlot hq j.jc hb c
  | create s =>
    simp only [gstep] at h
    split at h
    · cases h; exact rootI_setStart c _ _
    · cases h
  | write s off bs => obtain ⟨r, hq, h⟩ := obind_ok h; cases h; exact root_writeData hq j.jc j.ss hw hb c
  | resize s n => obtain ⟨q, hq, h⟩ := obind_ok h; cases h; exact root_resize hq j.jc j.rl hb c
  | free s => obtain ⟨q, hq, h⟩ := obind_ok h; cases h; exact root_freeStream hq j.jc hb c
  | reopen => obtain ⟨q, hq, h⟩ := obind_ok h; cases h; exact root_reopen hq c

end CfbVerif.Phys
