import CfbVerif.Handle.Model
/-!
# The store operations a handle call performs, in order

The handle model (`CfbVerif.Handle`) treats the flushed stream as a byte list and changes it with
`writeAt` (from `flush_changes` → `write_data_to_stream`) and `resize` (from `set_len` →
`resize_stream`).  The allocation level needs to know *which* of these happen and in what order;
the functions here follow the control flow of the handle operations and list them.  `applyLog`
replays a log on the byte list; the `_store` theorems (Phys/LogLemmas) state that this reproduces
the store the handle model computes, so the log is not a second opinion about the handle.
-/
namespace CfbVerif.Phys
open CfbVerif.Handle

inductive StoreOp
  | write (off : Nat) (bs : Bytes)
  | resize (n : Nat)
deriving Repr, DecidableEq

def applyOp (st : Bytes) : StoreOp → Bytes
  | .write off bs => writeAt st off bs
  | .resize n => Handle.resize st n

def applyLog (st : Bytes) (log : List StoreOp) : Bytes := log.foldl applyOp st

def flushL (h : H) : List StoreOp := if h.dirty then [.write h.off h.win] else []

def writeL (h : H) (buf : Bytes) : List StoreOp :=
  match writeBytes h buf with
  | some _ => []
  | none => flushL h

def fillBufL (h : H) : List StoreOp :=
  if ¬ (h.pos < h.win.length) ∧ h.position < h.totalLen then flushL h else []

def seekL (h : H) (p : SeekFrom) : List StoreOp :=
  match seekTarget h p with
  | none => []
  | some np => if np < h.off ∨ np > h.off + h.win.length then flushL h else []

def setLenL (h : H) (size : Nat) : List StoreOp :=
  if size ≠ h.totalLen then flushL h ++ [.resize size] else []

def readLoopL : Nat → H → Bytes → Nat → List StoreOp
  | 0, _, _, _ => []
  | fuel + 1, h, st, n =>
    if n = 0 then [] else
    match read h st n with
    | (h1, st1, .bytes bs) =>
      if bs = [] then fillBufL h else fillBufL h ++ readLoopL fuel h1 st1 (n - bs.length)
    | _ => fillBufL h

def readAllL (h : H) (st : Bytes) (n : Nat) : List StoreOp := readLoopL (n + 1) h st n

def writeLoopL : Nat → H → Bytes → Bytes → List StoreOp
  | 0, _, _, _ => []
  | fuel + 1, h, st, bs =>
    if bs = [] then [] else
    match write h st bs with
    | (h1, st1, .num k) => if k = 0 then writeL h bs else writeL h bs ++ writeLoopL fuel h1 st1 (bs.drop k)
    | _ => writeL h bs

def writeAllL (h : H) (st : Bytes) (bs : Bytes) : List StoreOp := writeLoopL (bs.length + 1) h st bs

/-- the log of one deterministic handle operation -/
def stepDL (h : H) (st : Bytes) : DOp → List StoreOp
  | .readAll n => readAllL h st n
  | .writeAll bs => writeAllL h st bs
  | .seek p => seekL h p
  | .setLen n => setLenL h n
  | .flush => flushL h
  | .len => []

/-! ## the log reproduces the store -/

theorem flushL_store (h : H) (st : Bytes) : applyLog st (flushL h) = (flushChanges h st).2 := by
  unfold flushL flushChanges applyLog
  split <;> simp [applyOp]

theorem applyLog_append (st : Bytes) (a b : List StoreOp) :
    applyLog st (a ++ b) = applyLog (applyLog st a) b := by
  simp [applyLog, List.foldl_append]

theorem writeL_store (h : H) (st buf : Bytes) : applyLog st (writeL h buf) = (write h st buf).2.1 := by
  unfold writeL write
  cases hb : writeBytes h buf with
  | some r => obtain ⟨h1, n⟩ := r; simp [applyLog, finishWrite]; split <;> rfl
  | none =>
    simp only [flushL_store]
    generalize flushChanges h st = fc
    obtain ⟨h1, st1⟩ := fc
    simp only
    split
    · simp only [finishWrite]; split <;> rfl
    · simp only [finishWrite]; split <;> rfl

theorem fillBufL_store (h : H) (st : Bytes) : applyLog st (fillBufL h) = (fillBuf h st).2 := by
  unfold fillBufL fillBuf
  split
  · rw [flushL_store]
  · simp [applyLog]

theorem seekL_store (h : H) (st : Bytes) (p : SeekFrom) : applyLog st (seekL h p) = (seek h st p).2.1 := by
  unfold seekL seek
  cases seekTarget h p with
  | none => simp [applyLog]
  | some np =>
    simp only
    split
    · rw [flushL_store]
    · simp [applyLog]

theorem setLenL_store (h : H) (st : Bytes) (n : Nat) : applyLog st (setLenL h n) = (setLen h st n).2.1 := by
  unfold setLenL setLen
  split
  · rw [applyLog_append, flushL_store]; simp [applyLog, applyOp]
  · simp [applyLog]

theorem read_store (h : H) (st : Bytes) (n : Nat) : (read h st n).2.1 = (fillBuf h st).2 := by
  unfold Handle.read; rfl

theorem readLoopL_store (fuel : Nat) (h : H) (st : Bytes) (n : Nat) (acc : Bytes) :
    applyLog st (readLoopL fuel h st n) = (readLoop fuel h st n acc).2.1 := by
  induction fuel generalizing h st n acc with
  | zero => simp [readLoopL, readLoop, applyLog]
  | succ fuel ih =>
    unfold readLoopL readLoop
    split
    · simp [applyLog]
    · have hs := read_store h st n
      have hf := fillBufL_store h st
      generalize hr : read h st n = r at hs
      obtain ⟨h1, st1, o⟩ := r
      simp only at hs
      cases o with
      | bytes bs =>
        simp only
        split
        · rw [hf, ← hs]
        · rw [applyLog_append, hf, ← hs]; exact ih h1 st1 _ _
      | unit => simp only; rw [hf, ← hs]
      | num k => simp only; rw [hf, ← hs]
      | err e => simp only; rw [hf, ← hs]
      | panic => simp only; rw [hf, ← hs]

theorem writeLoopL_store (fuel : Nat) (h : H) (st bs : Bytes) :
    applyLog st (writeLoopL fuel h st bs) = (writeLoop fuel h st bs).2 := by
  induction fuel generalizing h st bs with
  | zero => simp [writeLoopL, writeLoop, applyLog]
  | succ fuel ih =>
    unfold writeLoopL writeLoop
    split
    · simp [applyLog]
    · have hw := writeL_store h st bs
      generalize hr : write h st bs = r at hw
      obtain ⟨h1, st1, o⟩ := r
      simp only at hw
      cases o with
      | num k =>
        simp only
        split
        · rw [hw]
        · rw [applyLog_append, hw]; exact ih h1 st1 _
      | unit => simp only; rw [hw]
      | bytes b => simp only; rw [hw]
      | err e => simp only; rw [hw]
      | panic => simp only; rw [hw]

/-- **the log is faithful**: replaying the store operations of a handle call on the flushed bytes
gives exactly the store the handle model computes -/
theorem stepDL_store (h : H) (st : Bytes) (op : DOp) :
    applyLog st (stepDL h st op) = (stepD h st op).2.1 := by
  cases op with
  | readAll n => simp only [stepDL, stepD, readAllL, readAll]; exact readLoopL_store _ _ _ _ _
  | writeAll bs => simp only [stepDL, stepD, writeAllL, writeAll]; exact writeLoopL_store _ _ _ _
  | seek p => simp only [stepDL, stepD]; exact seekL_store _ _ _
  | setLen n => simp only [stepDL, stepD]; exact setLenL_store _ _ _
  | flush => simp only [stepDL, stepD]; exact flushL_store _ _
  | len => simp [stepDL, stepD, applyLog]

end CfbVerif.Phys
