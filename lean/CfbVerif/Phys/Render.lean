import CfbVerif.Phys.Model
import CfbVerif.Dir.Model
/-!
# Rendering the complete file image from the tables

`render p rows` is the byte string the library must have on disk when its allocation tables are
`p` and its directory is `rows` (the `Dir` model's table): header, FAT/DIFAT/MiniFAT and directory
sectors from the tables (header.rs `write_to`, direntry.rs `write_to`, sector.rs `SectorInit`), all
other sectors verbatim from `p.sectors` — stale contents of freed sectors included.
-/
namespace CfbVerif.Phys
open CfbVerif.Raw CfbVerif.Dir

def pushLE (b : ByteArray) : Nat → Nat → ByteArray
  | 0, _ => b
  | w + 1, n => pushLE (b.push (UInt8.ofNat (n % 256))) w (n / 256)

def pushZeros (b : ByteArray) : Nat → ByteArray
  | 0 => b
  | n + 1 => pushZeros (b.push 0) n

def pushBytes (b : ByteArray) (l : List UInt8) : ByteArray := l.foldl (fun acc x => acc.push x) b

def pushCells (b : ByteArray) (cells : List Nat) : ByteArray := cells.foldl (fun acc c => pushLE acc 4 c) b

/-- `Uuid::as_fields` written little-endian field by field (direntry.rs `write_clsid`) -/
def clsidOnDisk (c : List UInt8) : List UInt8 :=
  match c with
  | [a0, a1, a2, a3, b0, b1, c0, c1, d0, d1, d2, d3, d4, d5, d6, d7] =>
    [a3, a2, a1, a0, b1, b0, c1, c0, d0, d1, d2, d3, d4, d5, d6, d7]
  | other => other

def linkOf (i : Int) : Nat := if i < 0 then NOSTREAM else i.toNat

/-- one 128-byte directory entry -/
def renderEntry (b : ByteArray) (r : Row) (start len : Nat) : ByteArray :=
  let u := CfbVerif.Names.utf16 r.name
  let b := u.foldl (fun acc x => pushLE acc 2 x) b
  let b := pushZeros b (2 * (32 - u.length))
  let b := pushLE b 2 ((u.length + 1) * 2)
  let b := b.push (UInt8.ofNat r.typ)
  let b := b.push (if r.black then UInt8.ofNat Gen.COLOR_BLACK else UInt8.ofNat Gen.COLOR_RED)
  let b := pushLE b 4 (linkOf r.left)
  let b := pushLE b 4 (linkOf r.right)
  let b := pushLE b 4 (linkOf r.child)
  let b := pushBytes b (clsidOnDisk r.md.clsid)
  let b := pushLE b 4 r.md.bits
  let b := pushLE b 8 r.md.ctime
  let b := pushLE b 8 r.md.mtime
  let b := pushLE b 4 start
  pushLE b 8 len

/-- `DirEntry::unallocated()`: all zeros except the three links -/
def renderUnallocated (b : ByteArray) : ByteArray :=
  let b := pushZeros b 68
  let b := pushLE b 4 NOSTREAM
  let b := pushLE b 4 NOSTREAM
  let b := pushLE b 4 NOSTREAM
  pushZeros b 48

inductive Role
  | data
  | fat (k : Nat)        -- the k-th FAT sector
  | difat (k : Nat)
  | dir (k : Nat)
  | miniFat (k : Nat)
deriving Repr, DecidableEq

def markRoles (roles : Array Role) (ids : List Nat) (mk : Nat → Role) : Array Role :=
  (ids.zipIdx).foldl (fun acc (id, k) => acc.setIfInBounds id (mk k)) roles

def chainOrEmpty (p : P) (start : Nat) : List Nat :=
  match chainIds p start with
  | .ok ids => ids
  | _ => []

def renderHeader (p : P) (dirChain mfChain : List Nat) : ByteArray :=
  let b := pushBytes ByteArray.empty (Gen.MAGIC_NUMBER.map UInt8.ofNat)
  let b := pushZeros b 16
  let b := pushLE b 2 Gen.MINOR_VERSION
  let b := pushLE b 2 (if p.v4 then Gen.versionNumberV4 else Gen.versionNumberV3)
  let b := pushLE b 2 Gen.BYTE_ORDER_MARK
  let b := pushLE b 2 (if p.v4 then Gen.sectorShiftV4 else Gen.sectorShiftV3)
  let b := pushLE b 2 Gen.MINI_SECTOR_SHIFT
  let b := pushZeros b 6
  let b := pushLE b 4 (if p.v4 then dirChain.length else 0)
  let b := pushLE b 4 p.difat.length
  let b := pushLE b 4 p.dirStart
  let b := pushLE b 4 p.txSig
  let b := pushLE b 4 Gen.MINI_STREAM_CUTOFF
  let b := pushLE b 4 p.miniFatStart
  let b := pushLE b 4 mfChain.length
  let b := pushLE b 4 (p.difatSectorIds.head?.getD END)
  let b := pushLE b 4 p.difatSectorIds.length
  let inHeader := p.difat.take Gen.NUM_DIFAT_ENTRIES_IN_HEADER
  let b := pushCells b inHeader
  let b := pushCells b (List.replicate (Gen.NUM_DIFAT_ENTRIES_IN_HEADER - inHeader.length) FREE)
  pushZeros b (p.S - Gen.HEADER_LEN)

def cellAt (a : Array Nat) (i : Nat) : Nat := (a[i]?).getD FREE

/-- the whole image -/
def render (p : P) (rows : List Row) : ByteArray :=
  let S := p.S
  let dirChain := chainOrEmpty p p.dirStart
  let mfChain := chainOrEmpty p p.miniFatStart
  let roles : Array Role := Array.replicate p.numSectors .data
  let roles := markRoles roles p.difat .fat
  let roles := markRoles roles p.difatSectorIds .difat
  let roles := markRoles roles dirChain .dir
  let roles := markRoles roles mfChain .miniFat
  let perDir := S / Gen.DIR_ENTRY_LEN
  let slots : Array (Option Row) :=
    rows.foldl (fun acc r => acc.setIfInBounds r.slot (some r)) (Array.replicate (dirChain.length * perDir) none)
  let perDifat := (S - 4) / 4
  let out := renderHeader p dirChain mfChain
  (List.range p.numSectors).foldl (fun out id =>
    match roles[id]?.getD .data with
    | .data => out ++ (p.sectors[id]?.getD (zeroSector S))
    | .fat k => pushCells out ((List.range p.epsec).map (fun j => cellAt p.fat (k * p.epsec + j)))
    | .difat k =>
      let base := Gen.NUM_DIFAT_ENTRIES_IN_HEADER + k * perDifat
      let out := pushCells out ((List.range perDifat).map (fun j => (p.difat[base + j]?).getD FREE))
      pushLE out 4 ((p.difatSectorIds[k + 1]?).getD END)
    | .miniFat k => pushCells out ((List.range (S / 4)).map (fun j => cellAt p.miniFat (k * (S / 4) + j)))
    | .dir k =>
      (List.range perDir).foldl (fun out j =>
        match (slots[k * perDir + j]?).getD none with
        | none => renderUnallocated out
        | some r =>
          if r.typ = Gen.OBJ_TYPE_ROOT then renderEntry out r p.rootStart p.rootLen
          else if r.typ = Gen.OBJ_TYPE_STREAM then renderEntry out r (startOf p r.slot) r.len
          else renderEntry out r 0 0) out) out

def fnv64 (b : ByteArray) : UInt64 :=
  b.foldl (fun h x => (h ^^^ x.toUInt64) * 1099511628211) 14695981039346656037

end CfbVerif.Phys
