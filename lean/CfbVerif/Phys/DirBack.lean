import CfbVerif.Phys.EntryBack
import CfbVerif.Phys.DifatBack
/-!
# The directory is read back: `dirLoop` on the rendered image

The reader model's `readDirEntry` looks only at the 128 bytes of its entry (`readDirEntry_congr`);
inside a directory sector of the rendered image those bytes are what `entryStep` appended for the
slot (`render_at` + `fold_at` at entry granularity), which `readDirEntry_render` /
`readDirEntry_unallocated` decode.  Hence `readDirSector` returns the slots of the sector, and
`dirLoop` — following the FAT along the directory chain, with its range, repetition and count
checks — returns the whole table (`dirLoop_readback`).
-/
namespace CfbVerif.Phys
open CfbVerif.Raw CfbVerif.Dir

/-! ## `readDirEntry` is local to its 128 bytes -/

/-- two images agree on `[off, off+n)` as far as little-endian reads can tell -/
def AgreeOn (a b : Img) (off n : Nat) : Prop := ∀ o w, o + w ≤ n → leN a (off + o) w = leN b (off + o) w

theorem rd_congr {a b : Img} {off n : Nat} (h : AgreeOn a b off n) (o w : Nat) (hw : o + w ≤ n) :
    rd a (off + o) w = rd b (off + o) w := by
  unfold rd; rw [h o w hw]

theorem readUnits_congr {a b : Img} {off n : Nat} (h : AgreeOn a b off n) :
    ∀ (k o : Nat), o + 2 * k ≤ n → readUnits a (off + o) k = readUnits b (off + o) k := by
  intro k
  induction k with
  | zero => intro o _; rfl
  | succ k ih =>
    intro o hk
    unfold readUnits
    rw [rd_congr h o 2 (by omega)]
    have := ih (o + 2) (by omega)
    rw [← Nat.add_assoc] at this
    rw [this]

theorem readBytes_congr {a b : Img} {off n : Nat} (h : AgreeOn a b off n) :
    ∀ (k o : Nat), o + k ≤ n → readBytes a (off + o) k = readBytes b (off + o) k := by
  intro k
  induction k with
  | zero => intro o _; rfl
  | succ k ih =>
    intro o hk
    unfold readBytes
    rw [rd_congr h o 1 (by omega)]
    have := ih (o + 1) (by omega)
    rw [← Nat.add_assoc] at this
    rw [this]

/-- **`readDirEntry` depends only on the entry's own 128 bytes** -/
theorem readDirEntry_congr {a b : Img} {off : Nat} (h : AgreeOn a b off 128) (m : Mode) (v4 : Bool) :
    readDirEntry m v4 a off = readDirEntry m v4 b off := by
  unfold readDirEntry
  have hu := readUnits_congr h 32 0 (by omega)
  simp only [Nat.add_zero] at hu
  rw [hu, rd_congr h 64 2 (by omega), rd_congr h 66 1 (by omega), rd_congr h 67 1 (by omega),
    rd_congr h 68 4 (by omega), rd_congr h 72 4 (by omega), rd_congr h 76 4 (by omega),
    readBytes_congr h 16 80 (by omega), rd_congr h 96 4 (by omega), rd_congr h 100 8 (by omega),
    rd_congr h 108 8 (by omega), rd_congr h 116 4 (by omega), rd_congr h 120 8 (by omega)]

/-! ## one slot of a directory sector -/

theorem rolesOf_dir {p : P} (wf : RolesWf p) (k : Nat) (hk : k < (chainOrEmpty p p.dirStart).length) :
    (rolesOf p)[(chainOrEmpty p p.dirStart)[k]]? = some (.dir k) := by
  have hm : (chainOrEmpty p p.dirStart)[k] ∈ chainOrEmpty p p.dirStart := List.getElem_mem _
  unfold rolesOf
  simp only [markRoles_eq]
  rw [markFrom_not_mem _ _ _ _ _ (wf.dir_mf _ hm)]
  have := markFrom_get Role.dir (chainOrEmpty p p.dirStart)
    (markFrom Role.difat (markFrom Role.fat (Array.replicate p.numSectors Role.data) p.difat 0) p.difatSectorIds 0)
    0 k hk wf.dirNd (by rw [markFrom_size, markFrom_size]; simp; exact wf.dirLt _ hm)
  simpa using this

/-- where the renderer takes a slot's start sector and length from -/
def startLenOf (p : P) (r : Row) : Nat × Nat :=
  if r.typ = Gen.OBJ_TYPE_ROOT then (p.rootStart, p.rootLen)
  else if r.typ = Gen.OBJ_TYPE_STREAM then (startOf p r.slot, r.len)
  else (0, 0)

/-- the entry the reader is to return for slot `i` -/
def slotEntry (p : P) (slots : Array (Option Row)) (i : Nat) : DirEntry :=
  match (slots[i]?).getD none with
  | none => unallocEntry
  | some r => entryOf r (startLenOf p r).1 (startLenOf p r).2

/-- every row in the table can be decoded (`RowWf`, with the start and length the renderer uses) -/
def SlotsWf (p : P) (slots : Array (Option Row)) : Prop :=
  ∀ (i : Nat) (r : Row), slots[i]? = some (some r) → RowWf r (startLenOf p r).1 (startLenOf p r).2 p.v4

theorem rowOk_of_rowWf {r : Row} {a b : Nat} {v4 : Bool} (h : RowWf r a b v4) : RowOk r :=
  ⟨by have := h.units; omega, h.clsid⟩

theorem slotsOk_of_slotsWf {p : P} {slots : Array (Option Row)} (h : SlotsWf p slots) : SlotsOk slots :=
  fun i r hi => rowOk_of_rowWf (h i r hi)

theorem entryStep_eq (p : P) (slots : Array (Option Row)) (k : Nat) (out : ByteArray) (j : Nat) :
    entryStep p slots k out j =
      match (slots[k * (p.S / Gen.DIR_ENTRY_LEN) + j]?).getD none with
      | none => renderUnallocated out
      | some r => renderEntry out r (startLenOf p r).1 (startLenOf p r).2 := by
  unfold entryStep startLenOf
  generalize (slots[k * (p.S / Gen.DIR_ENTRY_LEN) + j]?).getD none = o
  cases o with
  | none => simp only []
  | some r =>
    dsimp only
    by_cases h1 : r.typ = Gen.OBJ_TYPE_ROOT
    · rw [if_pos h1, if_pos h1]
    · by_cases h2 : r.typ = Gen.OBJ_TYPE_STREAM
      · rw [if_neg h1, if_neg h1, if_pos h2, if_pos h2]
      · rw [if_neg h1, if_neg h1, if_neg h2, if_neg h2]

/-- **slot `j` of the `k`-th directory sector is read back** -/
theorem dir_entry_readback (p : P) (rows : List Row) (ss : SS p) (sw : SlotsWf p (slotsOf p rows)) (wf : RolesWf p)
    (m : Mode) (k : Nat) (hk : k < (chainOrEmpty p p.dirStart).length) (j : Nat) (hj : j < p.S / Gen.DIR_ENTRY_LEN) :
    readDirEntry m p.v4 (render p rows) (sectorOff p.S (chainOrEmpty p p.dirStart)[k] 0 + j * Gen.DIR_ENTRY_LEN) =
      .ok (slotEntry p (slotsOf p rows) (k * (p.S / Gen.DIR_ENTRY_LEN) + j)) := by
  have hs := slotsOk_of_slotsWf sw
  generalize hid' : (chainOrEmpty p p.dirStart)[k] = id
  have hid : id < p.numSectors := by rw [← hid']; exact wf.dirLt _ (List.getElem_mem _)
  obtain ⟨_, _, f3, _⟩ := S_facts p
  have h128 : Gen.DIR_ENTRY_LEN = 128 := rfl
  have hsz := prefixOf_size p rows ss hs id (Nat.le_of_lt hid)
  have hro : (rolesOf p)[id]? = some (.dir k) := by rw [← hid']; exact rolesOf_dir wf k hk
  -- the image the slot was rendered into
  generalize hB : ((List.range (p.S / Gen.DIR_ENTRY_LEN)).take j).foldl (entryStep p (slotsOf p rows) k) (prefixOf p rows id) = B
  have hBsz : B.size = (id + 1) * p.S + j * Gen.DIR_ENTRY_LEN := by
    rw [← hB, fold_size (entryStep_appends p _ hs k), hsz, List.length_take, List.length_range, Nat.min_eq_left (Nat.le_of_lt hj)]
  have agree : AgreeOn (render p rows) (entryStep p (slotsOf p rows) k B j) ((id + 1) * p.S + j * Gen.DIR_ENTRY_LEN) 128 := by
    intro o w how
    have hw : j * Gen.DIR_ENTRY_LEN + o + w ≤ p.S := by
      have : (j + 1) * Gen.DIR_ENTRY_LEN ≤ p.S / Gen.DIR_ENTRY_LEN * Gen.DIR_ENTRY_LEN := Nat.mul_le_mul_right _ hj
      rw [Nat.add_mul] at this; omega
    have e1 : (id + 1) * p.S + j * Gen.DIR_ENTRY_LEN + o = (id + 1) * p.S + (j * Gen.DIR_ENTRY_LEN + o) := by omega
    rw [e1, render_at p rows ss hs id hid (j * Gen.DIR_ENTRY_LEN + o) w hw]
    unfold sectorStep
    rw [hro]
    simp only [Option.getD_some]
    have h := fold_at (entryStep_appends p (slotsOf p rows) hs k) (List.range (p.S / Gen.DIR_ENTRY_LEN))
      (prefixOf p rows id) j (by simpa using hj) o w (by rw [h128]; omega)
    rw [hsz] at h
    have e2 : (id + 1) * p.S + j * Gen.DIR_ENTRY_LEN + o = (id + 1) * p.S + (j * Gen.DIR_ENTRY_LEN + o) := by omega
    rw [e2] at h
    rw [h, hB]
    simp only [List.getElem_range]
  unfold sectorOff
  rw [Nat.add_zero, readDirEntry_congr agree, entryStep_eq, ← hBsz]
  unfold slotEntry
  cases hg : (slotsOf p rows)[k * (p.S / Gen.DIR_ENTRY_LEN) + j]? with
  | none =>
    simp only [Option.getD_none]
    have h := readDirEntry_unallocated B [] m p.v4
    simp only [pushFields] at h
    exact h
  | some o =>
    cases o with
    | none =>
      simp only [Option.getD_some]
      have h := readDirEntry_unallocated B [] m p.v4
      simp only [pushFields] at h
      exact h
    | some r =>
      simp only [Option.getD_some]
      have h := readDirEntry_render B r _ _ [] m p.v4 (sw _ r hg)
      simp only [pushFields] at h
      exact h

/-- **a whole directory sector is read back** -/
theorem readDirSector_readback (p : P) (rows : List Row) (ss : SS p) (sw : SlotsWf p (slotsOf p rows)) (wf : RolesWf p)
    (m : Mode) (k : Nat) (hk : k < (chainOrEmpty p p.dirStart).length) :
    ∀ (n i : Nat), i + n = p.S / Gen.DIR_ENTRY_LEN →
    readDirSector m p.v4 (render p rows) (sectorOff p.S (chainOrEmpty p p.dirStart)[k] 0) n i =
      .ok ((List.range n).map (fun t => slotEntry p (slotsOf p rows) (k * (p.S / Gen.DIR_ENTRY_LEN) + (i + t)))) := by
  intro n
  induction n with
  | zero => intro i _; rfl
  | succ n ih =>
    intro i hi
    unfold readDirSector
    rw [dir_entry_readback p rows ss sw wf m k hk i (by omega), ih (i + 1) (by omega)]
    simp only [bind, Except.bind, pure, Except.pure]
    congr 1
    rw [List.range_succ_eq_map]
    simp only [List.map_cons, List.map_map, Nat.add_zero]
    congr 1
    apply List.map_congr_left
    intro t _
    simp only [Function.comp]
    congr 2
    omega

/-! ## the directory chain loop -/

/-- the blocks of entries of the directory sectors `k, k+1, …` (as many as `n`) -/
def blocksFrom (E : Nat → List DirEntry) : Nat → Nat → List DirEntry
  | 0, _ => []
  | n + 1, k => E k ++ blocksFrom E n (k + 1)

theorem blocksFrom_eq (E : Nat → List DirEntry) : ∀ (n k : Nat),
    blocksFrom E n k = ((List.range n).map (fun t => E (k + t))).flatten := by
  intro n
  induction n with
  | zero => intro k; rfl
  | succ n ih =>
    intro k
    unfold blocksFrom
    rw [ih, List.range_succ_eq_map]
    simp only [List.map_cons, List.flatten_cons, Nat.add_zero, List.map_map]
    congr 2
    apply List.map_congr_left
    intro t _
    simp only [Function.comp]
    congr 1
    omega

theorem dirLoop_step (m : Mode) (h : Header) (img : Img) (numSectors : Nat) (fat : Array Nat)
    (a next fuel count : Nat) (seen : List Nat) (acc entries : List DirEntry)
    (h1 : a ≤ MAXREG) (h2 : a < numSectors) (h3 : seen.contains a = false)
    (h4 : ¬ (m.isStrict = true ∧ h.v4 = true ∧ count > h.numDirSectors))
    (hr : readDirSector m h.v4 img (sectorOff h.sectorLen a 0) (h.sectorLen / Gen.DIR_ENTRY_LEN) 0 = .ok entries)
    (hn : nextSector fat a = .ok next) :
    dirLoop m h img numSectors fat (fuel + 1) a count seen acc =
      dirLoop m h img numSectors fat fuel next (count + 1) (a :: seen) (acc ++ entries) := by
  have c1 : a ≠ END := by have := MAXREG_lt_END; omega
  rw [dirLoop]
  rw [if_neg c1, if_neg h4, if_neg (by omega), if_neg (by omega), h3]
  simp only [Bool.false_eq_true, if_false]
  rw [hr, hn]

theorem dirLoop_end (m : Mode) (h : Header) (img : Img) (numSectors : Nat) (fat : Array Nat)
    (fuel count : Nat) (seen : List Nat) (acc : List DirEntry) :
    dirLoop m h img numSectors fat (fuel + 1) END count seen acc = .ok acc := by
  rw [dirLoop, if_pos rfl]

/-- **`dirLoop` along a chain of the table**: started at sector `a` with the sectors `pre` behind
it, it reads the sectors of the chain in order and stops at the end marker -/
theorem dirLoop_chain (m : Mode) (h : Header) (img : Img) (numSectors : Nat) (fat : Array Nat)
    (dc : List Nat) (E : Nat → List DirEntry) (nd : dc.Nodup) (lt : ∀ x ∈ dc, x < numSectors)
    (reg : ∀ x ∈ dc, x ≤ MAXREG)
    (hcount : m.isStrict = true ∧ h.v4 = true → dc.length ≤ h.numDirSectors)
    (hread : ∀ (k : Nat) (hk : k < dc.length),
      readDirSector m h.v4 img (sectorOff h.sectorLen dc[k] 0) (h.sectorLen / Gen.DIR_ENTRY_LEN) 0 = .ok (E k)) :
    ∀ (l : List Nat) (a : Nat), IsChain fat a l → ∀ (pre : List Nat) (acc : List DirEntry) (fuel : Nat),
      dc = pre ++ l → l.length + 1 ≤ fuel →
      dirLoop m h img numSectors fat fuel a (pre.length + 1) pre.reverse acc = .ok (acc ++ blocksFrom E l.length pre.length) := by
  intro l a c
  induction c with
  | @last a he =>
    intro pre acc fuel hdc hf
    obtain ⟨fuel, rfl⟩ : ∃ f, fuel = f + 2 := ⟨fuel - 2, by simp at hf; omega⟩
    have ha : a ∈ dc := by rw [hdc]; simp
    have hk : pre.length < dc.length := by rw [hdc]; simp
    have hka : dc[pre.length] = a := by simp [hdc]
    have hnpre : a ∉ pre := by
      rw [hdc] at nd
      exact fun hm => (List.nodup_append.mp nd).2.2 a hm a (by simp) rfl
    have hsz : a < fat.size := by
      rcases Nat.lt_or_ge a fat.size with h1 | h1
      · exact h1
      · rw [Array.getElem?_eq_none h1] at he; cases he
    have hn : nextSector fat a = .ok END := by
      unfold nextSector
      rw [dif_pos hsz]
      have : fat[a] = END := by rw [Array.getElem?_eq_getElem hsz] at he; exact Option.some.inj he
      simp [this]
    rw [dirLoop_step m h img numSectors fat a END (fuel + 1) (pre.length + 1) pre.reverse acc (E pre.length)
      (reg a ha) (lt a ha) (by simpa using hnpre) (by intro ⟨x1, x2, x3⟩; have := hcount ⟨x1, x2⟩; omega)
      (by rw [← hka]; exact hread _ hk) hn, dirLoop_end]
    simp [blocksFrom]
  | @cons a b l hab hb c ih =>
    intro pre acc fuel hdc hf
    obtain ⟨fuel, rfl⟩ : ∃ f, fuel = f + 1 := ⟨fuel - 1, by simp at hf; omega⟩
    have ha : a ∈ dc := by rw [hdc]; simp
    have hk : pre.length < dc.length := by rw [hdc]; simp
    have hka : dc[pre.length] = a := by simp [hdc]
    have hnpre : a ∉ pre := by
      rw [hdc] at nd
      exact fun hm => (List.nodup_append.mp nd).2.2 a hm a (by simp) rfl
    have hsz : a < fat.size := by
      rcases Nat.lt_or_ge a fat.size with h1 | h1
      · exact h1
      · rw [Array.getElem?_eq_none h1] at hab; cases hab
    have hbsz : b < fat.size := by
      obtain ⟨t, rfl⟩ := c.head
      obtain ⟨w, hw, _⟩ := IsChain.cell c b (by simp)
      rcases Nat.lt_or_ge b fat.size with h1 | h1
      · exact h1
      · rw [Array.getElem?_eq_none h1] at hw; cases hw
    have hn : nextSector fat a = .ok b := by
      unfold nextSector
      rw [dif_pos hsz]
      have : fat[a] = b := by rw [Array.getElem?_eq_getElem hsz] at hab; exact Option.some.inj hab
      simp only [this]
      rw [if_neg]
      intro ⟨_, h2⟩
      omega
    rw [dirLoop_step m h img numSectors fat a b fuel (pre.length + 1) pre.reverse acc (E pre.length)
      (reg a ha) (lt a ha) (by simpa using hnpre) (by intro ⟨x1, x2, x3⟩; have := hcount ⟨x1, x2⟩; omega)
      (by rw [← hka]; exact hread _ hk) hn]
    have := ih (pre ++ [a]) (acc ++ E pre.length) fuel (by rw [hdc]; simp) (by simp at hf ⊢; omega)
    simp only [List.length_append, List.length_cons, List.length_nil, List.reverse_append, List.reverse_cons,
      List.reverse_nil, List.nil_append, List.cons_append, Nat.zero_add] at this
    rw [this]
    simp [blocksFrom, List.append_assoc]

/-! ## the whole table -/

theorem flatten_blocks' {α : Type} (f : Nat → α) (e : Nat) : ∀ n : Nat,
    ((List.range n).map (fun k => (List.range e).map (fun j => f (k * e + j)))).flatten = (List.range (n * e)).map f := by
  intro n
  induction n with
  | zero => simp
  | succ n ih =>
    rw [List.range_succ, List.map_append, List.flatten_append, ih]
    simp only [List.map_cons, List.map_nil, List.flatten_cons, List.flatten_nil, List.append_nil]
    rw [Nat.succ_mul, List.range_add, List.map_append, List.map_map]
    rfl

/-- the directory table the reader is to come back with: one entry per slot of the directory chain -/
def tableOf (p : P) (rows : List Row) : List DirEntry :=
  (List.range ((chainOrEmpty p p.dirStart).length * (p.S / Gen.DIR_ENTRY_LEN))).map (slotEntry p (slotsOf p rows))

theorem sectorLen_of_v4 {h : Header} {p : P} (hv : h.v4 = p.v4) : h.sectorLen = p.S := by
  unfold Header.sectorLen P.S sectorLenOf
  rw [hv]

/-- **the directory chain loop of `open`, run on the rendered image, returns the writer's directory
table slot by slot** (both modes, both versions, files of every size) -/
theorem dirLoop_readback {p : P} {L : Nat → Nat} (rows : List Row) (j : JC p L) (mk : MK p) (ss : SS p)
    (sw : SlotsWf p (slotsOf p rows)) (hn : p.numSectors ≤ MAXREG) (m : Mode) (h : Header) (hv : h.v4 = p.v4)
    (hd : h.v4 = true → h.numDirSectors = (chainOrEmpty p p.dirStart).length) :
    dirLoop m h (render p rows) p.numSectors p.fat (p.numSectors + 1) p.dirStart 1 [] [] = .ok (tableOf p rows) := by
  have wf := rolesWf_of j mk
  have n := j.nc
  have hdirm : p.dirStart ∈ heads p L := by simp [heads, cont]
  obtain ⟨ld, cd⟩ := n.ch p.dirStart hdirm
  have ed : chainOrEmpty p p.dirStart = ld := chainOrEmpty_of_isChain n.ns hdirm cd
  have hS := sectorLen_of_v4 hv
  have hlen : ld.length ≤ p.numSectors :=
    length_le_of_nodup_lt p.numSectors ld (by rw [← ed]; exact wf.dirNd) (by rw [← ed]; exact wf.dirLt)
  have key := dirLoop_chain m h (render p rows) p.numSectors p.fat ld
    (fun k => (List.range (p.S / Gen.DIR_ENTRY_LEN)).map
      (fun t => slotEntry p (slotsOf p rows) (k * (p.S / Gen.DIR_ENTRY_LEN) + t)))
    (by rw [← ed]; exact wf.dirNd) (by rw [← ed]; exact wf.dirLt)
    (by intro x hx; have := wf.dirLt x (by rw [ed]; exact hx); omega)
    (by intro ⟨_, h2⟩; rw [hd h2, ed]; exact Nat.le_refl _)
    (by
      intro k hk
      have := readDirSector_readback p rows ss sw wf m k (by rw [ed]; exact hk) (p.S / Gen.DIR_ENTRY_LEN) 0 (by omega)
      simp only [Nat.zero_add] at this
      rw [hS, hv]
      simp only [ed] at this
      exact this)
    ld p.dirStart cd [] [] (p.numSectors + 1) (by simp) (by omega)
  simp only [List.length_nil, Nat.zero_add, List.reverse_nil, List.nil_append] at key
  rw [key, blocksFrom_eq]
  simp only [Nat.zero_add]
  rw [flatten_blocks']
  unfold tableOf
  rw [ed]

end CfbVerif.Phys
