import CfbVerif.Phys.DirAccepts
import CfbVerif.Dir.Wf
/-!
# From the directory model's tree to the table `open` reads back

`dirtable s` lists one row per node of the directory tree (and the root row).  Rendered into
distinct slots of the directory chain and read back (`dirLoop_readback`), the rows land in the
table at their slots (`table_row`), and the table then represents the tree in the sense of `DfsOk`
(`dfsOk_of_rows`): names, types, colours and the three links are those of the nodes, sibling order
comes from `Tree.WF`, and the colour rule from `RBAll`.
-/
namespace CfbVerif.Phys
open CfbVerif.Raw CfbVerif.Dir CfbVerif.Names

/-! ## rows land in their slots -/

theorem foldSlots_not_mem (rows : List Row) : ∀ (acc : Array (Option Row)) (i : Nat), i ∉ rows.map (·.slot) →
    (rows.foldl (fun acc r => acc.setIfInBounds r.slot (some r)) acc)[i]? = acc[i]? := by
  induction rows with
  | nil => intro acc i _; rfl
  | cons r rows ih =>
    intro acc i hi
    simp only [List.map_cons, List.mem_cons, not_or] at hi
    simp only [List.foldl_cons]
    rw [ih _ i hi.2, Array.getElem?_setIfInBounds, if_neg (fun h => hi.1 h.symm)]

theorem foldSlots_size (rows : List Row) : ∀ (acc : Array (Option Row)),
    (rows.foldl (fun acc r => acc.setIfInBounds r.slot (some r)) acc).size = acc.size := by
  induction rows with
  | nil => intro acc; rfl
  | cons r rows ih => intro acc; simp only [List.foldl_cons]; rw [ih, Array.size_setIfInBounds]

theorem foldSlots_mem (rows : List Row) : ∀ (acc : Array (Option Row)) (r : Row), (rows.map (·.slot)).Nodup → r ∈ rows →
    r.slot < acc.size → (rows.foldl (fun acc r => acc.setIfInBounds r.slot (some r)) acc)[r.slot]? = some (some r) := by
  induction rows with
  | nil => intro acc r _ hr; cases hr
  | cons x rows ih =>
    intro acc r nd hr hlt
    simp only [List.map_cons, List.nodup_cons] at nd
    simp only [List.foldl_cons]
    rcases List.mem_cons.mp hr with rfl | hr
    · rw [foldSlots_not_mem rows _ _ nd.1]
      simp [hlt]
    · exact ih _ r nd.2 hr (by rw [Array.size_setIfInBounds]; exact hlt)

/-- the number of directory slots of the rendered file -/
def dirCap (p : P) : Nat := (chainOrEmpty p p.dirStart).length * (p.S / Gen.DIR_ENTRY_LEN)

theorem slotsOf_size (p : P) (rows : List Row) : (slotsOf p rows).size = dirCap p := by
  unfold slotsOf dirCap
  rw [foldSlots_size]; simp

theorem slotsOf_row (p : P) (rows : List Row) (nd : (rows.map (·.slot)).Nodup) (r : Row) (hr : r ∈ rows)
    (hlt : r.slot < dirCap p) : (slotsOf p rows)[r.slot]? = some (some r) := by
  unfold slotsOf
  exact foldSlots_mem rows _ r nd hr (by simpa [dirCap] using hlt)

theorem slotsOf_free (p : P) (rows : List Row) (i : Nat) (hi : i ∉ rows.map (·.slot)) (hlt : i < dirCap p) :
    (slotsOf p rows)[i]? = some none := by
  unfold slotsOf
  rw [foldSlots_not_mem rows _ i hi]
  rw [Array.getElem?_eq_getElem (by simpa [dirCap] using hlt)]
  simp

theorem tableOf_get (p : P) (rows : List Row) (i : Nat) (hi : i < dirCap p) :
    (tableOf p rows).toArray[i]? = some (slotEntry p (slotsOf p rows) i) := by
  unfold tableOf
  simp only [List.getElem?_toArray, List.getElem?_map]
  rw [List.getElem?_range (by simpa [dirCap] using hi)]
  rfl

theorem tableOf_size (p : P) (rows : List Row) : (tableOf p rows).toArray.size = dirCap p := by
  unfold tableOf dirCap; simp

/-- **a row of the table is found at its slot** -/
theorem table_row (p : P) (rows : List Row) (nd : (rows.map (·.slot)).Nodup) (r : Row) (hr : r ∈ rows)
    (hlt : r.slot < dirCap p) :
    (tableOf p rows).toArray[r.slot]? = some (entryOf r (startLenOf p r).1 (startLenOf p r).2) := by
  rw [tableOf_get p rows r.slot hlt]
  unfold slotEntry
  rw [slotsOf_row p rows nd r hr hlt]
  rfl

/-! ## the table represents the tree -/

/-- no red node has a red child among its siblings, at every level -/
def RBAll : Tree → Prop
  | .leaf => True
  | .node l e k r => RBAll l ∧ RBAll k ∧ RBAll r ∧ (e.black = false → l.isRed = false ∧ r.isRed = false)

theorem linkOf_rootSlot (t : Tree) : linkOf t.rootSlot = lnk t := by
  cases t with
  | leaf => simp [Tree.rootSlot, linkOf, lnk]
  | node l e k r =>
    simp only [Tree.rootSlot, linkOf, lnk]
    have h : ¬ ((e.slot : Int) < 0) := Int.not_lt.mpr (Int.natCast_nonneg _)
    simp [h]

theorem allSib_root {q : Entry → Prop} {t : Tree} (h : t.AllSib q) : ∀ x, rootName? t = some x →
    ∃ e, q e ∧ e.name = x := by
  cases t with
  | leaf => intro x hx; cases hx
  | node l e k r => intro x hx; simp only [rootName?, Option.some.injEq] at hx; exact ⟨e, h.2.1, hx⟩

theorem dfsOk_of_rows (T : Array DirEntry) (strict : Bool) (sl : Row → Nat × Nat) (t : Tree) :
    (∀ r ∈ t.rows, T[r.slot]? = some (entryOf r (sl r).1 (sl r).2)) → t.WF → (strict = true → RBAll t) →
    (∀ s ∈ t.slots, s ≠ 0 ∧ s ≠ NOSTREAM) → DfsOk T strict t := by
  induction t with
  | leaf => intros; trivial
  | node l e k r ihl ihk ihr =>
    intro hrow wf rb hs
    obtain ⟨wl, wr, wk, hlt, hgt, hstream⟩ := wf
    simp only [Tree.rows, List.mem_append, List.mem_singleton] at hrow
    simp only [Tree.slots, List.mem_append, List.mem_singleton] at hs
    refine ⟨ihl (fun r hr => hrow r (Or.inl (Or.inl (Or.inl hr)))) wl (fun h => (rb h).1) (fun s h => hs s (Or.inl (Or.inl (Or.inl h)))),
      ihk (fun r hr => hrow r (Or.inl (Or.inr hr))) wk (fun h => (rb h).2.1) (fun s h => hs s (Or.inl (Or.inr h))),
      ihr (fun r hr => hrow r (Or.inr hr)) wr (fun h => (rb h).2.2.1) (fun s h => hs s (Or.inr h)),
      (hs e.slot (Or.inl (Or.inl (Or.inr rfl)))).1, (hs e.slot (Or.inl (Or.inl (Or.inr rfl)))).2, ?_, hstream, ?_, ?_, ?_⟩
    · have := hrow _ (Or.inl (Or.inl (Or.inr rfl)))
      refine ⟨_, this, rfl, ?_, rfl, ?_, ?_, ?_⟩
      · simp only [entryOf]
      · simp only [entryOf]; exact linkOf_rootSlot l
      · simp only [entryOf]; exact linkOf_rootSlot r
      · simp only [entryOf]; exact linkOf_rootSlot k
    · intro x hx
      obtain ⟨e', he', hn⟩ := allSib_root hlt x hx
      rw [← hn]; exact he'
    · intro x hx
      obtain ⟨e', he', hn⟩ := allSib_root hgt x hx
      rw [← hn]; exact (cmp_gt_iff _ _).mp he'
    · intro hst; exact (rb hst).2.2.2

end CfbVerif.Phys
