import CfbVerif.Phys.NoShareMini
import CfbVerif.Phys.MiniInv
import CfbVerif.Phys.NoPanic
/-!
# The in-memory MiniFAT stays trimmed, matches the mini stream's length, and holds 32-bit cells

`MA p`: the last cell of the in-memory MiniFAT is in use (`trim`: `free_mini_sector` pops trailing
FREE cells), the mini stream's length in the root entry is exactly 64 bytes per MiniFAT cell
(`root`), and every cell is FREE, END or a regular id (`small`).  Three of the four clauses of
`MiniFit` (C02: what the MiniFAT stage of `open` needs of the writer's state); the fourth — the
MiniFAT fits its chain — needs the FAT-level invariants and is `Phys/MiniCap.lean`.

Operations that allocate never shorten the MiniFAT (`GrowA`: with the final size in range every
id they write is regular), operations that release never write an id (`ShrinkA`); every store
operation is a release followed by an allocation phase (`KA`).
-/
namespace CfbVerif.Phys
open CfbVerif.Raw

/-- on the two fields it speaks about -/
structure MAr (mf : Array Nat) (len : Nat) : Prop where
  trim : ∀ v, mf.back? = some v → v ≠ FREE
  root : len = MINI * mf.size
  small : ∀ (i v : Nat), mf[i]? = some v → v = FREE ∨ v = END ∨ v ≤ MAXREG

def MA (p : P) : Prop := MAr p.miniFat p.rootLen

/-- the mini stream's recorded length is untouched -/
def SameRL (p q : P) : Prop := q.rootLen = p.rootLen

theorem SameRL.refl (p : P) : SameRL p p := rfl
theorem SameRL.trans {p q r : P} (h1 : SameRL p q) (h2 : SameRL q r) : SameRL p r := Eq.trans h2 h1

/-! ## the sector level leaves the mini stream's length alone -/

theorem rl0_setFat {p p' : P} {i v : Nat} (h : setFat p i v = .ok p') : SameRL p p' := by
  rcases setFat_ok h with ⟨_, he⟩ | ⟨_, he⟩ <;> subst he <;> exact rfl

theorem rl0_initSector {p p' : P} {id : Nat} {k : Init} (h : initSector p id k = .ok p') : SameRL p p' := by
  rcases initSector_ok h with ⟨_, he⟩ | ⟨_, he⟩ <;> subst he <;> exact rfl

theorem rl0_writeSector {p p' : P} {id off : Nat} {bs : Bytes} (h : writeSector p id off bs = .ok p') : SameRL p p' := by
  unfold writeSector at h
  split at h
  · cases h
  · cases h; exact rfl

theorem rl0_appendFatSector {p p' : P} (h : appendFatSector p = .ok p') : SameRL p p' := by
  unfold appendFatSector at h
  obtain ⟨p1, h1, h⟩ := bind_ok h
  obtain ⟨p2, h2, h⟩ := bind_ok h
  have s12 : SameRL p p2 := (rl0_initSector h1).trans ((SameRL.refl _ : SameRL _ { p1 with difat := p1.difat ++ [p.fat.size] }).trans (rl0_setFat h2))
  split at h
  · cases h; exact s12
  · dsimp only at h
    split at h
    · obtain ⟨p3, h3, h⟩ := bind_ok h
      obtain ⟨p4, h4, h⟩ := bind_ok h
      cases h
      exact ((s12.trans (rl0_initSector h3)).trans (rl0_setFat h4)).trans rfl
    · cases h; exact s12

theorem rl0_allocateSector {p p' : P} {id : Nat} {k : Init} (h : allocateSector p k = .ok (p', id)) : SameRL p p' := by
  unfold allocateSector at h
  split at h
  · obtain ⟨p1, h1, h⟩ := bind_ok h
    obtain ⟨p2, h2, h⟩ := bind_ok h
    cases h
    exact ((SameRL.refl _ : SameRL p { p with free := p.free.dropLast }).trans (rl0_setFat h1)).trans (rl0_initSector h2)
  · split at h
    · obtain ⟨p0, h0, h⟩ := bind_ok h
      obtain ⟨p1, h1, h⟩ := bind_ok h
      obtain ⟨p2, h2, h⟩ := bind_ok h
      cases h
      exact ((rl0_appendFatSector h0).trans (rl0_setFat h1)).trans (rl0_initSector h2)
    · obtain ⟨p0, h0, h⟩ := bind_ok h
      cases h0
      obtain ⟨p1, h1, h⟩ := bind_ok h
      obtain ⟨p2, h2, h⟩ := bind_ok h
      cases h
      exact (rl0_setFat h1).trans (rl0_initSector h2)

theorem rl0_extendChain {p p' : P} {start id : Nat} {k : Init} (h : extendChain p start k = .ok (p', id)) : SameRL p p' := by
  unfold extendChain at h
  obtain ⟨last, hl, h⟩ := bind_ok h
  obtain ⟨⟨p1, id1⟩, ha, h⟩ := bind_ok h
  obtain ⟨p2, hs, h⟩ := bind_ok h
  cases h
  exact (rl0_allocateSector ha).trans (rl0_setFat hs)

theorem rl0_freeChain (fuel : Nat) : ∀ {p p' : P} {cur : Nat}, freeChain p fuel cur = .ok p' → SameRL p p' := by
  induction fuel with
  | zero => intro p p' cur h; simp [freeChain] at h
  | succ fuel ih =>
    intro p p' cur h
    unfold freeChain at h
    split at h
    · cases h; exact SameRL.refl _
    · split at h
      · cases h
      · split at h
        · cases h
        · split at h
          · rename_i p1 h1
            exact ((rl0_setFat h1).trans (SameRL.refl _ : SameRL p1 { p1 with free := p1.free ++ [cur] })).trans (ih h)
          · cases h
          · cases h
          · cases h

theorem rl0_freeChainAfter {p p' : P} {id : Nat} (h : freeChainAfter p id = .ok p') : SameRL p p' := by
  unfold freeChainAfter at h
  split at h
  · cases h
  · obtain ⟨p1, h1, h⟩ := bind_ok h
    exact (rl0_setFat h1).trans (rl0_freeChain _ h)

theorem rl0_growOne {kind : Init} {p p' : P} {ids ids' : List Nat} (h : growOne kind p ids = .ok (p', ids')) : SameRL p p' := by
  unfold growOne at h
  split at h
  · split at h
    · rename_i he; cases h; exact rl0_extendChain he
    · cases h
    · cases h
    · cases h
  · split at h
    · rename_i he; cases h; exact rl0_allocateSector he
    · cases h
    · cases h
    · cases h

theorem rl0_chainWrite (kind : Init) (fuel : Nat) : ∀ {p p' : P} {ids ids' : List Nat} {off : Nat} {bs : Bytes},
    chainWrite kind fuel p ids off bs = .ok (p', ids') → SameRL p p' := by
  induction fuel with
  | zero => intro p p' ids ids' off bs h; simp [chainWrite] at h
  | succ fuel ih =>
    intro p p' ids ids' off bs h
    unfold chainWrite at h
    split at h
    · cases h; exact SameRL.refl _
    · dsimp only at h
      split at h
      · rename_i p1 ids1 hgrow
        have g1 : SameRL p p1 := by
          split at hgrow
          · exact rl0_growOne hgrow
          · cases hgrow; exact SameRL.refl _
        split at h
        · cases h
        · split at h
          · rename_i p2 hw
            exact (g1.trans (rl0_writeSector hw)).trans (ih h)
          · cases h
          · cases h
          · cases h
      · cases h
      · cases h
      · cases h

theorem rl0_chainGrow (kind : Init) (fuel : Nat) : ∀ {p p' : P} {ids ids' : List Nat} {target : Nat},
    chainGrow kind fuel p ids target = .ok (p', ids') → SameRL p p' := by
  induction fuel with
  | zero => intro p p' ids ids' target h; simp [chainGrow] at h
  | succ fuel ih =>
    intro p p' ids ids' target h
    unfold chainGrow at h
    split at h
    · cases h; exact SameRL.refl _
    · split at h
      · rename_i p1 ids1 hg
        exact (rl0_growOne hg).trans (ih h)
      · cases h
      · cases h
      · cases h

theorem rl0_chainSetLen {p p' : P} {ids ids' : List Nat} {kind : Init} {n : Nat}
    (h : chainSetLen p ids kind n = .ok (p', ids')) : SameRL p p' := by
  unfold chainSetLen at h
  dsimp only at h
  split at h
  · split at h
    · obtain ⟨q, hf, h⟩ := obind_ok h
      cases h; exact rl0_freeChain _ hf
    · cases h; exact SameRL.refl _
  · split at h
    · split at h
      · split at h
        · obtain ⟨q, hf, h⟩ := obind_ok h
          cases h; exact rl0_freeChainAfter hf
        · cases h
      · cases h; exact SameRL.refl _
    · exact rl0_chainGrow _ _ h


end CfbVerif.Phys

/-! ## the three array updates -/
namespace CfbVerif.Phys
open CfbVerif.Raw

/-- cells are FREE, END or regular, and the length matches: what survives while the last cell is FREE -/
structure MAw (mf : Array Nat) (len : Nat) : Prop where
  root : len = MINI * mf.size
  small : ∀ (i v : Nat), mf[i]? = some v → v = FREE ∨ v = END ∨ v ≤ MAXREG

theorem MAr.weak {mf : Array Nat} {len : Nat} (m : MAr mf len) : MAw mf len := ⟨m.root, m.small⟩

theorem maw_set {mf : Array Nat} {len : Nat} (idx v : Nat) (hs : v = FREE ∨ v = END ∨ v ≤ MAXREG)
    (m : MAw mf len) : MAw (mf.setIfInBounds idx v) len := by
  refine ⟨by rw [Array.size_setIfInBounds]; exact m.root, ?_⟩
  intro i w hw
  rw [Array.getElem?_setIfInBounds] at hw
  split at hw
  · split at hw
    · cases hw; exact hs
    · cases hw
  · exact m.small i w hw

theorem mar_set {mf : Array Nat} {len : Nat} (idx v : Nat) (hv : v ≠ FREE) (hs : v = END ∨ v ≤ MAXREG)
    (m : MAr mf len) : MAr (mf.setIfInBounds idx v) len := by
  have w := maw_set idx v (Or.inr hs) m.weak
  refine ⟨?_, w.root, w.small⟩
  intro x hx
  rw [Array.back?_eq_getElem?, Array.size_setIfInBounds, Array.getElem?_setIfInBounds] at hx
  split at hx
  · split at hx
    · cases hx; exact hv
    · cases hx
  · exact m.trim x (by rw [Array.back?_eq_getElem?]; exact hx)

theorem mar_push {mf : Array Nat} {len : Nat} (v : Nat) (hv : v ≠ FREE) (hs : v = END ∨ v ≤ MAXREG)
    (m : MAr mf len) : MAr (mf.push v) (len + MINI) := by
  refine ⟨?_, ?_, ?_⟩
  · intro x hx
    rw [Array.back?_push] at hx
    cases hx; exact hv
  · rw [Array.size_push, m.root, Nat.mul_add, Nat.mul_one]
  · intro i w hw
    rw [Array.getElem?_push] at hw
    split at hw
    · cases hw; exact Or.inr hs
    · exact m.small i w hw

theorem trim_spec : ∀ (fuel : Nat) (mf : Array Nat) (len : Nat), mf.size < fuel → MAw mf len →
    MAr (trimMiniFat fuel mf len).1 (trimMiniFat fuel mf len).2 ∧ (trimMiniFat fuel mf len).1.size ≤ mf.size := by
  intro fuel
  induction fuel with
  | zero => intro mf len h; omega
  | succ fuel ih =>
    intro mf len hf m
    unfold trimMiniFat
    split
    · rename_i hb
      have hpos : 0 < mf.size := by
        rcases Nat.eq_zero_or_pos mf.size with h0 | hp
        · rw [Array.back?_eq_getElem?, h0] at hb
          simp at hb
          have : mf.size ≤ 0 := by omega
          rw [Array.getElem?_eq_none this] at hb
          cases hb
        · exact hp
      have mp : MAw mf.pop (len - MINI) := by
        refine ⟨?_, ?_⟩
        · rw [Array.size_pop, m.root]
          have : MINI * mf.size = MINI * (mf.size - 1) + MINI := by
            rw [← Nat.mul_succ]; congr 1; omega
          omega
        · intro i v hv
          rw [Array.getElem?_pop] at hv
          split at hv
          · exact m.small i v hv
          · cases hv
      have r := ih mf.pop (len - MINI) (by rw [Array.size_pop]; omega) mp
      exact ⟨r.1, Nat.le_trans r.2 (by rw [Array.size_pop]; omega)⟩
    · rename_i hb
      exact ⟨⟨fun v hv e => hb (by rw [hv, e]), m.root, m.small⟩, Nat.le_refl _⟩

/-! ## summaries -/

/-- no release: the MiniFAT never gets shorter; with the final MiniFAT in range the invariant survives -/
structure GrowA (p p' : P) : Prop where
  mono : p.miniFat.size ≤ p'.miniFat.size
  keep : p'.miniFat.size ≤ MAXREG + 1 → MA p → MA p'

/-- no allocation: nothing to bound -/
def ShrinkA (p p' : P) : Prop := MA p → MA p'

/-- a release phase followed by an allocation phase -/
def KA (p p' : P) : Prop := p'.miniFat.size ≤ MAXREG + 1 → MA p → MA p'

theorem GrowA.refl (p : P) : GrowA p p := ⟨Nat.le_refl _, fun _ m => m⟩
theorem ShrinkA.refl (p : P) : ShrinkA p p := fun m => m
theorem GrowA.trans {p q r : P} (h1 : GrowA p q) (h2 : GrowA q r) : GrowA p r :=
  ⟨Nat.le_trans h1.mono h2.mono, fun hb m => h2.keep hb (h1.keep (Nat.le_trans h2.mono hb) m)⟩
theorem ShrinkA.trans {p q r : P} (h1 : ShrinkA p q) (h2 : ShrinkA q r) : ShrinkA p r := fun m => h2 (h1 m)
theorem ShrinkA.then {p q r : P} (h1 : ShrinkA p q) (h2 : GrowA q r) : KA p r := fun hb m => h2.keep hb (h1 m)
theorem ShrinkA.toKA {p q : P} (h : ShrinkA p q) : KA p q := fun _ m => h m
theorem GrowA.toKA {p q : P} (h : GrowA p q) : KA p q := h.keep

theorem ma_of_same {p q : P} (hm : q.miniFat = p.miniFat) (hr : q.rootLen = p.rootLen) (m : MA p) : MA q := by
  unfold MA at m ⊢
  rw [hm, hr]; exact m

theorem GrowA.of_same {p q : P} (hm : q.miniFat = p.miniFat) (hr : q.rootLen = p.rootLen) : GrowA p q :=
  ⟨by rw [hm]; exact Nat.le_refl _, fun _ m => ma_of_same hm hr m⟩
theorem ShrinkA.of_same {p q : P} (hm : q.miniFat = p.miniFat) (hr : q.rootLen = p.rootLen) : ShrinkA p q :=
  fun m => ma_of_same hm hr m

/-! ## the mini level -/

theorem rl0_setMiniFat {p p' : P} {i v : Nat} (h : setMiniFat p i v = .ok p') : SameRL p p' := by
  have r := (setMiniFat_ok h).1
  unfold SameRL; rw [r]

theorem rl0_popFreeMini {fuel : Nat} {p p1 : P} {r : Option Nat} (h : popFreeMini p fuel = .ok (p1, r)) : SameRL p p1 := by
  have e := (popFreeMini_ok fuel h).1
  unfold SameRL; rw [e]

theorem rl0_ensureRootRoom {p p' : P} (h : ensureRootRoom p = .ok p') : SameRL p p' := by
  unfold ensureRootRoom at h
  split at h
  · split at h
    · rename_i ha; cases h
      exact (rl0_allocateSector ha).trans rfl
    · cases h
    · cases h
    · cases h
  · split at h
    · split at h
      · split at h
        · split at h
          · rename_i he; cases h; exact rl0_extendChain he
          · cases h
          · cases h
          · cases h
        · cases h; exact SameRL.refl _
      · cases h
      · cases h
      · cases h
    · cases h; exact SameRL.refl _

theorem rl0_ensureMiniFatRoom {p p' : P} (h : ensureMiniFatRoom p = .ok p') : SameRL p p' := by
  unfold ensureMiniFatRoom at h
  dsimp only at h
  split at h
  · split at h
    · rename_i ha; cases h
      exact (rl0_allocateSector ha).trans rfl
    · cases h
    · cases h
    · cases h
  · split at h
    · split at h
      · split at h
        · split at h
          · rename_i he; cases h; exact rl0_extendChain he
          · cases h
          · cases h
          · cases h
        · cases h; exact SameRL.refl _
      · cases h
      · cases h
      · cases h
    · cases h; exact SameRL.refl _

theorem appendMiniSector_rootLen {p p' : P} (h : appendMiniSector p = .ok p') : p'.rootLen = p.rootLen + MINI := by
  unfold appendMiniSector at h
  split at h
  · rename_i q hr; cases h
    show q.rootLen + MINI = p.rootLen + MINI
    rw [(rl0_ensureRootRoom hr : q.rootLen = p.rootLen)]
  · cases h
  · cases h
  · cases h

/-- what `allocate_mini_sector` does to the two fields, for any value -/
theorem allocateMiniSector_specA {p p' : P} {v id : Nat} (h : allocateMiniSector p v = .ok (p', id)) :
    (id < p.miniFat.size ∧ p'.miniFat = p.miniFat.setIfInBounds id v ∧ p'.rootLen = p.rootLen) ∨
    (id = p.miniFat.size ∧ p'.miniFat = p.miniFat.push v ∧ p'.rootLen = p.rootLen + MINI) := by
  unfold allocateMiniSector at h
  obtain ⟨⟨p1, reuse⟩, hp, h⟩ := bind_ok h
  have e0 := mf_popFreeMini hp
  have r0 : p1.rootLen = p.rootLen := rl0_popFreeMini hp
  dsimp only at h
  split at h
  · rename_i idx
    obtain ⟨p2, hs, h⟩ := bind_ok h
    have r2 : p2.rootLen = p1.rootLen := rl0_setMiniFat hs
    cases h
    have hidx := (popFreeMini_ok _ hp).2 id rfl
    have hlt : id < p1.miniFat.size := lt_of_get hidx
    left
    rcases setMiniFat_ok2 hs with ⟨he, _⟩ | ⟨_, he⟩
    · omega
    · exact ⟨by rw [← e0]; exact hlt, by rw [he, e0], by rw [r2, r0]⟩
  · obtain ⟨p2, h2, h⟩ := bind_ok h
    obtain ⟨p3, h3, h⟩ := bind_ok h
    obtain ⟨p4, h4, h⟩ := bind_ok h
    have r4 : p4.rootLen = p3.rootLen := rl0_setMiniFat h4
    cases h
    have e2 := mf_ensureMiniFatRoom h2
    have e3 := mf_appendMiniSector h3
    have r2 : p2.rootLen = p1.rootLen := rl0_ensureMiniFatRoom h2
    have r3 := appendMiniSector_rootLen h3
    right
    rcases setMiniFat_ok2 h4 with ⟨_, he⟩ | ⟨hl, _⟩
    · exact ⟨by rw [e2, e0], by rw [he, e3, e2, e0], by rw [r4, r3, r2, r0]⟩
    · rw [e3] at hl; omega

theorem grow_allocateMiniSectorA {p p' : P} {v id : Nat} (h : allocateMiniSector p v = .ok (p', id))
    (hv : v ≠ FREE) (hs : v = END ∨ v ≤ MAXREG) : GrowA p p' := by
  rcases allocateMiniSector_specA h with ⟨_, hm, hr⟩ | ⟨_, hm, hr⟩
  · refine ⟨by rw [hm]; simp, ?_⟩
    intro _ m
    unfold MA at m ⊢
    rw [hm, hr]; exact mar_set id v hv hs m
  · refine ⟨by rw [hm]; simp, ?_⟩
    intro _ m
    unfold MA at m ⊢
    rw [hm, hr]; exact mar_push v hv hs m

theorem END_small : END = END ∨ END ≤ MAXREG := Or.inl rfl

theorem grow_extendMiniChainA {p p' : P} {start id : Nat} (h : extendMiniChain p start = .ok (p', id)) : GrowA p p' := by
  unfold extendMiniChain at h
  obtain ⟨last, hl, h⟩ := bind_ok h
  obtain ⟨⟨p1, id1⟩, ha, h⟩ := bind_ok h
  obtain ⟨p2, hs, h⟩ := bind_ok h
  cases h
  have hlast := lastOfMiniChain_ok _ _ hl
  have g1 := grow_allocateMiniSectorA ha END_ne_FREE END_small
  have hid : id < p1.miniFat.size := by
    rcases allocateMiniSector_specA ha with ⟨hlt, hm, _⟩ | ⟨he, hm, _⟩
    · rw [hm]; simpa using hlt
    · rw [hm, he]; simp
  have hp' : p'.miniFat = p1.miniFat.setIfInBounds last id := by
    rcases setMiniFat_ok2 hs with ⟨he, _⟩ | ⟨_, he⟩
    · have := g1.mono; omega
    · exact he
  have hr' : p'.rootLen = p1.rootLen := rl0_setMiniFat hs
  refine ⟨by rw [hp']; simpa using g1.mono, ?_⟩
  intro hb m
  have hb1 : p1.miniFat.size ≤ MAXREG + 1 := by rw [hp'] at hb; simpa using hb
  have m1 := g1.keep hb1 m
  unfold MA at m1 ⊢
  rw [hp', hr']
  have hreg : id ≤ MAXREG := by omega
  exact mar_set last id (by have := MAXREG_lt_FREE; omega) (Or.inr hreg) m1

theorem grow_growOneMiniA {p p' : P} {ids ids' : List Nat} (h : growOneMini p ids = .ok (p', ids')) : GrowA p p' := by
  unfold growOneMini at h
  split at h
  · split at h
    · rename_i he; cases h; exact grow_extendMiniChainA he
    · cases h
    · cases h
    · cases h
  · split at h
    · rename_i he; cases h; exact grow_allocateMiniSectorA he END_ne_FREE END_small
    · cases h
    · cases h
    · cases h

theorem rl0_miniWriteAt {p p' : P} {m off : Nat} {bs : Bytes} (h : miniWriteAt p m off bs = .ok p') : SameRL p p' := by
  unfold miniWriteAt at h
  obtain ⟨⟨sid, base⟩, hl, h⟩ := bind_ok h
  exact rl0_writeSector h

theorem grow_miniWriteAtA {p p' : P} {m off : Nat} {bs : Bytes} (h : miniWriteAt p m off bs = .ok p') : GrowA p p' :=
  GrowA.of_same (sm_miniWriteAt h).1 (rl0_miniWriteAt h)

theorem grow_miniChainWriteA (fuel : Nat) : ∀ {p p' : P} {ids ids' : List Nat} {off : Nat} {bs : Bytes},
    miniChainWrite fuel p ids off bs = .ok (p', ids') → GrowA p p' := by
  induction fuel with
  | zero => intro p p' ids ids' off bs h; simp [miniChainWrite] at h
  | succ fuel ih =>
    intro p p' ids ids' off bs h
    unfold miniChainWrite at h
    split at h
    · cases h; exact GrowA.refl _
    · split at h
      · rename_i p1 ids1 hgrow
        have g1 : GrowA p p1 := by
          split at hgrow
          · exact grow_growOneMiniA hgrow
          · cases hgrow; exact GrowA.refl _
        split at h
        · cases h
        · dsimp only at h
          split at h
          · rename_i p2 hw
            exact (g1.trans (grow_miniWriteAtA hw)).trans (ih h)
          · cases h
          · cases h
          · cases h
      · cases h
      · cases h
      · cases h

theorem grow_miniChainGrowA (fuel : Nat) : ∀ {p p' : P} {ids ids' : List Nat} {target : Nat},
    miniChainGrow fuel p ids target = .ok (p', ids') → GrowA p p' := by
  induction fuel with
  | zero => intro p p' ids ids' target h; simp [miniChainGrow] at h
  | succ fuel ih =>
    intro p p' ids ids' target h
    unfold miniChainGrow at h
    split at h
    · cases h; exact GrowA.refl _
    · split at h
      · rename_i p1 ids1 hg
        split at h
        · rename_i p2 hw
          exact ((grow_growOneMiniA hg).trans (grow_miniWriteAtA hw)).trans (ih h)
        · cases h
        · cases h
        · cases h
      · cases h
      · cases h
      · cases h

theorem shrink_freeMiniSectorA {p p' : P} {id : Nat} (h : freeMiniSector p id = .ok p') : ShrinkA p p' := by
  unfold freeMiniSector at h
  split at h
  · cases h
  · rename_i cell hc
    split at h
    · cases h
    · obtain ⟨p1, hs, h⟩ := bind_ok h
      cases h
      intro m
      have hr1 : p1.rootLen = p.rootLen := rl0_setMiniFat hs
      have hset : p1.miniFat = p.miniFat.setIfInBounds id FREE := by
        rcases setMiniFat_ok2 hs with ⟨he, _⟩ | ⟨_, he⟩
        · have := lt_of_get hc; omega
        · exact he
      have w : MAw p1.miniFat p1.rootLen := by
        rw [hset, hr1]; exact maw_set id FREE (Or.inl rfl) (MAr.weak m)
      exact (trim_spec _ _ _ (Nat.lt_succ_self _) w).1

theorem shrink_freeMiniChainA (fuel : Nat) : ∀ {p p' : P} {cur : Nat}, freeMiniChain p fuel cur = .ok p' → ShrinkA p p' := by
  induction fuel with
  | zero => intro p p' cur h; simp [freeMiniChain] at h
  | succ fuel ih =>
    intro p p' cur h
    unfold freeMiniChain at h
    split at h
    · cases h; exact ShrinkA.refl _
    · split at h
      · cases h
      · split at h
        · rename_i p1 h1
          exact (shrink_freeMiniSectorA h1).trans (ih h)
        · cases h
        · cases h
        · cases h

theorem shrink_freeMiniChainAfterA {p p' : P} {id : Nat} (h : freeMiniChainAfter p id = .ok p') : ShrinkA p p' := by
  unfold freeMiniChainAfter at h
  split at h
  · cases h
  · rename_i next hn
    obtain ⟨p1, hs, h⟩ := bind_ok h
    have ns := nextSector_ok (fat := p.miniFat) hn
    have hp1 : p1.miniFat = p.miniFat.setIfInBounds id END := by
      rcases setMiniFat_ok2 hs with ⟨he, _⟩ | ⟨_, he⟩
      · omega
      · exact he
    have hr1 : p1.rootLen = p.rootLen := rl0_setMiniFat hs
    have s1 : ShrinkA p p1 := by
      intro m
      unfold MA at m ⊢
      rw [hp1, hr1]; exact mar_set id END END_ne_FREE END_small m
    exact s1.trans (shrink_freeMiniChainA _ h)

theorem miniChainSetLen_shapeA {p p' : P} {ids ids' : List Nat} {n : Nat}
    (h : miniChainSetLen p ids n = .ok (p', ids')) : ShrinkA p p' ∨ GrowA p p' := by
  unfold miniChainSetLen at h
  dsimp only at h
  split at h
  · split at h
    · obtain ⟨q, hf, h⟩ := obind_ok h
      cases h; exact Or.inl (shrink_freeMiniChainA _ hf)
    · cases h; exact Or.inl (ShrinkA.refl _)
  · split at h
    · split at h
      · split at h
        · obtain ⟨q, hf, h⟩ := obind_ok h
          cases h; exact Or.inl (shrink_freeMiniChainAfterA hf)
        · cases h
      · cases h; exact Or.inl (ShrinkA.refl _)
    · exact Or.inr (grow_miniChainGrowA _ h)

end CfbVerif.Phys

/-! ## streams and the store machine -/
namespace CfbVerif.Phys
open CfbVerif.Raw

theorem ma_setStart {p : P} (m : MA p) (s x : Nat) : MA (setStart p s x) := m
theorem ma_dropStart {p : P} (m : MA p) (s : Nat) : MA (dropStart p s) := m

theorem same_chainWriteA {kind : Init} {fuel : Nat} {p p' : P} {ids ids' : List Nat} {off : Nat} {bs : Bytes}
    (h : chainWrite kind fuel p ids off bs = .ok (p', ids')) : GrowA p p' :=
  GrowA.of_same (sm_chainWrite _ _ h).1 (rl0_chainWrite _ _ h)

theorem same_chainSetLenA {p p' : P} {ids ids' : List Nat} {kind : Init} {n : Nat}
    (h : chainSetLen p ids kind n = .ok (p', ids')) : GrowA p p' :=
  GrowA.of_same (sm_chainSetLen h).1 (rl0_chainSetLen h)

theorem same_freeChainFromA {p p' : P} {start : Nat} (h : freeChainFrom p start = .ok p') : GrowA p p' :=
  GrowA.of_same (sm_freeChain _ h).1 (rl0_freeChain _ h)

theorem GrowA.toShrink_of_same {p q : P} (hm : q.miniFat = p.miniFat) (hr : q.rootLen = p.rootLen) : ShrinkA p q :=
  ShrinkA.of_same hm hr

theorem ka_writeData {p p' : P} {slot oldLen off n : Nat} {buf : Bytes}
    (h : writeData p slot oldLen off buf = .ok (p', n)) : KA p p' := by
  unfold writeData at h
  dsimp only [bind, pure] at h
  split at h
  · split at h
    · cases h
    · split at h
      · obtain ⟨⟨q, ids⟩, hw, h⟩ := obind_ok h
        cases h
        exact (grow_miniChainWriteA _ hw).toKA
      · obtain ⟨⟨q, ids⟩, hw, h⟩ := obind_ok h
        cases h
        exact (same_chainWriteA hw).toKA
  · split at h
    · split at h
      · obtain ⟨ids, hi, h⟩ := obind_ok h
        split at h
        · cases h
        · obtain ⟨⟨q, ids'⟩, hw, h⟩ := obind_ok h
          cases h
          exact (grow_miniChainWriteA _ hw).toKA
      · obtain ⟨ids, hi, h⟩ := obind_ok h
        obtain ⟨tmp, hr, h⟩ := obind_ok h
        obtain ⟨q1, hf, h⟩ := obind_ok h
        obtain ⟨⟨q2, ids1⟩, hw1, h⟩ := obind_ok h
        obtain ⟨⟨q3, ids2⟩, hw2, h⟩ := obind_ok h
        cases h
        have g : GrowA q1 q3 := (same_chainWriteA hw1).trans (same_chainWriteA hw2)
        have k : KA p q3 := (shrink_freeMiniChainA _ hf).then g
        exact k
    · obtain ⟨ids, hi, h⟩ := obind_ok h
      split at h
      · cases h
      · obtain ⟨⟨q, ids'⟩, hw, h⟩ := obind_ok h
        cases h
        exact (same_chainWriteA hw).toKA

theorem ka_resize {p p' : P} {slot oldLen newLen : Nat} (h : resize p slot oldLen newLen = .ok p') : KA p p' := by
  unfold resize at h
  dsimp only [bind, pure] at h
  split at h
  · split at h
    · cases h
    · split at h
      · obtain ⟨⟨q, ids⟩, hs, h⟩ := obind_ok h
        cases h
        rcases miniChainSetLen_shapeA hs with s | g
        · exact s.toKA
        · exact g.toKA
      · obtain ⟨⟨q, ids⟩, hs, h⟩ := obind_ok h
        cases h; exact (same_chainSetLenA hs).toKA
  · split at h
    · split at h
      · obtain ⟨q, hf, h⟩ := obind_ok h
        cases h; exact (shrink_freeMiniChainA _ hf).toKA
      · split at h
        · obtain ⟨ids, hi, h⟩ := obind_ok h
          obtain ⟨⟨q, ids'⟩, hs, h⟩ := obind_ok h
          dsimp only at h
          split at h
          · split at h
            · cases h
            · obtain ⟨⟨q2, x⟩, hw, h⟩ := obind_ok h
              cases h
              rcases miniChainSetLen_shapeA hs with s | g
              · exact s.then (grow_miniChainWriteA _ hw)
              · exact (g.trans (grow_miniChainWriteA _ hw)).toKA
          · cases h
            rcases miniChainSetLen_shapeA hs with s | g
            · exact s.toKA
            · exact g.toKA
        · obtain ⟨ids, hi, h⟩ := obind_ok h
          obtain ⟨tmp, hr, h⟩ := obind_ok h
          obtain ⟨q1, hf, h⟩ := obind_ok h
          obtain ⟨⟨q2, ids1⟩, hw1, h⟩ := obind_ok h
          obtain ⟨⟨q3, ids2⟩, hs, h⟩ := obind_ok h
          cases h
          have g : GrowA q1 q3 := (same_chainWriteA hw1).trans (same_chainSetLenA hs)
          have k : KA p q3 := (shrink_freeMiniChainA _ hf).then g
          exact k
    · split at h
      · obtain ⟨q, hf, h⟩ := obind_ok h
        cases h; exact (same_freeChainFromA hf).toKA
      · split at h
        · obtain ⟨ids, hi, h⟩ := obind_ok h
          obtain ⟨tmp, hr, h⟩ := obind_ok h
          obtain ⟨q1, hf, h⟩ := obind_ok h
          obtain ⟨⟨q2, ids1⟩, hw, h⟩ := obind_ok h
          cases h
          exact ((same_freeChainFromA hf).trans (grow_miniChainWriteA _ hw)).toKA
        · obtain ⟨ids, hi, h⟩ := obind_ok h
          obtain ⟨⟨q, ids'⟩, hs, h⟩ := obind_ok h
          dsimp only at h
          split at h
          · split at h
            · cases h
            · obtain ⟨⟨q2, x⟩, hw, h⟩ := obind_ok h
              cases h
              exact ((same_chainSetLenA hs).trans (same_chainWriteA hw)).toKA
          · cases h; exact (same_chainSetLenA hs).toKA

theorem ka_freeStream {p p' : P} {slot len : Nat} (h : freeStream p slot len = .ok p') : KA p p' := by
  unfold freeStream at h
  dsimp only [bind, pure] at h
  split at h
  · obtain ⟨q, hf, h⟩ := obind_ok h
    cases h; exact (shrink_freeMiniChainA _ hf).toKA
  · obtain ⟨q, hf, h⟩ := obind_ok h
    cases h; exact (same_freeChainFromA hf).toKA

theorem ka_ensureDirSlot {p p' : P} {slot : Nat} (h : ensureDirSlot p slot = .ok p') : KA p p' := by
  unfold ensureDirSlot at h
  split at h
  · cases h; exact fun _ m => m
  · split at h
    · split at h
      · rename_i he; cases h
        exact (GrowA.of_same (sm_extendChain he).1 (rl0_extendChain he)).toKA
      · cases h
      · cases h
      · cases h
    · cases h; exact fun _ m => m

theorem ka_reopen {p p' : P} (h : Phys.reopen p = .ok p') : KA p p' := by
  unfold Phys.reopen at h
  obtain ⟨chain, hc, h⟩ := bind_ok h
  cases h
  exact fun _ m => m

theorem ka_gstep {g g' : G} {op : GOp} (h : gstep g op = .ok g') : KA g.p g'.p := by
  cases op with
  | ensure s => obtain ⟨q, hq, h⟩ := obind_ok h; cases h; exact ka_ensureDirSlot hq
  | create s =>
    simp only [gstep] at h
    split at h
    · cases h; exact fun _ m => m
    · cases h
  | write s off bs => obtain ⟨r, hq, h⟩ := obind_ok h; cases h; exact ka_writeData hq
  | resize s n => obtain ⟨q, hq, h⟩ := obind_ok h; cases h; exact ka_resize hq
  | free s => obtain ⟨q, hq, h⟩ := obind_ok h; cases h; exact ka_freeStream hq
  | reopen => obtain ⟨q, hq, h⟩ := obind_ok h; cases h; exact ka_reopen hq

theorem ma_grun (ops : List GOp) : ∀ g : G, MA g.p → MiniBounded g ops → MA (grun g ops).p := by
  induction ops with
  | nil => intro g m _; exact m
  | cons op rest ih =>
    intro g m hb
    simp only [grun, MiniBounded] at hb ⊢
    split
    · rename_i g' hg
      rw [hg] at hb
      exact ih g' (ka_gstep hg hb.1 m) hb.2
    · rename_i hne
      split at hb
      · rename_i g' hg; exact absurd hg (hne g')
      · exact ih g m hb

theorem ma_create (v4 : Bool) : MA (Phys.create v4) := by
  refine ⟨?_, ?_, ?_⟩
  · intro v h; simp [Phys.create] at h
  · simp [Phys.create]
  · intro i v h; simp [Phys.create] at h

/-- **in every state the store machine reaches from a fresh file** (with the MiniFAT below 2³² cells)
the in-memory MiniFAT is trimmed, the mini stream is exactly 64 bytes per cell long, and every
cell is FREE, END or a regular id -/
theorem ma_reachable (v4 : Bool) (ops : List GOp) :
    MiniBounded { p := Phys.create v4, L := fun _ => 0 } ops →
    MA (grun { p := Phys.create v4, L := fun _ => 0 } ops).p :=
  fun hb => ma_grun ops _ (ma_create v4) hb

end CfbVerif.Phys
